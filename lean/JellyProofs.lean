import JellyProofs.Tables
import JellyProofs.C05
import JellyProofs.C08
import JellyProofs.C10
import JellyProofs.C13
import JellyProofs.C04
import JellyProofs.C06
import JellyProofs.C18

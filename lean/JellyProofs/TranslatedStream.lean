import JellyGenerated.StreamGen
import JellyProofs.TranslatedStmt
import JellyProofs.TranslatedFlows
/-!
# The TRANSLATED statement methods of the writer's streams equal the model

`JellyGenerated/StreamGen.lean` is produced from `TripleStream.triple`, `QuadStream.quad` and `Stream.enroll`
(`pyjelly/serialize/streams.py`) by `harness/gen_translate_stream.py` on every run. They join the other translations: every row
the translated `encode_triple` / `encode_quad` returns is appended to the flow (C06: nothing is dropped between the encoder and
the flow), the flow is asked for a frame after every statement (C07 / C11: the translated `frame_from_bounds` of the flow's
class), and the options row is pushed exactly once, before anything else (C13).
-/
set_option linter.unusedSimpArgs false
namespace Jelly.Translated
open Jelly Jelly.Py

/-- `TripleStream.triple`, for every per-term encoder like the model's and every `frame_from_bounds` that agrees with the
    model on flows of this stream's flow class -/
theorem stream_triple_eq (enc encG : Term → M TermEnc (List Row × WTerm)) (henc : EncLike enc TermEnc.spo)
    (exc : PyErr) (ffb : M Flow (Option Frame)) (s : Stream)
    (hffb : ∀ f : Flow, f.kind = s.flow.kind → FlowAgrees ffb Flow.frameFromBounds f) (terms : List Term) :
    swap ((Gen.TripleStream.triple enc encG exc ffb terms).exec s) = s.triple exc terms := by
  unfold Gen.TripleStream.triple Stream.triple
  have h1 := encode_triple_eq enc encG henc exc s.enc terms
  simp only [M.exec, ExceptT.run, StateT.run] at h1
  rcases he : encodeTriple exc s.enc terms with ⟨enc', r⟩
  rw [he] at h1
  have h1' := swap_eq h1
  cases r with
  | error e => py_simp [swap, h1', he]
  | ok rows =>
    have h2 := hffb ({ s.flow with rows := s.flow.rows ++ rows }) rfl
    simp only [FlowAgrees, M.exec, ExceptT.run, StateT.run] at h2
    py_simp [swap, h1', he, flowExtend, Stream.pushRows, h2]

/-- `QuadStream.quad` -/
theorem stream_quad_eq (enc encG : Term → M TermEnc (List Row × WTerm)) (henc : EncLike enc TermEnc.spo)
    (hencG : EncLike encG TermEnc.graph) (exc : PyErr) (ffb : M Flow (Option Frame)) (s : Stream)
    (hffb : ∀ f : Flow, f.kind = s.flow.kind → FlowAgrees ffb Flow.frameFromBounds f) (terms : List Term) :
    swap ((Gen.QuadStream.quad enc encG exc ffb terms).exec s) = s.quad exc terms := by
  unfold Gen.QuadStream.quad Stream.quad
  have h1 := encode_quad_eq enc encG henc hencG exc s.enc terms
  simp only [M.exec, ExceptT.run, StateT.run] at h1
  rcases he : encodeQuad exc s.enc terms with ⟨enc', r⟩
  rw [he] at h1
  have h1' := swap_eq h1
  cases r with
  | error e => py_simp [swap, h1', he]
  | ok rows =>
    have h2 := hffb ({ s.flow with rows := s.flow.rows ++ rows }) rfl
    simp only [FlowAgrees, M.exec, ExceptT.run, StateT.run] at h2
    py_simp [swap, h1', he, flowExtend, Stream.pushRows, h2]

/-- `Stream.enroll`: the options row is pushed once, the first time -/
theorem stream_enroll_eq (s : Stream) :
    (Gen.Stream.enroll s.optionsRow).exec s = (.ok (), s.enroll) := by
  unfold Gen.Stream.enroll Gen.Stream.stream_options Stream.enroll
  by_cases h : s.enrolled = true
  · py_simp [h]
  · py_simp [h, flowExtend, Stream.pushRows]

/-- the dynamic dispatch `self.flow.frame_from_bounds()` resolved: for each of the six flow classes, the translated method of
    that class is a legitimate `ffb` for a stream whose flow is of that class -/
theorem stream_triple_flatTriples (enc encG : Term → M TermEnc (List Row × WTerm)) (henc : EncLike enc TermEnc.spo)
    (exc : PyErr) (s : Stream) (hk : s.flow.kind = .flatTriples) (terms : List Term) :
    swap ((Gen.TripleStream.triple enc encG exc Gen.FlatTriplesFrameFlow.frame_from_bounds terms).exec s) = s.triple exc terms :=
  stream_triple_eq enc encG henc exc _ s (fun f hf => flatTriples_frame_from_bounds f (hf.trans hk)) terms

theorem stream_triple_manual (enc encG : Term → M TermEnc (List Row × WTerm)) (henc : EncLike enc TermEnc.spo)
    (exc : PyErr) (s : Stream) (hk : s.flow.kind = .manual) (terms : List Term) :
    swap ((Gen.TripleStream.triple enc encG exc Gen.ManualFrameFlow.frame_from_bounds terms).exec s) = s.triple exc terms :=
  stream_triple_eq enc encG henc exc _ s (fun f hf => manual_frame_from_bounds f (hf.trans hk)) terms

theorem stream_triple_bounded (enc encG : Term → M TermEnc (List Row × WTerm)) (henc : EncLike enc TermEnc.spo)
    (exc : PyErr) (s : Stream) (hk : s.flow.kind = .bounded) (terms : List Term) :
    swap ((Gen.TripleStream.triple enc encG exc Gen.BoundedFrameFlow.frame_from_bounds terms).exec s) = s.triple exc terms :=
  stream_triple_eq enc encG henc exc _ s (fun f hf => bounded_frame_from_bounds f (hf.trans hk)) terms

theorem stream_triple_graphs (enc encG : Term → M TermEnc (List Row × WTerm)) (henc : EncLike enc TermEnc.spo)
    (exc : PyErr) (s : Stream) (hk : s.flow.kind = .graphs) (terms : List Term) :
    swap ((Gen.TripleStream.triple enc encG exc Gen.GraphsFrameFlow.frame_from_bounds terms).exec s) = s.triple exc terms :=
  stream_triple_eq enc encG henc exc _ s (fun f hf => graphs_frame_from_bounds f (hf.trans hk)) terms

theorem stream_quad_flatQuads (enc encG : Term → M TermEnc (List Row × WTerm)) (henc : EncLike enc TermEnc.spo)
    (hencG : EncLike encG TermEnc.graph) (exc : PyErr) (s : Stream) (hk : s.flow.kind = .flatQuads) (terms : List Term) :
    swap ((Gen.QuadStream.quad enc encG exc Gen.FlatQuadsFrameFlow.frame_from_bounds terms).exec s) = s.quad exc terms :=
  stream_quad_eq enc encG henc hencG exc _ s (fun f hf => flatQuads_frame_from_bounds f (hf.trans hk)) terms

theorem stream_quad_manual (enc encG : Term → M TermEnc (List Row × WTerm)) (henc : EncLike enc TermEnc.spo)
    (hencG : EncLike encG TermEnc.graph) (exc : PyErr) (s : Stream) (hk : s.flow.kind = .manual) (terms : List Term) :
    swap ((Gen.QuadStream.quad enc encG exc Gen.ManualFrameFlow.frame_from_bounds terms).exec s) = s.quad exc terms :=
  stream_quad_eq enc encG henc hencG exc _ s (fun f hf => manual_frame_from_bounds f (hf.trans hk)) terms

theorem stream_quad_datasets (enc encG : Term → M TermEnc (List Row × WTerm)) (henc : EncLike enc TermEnc.spo)
    (hencG : EncLike encG TermEnc.graph) (exc : PyErr) (s : Stream) (hk : s.flow.kind = .datasets) (terms : List Term) :
    swap ((Gen.QuadStream.quad enc encG exc Gen.DatasetsFrameFlow.frame_from_bounds terms).exec s) = s.quad exc terms :=
  stream_quad_eq enc encG henc hencG exc _ s (fun f hf => datasets_frame_from_bounds f (hf.trans hk)) terms

/-- `Stream.namespace_declaration`: the rows of the translated `encode_namespace_declaration` all reach the flow; nothing else
    of the stream changes (C14) -/
theorem stream_namespace_declaration_eq (s : Stream) (name iri : String)
    (hp : s.enc.te.prefixes.lookup.evicting = true → s.enc.te.prefixes.lookup.data ≠ [])
    (hn : s.enc.te.names.lookup.evicting = true → s.enc.te.names.lookup.data ≠ []) :
    swap ((Gen.Stream.namespace_declaration name iri).exec s) = s.namespaceDeclaration name iri := by
  unfold Gen.Stream.namespace_declaration Stream.namespaceDeclaration
  have h1 := encode_namespace_declaration_eq s.enc.te name iri hp hn
  simp only [M.exec, ExceptT.run, StateT.run] at h1
  rcases he : encodeNamespace s.enc.te name iri with ⟨te', r⟩
  rw [he] at h1
  have h1' := swap_eq h1
  cases r with
  | error e => py_simp [swap, h1', he]
  | ok rows => py_simp [swap, h1', he, flowExtend, Stream.pushRows]

/-! ## `GraphStream.graph` -/

theorem frameFromBounds_kind (f : Flow) : (f.frameFromBounds).1.kind = f.kind := by
  unfold Flow.frameFromBounds Flow.toStreamFrame
  split <;> (try split) <;> rfl

theorem stream_triple_kind (exc : PyErr) (s : Stream) (t : List Term) : (s.triple exc t).1.flow.kind = s.flow.kind := by
  unfold Stream.triple
  rcases encodeTriple exc s.enc t with ⟨enc', r⟩
  cases r with
  | error e => rfl
  | ok rows =>
    simp only [Stream.pushRows]
    exact frameFromBounds_kind _

/-- the loop over the triples of a graph: frames yielded before a refusal are kept -/
theorem graph_loop_eq (enc encG : Term → M TermEnc (List Row × WTerm)) (henc : EncLike enc TermEnc.spo)
    (exc : PyErr) (ffb : M Flow (Option Frame)) (k : FlowKind)
    (hffb : ∀ f : Flow, f.kind = k → FlowAgrees ffb Flow.frameFromBounds f) :
    ∀ (ts : List (List Term)) (s : Stream) (acc : List Frame), s.flow.kind = k →
      (Gen.GraphStream.graph__loop enc encG exc ffb ts).exec (s, acc)
        = match Stream.graphTriples exc s ts acc with
          | (s', fr, none) => (.ok (), (s', fr))
          | (s', fr, some e) => (.error e, (s', fr)) := by
  intro ts
  induction ts with
  | nil => intro s acc _; py_simp [Gen.GraphStream.graph__loop, Stream.graphTriples]
  | cons t ts ih =>
    intro s acc hk
    have h1 := stream_triple_eq enc encG henc exc ffb s (fun f hf => hffb f (hf.trans hk)) t
    simp only [M.exec, ExceptT.run, StateT.run] at h1
    have hkind := stream_triple_kind exc s t
    rcases ht : s.triple exc t with ⟨s', r⟩
    rw [ht] at h1 hkind
    have h1' := swap_eq h1
    have hk' : s'.flow.kind = k := by simpa using hkind.trans hk
    have ih' := ih s'
    simp only [M.exec, ExceptT.run, StateT.run] at ih'
    cases r with
    | error e => py_simp [Gen.GraphStream.graph__loop, Stream.graphTriples, onStream, h1', ht]
    | ok fr =>
      cases fr with
      | none =>
        have := ih' acc hk'
        py_simp [Gen.GraphStream.graph__loop, Stream.graphTriples, onStream, yieldFrame, optGet, h1', ht, this]
      | some f =>
        have := ih' (acc ++ [f]) hk'
        py_simp [Gen.GraphStream.graph__loop, Stream.graphTriples, onStream, yieldFrame, optGet, h1', ht, this]

theorem graphTriples_kind (exc : PyErr) : ∀ (ts : List (List Term)) (s : Stream) (acc : List Frame),
    (Stream.graphTriples exc s ts acc).1.flow.kind = s.flow.kind := by
  intro ts
  induction ts with
  | nil => intro s acc; rfl
  | cons t ts ih =>
    intro s acc
    unfold Stream.graphTriples
    have hk := stream_triple_kind exc s t
    rcases ht : s.triple exc t with ⟨s', r⟩
    rw [ht] at hk
    cases r with
    | error e => simpa using hk
    | ok fr => simp only; rw [ih s' (acc ++ fr.toList)]; simpa using hk

/-- `GraphStream.graph`, consumed to exhaustion: the graph-start row after its entries, every triple through
    `TripleStream.triple`, the graph-end row, and a frame whenever the flow's `frame_from_bounds` gives one; the frames yielded
    before a refusal are kept. Equal to the model's `Stream.graph`, stream state and frame list included. -/
theorem stream_graph_eq (enc encG : Term → M TermEnc (List Row × WTerm)) (henc : EncLike enc TermEnc.spo)
    (hencG : EncLike encG TermEnc.graph) (exc : PyErr) (ffb : M Flow (Option Frame)) (s : Stream)
    (hffb : ∀ f : Flow, f.kind = s.flow.kind → FlowAgrees ffb Flow.frameFromBounds f) (gid : Term) (triples : List (List Term)) :
    (Gen.GraphStream.graph enc encG exc ffb gid triples).exec (s, [])
      = match s.graph exc gid triples with
        | (s', fr, none) => (.ok (), (s', fr))
        | (s', fr, some e) => (.error e, (s', fr)) := by
  unfold Gen.GraphStream.graph Stream.graph
  obtain ⟨cls, opts, ⟨te, rep⟩, ⟨fk, fl, fs, fr⟩, enr, lt⟩ := s
  have hb' := start_row_app te
  cases hb : te.beginRow with
  | error e => rw [hb] at hb'; py_simp [onStream, hb', hb]
  | ok te0 =>
    rw [hb] at hb'
    rcases hg : te0.graph gid with ⟨te', r⟩
    cases r with
    | error e => py_simp [onStream, hb', hb, hencG.app, hg]
    | ok v =>
      obtain ⟨rows, w⟩ := v
      have hl := graph_loop_eq enc encG henc exc ffb fk hffb triples
        (⟨cls, opts, ⟨te'.endRow, rep⟩, ⟨fk, fl, fs, fr ++ (rows ++ [Row.graphStart (some w)])⟩, enr, lt⟩ : Stream) [] rfl
      simp only [M.exec, ExceptT.run, StateT.run] at hl
      have hk2 := graphTriples_kind exc triples
        (⟨cls, opts, ⟨te'.endRow, rep⟩, ⟨fk, fl, fs, fr ++ (rows ++ [Row.graphStart (some w)])⟩, enr, lt⟩ : Stream) []
      rcases hgt : Stream.graphTriples exc
        (⟨cls, opts, ⟨te'.endRow, rep⟩, ⟨fk, fl, fs, fr ++ (rows ++ [Row.graphStart (some w)])⟩, enr, lt⟩ : Stream) triples []
        with ⟨s2, frames, err⟩
      rw [hgt] at hl hk2
      cases err with
      | some e => py_simp [onStream, hb', hb, hencG.app, hg, end_row_app, flowExtend, Stream.pushRows, hl, hgt]
      | none =>
        have h2 := hffb ({ s2.flow with rows := s2.flow.rows ++ [Row.graphEnd] }) (by simpa using hk2)
        simp only [FlowAgrees, M.exec, ExceptT.run, StateT.run] at h2
        cases hfr : (Flow.frameFromBounds { s2.flow with rows := s2.flow.rows ++ [Row.graphEnd] }).2 with
        | none => py_simp [onStream, yieldFrame, optGet, hb', hb, hencG.app, hg, end_row_app, flowExtend, Stream.pushRows, hl, hgt, h2, hfr]
        | some f => py_simp [onStream, yieldFrame, optGet, hb', hb, hencG.app, hg, end_row_app, flowExtend, Stream.pushRows, hl, hgt, h2, hfr]

/-- the dispatch resolved for the flow classes a GraphStream is given: grouped (one frame per graph is cut by the caller), flat
    quads (the delimited default) and manual -/
theorem stream_graph_flatQuads (enc encG : Term → M TermEnc (List Row × WTerm)) (henc : EncLike enc TermEnc.spo)
    (hencG : EncLike encG TermEnc.graph) (exc : PyErr) (s : Stream) (hk : s.flow.kind = .flatQuads) (gid : Term) (triples : List (List Term)) :
    (Gen.GraphStream.graph enc encG exc Gen.FlatQuadsFrameFlow.frame_from_bounds gid triples).exec (s, [])
      = match s.graph exc gid triples with
        | (s', fr, none) => (.ok (), (s', fr))
        | (s', fr, some e) => (.error e, (s', fr)) :=
  stream_graph_eq enc encG henc hencG exc _ s (fun f hf => flatQuads_frame_from_bounds f (hf.trans hk)) gid triples

theorem stream_graph_graphs (enc encG : Term → M TermEnc (List Row × WTerm)) (henc : EncLike enc TermEnc.spo)
    (hencG : EncLike encG TermEnc.graph) (exc : PyErr) (s : Stream) (hk : s.flow.kind = .graphs) (gid : Term) (triples : List (List Term)) :
    (Gen.GraphStream.graph enc encG exc Gen.GraphsFrameFlow.frame_from_bounds gid triples).exec (s, [])
      = match s.graph exc gid triples with
        | (s', fr, none) => (.ok (), (s', fr))
        | (s', fr, some e) => (.error e, (s', fr)) :=
  stream_graph_eq enc encG henc hencG exc _ s (fun f hf => graphs_frame_from_bounds f (hf.trans hk)) gid triples

theorem stream_graph_manual (enc encG : Term → M TermEnc (List Row × WTerm)) (henc : EncLike enc TermEnc.spo)
    (hencG : EncLike encG TermEnc.graph) (exc : PyErr) (s : Stream) (hk : s.flow.kind = .manual) (gid : Term) (triples : List (List Term)) :
    (Gen.GraphStream.graph enc encG exc Gen.ManualFrameFlow.frame_from_bounds gid triples).exec (s, [])
      = match s.graph exc gid triples with
        | (s', fr, none) => (.ok (), (s', fr))
        | (s', fr, some e) => (.error e, (s', fr)) :=
  stream_graph_eq enc encG henc hencG exc _ s (fun f hf => manual_frame_from_bounds f (hf.trans hk)) gid triples

end Jelly.Translated

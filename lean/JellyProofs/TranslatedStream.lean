import JellyGenerated.StreamGen
import JellyProofs.TranslatedStmt
import JellyProofs.TranslatedFlows
/-!
# The TRANSLATED statement methods of the writer's streams equal the model

`JellyGenerated/StreamGen.lean` is produced from `TripleStream.triple`, `QuadStream.quad` and `Stream.enroll`
(`pyjelly/serialize/streams.py`) by `harness/gen_translate_stream.py` on every run. They join the other translations: every row
the translated `encode_triple` / `encode_quad` returns is appended to the flow (C06: nothing is dropped between the encoder and
the flow), the flow is asked for a frame after every statement (C07 / C11: the translated `frame_from_bounds` of the flow's
class), and the options row is pushed exactly once, before anything else (C13).
-/
set_option linter.unusedSimpArgs false
namespace Jelly.Translated
open Jelly Jelly.Py

/-- `TripleStream.triple`, for every per-term encoder like the model's and every `frame_from_bounds` that agrees with the
    model on flows of this stream's flow class -/
theorem stream_triple_eq (enc encG : Term → M TermEnc (List Row × WTerm)) (henc : EncLike enc TermEnc.spo)
    (exc : PyErr) (ffb : M Flow (Option Frame)) (s : Stream)
    (hffb : ∀ f : Flow, f.kind = s.flow.kind → FlowAgrees ffb Flow.frameFromBounds f) (terms : List Term) :
    swap ((Gen.TripleStream.triple enc encG exc ffb terms).exec s) = s.triple exc terms := by
  unfold Gen.TripleStream.triple Stream.triple
  have h1 := encode_triple_eq enc encG henc exc s.enc terms
  simp only [M.exec, ExceptT.run, StateT.run] at h1
  rcases he : encodeTriple exc s.enc terms with ⟨enc', r⟩
  rw [he] at h1
  have h1' := swap_eq h1
  cases r with
  | error e => py_simp [swap, h1', he]
  | ok rows =>
    have h2 := hffb ({ s.flow with rows := s.flow.rows ++ rows }) rfl
    simp only [FlowAgrees, M.exec, ExceptT.run, StateT.run] at h2
    py_simp [swap, h1', he, flowExtend, Stream.pushRows, h2]

/-- `QuadStream.quad` -/
theorem stream_quad_eq (enc encG : Term → M TermEnc (List Row × WTerm)) (henc : EncLike enc TermEnc.spo)
    (hencG : EncLike encG TermEnc.graph) (exc : PyErr) (ffb : M Flow (Option Frame)) (s : Stream)
    (hffb : ∀ f : Flow, f.kind = s.flow.kind → FlowAgrees ffb Flow.frameFromBounds f) (terms : List Term) :
    swap ((Gen.QuadStream.quad enc encG exc ffb terms).exec s) = s.quad exc terms := by
  unfold Gen.QuadStream.quad Stream.quad
  have h1 := encode_quad_eq enc encG henc hencG exc s.enc terms
  simp only [M.exec, ExceptT.run, StateT.run] at h1
  rcases he : encodeQuad exc s.enc terms with ⟨enc', r⟩
  rw [he] at h1
  have h1' := swap_eq h1
  cases r with
  | error e => py_simp [swap, h1', he]
  | ok rows =>
    have h2 := hffb ({ s.flow with rows := s.flow.rows ++ rows }) rfl
    simp only [FlowAgrees, M.exec, ExceptT.run, StateT.run] at h2
    py_simp [swap, h1', he, flowExtend, Stream.pushRows, h2]

/-- `Stream.enroll`: the options row is pushed once, the first time -/
theorem stream_enroll_eq (s : Stream) :
    (Gen.Stream.enroll s.optionsRow).exec s = (.ok (), s.enroll) := by
  unfold Gen.Stream.enroll Gen.Stream.stream_options Stream.enroll
  by_cases h : s.enrolled = true
  · py_simp [h]
  · py_simp [h, flowExtend, Stream.pushRows]

/-- the dynamic dispatch `self.flow.frame_from_bounds()` resolved: for each of the six flow classes, the translated method of
    that class is a legitimate `ffb` for a stream whose flow is of that class -/
theorem stream_triple_flatTriples (enc encG : Term → M TermEnc (List Row × WTerm)) (henc : EncLike enc TermEnc.spo)
    (exc : PyErr) (s : Stream) (hk : s.flow.kind = .flatTriples) (terms : List Term) :
    swap ((Gen.TripleStream.triple enc encG exc Gen.FlatTriplesFrameFlow.frame_from_bounds terms).exec s) = s.triple exc terms :=
  stream_triple_eq enc encG henc exc _ s (fun f hf => flatTriples_frame_from_bounds f (hf.trans hk)) terms

theorem stream_triple_manual (enc encG : Term → M TermEnc (List Row × WTerm)) (henc : EncLike enc TermEnc.spo)
    (exc : PyErr) (s : Stream) (hk : s.flow.kind = .manual) (terms : List Term) :
    swap ((Gen.TripleStream.triple enc encG exc Gen.ManualFrameFlow.frame_from_bounds terms).exec s) = s.triple exc terms :=
  stream_triple_eq enc encG henc exc _ s (fun f hf => manual_frame_from_bounds f (hf.trans hk)) terms

theorem stream_triple_bounded (enc encG : Term → M TermEnc (List Row × WTerm)) (henc : EncLike enc TermEnc.spo)
    (exc : PyErr) (s : Stream) (hk : s.flow.kind = .bounded) (terms : List Term) :
    swap ((Gen.TripleStream.triple enc encG exc Gen.BoundedFrameFlow.frame_from_bounds terms).exec s) = s.triple exc terms :=
  stream_triple_eq enc encG henc exc _ s (fun f hf => bounded_frame_from_bounds f (hf.trans hk)) terms

theorem stream_triple_graphs (enc encG : Term → M TermEnc (List Row × WTerm)) (henc : EncLike enc TermEnc.spo)
    (exc : PyErr) (s : Stream) (hk : s.flow.kind = .graphs) (terms : List Term) :
    swap ((Gen.TripleStream.triple enc encG exc Gen.GraphsFrameFlow.frame_from_bounds terms).exec s) = s.triple exc terms :=
  stream_triple_eq enc encG henc exc _ s (fun f hf => graphs_frame_from_bounds f (hf.trans hk)) terms

theorem stream_quad_flatQuads (enc encG : Term → M TermEnc (List Row × WTerm)) (henc : EncLike enc TermEnc.spo)
    (hencG : EncLike encG TermEnc.graph) (exc : PyErr) (s : Stream) (hk : s.flow.kind = .flatQuads) (terms : List Term) :
    swap ((Gen.QuadStream.quad enc encG exc Gen.FlatQuadsFrameFlow.frame_from_bounds terms).exec s) = s.quad exc terms :=
  stream_quad_eq enc encG henc hencG exc _ s (fun f hf => flatQuads_frame_from_bounds f (hf.trans hk)) terms

theorem stream_quad_manual (enc encG : Term → M TermEnc (List Row × WTerm)) (henc : EncLike enc TermEnc.spo)
    (hencG : EncLike encG TermEnc.graph) (exc : PyErr) (s : Stream) (hk : s.flow.kind = .manual) (terms : List Term) :
    swap ((Gen.QuadStream.quad enc encG exc Gen.ManualFrameFlow.frame_from_bounds terms).exec s) = s.quad exc terms :=
  stream_quad_eq enc encG henc hencG exc _ s (fun f hf => manual_frame_from_bounds f (hf.trans hk)) terms

theorem stream_quad_datasets (enc encG : Term → M TermEnc (List Row × WTerm)) (henc : EncLike enc TermEnc.spo)
    (hencG : EncLike encG TermEnc.graph) (exc : PyErr) (s : Stream) (hk : s.flow.kind = .datasets) (terms : List Term) :
    swap ((Gen.QuadStream.quad enc encG exc Gen.DatasetsFrameFlow.frame_from_bounds terms).exec s) = s.quad exc terms :=
  stream_quad_eq enc encG henc hencG exc _ s (fun f hf => datasets_frame_from_bounds f (hf.trans hk)) terms

/-- `Stream.namespace_declaration`: the rows of the translated `encode_namespace_declaration` all reach the flow; nothing else
    of the stream changes (C14) -/
theorem stream_namespace_declaration_eq (s : Stream) (name iri : String)
    (hp : s.enc.te.prefixes.lookup.evicting = true → s.enc.te.prefixes.lookup.data ≠ [])
    (hn : s.enc.te.names.lookup.evicting = true → s.enc.te.names.lookup.data ≠ []) :
    swap ((Gen.Stream.namespace_declaration name iri).exec s) = s.namespaceDeclaration name iri := by
  unfold Gen.Stream.namespace_declaration Stream.namespaceDeclaration
  have h1 := encode_namespace_declaration_eq s.enc.te name iri hp hn
  simp only [M.exec, ExceptT.run, StateT.run] at h1
  rcases he : encodeNamespace s.enc.te name iri with ⟨te', r⟩
  rw [he] at h1
  have h1' := swap_eq h1
  cases r with
  | error e => py_simp [swap, h1', he]
  | ok rows => py_simp [swap, h1', he, flowExtend, Stream.pushRows]

end Jelly.Translated

import JellyModel
import JellyProofs.C03
import JellyProofs.Lemmas.AuditStream
import JellyProofs.Lemmas.AuditOnce
/-!
# C19 — compression contract: send each string once, elide repeats, use deltas

Row-level audit of everything the writer emits against the reference decoder's state
(`Spec.audit`, defined in `JellyModel/Spec.lean`): an entry row for a string currently resident in
that table (`redundantEntry`), a present term equal to the repeated term of its slot
(`missedRepeat`), an explicit id where the zero form was available (`missedZero`), a graph closed and
immediately reopened under the same name (`splitGraph`).

Property theorems only. Helper lemmas live in `JellyProofs/Lemmas/Audit*.lean`
(`AuditTable`: exact mirror of one table and the exact ids; `AuditTerm`: terms; `AuditStmt`:
statements; `AuditStream`: the three stream loops; `AuditOnce`: the send-once corollary).

The hypothesis `stmtNormal` is needed: the writer compares raw terms with Python `==`, the audit
compares decoded terms. For the triples `(a b "x"^^xsd:string)`, `(a b "x")`, `(a b "x"^^xsd:string)`
the model evaluates `Spec.audit` to `missedRepeat = 2` (the object is written three times although it
decodes to the same term each time); every other counter stays 0.
-/
namespace Jelly

/-- Terms on which Python `==` and the format's notion of "same term" coincide: no literal typed
    `xsd:string` (which the format identifies with the plain literal while `==` does not). -/
def stmtNormal (t : List Term) : Bool := t.all fun x => x.norm == x

theorem stmtNormal_elim {t : List Term} (h : stmtNormal t = true) : NormalStmt t := by
  intro x hx
  simp only [stmtNormal, List.all_eq_true, beq_iff_eq] at h
  exact h x hx

theorem C19_triples (o : SerOptions) (s : Stream) (stmts : List (List Term))
    (hs : Stream.new .triple o = .ok s) (hl : validLogical s.logicalType = true)
    (hwf : ∀ t ∈ stmts, tripleWF t = true) (hfit : ∀ t ∈ stmts, stmtFits o.preset t = true)
    (hn : ∀ t ∈ stmts, stmtNormal t = true) :
    Spec.audit (streamFrames s (.gen stmts)).allRows' = {} :=
  triples_audit o s stmts hs hl hwf hfit (fun t ht => stmtNormal_elim (hn t ht))

theorem C19_quads (o : SerOptions) (s : Stream) (stmts : List (List Term))
    (hs : Stream.new .quad o = .ok s) (hl : validLogical s.logicalType = true)
    (hwf : ∀ t ∈ stmts, quadWF t = true) (hfit : ∀ t ∈ stmts, stmtFits o.preset t = true)
    (hn : ∀ t ∈ stmts, stmtNormal t = true) :
    Spec.audit (streamFrames s (.gen stmts)).allRows' = {} :=
  quads_audit o s stmts hs hl hwf hfit (fun t ht => stmtNormal_elim (hn t ht))

/-- GRAPHS from a statement sequence: in addition, consecutive quads with equal graph names travel
    under a single graph start (`splitGraph = 0`). -/
theorem C19_graphs (o : SerOptions) (s : Stream) (stmts : List (List Term))
    (hs : Stream.new .graph o = .ok s) (hl : validLogical s.logicalType = true)
    (hwf : ∀ t ∈ stmts, quadWF t = true) (hfit : ∀ t ∈ stmts, stmtFits o.preset t = true)
    (hn : ∀ t ∈ stmts, stmtNormal t = true) :
    Spec.audit (streamFrames s (.gen stmts)).allRows' = {} :=
  graphs_audit o s stmts hs hl hwf hfit (fun t ht => stmtNormal_elim (hn t ht))

/-- Corollary (a): with tables large enough never to evict, each distinct string is sent at most
    once per table — stated on the row sequence: no two name (resp. prefix, datatype) entry rows
    carry the same value. -/
def nameEntryValues (rows : List Row) : List String :=
  rows.filterMap fun r => match r with | .nameEntry _ v => some v | _ => none

theorem C19_each_name_once (o : SerOptions) (s : Stream) (stmts : List (List Term))
    (hs : Stream.new .triple o = .ok s) (hl : validLogical s.logicalType = true)
    (hwf : ∀ t ∈ stmts, tripleWF t = true) (hfit : ∀ t ∈ stmts, stmtFits o.preset t = true)
    (hbig : (stmts.flatMap fun t => t.flatMap Term.iris).length ≤ o.preset.maxNames) :
    (nameEntryValues (streamFrames s (.gen stmts)).allRows').Nodup :=
  triples_each_name_once o s stmts hs hl hwf hfit hbig

end Jelly

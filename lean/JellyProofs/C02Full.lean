import JellyModel
import JellyProofs.C03
import JellyProofs.C15
import JellyProofs.C01Bytes
import JellyProofs.Lemmas.RdflibLoops
/-!
# C02 — the rdflib loops: a Dataset written graph by graph (GraphStream) or a Graph/Dataset written
# through a TripleStream is valid and denotes its statements
# C13 — header fidelity at the byte level

Property theorems only; helper lemmas live in `JellyProofs/Lemmas/*.lean`.
-/
namespace Jelly

/-- `Dataset.graphs()` as the model sees it: any list of (graph name, triples) — names need not be
    distinct from their neighbours and graphs may be empty (rdflib yields the default graph even when
    it is empty). -/
def graphsWF (gs : List (Term × List (List Term))) : Bool :=
  gs.all fun (g, ts) => g.WFGraph && ts.all tripleWF

def graphsFit (p : Preset) (gs : List (Term × List (List Term))) : Bool :=
  gs.all fun (g, ts) => stmtFits p [g] && ts.all (stmtFits p)

/-- The quads a reader must deliver for a dataset enumerated graph by graph. -/
def graphsEvents (gs : List (Term × List (List Term))) : List Event :=
  gs.flatMap fun (g, ts) => ts.map fun t => Event.stmt ((t ++ [g]).map Term.norm)

/-- GRAPHS physical type fed graph by graph (rdflib `graphs_stream_frames` over `Dataset.graphs()`),
    no namespace declarations: valid, and denotes every triple of every graph under its graph name, in
    enumeration order. Holds for EVERY enumeration order (the theorem quantifies over the list), which
    is why the rdflib round trip is a statement about sets. -/
theorem C02_graphs_dataset (o : SerOptions) (s : Stream) (gs : List (Term × List (List Term)))
    (hs : Stream.new .graph o = .ok s) (hl : validLogical s.logicalType = true)
    (hwf : graphsWF gs = true) (hfit : graphsFit o.preset gs = true) :
    (graphsStreamFramesR s false [] gs).err = none ∧
    ∃ st, Spec.runRows (graphsStreamFramesR s false [] gs).allRows' = (st, graphsEvents gs, none) := by
  obtain ⟨hv, hcls, _⟩ := Stream.new_spec hs
  obtain ⟨henc, hrows0⟩ := enroll_fresh hs
  simp only [graphsWF, graphsFit, List.all_eq_true, Bool.and_eq_true] at hwf hfit
  show _ ∧ ∃ st, Spec.runRows (allRowsOf (graphsStreamFramesR s false [] gs)) = _
  apply final_assembly hs hl
  intro ss0 oo inv0 ho0 hph _
  obtain ⟨ss', rows, e1, e2, e5⟩ :=
    graphsLoopR_sim hv (o := oo) (by simpa [StreamClass.physical] using hph) gs
      { stream := s.enroll } ss0 rfl (by rw [henc]; exact inv0) ho0
      (fun x hx => hwf x hx) (fun x hx => hfit x hx)
  have hsf : graphsStreamFramesR s false [] gs
      = epilogue (graphsLoopR { stream := s.enroll } gs) true := by
    simp only [graphsStreamFramesR, prologueR_plain, e1, Option.isSome_none, Bool.false_eq_true, if_false]
  obtain ⟨a1, a2, _⟩ := allRowsOf_epilogue (graphsLoopR { stream := s.enroll } gs) true
  rw [hsf]
  exact ⟨ss', rows, a2.trans e1, by rw [a1, e2, hrows0], e5⟩

/-- TRIPLES physical type fed with several graphs (rdflib `triples_stream_frames` over a Dataset: all
    triples of all graphs, a frame offered after each graph). -/
theorem C02_triples_dataset (o : SerOptions) (s : Stream) (graphs : List (List (List Term)))
    (hs : Stream.new .triple o = .ok s) (hl : validLogical s.logicalType = true)
    (hwf : ∀ g ∈ graphs, ∀ t ∈ g, tripleWF t = true) (hfit : ∀ g ∈ graphs, ∀ t ∈ g, stmtFits o.preset t = true) :
    (triplesStreamFramesR s false [] graphs).err = none ∧
    ∃ st, Spec.runRows (triplesStreamFramesR s false [] graphs).allRows'
            = (st, graphs.flatten.map (fun t => Event.stmt (t.map Term.norm)), none) := by
  obtain ⟨hv, hcls, _⟩ := Stream.new_spec hs
  obtain ⟨henc, hrows0⟩ := enroll_fresh hs
  show _ ∧ ∃ st, Spec.runRows (allRowsOf (triplesStreamFramesR s false [] graphs)) = _
  apply final_assembly hs hl
  intro ss0 oo inv0 ho0 hph _
  obtain ⟨ss', rows, e1, e2, e5⟩ :=
    triplesGraphsLoop_sim hv (o := oo) (by simpa [StreamClass.physical] using hph) graphs
      { stream := s.enroll } ss0 rfl (by rw [henc]; exact inv0) ho0 hwf hfit
  let r := triplesGraphsLoop { stream := s.enroll } graphs
  have hsf : triplesStreamFramesR s false [] graphs
      = r.push { r.stream with flow := r.stream.flow.toStreamFrame.1 } r.stream.flow.toStreamFrame.2 := by
    simp only [triplesStreamFramesR, prologueR_plain, e1, Option.isSome_none, Bool.false_eq_true, if_false]
    rfl
  have hr2 : allRowsOf (r.push { r.stream with flow := r.stream.flow.toStreamFrame.1 }
      r.stream.flow.toStreamFrame.2) = allRowsOf r := by
    have := allRowsOf_push (r := r)
      (s' := { r.stream with flow := r.stream.flow.toStreamFrame.1 })
      (fr := r.stream.flow.toStreamFrame.2) (rows := [])
      (by simpa using toStreamFrame_rows r.stream.flow)
    simpa using this
  rw [hsf]
  exact ⟨ss', rows, e1, by rw [hr2, e2, hrows0], e5⟩

/-- C13 (a) at the byte level: the options a reader extracts from the bytes of a run are the options
    the stream was written with (physical/logical type, sizes, name, flags, version), and the framing
    mode is detected as written. -/
theorem C13_header_fidelity_bytes (cls : StreamClass) (o : SerOptions) (s : Stream) (stmts : List (List Term))
    (delimited : Bool) (hs : Stream.new cls o = .ok s) (hl : validLogical s.logicalType = true)
    (hp : presetReadable o.preset = true)
    (hd : ∀ t ∈ stmts, stmtShallow t = true)
    (hok : (streamFrames s (.gen stmts)).err = none)
    (hsmall : framesSmall (streamFrames s (.gen stmts))) :
    ∃ opened, getOptionsAndFrames .seekable (runBytes delimited (streamFrames s (.gen stmts))) = .ok opened ∧
      opened.opts = {
        physical := cls.physical, logical := s.logicalType
        maxNames := o.preset.maxNames, maxPrefixes := o.preset.maxPrefixes, maxDatatypes := o.preset.maxDatatypes
        streamName := o.params.streamName, generalized := o.params.generalized, rdfStar := o.params.rdfStar
        version := if o.params.namespaceDeclarations then 2 else 1
        delimited := delimited
        namespaceDeclarations := o.params.namespaceDeclarations } := by
  obtain ⟨hsm, hrows, ho⟩ := Stream.new_small hs (presetReadable_bounds hp) (validLogical_lt_u32 _ hl)
  have hw := (streamFrames_wfr s stmts hsm (by rw [hrows]; simp) ho
    (fun t ht => shallowTerms_of_stmtShallow (hd t ht))).1.1
  have hne := C06_no_empty_frame s (.gen stmts)
  have hflow := C06_nothing_left_in_flow s (.gen stmts) hok
  obtain ⟨rows, hhead⟩ := streamFrames_head_any hs stmts
  have hhead' : (streamFrames s (.gen stmts)).frames.flatMap (·.rows) = s.optionsRow :: rows := by
    rw [← hhead]
    simp [allRowsOf, rowsOf, hflow]
  exact getOptionsAndFrames_of_frames _ _ rows delimited hne hhead'
    (fun f hf => (hw f hf).1) (fun f hf => (hw f hf).2) hsmall.1 hsmall.2 _
    (C13_header_fidelity cls o s rows [] delimited hs)

end Jelly

import JellyGenerated.FuncsGen
import JellyModel.Stream
/-!
# The TRANSLATED module-level functions equal the model

`JellyGenerated/FuncsGen.lean` is produced by `harness/gen_translate_funcs.py` on every run from the source of
`delimited_jelly_hint` (`pyjelly/parse/ioutils.py`) and `split_iri` (`pyjelly/serialize/encode.py`). `hint_eq`: the translated
detector returns, for EVERY byte string of any length (no exception), what the model's `delimitedHint` returns — the generated
tables only cover three-byte headers and samples of longer ones. `split_iri_eq`: the translated splitter returns the model's
`splitIri` for every string.
-/
set_option linter.unusedSimpArgs false
namespace Jelly.Translated
open Jelly Jelly.Py

theorem u8_toNat_eq (b : UInt8) (n : UInt8) : (b.toNat = n.toNat) = (b = n) := by
  apply propext
  constructor
  · intro h; exact UInt8.toNat_inj.mp h
  · intro h; subst h; rfl

theorem hint_eq (h : Bytes) : Gen.delimited_jelly_hint h = .ok (delimitedHint h) := by
  unfold Gen.delimited_jelly_hint delimitedHint
  match h with
  | [] => simp [bind, Except.bind, pure, Except.pure]
  | [_] => simp [bind, Except.bind, pure, Except.pure]
  | [_, _] => simp [bind, Except.bind, pure, Except.pure]
  | b0 :: b1 :: b2 :: rest =>
    simp [bind, Except.bind, pure, Except.pure, bytesGet]
    have e0 := u8_toNat_eq b0 10
    have e1 := u8_toNat_eq b1 10
    have e2 := u8_toNat_eq b2 10
    simp only [show (10 : UInt8).toNat = 10 from rfl] at e0 e1 e2
    by_cases h0 : b0 = 10 <;> by_cases h1 : b1 = 10 <;> by_cases h2 : b2 = 10 <;> simp [e0, e1, e2, h0, h1, h2]
    have h2' : ¬ b2.toNat = 10 := by rw [e2]; exact h2
    have l : (b2.toNat == 10) = false := by simpa using h2'
    have r : (b2 == 10) = false := by simpa using h2
    simp [bne, l, r]


theorem lastIndexOf_take {c : Char} : ∀ {cs : List Char} {i : Nat}, lastIndexOf c cs = some i → cs.take (i + 1) = cs.take i ++ [c]
  | [], i, h => by simp [lastIndexOf] at h
  | x :: xs, i, h => by
    unfold lastIndexOf at h
    cases hr : lastIndexOf c xs with
    | some j =>
      rw [hr] at h
      simp only [Option.some.injEq] at h
      subst h
      simp [List.take, lastIndexOf_take hr]
    | none =>
      rw [hr] at h
      simp only at h
      split at h
      · rename_i hx
        simp only [Option.some.injEq] at h
        subst h
        simp at hx
        simp [hx]
      · simp at h

theorem split_iri_eq (s : String) : Gen.split_iri s = .ok (splitIri s) := by
  unfold Gen.split_iri splitIri splitIriChars rpartition
  cases h1 : lastIndexOf '#' s.toList with
  | some i =>
    simp [bind, Except.bind, pure, Except.pure, h1, lastIndexOf_take h1, String.ofList_append]
  | none =>
    cases h2 : lastIndexOf '/' s.toList with
    | some i =>
      simp [bind, Except.bind, pure, Except.pure, h1, h2, lastIndexOf_take h2, String.ofList_append]
    | none =>
      simp [bind, Except.bind, pure, Except.pure, h1, h2]


/-! ## `pyjelly/options.py`: the validators, for ALL arguments (the generated tables cover the declared enum values) -/

theorem validate_type_compatibility_eq (p l : Nat) :
    Gen.validate_type_compatibility p l = if typesCompatible p l then .ok () else .error .jassertion := by
  unfold Gen.validate_type_compatibility typesCompatible
  by_cases hp : p = 0
  · simp [hp, bind, Except.bind, pure, Except.pure]
  · by_cases hl : l = 0
    · simp [hl, bind, Except.bind, pure, Except.pure]
    · by_cases h1 : p = 1 <;> by_cases h3 : l = 3 <;> by_cases h13 : l = 13 <;> by_cases hl1 : l = 1 <;>
        simp [hp, hl, h1, h3, h13, hl1, bind, Except.bind, pure, Except.pure, throw, throwThe, MonadExceptOf.throw]
      have e1 : (p == 1) = false := by simpa using h1
      have e2 : (l == 3) = false := by simpa using h3
      have e3 : (l == 13) = false := by simpa using h13
      have e4 : (l == 1) = false := by simpa using hl1
      simp [e1, e2, e3, e4]

theorem stream_types_flat_eq (l : Nat) : Gen.StreamTypes.flat l = .ok (logicalFlat l) := by
  unfold Gen.StreamTypes.flat logicalFlat
  by_cases h1 : l = 1 <;> by_cases h2 : l = 2 <;> simp [h1, h2, bind, Except.bind, pure, Except.pure]

theorem lookup_preset_post_init_eq (n p d : Nat) :
    Gen.LookupPreset.__post_init__ n
      = if ({ maxNames := n, maxPrefixes := p, maxDatatypes := d } : Preset).valid then .ok () else .error .conformance := by
  unfold Gen.LookupPreset.__post_init__ Preset.valid MIN_NAME_LOOKUP_SIZE
  by_cases h : n < 8 <;> simp [h, bind, Except.bind, pure, Except.pure, throw, throwThe, MonadExceptOf.throw] <;> omega

theorem stream_parameters_version_eq (nd : Bool) (v : Nat) (g s dl : Bool) (nm : String) :
    Gen.StreamParameters.__post_init__ nd v
      = .ok ({ generalized := g, rdfStar := s, delimited := dl, namespaceDeclarations := nd, streamName := nm } : Params).version := by
  unfold Gen.StreamParameters.__post_init__ Params.version
  cases nd <;> simp [bind, Except.bind, pure, Except.pure]

end Jelly.Translated

import JellyModel
import JellyProofs.C04
import JellyProofs.C07
import JellyProofs.C08
import JellyProofs.C10
import JellyProofs.C01Bytes
import JellyProofs.Lemmas.BytesAnyProducer
/-!
# C04 / C16 at the byte level (canonical encodings of ANY legal producer), and the liveness corollaries
# of C10 used by C11

Property theorems only; helper lemmas live in `JellyProofs/Lemmas/*.lean`.
-/
namespace Jelly

/-- Frames a producer may write in canonical protobuf encoding: rows representable on the wire, no
    frame metadata, each frame smaller than 2³² bytes. -/
def framesEncodable (fs : List Frame) : Prop :=
  (∀ f ∈ fs, ∀ r ∈ f.rows, r.wireWF = true) ∧ (∀ f ∈ fs, f.metadata = []) ∧
  (∀ f ∈ fs, (encFrame f).length < 2 ^ 32)

/-- C04, byte level, delimited: for ANY list of frames (any producer: arbitrary eviction policy, split
    points, explicit or zero ids, redundant entries, empty frames anywhere — including before the frame
    that carries the options row) whose concatenated rows the reference decoder accepts with denotation
    `evs`, written in canonical delimited form, the model of pyjelly's flat parser returns exactly `evs`. -/
theorem C04_bytes_delimited (fs : List Frame) (o : Options) (rest : List Row) (st : Spec.State) (evs : List Event)
    (henc : framesEncodable fs)
    (hrows : fs.flatMap (·.rows) = .options o :: rest)
    (hsz : o.maxNames ≤ MAX_LOOKUP_SIZE ∧ o.maxPrefixes ≤ MAX_LOOKUP_SIZE ∧ o.maxDatatypes ≤ MAX_LOOKUP_SIZE)
    (hvalid : Spec.runRows (fs.flatMap (·.rows)) = (st, evs, none))
    (h3 : 3 ≤ (fs.flatMap writeDelimited).length) :
    parseFlat .seekable (fs.flatMap writeDelimited) false true = { events := evs, err := none } := by
  obtain ⟨hwf, hm, hlen⟩ := henc
  exact parseFlat_delimited_any fs o rest evs hwf hm hlen hrows h3
    (fun first rs hfind hfirst => parseFrames_of_spec fs first o rest rs st evs true hrows hsz hvalid hfind hfirst)

/-- C04, byte level, non-delimited: one bare frame. -/
theorem C04_bytes_single (f : Frame) (o : Options) (rest : List Row) (st : Spec.State) (evs : List Event)
    (henc : framesEncodable [f])
    (hrows : f.rows = .options o :: rest)
    (hsz : o.maxNames ≤ MAX_LOOKUP_SIZE ∧ o.maxPrefixes ≤ MAX_LOOKUP_SIZE ∧ o.maxDatatypes ≤ MAX_LOOKUP_SIZE)
    (hvalid : Spec.runRows f.rows = (st, evs, none)) :
    parseFlat .seekable (writeSingle f) false true = { events := evs, err := none } := by
  obtain ⟨hwf, hm, hlen⟩ := henc
  have hrows' : [f].flatMap (·.rows) = .options o :: rest := by simpa using hrows
  have hfind : [f].find? (fun f => !f.rows.isEmpty) = some f := by simp [hrows]
  obtain ⟨_, _, hpf⟩ := parseFrames_of_spec [f] f o rest rest st evs false hrows' hsz
    (by simpa using hvalid) hfind hrows
  have h := parseFlat_single_of_frames [f] o rest evs (by simp [hrows]) hrows' hwf hm
    (by simpa [writeSingle] using hlen) hpf
  simpa using h

/-- C16, frames level: a catalogued violation at some row of some frame makes the flat parse raise,
    having yielded exactly the denotation of the valid prefix (whatever the frame cuts). -/
theorem C16_frames (fs : List Frame) (o : Options) (pre : List Row) (r : Row) (post : List Row)
    (st : Spec.State) (evs : List Event) (v : Spec.Violation) (delimited : Bool)
    (hrows : fs.flatMap (·.rows) = .options o :: pre ++ r :: post)
    (hsz : o.maxNames ≤ MAX_LOOKUP_SIZE ∧ o.maxPrefixes ≤ MAX_LOOKUP_SIZE ∧ o.maxDatatypes ≤ MAX_LOOKUP_SIZE)
    (hpre : Spec.runRows (.options o :: pre) = (st, evs, none))
    (hviol : Spec.step st r = .error v) (hcat : v.catalogued = true) :
    ∃ opts adapter d0 e,
      optionsFromFrame { rows := .options o :: pre ++ r :: post } delimited = .ok opts ∧
      adapterFor opts.physical = .ok adapter ∧
      DecState.new opts adapter = .ok d0 ∧
      (decodeFrames true d0 fs []).1.flatten ++ (decodeFrames true d0 fs []).2.1 = evs ∧
      (decodeFrames true d0 fs []).2.2 = some e := by
  obtain ⟨opts, adapter, d0, d, e, ho, ha, hd, hdec⟩ :=
    C16_rejects_at_offending_row o pre r post st evs v delimited hsz hpre hviol hcat
  obtain ⟨h1, h2⟩ := C07_frames_eq_rows true d0 fs
  rw [hrows, hdec] at h1 h2
  exact ⟨opts, adapter, d0, e, ho, ha, hd, h1, h2⟩

/-- C10 corollary: every statement of every fully delivered frame is delivered. If the bytes received
    so far (`b1`, at least 3 of them, detected as delimited) are followed by anything at all — more
    frames, a partial frame, garbage — what the parser yields from `b1` alone is a prefix of what it
    yields from `b1 ++ b2`. -/
theorem C10_complete_frames_delivered (b1 b2 : Bytes) (h3 : 3 ≤ b1.length)
    (hd : delimitedHint (b1.take 3) = true) (strict quoted : Bool) :
    (parseFlat .seekable b1 strict quoted).events <+: (parseFlat .seekable (b1 ++ b2) strict quoted).events := by
  have h := C10_events_prefix (b1 ++ b2) b1.length h3
    (by rw [List.take_append_of_le_length h3]; exact hd) strict quoted
  rwa [List.take_left'  rfl] at h

/-- C11 parse side (liveness): the same on a raw non-seekable source under ANY read schedule: the
    statements of the frames that have arrived are yielded before any byte that has not arrived is
    needed (the parser is a deterministic sequential reader: what it yields before asking for byte
    |b1|+1 is what it yields from `b1` alone). -/
theorem C11_parse_live (b1 b2 : Bytes) (sched : List Nat) (h3 : 3 ≤ b1.length)
    (hd : delimitedHint (b1.take 3) = true) (strict quoted : Bool) :
    (parseFlat (.rawNonSeekable sched) b1 strict quoted).events <+:
      (parseFlat (.rawNonSeekable sched) (b1 ++ b2) strict quoted).events := by
  rw [(C09_schedule_independent b1 sched strict quoted).1, (C09_schedule_independent (b1 ++ b2) sched strict quoted).1]
  exact C10_complete_frames_delivered b1 b2 h3 hd strict quoted

end Jelly

import JellyModel.Parse
import JellyProofs.Lemmas.Truncation
/-!
# C10 — a truncated stream yields only a correct prefix of the data
# C17 — arbitrary bytes: termination, bounded work, capped tables

Property theorems only. Helper lemmas live in `JellyProofs/Lemmas/*.lean`.
-/
namespace Jelly

/-- Framing level, for ARBITRARY bytes: the frames delivered from a stream cut at offset `k` are a
    prefix of the frames delivered from the whole stream (nothing invented, nothing reordered). -/
theorem C10_frames_prefix (b : Bytes) (k : Nat) :
    (restFrames ((b.take k).length + 1) (b.take k) []).1 <+: (restFrames (b.length + 1) b []).1 := by
  have h := restFrames_append_prefix ((b.take k).length + 1) (b.length + 1) (b.take k) (b.drop k) []
    (by omega) (by rw [List.take_append_drop]; omega)
  rw [List.take_append_drop] at h
  exact h

/-- Event level. For any byte string that is detected as delimited and any cut offset `k ≥ 3`: what
    the flat parser yields from the cut stream is a prefix of what it yields from the whole stream.
    Applied twice (to `b` cut at `k`, and to `b` cut at `k` cut again at the end of the last frame
    fully delivered) it gives both halves of C10: nothing is ever yielded that the original does not
    have at that position, and every statement of every fully delivered frame is yielded. -/
theorem C10_events_prefix (b : Bytes) (k : Nat) (hk : 3 ≤ k) (hd : delimitedHint (b.take 3) = true)
    (strict quoted : Bool) :
    (parseFlat .seekable (b.take k) strict quoted).events <+: (parseFlat .seekable b strict quoted).events := by
  rw [parseFlat_events, parseFlat_events]
  have hh : (SourceKind.seekable).header (b.take k) = b.take 3 := by
    simp only [SourceKind.header, List.take_take]
    rw [Nat.min_eq_left hk]
  cases hg : getOptionsAndFrames .seekable (b.take k) with
  | error e => simp
  | ok o =>
    have h2 := getOptionsAndFrames_append .seekable .seekable (b.take k) (b.drop k) o
      (by rw [hh]; exact hd) (by rw [List.take_append_drop]; exact hd) hg
    rw [List.take_append_drop] at h2
    rw [h2]
    exact openedEvents_append_prefix quoted _ o.opts o.pending o.rest (b.drop k)

/-- Fewer than three bytes never yield anything (they are routed to the single-frame path, which
    cannot find an options row in them). -/
theorem C10_short_yields_nothing (kind : SourceKind) (b : Bytes) (h : b.length < 3) (strict quoted : Bool) :
    (parseFlat kind b strict quoted).events = [] := by
  rw [parseFlat_events]
  obtain ⟨e, he⟩ := getOptionsAndFrames_short kind b h
  rw [he]

/-- C17 (a): the number of frames the frame iterator delivers is bounded by the number of input
    bytes (each iteration consumes at least one byte). -/
theorem C17_frames_bounded (b : Bytes) : (restFrames (b.length + 1) b []).1.length ≤ b.length := by
  have := restFrames_length_le (b.length + 1) b []
  simpa using this

/-- C17 (b): lookup tables are capped: a decoder is only ever created with tables of at most 4096
    slots each, whatever sizes the input declares; larger declarations are refused before
    allocation. -/
theorem C17_tables_capped (opts : ParserOptions) (a : AdapterKind) (d : DecState)
    (h : DecState.new opts a = .ok d) :
    d.names.data.length ≤ 4096 ∧ d.prefixes.data.length ≤ 4096 ∧ d.datatypes.data.length ≤ 4096 ∧
    d.names.data.length = opts.maxNames ∧ d.prefixes.data.length = opts.maxPrefixes ∧
    d.datatypes.data.length = opts.maxDatatypes := by
  unfold DecState.new at h
  simp only [bind, Except.bind, pure, Except.pure] at h
  cases h1 : LookupDec.new opts.maxNames with
  | error e => rw [h1] at h; cases h
  | ok t1 =>
    rw [h1] at h
    simp only at h
    cases h2 : LookupDec.new opts.maxPrefixes with
    | error e => rw [h2] at h; cases h
    | ok t2 =>
      rw [h2] at h
      simp only at h
      cases h3 : LookupDec.new opts.maxDatatypes with
      | error e => rw [h3] at h; cases h
      | ok t3 =>
        rw [h3] at h
        cases h
        have e1 := LookupDec.new_ok _ _ h1
        have e2 := LookupDec.new_ok _ _ h2
        have e3 := LookupDec.new_ok _ _ h3
        simp only
        omega

theorem C17_oversized_refused (opts : ParserOptions) (a : AdapterKind)
    (h : 4096 < opts.maxNames ∨ 4096 < opts.maxPrefixes ∨ 4096 < opts.maxDatatypes) :
    DecState.new opts a = .error .jassertion := by
  unfold DecState.new
  simp only [bind, Except.bind, pure, Except.pure]
  rcases LookupDec.new_error_or_ok opts.maxNames with h1 | ⟨t1, h1⟩
  · rw [h1]
  · rcases LookupDec.new_error_or_ok opts.maxPrefixes with h2 | ⟨t2, h2⟩
    · rw [h1, h2]
    · rcases LookupDec.new_error_or_ok opts.maxDatatypes with h3 | ⟨t3, h3⟩
      · rw [h1, h2, h3]
      · have e1 := LookupDec.new_ok _ _ h1
        have e2 := LookupDec.new_ok _ _ h2
        have e3 := LookupDec.new_ok _ _ h3
        omega

/-- C17 (b'): decoding never grows a table. -/
theorem C17_tables_never_grow (quoted : Bool) (d d' : DecState) (r : Row) (ev : Option Event)
    (h : d.decodeRow quoted r = .ok (d', ev)) :
    d'.names.data.length = d.names.data.length ∧ d'.prefixes.data.length = d.prefixes.data.length ∧
    d'.datatypes.data.length = d.datatypes.data.length := by
  exact DecState.decodeRow_sizes quoted d d' r ev h

end Jelly

import JellyGenerated.StmtGen
import JellyProofs.TranslatedEnc
/-!
# The TRANSLATED statement level of the writer equals the model

`JellyGenerated/StmtGen.lean` is produced from the module-level `encode_spo` / `encode_triple` / `encode_quad`
(`pyjelly/serialize/encode.py`) by `harness/gen_translate_stmt.py` on every run. They carry the repeated-term elision (C19), the
roll-back of the repeated terms when a statement is refused (C20) and the row bracket around every statement (C18). The
per-term methods of the integration's encoder subclass are parameters `enc` / `encG`; the theorems hold for every pair that
behaves like the model's `TermEnc.spo` / `TermEnc.graph` (`EncLike`), and `modelEnc_like` shows the hypothesis is satisfiable.
-/
set_option linter.unusedSimpArgs false
namespace Jelly.Translated
open Jelly Jelly.Py

/-- what `encode_spo` does, in the model's terms: the three slots in order -/
def spoSpec (exc : PyErr) (st : EncState) (terms : List Term) :
    EncState × Except PyErr (List Row × List Term × Option WTerm × Option WTerm × Option WTerm) :=
  match terms with
  | [] => (st, .error exc)
  | s :: rest =>
    match encSlot TermEnc.spo st.te st.rep.s s with
    | (te1, _, .error e) => ({ st with te := te1 }, .error e)
    | (te1, rs, .ok (r1, ws)) =>
      let st1 : EncState := { te := te1, rep := { st.rep with s := rs } }
      match rest with
      | [] => (st1, .error exc)
      | p :: rest =>
        match encSlot TermEnc.spo st1.te st1.rep.p p with
        | (te2, _, .error e) => ({ st1 with te := te2 }, .error e)
        | (te2, rp, .ok (r2, wp)) =>
          let st2 : EncState := { te := te2, rep := { st1.rep with p := rp } }
          match rest with
          | [] => (st2, .error exc)
          | o :: rest =>
            match encSlot TermEnc.spo st2.te st2.rep.o o with
            | (te3, _, .error e) => ({ st2 with te := te3 }, .error e)
            | (te3, ro, .ok (r3, wo)) =>
              ({ te := te3, rep := { st2.rep with o := ro } }, .ok (r1 ++ r2 ++ r3, rest, ws, wp, wo))

theorem triple_body_spec (exc : PyErr) (st : EncState) (terms : List Term) :
    encodeTripleBody exc st terms
      = match spoSpec exc st terms with
        | (st', .error e) => (st', .error e)
        | (st', .ok (rows, _, ws, wp, wo)) => (st', .ok (rows ++ [Row.triple ws wp wo])) := by
  unfold encodeTripleBody spoSpec
  rcases terms with _ | ⟨s, _ | ⟨p, _ | ⟨o, rest⟩⟩⟩
  · rfl
  · simp only; split <;> simp_all
  · simp only; split <;> simp_all <;> split <;> simp_all
  · simp only; split <;> simp_all <;> split <;> simp_all <;> split <;> simp_all

/-- the per-term encoder handed to the translated functions behaves like the model's `spo` (state kept on a refusal) -/
def EncLike (enc : Term → M TermEnc (List Row × WTerm)) (f : TermEnc → Term → Res TermEnc (List Row × WTerm)) : Prop :=
  ∀ t te, swap ((enc t).exec te) = f te t

theorem EncLike.app {enc f} (h : EncLike enc f) (t : Term) (te : TermEnc) : enc t te = ((f te t).2, (f te t).1) := by
  have := h t te
  simp only [M.exec, ExceptT.run, StateT.run] at this
  exact swap_eq this

theorem encode_spo_exec (enc encG : Term → M TermEnc (List Row × WTerm)) (henc : EncLike enc TermEnc.spo)
    (exc : PyErr) (st : EncState) (terms : List Term) (g0 : Option WTerm) :
    (Gen.encode_spo enc encG exc terms { g := g0 }).exec st
      = match spoSpec exc st terms with
        | (st', .error e) => (.error e, st')
        | (st', .ok (rows, rest, ws, wp, wo)) => (.ok (rows, rest, { s := ws, p := wp, o := wo, g := g0 }), st') := by
  unfold Gen.encode_spo spoSpec encSlot
  obtain ⟨te, ⟨rs, rp, ro, rg⟩⟩ := st
  rcases terms with _ | ⟨s, _ | ⟨p, _ | ⟨o, rest⟩⟩⟩
  · py_simp [pyNext]
  · by_cases h1 : rs = some s
    · subst h1; py_simp [pyNext]
    · rcases hs : te.spo s with ⟨te1, r1⟩
      cases r1 <;> py_simp [pyNext, h1, henc.app, hs]
  · by_cases h1 : rs = some s
    · subst h1
      by_cases h2 : rp = some p
      · subst h2; py_simp [pyNext]
      · rcases hp : te.spo p with ⟨te2, r2⟩
        cases r2 <;> py_simp [pyNext, h2, henc.app, hp]
    · rcases hs : te.spo s with ⟨te1, r1⟩
      cases r1 with
      | error e => py_simp [pyNext, h1, henc.app, hs]
      | ok v1 =>
        by_cases h2 : rp = some p
        · subst h2; py_simp [pyNext, h1, henc.app, hs]
        · rcases hp : te1.spo p with ⟨te2, r2⟩
          cases r2 <;> py_simp [pyNext, h1, h2, henc.app, hs, hp]
  · by_cases h1 : rs = some s
    · subst h1
      by_cases h2 : rp = some p
      · subst h2
        by_cases h3 : ro = some o
        · subst h3
          py_simp [pyNext, henc.app]
        · rcases ho : te.spo o with ⟨te3, r3⟩
          cases r3 with
          | error e => py_simp [pyNext, henc.app, h3, ho]
          | ok v3 =>
            py_simp [pyNext, henc.app, h3, ho]
      · rcases hp : te.spo p with ⟨te2, r2⟩
        cases r2 with
        | error e => py_simp [pyNext, henc.app, h2, hp]
        | ok v2 =>
          by_cases h3 : ro = some o
          · subst h3
            py_simp [pyNext, henc.app, h2, hp]
          · rcases ho : te2.spo o with ⟨te3, r3⟩
            cases r3 with
            | error e => py_simp [pyNext, henc.app, h2, hp, h3, ho]
            | ok v3 =>
              py_simp [pyNext, henc.app, h2, hp, h3, ho]
    · rcases hs : te.spo s with ⟨te1, r1⟩
      cases r1 with
      | error e => py_simp [pyNext, henc.app, h1, hs]
      | ok v1 =>
        by_cases h2 : rp = some p
        · subst h2
          by_cases h3 : ro = some o
          · subst h3
            py_simp [pyNext, henc.app, h1, hs]
          · rcases ho : te1.spo o with ⟨te3, r3⟩
            cases r3 with
            | error e => py_simp [pyNext, henc.app, h1, hs, h3, ho]
            | ok v3 =>
              py_simp [pyNext, henc.app, h1, hs, h3, ho]
        · rcases hp : te1.spo p with ⟨te2, r2⟩
          cases r2 with
          | error e => py_simp [pyNext, henc.app, h1, hs, h2, hp]
          | ok v2 =>
            by_cases h3 : ro = some o
            · subst h3
              py_simp [pyNext, henc.app, h1, hs, h2, hp]
            · rcases ho : te2.spo o with ⟨te3, r3⟩
              cases r3 with
              | error e => py_simp [pyNext, henc.app, h1, hs, h2, hp, h3, ho]
              | ok v3 =>
                py_simp [pyNext, henc.app, h1, hs, h2, hp, h3, ho]

theorem start_row_app (te : TermEnc) :
    Gen.TermEncoder.start_row te = match te.beginRow with
      | .ok te' => (.ok (), te')
      | .error e => (.error e, te) := by
  have := start_row_eq te
  simp only [M.exec, ExceptT.run, StateT.run] at this
  exact this

theorem end_row_app (te : TermEnc) : Gen.TermEncoder.end_row te = (.ok (), te.endRow) := by
  have := end_row_eq te
  simp only [M.exec, ExceptT.run, StateT.run] at this
  exact this

/-- `encode_triple`, for every per-term encoder that behaves like the model's: the row bracket, the three slots with their
    elision against the repeated terms, the roll-back of the repeated terms when a term is refused (the row stays open),
    `end_row()` and the triple row — the model's `encodeTriple`, state included. -/
theorem encode_triple_eq (enc encG : Term → M TermEnc (List Row × WTerm)) (henc : EncLike enc TermEnc.spo)
    (exc : PyErr) (st : EncState) (terms : List Term) :
    swap ((Gen.encode_triple enc encG exc terms).exec st) = encodeTriple exc st terms := by
  unfold Gen.encode_triple encodeTriple
  obtain ⟨te, rep⟩ := st
  have hb' := start_row_app te
  cases hb : te.beginRow with
  | error e => rw [hb] at hb'; py_simp [swap, hb', hb]
  | ok te0 =>
    rw [hb] at hb'
    simp only [triple_body_spec]
    have hspo := encode_spo_exec enc encG henc exc { te := te0, rep := rep } terms none
    simp only [M.exec, ExceptT.run, StateT.run] at hspo
    rcases hsp : spoSpec exc { te := te0, rep := rep } terms with ⟨st', r⟩
    rw [hsp] at hspo
    cases r with
    | error e => py_simp [swap, hb', hb, hspo, hsp]
    | ok v =>
      obtain ⟨rows, rest, ws, wp, wo⟩ := v
      py_simp [swap, hb', hb, hspo, hsp, end_row_app]

theorem quad_body_spec (exc : PyErr) (st : EncState) (terms : List Term) :
    encodeQuadBody exc st terms
      = match spoSpec exc st terms with
        | (st', .error e) => (st', .error e)
        | (st3, .ok (rows, rest, ws, wp, wo)) =>
          match rest with
          | [] => (st3, .error exc)
          | g :: _ =>
            match encSlot TermEnc.graph st3.te st3.rep.g g with
            | (te4, _, .error e) => ({ st3 with te := te4 }, .error e)
            | (te4, rg, .ok (r4, wg)) =>
              ({ te := te4, rep := { st3.rep with g := rg } }, .ok (rows ++ r4 ++ [Row.quad ws wp wo wg])) := by
  unfold encodeQuadBody spoSpec
  rcases terms with _ | ⟨s, _ | ⟨p, _ | ⟨o, rest⟩⟩⟩
  · rfl
  · simp only; split <;> simp_all
  · simp only; split <;> simp_all <;> split <;> simp_all
  · simp only; split <;> simp_all <;> split <;> simp_all <;> split <;> simp_all
    rcases rest with _ | ⟨g, rest'⟩
    · rfl
    · simp only; split <;> simp_all

/-- `encode_quad`: as `encode_triple`, with the graph slot after the three others (same iterator, same roll-back). -/
theorem encode_quad_eq (enc encG : Term → M TermEnc (List Row × WTerm)) (henc : EncLike enc TermEnc.spo)
    (hencG : EncLike encG TermEnc.graph) (exc : PyErr) (st : EncState) (terms : List Term) :
    swap ((Gen.encode_quad enc encG exc terms).exec st) = encodeQuad exc st terms := by
  unfold Gen.encode_quad encodeQuad
  obtain ⟨te, rep⟩ := st
  have hb' := start_row_app te
  cases hb : te.beginRow with
  | error e => rw [hb] at hb'; py_simp [swap, hb', hb]
  | ok te0 =>
    rw [hb] at hb'
    simp only [quad_body_spec]
    have hspo := encode_spo_exec enc encG henc exc { te := te0, rep := rep } terms none
    simp only [M.exec, ExceptT.run, StateT.run] at hspo
    rcases hsp : spoSpec exc { te := te0, rep := rep } terms with ⟨st', r⟩
    rw [hsp] at hspo
    cases r with
    | error e => py_simp [swap, hb', hb, hspo, hsp]
    | ok v =>
      obtain ⟨rows, rest, ws, wp, wo⟩ := v
      obtain ⟨te3, ⟨rs, rp, ro, rg⟩⟩ := st'
      cases rest with
      | nil => py_simp [swap, hb', hb, hspo, hsp, pyNext]
      | cons g rest' =>
        by_cases h4 : rg = some g
        · subst h4; py_simp [swap, hb', hb, hspo, hsp, pyNext, end_row_app, encSlot]
        · rcases hg : te3.graph g with ⟨te4, r4⟩
          cases r4 <;> py_simp [swap, hb', hb, hspo, hsp, pyNext, end_row_app, encSlot, h4, hencG.app, hg]

/-- the hypothesis of the two theorems is satisfiable: the model's own functions, as methods -/
def modelEnc (f : TermEnc → Term → Res TermEnc (List Row × WTerm)) : Term → M TermEnc (List Row × WTerm) :=
  fun t => ExceptT.mk (fun te => ((f te t).2, (f te t).1))

theorem modelEnc_like (f : TermEnc → Term → Res TermEnc (List Row × WTerm)) : EncLike (modelEnc f) f := by
  intro t te
  simp [modelEnc, swap, M.exec, ExceptT.run, ExceptT.mk, StateT.run]

/-- so: the translated `encode_triple` / `encode_quad`, run with the model's per-term functions, ARE the model's -/
theorem encode_triple_model (exc : PyErr) (st : EncState) (terms : List Term) :
    swap ((Gen.encode_triple (modelEnc TermEnc.spo) (modelEnc TermEnc.graph) exc terms).exec st) = encodeTriple exc st terms :=
  encode_triple_eq _ _ (modelEnc_like _) exc st terms

theorem encode_quad_model (exc : PyErr) (st : EncState) (terms : List Term) :
    swap ((Gen.encode_quad (modelEnc TermEnc.spo) (modelEnc TermEnc.graph) exc terms).exec st) = encodeQuad exc st terms :=
  encode_quad_eq _ _ (modelEnc_like _) (modelEnc_like _) exc st terms

/-! ## Namespace declarations -/

theorem encode_iri_app (te : TermEnc) (iri : String)
    (hp : te.prefixes.lookup.evicting = true → te.prefixes.lookup.data ≠ [])
    (hn : te.names.lookup.evicting = true → te.names.lookup.data ≠ []) :
    Gen.TermEncoder.encode_iri iri te
      = (match (te.iriIndices iri).2 with
         | .ok (rows, p, n) => .ok (rows, (p, n))
         | .error e => .error e, (te.iriIndices iri).1) := by
  unfold Gen.TermEncoder.encode_iri
  have h := encode_iri_indices_eq te iri hp hn
  simp only [M.exec, ExceptT.run, StateT.run] at h
  rcases hi : te.iriIndices iri with ⟨te', r⟩
  rw [hi] at h
  have h' := swap_eq h
  cases r with
  | error e => py_simp [h', hi]
  | ok v => obtain ⟨rows, p, n⟩ := v; py_simp [h', hi]

/-- `encode_namespace_declaration`: the row bracket, the IRI through the tables, the declaration row last; when the IRI is
    refused the row stays open (no `end_row()`), as in the model's `encodeNamespace`. -/
theorem encode_namespace_declaration_eq (te : TermEnc) (name iri : String)
    (hp : te.prefixes.lookup.evicting = true → te.prefixes.lookup.data ≠ [])
    (hn : te.names.lookup.evicting = true → te.names.lookup.data ≠ []) :
    swap ((Gen.encode_namespace_declaration name iri).exec te) = encodeNamespace te name iri := by
  unfold Gen.encode_namespace_declaration encodeNamespace
  have hb' := start_row_app te
  cases hb : te.beginRow with
  | error e => rw [hb] at hb'; py_simp [swap, hb', hb]
  | ok te0 =>
    rw [hb] at hb'
    have hte0 : te0 = te.startRow := by
      unfold TermEnc.beginRow at hb; split at hb <;> simp_all
    have hp0 : te0.prefixes.lookup.evicting = true → te0.prefixes.lookup.data ≠ [] := by
      subst hte0; simpa [TermEnc.startRow, LookupEnc.startRow] using hp
    have hn0 : te0.names.lookup.evicting = true → te0.names.lookup.data ≠ [] := by
      subst hte0; simpa [TermEnc.startRow, LookupEnc.startRow] using hn
    have hi := encode_iri_app te0 iri hp0 hn0
    rcases hii : te0.iriIndices iri with ⟨te', r⟩
    rw [hii] at hi
    cases r with
    | error e => py_simp [swap, hb', hb, hi, hii]
    | ok v => obtain ⟨rows, p, n⟩ := v; py_simp [swap, hb', hb, hi, hii, end_row_app]

end Jelly.Translated

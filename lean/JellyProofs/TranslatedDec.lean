import JellyGenerated.DecGen
import JellyProofs.Translated
/-!
# The TRANSLATED term level of the decoder equals the model

`JellyGenerated/DecGen.lean` is produced from `Decoder.ingest_prefix_entry` / `ingest_name_entry` / `ingest_datatype_entry`,
`Decoder.decode_iri` and `Decoder.decode_literal` (`pyjelly/parse/decode.py`) by `harness/gen_translate_dec.py` on every run.
They are the reader-side counterpart of `encode_iri_indices` / `encode_literal`: which table an entry row goes to, how a
(prefix id, name id) pair is resolved (name first, then prefix, the zero forms of both), and which member of the literal's oneof
decides language and datatype. Each is proved equal to the function of the hand-written model that the property theorems
(C01 round trip, C04 malformed input, C05 mirror of the tables) are about.
-/
set_option linter.unusedSimpArgs false
namespace Jelly.Translated
open Jelly Jelly.Py

/-- a method without a result: the attributes afterwards, or the exception -/
def okState (r : Except PyErr Unit × σ) : Except PyErr σ :=
  match r with
  | (.ok _, s) => .ok s
  | (.error e, _) => .error e

theorem ingest_prefix_entry_eq (d : DecState) (id : Nat) (v : String) :
    okState ((Gen.Decoder.ingest_prefix_entry id v).exec d)
      = (d.prefixes.assignEntry id v).map (fun t => { d with prefixes := t }) := by
  unfold Gen.Decoder.ingest_prefix_entry okState
  have h := assign_entry_eq d.prefixes id v
  simp only [M.exec, ExceptT.run, StateT.run] at h
  rw [← h]
  rcases hr : Gen.LookupDecoder.assign_entry id v d.prefixes with ⟨x, s'⟩
  cases x <;> py_simp [hr, Except.map]

theorem ingest_name_entry_eq (d : DecState) (id : Nat) (v : String) :
    okState ((Gen.Decoder.ingest_name_entry id v).exec d)
      = (d.names.assignEntry id v).map (fun t => { d with names := t }) := by
  unfold Gen.Decoder.ingest_name_entry okState
  have h := assign_entry_eq d.names id v
  simp only [M.exec, ExceptT.run, StateT.run] at h
  rw [← h]
  rcases hr : Gen.LookupDecoder.assign_entry id v d.names with ⟨x, s'⟩
  cases x <;> py_simp [hr, Except.map]

theorem ingest_datatype_entry_eq (d : DecState) (id : Nat) (v : String) :
    okState ((Gen.Decoder.ingest_datatype_entry id v).exec d)
      = (d.datatypes.assignEntry id v).map (fun t => { d with datatypes := t }) := by
  unfold Gen.Decoder.ingest_datatype_entry okState
  have h := assign_entry_eq d.datatypes id v
  simp only [M.exec, ExceptT.run, StateT.run] at h
  rw [← h]
  rcases hr : Gen.LookupDecoder.assign_entry id v d.datatypes with ⟨x, s'⟩
  cases x <;> py_simp [hr, Except.map]

/-- the three entry rows of `DecState.decodeRow` are the translated `ingest_*_entry` -/
theorem ingest_rows_eq (quoted : Bool) (d : DecState) (id : Nat) (v : String) :
    d.decodeRow quoted (.prefixEntry id v) = (okState ((Gen.Decoder.ingest_prefix_entry id v).exec d)).map (fun d' => (d', none))
    ∧ d.decodeRow quoted (.nameEntry id v) = (okState ((Gen.Decoder.ingest_name_entry id v).exec d)).map (fun d' => (d', none))
    ∧ d.decodeRow quoted (.dtEntry id v) = (okState ((Gen.Decoder.ingest_datatype_entry id v).exec d)).map (fun d' => (d', none)) := by
  rw [ingest_prefix_entry_eq, ingest_name_entry_eq, ingest_datatype_entry_eq]
  refine ⟨?_, ?_, ?_⟩
  · unfold DecState.decodeRow; cases h : d.prefixes.assignEntry id v <;> simp [Except.map, h]
  · unfold DecState.decodeRow; cases h : d.names.assignEntry id v <;> simp [Except.map, h]
  · unfold DecState.decodeRow; cases h : d.datatypes.assignEntry id v <;> simp [Except.map, h]

/-- `decode_iri`: the name id is resolved first, then the prefix id; the IRI is their concatenation -/
theorem decode_iri_eq (d : DecState) (p n : Nat) :
    outcome ((Gen.Decoder.decode_iri p n).exec d) = d.decodeIri p n := by
  unfold Gen.Decoder.decode_iri DecState.decodeIri
  have h1 := decode_name_eq d.names n
  simp only [M.exec, ExceptT.run, StateT.run] at h1
  rcases hn : d.names.nameTerm n with ⟨names', rn⟩
  rw [hn] at h1
  have h1' := swap_eq h1
  cases rn with
  | error e => py_simp [h1', hn]
  | ok name =>
    have h2 := decode_prefix_eq d.prefixes p
    simp only [M.exec, ExceptT.run, StateT.run] at h2
    rcases hp : d.prefixes.prefixTerm p with ⟨prefixes', rp⟩
    rw [hp] at h2
    have h2' := swap_eq h2
    cases rp with
    | error e => py_simp [h1', hn, h2', hp]
    | ok pfx => py_simp [h1', hn, h2', hp]

/-- the two members of the oneof are never both set -/
def _root_.Jelly.Py.PLit.oneof (l : PLit) : Prop := l.langtag = none ∨ l.datatype = none

theorem _root_.Jelly.Py.PLit.oneof_empty : ({} : PLit).oneof := Or.inl rfl
theorem _root_.Jelly.Py.PLit.oneof_setLang (l : PLit) (v : String) : (l.setLang v).oneof := Or.inr rfl
theorem _root_.Jelly.Py.PLit.oneof_setDt (l : PLit) (v : Nat) : (l.setDt v).oneof := Or.inl rfl
theorem _root_.Jelly.Py.PLit.oneof_lex (l : PLit) (v : String) (h : l.oneof) : ({ l with lex := v } : PLit).oneof := h

/-- `decode_literal`: a non-empty language tag decides; otherwise a datatype reference, when present, is resolved (and a
    reference that cannot be resolved is an error); what the adapter is handed is the model's literal term. -/
theorem decode_literal_eq (d : DecState) (l : PLit) (h1 : l.oneof) :
    (outcome ((Gen.Decoder.decode_literal l).exec d)).map (fun r => (r.1, Term.lit r.2.1 r.2.2.1 r.2.2.2))
      = d.decodeLiteral l.lex l.kind := by
  unfold Gen.Decoder.decode_literal DecState.decodeLiteral PLit.kind
  obtain ⟨lex, lang, dt⟩ := l
  cases dt with
  | some id =>
    have hl : lang = none := by rcases h1 with h | h <;> simp_all
    subst hl
    have h2 := decode_datatype_eq d.datatypes id
    simp only [M.exec, ExceptT.run, StateT.run] at h2
    rcases hd : d.datatypes.datatypeTerm id with ⟨dts', rd⟩
    rw [hd] at h2
    have h2' := swap_eq h2
    cases rd <;> py_simp [h2', hd, optStrTruthy, optGet, Except.map]
  | none =>
    cases lang with
    | none => py_simp [optStrTruthy, optGet, Except.map]
    | some t => by_cases ht : t = "" <;> py_simp [optStrTruthy, optGet, Except.map, ht]

/-- the premises are met: a literal filled in by the translated `encode_literal` satisfies `oneof`, and the decoder of a
    fresh stream resolves it -/
example : (PLit.setDt {} 3).oneof ∧ (PLit.setLang { lex := "a" } "en").oneof := ⟨Or.inl rfl, Or.inr rfl⟩

/-- `validate_stream_options`: the seven `assert`s, in order, against the options the stream was opened with -/
theorem validate_stream_options_eq (d : DecState) (o : Options) :
    (Gen.Decoder.validate_stream_options o).exec d = (d.validateOptions o, d) := by
  unfold Gen.Decoder.validate_stream_options DecState.validateOptions
  -- all 128 combinations, so that the order of the asserts in the source does not matter
  by_cases h1 : d.opts.physical = o.physicalType <;>
  by_cases h2 : d.opts.logical = o.logicalType <;>
  by_cases h3 : d.opts.streamName = o.streamName <;>
  by_cases h4 : o.version ≤ d.opts.version <;>
  by_cases h5 : d.opts.maxPrefixes = o.maxPrefixes <;>
  by_cases h6 : d.opts.maxDatatypes = o.maxDatatypes <;>
  by_cases h7 : d.opts.maxNames = o.maxNames <;>
  py_simp [h1, h2, h3, h4, h5, h6, h7]

end Jelly.Translated

import JellyProofs.C18Full
import JellyProofs.C01Bytes
import JellyProofs.Lemmas.RdflibLoops
/-!
# C18 at byte level — "decodes to the input, or raises", for the bytes actually written

Property theorems only; helper lemmas live in `JellyProofs/Lemmas/*.lean`.

`C18_triples/_quads/_graphs` (rows level, reference decoder) composed with the decoder refinement (C04), the framing
layer (C07) and the wire round trip, exactly as `C01_*_bytes` composes `C03_*` — but WITHOUT the sizing hypothesis: for
every sequence of well-formed statements and every readable preset, the writer either ends with an exception, or
pyjelly's own flat parser, given the bytes that were written (delimited or not), returns exactly the input.
-/
namespace Jelly

theorem C18_triples_bytes (o : SerOptions) (s : Stream) (stmts : List (List Term)) (delimited : Bool)
    (hs : Stream.new .triple o = .ok s) (hl : validLogical s.logicalType = true)
    (hp : presetReadable o.preset = true)
    (hwf : ∀ t ∈ stmts, tripleWF t = true)
    (hd : ∀ t ∈ stmts, stmtShallow t = true)
    (hsmall : framesSmall (streamFrames s (.gen stmts))) :
    (streamFrames s (.gen stmts)).err ≠ none ∨
    parseFlat .seekable (runBytes delimited (streamFrames s (.gen stmts))) false true
      = { events := stmts.map (fun t => Event.stmt (t.map Term.norm)), err := none } := by
  rcases C18_triples o s stmts hs hl hwf with h | hspec
  · exact Or.inl h
  · by_cases herr : (streamFrames s (.gen stmts)).err = none
    · right
      have hhead := streamFrames_head_any hs stmts
      exact bytes_core .triple o s stmts _ hs hl hp hd hsmall
        (fun dl => roundtrip_core o .triple s _ _ hs hp herr hspec hhead dl) hhead delimited
    · exact Or.inl herr

theorem C18_quads_bytes (o : SerOptions) (s : Stream) (stmts : List (List Term)) (delimited : Bool)
    (hs : Stream.new .quad o = .ok s) (hl : validLogical s.logicalType = true)
    (hp : presetReadable o.preset = true)
    (hwf : ∀ t ∈ stmts, quadWF t = true)
    (hd : ∀ t ∈ stmts, stmtShallow t = true)
    (hsmall : framesSmall (streamFrames s (.gen stmts))) :
    (streamFrames s (.gen stmts)).err ≠ none ∨
    parseFlat .seekable (runBytes delimited (streamFrames s (.gen stmts))) false true
      = { events := stmts.map (fun t => Event.stmt (t.map Term.norm)), err := none } := by
  rcases C18_quads o s stmts hs hl hwf with h | hspec
  · exact Or.inl h
  · by_cases herr : (streamFrames s (.gen stmts)).err = none
    · right
      have hhead := streamFrames_head_any hs stmts
      exact bytes_core .quad o s stmts _ hs hl hp hd hsmall
        (fun dl => roundtrip_core o .quad s _ _ hs hp herr hspec hhead dl) hhead delimited
    · exact Or.inl herr

theorem C18_graphs_bytes (o : SerOptions) (s : Stream) (stmts : List (List Term)) (delimited : Bool)
    (hs : Stream.new .graph o = .ok s) (hl : validLogical s.logicalType = true)
    (hp : presetReadable o.preset = true)
    (hwf : ∀ t ∈ stmts, quadWF t = true)
    (hd : ∀ t ∈ stmts, stmtShallow t = true)
    (hsmall : framesSmall (streamFrames s (.gen stmts))) :
    (streamFrames s (.gen stmts)).err ≠ none ∨
    parseFlat .seekable (runBytes delimited (streamFrames s (.gen stmts))) false true
      = { events := stmts.map (fun t => Event.stmt (t.map Term.norm)), err := none } := by
  rcases C18_graphs o s stmts hs hl hwf with h | hspec
  · exact Or.inl h
  · by_cases herr : (streamFrames s (.gen stmts)).err = none
    · right
      have hhead := streamFrames_head_any hs stmts
      exact bytes_core .graph o s stmts _ hs hl hp hd hsmall
        (fun dl => roundtrip_core o .graph s _ _ hs hp herr hspec hhead dl) hhead delimited
    · exact Or.inl herr

end Jelly

import JellyModel.Decode
import JellyModel.Spec
import JellyModel.Parse
import JellyProofs.Lemmas.DecoderRefines
/-!
# C04 — every valid Jelly stream decodes to exactly the statements it encodes
# C16 — spec-violating streams are rejected, never turned into fabricated data

Property theorems only. Helper lemmas live in `JellyProofs/Lemmas/*.lean`.

`Spec.runRows` is the reference decoder (validity + denotation) written from the format rules;
`DecState.decodeRows` is the model of pyjelly's `Decoder` driven by the generic adapters.
The theorem quantifies over ALL row sequences, which covers every legal producer (any eviction
policy, split point, explicit-vs-zero ids, early/redundant entries, use or non-use of repeats).
-/
namespace Jelly

/-- C04 (row level). If the rules accept a row sequence that starts with an options row `o`
    (tables within what the reader supports) and say it denotes `evs`, then pyjelly's decoder,
    set up from that first row exactly as `get_options_and_frames` + `parse_jelly_flat` do, delivers
    exactly `evs`, in order, without raising. -/
theorem C04_decoder_refines_spec (o : Options) (rest : List Row) (st : Spec.State) (evs : List Event)
    (delimited : Bool)
    (hsz : o.maxNames ≤ MAX_LOOKUP_SIZE ∧ o.maxPrefixes ≤ MAX_LOOKUP_SIZE ∧ o.maxDatatypes ≤ MAX_LOOKUP_SIZE)
    (h : Spec.runRows (.options o :: rest) = (st, evs, none)) :
    ∃ opts adapter d0 d,
      optionsFromFrame { rows := .options o :: rest } delimited = .ok opts ∧
      adapterFor opts.physical = .ok adapter ∧
      DecState.new opts adapter = .ok d0 ∧
      d0.decodeRows true (.options o :: rest) [] = (d, evs, none) := by
  obtain ⟨hc, hrun⟩ := runRows_header h
  obtain ⟨d, e, -⟩ := run_sim rest _ _ [] 1 st evs
    (R_mirror (dl := delimited) rfl hc (initState_WF o)) hrun
  refine ⟨parserOptionsOf o delimited, adapterOf o, _, d, optionsFromFrame_ok hc, adapterFor_ok hc,
    DecState.new_ok hsz, ?_⟩
  rw [decodeRows_header hc]
  exact e

/-- The catalogue of violation classes of property C16. -/
def Spec.Violation.catalogued : Spec.Violation → Bool
  | .entryIdOutOfRange | .nameRefOutOfRange | .nameRefUnfilled | .prefixRefOutOfRange
  | .prefixRefUnfilled | .datatypeRefZero | .datatypeRefOutOfRange | .datatypeRefUnfilled
  | .repeatedWithoutPrevious | .repeatedInQuoted | .rowKindForbidden | .tripleOutsideGraph
  | .versionTooNew | .badPhysicalType | .noOptionsFirst | .graphStartWithoutTerm | .emptyRow => true
  | _ => false

/-- C16 (row level, violations after a valid options row). If the rules accept `pre` (starting
    with the options row `o`) with denotation `evs` and reject the next row `r` with a catalogued
    class, then pyjelly's decoder delivers exactly `evs` for the valid prefix and raises AT the
    offending row: no event is ever produced from it. -/
theorem C16_rejects_at_offending_row (o : Options) (pre : List Row) (r : Row) (post : List Row)
    (st : Spec.State) (evs : List Event) (v : Spec.Violation) (delimited : Bool)
    (hsz : o.maxNames ≤ MAX_LOOKUP_SIZE ∧ o.maxPrefixes ≤ MAX_LOOKUP_SIZE ∧ o.maxDatatypes ≤ MAX_LOOKUP_SIZE)
    (hpre : Spec.runRows (.options o :: pre) = (st, evs, none))
    (hviol : Spec.step st r = .error v) (hcat : v.catalogued = true) :
    ∃ opts adapter d0 d e,
      optionsFromFrame { rows := .options o :: pre ++ r :: post } delimited = .ok opts ∧
      adapterFor opts.physical = .ok adapter ∧
      DecState.new opts adapter = .ok d0 ∧
      d0.decodeRows true (.options o :: pre ++ r :: post) [] = (d, evs, some e) := by
  obtain ⟨hc, hrun⟩ := runRows_header hpre
  have hv : v.rejected = true := by
    cases v <;> first | rfl | cases hcat
  obtain ⟨d, e, he⟩ := run_err post
    (R_mirror (dl := delimited) rfl hc (initState_WF o)) hrun hviol hv
  refine ⟨parserOptionsOf o delimited, adapterOf o, _, d, e, optionsFromFrame_ok hc, adapterFor_ok hc,
    DecState.new_ok hsz, ?_⟩
  rw [List.cons_append, decodeRows_header hc]
  exact he

/-- C16 (violations in the header). A stream whose first row is not an acceptable options row
    (missing options row, unsupported physical type, version newer than supported, name table
    smaller than 8, table larger than 4096) never yields a single event from the flat parser. -/
theorem C16_bad_header_rejected (first : Row) (rest : List Row) (delimited : Bool)
    (h : (∀ o, first ≠ .options o) ∨
         (∃ o, first = .options o ∧
            (o.physicalType = 0 ∨ 3 < o.physicalType ∨ 2 < o.version ∨ o.maxNames < 8 ∨
             MAX_LOOKUP_SIZE < o.maxNames ∨ MAX_LOOKUP_SIZE < o.maxPrefixes ∨ MAX_LOOKUP_SIZE < o.maxDatatypes))) :
    (∃ e, optionsFromFrame { rows := first :: rest } delimited = .error e) ∨
    (∃ opts, optionsFromFrame { rows := first :: rest } delimited = .ok opts ∧
      ((∃ e, adapterFor opts.physical = .error e) ∨
       (∃ adapter, adapterFor opts.physical = .ok adapter ∧
          ((∃ e, DecState.new opts adapter = .error e) ∨
           (∃ d0 d e, DecState.new opts adapter = .ok d0 ∧
              d0.decodeRows true (first :: rest) [] = (d, [], some e)))))) := by
  rcases h with h | ⟨o, rfl, hbad⟩
  · exact .inl ⟨_, optionsFromFrame_nonOptions h⟩
  · cases hof : optionsFromFrame { rows := .options o :: rest } delimited with
    | error e => exact .inl ⟨e, rfl⟩
    | ok opts =>
      refine .inr ⟨opts, rfl, ?_⟩
      obtain ⟨hopts, hn⟩ := optionsFromFrame_inv hof
      cases had : adapterFor opts.physical with
      | error e => exact .inl ⟨e, rfl⟩
      | ok adapter =>
        refine .inr ⟨adapter, rfl, ?_⟩
        have hp : o.physicalType = 1 ∨ o.physicalType = 2 ∨ o.physicalType = 3 := by
          rw [hopts] at had
          exact adapterFor_inv had
        cases hnew : DecState.new opts adapter with
        | error e => exact .inl ⟨e, rfl⟩
        | ok d0 =>
          obtain ⟨h0, s1, s2, s3⟩ := DecState.new_inv hnew
          rw [hopts] at h0 s1 s2 s3
          have hv : 2 < o.version := by
            simp only [parserOptionsOf] at s1 s2 s3
            omega
          exact .inr ⟨d0, d0, _, rfl, decodeRows_versionTooNew rest h0 hv⟩

end Jelly

import JellyModel.Parse
import JellyProofs.Lemmas.Framing
/-!
# C07 — frame boundaries never change content; grouped I/O is one sink per frame

Property theorems only. Helper lemmas live in `JellyProofs/Lemmas/*.lean`.
-/
namespace Jelly

/-- (a) Decoding a list of frames with one decoder equals decoding the concatenation of their
    rows: same events in the same order, same error (or none). Empty frames and frame metadata
    play no role. -/
theorem C07_frames_eq_rows (quoted : Bool) (d : DecState) (frames : List Frame) :
    (decodeFrames quoted d frames []).1.flatten ++ (decodeFrames quoted d frames []).2.1
        = (d.decodeRows quoted (frames.flatMap (·.rows)) []).2.1 ∧
    (decodeFrames quoted d frames []).2.2 = (d.decodeRows quoted (frames.flatMap (·.rows)) []).2.2 := by
  simpa using decodeFrames_eq_rows quoted d frames []

/-- (a') Hence any two partitions of the same row sequence into frames decode alike. -/
theorem C07_repartition (quoted : Bool) (d : DecState) (fs₁ fs₂ : List Frame)
    (h : fs₁.flatMap (·.rows) = fs₂.flatMap (·.rows)) :
    (decodeFrames quoted d fs₁ []).1.flatten ++ (decodeFrames quoted d fs₁ []).2.1
      = (decodeFrames quoted d fs₂ []).1.flatten ++ (decodeFrames quoted d fs₂ []).2.1 ∧
    (decodeFrames quoted d fs₁ []).2.2 = (decodeFrames quoted d fs₂ []).2.2 := by
  obtain ⟨a1, a2⟩ := decodeFrames_eq_rows quoted d fs₁ []
  obtain ⟨b1, b2⟩ := decodeFrames_eq_rows quoted d fs₂ []
  rw [a1, a2, b1, b2, h]
  exact ⟨rfl, rfl⟩

/-- (b) Grouped parsing: when nothing fails there is exactly one group per frame, in order, and
    the concatenation of the groups is the flat result. -/
theorem C07_grouped_one_per_frame (quoted : Bool) (d : DecState) (frames : List Frame)
    (h : (decodeFrames quoted d frames []).2.2 = none) :
    (decodeFrames quoted d frames []).1.length = frames.length ∧
    (decodeFrames quoted d frames []).1.flatten = (d.decodeRows quoted (frames.flatMap (·.rows)) []).2.1 := by
  obtain ⟨l1, l2⟩ := decodeFrames_ok_length quoted d frames [] h
  obtain ⟨a1, _⟩ := decodeFrames_eq_rows quoted d frames []
  rw [l2] at a1
  refine ⟨by simpa using l1, ?_⟩
  simpa using a1

/-- (b') The grouped and flat entry points agree on every byte string and every source kind:
    the statements of the sinks, concatenated, are the statements of the flat parse whenever the
    flat parse ends normally. -/
theorem C07_grouped_concat_eq_flat (kind : SourceKind) (b : Bytes) (quoted : Bool)
    (h : (parseFlat kind b false quoted).err = none) :
    (parseGrouped kind b false quoted).err = none ∧
    (parseGrouped kind b false quoted).sinks.flatMap (·.store)
      = (parseFlat kind b false quoted).events.filterMap (fun ev => match ev with | .stmt ts => some ts | .ns _ _ => none) := by
  have hg1 : (fun l => !false || strictFlatOk l) = (fun _ : Nat => true) := by funext l; simp
  have hg2 : (fun l => !false || strictGroupedOk l) = (fun _ : Nat => true) := by funext l; simp
  have hf : (fun ev : Event => match ev with | .stmt ts => some ts | .ns _ _ => none) = Event.stmt? := by
    funext ev; cases ev <;> rfl
  rw [hf]
  unfold parseFlat at h ⊢
  unfold parseGrouped
  simp only [hg1, hg2] at h ⊢
  have hp := parseCore_ok_partial quoted kind b (fun _ => true)
  rcases hc : parseCore quoted kind b (fun _ => true) with ⟨done, part, err⟩
  rw [hc] at h hp
  simp only [] at h hp ⊢
  subst h
  rw [hp rfl, List.append_nil]
  exact ⟨rfl, sinks_store_flatten done⟩

/-- (c) Grouped serialization with a grouped flow (GRAPHS logical type on a TripleStream, DATASETS
    on a QuadStream): an enrolled stream with an empty flow turns one non-empty sink into exactly
    one frame and is left with an empty flow again (so the next sink gets its own frame). -/
theorem C07_one_frame_per_nonempty_sink (s : Stream) (sk : Sink)
    (hk : (s.cls = .triple ∧ s.flow.kind = .graphs) ∨ (s.cls = .quad ∧ s.flow.kind = .datasets))
    (hflow : s.flow.rows = []) (henr : s.enrolled = true) (hne : sk.store ≠ [])
    (hok : (streamFrames s (.sink sk)).err = none) :
    (streamFrames s (.sink sk)).frames.length = 1 ∧
    (streamFrames s (.sink sk)).stream.flow.rows = [] ∧
    (streamFrames s (.sink sk)).stream.enrolled = true ∧
    (streamFrames s (.sink sk)).stream.flow.kind = s.flow.kind ∧
    (streamFrames s (.sink sk)).stream.cls = s.cls := by
  -- `hflow` is not needed: whatever rows are pending end up in the one frame as well.
  have _ := hflow
  rcases hk with ⟨hc, hk⟩ | ⟨hc, hk⟩
  · have hsf : streamFrames s (.sink sk) = triplesStreamFrames s (.sink sk) := by
      simp only [streamFrames, hc]
    rw [hsf] at hok ⊢
    obtain ⟨h1, h2, h3⟩ := triplesStreamFrames_graphs s sk hk henr hne hok
    exact ⟨h1, h2, h3.enrolled.trans henr, h3.kind, h3.cls⟩
  · have hsf : streamFrames s (.sink sk) = quadsStreamFrames s (.sink sk) := by
      simp only [streamFrames, hc]
    rw [hsf] at hok ⊢
    obtain ⟨h1, h2, h3⟩ := quadsStreamFrames_datasets s sk hk henr hne hok
    exact ⟨h1, h2, h3.enrolled.trans henr, h3.kind, h3.cls⟩

end Jelly

namespace Jelly

/-- Known finding `C07-metadata-only-first-frame-of-10-bytes`, checked by the kernel on the model: the same two frames —
    a leading frame that carries only metadata, then an options row and one triple — parse to the triple when the leading
    frame is 9 bytes long, and fail with `DecodeError` when it is 10 bytes long (the stream then begins `0A 7A`, which the
    three-byte detector reads as a non-delimited frame). The byte-level theorems (`C08_hint_delimited`, `C01_*_bytes`,
    `C04_bytes_*`) carry the hypothesis that excludes it: the first frame is empty or starts with a row. -/
theorem C07_known_metadata_only_first_frame :
    ((parseFlat .seekable [9, 122, 7, 10, 1, 107, 18, 2, 109, 109,
        23, 10, 8, 10, 6, 16, 1, 72, 8, 120, 1, 10, 11, 18, 9, 18, 1, 97, 50, 1, 98, 82, 1, 99]).err = none ∧
     (parseFlat .seekable [9, 122, 7, 10, 1, 107, 18, 2, 109, 109,
        23, 10, 8, 10, 6, 16, 1, 72, 8, 120, 1, 10, 11, 18, 9, 18, 1, 97, 50, 1, 98, 82, 1, 99]).events.length = 1) ∧
    (parseFlat .seekable [10, 122, 8, 10, 1, 107, 18, 3, 109, 109, 109,
        23, 10, 8, 10, 6, 16, 1, 72, 8, 120, 1, 10, 11, 18, 9, 18, 1, 97, 50, 1, 98, 82, 1, 99]).err = some .decodeError := by
  decide +kernel

end Jelly

import JellyGenerated.DStmtGen
import JellyProofs.Translated
/-!
# The TRANSLATED statement level of the reader equals the model

`JellyGenerated/DStmtGen.lean` is produced from `Decoder.decode_statement` / `decode_triple` / `decode_quad`
(`pyjelly/parse/decode.py`) by `harness/gen_translate_dstmt.py` on every run: a slot that is set is decoded and remembered, a slot
that is not set is the repeated term (KeyError when there is none). The term dispatch `decode_term` is the parameter `dec`; the
theorems hold for every `dec` that behaves like the model's `DecState.decodeTerm` (`DecLike`).
-/
set_option linter.unusedSimpArgs false
namespace Jelly.Translated
open Jelly Jelly.Py

def DecLike (quoted : Bool) (dec : WTerm → M DecState Term) : Prop :=
  ∀ w d, outcome ((dec w).exec d) = d.decodeTerm quoted w

theorem DecLike.cases {quoted dec} (h : DecLike quoted dec) (w : WTerm) (d : DecState) :
    (∃ a s, dec w d = (.ok a, s) ∧ d.decodeTerm quoted w = .ok (s, a))
    ∨ (∃ e s, dec w d = (.error e, s) ∧ d.decodeTerm quoted w = .error e) := by
  have := h w d
  simp only [outcome, M.exec, ExceptT.run, StateT.run] at this
  rcases hd : dec w d with ⟨x, s⟩
  rw [hd] at this
  cases x with
  | ok a => left; exact ⟨a, s, rfl, this.symm⟩
  | error e => right; exact ⟨e, s, rfl, this.symm⟩

/-- `decode_triple`: each slot that is set is decoded and remembered, each slot that is not is the repeated term -/
theorem decode_triple_eq (quoted : Bool) (dec : WTerm → M DecState Term) (hdec : DecLike quoted dec)
    (d : DecState) (m : PStmt) :
    outcome ((Gen.Decoder.decode_triple dec m).exec d)
      = (d.decodeSpo quoted m.s m.p m.o).map (fun r => (r.1, [r.2.1, r.2.2.1, r.2.2.2])) := by
  unfold Gen.Decoder.decode_triple Gen.Decoder.decode_statement DecState.decodeSpo DecState.decodeSlot
  obtain ⟨ms, mp, mo, mg⟩ := m
  obtain ⟨opts, ad, nm, pf, dt, ⟨rs, rp, ro, rg⟩, gid⟩ := d
  cases ms with
  | none =>
    cases rs with
    | none => py_simp [List.forIn_cons, List.forIn_nil, pstmtGet, optGet, repGet, repSet, Except.map, DecState.decodeSlot]
    | some t0 =>
      cases mp with
      | none =>
        cases rp with
        | none => py_simp [List.forIn_cons, List.forIn_nil, pstmtGet, optGet, repGet, repSet, Except.map, DecState.decodeSlot]
        | some t1 =>
          cases mo with
          | none =>
            cases ro with
            | none => py_simp [List.forIn_cons, List.forIn_nil, pstmtGet, optGet, repGet, repSet, Except.map, DecState.decodeSlot]
            | some t2 =>
              py_simp [List.forIn_cons, List.forIn_nil, pstmtGet, optGet, repGet, repSet, Except.map, DecState.decodeSlot]
          | some w2 =>
            rcases hdec.cases w2 (⟨opts, ad, nm, pf, dt, ⟨(some t0), (some t1), ro, rg⟩, gid⟩ : DecState) with ⟨a2, s2, h2, h2'⟩ | ⟨e2, s2, h2, h2'⟩
            · obtain ⟨opts2, ad2, nm2, pf2, dt2, ⟨rs2, rp2, ro2, rg2⟩, gid2⟩ := s2
              py_simp [List.forIn_cons, List.forIn_nil, pstmtGet, optGet, repGet, repSet, Except.map, DecState.decodeSlot, h2, h2']
            · py_simp [List.forIn_cons, List.forIn_nil, pstmtGet, optGet, repGet, repSet, Except.map, DecState.decodeSlot, h2, h2']
      | some w1 =>
        rcases hdec.cases w1 (⟨opts, ad, nm, pf, dt, ⟨(some t0), rp, ro, rg⟩, gid⟩ : DecState) with ⟨a1, s1, h1, h1'⟩ | ⟨e1, s1, h1, h1'⟩
        · obtain ⟨opts1, ad1, nm1, pf1, dt1, ⟨rs1, rp1, ro1, rg1⟩, gid1⟩ := s1
          cases mo with
          | none =>
            cases ro1 with
            | none => py_simp [List.forIn_cons, List.forIn_nil, pstmtGet, optGet, repGet, repSet, Except.map, DecState.decodeSlot, h1, h1']
            | some t2 =>
              py_simp [List.forIn_cons, List.forIn_nil, pstmtGet, optGet, repGet, repSet, Except.map, DecState.decodeSlot, h1, h1']
          | some w2 =>
            rcases hdec.cases w2 (⟨opts1, ad1, nm1, pf1, dt1, ⟨rs1, (some a1), ro1, rg1⟩, gid1⟩ : DecState) with ⟨a2, s2, h2, h2'⟩ | ⟨e2, s2, h2, h2'⟩
            · obtain ⟨opts2, ad2, nm2, pf2, dt2, ⟨rs2, rp2, ro2, rg2⟩, gid2⟩ := s2
              py_simp [List.forIn_cons, List.forIn_nil, pstmtGet, optGet, repGet, repSet, Except.map, DecState.decodeSlot, h1, h1', h2, h2']
            · py_simp [List.forIn_cons, List.forIn_nil, pstmtGet, optGet, repGet, repSet, Except.map, DecState.decodeSlot, h1, h1', h2, h2']
        · py_simp [List.forIn_cons, List.forIn_nil, pstmtGet, optGet, repGet, repSet, Except.map, DecState.decodeSlot, h1, h1']
  | some w0 =>
    rcases hdec.cases w0 (⟨opts, ad, nm, pf, dt, ⟨rs, rp, ro, rg⟩, gid⟩ : DecState) with ⟨a0, s0, h0, h0'⟩ | ⟨e0, s0, h0, h0'⟩
    · obtain ⟨opts0, ad0, nm0, pf0, dt0, ⟨rs0, rp0, ro0, rg0⟩, gid0⟩ := s0
      cases mp with
      | none =>
        cases rp0 with
        | none => py_simp [List.forIn_cons, List.forIn_nil, pstmtGet, optGet, repGet, repSet, Except.map, DecState.decodeSlot, h0, h0']
        | some t1 =>
          cases mo with
          | none =>
            cases ro0 with
            | none => py_simp [List.forIn_cons, List.forIn_nil, pstmtGet, optGet, repGet, repSet, Except.map, DecState.decodeSlot, h0, h0']
            | some t2 =>
              py_simp [List.forIn_cons, List.forIn_nil, pstmtGet, optGet, repGet, repSet, Except.map, DecState.decodeSlot, h0, h0']
          | some w2 =>
            rcases hdec.cases w2 (⟨opts0, ad0, nm0, pf0, dt0, ⟨(some a0), (some t1), ro0, rg0⟩, gid0⟩ : DecState) with ⟨a2, s2, h2, h2'⟩ | ⟨e2, s2, h2, h2'⟩
            · obtain ⟨opts2, ad2, nm2, pf2, dt2, ⟨rs2, rp2, ro2, rg2⟩, gid2⟩ := s2
              py_simp [List.forIn_cons, List.forIn_nil, pstmtGet, optGet, repGet, repSet, Except.map, DecState.decodeSlot, h0, h0', h2, h2']
            · py_simp [List.forIn_cons, List.forIn_nil, pstmtGet, optGet, repGet, repSet, Except.map, DecState.decodeSlot, h0, h0', h2, h2']
      | some w1 =>
        rcases hdec.cases w1 (⟨opts0, ad0, nm0, pf0, dt0, ⟨(some a0), rp0, ro0, rg0⟩, gid0⟩ : DecState) with ⟨a1, s1, h1, h1'⟩ | ⟨e1, s1, h1, h1'⟩
        · obtain ⟨opts1, ad1, nm1, pf1, dt1, ⟨rs1, rp1, ro1, rg1⟩, gid1⟩ := s1
          cases mo with
          | none =>
            cases ro1 with
            | none => py_simp [List.forIn_cons, List.forIn_nil, pstmtGet, optGet, repGet, repSet, Except.map, DecState.decodeSlot, h0, h0', h1, h1']
            | some t2 =>
              py_simp [List.forIn_cons, List.forIn_nil, pstmtGet, optGet, repGet, repSet, Except.map, DecState.decodeSlot, h0, h0', h1, h1']
          | some w2 =>
            rcases hdec.cases w2 (⟨opts1, ad1, nm1, pf1, dt1, ⟨rs1, (some a1), ro1, rg1⟩, gid1⟩ : DecState) with ⟨a2, s2, h2, h2'⟩ | ⟨e2, s2, h2, h2'⟩
            · obtain ⟨opts2, ad2, nm2, pf2, dt2, ⟨rs2, rp2, ro2, rg2⟩, gid2⟩ := s2
              py_simp [List.forIn_cons, List.forIn_nil, pstmtGet, optGet, repGet, repSet, Except.map, DecState.decodeSlot, h0, h0', h1, h1', h2, h2']
            · py_simp [List.forIn_cons, List.forIn_nil, pstmtGet, optGet, repGet, repSet, Except.map, DecState.decodeSlot, h0, h0', h1, h1', h2, h2']
        · py_simp [List.forIn_cons, List.forIn_nil, pstmtGet, optGet, repGet, repSet, Except.map, DecState.decodeSlot, h0, h0', h1, h1']
    · py_simp [List.forIn_cons, List.forIn_nil, pstmtGet, optGet, repGet, repSet, Except.map, DecState.decodeSlot, h0, h0']

/-- `decode_quad`: the three slots of `decodeSpo`, then the graph slot under the same rule -/
theorem decode_quad_eq (quoted : Bool) (dec : WTerm → M DecState Term) (hdec : DecLike quoted dec)
    (d : DecState) (m : PStmt) :
    outcome ((Gen.Decoder.decode_quad dec m).exec d)
      = match d.decodeSpo quoted m.s m.p m.o with
        | .error e => .error e
        | .ok (d', ts, tp, to) =>
          match d'.decodeSlot quoted d'.rep.g m.g with
          | .error e => .error e
          | .ok (d'', tg) => .ok ({ d'' with rep := { d''.rep with g := some tg } }, [ts, tp, to, tg]) := by
  unfold Gen.Decoder.decode_quad Gen.Decoder.decode_statement DecState.decodeSpo DecState.decodeSlot
  obtain ⟨ms, mp, mo, mg⟩ := m
  obtain ⟨opts, ad, nm, pf, dt, ⟨rs, rp, ro, rg⟩, gid⟩ := d
  cases ms with
  | none =>
    cases rs with
    | none => py_simp [List.forIn_cons, List.forIn_nil, pstmtGet, optGet, repGet, repSet, Except.map, DecState.decodeSlot]
    | some t0 =>
      cases mp with
      | none =>
        cases rp with
        | none => py_simp [List.forIn_cons, List.forIn_nil, pstmtGet, optGet, repGet, repSet, Except.map, DecState.decodeSlot]
        | some t1 =>
          cases mo with
          | none =>
            cases ro with
            | none => py_simp [List.forIn_cons, List.forIn_nil, pstmtGet, optGet, repGet, repSet, Except.map, DecState.decodeSlot]
            | some t2 =>
              cases mg with
              | none =>
                cases rg with
                | none => py_simp [List.forIn_cons, List.forIn_nil, pstmtGet, optGet, repGet, repSet, Except.map, DecState.decodeSlot]
                | some t3 =>
                  py_simp [List.forIn_cons, List.forIn_nil, pstmtGet, optGet, repGet, repSet, Except.map, DecState.decodeSlot]
              | some w3 =>
                rcases hdec.cases w3 (⟨opts, ad, nm, pf, dt, ⟨(some t0), (some t1), (some t2), rg⟩, gid⟩ : DecState) with ⟨a3, s3, h3, h3'⟩ | ⟨e3, s3, h3, h3'⟩
                · obtain ⟨opts3, ad3, nm3, pf3, dt3, ⟨rs3, rp3, ro3, rg3⟩, gid3⟩ := s3
                  py_simp [List.forIn_cons, List.forIn_nil, pstmtGet, optGet, repGet, repSet, Except.map, DecState.decodeSlot, h3, h3']
                · py_simp [List.forIn_cons, List.forIn_nil, pstmtGet, optGet, repGet, repSet, Except.map, DecState.decodeSlot, h3, h3']
          | some w2 =>
            rcases hdec.cases w2 (⟨opts, ad, nm, pf, dt, ⟨(some t0), (some t1), ro, rg⟩, gid⟩ : DecState) with ⟨a2, s2, h2, h2'⟩ | ⟨e2, s2, h2, h2'⟩
            · obtain ⟨opts2, ad2, nm2, pf2, dt2, ⟨rs2, rp2, ro2, rg2⟩, gid2⟩ := s2
              cases mg with
              | none =>
                cases rg2 with
                | none => py_simp [List.forIn_cons, List.forIn_nil, pstmtGet, optGet, repGet, repSet, Except.map, DecState.decodeSlot, h2, h2']
                | some t3 =>
                  py_simp [List.forIn_cons, List.forIn_nil, pstmtGet, optGet, repGet, repSet, Except.map, DecState.decodeSlot, h2, h2']
              | some w3 =>
                rcases hdec.cases w3 (⟨opts2, ad2, nm2, pf2, dt2, ⟨rs2, rp2, (some a2), rg2⟩, gid2⟩ : DecState) with ⟨a3, s3, h3, h3'⟩ | ⟨e3, s3, h3, h3'⟩
                · obtain ⟨opts3, ad3, nm3, pf3, dt3, ⟨rs3, rp3, ro3, rg3⟩, gid3⟩ := s3
                  py_simp [List.forIn_cons, List.forIn_nil, pstmtGet, optGet, repGet, repSet, Except.map, DecState.decodeSlot, h2, h2', h3, h3']
                · py_simp [List.forIn_cons, List.forIn_nil, pstmtGet, optGet, repGet, repSet, Except.map, DecState.decodeSlot, h2, h2', h3, h3']
            · py_simp [List.forIn_cons, List.forIn_nil, pstmtGet, optGet, repGet, repSet, Except.map, DecState.decodeSlot, h2, h2']
      | some w1 =>
        rcases hdec.cases w1 (⟨opts, ad, nm, pf, dt, ⟨(some t0), rp, ro, rg⟩, gid⟩ : DecState) with ⟨a1, s1, h1, h1'⟩ | ⟨e1, s1, h1, h1'⟩
        · obtain ⟨opts1, ad1, nm1, pf1, dt1, ⟨rs1, rp1, ro1, rg1⟩, gid1⟩ := s1
          cases mo with
          | none =>
            cases ro1 with
            | none => py_simp [List.forIn_cons, List.forIn_nil, pstmtGet, optGet, repGet, repSet, Except.map, DecState.decodeSlot, h1, h1']
            | some t2 =>
              cases mg with
              | none =>
                cases rg1 with
                | none => py_simp [List.forIn_cons, List.forIn_nil, pstmtGet, optGet, repGet, repSet, Except.map, DecState.decodeSlot, h1, h1']
                | some t3 =>
                  py_simp [List.forIn_cons, List.forIn_nil, pstmtGet, optGet, repGet, repSet, Except.map, DecState.decodeSlot, h1, h1']
              | some w3 =>
                rcases hdec.cases w3 (⟨opts1, ad1, nm1, pf1, dt1, ⟨rs1, (some a1), (some t2), rg1⟩, gid1⟩ : DecState) with ⟨a3, s3, h3, h3'⟩ | ⟨e3, s3, h3, h3'⟩
                · obtain ⟨opts3, ad3, nm3, pf3, dt3, ⟨rs3, rp3, ro3, rg3⟩, gid3⟩ := s3
                  py_simp [List.forIn_cons, List.forIn_nil, pstmtGet, optGet, repGet, repSet, Except.map, DecState.decodeSlot, h1, h1', h3, h3']
                · py_simp [List.forIn_cons, List.forIn_nil, pstmtGet, optGet, repGet, repSet, Except.map, DecState.decodeSlot, h1, h1', h3, h3']
          | some w2 =>
            rcases hdec.cases w2 (⟨opts1, ad1, nm1, pf1, dt1, ⟨rs1, (some a1), ro1, rg1⟩, gid1⟩ : DecState) with ⟨a2, s2, h2, h2'⟩ | ⟨e2, s2, h2, h2'⟩
            · obtain ⟨opts2, ad2, nm2, pf2, dt2, ⟨rs2, rp2, ro2, rg2⟩, gid2⟩ := s2
              cases mg with
              | none =>
                cases rg2 with
                | none => py_simp [List.forIn_cons, List.forIn_nil, pstmtGet, optGet, repGet, repSet, Except.map, DecState.decodeSlot, h1, h1', h2, h2']
                | some t3 =>
                  py_simp [List.forIn_cons, List.forIn_nil, pstmtGet, optGet, repGet, repSet, Except.map, DecState.decodeSlot, h1, h1', h2, h2']
              | some w3 =>
                rcases hdec.cases w3 (⟨opts2, ad2, nm2, pf2, dt2, ⟨rs2, rp2, (some a2), rg2⟩, gid2⟩ : DecState) with ⟨a3, s3, h3, h3'⟩ | ⟨e3, s3, h3, h3'⟩
                · obtain ⟨opts3, ad3, nm3, pf3, dt3, ⟨rs3, rp3, ro3, rg3⟩, gid3⟩ := s3
                  py_simp [List.forIn_cons, List.forIn_nil, pstmtGet, optGet, repGet, repSet, Except.map, DecState.decodeSlot, h1, h1', h2, h2', h3, h3']
                · py_simp [List.forIn_cons, List.forIn_nil, pstmtGet, optGet, repGet, repSet, Except.map, DecState.decodeSlot, h1, h1', h2, h2', h3, h3']
            · py_simp [List.forIn_cons, List.forIn_nil, pstmtGet, optGet, repGet, repSet, Except.map, DecState.decodeSlot, h1, h1', h2, h2']
        · py_simp [List.forIn_cons, List.forIn_nil, pstmtGet, optGet, repGet, repSet, Except.map, DecState.decodeSlot, h1, h1']
  | some w0 =>
    rcases hdec.cases w0 (⟨opts, ad, nm, pf, dt, ⟨rs, rp, ro, rg⟩, gid⟩ : DecState) with ⟨a0, s0, h0, h0'⟩ | ⟨e0, s0, h0, h0'⟩
    · obtain ⟨opts0, ad0, nm0, pf0, dt0, ⟨rs0, rp0, ro0, rg0⟩, gid0⟩ := s0
      cases mp with
      | none =>
        cases rp0 with
        | none => py_simp [List.forIn_cons, List.forIn_nil, pstmtGet, optGet, repGet, repSet, Except.map, DecState.decodeSlot, h0, h0']
        | some t1 =>
          cases mo with
          | none =>
            cases ro0 with
            | none => py_simp [List.forIn_cons, List.forIn_nil, pstmtGet, optGet, repGet, repSet, Except.map, DecState.decodeSlot, h0, h0']
            | some t2 =>
              cases mg with
              | none =>
                cases rg0 with
                | none => py_simp [List.forIn_cons, List.forIn_nil, pstmtGet, optGet, repGet, repSet, Except.map, DecState.decodeSlot, h0, h0']
                | some t3 =>
                  py_simp [List.forIn_cons, List.forIn_nil, pstmtGet, optGet, repGet, repSet, Except.map, DecState.decodeSlot, h0, h0']
              | some w3 =>
                rcases hdec.cases w3 (⟨opts0, ad0, nm0, pf0, dt0, ⟨(some a0), (some t1), (some t2), rg0⟩, gid0⟩ : DecState) with ⟨a3, s3, h3, h3'⟩ | ⟨e3, s3, h3, h3'⟩
                · obtain ⟨opts3, ad3, nm3, pf3, dt3, ⟨rs3, rp3, ro3, rg3⟩, gid3⟩ := s3
                  py_simp [List.forIn_cons, List.forIn_nil, pstmtGet, optGet, repGet, repSet, Except.map, DecState.decodeSlot, h0, h0', h3, h3']
                · py_simp [List.forIn_cons, List.forIn_nil, pstmtGet, optGet, repGet, repSet, Except.map, DecState.decodeSlot, h0, h0', h3, h3']
          | some w2 =>
            rcases hdec.cases w2 (⟨opts0, ad0, nm0, pf0, dt0, ⟨(some a0), (some t1), ro0, rg0⟩, gid0⟩ : DecState) with ⟨a2, s2, h2, h2'⟩ | ⟨e2, s2, h2, h2'⟩
            · obtain ⟨opts2, ad2, nm2, pf2, dt2, ⟨rs2, rp2, ro2, rg2⟩, gid2⟩ := s2
              cases mg with
              | none =>
                cases rg2 with
                | none => py_simp [List.forIn_cons, List.forIn_nil, pstmtGet, optGet, repGet, repSet, Except.map, DecState.decodeSlot, h0, h0', h2, h2']
                | some t3 =>
                  py_simp [List.forIn_cons, List.forIn_nil, pstmtGet, optGet, repGet, repSet, Except.map, DecState.decodeSlot, h0, h0', h2, h2']
              | some w3 =>
                rcases hdec.cases w3 (⟨opts2, ad2, nm2, pf2, dt2, ⟨rs2, rp2, (some a2), rg2⟩, gid2⟩ : DecState) with ⟨a3, s3, h3, h3'⟩ | ⟨e3, s3, h3, h3'⟩
                · obtain ⟨opts3, ad3, nm3, pf3, dt3, ⟨rs3, rp3, ro3, rg3⟩, gid3⟩ := s3
                  py_simp [List.forIn_cons, List.forIn_nil, pstmtGet, optGet, repGet, repSet, Except.map, DecState.decodeSlot, h0, h0', h2, h2', h3, h3']
                · py_simp [List.forIn_cons, List.forIn_nil, pstmtGet, optGet, repGet, repSet, Except.map, DecState.decodeSlot, h0, h0', h2, h2', h3, h3']
            · py_simp [List.forIn_cons, List.forIn_nil, pstmtGet, optGet, repGet, repSet, Except.map, DecState.decodeSlot, h0, h0', h2, h2']
      | some w1 =>
        rcases hdec.cases w1 (⟨opts0, ad0, nm0, pf0, dt0, ⟨(some a0), rp0, ro0, rg0⟩, gid0⟩ : DecState) with ⟨a1, s1, h1, h1'⟩ | ⟨e1, s1, h1, h1'⟩
        · obtain ⟨opts1, ad1, nm1, pf1, dt1, ⟨rs1, rp1, ro1, rg1⟩, gid1⟩ := s1
          cases mo with
          | none =>
            cases ro1 with
            | none => py_simp [List.forIn_cons, List.forIn_nil, pstmtGet, optGet, repGet, repSet, Except.map, DecState.decodeSlot, h0, h0', h1, h1']
            | some t2 =>
              cases mg with
              | none =>
                cases rg1 with
                | none => py_simp [List.forIn_cons, List.forIn_nil, pstmtGet, optGet, repGet, repSet, Except.map, DecState.decodeSlot, h0, h0', h1, h1']
                | some t3 =>
                  py_simp [List.forIn_cons, List.forIn_nil, pstmtGet, optGet, repGet, repSet, Except.map, DecState.decodeSlot, h0, h0', h1, h1']
              | some w3 =>
                rcases hdec.cases w3 (⟨opts1, ad1, nm1, pf1, dt1, ⟨rs1, (some a1), (some t2), rg1⟩, gid1⟩ : DecState) with ⟨a3, s3, h3, h3'⟩ | ⟨e3, s3, h3, h3'⟩
                · obtain ⟨opts3, ad3, nm3, pf3, dt3, ⟨rs3, rp3, ro3, rg3⟩, gid3⟩ := s3
                  py_simp [List.forIn_cons, List.forIn_nil, pstmtGet, optGet, repGet, repSet, Except.map, DecState.decodeSlot, h0, h0', h1, h1', h3, h3']
                · py_simp [List.forIn_cons, List.forIn_nil, pstmtGet, optGet, repGet, repSet, Except.map, DecState.decodeSlot, h0, h0', h1, h1', h3, h3']
          | some w2 =>
            rcases hdec.cases w2 (⟨opts1, ad1, nm1, pf1, dt1, ⟨rs1, (some a1), ro1, rg1⟩, gid1⟩ : DecState) with ⟨a2, s2, h2, h2'⟩ | ⟨e2, s2, h2, h2'⟩
            · obtain ⟨opts2, ad2, nm2, pf2, dt2, ⟨rs2, rp2, ro2, rg2⟩, gid2⟩ := s2
              cases mg with
              | none =>
                cases rg2 with
                | none => py_simp [List.forIn_cons, List.forIn_nil, pstmtGet, optGet, repGet, repSet, Except.map, DecState.decodeSlot, h0, h0', h1, h1', h2, h2']
                | some t3 =>
                  py_simp [List.forIn_cons, List.forIn_nil, pstmtGet, optGet, repGet, repSet, Except.map, DecState.decodeSlot, h0, h0', h1, h1', h2, h2']
              | some w3 =>
                rcases hdec.cases w3 (⟨opts2, ad2, nm2, pf2, dt2, ⟨rs2, rp2, (some a2), rg2⟩, gid2⟩ : DecState) with ⟨a3, s3, h3, h3'⟩ | ⟨e3, s3, h3, h3'⟩
                · obtain ⟨opts3, ad3, nm3, pf3, dt3, ⟨rs3, rp3, ro3, rg3⟩, gid3⟩ := s3
                  py_simp [List.forIn_cons, List.forIn_nil, pstmtGet, optGet, repGet, repSet, Except.map, DecState.decodeSlot, h0, h0', h1, h1', h2, h2', h3, h3']
                · py_simp [List.forIn_cons, List.forIn_nil, pstmtGet, optGet, repGet, repSet, Except.map, DecState.decodeSlot, h0, h0', h1, h1', h2, h2', h3, h3']
            · py_simp [List.forIn_cons, List.forIn_nil, pstmtGet, optGet, repGet, repSet, Except.map, DecState.decodeSlot, h0, h0', h1, h1', h2, h2']
        · py_simp [List.forIn_cons, List.forIn_nil, pstmtGet, optGet, repGet, repSet, Except.map, DecState.decodeSlot, h0, h0', h1, h1']
    · py_simp [List.forIn_cons, List.forIn_nil, pstmtGet, optGet, repGet, repSet, Except.map, DecState.decodeSlot, h0, h0']

/-- the hypothesis is satisfiable: the model's own `decodeTerm`, as a method -/
def modelDec (quoted : Bool) : WTerm → M DecState Term :=
  fun w => ExceptT.mk (fun d => match d.decodeTerm quoted w with
    | .ok (d', t) => (.ok t, d')
    | .error e => (.error e, d))

theorem modelDec_like (quoted : Bool) : DecLike quoted (modelDec quoted) := by
  intro w d
  simp only [modelDec, outcome, M.exec, ExceptT.run, ExceptT.mk, StateT.run]
  cases d.decodeTerm quoted w <;> rfl

end Jelly.Translated

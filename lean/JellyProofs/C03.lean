import JellyModel.SerGeneric
import JellyModel.Spec
import JellyModel.WF
import JellyProofs.Lemmas.StreamSim
/-!
# C03 — every emitted stream is valid Jelly for an independent decoder (row level)
# (C01, C18, C19 are corollaries / companions of the same simulation)

Property theorems only. Helper lemmas live in `JellyProofs/Lemmas/*.lean`.

`Spec.runRows` is the reference decoder written from the format rules; it shares no code with the
writer model. `allRows` is the row sequence a run hands out (frames concatenated; by
`C06_rows_independent_of_flow` it does not depend on the frame flow).
-/
namespace Jelly

def Run.allRows' (r : Run) : List Row := r.frames.flatMap (·.rows) ++ r.stream.flow.rows

/-- TRIPLES. For every TripleStream that can be constructed, and every sequence of well-formed
    triples each of which fits the lookup tables: serialization succeeds, and the rows written are
    accepted by the reference decoder and denote exactly the input sequence (same length, order and
    duplicates; xsd:string ≡ plain). -/
theorem C03_triples (o : SerOptions) (s : Stream) (stmts : List (List Term))
    (hs : Stream.new .triple o = .ok s) (hl : validLogical s.logicalType = true)
    (hwf : ∀ t ∈ stmts, tripleWF t = true) (hfit : ∀ t ∈ stmts, stmtFits o.preset t = true) :
    (streamFrames s (.gen stmts)).err = none ∧
    ∃ st, Spec.runRows (streamFrames s (.gen stmts)).allRows'
            = (st, stmts.map (fun t => Event.stmt (t.map Term.norm)), none) := by
  exact triples_sim o s stmts hs hl hwf hfit

/-- QUADS. -/
theorem C03_quads (o : SerOptions) (s : Stream) (stmts : List (List Term))
    (hs : Stream.new .quad o = .ok s) (hl : validLogical s.logicalType = true)
    (hwf : ∀ t ∈ stmts, quadWF t = true) (hfit : ∀ t ∈ stmts, stmtFits o.preset t = true) :
    (streamFrames s (.gen stmts)).err = none ∧
    ∃ st, Spec.runRows (streamFrames s (.gen stmts)).allRows'
            = (st, stmts.map (fun t => Event.stmt (t.map Term.norm)), none) := by
  exact quads_sim o s stmts hs hl hwf hfit

/-- GRAPHS (GraphStream fed with a quad sequence; runs of equal graph names become one bracketed
    graph). -/
theorem C03_graphs (o : SerOptions) (s : Stream) (stmts : List (List Term))
    (hs : Stream.new .graph o = .ok s) (hl : validLogical s.logicalType = true)
    (hwf : ∀ t ∈ stmts, quadWF t = true) (hfit : ∀ t ∈ stmts, stmtFits o.preset t = true) :
    (streamFrames s (.gen stmts)).err = none ∧
    ∃ st, Spec.runRows (streamFrames s (.gen stmts)).allRows'
            = (st, stmts.map (fun t => Event.stmt (t.map Term.norm)), none) := by
  exact graphs_sim o s stmts hs hl hwf hfit

end Jelly

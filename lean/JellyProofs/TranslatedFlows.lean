import JellyGenerated.FlowsGen
import JellyProofs.Translated
/-!
# The TRANSLATED frame-flow classes equal the model's `Flow`

`JellyGenerated/FlowsGen.lean` is produced from `pyjelly/serialize/flows.py` by `harness/gen_translate_flows.py` on every
run: for each concrete flow class, every method of the flow interface resolved along the class's MRO. The model folds the six
classes into one record `Flow` with a `kind`; each theorem states that on a flow of the corresponding kind the translated
method returns exactly what the model function returns and leaves exactly the attributes the model function leaves, without
raising. Constructors: a flow built by the translated `__init__` has the logical type, the frame size (bounded kinds) and the
empty row list of the model's `Flow.mk'`.
-/
set_option linter.unusedSimpArgs false
namespace Jelly.Translated
open Jelly Jelly.Py

/-- a translated flow method on `f` behaves like the model function `g` -/
def FlowAgrees (m : M Flow (Option Frame)) (g : Flow → Flow × Option Frame) (f : Flow) : Prop :=
  m.exec f = (.ok (g f).2, (g f).1)

macro "flow_simp" "[" ts:Lean.Parser.Tactic.simpLemma,* "]" : tactic =>
  `(tactic| (intro f hk; cases hr : f.rows <;>
      py_simp [$ts,*, FlowAgrees, hk, hr, Flow.toStreamFrame, Flow.frameFromBounds, Flow.frameFromGraph, Flow.frameFromDataset,
        FlowKind.isBounded]))

/-! ## ManualFrameFlow -/
theorem manual_to_stream_frame : ∀ f : Flow, f.kind = .manual → FlowAgrees Gen.ManualFrameFlow.to_stream_frame Flow.toStreamFrame f := by
  flow_simp [Gen.ManualFrameFlow.to_stream_frame]
theorem manual_frame_from_bounds : ∀ f : Flow, f.kind = .manual → FlowAgrees Gen.ManualFrameFlow.frame_from_bounds Flow.frameFromBounds f := by
  flow_simp [Gen.ManualFrameFlow.frame_from_bounds, Gen.ManualFrameFlow.to_stream_frame]
theorem manual_frame_from_graph : ∀ f : Flow, f.kind = .manual → FlowAgrees Gen.ManualFrameFlow.frame_from_graph Flow.frameFromGraph f := by
  flow_simp [Gen.ManualFrameFlow.frame_from_graph, Gen.ManualFrameFlow.to_stream_frame]
theorem manual_frame_from_dataset : ∀ f : Flow, f.kind = .manual → FlowAgrees Gen.ManualFrameFlow.frame_from_dataset Flow.frameFromDataset f := by
  flow_simp [Gen.ManualFrameFlow.frame_from_dataset, Gen.ManualFrameFlow.to_stream_frame]
theorem manual_init (l : Nat) :
    ∃ f, construct (Gen.ManualFrameFlow.__init__ l) = .ok f ∧ f.logicalType = (Flow.mk' .manual l 0).logicalType ∧
      f.rows = (Flow.mk' .manual l 0).rows := by
  by_cases hl : l = 0 <;> py_simp [Gen.ManualFrameFlow.__init__, Flow.mk', FlowKind.classLogical, hl]

/-! ## BoundedFrameFlow -/
theorem bounded_to_stream_frame : ∀ f : Flow, f.kind = .bounded → FlowAgrees Gen.BoundedFrameFlow.to_stream_frame Flow.toStreamFrame f := by
  flow_simp [Gen.BoundedFrameFlow.to_stream_frame]
theorem bounded_frame_from_bounds : ∀ f : Flow, f.kind = .bounded → FlowAgrees Gen.BoundedFrameFlow.frame_from_bounds Flow.frameFromBounds f := by
  intro f hk
  cases hr : f.rows with
  | nil =>
    by_cases hz : f.frameSize = 0 <;>
      py_simp [Gen.BoundedFrameFlow.frame_from_bounds, Gen.BoundedFrameFlow.to_stream_frame, FlowAgrees, hk, hr, hz, Flow.toStreamFrame, Flow.frameFromBounds, FlowKind.isBounded]
  | cons r rs =>
    by_cases hz : f.frameSize ≤ rs.length + 1 <;>
      py_simp [Gen.BoundedFrameFlow.frame_from_bounds, Gen.BoundedFrameFlow.to_stream_frame, FlowAgrees, hk, hr, hz, Flow.toStreamFrame, Flow.frameFromBounds, FlowKind.isBounded]
theorem bounded_frame_from_graph : ∀ f : Flow, f.kind = .bounded → FlowAgrees Gen.BoundedFrameFlow.frame_from_graph Flow.frameFromGraph f := by
  flow_simp [Gen.BoundedFrameFlow.frame_from_graph, Gen.BoundedFrameFlow.to_stream_frame]
theorem bounded_frame_from_dataset : ∀ f : Flow, f.kind = .bounded → FlowAgrees Gen.BoundedFrameFlow.frame_from_dataset Flow.frameFromDataset f := by
  flow_simp [Gen.BoundedFrameFlow.frame_from_dataset, Gen.BoundedFrameFlow.to_stream_frame]
theorem bounded_init (l fs : Nat) :
    ∃ f, construct (Gen.BoundedFrameFlow.__init__ l fs) = .ok f ∧ f.logicalType = (Flow.mk' .bounded l fs).logicalType ∧
      f.frameSize = (Flow.mk' .bounded l fs).frameSize ∧ f.rows = (Flow.mk' .bounded l fs).rows := by
  by_cases hl : l = 0 <;> by_cases hf : fs = 0 <;>
    py_simp [Gen.BoundedFrameFlow.__init__, Gen.BoundedFrameFlow.__init____FrameFlow, Flow.mk', FlowKind.classLogical, DEFAULT_FRAME_SIZE, hl, hf]

/-! ## FlatTriplesFrameFlow -/
theorem flatTriples_to_stream_frame : ∀ f : Flow, f.kind = .flatTriples → FlowAgrees Gen.FlatTriplesFrameFlow.to_stream_frame Flow.toStreamFrame f := by
  flow_simp [Gen.FlatTriplesFrameFlow.to_stream_frame]
theorem flatTriples_frame_from_bounds : ∀ f : Flow, f.kind = .flatTriples → FlowAgrees Gen.FlatTriplesFrameFlow.frame_from_bounds Flow.frameFromBounds f := by
  intro f hk
  cases hr : f.rows with
  | nil =>
    by_cases hz : f.frameSize = 0 <;>
      py_simp [Gen.FlatTriplesFrameFlow.frame_from_bounds, Gen.FlatTriplesFrameFlow.to_stream_frame, FlowAgrees, hk, hr, hz, Flow.toStreamFrame, Flow.frameFromBounds, FlowKind.isBounded]
  | cons r rs =>
    by_cases hz : f.frameSize ≤ rs.length + 1 <;>
      py_simp [Gen.FlatTriplesFrameFlow.frame_from_bounds, Gen.FlatTriplesFrameFlow.to_stream_frame, FlowAgrees, hk, hr, hz, Flow.toStreamFrame, Flow.frameFromBounds, FlowKind.isBounded]
theorem flatTriples_frame_from_graph : ∀ f : Flow, f.kind = .flatTriples → FlowAgrees Gen.FlatTriplesFrameFlow.frame_from_graph Flow.frameFromGraph f := by
  flow_simp [Gen.FlatTriplesFrameFlow.frame_from_graph, Gen.FlatTriplesFrameFlow.to_stream_frame]
theorem flatTriples_frame_from_dataset : ∀ f : Flow, f.kind = .flatTriples → FlowAgrees Gen.FlatTriplesFrameFlow.frame_from_dataset Flow.frameFromDataset f := by
  flow_simp [Gen.FlatTriplesFrameFlow.frame_from_dataset, Gen.FlatTriplesFrameFlow.to_stream_frame]
theorem flatTriples_init (l fs : Nat) :
    ∃ f, construct (Gen.FlatTriplesFrameFlow.__init__ l fs) = .ok f ∧ f.logicalType = (Flow.mk' .flatTriples l fs).logicalType ∧
      f.frameSize = (Flow.mk' .flatTriples l fs).frameSize ∧ f.rows = (Flow.mk' .flatTriples l fs).rows := by
  by_cases hl : l = 0 <;> by_cases hf : fs = 0 <;>
    py_simp [Gen.FlatTriplesFrameFlow.__init__, Gen.FlatTriplesFrameFlow.__init____FrameFlow, Flow.mk', FlowKind.classLogical, DEFAULT_FRAME_SIZE, hl, hf]

/-! ## FlatQuadsFrameFlow -/
theorem flatQuads_to_stream_frame : ∀ f : Flow, f.kind = .flatQuads → FlowAgrees Gen.FlatQuadsFrameFlow.to_stream_frame Flow.toStreamFrame f := by
  flow_simp [Gen.FlatQuadsFrameFlow.to_stream_frame]
theorem flatQuads_frame_from_bounds : ∀ f : Flow, f.kind = .flatQuads → FlowAgrees Gen.FlatQuadsFrameFlow.frame_from_bounds Flow.frameFromBounds f := by
  intro f hk
  cases hr : f.rows with
  | nil =>
    by_cases hz : f.frameSize = 0 <;>
      py_simp [Gen.FlatQuadsFrameFlow.frame_from_bounds, Gen.FlatQuadsFrameFlow.to_stream_frame, FlowAgrees, hk, hr, hz, Flow.toStreamFrame, Flow.frameFromBounds, FlowKind.isBounded]
  | cons r rs =>
    by_cases hz : f.frameSize ≤ rs.length + 1 <;>
      py_simp [Gen.FlatQuadsFrameFlow.frame_from_bounds, Gen.FlatQuadsFrameFlow.to_stream_frame, FlowAgrees, hk, hr, hz, Flow.toStreamFrame, Flow.frameFromBounds, FlowKind.isBounded]
theorem flatQuads_frame_from_graph : ∀ f : Flow, f.kind = .flatQuads → FlowAgrees Gen.FlatQuadsFrameFlow.frame_from_graph Flow.frameFromGraph f := by
  flow_simp [Gen.FlatQuadsFrameFlow.frame_from_graph, Gen.FlatQuadsFrameFlow.to_stream_frame]
theorem flatQuads_frame_from_dataset : ∀ f : Flow, f.kind = .flatQuads → FlowAgrees Gen.FlatQuadsFrameFlow.frame_from_dataset Flow.frameFromDataset f := by
  flow_simp [Gen.FlatQuadsFrameFlow.frame_from_dataset, Gen.FlatQuadsFrameFlow.to_stream_frame]
theorem flatQuads_init (l fs : Nat) :
    ∃ f, construct (Gen.FlatQuadsFrameFlow.__init__ l fs) = .ok f ∧ f.logicalType = (Flow.mk' .flatQuads l fs).logicalType ∧
      f.frameSize = (Flow.mk' .flatQuads l fs).frameSize ∧ f.rows = (Flow.mk' .flatQuads l fs).rows := by
  by_cases hl : l = 0 <;> by_cases hf : fs = 0 <;>
    py_simp [Gen.FlatQuadsFrameFlow.__init__, Gen.FlatQuadsFrameFlow.__init____FrameFlow, Flow.mk', FlowKind.classLogical, DEFAULT_FRAME_SIZE, hl, hf]

/-! ## GraphsFrameFlow -/
theorem graphs_to_stream_frame : ∀ f : Flow, f.kind = .graphs → FlowAgrees Gen.GraphsFrameFlow.to_stream_frame Flow.toStreamFrame f := by
  flow_simp [Gen.GraphsFrameFlow.to_stream_frame]
theorem graphs_frame_from_bounds : ∀ f : Flow, f.kind = .graphs → FlowAgrees Gen.GraphsFrameFlow.frame_from_bounds Flow.frameFromBounds f := by
  flow_simp [Gen.GraphsFrameFlow.frame_from_bounds, Gen.GraphsFrameFlow.to_stream_frame]
theorem graphs_frame_from_graph : ∀ f : Flow, f.kind = .graphs → FlowAgrees Gen.GraphsFrameFlow.frame_from_graph Flow.frameFromGraph f := by
  flow_simp [Gen.GraphsFrameFlow.frame_from_graph, Gen.GraphsFrameFlow.to_stream_frame]
theorem graphs_frame_from_dataset : ∀ f : Flow, f.kind = .graphs → FlowAgrees Gen.GraphsFrameFlow.frame_from_dataset Flow.frameFromDataset f := by
  flow_simp [Gen.GraphsFrameFlow.frame_from_dataset, Gen.GraphsFrameFlow.to_stream_frame]
theorem graphs_init (l : Nat) :
    ∃ f, construct (Gen.GraphsFrameFlow.__init__ l) = .ok f ∧ f.logicalType = (Flow.mk' .graphs l 0).logicalType ∧
      f.rows = (Flow.mk' .graphs l 0).rows := by
  by_cases hl : l = 0 <;> py_simp [Gen.GraphsFrameFlow.__init__, Flow.mk', FlowKind.classLogical, hl]

/-! ## DatasetsFrameFlow -/
theorem datasets_to_stream_frame : ∀ f : Flow, f.kind = .datasets → FlowAgrees Gen.DatasetsFrameFlow.to_stream_frame Flow.toStreamFrame f := by
  flow_simp [Gen.DatasetsFrameFlow.to_stream_frame]
theorem datasets_frame_from_bounds : ∀ f : Flow, f.kind = .datasets → FlowAgrees Gen.DatasetsFrameFlow.frame_from_bounds Flow.frameFromBounds f := by
  flow_simp [Gen.DatasetsFrameFlow.frame_from_bounds, Gen.DatasetsFrameFlow.to_stream_frame]
theorem datasets_frame_from_graph : ∀ f : Flow, f.kind = .datasets → FlowAgrees Gen.DatasetsFrameFlow.frame_from_graph Flow.frameFromGraph f := by
  flow_simp [Gen.DatasetsFrameFlow.frame_from_graph, Gen.DatasetsFrameFlow.to_stream_frame]
theorem datasets_frame_from_dataset : ∀ f : Flow, f.kind = .datasets → FlowAgrees Gen.DatasetsFrameFlow.frame_from_dataset Flow.frameFromDataset f := by
  flow_simp [Gen.DatasetsFrameFlow.frame_from_dataset, Gen.DatasetsFrameFlow.to_stream_frame]
theorem datasets_init (l : Nat) :
    ∃ f, construct (Gen.DatasetsFrameFlow.__init__ l) = .ok f ∧ f.logicalType = (Flow.mk' .datasets l 0).logicalType ∧
      f.rows = (Flow.mk' .datasets l 0).rows := by
  by_cases hl : l = 0 <;> py_simp [Gen.DatasetsFrameFlow.__init__, Flow.mk', FlowKind.classLogical, hl]

/-- the constants the translated classes use are the model's -/
theorem default_frame_size : Gen.DEFAULT_FRAME_SIZE = DEFAULT_FRAME_SIZE := rfl
theorem class_logical_types :
    [Gen.ManualFrameFlow.class_logical_type, Gen.BoundedFrameFlow.class_logical_type, Gen.FlatTriplesFrameFlow.class_logical_type,
     Gen.FlatQuadsFrameFlow.class_logical_type, Gen.GraphsFrameFlow.class_logical_type, Gen.DatasetsFrameFlow.class_logical_type]
      = [FlowKind.manual, .bounded, .flatTriples, .flatQuads, .graphs, .datasets].map FlowKind.classLogical := rfl

/-- Non-vacuity: a translated bounded flow holding `frame_size` rows cuts a frame and is left empty. -/
example : (Gen.FlatTriplesFrameFlow.frame_from_bounds.exec
      { kind := .flatTriples, logicalType := 1, frameSize := 2, rows := [Row.graphEnd, Row.graphEnd] }).2.rows = [] := by
  decide

end Jelly.Translated

import JellyProofs.C18Full
import JellyProofs.Lemmas.CatchSim
/-!
# C20 on the repaired code — a rejected statement never poisons the stream

Property theorems only; helper lemmas live in `JellyProofs/Lemmas/*.lean`.

A caller drives a stream statement by statement and carries on after every exception
(`catchLoop`). Whatever the statements are — unsupported terms, short tuples, typed literals with a
disabled datatype table, statements too big for the tables — what the stream has written is valid
for the reference decoder and denotes exactly the statements whose call returned normally, in order
(provided those are well-formed statements, which is what the writer accepts). Both alternatives the
property allows are covered by the one statement: a rejection that had not used the lookup tables
leaves no trace, and one that had makes the stream refuse everything after it.
-/
namespace Jelly

/-- Catch-and-continue: frames handed out, and the statements whose call returned normally. -/
def catchLoop (step : Stream → List Term → Res Stream (Option Frame)) :
    Stream → List (List Term) → List Frame → List (List Term) → Stream × List Frame × List (List Term)
  | s, [], fr, acc => (s, fr, acc)
  | s, t :: ts, fr, acc =>
    match step s t with
    | (s', .error _) => catchLoop step s' ts fr acc
    | (s', .ok f) => catchLoop step s' ts (fr ++ f.toList) (acc ++ [t])

/-- All rows written by the loop: the frames handed out and what is still in the flow. -/
def catchRows (step : Stream → List Term → Res Stream (Option Frame)) (s : Stream) (stmts : List (List Term)) :
    List Row × List (List Term) :=
  let r := catchLoop step s.enroll stmts [] []
  (r.2.1.flatMap (·.rows) ++ r.1.flow.rows, r.2.2)

/-- The accumulator of accepted statements only grows. -/
theorem catchLoop_acc_sub (step : Stream → List Term → Res Stream (Option Frame)) :
    ∀ (stmts : List (List Term)) (s : Stream) (fr : List Frame) (acc : List (List Term)),
      ∀ t ∈ acc, t ∈ (catchLoop step s stmts fr acc).2.2 := by
  intro stmts
  induction stmts with
  | nil => intro s fr acc t ht; exact ht
  | cons x xs ih =>
    intro s fr acc t ht
    unfold catchLoop
    rcases step s x with ⟨s', e | f⟩
    · exact ih s' fr acc t ht
    · exact ih s' _ _ t (List.mem_append_left _ ht)

/-- The loop invariant of a catch-and-continue run: the rows written so far (after the prefix `pre`)
    are accepted by the reference decoder from `ss0` and denote the accepted statements, and the
    writer is in step with the decoder or broken (`CatchInv`). -/
theorem catchLoop_sim {P : Preset} {o : Options} {wf : List Term → Bool}
    {step : Stream → List Term → Res Stream (Option Frame)} (hstep : CatchStepOK P o wf step)
    (pre : List Row) (ss0 : Spec.State) :
    ∀ (stmts : List (List Term)) (s : Stream) (fr : List Frame) (acc : List (List Term))
      (ss : Spec.State) (rows : List Row),
      rowsOf fr s = pre ++ rows →
      RunsTo ss0 rows ss (acc.map (fun t => Event.stmt (t.map Term.norm))) →
      CatchInv P o s ss →
      (∀ t ∈ (catchLoop step s stmts fr acc).2.2, wf t = true) →
      ∃ ss' rows', rowsOf (catchLoop step s stmts fr acc).2.1 (catchLoop step s stmts fr acc).1 = pre ++ rows' ∧
        RunsTo ss0 rows' ss' ((catchLoop step s stmts fr acc).2.2.map (fun t => Event.stmt (t.map Term.norm))) := by
  intro stmts
  induction stmts with
  | nil =>
    intro s fr acc ss rows hrows hrun _ _
    exact ⟨ss, rows, hrows, hrun⟩
  | cons t ts ih =>
    intro s fr acc ss rows hrows hrun hJ hacc
    rcases hstep s ss t hJ with ⟨s', e, hs, hflow, hJ'⟩ | ⟨s', f, hs, hok⟩
    · have hloop : catchLoop step s (t :: ts) fr acc = catchLoop step s' ts fr acc := by
        simp only [catchLoop, hs]
      rw [hloop] at hacc ⊢
      refine ih s' fr acc ss rows ?_ hrun hJ' hacc
      rw [← hrows]
      simp only [rowsOf, hflow]
    · have hloop : catchLoop step s (t :: ts) fr acc = catchLoop step s' ts (fr ++ f.toList) (acc ++ [t]) := by
        simp only [catchLoop, hs]
      rw [hloop] at hacc ⊢
      have hwf : wf t = true :=
        hacc t (catchLoop_acc_sub step ts s' _ _ t (List.mem_append_right _ (List.mem_singleton.mpr rfl)))
      obtain ⟨ss1, rows1, hr1, hrun1, hJ1⟩ := hok hwf
      refine ih s' (fr ++ f.toList) (acc ++ [t]) ss1 (rows ++ rows1) ?_ ?_ hJ1 hacc
      · rw [rowsOf_push' hr1, hrows, List.append_assoc]
      · rw [List.map_append]
        exact hrun.trans hrun1

/-- A broken stream stays as it is whatever the caller feeds it. -/
theorem catchLoop_broken (exc : PyErr) :
    ∀ (rest : List (List Term)) (s : Stream) (fr : List Frame) (acc : List (List Term)),
      s.enc.te.broken = true → catchLoop (Stream.triple exc) s rest fr acc = (s, fr, acc) := by
  intro rest
  induction rest with
  | nil => intro s fr acc _; rfl
  | cons t ts ih =>
    intro s fr acc hb
    have hs := (broken_refuses exc s t hb).1
    simp only [catchLoop, hs]
    exact ih s fr acc hb

theorem C20_triples (o : SerOptions) (s : Stream) (stmts : List (List Term))
    (hs : Stream.new .triple o = .ok s) (hl : validLogical s.logicalType = true)
    (hacc : ∀ t ∈ (catchRows (Stream.triple .stopIteration) s stmts).2, tripleWF t = true) :
    ∃ st, Spec.runRows (catchRows (Stream.triple .stopIteration) s stmts).1
            = (st, (catchRows (Stream.triple .stopIteration) s stmts).2.map (fun t => Event.stmt (t.map Term.norm)), none) := by
  obtain ⟨hv, hcls, _⟩ := Stream.new_spec hs
  obtain ⟨henc, hrows0⟩ := enroll_fresh hs
  obtain ⟨ss0, oo, hstep, inv0, ho0, hph, _⟩ := options_step hs hl
  obtain ⟨ss', rows', hr, hrun⟩ := catchLoop_sim
    (catchStep_triple hv (o := oo) (by simpa [StreamClass.physical] using hph) .stopIteration)
    [s.optionsRow] ss0 stmts s.enroll [] [] ss0 [] (by simpa [allRowsOf] using hrows0) (RunsTo.nil ss0)
    (Or.inl ⟨by rw [henc]; exact inv0, ho0⟩) hacc
  refine ⟨ss', ?_⟩
  show Spec.runRows (rowsOf _ _) = _
  rw [hr]
  exact runRows_options hstep hrun

theorem C20_quads (o : SerOptions) (s : Stream) (stmts : List (List Term))
    (hs : Stream.new .quad o = .ok s) (hl : validLogical s.logicalType = true)
    (hacc : ∀ t ∈ (catchRows (Stream.quad .stopIteration) s stmts).2, quadWF t = true) :
    ∃ st, Spec.runRows (catchRows (Stream.quad .stopIteration) s stmts).1
            = (st, (catchRows (Stream.quad .stopIteration) s stmts).2.map (fun t => Event.stmt (t.map Term.norm)), none) := by
  obtain ⟨hv, hcls, _⟩ := Stream.new_spec hs
  obtain ⟨henc, hrows0⟩ := enroll_fresh hs
  obtain ⟨ss0, oo, hstep, inv0, ho0, hph, _⟩ := options_step hs hl
  obtain ⟨ss', rows', hr, hrun⟩ := catchLoop_sim
    (catchStep_quad hv (o := oo) (by simpa [StreamClass.physical] using hph) .stopIteration)
    [s.optionsRow] ss0 stmts s.enroll [] [] ss0 [] (by simpa [allRowsOf] using hrows0) (RunsTo.nil ss0)
    (Or.inl ⟨by rw [henc]; exact inv0, ho0⟩) hacc
  refine ⟨ss', ?_⟩
  show Spec.runRows (rowsOf _ _) = _
  rw [hr]
  exact runRows_options hstep hrun

/-- Once a statement has been rejected after it had used the lookup tables, nothing more is accepted. -/
theorem C20_refuses_after_dirty_rejection (s s' : Stream) (t : List Term) (e : PyErr) (rest : List (List Term))
    (h : s.triple .stopIteration t = (s', .error e)) (hb : s'.enc.te.broken = true)
    (fr : List Frame) (acc : List (List Term)) :
    catchLoop (Stream.triple .stopIteration) s' rest fr acc = (s', fr, acc) := by
  have _ := h
  exact catchLoop_broken .stopIteration rest s' fr acc hb

end Jelly

import JellyModel.Plugin
import JellyProofs.C08
import JellyProofs.C15
import JellyProofs.C01Bytes
import JellyProofs.C02Full
import JellyProofs.Lemmas.PluginSim
/-!
# File-level entry points (`JellyModel/Plugin.lean`): the rdflib plugin, `flat_stream_to_file`

Property theorems only. Helper lemmas live in `JellyProofs/Lemmas/PluginSim.lean`.

* C08 for the plugin: whatever is passed as `options=` / `stream=`, a successful run writes bytes that
  the detector classifies as the framing the STREAM was configured with.
* C02 / C01 for the plugin with everything guessed: a Graph (resp. Dataset) written by
  `Graph.serialize(format="jelly")` parses back, through the rdflib adapter, to its statements in
  iteration order.
* `flat_stream_to_file` always writes a delimited stream, and it parses back.
-/
namespace Jelly

/-- RDF 1.1 terms as rdflib can hold them: no quoted triples. -/
def Term.isQuoted : Term → Bool
  | .quoted _ _ _ => true
  | _ => false

/-- A stream as `Stream.new` / `for_rdflib` hands it out: not enrolled, nothing in the flow. -/
def Stream.fresh (s : Stream) : Prop := s.enrolled = false ∧ s.flow.rows = []

theorem Stream.new_fresh {cls : StreamClass} {o : SerOptions} {s : Stream} (h : Stream.new cls o = .ok s) :
    s.fresh := by
  obtain ⟨_, _, _, _, hr, he, _⟩ := Stream.new_spec h
  exact ⟨he, hr⟩

/-- The framing follows the stream's own options, not the `options=` argument. -/
theorem plugin_framing_follows_stream (st : RStore) (opts : Option SerOptions) (s : Stream) :
    (pluginSerialize st opts (some s)).1 = (streamFramesR s st).bytes s.opts.params.delimited := rfl

/-- C08 for the plugin. `s` is the stream the plugin ends up using (given, or guessed). If the run
    succeeds and wrote at least three bytes, the detector answers the stream's `delimited` flag. -/
theorem C08_plugin_detected (st : RStore) (opts : Option SerOptions) (stream : Option Stream) (s : Stream)
    (hs : (match stream with
            | some s' => Except.ok s'
            | none => guessStreamR (opts.getD (guessOptionsR st.isDataset)) st.isDataset) = Except.ok s)
    (hfresh : s.fresh)
    (hok : (pluginSerialize st opts stream).2 = none)
    (h3 : 3 ≤ (pluginSerialize st opts stream).1.length) :
    delimitedHint ((pluginSerialize st opts stream).1.take 3) = s.opts.params.delimited := by
  have hP : pluginSerialize st opts stream
      = ((streamFramesR s st).bytes s.opts.params.delimited, (streamFramesR s st).err) := by
    cases stream with
    | some s' =>
      cases hs
      rfl
    | none =>
      dsimp only at hs
      simp only [pluginSerialize, hs]
  rw [hP] at h3 ⊢
  obtain ⟨hne, hhead⟩ := plg_streamFramesR_frames s st hfresh.1 hfresh.2
  refine plg_hint_bytes _ _ hne (fun f₀ tail h => ?_) h3
  obtain ⟨rs, hrs⟩ := hhead f₀ tail h
  exact ⟨wireOptions s, rs, hrs⟩


private theorem norm_plgFlat {x : Term} (h : x.isQuoted = false) : x.norm.plgFlat := by
  cases x <;> first | trivial | cases h

private theorem events_plgFlat (stmts : List (List Term))
    (hrdf : ∀ t ∈ stmts, ∀ x ∈ t, x.isQuoted = false) :
    ∀ e ∈ stmts.map (fun t => Event.stmt (t.map Term.norm)), e.plgFlat := by
  intro e he
  obtain ⟨t, ht, rfl⟩ := List.mem_map.1 he
  intro x hx
  obtain ⟨y, hy, rfl⟩ := List.mem_map.1 hx
  exact norm_plgFlat (hrdf t ht y hy)

private theorem presetReadable_guess (b : Bool) : presetReadable (guessOptionsR b).preset = true := by
  cases b <;> decide

/-- C02 for `Graph.serialize(format="jelly")` with everything guessed: TripleStream, flat triples,
    delimited, no declarations. The bytes parse back through the rdflib adapter (`quoted = false`) to
    the graph's triples in iteration order. -/
theorem C02_plugin_graph (ns : List (String × String)) (gid : Term) (triples : List (List Term))
    (hwf : ∀ t ∈ triples, tripleWF t = true)
    (hfit : ∀ t ∈ triples, stmtFits (guessOptionsR false).preset t = true)
    (hd : ∀ t ∈ triples, stmtShallow t = true)
    (hrdf : ∀ t ∈ triples, ∀ x ∈ t, x.isQuoted = false)
    (s : Stream) (hs : guessStreamR (guessOptionsR false) false = .ok s)
    (hsmall : framesSmall (streamFrames s (.gen triples))) :
    let st : RStore := { isDataset := false, ns := ns, graphs := [(gid, triples)], quads := [] }
    (pluginSerialize st none none).2 = none ∧
    parseFlat .seekable (pluginSerialize st none none).1 false false
      = { events := triples.map (fun t => Event.stmt (t.map Term.norm)), err := none } := by
  intro st
  obtain ⟨hs', hcls, hopts, hl⟩ := plg_guess_triple hs
  have hp := presetReadable_guess false
  have hR : streamFramesR s st = streamFrames s (.gen triples) := by
    unfold streamFramesR streamFrames
    rw [hcls]
    show triplesStreamFramesR s true ns [triples] = _
    rw [← C15_serializers_agree_triples]
    unfold triplesStreamFramesR
    rw [plg_prologueR_off s true ns (by rw [hopts]; rfl), prologueR_plain]
  have hP : pluginSerialize st none none
      = (runBytes true (streamFrames s (.gen triples)), (streamFrames s (.gen triples)).err) := by
    have hD : st.isDataset = false := rfl
    have hdl : s.opts.params.delimited = true := by rw [hopts]; rfl
    simp only [pluginSerialize, Option.getD_none, hD, hs, hR, hdl]
    rfl
  rw [hP]
  have herr := (C01_triples_frames _ s triples hs' hl hp hwf hfit true).1
  have hbytes := C01_triples_bytes_delimited _ s triples hs' hl hp hwf hfit hd hsmall
  obtain ⟨opened, hgo, hoo⟩ := C13_header_fidelity_bytes .triple _ s triples true hs' hl hp hd herr hsmall
  exact ⟨herr, plg_parseFlat_unquoted .seekable _ false opened _ hgo (by rw [hoo]; simp [StreamClass.physical]) hbytes
    (events_plgFlat triples hrdf)⟩

/-- C02 for `Dataset.serialize(format="jelly")` with everything guessed: QuadStream, flat quads. -/
theorem C02_plugin_dataset (ns : List (String × String)) (graphs : List (Term × List (List Term)))
    (quads : List (List Term))
    (hwf : ∀ t ∈ quads, quadWF t = true)
    (hfit : ∀ t ∈ quads, stmtFits (guessOptionsR true).preset t = true)
    (hd : ∀ t ∈ quads, stmtShallow t = true)
    (hrdf : ∀ t ∈ quads, ∀ x ∈ t, x.isQuoted = false)
    (s : Stream) (hs : guessStreamR (guessOptionsR true) true = .ok s)
    (hsmall : framesSmall (streamFrames s (.gen quads))) :
    let st : RStore := { isDataset := true, ns := ns, graphs := graphs, quads := quads }
    (pluginSerialize st none none).2 = none ∧
    parseFlat .seekable (pluginSerialize st none none).1 false false
      = { events := quads.map (fun t => Event.stmt (t.map Term.norm)), err := none } := by
  intro st
  obtain ⟨hs', hcls, hopts, hl⟩ := plg_guess_quad hs
  have hp := presetReadable_guess true
  have hR : streamFramesR s st = streamFrames s (.gen quads) := by
    unfold streamFramesR streamFrames
    rw [hcls]
    show quadsStreamFramesR s true ns quads = _
    rw [← C15_serializers_agree_quads]
    unfold quadsStreamFramesR
    rw [plg_prologueR_off s true ns (by rw [hopts]; rfl), prologueR_plain]
  have hP : pluginSerialize st none none
      = (runBytes true (streamFrames s (.gen quads)), (streamFrames s (.gen quads)).err) := by
    have hD : st.isDataset = true := rfl
    have hdl : s.opts.params.delimited = true := by rw [hopts]; rfl
    simp only [pluginSerialize, Option.getD_none, hD, hs, hR, hdl]
    rfl
  rw [hP]
  have herr := (C01_quads_frames _ s quads hs' hl hp hwf hfit true).1
  have hbytes := C01_quads_bytes _ s quads true hs' hl hp hwf hfit hd hsmall
  obtain ⟨opened, hgo, hoo⟩ := C13_header_fidelity_bytes .quad _ s quads true hs' hl hp hd herr hsmall
  exact ⟨herr, plg_parseFlat_unquoted .seekable _ false opened _ hgo (by rw [hoo]; simp [StreamClass.physical]) hbytes
    (events_plgFlat quads hrdf)⟩

/-- rdflib `flat_stream_to_file` on a non-empty triple generator with guessed options writes a stream
    that is detected as delimited and parses back to the input. -/
theorem C01_rflat_triples (first : List Term) (rest : List (List Term)) (h3 : first.length = 3)
    (hwf : ∀ t ∈ first :: rest, tripleWF t = true)
    (hfit : ∀ t ∈ first :: rest, stmtFits (guessOptionsR false).preset t = true)
    (hd : ∀ t ∈ first :: rest, stmtShallow t = true)
    (s : Stream) (hs : guessStreamR (guessOptionsR false) false = .ok s)
    (hsmall : framesSmall (streamFrames s (.gen (first :: rest)))) :
    (flatStreamToFileR (first :: rest) none).2 = none ∧
    parseFlat .seekable (flatStreamToFileR (first :: rest) none).1 false true
      = { events := (first :: rest).map (fun t => Event.stmt (t.map Term.norm)), err := none } := by
  obtain ⟨hs', hcls, hopts, hl⟩ := plg_guess_triple hs
  have hp := presetReadable_guess false
  have hP : flatStreamToFileR (first :: rest) none
      = (runBytes true (streamFrames s (.gen (first :: rest))), (streamFrames s (.gen (first :: rest))).err) := by
    have hD : (first.length == 4) = false := by rw [h3]; rfl
    have hR : triplesStreamFramesR s false [] [first :: rest] = streamFrames s (.gen (first :: rest)) := by
      rw [C15_serializers_agree_triples]
      unfold streamFrames
      rw [hcls]
    simp only [flatStreamToFileR, flatStreamToFramesR, Option.getD_none, hD, hs, hcls, hR]
    rfl
  rw [hP]
  exact ⟨(C01_triples_frames _ s _ hs' hl hp hwf hfit true).1,
    C01_triples_bytes_delimited _ s _ hs' hl hp hwf hfit hd hsmall⟩

end Jelly

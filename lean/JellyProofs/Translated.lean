import JellyGenerated.LookupGen
import JellyModel.Joint
import JellyProofs.Lemmas.LookupMirror
import JellyProofs.C05
/-!
# The TRANSLATED lookup code equals the hand-written model

`JellyGenerated/LookupGen.lean` is produced from `pyjelly/serialize/lookup.py` and `pyjelly/parse/lookup.py`
by `harness/gen_translate.py` on every run (Python `ast` → Lean, statement by statement, in the monad of
`JellyModel/PyPrelude.lean`). Each theorem below states that a generated method, run on the model's own record
of the object's attributes, has exactly the outcome — result or exception class — and the final attributes of
the model function that the property theorems (C05, C03, C18, C19, C20 …) are proved about. So for this part
of the code the tie between model and source is a kernel-checked equality that is re-established from the
source text on every run, not a sampled comparison; `C05_translated` at the end restates property C05 directly
for the translated code.

Side conditions, all discharged where the functions are used:
* `insert`/`encode_entry_index`: an evicting table is not empty (true of every table built by the constructor:
  `Lookup.WFm`) — on an empty evicting table Python's `next(iter({}))` raises `StopIteration` where the model
  says `KeyError`; and `insert` is only called with an absent key (its `assert`).
* `at` with index 0 would be Python's `data[-1]`: outside the translated fragment (`natSub`), never reached by
  the three `decode_*_term_index` callers, which are proved equal to the model unconditionally.
-/
set_option linter.unusedSimpArgs false
namespace Jelly.Translated
open Jelly Jelly.Py
def outcome (r : Except PyErr α × σ) : Except PyErr (σ × α) :=
  match r with
  | (.ok a, s) => .ok (s, a)
  | (.error e, _) => .error e

macro "py_simp" "[" ts:Lean.Parser.Tactic.simpLemma,* "]" : tactic =>
  `(tactic| simp [$ts,*, outcome, M.exec, liftE, zoom, construct, pyAssert, pyOr, truthy, ExceptT.run, StateT.run, bind, ExceptT.bind, ExceptT.bindCont,
    ExceptT.mk, StateT.bind, get, getThe, MonadStateOf.get, StateT.get, ExceptT.lift, liftM, monadLift,
    MonadLift.monadLift, modify, modifyGet, MonadStateOf.modifyGet, StateT.modifyGet, pure, ExceptT.pure, StateT.pure,
    throw, throwThe, MonadExceptOf.throw, StateT.lift, StateT.map, Functor.map, ExceptT.map, tryCatch, tryCatchThe,
    MonadExceptOf.tryCatch, ExceptT.tryCatch, EarlyReturnT.return, EarlyReturn.runK])

theorem make_last_to_evict_exec (l : Lookup) (k : String) :
    (Gen.Lookup.make_last_to_evict k).exec l
      = match l.moveToEnd k with
        | some l' => (.ok (), l')
        | none => (.error .keyError, l) := by
  unfold Gen.Lookup.make_last_to_evict Lookup.moveToEnd Lookup.find?
  obtain ⟨ms, data, ev, pinned⟩ := l
  cases hf : List.find? (fun x => x.fst == k) data <;> cases pinned <;>
    py_simp [hf, odMoveToEnd, Lookup.pin, setAdd]

theorem make_last_to_evict_app (l : Lookup) (k : String) :
    Gen.Lookup.make_last_to_evict k l
      = match l.moveToEnd k with
        | some l' => (.ok (), l')
        | none => (.error .keyError, l) := make_last_to_evict_exec l k

/-- `insert`, with the attributes after an exception: a refused insertion leaves the table untouched -/
theorem insert_exec (l : Lookup) (k : String) (habs : l.find? k = none) (hne : l.evicting = true → l.data ≠ []) :
    (Gen.Lookup.insert k).exec l
      = match l.insert k with
        | .ok (l', i) => (.ok i, l')
        | .error e => (.error e, l) := by
  unfold Gen.Lookup.insert Lookup.insert
  obtain ⟨ms, data, ev, pinned⟩ := l
  simp only [Lookup.find?] at habs
  have hc : odContains data k = false := by simp [odContains, habs]
  by_cases hms : ms = 0
  · subst hms; py_simp [outcome]
  · cases ev
    · cases pinned <;> py_simp [hms, hc, odSet, Lookup.pin, Lookup.isPinned, setAdd]
    · cases data with
      | nil => simp at hne
      | cons e rest =>
        have hc' : odContains rest k = false := by
          simp only [List.find?_cons] at habs
          split at habs
          · simp at habs
          · simp [odContains, habs]
        obtain ⟨k0, i0⟩ := e
        cases pinned with
        | none => py_simp [hms, hc, hc', odSet, odPopFirst, odFirstKey, setContains, Lookup.pin, Lookup.isPinned, setAdd]
        | some ps =>
          by_cases hp : k0 ∈ ps <;>
            py_simp [hms, hc, hc', hp, odSet, odPopFirst, odFirstKey, setContains, Lookup.pin, Lookup.isPinned, setAdd]

theorem insert_eq (l : Lookup) (k : String) (habs : l.find? k = none) (hne : l.evicting = true → l.data ≠ []) :
    outcome ((Gen.Lookup.insert k).exec l) = l.insert k := by
  rw [insert_exec l k habs hne]
  rcases l.insert k with _ | ⟨l', i⟩ <;> rfl

theorem entry_index_eq (e : LookupEnc) (k : String) (hne : e.lookup.evicting = true → e.lookup.data ≠ []) :
    outcome ((Gen.LookupEncoder.encode_entry_index k).exec e) = e.entryIndex k := by
  unfold Gen.LookupEncoder.encode_entry_index LookupEnc.entryIndex
  have h1 := make_last_to_evict_app e.lookup k
  cases hm : e.lookup.moveToEnd k with
  | some l' =>
    rw [hm] at h1
    py_simp [h1, hm]
  | none =>
    rw [hm] at h1
    have habs : e.lookup.find? k = none := by
      unfold Lookup.moveToEnd at hm; split at hm <;> simp_all
    have hi := insert_eq e.lookup k habs hne
    rcases hgi : Gen.Lookup.insert k e.lookup with ⟨r, s'⟩
    simp only [M.exec, ExceptT.run, StateT.run] at hi
    rw [hgi] at hi
    cases r with
    | ok a =>
      simp only [outcome] at hi
      by_cases hq : a = e.lastAssigned + 1 <;> py_simp [h1, hm, hgi, ← hi, hq]
    | error err =>
      simp only [outcome] at hi
      py_simp [h1, hm, hgi, ← hi]

/-- a method result together with the attributes afterwards, as the reader model reports it -/
def swap (r : Except PyErr α × σ) : σ × Except PyErr α := (r.2, r.1)

theorem swap_eq {r : Except PyErr α × σ} {a : σ} {b : Except PyErr α} (h : swap r = (a, b)) : r = (b, a) := by
  obtain ⟨x, y⟩ := r
  simp only [swap, Prod.mk.injEq] at h
  rw [h.1, h.2]

theorem term_index_app (e : LookupEnc) (v : String) :
    match e.termIndex v with
    | .ok (e', i) => Gen.LookupEncoder.encode_term_index v e = (.ok i, e')
    | .error err => ∃ s', Gen.LookupEncoder.encode_term_index v e = (.error err, s') := by
  unfold Gen.LookupEncoder.encode_term_index LookupEnc.termIndex
  have h1 := make_last_to_evict_app e.lookup v
  cases hm : e.lookup.moveToEnd v with
  | none => rw [hm] at h1; py_simp [h1, hm]; exact ⟨_, rfl⟩
  | some l' =>
    rw [hm] at h1
    cases hf : l'.find? v with
    | none =>
      have : List.find? (fun x => x.fst == v) l'.data = none := hf
      py_simp [h1, hm, hf, odGet, this]; exact ⟨_, rfl⟩
    | some p =>
      have : List.find? (fun x => x.fst == v) l'.data = some p := hf
      py_simp [h1, hm, hf, odGet, this]

theorem term_index_eq (e : LookupEnc) (v : String) :
    outcome ((Gen.LookupEncoder.encode_term_index v).exec e) = e.termIndex v := by
  have h := term_index_app e v
  cases ht : e.termIndex v with
  | ok p => obtain ⟨e', i⟩ := p; rw [ht] at h; simp only at h; py_simp [h]
  | error err => rw [ht] at h; obtain ⟨s', h⟩ := h; py_simp [h]

theorem name_term_index_eq (e : LookupEnc) (v : String) :
    outcome ((Gen.LookupEncoder.encode_name_term_index v).exec e) = e.nameTermIndex v := by
  unfold Gen.LookupEncoder.encode_name_term_index LookupEnc.nameTermIndex
  have h := term_index_app e v
  cases ht : e.termIndex v with
  | ok p =>
    obtain ⟨e', i⟩ := p; rw [ht] at h; simp only at h
    by_cases hq : i = e.lastReused + 1 <;> py_simp [h, hq]
  | error err => rw [ht] at h; obtain ⟨s', h⟩ := h; py_simp [h]

theorem datatype_term_index_eq (e : LookupEnc) (v : String) :
    outcome ((Gen.LookupEncoder.encode_datatype_term_index v).exec e) = e.datatypeTermIndex v := by
  unfold Gen.LookupEncoder.encode_datatype_term_index LookupEnc.datatypeTermIndex
  have h := term_index_app e v
  by_cases hz : e.lookup.maxSize = 0
  · py_simp [hz]
  · cases ht : e.termIndex v with
    | ok p => obtain ⟨e', i⟩ := p; rw [ht] at h; simp only at h; py_simp [h, hz]
    | error err => rw [ht] at h; obtain ⟨s', h⟩ := h; py_simp [h, hz]

theorem prefix_term_index_eq (e : LookupEnc) (v : String) :
    outcome ((Gen.LookupEncoder.encode_prefix_term_index v).exec e) = e.prefixTermIndex v := by
  unfold Gen.LookupEncoder.encode_prefix_term_index LookupEnc.prefixTermIndex
  have h := term_index_app e v
  by_cases hz : e.lookup.maxSize = 0
  · py_simp [hz]
  · by_cases hv : v = ""
    · by_cases hr : e.lastReused = 0
      · py_simp [hz, hv, hr]
      · subst hv
        cases ht : e.termIndex "" with
        | ok p =>
          obtain ⟨e', i⟩ := p; rw [ht] at h; simp only at h
          by_cases hq : i = e.lastReused <;> py_simp [h, hz, hr, hq]
        | error err => rw [ht] at h; obtain ⟨s', h⟩ := h; py_simp [h, hz, hr]
    · cases ht : e.termIndex v with
      | ok p =>
        obtain ⟨e', i⟩ := p; rw [ht] at h; simp only at h
        by_cases hr : e.lastReused = 0
        · py_simp [h, hz, hv, hr]
        · by_cases hq : i = e.lastReused <;> py_simp [h, hz, hv, hr, hq]
      | error err => rw [ht] at h; obtain ⟨s', h⟩ := h; py_simp [h, hz, hv]

theorem lookup_new (n : Nat) : construct (Gen.Lookup.__init__ n) = .ok (Lookup.new n) := by
  py_simp [Gen.Lookup.__init__, Lookup.new]

theorem lookup_enc_new (n : Nat) : construct (Gen.LookupEncoder.__init__ n) = .ok (LookupEnc.new n) := by
  have := lookup_new n
  unfold Gen.LookupEncoder.__init__
  simp only [this]
  py_simp [LookupEnc.new]

theorem lookup_dec_new (n : Nat) : construct (Gen.LookupDecoder.__init__ n) = LookupDec.new n := by
  unfold Gen.LookupDecoder.__init__ LookupDec.new
  by_cases h : n > 4096 <;> py_simp [h, MAX_LOOKUP_SIZE, dqNew]

theorem assign_entry_eq (d : LookupDec) (index : Nat) (v : String) :
    (match (Gen.LookupDecoder.assign_entry index v).exec d with
     | (.ok _, d') => .ok d'
     | (.error e, _) => .error e) = d.assignEntry index v := by
  unfold Gen.LookupDecoder.assign_entry LookupDec.assignEntry
  by_cases hz : index = 0
  · subst hz
    by_cases hl : d.lastAssigned < d.data.length <;> py_simp [natSub, dqSet, hl]
  · have h1 : 1 ≤ index := by omega
    have h0 : 0 < index := by omega
    by_cases hl : index - 1 < d.data.length <;> py_simp [natSub, dqSet, hl, hz, h1, h0]

theorem at_app (d : LookupDec) (index : Nat) (h : index ≠ 0) :
    swap (Gen.LookupDecoder.at index d) = d.at index := by
  unfold Gen.LookupDecoder.at LookupDec.at
  have h1 : 1 ≤ index := by omega
  cases hg : d.data[index - 1]? with
  | none => py_simp [swap, natSub, dqGet, optGet, h, h1, hg]
  | some o => cases o <;> py_simp [swap, natSub, dqGet, optGet, h, h1, hg]

theorem decode_prefix_eq (d : LookupDec) (index : Nat) :
    swap ((Gen.LookupDecoder.decode_prefix_term_index index).exec d) = d.prefixTerm index := by
  unfold Gen.LookupDecoder.decode_prefix_term_index LookupDec.prefixTerm
  by_cases hz : index = 0
  · by_cases hr : d.lastReused = 0
    · py_simp [swap, hz, hr]
    · have := at_app d d.lastReused hr
      simp only [swap] at this
      py_simp [swap, hz, hr, ← this]
  · have := at_app d index hz
    simp only [swap] at this
    py_simp [swap, hz, ← this]

theorem decode_name_eq (d : LookupDec) (index : Nat) :
    swap ((Gen.LookupDecoder.decode_name_term_index index).exec d) = d.nameTerm index := by
  unfold Gen.LookupDecoder.decode_name_term_index LookupDec.nameTerm
  by_cases hz : index = 0
  · have := at_app d (d.lastReused + 1) (by omega)
    simp only [swap] at this
    py_simp [swap, hz, ← this]
  · have := at_app d index hz
    simp only [swap] at this
    py_simp [swap, hz, ← this]

theorem decode_datatype_eq (d : LookupDec) (index : Nat) :
    swap ((Gen.LookupDecoder.decode_datatype_term_index index).exec d)
      = ((d.datatypeTerm index).1, (d.datatypeTerm index).2.map some) := by
  unfold Gen.LookupDecoder.decode_datatype_term_index LookupDec.datatypeTerm
  by_cases hz : index = 0
  · py_simp [swap, hz, Except.map]
  · have := at_app d index hz
    simp only [swap] at this
    py_simp [swap, hz, Except.map]
    rw [← this]
    generalize Gen.LookupDecoder.at index d = q
    obtain ⟨r, s⟩ := q
    cases r <;> py_simp [swap]


theorem make_last_to_evict_eq (l : Lookup) (k : String) :
    outcome ((Gen.Lookup.make_last_to_evict k).exec l)
      = match l.moveToEnd k with
        | some l' => .ok (l', ())
        | none => .error .keyError := by
  rw [make_last_to_evict_exec]; cases l.moveToEnd k <;> rfl

theorem at_eq (d : LookupDec) (index : Nat) (h : index ≠ 0) :
    swap ((Gen.LookupDecoder.at index).exec d) = d.at index := at_app d index h

/-! ## The same with the attributes AFTER an exception (needed where a caller goes on holding the object) -/

/-- what a writer-side method does, state kept on a raise: `g e` is the model's result -/
def execLike (g : Except PyErr (σ × α)) (e : σ) : Except PyErr α × σ :=
  match g with
  | .ok (e', r) => (.ok r, e')
  | .error err => (.error err, e)

theorem moveToEnd_find {l l' : Lookup} {k : String} (h : l.moveToEnd k = some l') : ∃ p, l'.find? k = some p := by
  unfold Lookup.moveToEnd at h
  cases hf : l.find? k with
  | none => simp [hf] at h
  | some e =>
    simp only [hf, Option.some.injEq] at h
    have hk : (e.1 == k) = true := by
      have := List.find?_some hf
      simpa using this
    subst h
    have : (({ l with data := l.data.erase e ++ [e] } : Lookup).pin k).data = l.data.erase e ++ [e] := by
      unfold Lookup.pin; split <;> rfl
    unfold Lookup.find?
    rw [this]
    cases hfe : List.find? (fun x => x.fst == k) (l.data.erase e) with
    | some q => exact ⟨q, by simp [List.find?_append, hfe]⟩
    | none => exact ⟨e, by simp [List.find?_append, hfe, hk]⟩

theorem entry_index_exec (e : LookupEnc) (k : String) (hne : e.lookup.evicting = true → e.lookup.data ≠ []) :
    (Gen.LookupEncoder.encode_entry_index k).exec e = execLike (e.entryIndex k) e := by
  unfold Gen.LookupEncoder.encode_entry_index LookupEnc.entryIndex execLike
  have h1 := make_last_to_evict_app e.lookup k
  cases hm : e.lookup.moveToEnd k with
  | some l' =>
    rw [hm] at h1
    py_simp [h1, hm]
  | none =>
    rw [hm] at h1
    have habs : e.lookup.find? k = none := by
      unfold Lookup.moveToEnd at hm; split at hm <;> simp_all
    have hi := insert_exec e.lookup k habs hne
    simp only [M.exec, ExceptT.run, StateT.run] at hi
    cases hins : e.lookup.insert k with
    | ok p =>
      obtain ⟨l', a⟩ := p
      rw [hins] at hi
      by_cases hq : a = e.lastAssigned + 1 <;> py_simp [h1, hm, hi, hq]
    | error err =>
      rw [hins] at hi
      py_simp [h1, hm, hi]

theorem term_index_exec (e : LookupEnc) (v : String) :
    (Gen.LookupEncoder.encode_term_index v).exec e = execLike (e.termIndex v) e := by
  unfold Gen.LookupEncoder.encode_term_index LookupEnc.termIndex execLike
  have h1 := make_last_to_evict_app e.lookup v
  cases hm : e.lookup.moveToEnd v with
  | none => rw [hm] at h1; py_simp [h1, hm]
  | some l' =>
    rw [hm] at h1
    obtain ⟨p, hf⟩ := moveToEnd_find hm
    have : List.find? (fun x => x.fst == v) l'.data = some p := hf
    py_simp [h1, hm, hf, odGet, this]

theorem name_term_index_exec (e : LookupEnc) (v : String) :
    (Gen.LookupEncoder.encode_name_term_index v).exec e = execLike (e.nameTermIndex v) e := by
  unfold Gen.LookupEncoder.encode_name_term_index LookupEnc.nameTermIndex
  have h := term_index_exec e v
  simp only [M.exec, ExceptT.run, StateT.run] at h
  cases ht : e.termIndex v with
  | ok p =>
    obtain ⟨e', i⟩ := p
    rw [ht] at h
    by_cases hq : i = e.lastReused + 1 <;> py_simp [h, hq, execLike]
  | error err => rw [ht] at h; py_simp [h, execLike]

theorem datatype_term_index_exec (e : LookupEnc) (v : String) :
    (Gen.LookupEncoder.encode_datatype_term_index v).exec e = execLike (e.datatypeTermIndex v) e := by
  unfold Gen.LookupEncoder.encode_datatype_term_index LookupEnc.datatypeTermIndex
  have h := term_index_exec e v
  simp only [M.exec, ExceptT.run, StateT.run] at h
  by_cases hz : e.lookup.maxSize = 0
  · py_simp [hz, execLike]
  · cases ht : e.termIndex v with
    | ok p => obtain ⟨e', i⟩ := p; rw [ht] at h; py_simp [h, hz, execLike]
    | error err => rw [ht] at h; py_simp [h, hz, execLike]

theorem prefix_term_index_exec (e : LookupEnc) (v : String) :
    (Gen.LookupEncoder.encode_prefix_term_index v).exec e = execLike (e.prefixTermIndex v) e := by
  unfold Gen.LookupEncoder.encode_prefix_term_index LookupEnc.prefixTermIndex
  have h := term_index_exec e v
  simp only [M.exec, ExceptT.run, StateT.run] at h
  by_cases hz : e.lookup.maxSize = 0
  · py_simp [hz, execLike]
  · by_cases hv : v = ""
    · by_cases hr : e.lastReused = 0
      · py_simp [hz, hv, hr, execLike]
      · subst hv
        cases ht : e.termIndex "" with
        | ok p =>
          obtain ⟨e', i⟩ := p; rw [ht] at h
          by_cases hq : i = e.lastReused <;> py_simp [h, hz, hr, hq, execLike]
        | error err => rw [ht] at h; py_simp [h, hz, hr, execLike]
    · cases ht : e.termIndex v with
      | ok p =>
        obtain ⟨e', i⟩ := p; rw [ht] at h
        by_cases hr : e.lastReused = 0
        · py_simp [h, hz, hv, hr, execLike]
        · by_cases hq : i = e.lastReused <;> py_simp [h, hz, hv, hr, hq, execLike]
      | error err => rw [ht] at h; py_simp [h, hz, hv, execLike]

/-! ## Property C05 for the translated code -/

def _root_.Jelly.Rule.genEnc : Rule → String → M LookupEnc Nat
  | .name => Gen.LookupEncoder.encode_name_term_index
  | .prefix => Gen.LookupEncoder.encode_prefix_term_index
  | .datatype => Gen.LookupEncoder.encode_datatype_term_index

/-- `decode_datatype_term_index` is declared `-> str | None`; a `None` datatype is not a string -/
def optStr (r : LookupDec × Except PyErr (Option String)) : LookupDec × Except PyErr String :=
  (r.1, match r.2 with
        | .ok (some s) => .ok s
        | .ok none => .error .typeError
        | .error e => .error e)

def _root_.Jelly.Rule.genDec (rule : Rule) (d : LookupDec) (idx : Nat) : LookupDec × Except PyErr String :=
  match rule with
  | .name => swap ((Gen.LookupDecoder.decode_name_term_index idx).exec d)
  | .prefix => swap ((Gen.LookupDecoder.decode_prefix_term_index idx).exec d)
  | .datatype => optStr (swap ((Gen.LookupDecoder.decode_datatype_term_index idx).exec d))

/-- `jointStep` with every call into the lookup classes replaced by the TRANSLATED method -/
def jointStepGen (rule : Rule) (st : LookupEnc × LookupDec) (k : String) :
    Except JointFail ((LookupEnc × LookupDec) × JointOut) :=
  let (enc, dec) := st
  let entryStep : Except JointFail (LookupEnc × LookupDec × Option Nat) :=
    if enc.lookup.maxSize == 0 then .ok (enc, dec, none)
    else
      match outcome ((Gen.LookupEncoder.encode_entry_index k).exec enc) with
      | .error e => .error ⟨none, none, e⟩
      | .ok (enc', none) => .ok (enc', dec, none)
      | .ok (enc', some id) =>
        match (Gen.LookupDecoder.assign_entry id k).exec dec with
        | (.error e, _) => .error ⟨some id, none, e⟩
        | (.ok _, dec') => .ok (enc', dec', some id)
  match entryStep with
  | .error f => .error f
  | .ok (enc1, dec1, entry) =>
    match outcome ((rule.genEnc k).exec enc1) with
    | .error e => .error ⟨entry, none, e⟩
    | .ok (enc2, idx) =>
      match rule.genDec dec1 idx with
      | (_, .error e) => .error ⟨entry, some idx, e⟩
      | (dec2, .ok s) => .ok ((enc2, dec2), ⟨entry, idx, s⟩)

def jointRunGen (rule : Rule) : LookupEnc × LookupDec → List String → List JointOut →
    (LookupEnc × LookupDec) × List JointOut × Option JointFail
  | st, [], acc => (st, acc, none)
  | st, k :: ks, acc =>
    match jointStepGen rule st k with
    | .error f => (st, acc, some f)
    | .ok (st', o) => jointRunGen rule st' ks (acc ++ [o])

def jointInitGen (size : Nat) : Except PyErr (LookupEnc × LookupDec) :=
  match construct (Gen.LookupDecoder.__init__ size) with
  | .error e => .error e
  | .ok d =>
    match construct (Gen.LookupEncoder.__init__ size) with
    | .error e => .error e
    | .ok e => .ok (e, d)

theorem genEnc_eq (rule : Rule) (e : LookupEnc) (k : String) :
    outcome ((rule.genEnc k).exec e) = rule.encTerm e k := by
  cases rule
  · exact name_term_index_eq e k
  · exact prefix_term_index_eq e k
  · exact datatype_term_index_eq e k

theorem genDec_eq (rule : Rule) (d : LookupDec) (idx : Nat) : rule.genDec d idx = rule.decTerm d idx := by
  cases rule
  · exact decode_name_eq d idx
  · exact decode_prefix_eq d idx
  · simp only [Rule.genDec, Rule.decTerm, decode_datatype_eq, optStr]
    rcases d.datatypeTerm idx with ⟨d', r⟩
    cases r <;> rfl

theorem jointStepGen_eq (rule : Rule) (enc : LookupEnc) (dec : LookupDec) (k : String)
    (hne : enc.lookup.evicting = true → enc.lookup.data ≠ []) :
    jointStepGen rule (enc, dec) k = jointStep rule (enc, dec) k := by
  have hassign : ∀ id, (match (Gen.LookupDecoder.assign_entry id k).exec dec with
      | (.error e, _) => (.error e : Except PyErr LookupDec)
      | (.ok _, dec') => .ok dec') = dec.assignEntry id k := by
    intro id
    rw [← assign_entry_eq]
    rcases (Gen.LookupDecoder.assign_entry id k).exec dec with ⟨r, s⟩
    cases r <;> rfl
  simp only [jointStepGen, jointStep, entry_index_eq enc k hne, genEnc_eq, genDec_eq]
  congr 1
  split
  · rfl
  · cases hent : enc.entryIndex k with
    | error e => rfl
    | ok p =>
      obtain ⟨enc', oid⟩ := p
      cases oid with
      | none => rfl
      | some id =>
        simp only
        rw [← hassign id]
        rcases (Gen.LookupDecoder.assign_entry id k).exec dec with ⟨r, s⟩
        cases r <;> rfl

theorem evicting_nonempty {l : Lookup} (wf : l.WFm) : l.evicting = true → l.data ≠ [] := by
  intro hev hnil
  have h1 := wf.ev
  have h2 := wf.pos
  rw [hev, hnil] at h1
  simp at h1
  omega

theorem jointRunGen_eq (rule : Rule) (ks : List String) :
    ∀ (st : LookupEnc × LookupDec) (acc : List JointOut), JointInv st.1 st.2 →
      jointRunGen rule st ks acc = jointRun rule st ks acc := by
  induction ks with
  | nil => intro st acc _; rfl
  | cons k ks ih =>
    intro st acc inv
    obtain ⟨e, d⟩ := st
    obtain ⟨e', d', o, hstep, inv', _⟩ := jointStep_spec rule inv k
    have hg := jointStepGen_eq rule e d k (evicting_nonempty inv.mirror.wf)
    simp only [jointRunGen, jointRun, hg, hstep]
    exact ih (e', d') (acc ++ [o]) inv'

theorem jointInitGen_eq (size : Nat) : jointInitGen size = jointInit size := by
  simp only [jointInitGen, jointInit, lookup_dec_new, lookup_enc_new]
  cases LookupDec.new size <;> rfl

/-- **Property C05, stated for the code translated from the sources on this run.** For every table size the
    reader supports, every index rule and every finite key history, run through the TRANSLATED
    `LookupEncoder` / `LookupDecoder` methods (constructors included): nothing raises, every index put on the
    wire — the zero forms included — is resolved by the reader to exactly the key the writer meant, the writer
    never holds more than `size` live entries, and every emitted id lies in `[0, size]`. -/
theorem C05_translated (rule : Rule) (size : Nat) (hs : 1 ≤ size) (hle : size ≤ MAX_LOOKUP_SIZE)
    (ks : List String) :
    ∃ st0, jointInitGen size = .ok st0 ∧
      (jointRunGen rule st0 ks []).2.2 = none ∧
      (jointRunGen rule st0 ks []).2.1.map (·.resolved) = ks ∧
      (jointRunGen rule st0 ks []).1.1.lookup.data.length ≤ size ∧
      (∀ o ∈ (jointRunGen rule st0 ks []).2.1, o.idx ≤ size ∧ ∀ id, o.entry = some id → id ≤ size) := by
  have hnot : ¬ size > MAX_LOOKUP_SIZE := by omega
  have hinit : jointInit size = .ok (LookupEnc.new size, { size := size, data := List.replicate size none }) := by
    simp only [jointInit, LookupDec.new, hnot, if_false]
  refine ⟨(LookupEnc.new size, { size := size, data := List.replicate size none }), ?_, ?_⟩
  · rw [jointInitGen_eq, hinit]
  · rw [jointRunGen_eq rule ks _ [] (JointInv.init hs)]
    obtain ⟨st0, h0, h⟩ := C05_mirror_history rule size hs hle ks
    rw [hinit] at h0
    cases h0
    exact h

/-- Non-vacuity: the translated code, evaluated by the kernel on a history with hits, misses and evictions
    (two sequential entries, an eviction reusing id 1, id 2 = previous + 1 sent as 0, a hit, another eviction). -/
example :
    (jointRunGen .name (LookupEnc.new 2, { size := 2, data := [none, none] }) ["a", "b", "c", "a", "a", "b"] []).2.1.map
        (fun o => (o.entry, o.idx, o.resolved))
      = [(some 0, 0, "a"), (some 0, 0, "b"), (some 1, 1, "c"), (some 0, 0, "a"), (none, 2, "a"), (some 1, 1, "b")] := by
  decide

/-- the side condition of `insert_eq` / `entry_index_eq` is met by a full table -/
example : ({ maxSize := 1, data := [("a", 1)], evicting := true } : Lookup).evicting = true →
    ({ maxSize := 1, data := [("a", 1)], evicting := true } : Lookup).data ≠ [] := by simp

end Jelly.Translated

import JellyModel
import JellyProofs.C03
import JellyProofs.C18
import JellyProofs.Lemmas.NsSim
/-!
# C14 (a)(b) — namespace declarations round-trip and never affect statements (writer ⊑ spec, with declarations)
# C20 — what was written before a rejection remains a valid, decodable prefix

Extends the C03 simulation to sink input with namespace bindings. Property theorems only; helper
lemmas live in `JellyProofs/Lemmas/*.lean`.
-/
namespace Jelly

/-- The bindings of a sink as the events a reader must deliver: same prefix, same IRI, same order. -/
def nsEvents (ns : List (String × Term)) : List Event := ns.map fun (p, i) => Event.ns p i

def bindingsWF (ns : List (String × Term)) : Bool := ns.all fun (_, i) => match i with | .iri _ => true | _ => false


theorem nsEvents_eq (ns : List (String × Term)) : nsEvents ns = ns.map fun b => Event.ns b.1 b.2 := by
  unfold nsEvents
  apply List.map_congr_left
  intro b _
  obtain ⟨p, i⟩ := b
  rfl

theorem bindingsWF_elim {ns : List (String × Term)} (h : bindingsWF ns = true) :
    ∀ b ∈ ns, ∃ i, b.2 = Term.iri i := by
  intro b hb
  have := (List.all_eq_true.mp h) b hb
  obtain ⟨p, v⟩ := b
  cases v <;> simp_all

/-- TRIPLES from a sink with bindings, declarations enabled: the rows written are valid and denote
    first the declarations (in order), then the statements — including when the declarations evict
    statement entries from small tables (each declaration is one IRI and always fits). -/
theorem C14_triples_sink (o : SerOptions) (s : Stream) (sk : Sink)
    (hs : Stream.new .triple o = .ok s) (hl : validLogical s.logicalType = true)
    (hns : o.params.namespaceDeclarations = true) (hb : bindingsWF sk.namespaces = true)
    (hwf : ∀ t ∈ sk.store, tripleWF t = true) (hfit : ∀ t ∈ sk.store, stmtFits o.preset t = true) :
    (streamFrames s (.sink sk)).err = none ∧
    ∃ st, Spec.runRows (streamFrames s (.sink sk)).allRows'
            = (st, nsEvents sk.namespaces ++ sk.store.map (fun t => Event.stmt (t.map Term.norm)), none) := by
  obtain ⟨hv, hcls, hopts, _⟩ := Stream.new_spec hs
  obtain ⟨henc, _⟩ := enroll_fresh hs
  have hrows0 := enroll_fresh_rows hs
  show _ ∧ ∃ st, Spec.runRows (allRowsOf _) = _
  apply final_assembly_ver hs hl
  intro ss0 oo inv0 ho0 hph _ hver
  have hver2 : 2 ≤ oo.version := by rw [hver]; simp [Params.version, hns]
  obtain ⟨s1, ss1, rows1, d1, d2, d3, d4, _, d6⟩ :=
    nsDeclarations_sim hv hver2 sk.namespaces s.enroll ss0 (by rw [henc]; exact inv0) ho0
      (bindingsWF_elim hb)
  obtain ⟨ss', rows, e1, e2, _, _, e5⟩ :=
    stmtLoop_triple_sim hv (o := oo) (by simpa [StreamClass.physical] using hph) .runtimeError sk.store
      { stream := s1 } ss1 rfl d3 d4 hwf hfit
  have hsf : streamFrames s (.sink sk)
      = epilogue (stmtLoop (Stream.triple .runtimeError) { stream := s1 } sk.store) false := by
    simp only [streamFrames, hcls, triplesStreamFrames, prologue, s.enroll_opts_cls.1, hopts, hns, if_true, d1,
      SerData.stmts, e1, Option.isSome_none, Bool.false_eq_true, if_false]
  obtain ⟨a1, a2, _⟩ := allRowsOf_epilogue (stmtLoop (Stream.triple .runtimeError) { stream := s1 } sk.store) false
  rw [hsf]
  refine ⟨ss', rows1 ++ rows, a2.trans e1, ?_, ?_⟩
  · rw [a1, e2]
    simp [allRowsOf, rowsOf, d2, hrows0]
  · rw [nsEvents_eq]
    exact d6.trans e5

theorem C14_quads_sink (o : SerOptions) (s : Stream) (sk : Sink)
    (hs : Stream.new .quad o = .ok s) (hl : validLogical s.logicalType = true)
    (hns : o.params.namespaceDeclarations = true) (hb : bindingsWF sk.namespaces = true)
    (hwf : ∀ t ∈ sk.store, quadWF t = true) (hfit : ∀ t ∈ sk.store, stmtFits o.preset t = true) :
    (streamFrames s (.sink sk)).err = none ∧
    ∃ st, Spec.runRows (streamFrames s (.sink sk)).allRows'
            = (st, nsEvents sk.namespaces ++ sk.store.map (fun t => Event.stmt (t.map Term.norm)), none) := by
  obtain ⟨hv, hcls, hopts, _⟩ := Stream.new_spec hs
  obtain ⟨henc, _⟩ := enroll_fresh hs
  have hrows0 := enroll_fresh_rows hs
  show _ ∧ ∃ st, Spec.runRows (allRowsOf _) = _
  apply final_assembly_ver hs hl
  intro ss0 oo inv0 ho0 hph _ hver
  have hver2 : 2 ≤ oo.version := by rw [hver]; simp [Params.version, hns]
  obtain ⟨s1, ss1, rows1, d1, d2, d3, d4, _, d6⟩ :=
    nsDeclarations_sim hv hver2 sk.namespaces s.enroll ss0 (by rw [henc]; exact inv0) ho0
      (bindingsWF_elim hb)
  obtain ⟨ss', rows, e1, e2, _, _, e5⟩ :=
    stmtLoop_quad_sim hv (o := oo) (by simpa [StreamClass.physical] using hph) .runtimeError sk.store
      { stream := s1 } ss1 rfl d3 d4 hwf hfit
  have hsf : streamFrames s (.sink sk)
      = epilogue (stmtLoop (Stream.quad .runtimeError) { stream := s1 } sk.store) true := by
    simp only [streamFrames, hcls, quadsStreamFrames, prologue, s.enroll_opts_cls.1, hopts, hns, if_true, d1,
      SerData.stmts, e1, Option.isSome_none, Bool.false_eq_true, if_false]
  obtain ⟨a1, a2, _⟩ := allRowsOf_epilogue (stmtLoop (Stream.quad .runtimeError) { stream := s1 } sk.store) true
  rw [hsf]
  refine ⟨ss', rows1 ++ rows, a2.trans e1, ?_, ?_⟩
  · rw [a1, e2]
    simp [allRowsOf, rowsOf, d2, hrows0]
  · rw [nsEvents_eq]
    exact d6.trans e5

/-- (b) Enabling declarations never changes the statements read back: the statement events of the
    two streams (option on / option off, everything else equal) are the same list. -/
def stmtEvents (evs : List Event) : List Event := evs.filter fun e => match e with | .stmt _ => true | .ns _ _ => false

theorem stmtEvents_ns_stmts (ns : List (String × Term)) (l : List (List Term)) :
    stmtEvents (nsEvents ns ++ l.map (fun t => Event.stmt (t.map Term.norm)))
      = l.map (fun t => Event.stmt (t.map Term.norm)) := by
  unfold stmtEvents nsEvents
  rw [List.filter_append]
  have h1 : (ns.map fun (p, i) => Event.ns p i).filter
      (fun e => match e with | .stmt _ => true | .ns _ _ => false) = [] := by
    rw [List.filter_eq_nil_iff]
    intro e he
    obtain ⟨b, _, rfl⟩ := List.mem_map.mp he
    simp
  have h2 : (l.map (fun t => Event.stmt (t.map Term.norm))).filter
      (fun e => match e with | .stmt _ => true | .ns _ _ => false)
      = l.map (fun t => Event.stmt (t.map Term.norm)) := by
    rw [List.filter_eq_self]
    intro e he
    obtain ⟨b, _, rfl⟩ := List.mem_map.mp he
    rfl
  rw [h1, h2, List.nil_append]

theorem stmtEvents_stmts (l : List (List Term)) :
    stmtEvents (l.map (fun t => Event.stmt (t.map Term.norm)))
      = l.map (fun t => Event.stmt (t.map Term.norm)) := by
  have := stmtEvents_ns_stmts [] l
  simpa [nsEvents] using this

theorem C14_statements_unaffected (o : SerOptions) (s₁ s₀ : Stream) (sk : Sink)
    (hs₁ : Stream.new .triple { o with params := { o.params with namespaceDeclarations := true } } = .ok s₁)
    (hs₀ : Stream.new .triple { o with params := { o.params with namespaceDeclarations := false } } = .ok s₀)
    (hl : validLogical s₁.logicalType = true) (hb : bindingsWF sk.namespaces = true)
    (hwf : ∀ t ∈ sk.store, tripleWF t = true) (hfit : ∀ t ∈ sk.store, stmtFits o.preset t = true) :
    ∃ st₁ st₀ e₁ e₀,
      Spec.runRows (streamFrames s₁ (.sink sk)).allRows' = (st₁, e₁, none) ∧
      Spec.runRows (streamFrames s₀ (.sink sk)).allRows' = (st₀, e₀, none) ∧
      stmtEvents e₁ = stmtEvents e₀ ∧ stmtEvents e₀ = e₀ := by
  have hlt : s₀.logicalType = s₁.logicalType := by
    have h := Stream.new_nsflag true hs₀
    have h' : Stream.new .triple { o with params := { o.params with namespaceDeclarations := true } }
        = .ok { s₀ with opts := { o with params := { o.params with namespaceDeclarations := true } } } := h
    rw [hs₁] at h'
    injection h' with h'
    rw [h']
  obtain ⟨_, _, hopts₀, _⟩ := Stream.new_spec hs₀
  obtain ⟨_, st₁, h₁⟩ := C14_triples_sink _ s₁ sk hs₁ hl rfl hb hwf hfit
  obtain ⟨_, st₀, h₀⟩ := C03_triples _ s₀ sk.store hs₀ (by rw [hlt]; exact hl) hwf hfit
  rw [← streamFrames_sink_nsOff s₀ sk (by rw [hopts₀])] at h₀
  refine ⟨st₁, st₀, _, _, h₁, h₀, ?_, ?_⟩
  · rw [stmtEvents_ns_stmts, stmtEvents_stmts]
  · exact stmtEvents_stmts _

/-! ## C20: the prefix written before a rejection stays valid -/

/-- Feed statements one by one with a catch-and-continue driver until the first rejection. If all
    statements before it are well-formed and fit, then at the moment of the rejection everything the
    stream has handed out or buffered (frames so far + flow) is accepted by the reference decoder and
    denotes exactly the accepted statements, in order — the rejected statement has left no row. -/
def feedUntilReject (s : Stream) : List (List Term) → List Frame → Stream × List Frame × Option PyErr
  | [], acc => (s, acc, none)
  | t :: ts, acc =>
    match s.triple .stopIteration t with
    | (s', .error e) => (s', acc, some e)
    | (s', .ok fr) => feedUntilReject s' ts (acc ++ fr.toList)

theorem feedUntilReject_eq (s : Stream) (ts : List (List Term)) (acc : List Frame) :
    feedUntilReject s ts acc = Stream.graphTriples .stopIteration s ts acc := by
  induction ts generalizing s acc with
  | nil => rfl
  | cons t ts ih =>
    simp only [feedUntilReject, Stream.graphTriples]
    rcases h : Stream.triple .stopIteration s t with ⟨s', e | fr⟩
    · rfl
    · exact ih _ _

theorem C20_prefix_valid (o : SerOptions) (s : Stream) (pre : List (List Term)) (bad : List Term)
    (hs : Stream.new .triple o = .ok s) (hl : validLogical s.logicalType = true)
    (hwf : ∀ t ∈ pre, tripleWF t = true) (hfit : ∀ t ∈ pre, stmtFits o.preset t = true)
    (s1 s' : Stream) (frames : List Frame) (e : PyErr)
    (hpre : feedUntilReject s.enroll pre [] = (s1, frames, none))
    (hbad : s1.triple .stopIteration bad = (s', .error e)) :
    ∃ st, Spec.runRows (frames.flatMap (·.rows) ++ s'.flow.rows)
            = (st, pre.map (fun t => Event.stmt (t.map Term.norm)), none) := by
  obtain ⟨hv, hcls, _⟩ := Stream.new_spec hs
  obtain ⟨henc, _⟩ := enroll_fresh hs
  have hrows0 := enroll_fresh_rows hs
  have hfl := ((C20_rejection_leaves_flow_untouched .stopIteration s1 s' bad e).1 hbad).1
  have key := final_assembly hs hl (r := { stream := s', frames := frames })
    (evs := pre.map (fun t => Event.stmt (t.map Term.norm))) (by
      intro ss0 oo inv0 ho0 hph _
      obtain ⟨s2, frames2, ss', rows, e1, e2, _, _, e5⟩ :=
        Stream.graphTriples_sim1 hv (o := oo) (by simpa [StreamClass.physical] using hph) .stopIteration
          pre s.enroll [] ss0 (by rw [henc]; exact inv0) ho0 hwf hfit
      rw [← feedUntilReject_eq, hpre] at e1
      injection e1 with e1a e1b
      injection e1b with e1b _
      subst e1a; subst e1b
      refine ⟨ss', rows, rfl, ?_, e5⟩
      simp only [allRowsOf, rowsOf, hfl]
      simpa [rowsOf, hrows0] using e2)
  obtain ⟨_, st, hst⟩ := key
  exact ⟨st, by simpa [allRowsOf, rowsOf] using hst⟩

/-- The accepted prefix is never rejected: under the hypotheses the driver gets through `pre`. -/
theorem C20_prefix_accepted (o : SerOptions) (s : Stream) (pre : List (List Term))
    (hs : Stream.new .triple o = .ok s)
    (hwf : ∀ t ∈ pre, tripleWF t = true) (hfit : ∀ t ∈ pre, stmtFits o.preset t = true) :
    ∃ s1 frames, feedUntilReject s.enroll pre [] = (s1, frames, none) := by
  obtain ⟨hv, hcls, _⟩ := Stream.new_spec hs
  obtain ⟨henc, _⟩ := enroll_fresh hs
  have inv0 := nsInit_inv hs
  obtain ⟨s2, frames2, _, _, e1, _⟩ :=
    Stream.graphTriples_sim1 hv (o := wireOptions s) (by simp [wireOptions, hcls, StreamClass.physical])
      .stopIteration pre s.enroll [] _ (by rw [henc]; exact inv0) rfl hwf hfit
  exact ⟨s2, frames2, by rw [feedUntilReject_eq]; exact e1⟩

end Jelly

import JellyModel
/-!
# C18 — a statement too big for the lookup tables is refused, not corrupted  (FALSE on the current code)
# C20 — a rejected statement never poisons the rest of the stream            (FALSE on the current code)

Property theorems only. The full statements do not hold for pyjelly as it is; what is proved here:
kernel-checked counterexamples (replayed on the real code by the checks as known findings), and the
parts of the properties that do hold. `C18_partial` (no corruption when the statement fits) is
`C03_*` in `C03.lean`.
-/
namespace Jelly

/-- Rows written for `stmts` by a fresh TripleStream with the given preset (generator input). -/
def tripleRows (p : Preset) (stmts : List (List Term)) : Option (List Row) :=
  match Stream.new .triple { preset := p, params := { generalized := true, rdfStar := true } } with
  | .ok s =>
    let r := streamFrames s (.gen stmts)
    if r.err.isNone then some (r.frames.flatMap (·.rows)) else none
  | .error _ => none

def decodeOf (rows : Option (List Row)) : Option (List Event × Option (Nat × Spec.Violation)) :=
  rows.map fun r => (Spec.runRows r).2

/-- Prefix table of one slot, one triple with three different namespaces: written WITHOUT error,
    accepted by the reference decoder, and decodes to three IRIs that all carry the LAST prefix. -/
theorem C18_counterexample_prefix :
    stmtFits { maxNames := 8, maxPrefixes := 1, maxDatatypes := 1 }
        [.iri "http://a/x", .iri "http://b/y", .iri "http://c/z"] = false ∧
    decodeOf (tripleRows { maxNames := 8, maxPrefixes := 1, maxDatatypes := 1 }
        [[.iri "http://a/x", .iri "http://b/y", .iri "http://c/z"]])
      = some ([.stmt [.iri "http://c/x", .iri "http://c/y", .iri "http://c/z"]], none) := by
  decide +kernel

/-- Datatype table of one slot, two differently typed literals in one statement: both come back
    with the second datatype. -/
theorem C18_counterexample_datatype :
    stmtFits { maxNames := 8, maxPrefixes := 8, maxDatatypes := 1 }
        [.lit "1" none (some "urn:a"), .iri "http://p/p", .lit "2" none (some "urn:b")] = false ∧
    decodeOf (tripleRows { maxNames := 8, maxPrefixes := 8, maxDatatypes := 1 }
        [[.lit "1" none (some "urn:a"), .iri "http://p/p", .lit "2" none (some "urn:b")]])
      = some ([.stmt [.lit "1" none (some "urn:b"), .iri "http://p/p", .lit "2" none (some "urn:b")]], none) := by
  decide +kernel

/-- Name table of eight slots, a quoted triple bringing the statement to nine distinct names: the
    first name is overwritten before the statement row is sent. -/
theorem C18_counterexample_name :
    let st : List Term :=
      [.quoted (.iri "http://n/1") (.iri "http://n/2") (.quoted (.iri "http://n/3") (.iri "http://n/4") (.iri "http://n/5")),
       .iri "http://n/6",
       .quoted (.iri "http://n/7") (.iri "http://n/8") (.iri "http://n/9")]
    stmtFits { maxNames := 8, maxPrefixes := 8, maxDatatypes := 8 } st = false ∧
    (decodeOf (tripleRows { maxNames := 8, maxPrefixes := 8, maxDatatypes := 8 } [st])).map (·.2) = some none ∧
    decodeOf (tripleRows { maxNames := 8, maxPrefixes := 8, maxDatatypes := 8 } [st])
      ≠ some ([.stmt st], none) := by
  decide +kernel

/-! ## C20 -/

/-- The three statements of the witness: the second is rejected (unsupported object) AFTER its
    subject and predicate were encoded. -/
def c20Ops : List (List Term) :=
  [[.iri "http://x/a1", .iri "http://x/p1", .iri "http://x/o1"],
   [.iri "http://x/a2", .iri "http://x/p2", .unsupported],
   [.iri "http://x/a2", .iri "http://x/p2", .iri "http://x/o3"]]

/-- Catch-and-continue driver: feed statements one by one, ignore rejections, collect rows. -/
def catchAndContinue (s : Stream) : List (List Term) → List Bool → Stream × List Bool
  | [], acc => (s, acc)
  | t :: ts, acc =>
    match s.triple .stopIteration t with
    | (s', .error _) => catchAndContinue s' ts (acc ++ [false])
    | (s', .ok _) => catchAndContinue s' ts (acc ++ [true])

/-- After `(a2, p2, <unsupported>)` is rejected, `(a2, p2, o3)` is emitted with subject and predicate
    elided as "repeated" and decodes as `(a1, p1, o3)`: the stream is accepted by the reference decoder
    and silently carries different data. -/
def c20Run : Option (List Bool × List Event × Option (Nat × Spec.Violation)) :=
  match Stream.new .triple { frameSize := 250, preset := { maxNames := 8, maxPrefixes := 8, maxDatatypes := 8 } } with
  | .error _ => none
  | .ok s0 =>
    let r := catchAndContinue s0.enroll c20Ops []
    some (r.2, (Spec.runRows r.1.flow.rows).2)

theorem C20_counterexample :
    c20Run = some ([true, false, true],
      [.stmt [.iri "http://x/a1", .iri "http://x/p1", .iri "http://x/o1"],
       .stmt [.iri "http://x/a1", .iri "http://x/p1", .iri "http://x/o3"]], none) := by
  decide +kernel

/-- What does hold (1): a rejected statement never reaches the flow — whatever was written or
    buffered before the failure is untouched (so the bytes flushed before it stay a valid prefix). -/
theorem C20_rejection_leaves_flow_untouched (exc : PyErr) (s s' : Stream) (terms : List Term) (e : PyErr) :
    (s.triple exc terms = (s', .error e) → s'.flow.rows = s.flow.rows ∧ s'.enrolled = s.enrolled) ∧
    (s.quad exc terms = (s', .error e) → s'.flow.rows = s.flow.rows ∧ s'.enrolled = s.enrolled) := by
  constructor
  · intro h
    unfold Stream.triple at h
    split at h
    · injection h with h1 h2; subst h1; exact ⟨rfl, rfl⟩
    · simp at h
  · intro h
    unfold Stream.quad at h
    split at h
    · injection h with h1 h2; subst h1; exact ⟨rfl, rfl⟩
    · simp at h

/-- What does hold (2): a rejection that did not get to change the encoder (the failing term is the
    first thing the statement touches) leaves no trace at all. -/
theorem C20_clean_rejection_leaves_no_trace (exc : PyErr) (s s' : Stream) (terms : List Term) (e : PyErr) :
    (s.triple exc terms = (s', .error e) → s'.enc = s.enc → s' = s) ∧
    (s.quad exc terms = (s', .error e) → s'.enc = s.enc → s' = s) := by
  constructor
  · intro h henc
    unfold Stream.triple at h
    split at h
    · injection h with h1 h2; subst h1
      cases s; simp_all
    · simp at h
  · intro h henc
    unfold Stream.quad at h
    split at h
    · injection h with h1 h2; subst h1
      cases s; simp_all
    · simp at h

end Jelly

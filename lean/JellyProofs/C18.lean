import JellyModel
import JellyProofs.Lemmas.RowBracket
/-!
# C18 — a statement too big for the lookup tables is refused, not corrupted  (FALSE on the current code)
# C20 — a rejected statement never poisons the rest of the stream            (FALSE on the current code)

Property theorems only. The full statements do not hold for pyjelly as it is; what is proved here:
kernel-checked counterexamples (replayed on the real code by the checks as known findings), and the
parts of the properties that do hold. `C18_partial` (no corruption when the statement fits) is
`C03_*` in `C03.lean`.
-/
namespace Jelly

/-- Rows written for `stmts` by a fresh TripleStream with the given preset (generator input). -/
def tripleRows (p : Preset) (stmts : List (List Term)) : Option (List Row) :=
  match Stream.new .triple { preset := p, params := { generalized := true, rdfStar := true } } with
  | .ok s =>
    let r := streamFrames s (.gen stmts)
    if r.err.isNone then some (r.frames.flatMap (·.rows)) else none
  | .error _ => none

def decodeOf (rows : Option (List Row)) : Option (List Event × Option (Nat × Spec.Violation)) :=
  rows.map fun r => (Spec.runRows r).2

/-- The exception a fresh TripleStream ends with on `stmts` (generator input), if any. -/
def tripleErr (p : Preset) (stmts : List (List Term)) : Option PyErr :=
  match Stream.new .triple { preset := p, params := { generalized := true, rdfStar := true } } with
  | .ok s => (streamFrames s (.gen stmts)).err
  | .error e => some e

/-- Regression witnesses for the repaired defect (`fixed: C18-in-statement-eviction`). Before the
    repair each of these statements was written WITHOUT error and decoded to different IRIs /
    datatypes (the least recently used entry was evicted although the same row still referred to it).
    Now the writer refuses them with `JellyConformanceError`.
    Prefix table of one slot, one triple with three different namespaces. -/
theorem C18_regression_prefix :
    stmtFits { maxNames := 8, maxPrefixes := 1, maxDatatypes := 1 }
        [.iri "http://a/x", .iri "http://b/y", .iri "http://c/z"] = false ∧
    tripleErr { maxNames := 8, maxPrefixes := 1, maxDatatypes := 1 }
        [[.iri "http://a/x", .iri "http://b/y", .iri "http://c/z"]] = some .conformance := by
  decide +kernel

/-- Datatype table of one slot, two differently typed literals in one statement. -/
theorem C18_regression_datatype :
    stmtFits { maxNames := 8, maxPrefixes := 8, maxDatatypes := 1 }
        [.lit "1" none (some "urn:a"), .iri "http://p/p", .lit "2" none (some "urn:b")] = false ∧
    tripleErr { maxNames := 8, maxPrefixes := 8, maxDatatypes := 1 }
        [[.lit "1" none (some "urn:a"), .iri "http://p/p", .lit "2" none (some "urn:b")]] = some .conformance := by
  decide +kernel

/-- Name table of eight slots, quoted triples bringing the statement to nine distinct names. -/
theorem C18_regression_name :
    let st : List Term :=
      [.quoted (.iri "http://n/1") (.iri "http://n/2") (.quoted (.iri "http://n/3") (.iri "http://n/4") (.iri "http://n/5")),
       .iri "http://n/6",
       .quoted (.iri "http://n/7") (.iri "http://n/8") (.iri "http://n/9")]
    stmtFits { maxNames := 8, maxPrefixes := 8, maxDatatypes := 8 } st = false ∧
    tripleErr { maxNames := 8, maxPrefixes := 8, maxDatatypes := 8 } [st] = some .conformance := by
  decide +kernel

/-- The same statements one slot larger are written and decode to themselves (the refusal is not
    over-eager). -/
theorem C18_regression_fits :
    decodeOf (tripleRows { maxNames := 8, maxPrefixes := 3, maxDatatypes := 1 }
        [[.iri "http://a/x", .iri "http://b/y", .iri "http://c/z"]])
      = some ([.stmt [.iri "http://a/x", .iri "http://b/y", .iri "http://c/z"]], none) := by
  decide +kernel

/-- The three statements of the witness: the second is rejected (unsupported object) AFTER its
    subject and predicate were encoded. -/
def c20Ops : List (List Term) :=
  [[.iri "http://x/a1", .iri "http://x/p1", .iri "http://x/o1"],
   [.iri "http://x/a2", .iri "http://x/p2", .unsupported],
   [.iri "http://x/a2", .iri "http://x/p2", .iri "http://x/o3"]]

/-- Catch-and-continue driver: feed statements one by one, ignore rejections, collect rows. -/
def catchAndContinue (s : Stream) : List (List Term) → List Bool → Stream × List Bool
  | [], acc => (s, acc)
  | t :: ts, acc =>
    match s.triple .stopIteration t with
    | (s', .error _) => catchAndContinue s' ts (acc ++ [false])
    | (s', .ok _) => catchAndContinue s' ts (acc ++ [true])

/-- The run of the witness: accepted flags, what the rows in the flow denote, violation if any. -/
def c20Run : Option (List Bool × List Event × Option (Nat × Spec.Violation)) :=
  match Stream.new .triple { frameSize := 250, preset := { maxNames := 8, maxPrefixes := 8, maxDatatypes := 8 } } with
  | .error _ => none
  | .ok s0 =>
    let r := catchAndContinue s0.enroll c20Ops []
    some (r.2, (Spec.runRows r.1.flow.rows).2)

/-- Regression witness for the repaired defect (`fixed: C20-state-after-rejection`). Before the repair
    the run was `[true, false, true]` and the third statement `(a2, p2, o3)`, emitted with subject and
    predicate elided as "repeated", decoded as `(a1, p1, o3)`. Now `(a2, p2, <unsupported>)` is rejected
    after it had used the lookup tables, so the stream refuses the third statement, and what was written
    denotes exactly the one accepted statement. -/
theorem C20_regression_witness :
    c20Run = some ([true, false, false],
      [.stmt [.iri "http://x/a1", .iri "http://x/p1", .iri "http://x/o1"]], none) := by
  decide +kernel

/-- What does hold (1): a rejected statement never reaches the flow — whatever was written or
    buffered before the failure is untouched (so the bytes flushed before it stay a valid prefix). -/
theorem C20_rejection_leaves_flow_untouched (exc : PyErr) (s s' : Stream) (terms : List Term) (e : PyErr) :
    (s.triple exc terms = (s', .error e) → s'.flow.rows = s.flow.rows ∧ s'.enrolled = s.enrolled) ∧
    (s.quad exc terms = (s', .error e) → s'.flow.rows = s.flow.rows ∧ s'.enrolled = s.enrolled) := by
  constructor
  · intro h
    unfold Stream.triple at h
    split at h
    · injection h with h1 h2; subst h1; exact ⟨rfl, rfl⟩
    · simp at h
  · intro h
    unfold Stream.quad at h
    split at h
    · injection h with h1 h2; subst h1; exact ⟨rfl, rfl⟩
    · simp at h

/-- A stream whose encoder is as the next row would find it if nothing is wrong: no pins, no open row. -/
def Stream.idle (s : Stream) : Stream := { s with enc := s.enc.idle }

/-- What does hold (2): a rejection that did not get to use the lookup tables leaves no trace at all:
    the repeated terms are put back, and up to the row-local bookkeeping (`idle`) the stream is what it
    was. -/
theorem C20_clean_rejection_leaves_no_trace (exc : PyErr) (s s' : Stream) (terms : List Term) (e : PyErr) :
    (s.triple exc terms = (s', .error e) → s'.enc.te.endRow = s.enc.te.endRow → s'.idle = s.idle) ∧
    (s.quad exc terms = (s', .error e) → s'.enc.te.endRow = s.enc.te.endRow → s'.idle = s.idle) := by
  constructor
  · intro h he
    unfold Stream.triple at h
    split at h
    · rename_i enc' e' henc
      injection h with h1 h2; subst h1
      have hrep : enc'.rep = s.enc.rep := by
        rcases encodeTriple_err_inv henc with ⟨_, h, _⟩ | ⟨_, st1, _, h⟩ <;> rw [h]
      simp only [Stream.idle, EncState.idle] at he ⊢
      rw [he, hrep]
    · simp at h
  · intro h he
    unfold Stream.quad at h
    split at h
    · rename_i enc' e' henc
      injection h with h1 h2; subst h1
      have hrep : enc'.rep = s.enc.rep := by
        rcases encodeQuad_err_inv henc with ⟨_, h, _⟩ | ⟨_, st1, _, h⟩ <;> rw [h]
      simp only [Stream.idle, EncState.idle] at he ⊢
      rw [he, hrep]
    · simp at h

/-- The row-local bookkeeping never matters to a stream that is not broken: on such a stream a statement
    call behaves as on the idle stream. -/
theorem idle_irrelevant (exc : PyErr) (s : Stream) (terms : List Term) (h : s.enc.te.broken = false) :
    s.idle.triple exc terms = s.triple exc terms ∧ s.idle.quad exc terms = s.quad exc terms := by
  have hb : s.idle.enc.te.broken = false := rfl
  have hte : s.idle.enc.te.startRow = s.enc.te.startRow := rfl
  have hrep : s.idle.enc.rep = s.enc.rep := rfl
  have h3 : encodeTriple exc s.idle.enc terms = encodeTriple exc s.enc terms := by
    rw [encodeTriple_eq hb, encodeTriple_eq h, hte, hrep]
  have h4 : encodeQuad exc s.idle.enc terms = encodeQuad exc s.enc terms := by
    rw [encodeQuad_eq hb, encodeQuad_eq h, hte, hrep]
  constructor
  · unfold Stream.triple
    rw [h3]
    rcases encodeTriple exc s.enc terms with ⟨enc', e | rows⟩ <;> rfl
  · unfold Stream.quad
    rw [h4]
    rcases encodeQuad exc s.enc terms with ⟨enc', e | rows⟩ <;> rfl

/-- A broken stream refuses every further statement and stays exactly as it is. -/
theorem broken_refuses (exc : PyErr) (s : Stream) (terms : List Term) (h : s.enc.te.broken = true) :
    s.triple exc terms = (s, .error .conformance) ∧ s.quad exc terms = (s, .error .conformance) := by
  constructor
  · unfold Stream.triple
    rw [encodeTriple_broken h]
  · unfold Stream.quad
    rw [encodeQuad_broken h]

end Jelly

import JellyModel
import JellyProofs.C03
import JellyProofs.C04
import JellyProofs.C06
import JellyProofs.C07
import JellyProofs.Lemmas.RoundTrip
/-!
# C01 — generic API round trip is lossless and order-preserving (rows and frames level)

Composition of: C03 (what the writer emits is valid and denotes the input), C04 (the decoder returns
the denotation of every valid stream), C06 (nothing is left in the flow; no empty frame), C07
(framing does not matter). The byte level (wire encoding + framing + detection) is added in
`C01Bytes.lean` once the wire round trip is available.

Property theorems only. Helper lemmas live in `JellyProofs/Lemmas/*.lean`.
-/
namespace Jelly

/-- What `parse_jelly_flat` does with an already framed stream (`get_options_and_frames` has found
    the first non-empty frame `first` among `frames`): options from its first row, adapter by
    physical type, one decoder over all frames. Returns the events when nothing raises. -/
def parseFrames (frames : List Frame) (delimited : Bool) : Except PyErr (List Event) :=
  match frames.find? (fun f => !f.rows.isEmpty) with
  | none => .error .conformance
  | some first =>
    match optionsFromFrame first delimited with
    | .error e => .error e
    | .ok opts =>
      match adapterFor opts.physical with
      | .error e => .error e
      | .ok adapter =>
        match DecState.new opts adapter with
        | .error e => .error e
        | .ok d =>
          match decodeFrames true d frames [] with
          | (done, _, none) => .ok done.flatten
          | (_, _, some e) => .error e

def presetReadable (p : Preset) : Bool :=
  p.maxNames ≤ MAX_LOOKUP_SIZE && p.maxPrefixes ≤ MAX_LOOKUP_SIZE && p.maxDatatypes ≤ MAX_LOOKUP_SIZE

/-- The composition shared by the three stream classes: C03 (`herr`, `hspec`), the first row of the
    output (`hhead`), C06, C04 and C07. -/
theorem roundtrip_core (o : SerOptions) (cls : StreamClass) (s : Stream) (d : SerData)
    (evs : List Event) (hs : Stream.new cls o = .ok s) (hp : presetReadable o.preset = true)
    (herr : (streamFrames s d).err = none)
    (hspec : ∃ st, Spec.runRows (streamFrames s d).allRows' = (st, evs, none))
    (hhead : ∃ rows, allRowsOf (streamFrames s d) = s.optionsRow :: rows)
    (delimited : Bool) :
    (streamFrames s d).err = none ∧ (streamFrames s d).stream.flow.rows = [] ∧
    parseFrames (streamFrames s d).frames delimited = .ok evs := by
  have hflow := C06_nothing_left_in_flow s d herr
  have hne := C06_no_empty_frame s d
  obtain ⟨st, hspec⟩ := hspec
  obtain ⟨rows, hhead⟩ := hhead
  have hall : (streamFrames s d).allRows' = (streamFrames s d).frames.flatMap (·.rows) := by
    simp [Run.allRows', hflow]
  have hhead' : (streamFrames s d).frames.flatMap (·.rows) = .options (wireOptions s) :: rows := by
    rw [← hall]; exact hhead
  rw [hall, hhead'] at hspec
  obtain ⟨_, _, hopts, _⟩ := Stream.new_spec hs
  have hsz : (wireOptions s).maxNames ≤ MAX_LOOKUP_SIZE ∧ (wireOptions s).maxPrefixes ≤ MAX_LOOKUP_SIZE ∧
      (wireOptions s).maxDatatypes ≤ MAX_LOOKUP_SIZE := by
    simp only [presetReadable, Bool.and_eq_true, decide_eq_true_eq] at hp
    simp only [wireOptions, hopts]
    exact ⟨hp.1.1, hp.1.2, hp.2⟩
  obtain ⟨opts, adapter, d0, dd, h1, h2, h3, h4⟩ :=
    C04_decoder_refines_spec _ rows st evs delimited hsz hspec
  obtain ⟨f, fs, rs, _, hfrows, hfind⟩ := find_first_nonempty hne hhead'
  have h1' : optionsFromFrame f delimited = .ok opts := by
    rw [← h1]
    exact optionsFromFrame_head _ _ _ (by simp [hfrows])
  rw [← hhead'] at h4
  -- C07: frame by frame = all rows at once
  obtain ⟨c1, c2⟩ := C07_frames_eq_rows true d0 (streamFrames s d).frames
  rw [h4] at c1 c2
  obtain ⟨_, c3⟩ := C07_grouped_one_per_frame true d0 (streamFrames s d).frames c2
  rw [h4] at c3
  refine ⟨herr, hflow, ?_⟩
  rcases hd : decodeFrames true d0 (streamFrames s d).frames [] with ⟨done, part, e⟩
  rw [hd] at c2 c3
  simp only at c2 c3
  subst c2 c3
  simp only [parseFrames, hfind, h1', h2, h3, hd]

/-- TRIPLES: for every constructible TripleStream whose tables the reader supports (≤ 4096), every
    frame size / flow, delimited or not, and every sequence of well-formed triples each of which
    fits the tables: serialization succeeds, leaves nothing behind, and parsing the frames it
    produced returns exactly the input sequence (same length, order, duplicates; xsd:string ≡ plain). -/
theorem C01_triples_frames (o : SerOptions) (s : Stream) (stmts : List (List Term))
    (hs : Stream.new .triple o = .ok s) (hl : validLogical s.logicalType = true)
    (hp : presetReadable o.preset = true)
    (hwf : ∀ t ∈ stmts, tripleWF t = true) (hfit : ∀ t ∈ stmts, stmtFits o.preset t = true)
    (delimited : Bool) :
    (streamFrames s (.gen stmts)).err = none ∧
    (streamFrames s (.gen stmts)).stream.flow.rows = [] ∧
    parseFrames (streamFrames s (.gen stmts)).frames delimited
      = .ok (stmts.map fun t => Event.stmt (t.map Term.norm)) := by
  obtain ⟨herr, hspec⟩ := C03_triples o s stmts hs hl hwf hfit
  exact roundtrip_core o .triple s _ _ hs hp herr hspec
    (streamFrames_head_triples o s stmts hs hl hwf hfit) delimited

/-- QUADS. -/
theorem C01_quads_frames (o : SerOptions) (s : Stream) (stmts : List (List Term))
    (hs : Stream.new .quad o = .ok s) (hl : validLogical s.logicalType = true)
    (hp : presetReadable o.preset = true)
    (hwf : ∀ t ∈ stmts, quadWF t = true) (hfit : ∀ t ∈ stmts, stmtFits o.preset t = true)
    (delimited : Bool) :
    (streamFrames s (.gen stmts)).err = none ∧
    (streamFrames s (.gen stmts)).stream.flow.rows = [] ∧
    parseFrames (streamFrames s (.gen stmts)).frames delimited
      = .ok (stmts.map fun t => Event.stmt (t.map Term.norm)) := by
  obtain ⟨herr, hspec⟩ := C03_quads o s stmts hs hl hwf hfit
  exact roundtrip_core o .quad s _ _ hs hp herr hspec
    (streamFrames_head_quads o s stmts hs hl hwf hfit) delimited

/-- GRAPHS physical type. -/
theorem C01_graphs_frames (o : SerOptions) (s : Stream) (stmts : List (List Term))
    (hs : Stream.new .graph o = .ok s) (hl : validLogical s.logicalType = true)
    (hp : presetReadable o.preset = true)
    (hwf : ∀ t ∈ stmts, quadWF t = true) (hfit : ∀ t ∈ stmts, stmtFits o.preset t = true)
    (delimited : Bool) :
    (streamFrames s (.gen stmts)).err = none ∧
    (streamFrames s (.gen stmts)).stream.flow.rows = [] ∧
    parseFrames (streamFrames s (.gen stmts)).frames delimited
      = .ok (stmts.map fun t => Event.stmt (t.map Term.norm)) := by
  obtain ⟨herr, hspec⟩ := C03_graphs o s stmts hs hl hwf hfit
  exact roundtrip_core o .graph s _ _ hs hp herr hspec
    (streamFrames_head_graphs o s stmts hs hl hwf hfit) delimited

/-- `parseFrames` is what the model's `parseCore` computes once the framing stage has produced
    `frames` from a delimited byte stream: ties the definition above to the parser model. -/
theorem C01_parseFrames_is_parseCore (opened : Opened) (frames : List Frame) (first : Frame)
    (hfirst : frames.find? (fun f => !f.rows.isEmpty) = some first)
    (hopts : optionsFromFrame first opened.opts.delimited = .ok opened.opts)
    (hframes : opened.frames = (frames, none)) :
    parseFrames frames opened.opts.delimited =
      (match adapterFor opened.opts.physical with
       | .error e => .error e
       | .ok adapter =>
         match DecState.new opened.opts adapter with
         | .error e => .error e
         | .ok d =>
           match decodeFrames true d frames [] with
           | (done, _, none) => .ok done.flatten
           | (_, _, some e) => .error e) := by
  have _ := hframes
  simp only [parseFrames, hfirst, hopts]

end Jelly

import JellyModel
import JellyProofs.Lemmas.Agree
import JellyProofs.Lemmas.Header
/-!
# C15 — all parsing entry points and both integrations agree
# C14 — namespace declarations (the parts that do not need the writer/reader simulation)
# C02 — the rdflib serializer loops coincide with the generic ones on corresponding input

Property theorems only. Helper lemmas live in `JellyProofs/Lemmas/*.lean`.

Modelling note: the rdflib adapter is the generic adapter composed with an injective renaming of
terms (IRI ↦ URIRef, …, DefaultGraph ↦ the default graph id); the shared `Decoder` never inspects an
adapter result, so in the model both integrations produce the same `Term`s and differ only in
`quoted` (the rdflib adapter has no `quoted_triple`).
-/
namespace Jelly

/-- No quoted triple anywhere in a wire term / row. -/
def WTerm.noQuoted : WTerm → Bool
  | .triple _ _ _ => false
  | _ => true

def optNoQuoted : Option WTerm → Bool
  | some t => t.noQuoted
  | none => true

def Row.noQuoted : Row → Bool
  | .triple s p o => optNoQuoted s && optNoQuoted p && optNoQuoted o
  | .quad s p o g => optNoQuoted s && optNoQuoted p && optNoQuoted o && optNoQuoted g
  | .graphStart g => optNoQuoted g
  | _ => true

theorem WTerm.isFlat_of_noQuoted {t : WTerm} (h : t.noQuoted = true) : t.isFlat := by
  cases t <;> first | trivial | cases h

theorem optFlat_of_optNoQuoted {w : Option WTerm} (h : optNoQuoted w = true) : optFlat w := by
  cases w with
  | none => trivial
  | some t => exact WTerm.isFlat_of_noQuoted h

/-- (a) `parse_jelly_to_graph` holds exactly the items of `parse_jelly_flat`. -/
theorem C15_to_graph_eq_flat (kind : SourceKind) (b : Bytes) (quoted : Bool) :
    parseToGraph kind b quoted =
      (match (parseFlat kind b false quoted).err with
       | some e => .error e
       | none => .ok (sinkOfEvents (parseFlat kind b false quoted).events)) := by
  rfl

/-- (b) Cross-integration, row level: on rows without quoted triples the decoder behaves the same
    whether or not the adapter supports quoted triples — same events, same state, same errors. -/
theorem C15_integrations_agree_row (d : DecState) (r : Row) (h : r.noQuoted = true) :
    d.decodeRow false r = d.decodeRow true r := by
  cases r with
  | triple s p o =>
    simp only [Row.noQuoted, Bool.and_eq_true] at h
    obtain ⟨⟨hs, hp⟩, ho⟩ := h
    simp only [DecState.decodeRow]
    rw [decodeSpo_flat d s p o (optFlat_of_optNoQuoted hs) (optFlat_of_optNoQuoted hp)
      (optFlat_of_optNoQuoted ho)]
  | quad s p o g =>
    simp only [Row.noQuoted, Bool.and_eq_true] at h
    obtain ⟨⟨⟨hs, hp⟩, ho⟩, hg⟩ := h
    simp only [DecState.decodeRow]
    rw [decodeSpo_flat d s p o (optFlat_of_optNoQuoted hs) (optFlat_of_optNoQuoted hp)
      (optFlat_of_optNoQuoted ho)]
    cases d.decodeSpo true s p o with
    | error e => rfl
    | ok x =>
      obtain ⟨d', ts, tp, to⟩ := x
      dsimp only
      rw [decodeSlot_flat d' _ g (optFlat_of_optNoQuoted hg)]
  | graphStart g =>
    cases g with
    | none => rfl
    | some t =>
      simp only [DecState.decodeRow]
      rw [decodeTerm_flat d t (WTerm.isFlat_of_noQuoted h)]
  | _ => rfl

theorem C15_integrations_agree_rows (d : DecState) (rows : List Row) (acc : List Event)
    (h : ∀ r ∈ rows, r.noQuoted = true) :
    d.decodeRows false rows acc = d.decodeRows true rows acc := by
  induction rows generalizing d acc with
  | nil => rfl
  | cons r rs ih =>
    simp only [DecState.decodeRows]
    rw [C15_integrations_agree_row d r (h r (by simp))]
    cases d.decodeRow true r with
    | error e => rfl
    | ok x =>
      obtain ⟨d', ev⟩ := x
      exact ih d' _ (fun r' hr' => h r' (by simp [hr']))

/-- (b') Cross-integration, byte level: for any bytes whose frames carry no quoted triple, the
    rdflib-style parse (no quoted-triple support) equals the generic parse. `wireFramesOf` lists the
    frames the frame iterator would deliver. -/
theorem C15_integrations_agree_frames (d : DecState) (frames : List Frame)
    (h : ∀ f ∈ frames, ∀ r ∈ f.rows, r.noQuoted = true) :
    decodeFrames false d frames [] = decodeFrames true d frames [] := by
  suffices H : ∀ acc, decodeFrames false d frames acc = decodeFrames true d frames acc from H []
  induction frames generalizing d with
  | nil => intro acc; rfl
  | cons f fs ih =>
    intro acc
    simp only [decodeFrames]
    rw [C15_integrations_agree_rows d f.rows [] (h f (by simp))]
    rcases d.decodeRows true f.rows [] with ⟨d', evs, _ | e⟩
    · exact ih d' (fun f' hf' => h f' (by simp [hf'])) _
    · rfl

/-- (c) Serializers: fed with a plain statement generator (not a Graph/Dataset), the rdflib loops
    are the generic loops — so both integrations produce the same frames for corresponding data. -/
theorem C15_serializers_agree_triples (s : Stream) (stmts : List (List Term)) :
    triplesStreamFramesR s false [] [stmts] = triplesStreamFrames s (.gen stmts) := by
  unfold triplesStreamFramesR triplesStreamFrames
  rw [prologueR_plain, prologue_gen]
  dsimp only [SerData.stmts]
  rw [triplesGraphsLoop_single]
  generalize stmtLoop (Stream.triple .runtimeError) { stream := s.enroll } stmts = A
  by_cases h : A.err.isSome = true
  · simp only [h, if_true]
  · simp only [h, if_false, Run.pushCut, Run.push_err, epilogue, Bool.false_eq_true]

theorem C15_serializers_agree_quads (s : Stream) (stmts : List (List Term)) :
    quadsStreamFramesR s false [] stmts = quadsStreamFrames s (.gen stmts) := by
  unfold quadsStreamFramesR quadsStreamFrames
  rw [prologueR_plain, prologue_gen]
  rfl

/-! ## C14 -/

def Row.isNamespace : Row → Bool
  | .namespace _ _ => true
  | _ => false

theorem Row.notNs_of_isNamespace {r : Row} (h : r.isNamespace = false) : r.NotNs := by
  cases r <;> first | trivial | cases h

theorem Row.isNamespace_of_notNs {r : Row} (h : r.NotNs) : r.isNamespace = false := by
  cases r <;> first | rfl | exact h.elim

theorem DecState.decodeIri_frame {d d' : DecState} {p n : Nat} {s : String}
    (h : d.decodeIri p n = .ok (d', s)) :
    d'.rep = d.rep ∧ d'.graphId = d.graphId ∧ d'.datatypes = d.datatypes := by
  unfold DecState.decodeIri at h
  split at h
  · cases h
  · split at h
    · cases h
    · cases h
      exact ⟨rfl, rfl, rfl⟩

/-- (c) With the option off no namespace row is ever written — by any stream class, for sink or
    generator input, whatever the sink's bindings. -/
theorem C14_no_namespace_rows_when_off (s : Stream) (d : SerData)
    (hoff : s.opts.params.namespaceDeclarations = false)
    (hflow : ∀ r ∈ s.flow.rows, r.isNamespace = false) :
    (∀ f ∈ (streamFrames s d).frames, ∀ r ∈ f.rows, r.isNamespace = false) ∧
    (∀ r ∈ (streamFrames s d).stream.flow.rows, r.isNamespace = false) := by
  have hc := streamFrames_clean s d hoff (fun x hx => Row.notNs_of_isNamespace (hflow x hx))
  obtain ⟨h1, h2⟩ := (cleanRows_iff _ _).1 hc
  exact ⟨fun f hf r hr => Row.isNamespace_of_notNs (h1 f hf r hr),
    fun r hr => Row.isNamespace_of_notNs (h2 r hr)⟩

/-- Namespace rows only appear in version-2 streams: the header of a stream declares version 2
    exactly when declarations are enabled (so, with (c), a version-1 stream has no namespace row). -/
theorem C14_version_two_iff_enabled (cls : StreamClass) (o : SerOptions) (s : Stream)
    (hs : Stream.new cls o = .ok s) :
    (∃ op, s.optionsRow = .options op ∧ (op.version = 2 ↔ o.params.namespaceDeclarations = true) ∧
      (op.version = 1 ↔ o.params.namespaceDeclarations = false)) := by
  obtain ⟨_, _, _, ho⟩ := Stream.new_ok hs
  refine ⟨_, rfl, ?_, ?_⟩ <;> simp only [ho, Params.version] <;> cases o.params.namespaceDeclarations <;> simp

/-- (b, writer side) A sink without bindings is written exactly like the bare statement sequence,
    whether the option is on or off (declarations are the only thing the option adds). -/
theorem C14_no_bindings_same_rows (s : Stream) (sk : Sink) (hns : sk.namespaces = []) :
    (streamFrames s (.sink sk)).frames = (streamFrames s (.gen sk.store)).frames ∧
    (streamFrames s (.sink sk)).err = (streamFrames s (.gen sk.store)).err := by
  rw [streamFrames_sink_no_bindings s sk hns]
  exact ⟨rfl, rfl⟩

/-- (a, reader side) A namespace row is decoded to a `Prefix` event carrying the resolved IRI and
    the name unchanged; it never touches the repeated terms or the open graph. -/
theorem C14_namespace_row_decoding (quoted : Bool) (d d' : DecState) (name : String) (iri : Option (Nat × Nat))
    (ev : Option Event) (h : d.decodeRow quoted (.namespace name iri) = .ok (d', ev)) :
    (∃ s, ev = some (.ns name (.iri s))) ∧ d'.rep = d.rep ∧ d'.graphId = d.graphId ∧ d'.datatypes = d.datatypes := by
  simp only [DecState.decodeRow] at h
  split at h
  · cases h
  · rename_i hi
    simp only [Except.ok.injEq, Prod.mk.injEq] at h
    obtain ⟨rfl, rfl⟩ := h
    exact ⟨⟨_, rfl⟩, DecState.decodeIri_frame hi⟩

/-! ## C02: rdflib loops vs generic loops -/

/-- A `GraphStream` fed graph by graph (rdflib `Dataset.graphs()`) writes what the generic
    `graphs_stream_frames` writes for the same quads listed graph after graph, provided consecutive
    graphs have different names and none is empty (which is how `split_to_graphs` regroups them). -/
def quadsOfGraphs (gs : List (Term × List (List Term))) : List (List Term) :=
  gs.flatMap fun (g, ts) => ts.map fun t => t ++ [g]

def graphsWellSplit : List (Term × List (List Term)) → Bool
  | [] => true
  | [(_, ts)] => !ts.isEmpty && ts.all (·.length == 3)
  | (g, ts) :: (g', ts') :: rest => !ts.isEmpty && ts.all (·.length == 3) && g != g' && graphsWellSplit ((g', ts') :: rest)

theorem graphsSplit_of_wellSplit : ∀ (gs : List (Term × List (List Term))),
    graphsWellSplit gs = true → GraphsSplit gs
  | [], _ => trivial
  | [(g, ts)], h => by
    simp only [graphsWellSplit, Bool.and_eq_true, Bool.not_eq_true', List.isEmpty_eq_false_iff,
      List.all_eq_true, beq_iff_eq] at h
    exact ⟨h.1, h.2, by simp, trivial⟩
  | (g, ts) :: (g', ts') :: rest, h => by
    simp only [graphsWellSplit, Bool.and_eq_true, Bool.not_eq_true', List.isEmpty_eq_false_iff,
      List.all_eq_true, beq_iff_eq, bne_iff_ne, ne_eq] at h
    obtain ⟨⟨⟨h1, h2⟩, h3⟩, h4⟩ := h
    exact ⟨h1, h2, by simpa using h3, graphsSplit_of_wellSplit _ h4⟩

theorem quadsOfGraphs_eq (gs : List (Term × List (List Term))) : quadsOfGraphs gs = quadsOf gs := rfl

theorem C02_graphs_loops_agree (s : Stream) (gs : List (Term × List (List Term)))
    (h : graphsWellSplit gs = true) :
    graphsStreamFramesR s false [] gs = graphsStreamFrames s (.gen (quadsOfGraphs gs)) := by
  unfold graphsStreamFramesR graphsStreamFrames
  rw [prologueR_plain, prologue_gen]
  dsimp only [SerData.stmts]
  rw [quadsOfGraphs_eq, graphsLoop_none_eq _ gs (graphsSplit_of_wellSplit gs h)]

end Jelly

import JellyModel
import JellyProofs.C01
import JellyProofs.C08
import JellyProofs.WireRoundTrip
import JellyProofs.Lemmas.BytesRoundTrip
/-!
# C01 / C03 at the BYTE level: statements → bytes → statements, entirely inside the model

Composition of the frames-level round trip (`C01_*_frames`), the wire round trip
(`wire_delimited_roundtrip`, `wire_single_concat`), the framing detection (`C08_hint_*`) and the
options/first-frame search of `getOptionsAndFrames`.

Property theorems only. Helper lemmas live in `JellyProofs/Lemmas/*.lean`.
-/
namespace Jelly

/-- Nesting depth of quoted triples in an input term. -/
def Term.depth : Term → Nat
  | .quoted s p o => 1 + max s.depth (max p.depth o.depth)
  | _ => 0

/-- Input statements whose quoted triples nest shallowly enough for the protobuf recursion limit. -/
def stmtShallow (t : List Term) : Bool := t.all fun x => x.depth + 2 < depthLimit

/-- The bytes a caller writes for a run: `write_delimited` per frame, or `write_single` per frame. -/
def runBytes (delimited : Bool) (r : Run) : Bytes :=
  r.frames.flatMap fun f => if delimited then writeDelimited f else writeSingle f

/-- Size side condition: every frame (resp. the whole output) encodes to fewer than 2³² bytes. -/
def framesSmall (r : Run) : Prop :=
  (∀ f ∈ r.frames, (encFrame f).length < 2 ^ 32) ∧ (r.frames.flatMap writeSingle).length < 2 ^ 32

private theorem Term.depth_eq_qdepth (t : Term) : t.depth = t.qdepth := by
  induction t with
  | quoted s p o a b c => simp [Term.depth, Term.qdepth, a, b, c]
  | _ => rfl

private theorem shallow_of_stmtShallow {t : List Term} (h : stmtShallow t = true) : ShallowTerms t := by
  intro x hx
  simp only [stmtShallow, List.all_eq_true, decide_eq_true_eq] at h
  have := h x hx
  rwa [Term.depth_eq_qdepth] at this

private theorem runBytes_true (r : Run) : runBytes true r = r.frames.flatMap writeDelimited := by
  simp [runBytes]

private theorem runBytes_false (r : Run) : runBytes false r = r.frames.flatMap writeSingle := by
  simp [runBytes]

private theorem logical_lt (n : Nat) (h : validLogical n = true) : n < 2 ^ 32 := by
  simp only [validLogical, Bool.or_eq_true, decide_eq_true_eq, beq_iff_eq] at h
  omega

private theorem presetReadable_le {p : Preset} (hp : presetReadable p = true) :
    p.maxNames ≤ MAX_LOOKUP_SIZE ∧ p.maxPrefixes ≤ MAX_LOOKUP_SIZE ∧ p.maxDatatypes ≤ MAX_LOOKUP_SIZE := by
  simp only [presetReadable, Bool.and_eq_true, decide_eq_true_eq] at hp
  exact ⟨hp.1.1, hp.1.2, hp.2⟩

/-- The run invariant of `Lemmas/BytesRoundTrip.lean` for a fresh stream. -/
private theorem run_wfr (cls : StreamClass) (o : SerOptions) (s : Stream) (stmts : List (List Term))
    (hs : Stream.new cls o = .ok s) (hp : presetReadable o.preset = true)
    (hl : s.logicalType < 2 ^ 32) (hd : ∀ t ∈ stmts, stmtShallow t = true) :
    (streamFrames s (.gen stmts)).WFR := by
  obtain ⟨hsm, hrows, ho⟩ := Stream.new_small hs (presetReadable_le hp) hl
  exact streamFrames_wfr s stmts hsm (by rw [hrows]; simp) ho
    (fun t ht => shallow_of_stmtShallow (hd t ht))

/-- Every row the writer emits can be carried faithfully by the wire format: ids are bounded by
    the table sizes (≤ 4096 < 2³²), terms sit in legal positions, nesting follows the input. -/
theorem written_rows_wireWF (cls : StreamClass) (o : SerOptions) (s : Stream) (stmts : List (List Term))
    (hs : Stream.new cls o = .ok s) (hp : presetReadable o.preset = true)
    (hl : s.logicalType < 2 ^ 32)
    (hd : ∀ t ∈ stmts, stmtShallow t = true) :
    ∀ f ∈ (streamFrames s (.gen stmts)).frames, ∀ r ∈ f.rows, r.wireWF = true := by
  intro f hf r hr
  exact ((run_wfr cls o s stmts hs hp hl hd).1.1 f hf).1 r hr

/-- The composition shared by all stream classes and both framings. -/
theorem bytes_core (cls : StreamClass) (o : SerOptions) (s : Stream) (stmts : List (List Term))
    (evs : List Event)
    (hs : Stream.new cls o = .ok s) (hl : validLogical s.logicalType = true)
    (hp : presetReadable o.preset = true) (hd : ∀ t ∈ stmts, stmtShallow t = true)
    (hsmall : framesSmall (streamFrames s (.gen stmts)))
    (hframes : ∀ dl, (streamFrames s (.gen stmts)).err = none ∧
      (streamFrames s (.gen stmts)).stream.flow.rows = [] ∧
      parseFrames (streamFrames s (.gen stmts)).frames dl = .ok evs)
    (hhead : ∃ rows, allRowsOf (streamFrames s (.gen stmts)) = s.optionsRow :: rows)
    (delimited : Bool) :
    parseFlat .seekable (runBytes delimited (streamFrames s (.gen stmts))) false true
      = { events := evs, err := none } := by
  have hw := (run_wfr cls o s stmts hs hp (logical_lt _ hl) hd).1.1
  have hne := C06_no_empty_frame s (.gen stmts)
  obtain ⟨rows, hhead⟩ := hhead
  obtain ⟨_, hflow, hpf⟩ := hframes delimited
  have hhead' : (streamFrames s (.gen stmts)).frames.flatMap (·.rows) = s.optionsRow :: rows := by
    rw [← hhead]
    simp [allRowsOf, rowsOf, hflow]
  cases delimited with
  | true =>
    obtain ⟨f₀, tail, rs, hfs, hf0, _⟩ := find_first_nonempty hne hhead'
    rw [runBytes_true]
    have hlen := hsmall.1
    rw [hfs] at hw hpf hlen ⊢
    exact parseFlat_delimited_of_frames f₀ tail evs (by rw [hf0]; simp)
      (fun f hf => (hw f hf).1) (fun f hf => (hw f hf).2) hlen hpf
  | false =>
    rw [runBytes_false]
    exact parseFlat_single_of_frames _ _ rows evs hne hhead'
      (fun f hf => (hw f hf).1) (fun f hf => (hw f hf).2) hsmall.2 hpf

/-- TRIPLES, delimited output: the flat parser, given the bytes, returns exactly the input. -/
theorem C01_triples_bytes_delimited (o : SerOptions) (s : Stream) (stmts : List (List Term))
    (hs : Stream.new .triple o = .ok s) (hl : validLogical s.logicalType = true)
    (hp : presetReadable o.preset = true)
    (hwf : ∀ t ∈ stmts, tripleWF t = true) (hfit : ∀ t ∈ stmts, stmtFits o.preset t = true)
    (hd : ∀ t ∈ stmts, stmtShallow t = true)
    (hsmall : framesSmall (streamFrames s (.gen stmts))) :
    parseFlat .seekable (runBytes true (streamFrames s (.gen stmts))) false true
      = { events := stmts.map (fun t => Event.stmt (t.map Term.norm)), err := none } := by
  exact bytes_core .triple o s stmts _ hs hl hp hd hsmall
    (fun dl => C01_triples_frames o s stmts hs hl hp hwf hfit dl)
    (streamFrames_head_triples o s stmts hs hl hwf hfit) true

/-- TRIPLES, non-delimited output (all frames written bare, one after the other: they merge into one
    frame on read). -/
theorem C01_triples_bytes_single (o : SerOptions) (s : Stream) (stmts : List (List Term))
    (hs : Stream.new .triple o = .ok s) (hl : validLogical s.logicalType = true)
    (hp : presetReadable o.preset = true)
    (hwf : ∀ t ∈ stmts, tripleWF t = true) (hfit : ∀ t ∈ stmts, stmtFits o.preset t = true)
    (hd : ∀ t ∈ stmts, stmtShallow t = true)
    (hsmall : framesSmall (streamFrames s (.gen stmts))) :
    parseFlat .seekable (runBytes false (streamFrames s (.gen stmts))) false true
      = { events := stmts.map (fun t => Event.stmt (t.map Term.norm)), err := none } := by
  exact bytes_core .triple o s stmts _ hs hl hp hd hsmall
    (fun dl => C01_triples_frames o s stmts hs hl hp hwf hfit dl)
    (streamFrames_head_triples o s stmts hs hl hwf hfit) false

/-- QUADS and GRAPHS physical types, both framings. -/
theorem C01_quads_bytes (o : SerOptions) (s : Stream) (stmts : List (List Term)) (delimited : Bool)
    (hs : Stream.new .quad o = .ok s) (hl : validLogical s.logicalType = true)
    (hp : presetReadable o.preset = true)
    (hwf : ∀ t ∈ stmts, quadWF t = true) (hfit : ∀ t ∈ stmts, stmtFits o.preset t = true)
    (hd : ∀ t ∈ stmts, stmtShallow t = true)
    (hsmall : framesSmall (streamFrames s (.gen stmts))) :
    parseFlat .seekable (runBytes delimited (streamFrames s (.gen stmts))) false true
      = { events := stmts.map (fun t => Event.stmt (t.map Term.norm)), err := none } := by
  exact bytes_core .quad o s stmts _ hs hl hp hd hsmall
    (fun dl => C01_quads_frames o s stmts hs hl hp hwf hfit dl)
    (streamFrames_head_quads o s stmts hs hl hwf hfit) delimited

theorem C01_graphs_bytes (o : SerOptions) (s : Stream) (stmts : List (List Term)) (delimited : Bool)
    (hs : Stream.new .graph o = .ok s) (hl : validLogical s.logicalType = true)
    (hp : presetReadable o.preset = true)
    (hwf : ∀ t ∈ stmts, quadWF t = true) (hfit : ∀ t ∈ stmts, stmtFits o.preset t = true)
    (hd : ∀ t ∈ stmts, stmtShallow t = true)
    (hsmall : framesSmall (streamFrames s (.gen stmts))) :
    parseFlat .seekable (runBytes delimited (streamFrames s (.gen stmts))) false true
      = { events := stmts.map (fun t => Event.stmt (t.map Term.norm)), err := none } := by
  exact bytes_core .graph o s stmts _ hs hl hp hd hsmall
    (fun dl => C01_graphs_frames o s stmts hs hl hp hwf hfit dl)
    (streamFrames_head_graphs o s stmts hs hl hwf hfit) delimited

/-- C03 at the byte level: an independent consumer that splits the bytes into frames with the wire
    parser and applies the format rules gets exactly the input. -/
theorem C03_bytes_delimited (cls : StreamClass) (o : SerOptions) (s : Stream) (stmts : List (List Term))
    (hs : Stream.new cls o = .ok s) (hl : validLogical s.logicalType = true)
    (hp : presetReadable o.preset = true)
    (hwf : ∀ t ∈ stmts, (if cls = .triple then tripleWF t else quadWF t) = true)
    (hfit : ∀ t ∈ stmts, stmtFits o.preset t = true)
    (hd : ∀ t ∈ stmts, stmtShallow t = true)
    (hsmall : framesSmall (streamFrames s (.gen stmts))) :
    ∃ frames st,
      restFrames ((runBytes true (streamFrames s (.gen stmts))).length + 1) (runBytes true (streamFrames s (.gen stmts))) []
        = (frames, none) ∧
      Spec.runRows (frames.flatMap (·.rows)) = (st, stmts.map (fun t => Event.stmt (t.map Term.norm)), none) := by
  have hw := (run_wfr cls o s stmts hs hp (logical_lt _ hl) hd).1.1
  have hspec : (streamFrames s (.gen stmts)).err = none ∧
      ∃ st, Spec.runRows (streamFrames s (.gen stmts)).allRows'
        = (st, stmts.map (fun t => Event.stmt (t.map Term.norm)), none) := by
    cases cls with
    | triple => exact C03_triples o s stmts hs hl (fun t ht => by simpa using hwf t ht) hfit
    | quad => exact C03_quads o s stmts hs hl (fun t ht => by simpa using hwf t ht) hfit
    | graph => exact C03_graphs o s stmts hs hl (fun t ht => by simpa using hwf t ht) hfit
  obtain ⟨herr, st, hst⟩ := hspec
  have hflow := C06_nothing_left_in_flow s (.gen stmts) herr
  refine ⟨(streamFrames s (.gen stmts)).frames, st, ?_, ?_⟩
  · rw [runBytes_true]
    exact wire_delimited_roundtrip _ (fun f hf => (hw f hf).1) (fun f hf => (hw f hf).2) hsmall.1
  · rw [← hst]
    simp [Run.allRows', hflow]

end Jelly

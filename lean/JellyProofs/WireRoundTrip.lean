import JellyModel.Wire
import JellyModel.WireDecode
import JellyModel.Parse
import JellyProofs.Lemmas.WireInverse
/-!
# The wire layer: what `Wire.lean` serializes, `WireDecode.lean` parses back unchanged

This is result (D) of the design: it lifts the row-level theorems (C03, C04, C07) to bytes, for the
canonical encodings the writer produces. Property theorems only; helper lemmas live in
`JellyProofs/Lemmas/*.lean`.
-/
namespace Jelly

def U32 : Nat := 2 ^ 32

/-- Nesting depth of quoted triples. -/
def WTerm.depth : WTerm → Nat
  | .triple s p o => 1 + max (optDepth s) (max (optDepth p) (optDepth o))
  | _ => 0
where optDepth : Option WTerm → Nat
  | some t => t.depth
  | none => 0

mutual
  /-- A term that can sit in subject/predicate/object position on the wire: ids are uint32, no
      default-graph marker, quoted triples made of such terms. -/
  def WTerm.wfSpo : WTerm → Bool
    | .iri p n => p < U32 && n < U32
    | .bnode _ => true
    | .literal _ .plain => true
    | .literal _ (.lang _) => true
    | .literal _ (.dt id) => id < U32
    | .triple s p o => WTerm.wfOptSpo s && WTerm.wfOptSpo p && WTerm.wfOptSpo o
    | .defaultGraph => false
  def WTerm.wfOptSpo : Option WTerm → Bool
    | none => true
    | some t => t.wfSpo
end

/-- A term in graph position. -/
def WTerm.wfGraph : WTerm → Bool
  | .triple _ _ _ => false
  | .defaultGraph => true
  | t => t.wfSpo

def optWfGraph : Option WTerm → Bool
  | none => true
  | some t => t.wfGraph

def Options.wf (o : Options) : Bool :=
  o.physicalType < U32 && o.maxNames < U32 && o.maxPrefixes < U32 && o.maxDatatypes < U32 &&
  o.logicalType < U32 && o.version < U32

/-- Rows the wire format can carry faithfully (everything the writer model produces satisfies it as
    long as ids stay below 2³² and quoted triples nest fewer than `depthLimit - 2` deep). -/
def Row.wireWF : Row → Bool
  | .options o => o.wf
  | .triple s p o =>
    WTerm.wfOptSpo s && WTerm.wfOptSpo p && WTerm.wfOptSpo o &&
    WTerm.depth.optDepth s + 2 < depthLimit && WTerm.depth.optDepth p + 2 < depthLimit && WTerm.depth.optDepth o + 2 < depthLimit
  | .quad s p o g =>
    WTerm.wfOptSpo s && WTerm.wfOptSpo p && WTerm.wfOptSpo o && optWfGraph g &&
    WTerm.depth.optDepth s + 2 < depthLimit && WTerm.depth.optDepth p + 2 < depthLimit && WTerm.depth.optDepth o + 2 < depthLimit
  | .graphStart g => optWfGraph g
  | .graphEnd => true
  | .namespace _ iri => (match iri with | some (p, n) => p < U32 && n < U32 | none => true)
  | .nameEntry id _ => id < U32
  | .prefixEntry id _ => id < U32
  | .dtEntry id _ => id < U32
  | .empty => true

/-! ### Bridging the Boolean well-formedness checks above to the predicates of `Lemmas/WireInverse.lean` -/

mutual
  theorem spoOk_of_wf : ∀ (t : WTerm) (d : Nat), t.wfSpo = true → t.depth ≤ d → SpoOk d t
    | .iri p n, d, h, _ => by
      simp only [WTerm.wfSpo, Bool.and_eq_true, decide_eq_true_eq] at h
      exact .iri d p n h.1 h.2
    | .bnode s, d, _, _ => .bnode d s
    | .literal lex .plain, d, _, _ => .literal d lex _ trivial
    | .literal lex (.lang _), d, _, _ => .literal d lex _ trivial
    | .literal lex (.dt id), d, h, _ => by
      simp only [WTerm.wfSpo, decide_eq_true_eq] at h
      exact .literal d lex _ h
    | .triple s p o, d, h, hd => by
      simp only [WTerm.wfSpo, Bool.and_eq_true] at h
      simp only [WTerm.depth] at hd
      obtain ⟨d', rfl⟩ : ∃ d', d = d' + 1 := ⟨d - 1, by omega⟩
      exact .triple d' s p o (optOk_of_wf s d' h.1.1 (by omega)) (optOk_of_wf p d' h.1.2 (by omega))
        (optOk_of_wf o d' h.2 (by omega))
    | .defaultGraph, _, h, _ => by simp [WTerm.wfSpo] at h
  theorem optOk_of_wf : ∀ (o : Option WTerm) (d : Nat), WTerm.wfOptSpo o = true →
      WTerm.depth.optDepth o ≤ d → OptOk d o
    | none, _, _, _ => by intro t ht; cases ht
    | some t, d, h, hd => by
      intro t' ht'
      cases ht'
      exact spoOk_of_wf t d (by simpa [WTerm.wfOptSpo] using h) (by simpa [WTerm.depth.optDepth] using hd)
end

theorem optGraphOk_of_wf (g : Option WTerm) (h : optWfGraph g = true) : OptGraphOk g := by
  cases g with
  | none => trivial
  | some t =>
    cases t with
    | iri p n =>
      simp only [optWfGraph, WTerm.wfGraph, WTerm.wfSpo, Bool.and_eq_true, decide_eq_true_eq] at h
      exact h
    | bnode s => trivial
    | defaultGraph => trivial
    | literal lex k =>
      cases k with
      | plain => trivial
      | lang l => trivial
      | dt id =>
        simp only [optWfGraph, WTerm.wfGraph, WTerm.wfSpo, decide_eq_true_eq] at h
        exact h
    | triple s p o => simp [optWfGraph, WTerm.wfGraph] at h

theorem rowOk_of_wireWF (r : Row) (h : r.wireWF = true) : r.Ok := by
  cases r with
  | options o =>
    simp only [Row.wireWF, Options.wf, Bool.and_eq_true, decide_eq_true_eq] at h
    exact ⟨h.1.1.1.1.1, h.1.1.1.1.2, h.1.1.1.2, h.1.1.2, h.1.2, h.2⟩
  | triple s p o =>
    simp only [Row.wireWF, Bool.and_eq_true, decide_eq_true_eq] at h
    simp only [depthLimit] at h
    exact ⟨optOk_of_wf s 98 h.1.1.1.1.1 (by omega), optOk_of_wf p 98 h.1.1.1.1.2 (by omega),
      optOk_of_wf o 98 h.1.1.1.2 (by omega)⟩
  | quad s p o g =>
    simp only [Row.wireWF, Bool.and_eq_true, decide_eq_true_eq] at h
    simp only [depthLimit] at h
    exact ⟨optOk_of_wf s 98 h.1.1.1.1.1.1 (by omega), optOk_of_wf p 98 h.1.1.1.1.1.2 (by omega),
      optOk_of_wf o 98 h.1.1.1.1.2 (by omega), optGraphOk_of_wf g h.1.1.1.2⟩
  | graphStart g => exact optGraphOk_of_wf g h
  | graphEnd => trivial
  | «namespace» name iri =>
    cases iri with
    | none => trivial
    | some pn =>
      obtain ⟨p, n⟩ := pn
      simp only [Row.wireWF, Bool.and_eq_true, decide_eq_true_eq] at h
      exact h
  | nameEntry id v => exact (of_decide_eq_true h : id < U32)
  | prefixEntry id v => exact (of_decide_eq_true h : id < U32)
  | dtEntry id v => exact (of_decide_eq_true h : id < U32)
  | empty => trivial

/-- Varint round trip (values below 2⁶⁴). -/
theorem wire_varint_roundtrip (n : Nat) (h : n < 2 ^ 64) (rest : Bytes) :
    readVarint (varint n ++ rest) = some (n, rest) :=
  readVarint_varint n h rest

/-- UTF-8 round trip of strings. -/
theorem wire_string_roundtrip (s : String) : decStr (utf8 s) = .ok s :=
  decStr_utf8 s

/-- One row. -/
theorem wire_row_roundtrip (r : Row) (h : r.wireWF = true) (hlen : (encRow r).length < 2 ^ 32) :
    decRow (depthLimit - 1) (encRow r) = .ok r := by
  have hd : depthLimit - 1 = 99 := rfl
  rw [hd]
  exact decRow_enc r (rowOk_of_wireWF r h) (by omega)

/-- One frame (the writer never emits metadata). -/
theorem wire_frame_roundtrip (f : Frame) (h : ∀ r ∈ f.rows, r.wireWF = true) (hm : f.metadata = [])
    (hlen : (encFrame f).length < 2 ^ 32) :
    decFrame (encFrame f) = .ok f :=
  decFrame_enc f (fun r hr => rowOk_of_wireWF r (h r hr)) hm (by omega)

/-- A delimited stream: the frame iterator delivers exactly the frames written, in order, and ends
    cleanly. Frames written by the serializer are never empty (`C06_no_empty_frame`), which is what
    makes `size == 0` unambiguous here; an empty frame round-trips too. -/
theorem wire_delimited_roundtrip (fs : List Frame) (h : ∀ f ∈ fs, ∀ r ∈ f.rows, r.wireWF = true)
    (hm : ∀ f ∈ fs, f.metadata = []) (hlen : ∀ f ∈ fs, (encFrame f).length < 2 ^ 32) :
    restFrames ((fs.flatMap writeDelimited).length + 1) (fs.flatMap writeDelimited) [] = (fs, none) :=
  restFrames_write fs _ (by omega) (fun f hf r hr => rowOk_of_wireWF r (h f hf r hr)) hm
    (fun f hf => by have := hlen f hf; omega)

/-- A non-delimited stream: `write_single` frames concatenated parse as ONE frame holding all the
    rows (protobuf merge semantics of a repeated field) — which is why several frames written with
    `write_single` still read back completely. -/
theorem wire_single_concat (fs : List Frame) (h : ∀ f ∈ fs, ∀ r ∈ f.rows, r.wireWF = true)
    (hm : ∀ f ∈ fs, f.metadata = []) (hlen : (fs.flatMap writeSingle).length < 2 ^ 32) :
    decFrame (fs.flatMap writeSingle) = .ok { rows := fs.flatMap (·.rows) } :=
  decFrame_single_concat fs (fun f hf r hr => rowOk_of_wireWF r (h f hf r hr)) hm (by omega)

end Jelly

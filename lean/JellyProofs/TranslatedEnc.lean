import JellyGenerated.EncGen
import JellyProofs.Translated
import JellyProofs.TranslatedFuncs
/-!
# The TRANSLATED row bracket of the term encoder equals the model

`JellyGenerated/EncGen.lean` is produced from `TermEncoder.start_row` / `TermEncoder.end_row` (`pyjelly/serialize/encode.py`) by
`harness/gen_translate_enc.py` on every run. These two methods are the protocol behind C18 (the entries a row uses are pinned
from `start_row` on) and C20 (a row abandoned after it had used the tables makes the next `start_row` refuse).
-/
set_option linter.unusedSimpArgs false
namespace Jelly.Translated
open Jelly Jelly.Py

theorem setTruthy_hasPins (e : LookupEnc) : setTruthy e.lookup.pinned = e.hasPins := by
  unfold setTruthy LookupEnc.hasPins
  rcases e.lookup.pinned with _ | ⟨_ | _⟩ <;> rfl

/-- `start_row`: refuses with JellyConformanceError exactly on a broken encoder (leaving it as it was), otherwise opens the row
    and starts pinning in all three tables. -/
theorem start_row_eq (te : TermEnc) :
    Gen.TermEncoder.start_row.exec te
      = match te.beginRow with
        | .ok te' => (.ok (), te')
        | .error e => (.error e, te) := by
  unfold Gen.TermEncoder.start_row TermEnc.beginRow TermEnc.broken
  simp only [setTruthy_hasPins]
  by_cases hb : (te.rowOpen && (te.names.hasPins || te.prefixes.hasPins || te.datatypes.hasPins)) = true
  · py_simp [hb]
  · py_simp [hb, TermEnc.startRow, LookupEnc.startRow]

/-- `end_row`: closes the row and stops tracking in all three tables; never raises. -/
theorem end_row_eq (te : TermEnc) : Gen.TermEncoder.end_row.exec te = (.ok (), te.endRow) := by
  unfold Gen.TermEncoder.end_row TermEnc.endRow
  py_simp [LookupEnc.unpin]


/-- `encode_iri_indices`: the entry rows an IRI needs and its (prefix id, name id) pair, with the encoder left — also when a
    table refuses — exactly as the model leaves it. Side condition as for `insert`: a full table is not empty. -/
theorem encode_iri_indices_eq (te : TermEnc) (iri : String)
    (hp : te.prefixes.lookup.evicting = true → te.prefixes.lookup.data ≠ [])
    (hn : te.names.lookup.evicting = true → te.names.lookup.data ≠ []) :
    swap ((Gen.TermEncoder.encode_iri_indices iri).exec te) = te.iriIndices iri := by
  unfold Gen.TermEncoder.encode_iri_indices TermEnc.iriIndices
  simp only [split_iri_eq]
  generalize hsp : splitIri iri = sp
  obtain ⟨pfx, nm0⟩ := sp
  by_cases hz : te.prefixes.lookup.maxSize = 0
  · -- prefix table disabled: the whole IRI goes to the name table
    have h2 := entry_index_exec te.names iri hn
    simp only [M.exec, ExceptT.run, StateT.run] at h2
    cases hn1 : te.names.entryIndex iri with
    | error err => rw [hn1] at h2; py_simp [swap, hz, h2, hn1, execLike]
    | ok r2 =>
      obtain ⟨ne, nEntry⟩ := r2
      rw [hn1] at h2
      have h3 := prefix_term_index_exec te.prefixes pfx
      simp only [M.exec, ExceptT.run, StateT.run] at h3
      have hp0 : te.prefixes.prefixTermIndex pfx = .ok (te.prefixes, 0) := by
        unfold LookupEnc.prefixTermIndex; simp [hz]
      rw [hp0] at h3
      have h4 := name_term_index_exec ne iri
      simp only [M.exec, ExceptT.run, StateT.run] at h4
      cases hn2 : ne.nameTermIndex iri with
      | error err => rw [hn2] at h4; cases nEntry <;> py_simp [swap, hz, h2, hn1, h3, hp0, h4, hn2, execLike, optGet]
      | ok r4 =>
        obtain ⟨ne', nIdx⟩ := r4
        rw [hn2] at h4
        cases nEntry <;> py_simp [swap, hz, h2, hn1, h3, hp0, h4, hn2, execLike, optGet]
  · -- prefix table enabled
    have h1 := entry_index_exec te.prefixes pfx hp
    simp only [M.exec, ExceptT.run, StateT.run] at h1
    cases hp1 : te.prefixes.entryIndex pfx with
    | error err => rw [hp1] at h1; py_simp [swap, hz, h1, hp1, execLike]
    | ok r1 =>
      obtain ⟨pe, pEntry⟩ := r1
      rw [hp1] at h1
      have h2 := entry_index_exec te.names nm0 hn
      simp only [M.exec, ExceptT.run, StateT.run] at h2
      cases hn1 : te.names.entryIndex nm0 with
      | error err => rw [hn1] at h2; py_simp [swap, hz, h1, hp1, h2, hn1, execLike]
      | ok r2 =>
        obtain ⟨ne, nEntry⟩ := r2
        rw [hn1] at h2
        have h3 := prefix_term_index_exec pe pfx
        simp only [M.exec, ExceptT.run, StateT.run] at h3
        cases hp2 : pe.prefixTermIndex pfx with
        | error err =>
          rw [hp2] at h3
          cases pEntry <;> cases nEntry <;> py_simp [swap, hz, h1, hp1, h2, hn1, h3, hp2, execLike, optGet]
        | ok r3 =>
          obtain ⟨pe', pIdx⟩ := r3
          rw [hp2] at h3
          have h4 := name_term_index_exec ne nm0
          simp only [M.exec, ExceptT.run, StateT.run] at h4
          cases hn2 : ne.nameTermIndex nm0 with
          | error err =>
            rw [hn2] at h4
            cases pEntry <;> cases nEntry <;> py_simp [swap, hz, h1, hp1, h2, hn1, h3, hp2, h4, hn2, execLike, optGet]
          | ok r4 =>
            obtain ⟨ne', nIdx⟩ := r4
            rw [hn2] at h4
            cases pEntry <;> cases nEntry <;> py_simp [swap, hz, h1, hp1, h2, hn1, h3, hp2, h4, hn2, execLike, optGet]

end Jelly.Translated

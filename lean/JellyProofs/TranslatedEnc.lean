import JellyGenerated.EncGen
import JellyProofs.Translated
/-!
# The TRANSLATED row bracket of the term encoder equals the model

`JellyGenerated/EncGen.lean` is produced from `TermEncoder.start_row` / `TermEncoder.end_row` (`pyjelly/serialize/encode.py`) by
`harness/gen_translate_enc.py` on every run. These two methods are the protocol behind C18 (the entries a row uses are pinned
from `start_row` on) and C20 (a row abandoned after it had used the tables makes the next `start_row` refuse).
-/
set_option linter.unusedSimpArgs false
namespace Jelly.Translated
open Jelly Jelly.Py

theorem setTruthy_hasPins (e : LookupEnc) : setTruthy e.lookup.pinned = e.hasPins := by
  unfold setTruthy LookupEnc.hasPins
  rcases e.lookup.pinned with _ | ⟨_ | _⟩ <;> rfl

/-- `start_row`: refuses with JellyConformanceError exactly on a broken encoder (leaving it as it was), otherwise opens the row
    and starts pinning in all three tables. -/
theorem start_row_eq (te : TermEnc) :
    Gen.TermEncoder.start_row.exec te
      = match te.beginRow with
        | .ok te' => (.ok (), te')
        | .error e => (.error e, te) := by
  unfold Gen.TermEncoder.start_row TermEnc.beginRow TermEnc.broken
  simp only [setTruthy_hasPins]
  by_cases hb : (te.rowOpen && (te.names.hasPins || te.prefixes.hasPins || te.datatypes.hasPins)) = true
  · py_simp [hb]
  · py_simp [hb, TermEnc.startRow, LookupEnc.startRow]

/-- `end_row`: closes the row and stops tracking in all three tables; never raises. -/
theorem end_row_eq (te : TermEnc) : Gen.TermEncoder.end_row.exec te = (.ok (), te.endRow) := by
  unfold Gen.TermEncoder.end_row TermEnc.endRow
  py_simp [LookupEnc.unpin]

end Jelly.Translated

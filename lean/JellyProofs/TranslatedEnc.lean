import JellyGenerated.EncGen
import JellyProofs.Translated
import JellyProofs.TranslatedFuncs
/-!
# The TRANSLATED row bracket of the term encoder equals the model

`JellyGenerated/EncGen.lean` is produced from `TermEncoder.start_row` / `TermEncoder.end_row` (`pyjelly/serialize/encode.py`) by
`harness/gen_translate_enc.py` on every run. These two methods are the protocol behind C18 (the entries a row uses are pinned
from `start_row` on) and C20 (a row abandoned after it had used the tables makes the next `start_row` refuse).
-/
set_option linter.unusedSimpArgs false
namespace Jelly.Translated
open Jelly Jelly.Py

theorem setTruthy_hasPins (e : LookupEnc) : setTruthy e.lookup.pinned = e.hasPins := by
  unfold setTruthy LookupEnc.hasPins
  rcases e.lookup.pinned with _ | ⟨_ | _⟩ <;> rfl

/-- `start_row`: refuses with JellyConformanceError exactly on a broken encoder (leaving it as it was), otherwise opens the row
    and starts pinning in all three tables. -/
theorem start_row_eq (te : TermEnc) :
    Gen.TermEncoder.start_row.exec te
      = match te.beginRow with
        | .ok te' => (.ok (), te')
        | .error e => (.error e, te) := by
  unfold Gen.TermEncoder.start_row TermEnc.beginRow TermEnc.broken
  simp only [setTruthy_hasPins]
  by_cases hb : (te.rowOpen && (te.names.hasPins || te.prefixes.hasPins || te.datatypes.hasPins)) = true
  · py_simp [hb]
  · py_simp [hb, TermEnc.startRow, LookupEnc.startRow]

/-- `end_row`: closes the row and stops tracking in all three tables; never raises. -/
theorem end_row_eq (te : TermEnc) : Gen.TermEncoder.end_row.exec te = (.ok (), te.endRow) := by
  unfold Gen.TermEncoder.end_row TermEnc.endRow
  py_simp [LookupEnc.unpin]


/-- `encode_iri_indices`: the entry rows an IRI needs and its (prefix id, name id) pair, with the encoder left — also when a
    table refuses — exactly as the model leaves it. Side condition as for `insert`: a full table is not empty. -/
theorem encode_iri_indices_eq (te : TermEnc) (iri : String)
    (hp : te.prefixes.lookup.evicting = true → te.prefixes.lookup.data ≠ [])
    (hn : te.names.lookup.evicting = true → te.names.lookup.data ≠ []) :
    swap ((Gen.TermEncoder.encode_iri_indices iri).exec te) = te.iriIndices iri := by
  unfold Gen.TermEncoder.encode_iri_indices TermEnc.iriIndices
  simp only [split_iri_eq]
  generalize hsp : splitIri iri = sp
  obtain ⟨pfx, nm0⟩ := sp
  by_cases hz : te.prefixes.lookup.maxSize = 0
  · -- prefix table disabled: the whole IRI goes to the name table
    have h2 := entry_index_exec te.names iri hn
    simp only [M.exec, ExceptT.run, StateT.run] at h2
    cases hn1 : te.names.entryIndex iri with
    | error err => rw [hn1] at h2; py_simp [swap, hz, h2, hn1, execLike]
    | ok r2 =>
      obtain ⟨ne, nEntry⟩ := r2
      rw [hn1] at h2
      have h3 := prefix_term_index_exec te.prefixes pfx
      simp only [M.exec, ExceptT.run, StateT.run] at h3
      have hp0 : te.prefixes.prefixTermIndex pfx = .ok (te.prefixes, 0) := by
        unfold LookupEnc.prefixTermIndex; simp [hz]
      rw [hp0] at h3
      have h4 := name_term_index_exec ne iri
      simp only [M.exec, ExceptT.run, StateT.run] at h4
      cases hn2 : ne.nameTermIndex iri with
      | error err => rw [hn2] at h4; cases nEntry <;> py_simp [swap, hz, h2, hn1, h3, hp0, h4, hn2, execLike, optGet]
      | ok r4 =>
        obtain ⟨ne', nIdx⟩ := r4
        rw [hn2] at h4
        cases nEntry <;> py_simp [swap, hz, h2, hn1, h3, hp0, h4, hn2, execLike, optGet]
  · -- prefix table enabled
    have h1 := entry_index_exec te.prefixes pfx hp
    simp only [M.exec, ExceptT.run, StateT.run] at h1
    cases hp1 : te.prefixes.entryIndex pfx with
    | error err => rw [hp1] at h1; py_simp [swap, hz, h1, hp1, execLike]
    | ok r1 =>
      obtain ⟨pe, pEntry⟩ := r1
      rw [hp1] at h1
      have h2 := entry_index_exec te.names nm0 hn
      simp only [M.exec, ExceptT.run, StateT.run] at h2
      cases hn1 : te.names.entryIndex nm0 with
      | error err => rw [hn1] at h2; py_simp [swap, hz, h1, hp1, h2, hn1, execLike]
      | ok r2 =>
        obtain ⟨ne, nEntry⟩ := r2
        rw [hn1] at h2
        have h3 := prefix_term_index_exec pe pfx
        simp only [M.exec, ExceptT.run, StateT.run] at h3
        cases hp2 : pe.prefixTermIndex pfx with
        | error err =>
          rw [hp2] at h3
          cases pEntry <;> cases nEntry <;> py_simp [swap, hz, h1, hp1, h2, hn1, h3, hp2, execLike, optGet]
        | ok r3 =>
          obtain ⟨pe', pIdx⟩ := r3
          rw [hp2] at h3
          have h4 := name_term_index_exec ne nm0
          simp only [M.exec, ExceptT.run, StateT.run] at h4
          cases hn2 : ne.nameTermIndex nm0 with
          | error err =>
            rw [hn2] at h4
            cases pEntry <;> cases nEntry <;> py_simp [swap, hz, h1, hp1, h2, hn1, h3, hp2, h4, hn2, execLike, optGet]
          | ok r4 =>
            obtain ⟨ne', nIdx⟩ := r4
            rw [hn2] at h4
            cases pEntry <;> cases nEntry <;> py_simp [swap, hz, h1, hp1, h2, hn1, h3, hp2, h4, hn2, execLike, optGet]


/-- the literal message `encode_literal` fills in, read the way the model reads it: the rows and which member of the
    `langtag`/`datatype` oneof ends up set -/
def litView (r : Except PyErr (List Row × PLit) × TermEnc) : TermEnc × Except PyErr (List Row × WLitKind) :=
  (r.2, r.1.map (fun p => (p.1, p.2.kind)))

/-- `encode_literal`: the datatype entry row, the member of the oneof that is set last, and the encoder afterwards
    (also on the conformance refusal of a disabled datatype table) are the model's `TermEnc.literal`; the lexical
    form is stored as given. -/
theorem encode_literal_eq (te : TermEnc) (lex : String) (lang dt : Option String)
    (hd : te.datatypes.lookup.evicting = true → te.datatypes.lookup.data ≠ []) :
    litView ((Gen.TermEncoder.encode_literal lex lang dt).exec te) = te.literal lang dt
    ∧ ∀ p, ((Gen.TermEncoder.encode_literal lex lang dt).exec te).1 = .ok p → p.2.lex = lex := by
  unfold Gen.TermEncoder.encode_literal TermEnc.literal litView
  cases dt with
  | none =>
    cases lang with
    | none => constructor <;> py_simp [optStrTruthy, optNatTruthy, PLit.kind, Except.map]
    | some l =>
      by_cases hl : l = "" <;> constructor <;>
        py_simp [optStrTruthy, optNatTruthy, PLit.kind, PLit.setLang, Except.map, hl, optGet]
  | some d =>
    by_cases hg : (d != "" && d != XSD_STRING) = true
    · have hg' : (d != "" && some d != some "http://www.w3.org/2001/XMLSchema#string") = true := by
        simpa [XSD_STRING] using hg
      by_cases hz : te.datatypes.lookup.maxSize = 0
      · cases lang <;> constructor <;>
          py_simp [optStrTruthy, optNatTruthy, PLit.kind, Except.map, hg, hg', hz]
      · have h1 := entry_index_exec te.datatypes d hd
        simp only [M.exec, ExceptT.run, StateT.run] at h1
        cases hd1 : te.datatypes.entryIndex d with
        | error err =>
          rw [hd1] at h1
          cases lang <;> constructor <;>
            py_simp [optStrTruthy, optNatTruthy, PLit.kind, Except.map, hg, hg', hz, h1, hd1, execLike, optGet]
        | ok r1 =>
          obtain ⟨de, dEntry⟩ := r1
          rw [hd1] at h1
          have h2 := datatype_term_index_exec de d
          simp only [M.exec, ExceptT.run, StateT.run] at h2
          cases hd2 : de.datatypeTermIndex d with
          | error err =>
            rw [hd2] at h2
            cases lang <;> cases dEntry <;> constructor <;>
              py_simp [optStrTruthy, optNatTruthy, PLit.kind, Except.map, hg, hg', hz, h1, hd1, h2, hd2, execLike, optGet]
          | ok r2 =>
            obtain ⟨de', id⟩ := r2
            rw [hd2] at h2
            by_cases hi : id = 0
            · cases lang with
              | none =>
                cases dEntry <;> constructor <;>
                  py_simp [optStrTruthy, optNatTruthy, PLit.kind, Except.map, hg, hg', hz, h1, hd1, h2, hd2, execLike, optGet, hi]
              | some l =>
                by_cases hl : l = "" <;> cases dEntry <;> constructor <;>
                  py_simp [optStrTruthy, optNatTruthy, PLit.kind, PLit.setLang, Except.map, hg, hg', hz, h1, hd1, h2, hd2, execLike, optGet, hi, hl]
            · cases lang with
              | none =>
                cases dEntry <;> constructor <;>
                  py_simp [optStrTruthy, optNatTruthy, PLit.kind, PLit.setDt, Except.map, hg, hg', hz, h1, hd1, h2, hd2, execLike, optGet, hi]
              | some l =>
                by_cases hl : l = "" <;> cases dEntry <;> constructor <;>
                  py_simp [optStrTruthy, optNatTruthy, PLit.kind, PLit.setLang, PLit.setDt, Except.map, hg, hg', hz, h1, hd1, h2, hd2, execLike, optGet, hi, hl]
    · have hg' : (d != "" && some d != some "http://www.w3.org/2001/XMLSchema#string") = false := by
        simpa [XSD_STRING] using hg
      have hg2 : (d != "" && d != XSD_STRING) = false := by simpa using hg
      cases lang with
      | none => constructor <;> py_simp [optStrTruthy, optNatTruthy, PLit.kind, Except.map, hg2, hg']
      | some l =>
        by_cases hl : l = "" <;> constructor <;>
          py_simp [optStrTruthy, optNatTruthy, PLit.kind, PLit.setLang, Except.map, hl, optGet, hg2, hg']

end Jelly.Translated

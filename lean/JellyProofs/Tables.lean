import JellyModel
import JellyGenerated.Tables
/-!
# The tables regenerated from the live code equal the model's (kernel-checked on every run)

Outcome encoding: ok → `0 :: payload`, exception → `[1, code]`.
-/
namespace Jelly
open Jelly.Generated

def errCode : PyErr → Nat
  | .conformance => 1 | .jassertion => 2 | .notImplemented => 3 | .typeError => 4 | .indexError => 5
  | .keyError => 6 | .valueError => 7 | .assertionError => 8 | _ => 99

def kindCode : FlowKind → Nat
  | .manual => 0 | .bounded => 1 | .flatTriples => 2 | .flatQuads => 3 | .graphs => 4 | .datasets => 5

def kindOfCode : Nat → FlowKind
  | 0 => .manual | 1 => .bounded | 2 => .flatTriples | 3 => .flatQuads | 4 => .graphs | _ => .datasets

def outcomeOf {α} (f : α → List Nat) : Except PyErr α → List Nat
  | .ok a => 0 :: f a
  | .error e => [1, errCode e]

def logicalDomain : List Nat := [0, 1, 2, 3, 4, 13, 14, 114]
def classOfCode : Nat → StreamClass
  | 0 => .triple | 1 => .quad | _ => .graph

theorem tables_constants :
    implConstants = [MIN_NAME_LOOKUP_SIZE, MAX_LOOKUP_SIZE, 1, 2, ({} : Preset).maxNames, ({} : Preset).maxPrefixes,
                     ({} : Preset).maxDatatypes, DEFAULT_FRAME_SIZE] := by decide

theorem tables_string_datatype : implStringDatatype = XSD_STRING := by decide

theorem tables_enums :
    implPhysicalValues = (List.range 200).filter validPhysical ∧
    implLogicalValues = (List.range 200).filter validLogical := by decide

/-- `validate_type_compatibility` on the whole 4 × 8 table (writer side `typesCompatible` and reader
    side `validateTypes` both agree with the code). -/
theorem tables_type_compat :
    implTypeCompat =
      ((List.range 4).flatMap fun p => logicalDomain.map fun l =>
        [p, l] ++ outcomeOf (fun _ => []) (validateTypes p l)) ∧
    implTypeCompat.map (fun row => [row[0]!, row[1]!, row[2]!]) =
      ((List.range 4).flatMap fun p => logicalDomain.map fun l =>
        [p, l, if typesCompatible p l then 0 else 1]) := by decide

theorem tables_flat : implFlat = logicalDomain.map fun l => [l, if logicalFlat l then 1 else 0] := by decide

theorem tables_flow_for_type :
    implFlowForType = (logicalDomain.filter (· != 0)).map fun l =>
      [l] ++ outcomeOf (fun k => [kindCode k]) (flowForType l) := by decide

/-- `Stream.__init__` (flow inference + type validation) over class × logical type × delimited ×
    frame size ∈ {0, 1, 7}. -/
theorem tables_stream_new :
    implStreamNew =
      ((List.range 3).flatMap fun c => logicalDomain.flatMap fun l => [true, false].flatMap fun d =>
        [0, 1, 7].map fun fs =>
          [c, l, if d then 1 else 0, fs] ++
          outcomeOf (fun (s : Stream) =>
              [kindCode s.flow.kind, s.flow.logicalType,
               if s.flow.kind.isBounded then s.flow.frameSize else 0, s.logicalType, s.cls.physical])
            (Stream.new (classOfCode c) { logicalType := l, frameSize := fs, params := { delimited := d } })) := by
  decide

/-- Explicit flow objects: `logical_type or cls.logical_type`, `frame_size or DEFAULT_FRAME_SIZE`. -/
theorem tables_flow_mk :
    implFlowMk =
      ((List.range 6).flatMap fun k => [0, 1, 3, 14].flatMap fun l => [0, 5].map fun fs =>
        let f := Flow.mk' (kindOfCode k) l fs
        [k, l, fs, 0, f.logicalType, if f.kind.isBounded then f.frameSize else 0]) := by decide

theorem tables_params_version :
    implParamsVersion =
      ([0, 1, 2, 3, 7].flatMap fun v => [false, true].map fun nd =>
        [v, if nd then 1 else 0, ({ namespaceDeclarations := nd } : Params).version]) := by decide

theorem tables_preset_accept :
    implPresetAccept = [0, 1, 7, 8, 9, 4096, 4097].map fun n =>
      [n, if ({ maxNames := n } : Preset).valid then 0 else 1] := by decide

def hintReps : List Nat := [0x00, 0x01, 0x09, 0x0A, 0x0B, 0x12, 0x7A, 0x7F, 0x80, 0x8A, 0xFF]

theorem tables_hint3 :
    implHint3 = (hintReps.flatMap fun a => hintReps.flatMap fun b => hintReps.map fun c =>
      [a, b, c, if delimitedHint [a.toUInt8, b.toUInt8, c.toUInt8] then 1 else 0]) := by decide +kernel

theorem tables_hint_short :
    implHintShort.map (fun x => (x.1, if delimitedHint (x.1.map Nat.toUInt8) then 1 else 0)) = implHintShort := by
  decide +kernel

end Jelly

import JellyModel.SerGeneric
import JellyModel.Trace
import JellyProofs.Lemmas.SerRows
import JellyProofs.Lemmas.SerTrace
/-!
# C06 — no accepted serializer configuration silently drops statements
# C11 — bounded buffering on write (trace level)
# C12 — streams are isolated (model level)

Property theorems only. Helper lemmas live in `JellyProofs/Lemmas/*.lean`.
-/
namespace Jelly

/-- All rows of a run: those handed out in frames, in order, followed by those still in the flow. -/
def Run.allRows (r : Run) : List Row := r.frames.flatMap (·.rows) ++ r.stream.flow.rows

/-- C06 (a). For EVERY stream (any class, any logical type, delimited or not, any inferred or
    explicitly passed flow, any frame size) and every input: if `stream_frames` returns normally,
    nothing is left behind in the flow. -/
theorem C06_nothing_left_in_flow (s : Stream) (d : SerData) (h : (streamFrames s d).err = none) :
    (streamFrames s d).stream.flow.rows = [] :=
  streamFrames_flow_rows s d h

/-- The same stream with another flow object (same logical type, so the header is the same). -/
def Stream.withFlow (s : Stream) (kind : FlowKind) (frameSize : Nat) : Stream :=
  { s with flow := { s.flow with kind := kind, frameSize := frameSize } }

/-- C06 (b) / C07 (d). The frame flow only decides where the row sequence is cut: for any two flow
    classes and frame sizes, the rows written (frames concatenated, plus whatever a failed run left
    in the flow) are the same sequence, the encoder state is the same and the outcome is the same. So
    every row produced for a statement reaches the output, in order, under every configuration. -/
theorem C06_rows_independent_of_flow (s : Stream) (d : SerData) (k₁ k₂ : FlowKind) (n₁ n₂ : Nat) :
    (streamFrames (s.withFlow k₁ n₁) d).allRows = (streamFrames (s.withFlow k₂ n₂) d).allRows ∧
    (streamFrames (s.withFlow k₁ n₁) d).stream.enc = (streamFrames (s.withFlow k₂ n₂) d).stream.enc ∧
    (streamFrames (s.withFlow k₁ n₁) d).err = (streamFrames (s.withFlow k₂ n₂) d).err := by
  have h : RunSim (streamFrames (s.withFlow k₁ n₁) d) (streamFrames (s.withFlow k₂ n₂) d) :=
    streamFrames_runSim (s₁ := s.withFlow k₁ n₁) (s₂ := s.withFlow k₂ n₂) ⟨rfl, rfl, rfl, rfl, rfl⟩ rfl d
  exact ⟨h.1.2, h.1.1.2.2.1, h.2⟩

/-- C06 (c). No frame handed out is empty. -/
theorem C06_no_empty_frame (s : Stream) (d : SerData) :
    ∀ f ∈ (streamFrames s d).frames, f.rows ≠ [] :=
  streamFrames_frames_ne_nil s d

/-! ## C11 write side -/

-- `pullsOf`, `yieldsOf` (and `oneYieldBetweenPulls` below) were moved unchanged to
-- `JellyProofs/Lemmas/SerTrace.lean`, where the helper lemmas about them live.

/-- The trace functions describe the same run as the untraced model: same frames (by size), same
    final stream, same outcome. -/
theorem C11_trace_faithful (s : Stream) (stmts : List (List Term)) :
    yieldsOf (streamTrace s stmts).1 = (streamFrames s (.gen stmts)).frames.map (·.rows.length) ∧
    (streamTrace s stmts).2.2 = (streamFrames s (.gen stmts)).err :=
  ⟨(streamTrace_faithful s stmts).1, (streamTrace_faithful s stmts).2.2⟩

/-- (i) Flat delimited serialization with a bounded flow: from the second statement on, whenever
    the serializer asks its input for the next statement, fewer than `frame_size` rows are pending. -/
theorem C11_pending_below_frame_size (s : Stream) (stmts : List (List Term))
    (hb : s.flow.kind.isBounded = true) (hc : s.cls ≠ .graph) (hfs : 0 < s.flow.frameSize) :
    ∀ ip ∈ pullsOf (streamTrace s stmts).1, 2 ≤ ip.1 → ip.2 < s.flow.frameSize := by
  rw [streamTrace_eq, traceWith_pulls]
  have hk := s.enroll_keeps
  have key : ∀ step, GoodStep step →
      ∀ ip ∈ pullsOf (stmtLoopTrace step s.enroll 1 stmts).1, 2 ≤ ip.1 → ip.2 < s.flow.frameSize := by
    intro step hs
    have := stmtLoopTrace_pending hs stmts s.enroll 1 (by rw [hk.kind]; exact hb)
      (by rw [hk.frameSize]; exact hfs) (by omega)
    rwa [hk.frameSize] at this
  cases hcls : s.cls with
  | triple => exact key _ (Stream.triple_good _)
  | quad => exact key _ (Stream.quad_good _)
  | graph => exact absurd hcls hc

/-- (ii)+(iii), see `oneYieldBetweenPulls` in `JellyProofs/Lemmas/SerTrace.lean`. -/
theorem C11_no_lookahead (s : Stream) (stmts : List (List Term)) (hc : s.cls ≠ .graph)
    (hok : (streamTrace s stmts).2.2 = none) :
    (pullsOf (streamTrace s stmts).1).map (·.1) = List.range' 1 (stmts.length + 1) ∧
    -- everything before the last pull (the one answered by end-of-input) has at most one yield per pull
    ∃ body p tail, (streamTrace s stmts).1 = body ++ .pull (stmts.length + 1) p :: tail ∧
      oneYieldBetweenPulls body = true ∧ pullsOf tail = [] := by
  rw [streamTrace_eq] at hok ⊢
  rw [traceWith_err] at hok
  rw [traceWith_pulls, traceWith_eq, hok]
  have key : ∀ step b, (stmtLoopTrace step s.enroll 1 stmts).2.2 = none →
      (pullsOf (stmtLoopTrace step s.enroll 1 stmts).1).map (·.1) = List.range' 1 (stmts.length + 1) ∧
      ∃ body p tail,
        (stmtLoopTrace step s.enroll 1 stmts).1 ++
            (epilogue { stream := (stmtLoopTrace step s.enroll 1 stmts).2.1 } b).frames.map
              (fun f => TraceEv.yield f.rows.length)
          = body ++ .pull (stmts.length + 1) p :: tail ∧
        oneYieldBetweenPulls body = true ∧ pullsOf tail = [] := by
    intro step b hstep
    obtain ⟨h1, body, p, h2, h3⟩ := stmtLoopTrace_structure step stmts s.enroll 1 hstep
    refine ⟨h1, body, p, _, ?_, h3.oneYield, pullsOf_map_yield
      (epilogue { stream := (stmtLoopTrace step s.enroll 1 stmts).2.1 } b).frames⟩
    rw [h2, Nat.add_comm 1, List.append_assoc]
    rfl
  cases hcls : s.cls with
  | triple => rw [hcls] at hok; exact key _ _ hok
  | quad => rw [hcls] at hok; exact key _ _ hok
  | graph => exact absurd hcls hc

/-! ## C12: isolation in the model -/

/-- Two independent state machines advanced in any interleaving reach the states and produce the
    outputs they would have produced alone. (`sched` says whose turn it is.) -/
def runInterleaved {σ₁ σ₂ ι₁ ι₂ ω₁ ω₂ : Type} (f₁ : σ₁ → ι₁ → σ₁ × ω₁) (f₂ : σ₂ → ι₂ → σ₂ × ω₂) :
    List Bool → σ₁ × List ι₁ × List ω₁ → σ₂ × List ι₂ × List ω₂ → (σ₁ × List ω₁) × (σ₂ × List ω₂)
  | [], (s₁, _, o₁), (s₂, _, o₂) => ((s₁, o₁), (s₂, o₂))
  | true :: sch, (s₁, i :: is, o₁), m₂ =>
    let (s₁', o) := f₁ s₁ i
    runInterleaved f₁ f₂ sch (s₁', is, o₁ ++ [o]) m₂
  | true :: sch, (s₁, [], o₁), m₂ => runInterleaved f₁ f₂ sch (s₁, [], o₁) m₂
  | false :: sch, m₁, (s₂, i :: is, o₂) =>
    let (s₂', o) := f₂ s₂ i
    runInterleaved f₁ f₂ sch m₁ (s₂', is, o₂ ++ [o])
  | false :: sch, m₁, (s₂, [], o₂) => runInterleaved f₁ f₂ sch m₁ (s₂, [], o₂)

def runAlone {σ ι ω : Type} (f : σ → ι → σ × ω) : σ → List ι → List ω → σ × List ω
  | s, [], o => (s, o)
  | s, i :: is, o => let (s', x) := f s i; runAlone f s' is (o ++ [x])

/-- Generalisation of `C12_isolation` to machines in the middle of their run. -/
theorem runInterleaved_eq_runAlone {σ₁ σ₂ ι₁ ι₂ ω₁ ω₂ : Type} (f₁ : σ₁ → ι₁ → σ₁ × ω₁)
    (f₂ : σ₂ → ι₂ → σ₂ × ω₂) (sched : List Bool) (s₁ : σ₁) (s₂ : σ₂) (w₁ : List ι₁) (w₂ : List ι₂)
    (o₁ : List ω₁) (o₂ : List ω₂)
    (h₁ : w₁.length ≤ sched.count true) (h₂ : w₂.length ≤ sched.count false) :
    runInterleaved f₁ f₂ sched (s₁, w₁, o₁) (s₂, w₂, o₂) = (runAlone f₁ s₁ w₁ o₁, runAlone f₂ s₂ w₂ o₂) := by
  induction sched generalizing s₁ s₂ w₁ w₂ o₁ o₂ with
  | nil =>
    simp only [List.count_nil, Nat.le_zero_eq, List.length_eq_zero_iff] at h₁ h₂
    subst h₁ h₂
    rfl
  | cons b sch ih =>
    cases b with
    | true =>
      simp only [List.count_cons_self, List.count_cons_of_ne (by decide : true ≠ false)] at h₁ h₂
      cases w₁ with
      | nil =>
        rw [runInterleaved]
        exact ih s₁ s₂ [] w₂ o₁ o₂ (Nat.zero_le _) h₂
      | cons i is =>
        rw [runInterleaved, runAlone]
        exact ih _ s₂ is w₂ _ o₂ (by simpa using h₁) h₂
    | false =>
      simp only [List.count_cons_self, List.count_cons_of_ne (by decide : false ≠ true)] at h₁ h₂
      cases w₂ with
      | nil =>
        rw [runInterleaved]
        exact ih s₁ s₂ w₁ [] o₁ o₂ h₁ (Nat.zero_le _)
      | cons i is =>
        rw [runInterleaved, runAlone]
        exact ih s₁ _ w₁ is o₁ _ h₁ (by simpa using h₂)

/-- A schedule is complete for the two workloads if it gives each machine at least as many turns
    as it has inputs. -/
theorem C12_isolation {σ₁ σ₂ ι₁ ι₂ ω₁ ω₂ : Type} (f₁ : σ₁ → ι₁ → σ₁ × ω₁) (f₂ : σ₂ → ι₂ → σ₂ × ω₂)
    (sched : List Bool) (s₁ : σ₁) (s₂ : σ₂) (w₁ : List ι₁) (w₂ : List ι₂)
    (h₁ : w₁.length ≤ sched.count true) (h₂ : w₂.length ≤ sched.count false) :
    runInterleaved f₁ f₂ sched (s₁, w₁, []) (s₂, w₂, []) = (runAlone f₁ s₁ w₁ [], runAlone f₂ s₂ w₂ []) :=
  runInterleaved_eq_runAlone f₁ f₂ sched s₁ s₂ w₁ w₂ [] [] h₁ h₂

end Jelly

import JellyProofs.C20Full
import JellyProofs.Lemmas.CatchGraphSim
/-!
# C20 for GraphStream — `GraphStream.graph()` driven graph by graph with catch-and-continue

Property theorems only; helper lemmas live in `JellyProofs/Lemmas/*.lean`.

A caller writes a dataset graph by graph (`GraphStream.graph(graph_id, triples)`) and carries on after every
exception: an unsupported graph name, a triple that cannot be encoded somewhere inside a graph, a row too big for
the tables. The quads the stream ACCEPTED are: for every graph whose name was encoded, the triples before the first
one that raised (all of them if none raised). What was written — frames handed out plus the flow — is valid for the
reference decoder and denotes exactly those quads, in order. A graph abandoned half-way stays open on the wire
(no graph end row); the next graph start closes it.
-/
namespace Jelly

/-- The triples of a graph that `Stream.graphTriples` takes before it raises (all of them if it does not). -/
def graphTriplesAccepted (exc : PyErr) (s : Stream) : List (List Term) → List (List Term)
  | [] => []
  | t :: ts =>
    match s.triple exc t with
    | (_, .error _) => []
    | (s', .ok _) => t :: graphTriplesAccepted exc s' ts

/-- The quads one `Stream.graph` call writes: none if the graph name itself is refused. -/
def graphAccepted (exc : PyErr) (s : Stream) (g : Term) (triples : List (List Term)) : List (List Term) :=
  match s.enc.te.beginRow with
  | .error _ => []
  | .ok te0 =>
    match te0.graph g with
    | (_, .error _) => []
    | (te', .ok (rows, w)) =>
      let s1 := ({ s with enc := { s.enc with te := te'.endRow } } : Stream).pushRows (rows ++ [Row.graphStart (some w)])
      (graphTriplesAccepted exc s1 triples).map (· ++ [g])

/-- Catch-and-continue over graph calls: frames handed out and the quads accepted. -/
def catchGraphs (exc : PyErr) : Stream → List (Term × List (List Term)) → List Frame → List (List Term) →
    Stream × List Frame × List (List Term)
  | s, [], fr, acc => (s, fr, acc)
  | s, (g, ts) :: rest, fr, acc =>
    let r := s.graph exc g ts
    catchGraphs exc r.1 rest (fr ++ r.2.1) (acc ++ graphAccepted exc s g ts)

/-- `graphTriplesAccepted` is the recursion the lemmas are stated about. -/
theorem graphTriplesAccepted_eq (exc : PyErr) :
    ∀ (ts : List (List Term)) (s : Stream), graphTriplesAccepted exc s ts = Stream.graphTriplesTaken exc s ts := by
  intro ts
  induction ts with
  | nil => intro s; rfl
  | cons t ts ih =>
    intro s
    simp only [graphTriplesAccepted, Stream.graphTriplesTaken]
    rcases s.triple exc t with ⟨s', e | f⟩
    · rfl
    · simp only [ih s']

theorem graphAccepted_eq (exc : PyErr) (s : Stream) (g : Term) (ts : List (List Term)) :
    graphAccepted exc s g ts = s.graphTaken exc g ts := by
  unfold graphAccepted Stream.graphTaken
  cases s.enc.te.beginRow with
  | error e => rfl
  | ok te0 =>
    dsimp only
    rcases te0.graph g with ⟨te', e | ⟨rows, w⟩⟩
    · rfl
    · simp only [graphTriplesAccepted_eq]

/-- The accumulator of accepted quads only grows. -/
theorem catchGraphs_acc_sub (exc : PyErr) :
    ∀ (gs : List (Term × List (List Term))) (s : Stream) (fr : List Frame) (acc : List (List Term)),
      ∀ q ∈ acc, q ∈ (catchGraphs exc s gs fr acc).2.2 := by
  intro gs
  induction gs with
  | nil => intro s fr acc q hq; exact hq
  | cons x xs ih =>
    intro s fr acc q hq
    obtain ⟨g, ts⟩ := x
    simp only [catchGraphs]
    exact ih _ _ _ q (List.mem_append_left _ hq)

/-- The loop invariant of a catch-and-continue run over graphs: the rows written so far (after the prefix
    `pre`) are accepted by the reference decoder from `ss0` and denote the accepted quads, and the writer is
    in step with the decoder — with or without an open graph — or broken (`CatchInv`). -/
theorem catchGraphs_sim {P : Preset} {o : Options} (hv : P.valid = true) (h3 : o.physicalType = 3)
    (exc : PyErr) (pre : List Row) (ss0 : Spec.State) :
    ∀ (gs : List (Term × List (List Term))) (s : Stream) (fr : List Frame) (acc : List (List Term))
      (ss : Spec.State) (rows : List Row),
      rowsOf fr s = pre ++ rows →
      RunsTo ss0 rows ss (acc.map (fun q => Event.stmt (q.map Term.norm))) →
      CatchInv P o s ss →
      (∀ q ∈ (catchGraphs exc s gs fr acc).2.2, quadWF q = true) →
      ∃ ss' rows', rowsOf (catchGraphs exc s gs fr acc).2.1 (catchGraphs exc s gs fr acc).1 = pre ++ rows' ∧
        RunsTo ss0 rows' ss' ((catchGraphs exc s gs fr acc).2.2.map (fun q => Event.stmt (q.map Term.norm))) := by
  intro gs
  induction gs with
  | nil =>
    intro s fr acc ss rows hrows hrun _ _
    exact ⟨ss, rows, hrows, hrun⟩
  | cons x xs ih =>
    intro s fr acc ss rows hrows hrun hJ hacc
    obtain ⟨g, ts⟩ := x
    have hwf : ∀ q ∈ s.graphTaken exc g ts, quadWF q = true := by
      intro q hq
      apply hacc
      simp only [catchGraphs]
      exact catchGraphs_acc_sub exc xs _ _ _ q
        (List.mem_append_right _ (by rw [graphAccepted_eq]; exact hq))
    obtain ⟨s', frames, e, ss1, rows1, hcall, hr1, hrun1, hJ1⟩ := catchStep_graph hv h3 exc s ss g ts hJ hwf
    have hloop : catchGraphs exc s ((g, ts) :: xs) fr acc
        = catchGraphs exc s' xs (fr ++ frames) (acc ++ s.graphTaken exc g ts) := by
      simp only [catchGraphs, hcall, graphAccepted_eq]
    rw [hloop] at hacc ⊢
    refine ih s' (fr ++ frames) (acc ++ s.graphTaken exc g ts) ss1 (rows ++ rows1) ?_ ?_ hJ1 hacc
    · rw [rowsOf_frames hr1, hrows, List.append_assoc]
    · rw [List.map_append]
      exact hrun.trans hrun1

theorem C20_graphs (o : SerOptions) (s : Stream) (gs : List (Term × List (List Term)))
    (hs : Stream.new .graph o = .ok s) (hl : validLogical s.logicalType = true)
    (hacc : ∀ q ∈ (catchGraphs .runtimeError s.enroll gs [] []).2.2, quadWF q = true) :
    ∃ st, Spec.runRows ((catchGraphs .runtimeError s.enroll gs [] []).2.1.flatMap (·.rows)
                         ++ (catchGraphs .runtimeError s.enroll gs [] []).1.flow.rows)
            = (st, (catchGraphs .runtimeError s.enroll gs [] []).2.2.map (fun q => Event.stmt (q.map Term.norm)), none) := by
  obtain ⟨hv, hcls, _⟩ := Stream.new_spec hs
  obtain ⟨henc, hrows0⟩ := enroll_fresh hs
  obtain ⟨ss0, oo, hstep, inv0, ho0, hph, _⟩ := options_step hs hl
  obtain ⟨ss', rows', hr, hrun⟩ := catchGraphs_sim hv (o := oo)
    (by simpa [StreamClass.physical] using hph) .runtimeError
    [s.optionsRow] ss0 gs s.enroll [] [] ss0 [] (by simpa [allRowsOf] using hrows0) (RunsTo.nil ss0)
    (Or.inl ⟨by rw [henc]; exact inv0, ho0⟩) hacc
  refine ⟨ss', ?_⟩
  show Spec.runRows (rowsOf _ _) = _
  rw [hr]
  exact runRows_options hstep hrun

end Jelly

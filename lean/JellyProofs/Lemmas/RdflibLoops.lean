import JellyModel
import JellyProofs.Lemmas.StreamSim
import JellyProofs.Lemmas.SerRows
import JellyProofs.C01Bytes
import JellyProofs.C13
/-!
# The rdflib loops (`SerRdflib.lean`) against the reference decoder
-/
namespace Jelly

theorem termFits_single_of_stmtFits {P : Preset} (hv : P.valid = true) {g : Term}
    (h : stmtFits P [g] = true) : TermFits P [g] :=
  ⟨_, TFits.of_stmtFits hv h, fun _ ht => termKeys_sub_stmtKeys ht⟩

theorem tripleOK_of_wf_fits {P : Preset} (hv : P.valid = true) {t : List Term}
    (hwf : tripleWF t = true) (hfit : stmtFits P t = true) : TripleOK P t := by
  obtain ⟨a, b, c, rfl, ha, hb, hc⟩ := tripleWF_elim hwf
  exact ⟨a, b, c, rfl, ha, hb, hc, _, TFits.of_stmtFits hv hfit, fun _ ht => termKeys_sub_stmtKeys ht⟩

/-- The events one graph of a dataset denotes. -/
def graphEvs (g : Term) (ts : List (List Term)) : List Event :=
  ts.map fun t => Event.stmt ((t ++ [g]).map Term.norm)

theorem graphsLoopR_sim {P : Preset} {o : Options} (hv : P.valid = true) (h3 : o.physicalType = 3) :
    ∀ (gs : List (Term × List (List Term))) (r : Run) (ss : Spec.State),
      r.err = none → Inv P r.stream.enc ss → ss.opts = some o →
      (∀ x ∈ gs, x.1.WFGraph = true ∧ ∀ t ∈ x.2, tripleWF t = true) →
      (∀ x ∈ gs, stmtFits P [x.1] = true ∧ ∀ t ∈ x.2, stmtFits P t = true) →
      ∃ ss' rows, (graphsLoopR r gs).err = none ∧
        allRowsOf (graphsLoopR r gs) = allRowsOf r ++ rows ∧
        RunsTo ss rows ss' (gs.flatMap fun x => graphEvs x.1 x.2) := by
  intro gs
  induction gs with
  | nil =>
    intro r ss herr _ _ _ _
    exact ⟨ss, [], by simpa [graphsLoopR] using herr, by simp [graphsLoopR], by simpa using RunsTo.nil ss⟩
  | cons x rest ih =>
    intro r ss herr inv ho hwf hfit
    obtain ⟨g, ts⟩ := x
    obtain ⟨hg, hts⟩ := hwf (g, ts) List.mem_cons_self
    obtain ⟨hgf, htf⟩ := hfit (g, ts) List.mem_cons_self
    obtain ⟨s', frames, ss1, rows1, g1, g2, g3, g4, _, g6⟩ :=
      Stream.graph_sim h3 .runtimeError r.stream ss g ts inv ho hg (termFits_single_of_stmtFits hv hgf)
        (fun t ht => tripleOK_of_wf_fits hv (hts t ht) (htf t ht))
    obtain ⟨ss', rows, e1, e2, e3⟩ :=
      ih { stream := s', frames := r.frames ++ frames, err := none } ss1 rfl g3 g4
        (fun x hx => hwf x (List.mem_cons_of_mem _ hx)) (fun x hx => hfit x (List.mem_cons_of_mem _ hx))
    have hloop : graphsLoopR r ((g, ts) :: rest)
        = graphsLoopR { stream := s', frames := r.frames ++ frames, err := none } rest := by
      simp [graphsLoopR, g1]
    rw [hloop]
    refine ⟨ss', rows1 ++ rows, e1, ?_, ?_⟩
    · rw [e2]
      simp only [allRowsOf]
      simp only [rowsOf, List.flatMap_append, List.append_assoc] at g2 ⊢
      have g2' := congrArg (· ++ rows) g2
      simp only [List.append_assoc] at g2'
      rw [g2']
    · have := g6.trans e3
      simpa [graphEvs, List.flatMap_cons] using this

theorem triplesGraphsLoop_sim {P : Preset} {o : Options} (hv : P.valid = true) (h1 : o.physicalType = 1) :
    ∀ (graphs : List (List (List Term))) (r : Run) (ss : Spec.State),
      r.err = none → Inv P r.stream.enc ss → ss.opts = some o →
      (∀ g ∈ graphs, ∀ t ∈ g, tripleWF t = true) → (∀ g ∈ graphs, ∀ t ∈ g, stmtFits P t = true) →
      ∃ ss' rows, (triplesGraphsLoop r graphs).err = none ∧
        allRowsOf (triplesGraphsLoop r graphs) = allRowsOf r ++ rows ∧
        RunsTo ss rows ss' (graphs.flatten.map (fun t => Event.stmt (t.map Term.norm))) := by
  intro graphs
  induction graphs with
  | nil =>
    intro r ss herr _ _ _ _
    exact ⟨ss, [], by simpa [triplesGraphsLoop] using herr, by simp [triplesGraphsLoop],
      by simpa using RunsTo.nil ss⟩
  | cons g rest ih =>
    intro r ss herr inv ho hwf hfit
    obtain ⟨ss1, rows1, e1, e2, e3, e4, e5⟩ :=
      stmtLoop_triple_sim hv h1 .runtimeError g r ss herr inv ho
        (hwf g List.mem_cons_self) (hfit g List.mem_cons_self)
    let r1 := stmtLoop (Stream.triple .runtimeError) r g
    let r2 : Run := r1.push { r1.stream with flow := r1.stream.flow.frameFromGraph.1 }
      r1.stream.flow.frameFromGraph.2
    have hr2 : allRowsOf r2 = allRowsOf r1 := by
      have := allRowsOf_push (r := r1)
        (s' := { r1.stream with flow := r1.stream.flow.frameFromGraph.1 })
        (fr := r1.stream.flow.frameFromGraph.2) (rows := [])
        (by simpa using frameFromGraph_rows r1.stream.flow)
      simpa using this
    obtain ⟨ss', rows, f1, f2, f3⟩ :=
      ih r2 ss1 (by simpa [r2, Run.push] using e1) (by simpa [r2, Run.push] using e3) e4
        (fun g hg => hwf g (List.mem_cons_of_mem _ hg)) (fun g hg => hfit g (List.mem_cons_of_mem _ hg))
    have hloop : triplesGraphsLoop r (g :: rest) = triplesGraphsLoop r2 rest := by
      simp only [triplesGraphsLoop, e1, Option.isSome_none, Bool.false_eq_true, if_false]
      rfl
    rw [hloop]
    refine ⟨ss', rows1 ++ rows, f1, ?_, ?_⟩
    · rw [f2, hr2, e2, List.append_assoc]
    · have := e5.trans f3
      simpa [List.flatten_cons] using this

/-! ## The rows of a run only grow (no hypothesis on the statements) -/

/-- `r'` has handed out / holds the rows of `r` followed by more rows. -/
def Run.Ext (r r' : Run) : Prop := ∃ rows, allRowsOf r' = allRowsOf r ++ rows

theorem Run.Ext.refl (r : Run) : Run.Ext r r := ⟨[], by simp⟩

theorem Run.Ext.trans {a b c : Run} (h₁ : Run.Ext a b) (h₂ : Run.Ext b c) : Run.Ext a c := by
  obtain ⟨r₁, e₁⟩ := h₁
  obtain ⟨r₂, e₂⟩ := h₂
  exact ⟨r₁ ++ r₂, by rw [e₂, e₁, List.append_assoc]⟩

theorem Run.Ext.of_frames {r : Run} {s' : Stream} {fs : List Frame} {e : Option PyErr} {rows : List Row}
    (h : fs.flatMap (·.rows) ++ s'.flow.rows = r.stream.flow.rows ++ rows) :
    Run.Ext r { stream := s', frames := r.frames ++ fs, err := e } := by
  refine ⟨rows, ?_⟩
  simp only [allRowsOf, rowsOf, List.flatMap_append, List.append_assoc]
  rw [h]

theorem GoodStep.rows_ext {step : Stream → List Term → Res Stream (Option Frame)} (hs : GoodStep step)
    (s : Stream) (t : List Term) :
    ∃ rows, (resFrames (step s t).2).flatMap (·.rows) ++ (step s t).1.flow.rows = s.flow.rows ++ rows := by
  have h0 : PSim [] s s.flow.rows { s with flow := { s.flow with rows := [] } } :=
    ⟨⟨rfl, rfl, rfl, rfl, rfl⟩, by simp⟩
  have := (hs.psim t h0).1.2
  exact ⟨_, by simpa [List.append_assoc] using this⟩

theorem stmtLoop_ext {step : Stream → List Term → Res Stream (Option Frame)} (hs : GoodStep step)
    (ts : List (List Term)) (r : Run) : Run.Ext r (stmtLoop step r ts) := by
  induction ts generalizing r with
  | nil => exact .refl r
  | cons t ts ih =>
    obtain ⟨rows, h⟩ := hs.rows_ext r.stream t
    rw [stmtLoop_cons]
    generalize step r.stream t = x at h ⊢
    rcases x with ⟨s', e | fr⟩
    · have := Run.Ext.of_frames (r := r) (s' := s') (fs := []) (e := some e) (rows := rows)
        (by simpa using h)
      simpa using this
    · exact (Run.Ext.of_frames (r := r) (s' := s') (fs := fr.toList) (e := r.err) (by simpa using h)).trans
        (ih (r.push s' fr))

theorem Run.graphStep_ext (r : Run) (g : Term) (ts : List (List Term)) : Run.Ext r (r.graphStep g ts) := by
  have h0 : PSim [] r.stream r.stream.flow.rows { r.stream with flow := { r.stream.flow with rows := [] } } :=
    ⟨⟨rfl, rfl, rfl, rfl, rfl⟩, by simp⟩
  have := (h0.graph .runtimeError g ts).1.2
  exact Run.Ext.of_frames (rows := _) (by simpa [List.append_assoc] using this)

theorem graphsLoop_ext (ts : List (List Term)) (r : Run) (cur : Option (Term × List (List Term))) :
    Run.Ext r (graphsLoop r cur ts) := by
  induction ts generalizing r cur with
  | nil =>
    rw [graphsLoop_nil]
    rcases cur with _ | ⟨g, ts⟩
    · exact .refl _
    · exact r.graphStep_ext g ts
  | cons st rest ih =>
    rw [graphsLoop_cons]
    rcases stmtGraph? st with _ | g
    · exact ⟨[], by simp [allRowsOf]⟩
    · rcases cur with _ | ⟨cg, acc⟩
      · exact ih r _
      · dsimp only
        split
        · exact ih r _
        · split
          · exact r.graphStep_ext cg acc
          · exact (r.graphStep_ext cg acc).trans (ih _ _)

theorem classLoop_ext (c : StreamClass) (r : Run) (ts : List (List Term)) : Run.Ext r (classLoop c r ts) := by
  cases c
  · exact stmtLoop_ext (Stream.triple_good _) ts r
  · exact stmtLoop_ext (Stream.quad_good _) ts r
  · exact graphsLoop_ext ts r none

/-- Whatever the statements are (well-formed or not, fitting or not, failing or not): the rows of a
    run on a fresh stream start with the options row. -/
theorem streamFrames_head_any {cls : StreamClass} {o : SerOptions} {s : Stream}
    (hs : Stream.new cls o = .ok s) (stmts : List (List Term)) :
    ∃ rows, allRowsOf (streamFrames s (.gen stmts)) = s.optionsRow :: rows := by
  obtain ⟨_, hrows0⟩ := enroll_fresh hs
  have hl := classLoop_ext s.cls { stream := s.enroll } stmts
  have : Run.Ext { stream := s.enroll } (streamFrames s (.gen stmts)) := by
    rw [streamFrames_eq, framesWith_eq, prologue_gen]
    dsimp only
    split
    · exact hl
    · obtain ⟨rows, h⟩ := hl
      exact ⟨rows, by rw [(allRowsOf_epilogue _ _).1]; exact h⟩
  obtain ⟨rows, h⟩ := this
  exact ⟨rows, by rw [h, hrows0]; rfl⟩

/-! ## Header fidelity at the byte level -/

theorem Term.depth_eq_qdepth' (t : Term) : t.depth = t.qdepth := by
  induction t with
  | quoted s p o a b c => simp [Term.depth, Term.qdepth, a, b, c]
  | _ => rfl

theorem shallowTerms_of_stmtShallow {t : List Term} (h : stmtShallow t = true) : ShallowTerms t := by
  intro x hx
  simp only [stmtShallow, List.all_eq_true, decide_eq_true_eq] at h
  have := h x hx
  rwa [Term.depth_eq_qdepth'] at this

theorem validLogical_lt_u32 (n : Nat) (h : validLogical n = true) : n < 2 ^ 32 := by
  simp only [validLogical, Bool.or_eq_true, decide_eq_true_eq, beq_iff_eq] at h
  omega

theorem presetReadable_bounds {p : Preset} (hp : presetReadable p = true) :
    p.maxNames ≤ MAX_LOOKUP_SIZE ∧ p.maxPrefixes ≤ MAX_LOOKUP_SIZE ∧ p.maxDatatypes ≤ MAX_LOOKUP_SIZE := by
  simp only [presetReadable, Bool.and_eq_true, decide_eq_true_eq] at hp
  exact ⟨hp.1.1, hp.1.2, hp.2⟩

/-- The framing/options stage on the bytes of a list of non-empty, wire-representable frames whose
    first row is `r`: it succeeds, and its options are those of a frame starting with `r`. -/
theorem getOptionsAndFrames_of_frames (fs : List Frame) (o : Options) (rows : List Row) (delimited : Bool)
    (hne : ∀ f ∈ fs, f.rows ≠ [])
    (hhead : fs.flatMap (·.rows) = .options o :: rows)
    (hwf : ∀ f ∈ fs, ∀ r ∈ f.rows, r.wireWF = true)
    (hm : ∀ f ∈ fs, f.metadata = [])
    (hlen : ∀ f ∈ fs, (encFrame f).length < 2 ^ 32)
    (hlen1 : (fs.flatMap writeSingle).length < 2 ^ 32)
    (opts : ParserOptions)
    (ho : optionsFromFrame { rows := .options o :: rows } delimited = .ok opts) :
    ∃ opened, getOptionsAndFrames .seekable
        (fs.flatMap fun f => if delimited then writeDelimited f else writeSingle f) = .ok opened ∧
      opened.opts = opts := by
  obtain ⟨f₀, tail, rs, hfs, hf0, _⟩ := find_first_nonempty hne hhead
  cases delimited with
  | true =>
    subst hfs
    have hne0 : f₀.rows ≠ [] := by rw [hf0]; simp
    have ho' : optionsFromFrame f₀ true = .ok opts := by
      rw [optionsFromFrame_head f₀ { rows := .options o :: rows } true (by simp [hf0])]
      exact ho
    simp only [if_true, List.flatMap_cons]
    have h3 : 3 ≤ (writeDelimited f₀ ++ tail.flatMap writeDelimited).length := by
      have := writeDelimited_length_ge_three f₀ hne0
      simp only [List.length_append]
      omega
    have hhint := C08_hint_delimited f₀ (tail.flatMap writeDelimited) (fun h => absurd h hne0) h3
    have hplp : parseLengthPrefixed (writeDelimited f₀ ++ tail.flatMap writeDelimited)
        = .frame f₀ (tail.flatMap writeDelimited) :=
      parseLengthPrefixed_write f₀ (fun r hr => rowOk_of_wireWF r (hwf f₀ (by simp) r hr))
        (hm f₀ (by simp)) (by have := hlen f₀ (by simp); omega) _
    have hfne : firstNonEmpty ((writeDelimited f₀ ++ tail.flatMap writeDelimited).length + 1)
        (writeDelimited f₀ ++ tail.flatMap writeDelimited) []
        = .ok ([], f₀, tail.flatMap writeDelimited) := by
      simp only [firstNonEmpty, hplp]
      rw [hf0]
      simp
    refine ⟨{ opts := opts, pending := [f₀], rest := tail.flatMap writeDelimited }, ?_, rfl⟩
    unfold getOptionsAndFrames
    simp only [SourceKind.header, hhint, if_true, hfne, ho', List.nil_append]
  | false =>
    simp only [Bool.false_eq_true, if_false]
    have hbytes : fs.flatMap writeSingle = writeSingle { rows := .options o :: rows, metadata := [] } := by
      rw [writeSingle_concat fs hm, hhead, writeSingle, encFrame_eq _ rfl]
    have hhint : delimitedHint ((fs.flatMap writeSingle).take 3) = false := by
      rw [hbytes]
      exact C08_hint_single o rows []
    have hdec := wire_single_concat fs hwf hm hlen1
    rw [hhead] at hdec
    refine ⟨{ opts := opts, pending := [{ rows := .options o :: rows }], rest := [] }, ?_, rfl⟩
    unfold getOptionsAndFrames
    simp only [SourceKind.header, hhint, Bool.false_eq_true, if_false, hdec, ho, List.isEmpty_cons]

end Jelly

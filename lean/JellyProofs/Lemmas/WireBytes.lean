import JellyModel.Wire
/-!
# Byte-level facts about `varint`, `tag`, `lenDelim`
-/
namespace Jelly

theorem varint_lt (n : Nat) (h : n < 128) : varint n = [n.toUInt8] := by
  rw [varint]; simp [h]

theorem varint_ge (n : Nat) (h : ¬ n < 128) :
    varint n = (n % 128 + 128).toUInt8 :: varint (n / 128) := by
  rw [varint]; simp [h]

theorem varint_ne_nil (n : Nat) : varint n ≠ [] := by
  by_cases h : n < 128
  · rw [varint_lt n h]; simp
  · rw [varint_ge n h]; simp

theorem varint_length_pos (n : Nat) : 0 < (varint n).length := by
  have := varint_ne_nil n
  cases h : varint n with
  | nil => exact absurd h this
  | cons _ _ => simp

theorem toUInt8_toNat_lt (n : Nat) (h : n < 256) : n.toUInt8.toNat = n := by
  simp [Nat.toUInt8, UInt8.toNat_ofNat']
  omega

theorem toUInt8_eq_ten_iff (n : Nat) (h : n < 256) : n.toUInt8 = 10 ↔ n = 10 := by
  constructor
  · intro e
    have := congrArg UInt8.toNat e
    rw [toUInt8_toNat_lt n h] at this
    simpa using this
  · intro e; subst e; rfl

/-- `varint n` is a cons whose head is the byte 10 exactly when `n = 10`. -/
theorem varint_cons (n : Nat) : ∃ h t, varint n = h :: t ∧ (h = 10 ↔ n = 10) := by
  by_cases hn : n < 128
  · refine ⟨n.toUInt8, [], varint_lt n hn, toUInt8_eq_ten_iff n (by omega)⟩
  · refine ⟨(n % 128 + 128).toUInt8, varint (n / 128), varint_ge n hn, ?_⟩
    rw [toUInt8_eq_ten_iff _ (by omega)]
    omega

theorem varint_head?_eq_ten_iff (n : Nat) : (varint n).head? = some 0x0A ↔ n = 10 := by
  obtain ⟨h, t, e, hh⟩ := varint_cons n
  rw [e]; simp [hh]

theorem varint_ten : varint 10 = [0x0A] := by
  rw [varint_lt 10 (by omega)]; rfl

theorem varint_zero : varint 0 = [0] := by
  rw [varint_lt 0 (by omega)]; rfl

theorem tag_1_2 : tag 1 2 = [0x0A] := by
  simp only [tag]; exact varint_ten

theorem lenDelim_one (p : Bytes) : lenDelim 1 p = 0x0A :: (varint p.length ++ p) := by
  simp [lenDelim, tag_1_2]

end Jelly

import JellyProofs.Lemmas.AuditStream
/-!
# C19 corollary: with a name table that never has to evict, every name is sent at most once

Writer-side invariant `NOnce`: the values of the name-entry rows emitted so far are (up to order)
exactly the keys resident in the name table, and the table still has room for the IRIs to come.
-/
namespace Jelly

/-- Values of the name-entry rows of a row sequence. -/
def nameVals (rows : List Row) : List String :=
  rows.filterMap fun r => match r with | .nameEntry _ v => some v | _ => none

theorem nameVals_append (a b : List Row) : nameVals (a ++ b) = nameVals a ++ nameVals b := by
  simp [nameVals, List.filterMap_append]

theorem nameVals_prefixEntryRows (oid : Option Nat) (k : String) : nameVals (prefixEntryRows oid k) = [] := by
  cases oid <;> rfl

theorem nameVals_dtEntryRows (oid : Option Nat) (k : String) : nameVals (dtEntryRows oid k) = [] := by
  cases oid <;> rfl

/-- `vals` are the keys resident in the table, which has room for `n` more keys. -/
def TOnce (e : LookupEnc) (vals : List String) (n : Nat) : Prop :=
  vals.Perm (e.lookup.data.map (·.1)) ∧ e.lookup.data.length + n ≤ e.lookup.maxSize

theorem TOnce.mono {e : LookupEnc} {vals : List String} {n m : Nat} (h : TOnce e vals n) (hm : m ≤ n) :
    TOnce e vals m := ⟨h.1, by have := h.2; omega⟩

theorem EntryCase.once {e e' : LookupEnc} {k oid} {vals : List String} {n : Nat}
    (c : EntryCase e k e' oid) (h : TOnce e vals (n + 1)) :
    TOnce e' (vals ++ nameVals (nameEntryRows oid k)) n := by
  cases c with
  | hit i hm he ho =>
    subst he ho
    have hp := Lookup.bump_perm hm
    refine ⟨?_, ?_⟩
    · simp only [nameEntryRows, nameVals, List.filterMap_nil, List.append_nil]
      exact h.1.trans (hp.map _).symm
    · have := hp.length_eq
      have := h.2
      show (e.lookup.bump (k, i)).data.length + n ≤ (e.lookup.bump (k, i)).maxSize
      rw [Lookup.bump_maxSize]
      omega
  | fill hk hlt he ho =>
    subst he ho
    refine ⟨?_, ?_⟩
    · simp only [nameEntryRows, nameVals, List.filterMap_cons, List.filterMap_nil, List.map_append,
        List.map_cons, List.map_nil, Lookup.pin_data]
      exact h.1.append_right _
    · have := h.2
      simp only [Lookup.pin_data, Lookup.pin_maxSize, List.length_append, List.length_cons, List.length_nil]
      omega
  | evict k0 i0 rest hk hd hfull hnp he ho =>
    exfalso
    have := h.2
    omega

theorem useNameOnce {e : LookupEnc} {k : String} (wf : e.lookup.WF) (hpos : 0 < e.lookup.maxSize) :
    e.entryIndex k = .error .conformance ∨
    ∃ e1 oid e2 id, e.entryIndex k = .ok (e1, oid) ∧ e1.nameTermIndex k = .ok (e2, id) ∧
      ∀ vals n, TOnce e vals (n + 1) → TOnce e2 (vals ++ nameVals (nameEntryRows oid k)) n := by
  rcases entryIndex_cases wf hpos k with ⟨e1, oid, heq, c⟩ | hr
  · right
    obtain ⟨wf1, hmax, hlr, i, hi⟩ := c.basic wf hpos
    refine ⟨e1, oid, _, _, heq, nameTermIndex_exact wf1 hi, ?_⟩
    intro vals n h
    have h1 := c.once h
    have hp := Lookup.bump_perm hi
    refine ⟨h1.1.trans (hp.map _).symm, ?_⟩
    have := hp.length_eq
    have := h1.2
    show (e1.lookup.bump (k, i)).data.length + n ≤ (e1.lookup.bump (k, i)).maxSize
    rw [Lookup.bump_maxSize]
    omega
  · exact Or.inl hr.err

/-- The writer-side invariant on the whole term encoder. -/
def NOnce (te : TermEnc) (acc : List Row) (n : Nat) : Prop := TOnce te.names (nameVals acc) n

theorem NOnce.mono {te : TermEnc} {acc : List Row} {n m : Nat} (h : NOnce te acc n) (hm : m ≤ n) :
    NOnce te acc m := TOnce.mono h hm

theorem iriIndices_once {te te' : TermEnc} (inv : WInv te) (iri : String) {rows : List Row} {p n : Nat}
    (h : te.iriIndices iri = (te', .ok (rows, p, n))) {acc : List Row} {m : Nat}
    (ho : NOnce te acc (m + 1)) : NOnce te' (acc ++ rows) m := by
  by_cases hup : te.prefixes.lookup.maxSize = 0
  · rcases useNameOnce (k := iri) inv.wfn inv.posn with herr | ⟨ne1, noid, ne2, nid, hne, hnt, hon⟩
    · rw [iriIndices_err_noprefix hup herr] at h; simp at h
    rw [iriIndices_eq_noprefix hup hne hnt] at h
    simp only [Prod.mk.injEq, Except.ok.injEq] at h
    obtain ⟨rfl, rfl, _, _⟩ := h
    have := hon _ _ ho
    simpa only [NOnce, nameVals_append] using this
  · have hpos : 0 < te.prefixes.lookup.maxSize := Nat.pos_of_ne_zero hup
    rcases usePrefixA (k := (splitIri iri).1) inv.wfp hpos with herr | ⟨pe1, poid, pe2, pid, hpe, hpt, _, _⟩
    · rw [iriIndices_err_prefix1 hup herr] at h; simp at h
    rcases useNameOnce (k := (splitIri iri).2) inv.wfn inv.posn with herr | ⟨ne1, noid, ne2, nid, hne, hnt, hon⟩
    · rw [iriIndices_err_prefix2 hup hpe herr] at h; simp at h
    rw [iriIndices_eq_prefix hup hpe hne hpt hnt] at h
    simp only [Prod.mk.injEq, Except.ok.injEq] at h
    obtain ⟨rfl, rfl, _, _⟩ := h
    have := hon _ _ ho
    simpa only [NOnce, nameVals_append, nameVals_prefixEntryRows, List.nil_append] using this

theorem literal_names {te te' : TermEnc} {lang dt : Option String} {rows : List Row} {kind : WLitKind}
    (inv : WInv te) (h : te.literal lang dt = (te', .ok (rows, kind))) :
    te'.names = te.names ∧ nameVals rows = [] := by
  cases dt with
  | none =>
    simp only [TermEnc.literal, Prod.mk.injEq, Except.ok.injEq] at h
    obtain ⟨rfl, rfl, _⟩ := h
    exact ⟨rfl, rfl⟩
  | some d =>
    by_cases hc : (d != "" && d != XSD_STRING) = true
    · by_cases hm : te.datatypes.lookup.maxSize = 0
      · have hmb : (te.datatypes.lookup.maxSize == 0) = true := by simp [hm]
        simp [TermEnc.literal, hc, hmb] at h
      · have hmb : (te.datatypes.lookup.maxSize == 0) = false := by simpa using hm
        rcases useDatatypeA (k := d) inv.wfd (Nat.pos_of_ne_zero hm) with herr |
          ⟨de1, doid, de2, did, hde, hdt, hdu, hdne⟩
        · simp [TermEnc.literal, hc, hmb, herr] at h
        simp only [TermEnc.literal, hc, if_true, hmb, Bool.false_eq_true, if_false, hde, hdt,
          Prod.mk.injEq, Except.ok.injEq] at h
        obtain ⟨rfl, hrows, _⟩ := h
        refine ⟨rfl, ?_⟩
        rw [← hrows]; cases doid <;> rfl
    · have hc' : (d != "" && d != XSD_STRING) = false := by simpa using hc
      simp only [TermEnc.literal, hc', Bool.false_eq_true, if_false, Prod.mk.injEq, Except.ok.injEq] at h
      obtain ⟨rfl, rfl, _⟩ := h
      exact ⟨rfl, rfl⟩

theorem spo_once : ∀ (t : Term) (te te' : TermEnc) (rows : List Row) (w : WTerm) (acc : List Row) (m : Nat),
    WInv te → te.spo t = (te', .ok (rows, w)) → NOnce te acc (t.iris.length + m) →
    NOnce te' (acc ++ rows) m := by
  intro t
  induction t with
  | iri s =>
    intro te te' rows w acc m inv h ho
    rcases hi : te.iriIndices s with ⟨te1, (e | ⟨r, p, n⟩)⟩
    · simp [TermEnc.spo, hi] at h
    · simp only [TermEnc.spo, hi, Prod.mk.injEq, Except.ok.injEq] at h
      obtain ⟨rfl, rfl, _⟩ := h
      have ho' : NOnce te acc (m + 1) := by
        simpa [Term.iris, Nat.add_comm] using ho
      exact iriIndices_once inv s hi ho'
  | bnode b =>
    intro te te' rows w acc m inv h ho
    simp only [TermEnc.spo, Prod.mk.injEq, Except.ok.injEq] at h
    obtain ⟨rfl, rfl, _⟩ := h
    simpa [Term.iris] using ho
  | lit lex lang dt =>
    intro te te' rows w acc m inv h ho
    rcases hl : te.literal lang dt with ⟨te1, (e | ⟨r, k⟩)⟩
    · simp [TermEnc.spo, hl] at h
    · simp only [TermEnc.spo, hl, Prod.mk.injEq, Except.ok.injEq] at h
      obtain ⟨rfl, rfl, _⟩ := h
      obtain ⟨hn, hv⟩ := literal_names inv hl
      have ho' : NOnce te acc m := by simpa [Term.iris] using ho
      simpa only [NOnce, nameVals_append, hv, List.append_nil, hn] using ho'
  | quoted s p o ihs ihp iho =>
    intro te te' rows w acc m inv h ho
    rcases h1 : te.spo s with ⟨te1, (e | ⟨r1, ws⟩)⟩
    · simp [TermEnc.spo, h1] at h
    rcases h2 : te1.spo p with ⟨te2, (e | ⟨r2, wp⟩)⟩
    · simp [TermEnc.spo, h1, h2] at h
    rcases h3 : te2.spo o with ⟨te3, (e | ⟨r3, wo⟩)⟩
    · simp [TermEnc.spo, h1, h2, h3] at h
    simp only [TermEnc.spo, h1, h2, h3, Prod.mk.injEq, Except.ok.injEq] at h
    obtain ⟨rfl, rfl, _⟩ := h
    have g1 := spo_good s te te1 r1 ws inv h1
    have g2 := spo_good p te1 te2 r2 wp g1.inv h2
    have ho1 : NOnce te acc (s.iris.length + (p.iris.length + (o.iris.length + m))) := by
      simpa [Term.iris, Nat.add_assoc] using ho
    have o1 := ihs te te1 r1 ws acc _ inv h1 ho1
    have o2 := ihp te1 te2 r2 wp _ _ g1.inv h2 o1
    have o3 := iho te2 te3 r3 wo _ _ g2.inv h3 o2
    simpa only [List.append_assoc] using o3
  | defaultGraph => intro te te' rows w _ _ _ h; simp [TermEnc.spo] at h
  | unsupported => intro te te' rows w _ _ _ h; simp [TermEnc.spo] at h

theorem encSlot_once {te te' : TermEnc} {prev rs : Option Term} {t : Term} {rows : List Row}
    {ow : Option WTerm} (inv : WInv te)
    (h : encSlot TermEnc.spo te prev t = (te', rs, .ok (rows, ow))) {acc : List Row} {m : Nat}
    (ho : NOnce te acc (t.iris.length + m)) : NOnce te' (acc ++ rows) m ∧ WInv te' := by
  rcases encSlot_inv h with ⟨_, rfl, rfl, rfl⟩ | ⟨_, w, rfl, he⟩
  · exact ⟨by simpa using ho.mono (Nat.le_add_left _ _), inv⟩
  · exact ⟨spo_once t te te' rows w acc m inv he ho, (spo_good t te te' rows w inv he).inv⟩

theorem encodeTriple_once {exc : PyErr} {es es' : EncState} {s p ob : Term} {rows : List Row}
    (inv : WInv es.te) (h : encodeTriple exc es [s, p, ob] = (es', .ok rows)) {acc : List Row} {m : Nat}
    (ho : NOnce es.te acc (([s, p, ob].flatMap Term.iris).length + m)) :
    NOnce es'.te (acc ++ rows) m := by
  obtain ⟨_, st1, hb, rfl⟩ := encodeTriple_ok_inv h
  clear h
  have h := hb
  rcases h1 : encSlot TermEnc.spo es.te.startRow es.rep.s s with ⟨te1, rs, (e | ⟨r1, ws⟩)⟩
  · simp [encodeTripleBody, h1] at h
  rcases h2 : encSlot TermEnc.spo te1 es.rep.p p with ⟨te2, rp, (e | ⟨r2, wp⟩)⟩
  · simp [encodeTripleBody, h1, h2] at h
  rcases h3 : encSlot TermEnc.spo te2 es.rep.o ob with ⟨te3, ro, (e | ⟨r3, wo⟩)⟩
  · simp [encodeTripleBody, h1, h2, h3] at h
  simp only [encodeTripleBody, h1, h2, h3, Prod.mk.injEq, Except.ok.injEq] at h
  obtain ⟨rfl, rfl⟩ := h
  have ho1 : NOnce es.te acc (s.iris.length + (p.iris.length + (ob.iris.length + m))) := by
    simpa [Nat.add_assoc] using ho
  have ho1' : NOnce es.te.startRow acc (s.iris.length + (p.iris.length + (ob.iris.length + m))) := ho1
  have inv' : WInv es.te.startRow :=
    ⟨inv.wfn.congr rfl rfl rfl, inv.wfp.congr rfl rfl rfl, inv.wfd.congr rfl rfl rfl, inv.posn, inv.p0⟩
  obtain ⟨o1, w1⟩ := encSlot_once inv' h1 ho1'
  obtain ⟨o2, w2⟩ := encSlot_once w1 h2 o1
  obtain ⟨o3, _⟩ := encSlot_once w2 h3 o2
  have : nameVals (acc ++ (r1 ++ r2 ++ r3 ++ [Row.triple ws wp wo])) = nameVals (acc ++ r1 ++ r2 ++ r3) := by
    simp [nameVals]
  show TOnce te3.names (nameVals (acc ++ (r1 ++ r2 ++ r3 ++ [Row.triple ws wp wo]))) m
  rw [this]
  exact o3

theorem stmtLoop_triple_once {P : Preset} {o : Options} (hv : P.valid = true) (h1 : o.physicalType = 1)
    (exc : PyErr) :
    ∀ (stmts : List (List Term)) (r : Run) (ss : Spec.State),
      r.err = none → Inv P r.stream.enc ss → ss.opts = some o →
      (∀ t ∈ stmts, tripleWF t = true) → (∀ t ∈ stmts, stmtFits P t = true) →
      NOnce r.stream.enc.te (allRowsOf r) (stmts.flatMap fun t => t.flatMap Term.iris).length →
      (nameVals (allRowsOf (stmtLoop (Stream.triple exc) r stmts))).Nodup := by
  have hposn : 0 < P.maxNames := by
    have : P.maxNames ≥ 8 := by simpa [Preset.valid, MIN_NAME_LOOKUP_SIZE] using hv
    omega
  intro stmts
  induction stmts with
  | nil =>
    intro r ss _ inv _ _ _ ho
    simp only [stmtLoop]
    exact (ho.1.nodup_iff).mpr inv.wft.wfn.keysNodup
  | cons t ts ih =>
    intro r ss herr inv ho hwf hfit hon
    obtain ⟨s, p, ob, rfl, hs, hp, hob⟩ := tripleWF_elim (hwf t List.mem_cons_self)
    have hf := TFits.of_stmtFits hv (hfit _ List.mem_cons_self)
    obtain ⟨es', rows, ss1, heq, inv1, ho1, _, _⟩ :=
      triple_run1 hf inv ho h1 exc s p ob hs hp hob
        (termKeys_sub_stmtKeys (by simp)) (termKeys_sub_stmtKeys (by simp)) (termKeys_sub_stmtKeys (by simp))
    obtain ⟨s', fr, hstep, henc', hrows⟩ := Stream.triple_ok heq
    have hon' : NOnce r.stream.enc.te (allRowsOf r)
        (([s, p, ob].flatMap Term.iris).length + (ts.flatMap fun t => t.flatMap Term.iris).length) := by
      simpa only [List.flatMap_cons, List.length_append] using hon
    have hon1 := encodeTriple_once (inv.wft.winv hposn) heq hon'
    have inv1' : Inv P (r.push s' fr).stream.enc ss1 := by simpa [Run.push, henc'] using inv1
    have hloop : stmtLoop (Stream.triple exc) r ([s, p, ob] :: ts)
        = stmtLoop (Stream.triple exc) (r.push s' fr) ts := by
      simp only [stmtLoop, hstep]
    rw [hloop]
    apply ih (r.push s' fr) ss1 (by simpa [Run.push] using herr) inv1' ho1
      (fun t ht => hwf t (List.mem_cons_of_mem _ ht)) (fun t ht => hfit t (List.mem_cons_of_mem _ ht))
    rw [allRowsOf_push hrows]
    simpa [Run.push, henc'] using hon1

theorem triples_each_name_once (o : SerOptions) (s : Stream) (stmts : List (List Term))
    (hs : Stream.new .triple o = .ok s) (hl : validLogical s.logicalType = true)
    (hwf : ∀ t ∈ stmts, tripleWF t = true) (hfit : ∀ t ∈ stmts, stmtFits o.preset t = true)
    (hbig : (stmts.flatMap fun t => t.flatMap Term.iris).length ≤ o.preset.maxNames) :
    (nameVals (allRowsOf (streamFrames s (.gen stmts)))).Nodup := by
  obtain ⟨hv, hcls, _, henc0, _⟩ := Stream.new_spec hs
  obtain ⟨henc, hrows0⟩ := enroll_fresh hs
  obtain ⟨ss0, oo, _, inv0, ho0, hph, _⟩ := options_step hs hl
  obtain ⟨_, _, e1, _⟩ :=
    stmtLoop_triple_sim hv (o := oo) (by simpa [StreamClass.physical] using hph) .runtimeError stmts
      { stream := s.enroll } ss0 rfl (by rw [henc]; exact inv0) ho0 hwf hfit
  have hsf : streamFrames s (.gen stmts)
      = epilogue (stmtLoop (Stream.triple .runtimeError) { stream := s.enroll } stmts) false := by
    simp only [streamFrames, hcls, triplesStreamFrames, prologue, SerData.stmts, e1, Option.isSome_none,
      Bool.false_eq_true, if_false]
  obtain ⟨a1, _, _⟩ := allRowsOf_epilogue (stmtLoop (Stream.triple .runtimeError) { stream := s.enroll } stmts) false
  rw [hsf, a1]
  apply stmtLoop_triple_once hv (o := oo) (by simpa [StreamClass.physical] using hph) .runtimeError stmts
    { stream := s.enroll } ss0 rfl (by rw [henc]; exact inv0) ho0 hwf hfit
  show TOnce s.enroll.enc.te.names (nameVals (allRowsOf { stream := s.enroll })) _
  rw [henc, hrows0, henc0]
  refine ⟨?_, ?_⟩
  · simp [nameVals, Stream.optionsRow, TermEnc.new, LookupEnc.new, Lookup.new]
  · simpa [TermEnc.new, LookupEnc.new, Lookup.new] using hbig

end Jelly

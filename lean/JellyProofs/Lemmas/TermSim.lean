import JellyProofs.Lemmas.TableSim
import JellyModel.WF
/-!
# Term-level simulation (C03): `TermEnc.iriIndices`, `TermEnc.literal`, `TermEnc.spo`,
# `TermEnc.graph` against `Spec.resolveTerm`
-/
namespace Jelly

theorem splitIriChars_append (cs : List Char) : (splitIriChars cs).1 ++ (splitIriChars cs).2 = cs := by
  unfold splitIriChars
  split
  · simp
  · split <;> simp

theorem splitIri_append (s : String) : (splitIri s).1 ++ (splitIri s).2 = s := by
  unfold splitIri
  simp only
  rw [← String.ofList_append, splitIriChars_append, String.ofList_toList]

/-! ## Key sets of the three tables -/

structure Keys where
  n : List String := []
  p : List String := []
  d : List String := []

def Keys.sub (a b : Keys) : Prop :=
  (∀ k ∈ a.n, k ∈ b.n) ∧ (∀ k ∈ a.p, k ∈ b.p) ∧ (∀ k ∈ a.d, k ∈ b.d)

theorem Keys.sub.refl (a : Keys) : a.sub a := ⟨fun _ h => h, fun _ h => h, fun _ h => h⟩

theorem Keys.sub.trans {a b c : Keys} (h₁ : a.sub b) (h₂ : b.sub c) : a.sub c :=
  ⟨fun k h => h₂.1 k (h₁.1 k h), fun k h => h₂.2.1 k (h₁.2.1 k h), fun k h => h₂.2.2 k (h₁.2.2 k h)⟩

/-- Name-table key of an IRI (the whole IRI when the prefix table is disabled). -/
def nameKey (up : Bool) (iri : String) : String := if up then (splitIri iri).2 else iri

def prefixKey (iri : String) : String := (splitIri iri).1

/-- The keys a term touches, per table. -/
def termKeys (up : Bool) (t : Term) : Keys :=
  { n := t.iris.map (nameKey up), p := t.iris.map prefixKey, d := t.dts }

/-- The sizing hypothesis in abstract form. -/
structure TFits (P : Preset) (T : Keys) : Prop where
  posn : 0 < P.maxNames
  fitn : Fits T.n P.maxNames
  fitp : 0 < P.maxPrefixes → Fits T.p P.maxPrefixes
  fitd : Fits T.d P.maxDatatypes
  posd : T.d ≠ [] → 0 < P.maxDatatypes

/-- Writer-side invariant inside a statement: well-formed tables of the declared sizes, and the
    keys `R` touched so far are the most recently used ones. -/
structure TInv (P : Preset) (T : Keys) (te : TermEnc) (R : Keys) : Prop where
  wfn : te.names.lookup.WF
  wfp : te.prefixes.lookup.WF
  wfd : te.datatypes.lookup.WF
  maxn : te.names.lookup.maxSize = P.maxNames
  maxp : te.prefixes.lookup.maxSize = P.maxPrefixes
  maxd : te.datatypes.lookup.maxSize = P.maxDatatypes
  recn : Rec te.names.lookup.data R.n
  recp : Rec te.prefixes.lookup.data R.p
  recd : Rec te.datatypes.lookup.data R.d
  pinn : PinOK te.names.lookup R.n
  pinp : PinOK te.prefixes.lookup R.p
  pind : PinOK te.datatypes.lookup R.d
  sub : R.sub T
  p0 : P.maxPrefixes = 0 → te.prefixes.lastReused = 0

def PresT (R : Keys) (te te' : TermEnc) : Prop :=
  Pres R.n te.names.lookup.data te'.names.lookup.data ∧
  Pres R.p te.prefixes.lookup.data te'.prefixes.lookup.data ∧
  Pres R.d te.datatypes.lookup.data te'.datatypes.lookup.data

theorem PresT.refl (R : Keys) (te : TermEnc) : PresT R te te := ⟨Pres.refl _ _, Pres.refl _ _, Pres.refl _ _⟩

theorem PresT.trans {R : Keys} {a b c : TermEnc} (h₁ : PresT R a b) (h₂ : PresT R b c) : PresT R a c :=
  ⟨h₁.1.trans h₂.1, h₁.2.1.trans h₂.2.1, h₁.2.2.trans h₂.2.2⟩

theorem PresT.mono {R R' : Keys} {a b : TermEnc} (h : PresT R' a b) (hs : R.sub R') : PresT R a b :=
  ⟨h.1.mono hs.1, h.2.1.mono hs.2.1, h.2.2.mono hs.2.2⟩

/-- A reader state has the writer's pairs for the keys `R` in all three tables. -/
def AgreeT (R : Keys) (te : TermEnc) (ss : Spec.State) : Prop :=
  AgreeOn R.n te.names.lookup.data ss.names ∧
  AgreeOn R.p te.prefixes.lookup.data ss.prefixes ∧
  AgreeOn R.d te.datatypes.lookup.data ss.datatypes

theorem AgreeT.mono {R R' : Keys} {te te' : TermEnc} {ss : Spec.State} (h : AgreeT R' te' ss)
    (hp : PresT R te te') (hs : R.sub R') : AgreeT R te ss :=
  ⟨h.1.mono hp.1 hs.1, h.2.1.mono hp.2.1 hs.2.1, h.2.2.mono hp.2.2 hs.2.2⟩

/-- The three reader tables mirror the three writer tables (entries only). -/
structure EM (te : TermEnc) (ss : Spec.State) : Prop where
  n : EMirror te.names ss.names
  p : EMirror te.prefixes ss.prefixes
  d : EMirror te.datatypes ss.datatypes

/-- `ss'` differs from `ss` at most in the entries (`data`, `lastAssigned`) of the tables. -/
structure SameFrame (ss ss' : Spec.State) : Prop where
  opts : ss'.opts = ss.opts
  rep : ss'.rep = ss.rep
  graph : ss'.graph = ss.graph
  lrn : ss'.names.lastReused = ss.names.lastReused
  lrp : ss'.prefixes.lastReused = ss.prefixes.lastReused
  lrd : ss'.datatypes.lastReused = ss.datatypes.lastReused

theorem SameFrame.refl (ss : Spec.State) : SameFrame ss ss := ⟨rfl, rfl, rfl, rfl, rfl, rfl⟩

theorem SameFrame.trans {a b c : Spec.State} (h₁ : SameFrame a b) (h₂ : SameFrame b c) : SameFrame a c :=
  ⟨h₂.opts.trans h₁.opts, h₂.rep.trans h₁.rep, h₂.graph.trans h₁.graph, h₂.lrn.trans h₁.lrn,
   h₂.lrp.trans h₁.lrp, h₂.lrd.trans h₁.lrd⟩

/-- The rows are entry rows which the reference decoder accepts, keeping the mirror. -/
def Ingests (te te' : TermEnc) (rows : List Row) : Prop :=
  ∀ ss, EM te ss → ss.opts ≠ none →
    ∃ ss', EM te' ss' ∧ SameFrame ss ss' ∧
      ∀ rest acc i, Spec.run ss (rows ++ rest) acc i = Spec.run ss' rest acc (i + rows.length)

theorem Ingests.refl (te : TermEnc) : Ingests te te [] :=
  fun ss m _ => ⟨ss, m, SameFrame.refl ss, fun _ _ _ => rfl⟩

theorem Ingests.trans {a b c : TermEnc} {r₁ r₂ : List Row} (h₁ : Ingests a b r₁) (h₂ : Ingests b c r₂) :
    Ingests a c (r₁ ++ r₂) := by
  intro ss m ho
  obtain ⟨s1, m1, f1, e1⟩ := h₁ ss m ho
  obtain ⟨s2, m2, f2, e2⟩ := h₂ s1 m1 (by rw [f1.opts]; exact ho)
  refine ⟨s2, m2, f1.trans f2, ?_⟩
  intro rest acc i
  rw [List.append_assoc, e1, e2, List.length_append, Nat.add_assoc]

theorem run_cons_ok {st st' : Spec.State} {r : Row} {ev : Option Event} (h : Spec.step st r = .ok (st', ev))
    (rs : List Row) (acc : List Event) (i : Nat) :
    Spec.run st (r :: rs) acc i = Spec.run st' rs (acc ++ ev.toList) (i + 1) := by
  simp only [Spec.run, h]

def nameEntryRows (oid : Option Nat) (k : String) : List Row :=
  match oid with | some id => [Row.nameEntry id k] | none => []
def prefixEntryRows (oid : Option Nat) (k : String) : List Row :=
  match oid with | some id => [Row.prefixEntry id k] | none => []
def dtEntryRows (oid : Option Nat) (k : String) : List Row :=
  match oid with | some id => [Row.dtEntry id k] | none => []

theorem Ingests.names {te : TermEnc} {e2 : LookupEnc} {oid k}
    (h : ∀ t, EMirror te.names t →
      ∃ t', ingestEntry t oid k = .ok t' ∧ EMirror e2 t' ∧ t'.lastReused = t.lastReused) :
    Ingests te { te with names := e2 } (nameEntryRows oid k) := by
  intro ss m ho
  obtain ⟨t', h1, h2, h3⟩ := h ss.names m.n
  cases oid with
  | none =>
    simp only [ingestEntry, Except.ok.injEq] at h1
    subst h1
    exact ⟨ss, ⟨h2, m.p, m.d⟩, SameFrame.refl ss, fun _ _ _ => rfl⟩
  | some id =>
    simp only [ingestEntry] at h1
    refine ⟨{ ss with names := t' }, ⟨h2, m.p, m.d⟩, ⟨rfl, rfl, rfl, h3, rfl, rfl⟩, ?_⟩
    intro rest acc i
    obtain ⟨o, ho'⟩ := Option.ne_none_iff_exists'.mp ho
    have : Spec.step ss (Row.nameEntry id k) = .ok ({ ss with names := t' }, none) := by
      simp only [Spec.step, ho', h1, bind, Except.bind, pure, Except.pure]
    simp only [nameEntryRows, List.cons_append, List.nil_append, run_cons_ok this, Option.toList,
      List.append_nil, List.length_cons, List.length_nil]

theorem Ingests.prefixes {te : TermEnc} {e2 : LookupEnc} {oid k}
    (h : ∀ t, EMirror te.prefixes t →
      ∃ t', ingestEntry t oid k = .ok t' ∧ EMirror e2 t' ∧ t'.lastReused = t.lastReused) :
    Ingests te { te with prefixes := e2 } (prefixEntryRows oid k) := by
  intro ss m ho
  obtain ⟨t', h1, h2, h3⟩ := h ss.prefixes m.p
  cases oid with
  | none =>
    simp only [ingestEntry, Except.ok.injEq] at h1
    subst h1
    exact ⟨ss, ⟨m.n, h2, m.d⟩, SameFrame.refl ss, fun _ _ _ => rfl⟩
  | some id =>
    simp only [ingestEntry] at h1
    refine ⟨{ ss with prefixes := t' }, ⟨m.n, h2, m.d⟩, ⟨rfl, rfl, rfl, rfl, h3, rfl⟩, ?_⟩
    intro rest acc i
    obtain ⟨o, ho'⟩ := Option.ne_none_iff_exists'.mp ho
    have : Spec.step ss (Row.prefixEntry id k) = .ok ({ ss with prefixes := t' }, none) := by
      simp only [Spec.step, ho', h1, bind, Except.bind, pure, Except.pure]
    simp only [prefixEntryRows, List.cons_append, List.nil_append, run_cons_ok this, Option.toList,
      List.append_nil, List.length_cons, List.length_nil]

theorem Ingests.datatypes {te : TermEnc} {e2 : LookupEnc} {oid k}
    (h : ∀ t, EMirror te.datatypes t →
      ∃ t', ingestEntry t oid k = .ok t' ∧ EMirror e2 t' ∧ t'.lastReused = t.lastReused) :
    Ingests te { te with datatypes := e2 } (dtEntryRows oid k) := by
  intro ss m ho
  obtain ⟨t', h1, h2, h3⟩ := h ss.datatypes m.d
  cases oid with
  | none =>
    simp only [ingestEntry, Except.ok.injEq] at h1
    subst h1
    exact ⟨ss, ⟨m.n, m.p, h2⟩, SameFrame.refl ss, fun _ _ _ => rfl⟩
  | some id =>
    simp only [ingestEntry] at h1
    refine ⟨{ ss with datatypes := t' }, ⟨m.n, m.p, h2⟩, ⟨rfl, rfl, rfl, rfl, rfl, h3⟩, ?_⟩
    intro rest acc i
    obtain ⟨o, ho'⟩ := Option.ne_none_iff_exists'.mp ho
    have : Spec.step ss (Row.dtEntry id k) = .ok ({ ss with datatypes := t' }, none) := by
      simp only [Spec.step, ho', h1, bind, Except.bind, pure, Except.pure]
    simp only [dtEntryRows, List.cons_append, List.nil_append, run_cons_ok this, Option.toList,
      List.append_nil, List.length_cons, List.length_nil]

/-! ## The per-term simulation package -/

/-- Copy the writer's `lastReused` values into a reader state. -/
def setLR (ss : Spec.State) (te : TermEnc) : Spec.State :=
  { ss with names := { ss.names with lastReused := te.names.lastReused },
            prefixes := { ss.prefixes with lastReused := te.prefixes.lastReused },
            datatypes := { ss.datatypes with lastReused := te.datatypes.lastReused } }

/-- What every encoding step `te ⟶ te'` emitting the entry rows `rows` guarantees. -/
structure Sim (P : Preset) (T : Keys) (te : TermEnc) (R : Keys) (te' : TermEnc) (rows : List Row)
    (R' : Keys) : Prop where
  inv : TInv P T te' R'
  sub : R.sub R'
  pres : PresT R te te'
  ing : Ingests te te' rows

theorem Sim.refl {P T te R} (inv : TInv P T te R) : Sim P T te R te [] R :=
  ⟨inv, Keys.sub.refl R, PresT.refl R te, Ingests.refl te⟩

theorem Sim.trans {P T a Ra b r₁ Rb c r₂ Rc} (h₁ : Sim P T a Ra b r₁ Rb) (h₂ : Sim P T b Rb c r₂ Rc) :
    Sim P T a Ra c (r₁ ++ r₂) Rc :=
  ⟨h₂.inv, h₁.sub.trans h₂.sub, h₁.pres.trans (h₂.pres.mono h₁.sub), h₁.ing.trans h₂.ing⟩

theorem iriIndices_eq_noprefix {te : TermEnc} {iri : String}
    (h : te.prefixes.lookup.maxSize = 0) {ne1 ne2 : LookupEnc} {noid nid}
    (hne : te.names.entryIndex iri = .ok (ne1, noid)) (hnt : ne1.nameTermIndex iri = .ok (ne2, nid)) :
    te.iriIndices iri = ({ te with names := ne2 }, .ok (nameEntryRows noid iri, 0, nid)) := by
  have hb : (te.prefixes.lookup.maxSize != 0) = false := by simp [h]
  have hpt : te.prefixes.prefixTermIndex (splitIri iri).fst = .ok (te.prefixes, 0) := by
    simp [LookupEnc.prefixTermIndex, h]
  unfold TermEnc.iriIndices
  simp only [hb, Bool.false_eq_true, if_false, hne, hpt, hnt, nameEntryRows, List.nil_append]
  cases noid <;> rfl

theorem iriIndices_eq_prefix {te : TermEnc} {iri : String}
    (h : te.prefixes.lookup.maxSize ≠ 0) {pe1 pe2 ne1 ne2 : LookupEnc} {poid pid noid nid}
    (hpe : te.prefixes.entryIndex (splitIri iri).1 = .ok (pe1, poid))
    (hne : te.names.entryIndex (splitIri iri).2 = .ok (ne1, noid))
    (hpt : pe1.prefixTermIndex (splitIri iri).1 = .ok (pe2, pid))
    (hnt : ne1.nameTermIndex (splitIri iri).2 = .ok (ne2, nid)) :
    te.iriIndices iri = ({ te with names := ne2, prefixes := pe2 },
      .ok (prefixEntryRows poid (splitIri iri).1 ++ nameEntryRows noid (splitIri iri).2, pid, nid)) := by
  have hb : (te.prefixes.lookup.maxSize != 0) = true := by simp [h]
  unfold TermEnc.iriIndices
  simp only [hb, if_true, hpe, hne, hpt, hnt, nameEntryRows, prefixEntryRows]
  cases noid <;> cases poid <;> rfl

theorem cons_sub {k : String} {R T : List String} (hk : k ∈ T) (hs : ∀ x ∈ R, x ∈ T) :
    ∀ x ∈ k :: R, x ∈ T := by
  intro x hx
  rcases List.mem_cons.mp hx with rfl | hx
  · exact hk
  · exact hs x hx

theorem iriIndices_err_noprefix {te : TermEnc} {iri : String}
    (h : te.prefixes.lookup.maxSize = 0) {err : PyErr}
    (hne : te.names.entryIndex iri = .error err) :
    te.iriIndices iri = (te, .error err) := by
  have hb : (te.prefixes.lookup.maxSize != 0) = false := by simp [h]
  unfold TermEnc.iriIndices
  simp only [hb, Bool.false_eq_true, if_false, hne]

theorem iriIndices_err_prefix1 {te : TermEnc} {iri : String}
    (h : te.prefixes.lookup.maxSize ≠ 0) {err : PyErr}
    (hpe : te.prefixes.entryIndex (splitIri iri).1 = .error err) :
    te.iriIndices iri = (te, .error err) := by
  have hb : (te.prefixes.lookup.maxSize != 0) = true := by simp [h]
  unfold TermEnc.iriIndices
  simp only [hb, if_true, hpe]

theorem iriIndices_err_prefix2 {te : TermEnc} {iri : String}
    (h : te.prefixes.lookup.maxSize ≠ 0) {pe1 : LookupEnc} {poid} {err : PyErr}
    (hpe : te.prefixes.entryIndex (splitIri iri).1 = .ok (pe1, poid))
    (hne : te.names.entryIndex (splitIri iri).2 = .error err) :
    te.iriIndices iri = ({ te with prefixes := pe1 }, .error err) := by
  have hb : (te.prefixes.lookup.maxSize != 0) = true := by simp [h]
  unfold TermEnc.iriIndices
  simp only [hb, if_true, hpe, hne]

/-- General form: no sizing hypothesis is assumed, `F` stands for "the row fits". Either the writer
    refuses (only possible when `F` fails) or the step is simulated. -/
theorem iriIndices_sim_gen {F : Prop} {P : Preset} {T : Keys} {te : TermEnc} {R : Keys}
    (hpn : 0 < P.maxNames) (hf : F → TFits P T)
    (inv : TInv P T te R) (iri : String)
    (hkn : nameKey (P.maxPrefixes != 0) iri ∈ T.n) (hkp : prefixKey iri ∈ T.p) :
    (¬ F ∧ ∃ te' e, te.iriIndices iri = (te', .error e)) ∨
    ∃ te' rows p n R', te.iriIndices iri = (te', .ok (rows, p, n)) ∧ Sim P T te R te' rows R' ∧
      ∀ ss, AgreeT R' te' ss → Spec.resolveIri (setLR ss te) p n = .ok (setLR ss te', iri) := by
  by_cases hup : P.maxPrefixes = 0
  · -- prefix table disabled: the whole IRI is the name key
    have hkn' : iri ∈ T.n := by simpa [nameKey, hup] using hkn
    rcases useName (F := F) (k := iri) inv.wfn (by rw [inv.maxn]; exact hpn) inv.recn inv.pinn
        (cons_sub hkn' inv.sub.1) (by rw [inv.maxn]; exact fun h => (hf h).fitn) with
      ⟨hnF, herr⟩ | ⟨ne1, noid, ne2, nid, hne, hnt, hnu, hnla, hnres⟩
    · exact Or.inl ⟨hnF, _, _, iriIndices_err_noprefix (by rw [inv.maxp]; exact hup) herr⟩
    right
    refine ⟨{ te with names := ne2 }, nameEntryRows noid iri, 0, nid, { R with n := iri :: R.n },
      iriIndices_eq_noprefix (by rw [inv.maxp]; exact hup) hne hnt, ?_, ?_⟩
    · refine ⟨⟨hnu.wf, inv.wfp, inv.wfd, by rw [hnu.max]; exact inv.maxn, inv.maxp, inv.maxd,
          hnu.recent, inv.recp, inv.recd, hnu.pinok, inv.pinp, inv.pind,
          ⟨cons_sub hkn' inv.sub.1, inv.sub.2.1, inv.sub.2.2⟩, inv.p0⟩,
        ⟨fun k h => List.mem_cons_of_mem _ h, fun _ h => h, fun _ h => h⟩,
        ⟨hnu.pres.mono (fun k h => List.mem_cons_of_mem _ h), Pres.refl _ _, Pres.refl _ _⟩,
        Ingests.names hnu.mirror⟩
    · intro ss ha
      have h0 := inv.p0 hup
      have hn := hnres ss.names ha.1
      simp only [Spec.resolveIri, setLR, bind, Except.bind, pure, Except.pure]
      have hp : Spec.resolvePrefix { ss.prefixes with lastReused := te.prefixes.lastReused } 0
          = .ok ({ ss.prefixes with lastReused := te.prefixes.lastReused }, "") := by
        simp [Spec.resolvePrefix, h0]
      rw [hp]
      simp only
      rw [hn]
      simp only [String.empty_append]
  · -- prefix table enabled
    have hpos : 0 < P.maxPrefixes := Nat.pos_of_ne_zero hup
    have hkn' : (splitIri iri).2 ∈ T.n := by simpa [nameKey, hup] using hkn
    rcases usePrefix (F := F) (k := (splitIri iri).1) inv.wfp (by rw [inv.maxp]; exact hpos) inv.recp inv.pinp
        (cons_sub hkp inv.sub.2.1) (by rw [inv.maxp]; exact fun h => (hf h).fitp hpos) with
      ⟨hnF, herr⟩ | ⟨pe1, poid, pe2, pid, hpe, hpt, hpu, hpres⟩
    · exact Or.inl ⟨hnF, _, _, iriIndices_err_prefix1 (by rw [inv.maxp]; exact hup) herr⟩
    rcases useName (F := F) (k := (splitIri iri).2) inv.wfn (by rw [inv.maxn]; exact hpn) inv.recn inv.pinn
        (cons_sub hkn' inv.sub.1) (by rw [inv.maxn]; exact fun h => (hf h).fitn) with
      ⟨hnF, herr⟩ | ⟨ne1, noid, ne2, nid, hne, hnt, hnu, hnla, hnres⟩
    · exact Or.inl ⟨hnF, _, _, iriIndices_err_prefix2 (by rw [inv.maxp]; exact hup) hpe herr⟩
    right
    refine ⟨{ te with names := ne2, prefixes := pe2 }, _, pid, nid,
      { R with n := (splitIri iri).2 :: R.n, p := (splitIri iri).1 :: R.p },
      iriIndices_eq_prefix (by rw [inv.maxp]; exact hup) hpe hne hpt hnt, ?_, ?_⟩
    · refine ⟨⟨hnu.wf, hpu.wf, inv.wfd, by rw [hnu.max]; exact inv.maxn, by rw [hpu.max]; exact inv.maxp,
          inv.maxd, hnu.recent, hpu.recent, inv.recd, hnu.pinok, hpu.pinok, inv.pind,
          ⟨cons_sub hkn' inv.sub.1, cons_sub hkp inv.sub.2.1, inv.sub.2.2⟩,
          fun h => absurd h hup⟩,
        ⟨fun k h => List.mem_cons_of_mem _ h, fun k h => List.mem_cons_of_mem _ h, fun _ h => h⟩,
        ⟨hnu.pres.mono (fun k h => List.mem_cons_of_mem _ h),
         hpu.pres.mono (fun k h => List.mem_cons_of_mem _ h), Pres.refl _ _⟩, ?_⟩
      have i1 : Ingests te { te with prefixes := pe2 } (prefixEntryRows poid (splitIri iri).1) :=
        Ingests.prefixes hpu.mirror
      have i2 : Ingests { te with prefixes := pe2 } { te with names := ne2, prefixes := pe2 }
          (nameEntryRows noid (splitIri iri).2) :=
        Ingests.names (te := { te with prefixes := pe2 }) hnu.mirror
      exact i1.trans i2
    · intro ss ha
      have hp := hpres ss.prefixes ha.2.1
      have hn := hnres ss.names ha.1
      simp only [Spec.resolveIri, setLR, bind, Except.bind, pure, Except.pure]
      rw [hp]
      simp only
      rw [hn]
      simp only [splitIri_append]

theorem iriIndices_sim {P : Preset} {T : Keys} {te : TermEnc} {R : Keys} (hf : TFits P T)
    (inv : TInv P T te R) (iri : String)
    (hkn : nameKey (P.maxPrefixes != 0) iri ∈ T.n) (hkp : prefixKey iri ∈ T.p) :
    ∃ te' rows p n R', te.iriIndices iri = (te', .ok (rows, p, n)) ∧ Sim P T te R te' rows R' ∧
      ∀ ss, AgreeT R' te' ss → Spec.resolveIri (setLR ss te) p n = .ok (setLR ss te', iri) := by
  rcases iriIndices_sim_gen (F := True) hf.posn (fun _ => hf) inv iri hkn hkp with ⟨h, _⟩ | h
  · exact absurd trivial h
  · exact h

theorem literal_sim_gen {F : Prop} {P : Preset} {T : Keys} {te : TermEnc} {R : Keys} (hf : F → TFits P T)
    (inv : TInv P T te R) (lex : String) (lang dt : Option String)
    (hwf : (Term.lit lex lang dt).WF = true) (hk : ∀ k ∈ (Term.lit lex lang dt).dts, k ∈ T.d)
    (inG : Bool) :
    (¬ F ∧ ∃ te' e, te.literal lang dt = (te', .error e)) ∨
    ∃ te' rows kind R', te.literal lang dt = (te', .ok (rows, kind)) ∧ Sim P T te R te' rows R' ∧
      ∀ ss, AgreeT R' te' ss →
        Spec.resolveTerm inG (setLR ss te) (.literal lex kind)
          = .ok (setLR ss te', (Term.lit lex lang dt).norm) := by
  cases dt with
  | none =>
    right
    cases lang with
    | none =>
      refine ⟨te, [], .plain, R, by simp [TermEnc.literal], Sim.refl inv, ?_⟩
      intro ss _
      simp [Spec.resolveTerm, Term.norm]
    | some l =>
      have hl : (l != "") = true := by simpa [Term.WF] using hwf
      refine ⟨te, [], .lang l, R, by simp [TermEnc.literal, hl], Sim.refl inv, ?_⟩
      intro ss _
      have hl' : (l == "") = false := by simpa using hl
      simp [Spec.resolveTerm, Term.norm, hl']
  | some d =>
    cases lang with
    | some l => simp [Term.WF] at hwf
    | none =>
      have hd : (d != "") = true := by simpa [Term.WF] using hwf
      by_cases hx : d = XSD_STRING
      · right
        refine ⟨te, [], .plain, R, by simp [TermEnc.literal, hx], Sim.refl inv, ?_⟩
        intro ss _
        simp [Spec.resolveTerm, Term.norm, hx]
      · have hx' : (d != XSD_STRING) = true := by simpa using hx
        have hdT : d ∈ T.d := hk d (by simp [Term.dts, hd, hx'])
        by_cases hposd : 0 < P.maxDatatypes
        · have hm : (te.datatypes.lookup.maxSize == 0) = false := by rw [inv.maxd]; simp; omega
          rcases useDatatype (F := F) (k := d) inv.wfd (by rw [inv.maxd]; exact hposd) inv.recd inv.pind
              (cons_sub hdT inv.sub.2.2) (by rw [inv.maxd]; exact fun h => (hf h).fitd) with
            ⟨hnF, herr⟩ | ⟨de1, doid, de2, did, hde, hdt, hdu, hdne, hdres⟩
          · refine Or.inl ⟨hnF, te, .conformance, ?_⟩
            simp only [TermEnc.literal, hd, hx', Bool.and_self, if_true, hm, herr]
            rfl
          right
          refine ⟨{ te with datatypes := de2 }, dtEntryRows doid d, .dt did, { R with d := d :: R.d }, ?_, ?_, ?_⟩
          · have hdne' : (did != 0) = true := by simpa using hdne
            simp only [TermEnc.literal, hd, hx', Bool.and_self, if_true, hm, hde, hdt, hdne', dtEntryRows]
            cases doid <;> rfl
          · exact ⟨⟨inv.wfn, inv.wfp, hdu.wf, inv.maxn, inv.maxp, by rw [hdu.max]; exact inv.maxd,
                inv.recn, inv.recp, hdu.recent, inv.pinn, inv.pinp, hdu.pinok,
                ⟨inv.sub.1, inv.sub.2.1, cons_sub hdT inv.sub.2.2⟩, inv.p0⟩,
              ⟨fun _ h => h, fun _ h => h, fun k h => List.mem_cons_of_mem _ h⟩,
              ⟨Pres.refl _ _, Pres.refl _ _, hdu.pres.mono (fun k h => List.mem_cons_of_mem _ h)⟩,
              Ingests.datatypes hdu.mirror⟩
          · intro ss ha
            have hr := hdres ss.datatypes ha.2.2
            have hxb : (d == XSD_STRING) = false := by simpa using hx
            simp only [Spec.resolveTerm, setLR, bind, Except.bind, pure, Except.pure, Term.norm, hxb]
            rw [hr]
            rfl
        · -- datatype table disabled: `JellyConformanceError`
          left
          refine ⟨fun hF => hposd ((hf hF).posd (List.ne_nil_of_mem hdT)), te, .conformance, ?_⟩
          have hm : (te.datatypes.lookup.maxSize == 0) = true := by rw [inv.maxd]; simp; omega
          simp only [TermEnc.literal, hd, hx', Bool.and_self, if_true, hm]

theorem literal_sim {P : Preset} {T : Keys} {te : TermEnc} {R : Keys} (hf : TFits P T)
    (inv : TInv P T te R) (lex : String) (lang dt : Option String)
    (hwf : (Term.lit lex lang dt).WF = true) (hk : ∀ k ∈ (Term.lit lex lang dt).dts, k ∈ T.d)
    (inG : Bool) :
    ∃ te' rows kind R', te.literal lang dt = (te', .ok (rows, kind)) ∧ Sim P T te R te' rows R' ∧
      ∀ ss, AgreeT R' te' ss →
        Spec.resolveTerm inG (setLR ss te) (.literal lex kind)
          = .ok (setLR ss te', (Term.lit lex lang dt).norm) := by
  rcases literal_sim_gen (F := True) (fun _ => hf) inv lex lang dt hwf hk inG with ⟨h, _⟩ | h
  · exact absurd trivial h
  · exact h

theorem termKeys_quoted {up : Bool} {s p o : Term} {T : Keys} (h : (termKeys up (.quoted s p o)).sub T) :
    (termKeys up s).sub T ∧ (termKeys up p).sub T ∧ (termKeys up o).sub T := by
  simp only [termKeys, Keys.sub, Term.iris, Term.dts, List.map_append, List.mem_append] at h ⊢
  obtain ⟨h1, h2, h3⟩ := h
  exact ⟨⟨fun k hk => h1 k (Or.inl (Or.inl hk)), fun k hk => h2 k (Or.inl (Or.inl hk)),
          fun k hk => h3 k (Or.inl (Or.inl hk))⟩,
         ⟨fun k hk => h1 k (Or.inl (Or.inr hk)), fun k hk => h2 k (Or.inl (Or.inr hk)),
          fun k hk => h3 k (Or.inl (Or.inr hk))⟩,
         ⟨fun k hk => h1 k (Or.inr hk), fun k hk => h2 k (Or.inr hk), fun k hk => h3 k (Or.inr hk)⟩⟩

theorem spo_sim_gen {F : Prop} {P : Preset} {T : Keys} (hpn : 0 < P.maxNames) (hf : F → TFits P T) :
    ∀ (t : Term) (te : TermEnc) (R : Keys), t.WF = true → TInv P T te R →
      (termKeys (P.maxPrefixes != 0) t).sub T →
      (¬ F ∧ ∃ te' e, te.spo t = (te', .error e)) ∨
      ∃ te' rows w R', te.spo t = (te', .ok (rows, w)) ∧ Sim P T te R te' rows R' ∧
        ∀ ss, AgreeT R' te' ss →
          Spec.resolveTerm false (setLR ss te) w = .ok (setLR ss te', t.norm) := by
  intro t
  induction t with
  | iri s =>
    intro te R _ inv hk
    rcases iriIndices_sim_gen hpn hf inv s
      (hk.1 _ (by simp [termKeys, Term.iris])) (hk.2.1 _ (by simp [termKeys, Term.iris])) with
      ⟨hnF, te', e, herr⟩ | ⟨te', rows, p, n, R', heq, hsim, hres⟩
    · exact Or.inl ⟨hnF, te', e, by simp only [TermEnc.spo, herr]⟩
    right
    refine ⟨te', rows, .iri p n, R', by simp only [TermEnc.spo, heq], hsim, ?_⟩
    intro ss ha
    simp only [Spec.resolveTerm, hres ss ha, bind, Except.bind, pure, Except.pure, Term.norm]
  | bnode b =>
    intro te R _ inv _
    right
    refine ⟨te, [], .bnode b, R, by simp only [TermEnc.spo], Sim.refl inv, ?_⟩
    intro ss _
    simp only [Spec.resolveTerm, Term.norm]
  | lit lex lang dt =>
    intro te R hwf inv hk
    rcases literal_sim_gen hf inv lex lang dt hwf hk.2.2 false with
      ⟨hnF, te', e, herr⟩ | ⟨te', rows, kind, R', heq, hsim, hres⟩
    · exact Or.inl ⟨hnF, te', e, by simp only [TermEnc.spo, herr]⟩
    exact Or.inr ⟨te', rows, .literal lex kind, R', by simp only [TermEnc.spo, heq], hsim, hres⟩
  | quoted s p o ihs ihp iho =>
    intro te R hwf inv hk
    simp only [Term.WF, Bool.and_eq_true] at hwf
    obtain ⟨ks, kp, ko⟩ := termKeys_quoted hk
    rcases ihs te R hwf.1.1 inv ks with ⟨hnF, te', e, herr⟩ | ⟨te1, r1, ws, R1, e1, s1, res1⟩
    · exact Or.inl ⟨hnF, te', e, by simp only [TermEnc.spo, herr]⟩
    rcases ihp te1 R1 hwf.1.2 s1.inv kp with ⟨hnF, te', e, herr⟩ | ⟨te2, r2, wp, R2, e2, s2, res2⟩
    · exact Or.inl ⟨hnF, te', e, by simp only [TermEnc.spo, e1, herr]⟩
    rcases iho te2 R2 hwf.2 s2.inv ko with ⟨hnF, te', e, herr⟩ | ⟨te3, r3, wo, R3, e3, s3, res3⟩
    · exact Or.inl ⟨hnF, te', e, by simp only [TermEnc.spo, e1, e2, herr]⟩
    right
    refine ⟨te3, r1 ++ r2 ++ r3, .triple (some ws) (some wp) (some wo), R3,
      by simp only [TermEnc.spo, e1, e2, e3], (s1.trans s2).trans s3, ?_⟩
    intro ss ha
    have ha2 : AgreeT R2 te2 ss := ha.mono s3.pres s3.sub
    have ha1 : AgreeT R1 te1 ss := ha2.mono s2.pres s2.sub
    simp only [Spec.resolveTerm, Spec.resolveQuotedSlot, Bool.false_eq_true, if_false,
      res1 ss ha1, res2 ss ha2, res3 ss ha, Term.norm]
  | defaultGraph => intro te R hwf; simp [Term.WF] at hwf
  | unsupported => intro te R hwf; simp [Term.WF] at hwf

theorem spo_sim {P : Preset} {T : Keys} (hf : TFits P T) :
    ∀ (t : Term) (te : TermEnc) (R : Keys), t.WF = true → TInv P T te R →
      (termKeys (P.maxPrefixes != 0) t).sub T →
      ∃ te' rows w R', te.spo t = (te', .ok (rows, w)) ∧ Sim P T te R te' rows R' ∧
        ∀ ss, AgreeT R' te' ss →
          Spec.resolveTerm false (setLR ss te) w = .ok (setLR ss te', t.norm) := by
  intro t te R hwf inv hk
  rcases spo_sim_gen (F := True) hf.posn (fun _ => hf) t te R hwf inv hk with ⟨h, _⟩ | h
  · exact absurd trivial h
  · exact h

theorem graph_sim_gen {F : Prop} {P : Preset} {T : Keys} (hpn : 0 < P.maxNames) (hf : F → TFits P T)
    (t : Term) (te : TermEnc) (R : Keys)
    (hwf : t.WFGraph = true) (inv : TInv P T te R) (hk : (termKeys (P.maxPrefixes != 0) t).sub T) :
    (¬ F ∧ ∃ te' e, te.graph t = (te', .error e)) ∨
    ∃ te' rows w R', te.graph t = (te', .ok (rows, w)) ∧ Sim P T te R te' rows R' ∧
      ∀ ss, AgreeT R' te' ss →
        Spec.resolveTerm true (setLR ss te) w = .ok (setLR ss te', t.norm) := by
  cases t with
  | iri s =>
    rcases iriIndices_sim_gen hpn hf inv s
      (hk.1 _ (by simp [termKeys, Term.iris])) (hk.2.1 _ (by simp [termKeys, Term.iris])) with
      ⟨hnF, te', e, herr⟩ | ⟨te', rows, p, n, R', heq, hsim, hres⟩
    · exact Or.inl ⟨hnF, te', e, by simp only [TermEnc.graph, herr]⟩
    right
    refine ⟨te', rows, .iri p n, R', by simp only [TermEnc.graph, heq], hsim, ?_⟩
    intro ss ha
    simp only [Spec.resolveTerm, hres ss ha, bind, Except.bind, pure, Except.pure, Term.norm]
  | bnode b =>
    right
    refine ⟨te, [], .bnode b, R, by simp only [TermEnc.graph], Sim.refl inv, ?_⟩
    intro ss _
    simp only [Spec.resolveTerm, Term.norm]
  | lit lex lang dt =>
    rcases literal_sim_gen hf inv lex lang dt hwf hk.2.2 true with
      ⟨hnF, te', e, herr⟩ | ⟨te', rows, kind, R', heq, hsim, hres⟩
    · exact Or.inl ⟨hnF, te', e, by simp only [TermEnc.graph, herr]⟩
    exact Or.inr ⟨te', rows, .literal lex kind, R', by simp only [TermEnc.graph, heq], hsim, hres⟩
  | quoted s p o => simp [Term.WFGraph] at hwf
  | defaultGraph =>
    right
    refine ⟨te, [], .defaultGraph, R, by simp only [TermEnc.graph], Sim.refl inv, ?_⟩
    intro ss _
    simp only [Spec.resolveTerm, if_true, Term.norm]
  | unsupported => simp [Term.WFGraph] at hwf

theorem graph_sim {P : Preset} {T : Keys} (hf : TFits P T) (t : Term) (te : TermEnc) (R : Keys)
    (hwf : t.WFGraph = true) (inv : TInv P T te R) (hk : (termKeys (P.maxPrefixes != 0) t).sub T) :
    ∃ te' rows w R', te.graph t = (te', .ok (rows, w)) ∧ Sim P T te R te' rows R' ∧
      ∀ ss, AgreeT R' te' ss →
        Spec.resolveTerm true (setLR ss te) w = .ok (setLR ss te', t.norm) := by
  rcases graph_sim_gen (F := True) hf.posn (fun _ => hf) t te R hwf inv hk with ⟨h, _⟩ | h
  · exact absurd trivial h
  · exact h

end Jelly

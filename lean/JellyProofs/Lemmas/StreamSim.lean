import JellyProofs.Lemmas.StmtSim
import JellyModel.SerGeneric
/-!
# Stream-level simulation (C03): `streamFrames` against `Spec.runRows`
-/
namespace Jelly

/-! ## Rows handed out + rows pending do not depend on where frames are cut -/

def rowsOf (frames : List Frame) (s : Stream) : List Row := frames.flatMap (·.rows) ++ s.flow.rows

def allRowsOf (r : Run) : List Row := rowsOf r.frames r.stream

def frRows (fr : Option Frame) : List Row := fr.toList.flatMap (·.rows)

theorem toStreamFrame_rows (f : Flow) : frRows f.toStreamFrame.2 ++ f.toStreamFrame.1.rows = f.rows := by
  unfold Flow.toStreamFrame
  by_cases h : f.rows.isEmpty = true
  · simp [h, frRows]
  · simp [h, frRows]

theorem frameFromBounds_rows (f : Flow) :
    frRows f.frameFromBounds.2 ++ f.frameFromBounds.1.rows = f.rows := by
  unfold Flow.frameFromBounds
  split
  · exact toStreamFrame_rows f
  · simp [frRows]

theorem frameFromGraph_rows (f : Flow) :
    frRows f.frameFromGraph.2 ++ f.frameFromGraph.1.rows = f.rows := by
  unfold Flow.frameFromGraph
  split
  · exact toStreamFrame_rows f
  · simp [frRows]

theorem frameFromDataset_rows (f : Flow) :
    frRows f.frameFromDataset.2 ++ f.frameFromDataset.1.rows = f.rows := by
  unfold Flow.frameFromDataset
  split
  · exact toStreamFrame_rows f
  · simp [frRows]

theorem rowsOf_push (frames : List Frame) (fr : Option Frame) (s : Stream) :
    rowsOf (frames ++ fr.toList) s = frames.flatMap (·.rows) ++ (frRows fr ++ s.flow.rows) := by
  simp [rowsOf, frRows, List.flatMap_append]

theorem Stream.triple_ok {exc : PyErr} {s : Stream} {t : List Term} {enc' : EncState} {rows : List Row}
    (h : encodeTriple exc s.enc t = (enc', .ok rows)) :
    ∃ s' fr, s.triple exc t = (s', .ok fr) ∧ s'.enc = enc' ∧
      frRows fr ++ s'.flow.rows = s.flow.rows ++ rows := by
  refine ⟨{ (({ s with enc := enc' } : Stream).pushRows rows) with
      flow := (({ s with enc := enc' } : Stream).pushRows rows).flow.frameFromBounds.1 },
    (({ s with enc := enc' } : Stream).pushRows rows).flow.frameFromBounds.2, ?_, rfl, ?_⟩
  · simp only [Stream.triple, h]
  · exact frameFromBounds_rows _

theorem Stream.quad_ok {exc : PyErr} {s : Stream} {t : List Term} {enc' : EncState} {rows : List Row}
    (h : encodeQuad exc s.enc t = (enc', .ok rows)) :
    ∃ s' fr, s.quad exc t = (s', .ok fr) ∧ s'.enc = enc' ∧
      frRows fr ++ s'.flow.rows = s.flow.rows ++ rows := by
  refine ⟨{ (({ s with enc := enc' } : Stream).pushRows rows) with
      flow := (({ s with enc := enc' } : Stream).pushRows rows).flow.frameFromBounds.1 },
    (({ s with enc := enc' } : Stream).pushRows rows).flow.frameFromBounds.2, ?_, rfl, ?_⟩
  · simp only [Stream.quad, h]
  · exact frameFromBounds_rows _

theorem Stream.triple_err {exc : PyErr} {s : Stream} {t : List Term} {enc' : EncState} {e : PyErr}
    (h : encodeTriple exc s.enc t = (enc', .error e)) :
    s.triple exc t = ({ s with enc := enc' }, .error e) := by
  simp only [Stream.triple, h]

theorem Stream.quad_err {exc : PyErr} {s : Stream} {t : List Term} {enc' : EncState} {e : PyErr}
    (h : encodeQuad exc s.enc t = (enc', .error e)) :
    s.quad exc t = ({ s with enc := enc' }, .error e) := by
  simp only [Stream.quad, h]

theorem allRowsOf_epilogue (r : Run) (b : Bool) :
    allRowsOf (epilogue r b) = allRowsOf r ∧ (epilogue r b).err = r.err ∧
      (epilogue r b).stream.enc = r.stream.enc := by
  refine ⟨?_, rfl, rfl⟩
  have hX : ∀ X : Flow × Option Frame, frRows X.2 ++ X.1.rows = r.stream.flow.rows →
      List.flatMap (·.rows) (r.frames ++ X.2.toList) ++
        (frRows X.1.toStreamFrame.2 ++ X.1.toStreamFrame.1.rows) = rowsOf r.frames r.stream := by
    intro X h
    rw [toStreamFrame_rows, List.flatMap_append, List.append_assoc]
    unfold rowsOf
    rw [← h]; rfl
  cases b
  · have := hX r.stream.flow.frameFromGraph (frameFromGraph_rows _)
    simp only [epilogue, Run.push, allRowsOf, Bool.false_eq_true, if_false]
    rw [rowsOf_push, ← List.append_assoc, List.append_assoc]
    exact this
  · have := hX r.stream.flow.frameFromDataset (frameFromDataset_rows _)
    simp only [epilogue, Run.push, allRowsOf, if_true]
    rw [rowsOf_push, ← List.append_assoc, List.append_assoc]
    exact this

/-! ## Segments of the reference run -/

/-- Running the reference decoder from `ss` over `rows` succeeds, ends in `ss'` and adds `evs`. -/
def RunsTo (ss : Spec.State) (rows : List Row) (ss' : Spec.State) (evs : List Event) : Prop :=
  ∀ rest acc i, Spec.run ss (rows ++ rest) acc i = Spec.run ss' rest (acc ++ evs) (i + rows.length)

theorem RunsTo.nil (ss : Spec.State) : RunsTo ss [] ss [] := by
  intro rest acc i; simp

theorem RunsTo.trans {a b c : Spec.State} {r₁ r₂ : List Row} {e₁ e₂ : List Event}
    (h₁ : RunsTo a r₁ b e₁) (h₂ : RunsTo b r₂ c e₂) : RunsTo a (r₁ ++ r₂) c (e₁ ++ e₂) := by
  intro rest acc i
  rw [List.append_assoc, h₁, h₂, List.append_assoc, List.length_append, Nat.add_assoc]

theorem RunsTo.of_noev {a b : Spec.State} {r : List Row}
    (h : ∀ rest acc i, Spec.run a (r ++ rest) acc i = Spec.run b rest acc (i + r.length)) :
    RunsTo a r b [] := by
  intro rest acc i; rw [h, List.append_nil]

theorem RunsTo.final {a b : Spec.State} {r : List Row} {e : List Event} (h : RunsTo a r b e)
    (acc : List Event) (i : Nat) : Spec.run a r acc i = (b, acc ++ e, none) := by
  have := h [] acc i
  rw [List.append_nil] at this
  rw [this]; rfl

/-! ## The options row -/

theorem inferFlow_rows {cls : StreamClass} {o : SerOptions} {f : Flow} (h : inferFlow cls o = .ok f) :
    f.rows = [] := by
  unfold inferFlow at h
  split at h
  · split at h
    · simp at h
    · split at h <;> (injection h with h; subst h; rfl)
  · injection h with h; subst h; rfl

theorem Stream.new_spec {cls : StreamClass} {o : SerOptions} {s : Stream} (h : Stream.new cls o = .ok s) :
    o.preset.valid = true ∧ s.cls = cls ∧ s.opts = o ∧
    s.enc = { te := TermEnc.new o.preset.maxNames o.preset.maxPrefixes o.preset.maxDatatypes } ∧
    s.flow.rows = [] ∧ s.enrolled = false ∧ typesCompatible cls.physical s.logicalType = true := by
  unfold Stream.new at h
  split at h
  · simp at h
  · rename_i hv
    simp only at h
    split at h
    · simp at h
    · rename_i flow hflow
      split at h
      · simp at h
      · rename_i htc
        injection h with h; subst h
        refine ⟨by simpa using hv, rfl, rfl, rfl, ?_, rfl, by simpa using htc⟩
        simp only
        cases hof : o.flow with
        | some fs => rw [hof] at hflow; injection hflow with hflow; subst hflow; rfl
        | none => rw [hof] at hflow; exact inferFlow_rows hflow

theorem typePair_of_compat {ph lg : Nat} (hph : ph ≠ 0) (hc : typesCompatible ph lg = true)
    (hl : validLogical lg = true) : Spec.typePairAllowed ph lg = true := by
  unfold Spec.typePairAllowed
  by_cases h0 : lg = 0
  · simp [h0]
  · have : (ph == 0 || lg == 0) = false := by simp [hph, h0]
    simp only [typesCompatible, this, Bool.false_eq_true, if_false] at hc
    simp only [hl, Bool.true_and, Bool.or_eq_true]
    right
    rw [← hc]
    congr 1
    cases (lg == 1) <;> cases (lg == 3) <;> cases (lg == 13) <;> rfl


theorem EMirror.new (n : Nat) : EMirror (LookupEnc.new n) (Spec.mkTable n) :=
  ⟨rfl, by simp [Spec.mkTable, LookupEnc.new, Lookup.new], rfl, by
    intro k i h; simp [LookupEnc.new, Lookup.new] at h⟩

def wireOptions (s : Stream) : Options :=
  { streamName := s.opts.params.streamName, physicalType := s.cls.physical,
    generalized := s.opts.params.generalized, rdfStar := s.opts.params.rdfStar,
    maxNames := s.opts.preset.maxNames, maxPrefixes := s.opts.preset.maxPrefixes,
    maxDatatypes := s.opts.preset.maxDatatypes, logicalType := s.logicalType,
    version := s.opts.params.version }

def initState (o : Options) : Spec.State :=
  { opts := some o, names := Spec.mkTable o.maxNames, prefixes := Spec.mkTable o.maxPrefixes,
    datatypes := Spec.mkTable o.maxDatatypes }

theorem options_step {s : Stream} {cls : StreamClass} {o : SerOptions} (hs : Stream.new cls o = .ok s)
    (hl : validLogical s.logicalType = true) :
    ∃ ss0 oo, Spec.step {} s.optionsRow = .ok (ss0, none) ∧ Inv o.preset s.enc ss0 ∧
      ss0.opts = some oo ∧ oo.physicalType = cls.physical ∧ ss0.graph = none := by
  obtain ⟨hv, hcls, hopts, henc, _, _, htc⟩ := Stream.new_spec hs
  have hph : cls.physical ≠ 0 := by cases cls <;> simp [StreamClass.physical]
  have hpair := typePair_of_compat hph htc hl
  have hn : o.preset.maxNames ≥ 8 := by simpa [Preset.valid, MIN_NAME_LOOKUP_SIZE] using hv
  have hcheck : Spec.checkOptions (wireOptions s) = .ok () := by
    unfold Spec.checkOptions wireOptions
    rw [hcls, hopts]
    have h1 : (!(decide (1 ≤ cls.physical) && decide (cls.physical ≤ 3))) = false := by
      cases cls <;> simp [StreamClass.physical]
    have h3 : ¬ (o.preset.maxNames < 8) := by omega
    have h4 : (o.params.version == 0) = false := by
      unfold Params.version; split <;> simp
    have h5 : ¬ (o.params.version > 2) := by
      unfold Params.version; split <;> simp
    simp only [h1, hpair, h3, h4, h5, Bool.false_eq_true, if_false, Bool.not_true]
  refine ⟨initState (wireOptions s), wireOptions s, ?_, ?_, rfl, ?_, rfl⟩
  · have : s.optionsRow = .options (wireOptions s) := rfl
    simp only [this, Spec.step, hcheck, bind, Except.bind, pure, Except.pure]
    rfl
  · rw [henc]
    simp only [initState, wireOptions, hopts]
    exact ⟨⟨Lookup.WF.new _, Lookup.WF.new _, Lookup.WF.new _, rfl, rfl, rfl, fun _ => rfl⟩,
      ⟨EMirror.new _, EMirror.new _, EMirror.new _⟩, rfl, rfl, rfl, rfl, rfl, rfl, rfl, rfl⟩
  · exact hcls ▸ rfl


/-! ## The statement loops -/

theorem tripleWF_elim {t : List Term} (h : tripleWF t = true) :
    ∃ s p o, t = [s, p, o] ∧ s.WF = true ∧ p.WF = true ∧ o.WF = true := by
  match t, h with
  | [s, p, o], h =>
    simp only [tripleWF, Bool.and_eq_true] at h
    exact ⟨s, p, o, rfl, h.1.1, h.1.2, h.2⟩
  | [], h => simp [tripleWF] at h
  | [_], h => simp [tripleWF] at h
  | [_, _], h => simp [tripleWF] at h
  | _ :: _ :: _ :: _ :: _, h => simp [tripleWF] at h

theorem quadWF_elim {t : List Term} (h : quadWF t = true) :
    ∃ s p o g, t = [s, p, o, g] ∧ s.WF = true ∧ p.WF = true ∧ o.WF = true ∧ g.WFGraph = true := by
  match t, h with
  | [s, p, o, g], h =>
    simp only [quadWF, Bool.and_eq_true] at h
    exact ⟨s, p, o, g, rfl, h.1.1.1, h.1.1.2, h.1.2, h.2⟩
  | [], h => simp [quadWF] at h
  | [_], h => simp [quadWF] at h
  | [_, _], h => simp [quadWF] at h
  | [_, _, _], h => simp [quadWF] at h
  | _ :: _ :: _ :: _ :: _ :: _, h => simp [quadWF] at h

theorem allRowsOf_push {r : Run} {s' : Stream} {fr : Option Frame} {rows : List Row}
    (h : frRows fr ++ s'.flow.rows = r.stream.flow.rows ++ rows) :
    allRowsOf (r.push s' fr) = allRowsOf r ++ rows := by
  simp only [allRowsOf, Run.push]
  rw [rowsOf_push, h]
  simp [rowsOf, List.append_assoc]

theorem posn_of_valid {P : Preset} (hv : P.valid = true) : 0 < P.maxNames := by
  have : P.maxNames ≥ 8 := by simpa [Preset.valid, MIN_NAME_LOOKUP_SIZE] using hv
  omega

/-- The triple loop without sizing hypothesis (`F` = "every statement fits"): either the run ends
    with an exception (impossible under `F`) and what has been written so far is accepted by the
    reference decoder and denotes a prefix of the input, or it completes as in the sized case. -/
theorem stmtLoop_triple_sim_gen {F : Prop} {P : Preset} {o : Options} (hv : P.valid = true)
    (h1 : o.physicalType = 1) (exc : PyErr) :
    ∀ (stmts : List (List Term)) (r : Run) (ss : Spec.State),
      r.err = none → Inv P r.stream.enc ss → ss.opts = some o →
      (∀ t ∈ stmts, tripleWF t = true) → (∀ t ∈ stmts, F → stmtFits P t = true) →
      (¬ F ∧ (stmtLoop (Stream.triple exc) r stmts).err ≠ none ∧
        ∃ ss' rows evs, allRowsOf (stmtLoop (Stream.triple exc) r stmts) = allRowsOf r ++ rows ∧
          RunsTo ss rows ss' evs ∧ evs <+: stmts.map (fun t => Event.stmt (t.map Term.norm))) ∨
      ∃ ss' rows, (stmtLoop (Stream.triple exc) r stmts).err = none ∧
        allRowsOf (stmtLoop (Stream.triple exc) r stmts) = allRowsOf r ++ rows ∧
        Inv P (stmtLoop (Stream.triple exc) r stmts).stream.enc ss' ∧ ss'.opts = some o ∧
        RunsTo ss rows ss' (stmts.map (fun t => Event.stmt (t.map Term.norm))) := by
  intro stmts
  induction stmts with
  | nil =>
    intro r ss herr inv ho _ _
    exact Or.inr ⟨ss, [], herr, by simp [stmtLoop], inv, ho, RunsTo.nil ss⟩
  | cons t ts ih =>
    intro r ss herr inv ho hwf hfit
    obtain ⟨s, p, ob, rfl, hs, hp, hob⟩ := tripleWF_elim (hwf t List.mem_cons_self)
    have hf : F → TFits P (stmtKeys P [s, p, ob]) :=
      fun hF => TFits.of_stmtFits hv (hfit _ List.mem_cons_self hF)
    rcases triple_run1_gen (posn_of_valid hv) hf inv ho h1 exc s p ob hs hp hob
        (termKeys_sub_stmtKeys (by simp)) (termKeys_sub_stmtKeys (by simp)) (termKeys_sub_stmtKeys (by simp)) with
      ⟨hnF, es', e, herr1⟩ | ⟨es', rows, ss1, heq, inv1, ho1, _, hrun⟩
    · left
      have hloop : stmtLoop (Stream.triple exc) r ([s, p, ob] :: ts)
          = { r with stream := { r.stream with enc := es' }, err := some e } := by
        simp only [stmtLoop, Stream.triple_err herr1]
      rw [hloop]
      exact ⟨hnF, by simp, ss, [], [], by simp [allRowsOf, rowsOf], RunsTo.nil ss, List.nil_prefix⟩
    obtain ⟨s', fr, hstep, henc', hrows⟩ := Stream.triple_ok heq
    have inv1' : Inv P (r.push s' fr).stream.enc ss1 := by simpa [Run.push, henc'] using inv1
    have hloop : stmtLoop (Stream.triple exc) r ([s, p, ob] :: ts)
        = stmtLoop (Stream.triple exc) (r.push s' fr) ts := by
      simp only [stmtLoop, hstep]
    rw [hloop]
    rcases ih (r.push s' fr) ss1 (by simpa [Run.push] using herr) inv1' ho1
      (fun t ht => hwf t (List.mem_cons_of_mem _ ht)) (fun t ht => hfit t (List.mem_cons_of_mem _ ht)) with
      ⟨hnF, e1, ss', rows2, evs, e2, e5, hpre⟩ | ⟨ss', rows2, e1, e2, e3, e4, e5⟩
    · left
      refine ⟨hnF, e1, ss', rows ++ rows2, [Event.stmt [s.norm, p.norm, ob.norm]] ++ evs, ?_, ?_, ?_⟩
      · rw [e2, allRowsOf_push hrows, List.append_assoc]
      · exact RunsTo.trans (e₁ := [Event.stmt [s.norm, p.norm, ob.norm]]) hrun e5
      · simpa using hpre
    · right
      refine ⟨ss', rows ++ rows2, e1, ?_, e3, e4, ?_⟩
      · rw [e2, allRowsOf_push hrows, List.append_assoc]
      · exact RunsTo.trans (e₁ := [Event.stmt [s.norm, p.norm, ob.norm]]) hrun e5

theorem stmtLoop_triple_sim {P : Preset} {o : Options} (hv : P.valid = true) (h1 : o.physicalType = 1)
    (exc : PyErr) :
    ∀ (stmts : List (List Term)) (r : Run) (ss : Spec.State),
      r.err = none → Inv P r.stream.enc ss → ss.opts = some o →
      (∀ t ∈ stmts, tripleWF t = true) → (∀ t ∈ stmts, stmtFits P t = true) →
      ∃ ss' rows, (stmtLoop (Stream.triple exc) r stmts).err = none ∧
        allRowsOf (stmtLoop (Stream.triple exc) r stmts) = allRowsOf r ++ rows ∧
        Inv P (stmtLoop (Stream.triple exc) r stmts).stream.enc ss' ∧ ss'.opts = some o ∧
        RunsTo ss rows ss' (stmts.map (fun t => Event.stmt (t.map Term.norm))) := by
  intro stmts r ss herr inv ho hwf hfit
  rcases stmtLoop_triple_sim_gen (F := True) hv h1 exc stmts r ss herr inv ho hwf (fun t ht _ => hfit t ht) with
    ⟨h, _⟩ | h
  · exact absurd trivial h
  · exact h

theorem stmtLoop_quad_sim_gen {F : Prop} {P : Preset} {o : Options} (hv : P.valid = true)
    (h2 : o.physicalType = 2) (exc : PyErr) :
    ∀ (stmts : List (List Term)) (r : Run) (ss : Spec.State),
      r.err = none → Inv P r.stream.enc ss → ss.opts = some o →
      (∀ t ∈ stmts, quadWF t = true) → (∀ t ∈ stmts, F → stmtFits P t = true) →
      (¬ F ∧ (stmtLoop (Stream.quad exc) r stmts).err ≠ none) ∨
      ∃ ss' rows, (stmtLoop (Stream.quad exc) r stmts).err = none ∧
        allRowsOf (stmtLoop (Stream.quad exc) r stmts) = allRowsOf r ++ rows ∧
        Inv P (stmtLoop (Stream.quad exc) r stmts).stream.enc ss' ∧ ss'.opts = some o ∧
        RunsTo ss rows ss' (stmts.map (fun t => Event.stmt (t.map Term.norm))) := by
  intro stmts
  induction stmts with
  | nil =>
    intro r ss herr inv ho _ _
    exact Or.inr ⟨ss, [], herr, by simp [stmtLoop], inv, ho, RunsTo.nil ss⟩
  | cons t ts ih =>
    intro r ss herr inv ho hwf hfit
    obtain ⟨s, p, ob, g, rfl, hs, hp, hob, hg⟩ := quadWF_elim (hwf t List.mem_cons_self)
    have hf : F → TFits P (stmtKeys P [s, p, ob, g]) :=
      fun hF => TFits.of_stmtFits hv (hfit _ List.mem_cons_self hF)
    rcases quad_run_gen (posn_of_valid hv) hf inv ho h2 exc s p ob g hs hp hob hg
        (termKeys_sub_stmtKeys (by simp)) (termKeys_sub_stmtKeys (by simp))
        (termKeys_sub_stmtKeys (by simp)) (termKeys_sub_stmtKeys (by simp)) with
      ⟨hnF, es', e, herr1⟩ | ⟨es', rows, ss1, heq, inv1, ho1, _, hrun⟩
    · left
      have hloop : stmtLoop (Stream.quad exc) r ([s, p, ob, g] :: ts)
          = { r with stream := { r.stream with enc := es' }, err := some e } := by
        simp only [stmtLoop, Stream.quad_err herr1]
      rw [hloop]
      exact ⟨hnF, by simp⟩
    obtain ⟨s', fr, hstep, henc', hrows⟩ := Stream.quad_ok heq
    have inv1' : Inv P (r.push s' fr).stream.enc ss1 := by simpa [Run.push, henc'] using inv1
    have hloop : stmtLoop (Stream.quad exc) r ([s, p, ob, g] :: ts)
        = stmtLoop (Stream.quad exc) (r.push s' fr) ts := by
      simp only [stmtLoop, hstep]
    rw [hloop]
    rcases ih (r.push s' fr) ss1 (by simpa [Run.push] using herr) inv1' ho1
      (fun t ht => hwf t (List.mem_cons_of_mem _ ht)) (fun t ht => hfit t (List.mem_cons_of_mem _ ht)) with
      h | ⟨ss', rows2, e1, e2, e3, e4, e5⟩
    · exact Or.inl h
    · right
      refine ⟨ss', rows ++ rows2, e1, ?_, e3, e4, ?_⟩
      · rw [e2, allRowsOf_push hrows, List.append_assoc]
      · exact RunsTo.trans (e₁ := [Event.stmt [s.norm, p.norm, ob.norm, g.norm]]) hrun e5

theorem stmtLoop_quad_sim {P : Preset} {o : Options} (hv : P.valid = true) (h2 : o.physicalType = 2)
    (exc : PyErr) :
    ∀ (stmts : List (List Term)) (r : Run) (ss : Spec.State),
      r.err = none → Inv P r.stream.enc ss → ss.opts = some o →
      (∀ t ∈ stmts, quadWF t = true) → (∀ t ∈ stmts, stmtFits P t = true) →
      ∃ ss' rows, (stmtLoop (Stream.quad exc) r stmts).err = none ∧
        allRowsOf (stmtLoop (Stream.quad exc) r stmts) = allRowsOf r ++ rows ∧
        Inv P (stmtLoop (Stream.quad exc) r stmts).stream.enc ss' ∧ ss'.opts = some o ∧
        RunsTo ss rows ss' (stmts.map (fun t => Event.stmt (t.map Term.norm))) := by
  intro stmts r ss herr inv ho hwf hfit
  rcases stmtLoop_quad_sim_gen (F := True) hv h2 exc stmts r ss herr inv ho hwf (fun t ht _ => hfit t ht) with
    ⟨h, _⟩ | h
  · exact absurd trivial h
  · exact h

/-- The options row followed by a segment of the reference run. -/
theorem runRows_options {s : Stream} {ss0 ss' : Spec.State} {rows : List Row} {evs : List Event}
    (hstep : Spec.step {} s.optionsRow = .ok (ss0, none)) (hrun : RunsTo ss0 rows ss' evs) :
    Spec.runRows ([s.optionsRow] ++ rows) = (ss', evs, none) := by
  simp only [Spec.runRows, List.singleton_append, run_cons_ok hstep, Option.toList, List.append_nil]
  have := hrun.final [] (0 + 1)
  simpa using this

/-- The start of every run on a fresh stream: the options row, then the reference decoder is in a
    state related to the writer's. -/
theorem final_assembly {s : Stream} {cls : StreamClass} {o : SerOptions} (hs : Stream.new cls o = .ok s)
    (hl : validLogical s.logicalType = true) {r : Run} {evs : List Event}
    (hloop : ∀ ss0 oo, Inv o.preset s.enc ss0 → ss0.opts = some oo → oo.physicalType = cls.physical →
      ss0.graph = none →
      ∃ ss' rows, r.err = none ∧ allRowsOf r = [s.optionsRow] ++ rows ∧ RunsTo ss0 rows ss' evs) :
    r.err = none ∧ ∃ st, Spec.runRows (allRowsOf r) = (st, evs, none) := by
  obtain ⟨ss0, oo, hstep, inv0, ho0, hph, hg0⟩ := options_step hs hl
  obtain ⟨ss', rows, herr, hrows, hrun⟩ := hloop ss0 oo inv0 ho0 hph hg0
  refine ⟨herr, ss', ?_⟩
  rw [hrows]
  exact runRows_options hstep hrun

theorem enroll_fresh {s : Stream} {cls : StreamClass} {o : SerOptions} (hs : Stream.new cls o = .ok s) :
    s.enroll.enc = s.enc ∧ allRowsOf { stream := s.enroll } = [s.optionsRow] := by
  obtain ⟨_, _, _, _, hrows, henr, _⟩ := Stream.new_spec hs
  simp [Stream.enroll, henr, Stream.pushRows, allRowsOf, rowsOf, hrows]

/-- TRIPLES without sizing hypothesis (`F` = "every statement fits"): either the run ends with an
    exception (impossible under `F`) — and then everything written so far, frames and pending rows, is
    accepted by the reference decoder and denotes a prefix of the input — or the run completes and
    denotes the input. -/
theorem triples_sim_gen {F : Prop} (o : SerOptions) (s : Stream) (stmts : List (List Term))
    (hs : Stream.new .triple o = .ok s) (hl : validLogical s.logicalType = true)
    (hwf : ∀ t ∈ stmts, tripleWF t = true) (hfit : ∀ t ∈ stmts, F → stmtFits o.preset t = true) :
    (¬ F ∧ (streamFrames s (.gen stmts)).err ≠ none ∧
      ∃ st evs, Spec.runRows (allRowsOf (streamFrames s (.gen stmts))) = (st, evs, none) ∧
        evs <+: stmts.map (fun t => Event.stmt (t.map Term.norm))) ∨
    ((streamFrames s (.gen stmts)).err = none ∧
      ∃ st, Spec.runRows (allRowsOf (streamFrames s (.gen stmts)))
            = (st, stmts.map (fun t => Event.stmt (t.map Term.norm)), none)) := by
  obtain ⟨hv, hcls, _⟩ := Stream.new_spec hs
  obtain ⟨henc, hrows0⟩ := enroll_fresh hs
  obtain ⟨ss0, oo, hstep, inv0, ho0, hph, _⟩ := options_step hs hl
  rcases stmtLoop_triple_sim_gen (F := F) hv (o := oo) (by simpa [StreamClass.physical] using hph)
      .runtimeError stmts { stream := s.enroll } ss0 rfl (by rw [henc]; exact inv0) ho0 hwf hfit with
    ⟨hnF, e1, ss', rows, evs, e2, e5, hpre⟩ | ⟨ss', rows, e1, e2, _, _, e5⟩
  · left
    have hsome : (stmtLoop (Stream.triple .runtimeError) { stream := s.enroll } stmts).err.isSome = true := by
      cases h : (stmtLoop (Stream.triple .runtimeError) { stream := s.enroll } stmts).err with
      | none => exact absurd h e1
      | some _ => rfl
    have hsf : streamFrames s (.gen stmts)
        = stmtLoop (Stream.triple .runtimeError) { stream := s.enroll } stmts := by
      simp only [streamFrames, hcls, triplesStreamFrames, prologue, SerData.stmts, hsome, if_true]
    rw [hsf]
    refine ⟨hnF, e1, ss', evs, ?_, hpre⟩
    rw [e2, hrows0]
    exact runRows_options hstep e5
  · right
    have hsf : streamFrames s (.gen stmts)
        = epilogue (stmtLoop (Stream.triple .runtimeError) { stream := s.enroll } stmts) false := by
      simp only [streamFrames, hcls, triplesStreamFrames, prologue, SerData.stmts, e1, Option.isSome_none,
        Bool.false_eq_true, if_false]
    obtain ⟨a1, a2, _⟩ := allRowsOf_epilogue (stmtLoop (Stream.triple .runtimeError) { stream := s.enroll } stmts) false
    rw [hsf]
    refine ⟨a2.trans e1, ss', ?_⟩
    rw [a1, e2, hrows0]
    exact runRows_options hstep e5

theorem triples_sim (o : SerOptions) (s : Stream) (stmts : List (List Term))
    (hs : Stream.new .triple o = .ok s) (hl : validLogical s.logicalType = true)
    (hwf : ∀ t ∈ stmts, tripleWF t = true) (hfit : ∀ t ∈ stmts, stmtFits o.preset t = true) :
    (streamFrames s (.gen stmts)).err = none ∧
    ∃ st, Spec.runRows (allRowsOf (streamFrames s (.gen stmts)))
            = (st, stmts.map (fun t => Event.stmt (t.map Term.norm)), none) := by
  rcases triples_sim_gen (F := True) o s stmts hs hl hwf (fun t ht _ => hfit t ht) with ⟨h, _⟩ | h
  · exact absurd trivial h
  · exact h

theorem quads_sim_gen {F : Prop} (o : SerOptions) (s : Stream) (stmts : List (List Term))
    (hs : Stream.new .quad o = .ok s) (hl : validLogical s.logicalType = true)
    (hwf : ∀ t ∈ stmts, quadWF t = true) (hfit : ∀ t ∈ stmts, F → stmtFits o.preset t = true) :
    (¬ F ∧ (streamFrames s (.gen stmts)).err ≠ none) ∨
    ((streamFrames s (.gen stmts)).err = none ∧
      ∃ st, Spec.runRows (allRowsOf (streamFrames s (.gen stmts)))
            = (st, stmts.map (fun t => Event.stmt (t.map Term.norm)), none)) := by
  obtain ⟨hv, hcls, _⟩ := Stream.new_spec hs
  obtain ⟨henc, hrows0⟩ := enroll_fresh hs
  obtain ⟨ss0, oo, hstep, inv0, ho0, hph, _⟩ := options_step hs hl
  rcases stmtLoop_quad_sim_gen (F := F) hv (o := oo) (by simpa [StreamClass.physical] using hph)
      .runtimeError stmts { stream := s.enroll } ss0 rfl (by rw [henc]; exact inv0) ho0 hwf hfit with
    ⟨hnF, e1⟩ | ⟨ss', rows, e1, e2, _, _, e5⟩
  · left
    have hsome : (stmtLoop (Stream.quad .runtimeError) { stream := s.enroll } stmts).err.isSome = true := by
      cases h : (stmtLoop (Stream.quad .runtimeError) { stream := s.enroll } stmts).err with
      | none => exact absurd h e1
      | some _ => rfl
    have hsf : streamFrames s (.gen stmts)
        = stmtLoop (Stream.quad .runtimeError) { stream := s.enroll } stmts := by
      simp only [streamFrames, hcls, quadsStreamFrames, prologue, SerData.stmts, hsome, if_true]
    rw [hsf]
    exact ⟨hnF, e1⟩
  · right
    have hsf : streamFrames s (.gen stmts)
        = epilogue (stmtLoop (Stream.quad .runtimeError) { stream := s.enroll } stmts) true := by
      simp only [streamFrames, hcls, quadsStreamFrames, prologue, SerData.stmts, e1, Option.isSome_none,
        Bool.false_eq_true, if_false]
    obtain ⟨a1, a2, _⟩ := allRowsOf_epilogue (stmtLoop (Stream.quad .runtimeError) { stream := s.enroll } stmts) true
    rw [hsf]
    refine ⟨a2.trans e1, ss', ?_⟩
    rw [a1, e2, hrows0]
    exact runRows_options hstep e5

theorem quads_sim (o : SerOptions) (s : Stream) (stmts : List (List Term))
    (hs : Stream.new .quad o = .ok s) (hl : validLogical s.logicalType = true)
    (hwf : ∀ t ∈ stmts, quadWF t = true) (hfit : ∀ t ∈ stmts, stmtFits o.preset t = true) :
    (streamFrames s (.gen stmts)).err = none ∧
    ∃ st, Spec.runRows (allRowsOf (streamFrames s (.gen stmts)))
            = (st, stmts.map (fun t => Event.stmt (t.map Term.norm)), none) := by
  rcases quads_sim_gen (F := True) o s stmts hs hl hwf (fun t ht _ => hfit t ht) with ⟨h, _⟩ | h
  · exact absurd trivial h
  · exact h


/-! ## Graph streams -/

/-- The terms fit the tables: some key set with at most `maxSize` distinct keys per table covers them. -/
def TermFits (P : Preset) (ts : List Term) : Prop :=
  ∃ T, TFits P T ∧ ∀ t ∈ ts, (termKeys (P.maxPrefixes != 0) t).sub T

/-- A well-formed triple (as a 3-element list) that fits. -/
def TripleOK (P : Preset) (t : List Term) : Prop :=
  ∃ a b c, t = [a, b, c] ∧ a.WF = true ∧ b.WF = true ∧ c.WF = true ∧ TermFits P [a, b, c]

/-- General forms: the sizing part holds under `F` only. -/
def TermFitsG (F : Prop) (P : Preset) (ts : List Term) : Prop :=
  ∃ T, (F → TFits P T) ∧ ∀ t ∈ ts, (termKeys (P.maxPrefixes != 0) t).sub T

def TripleOKG (F : Prop) (P : Preset) (t : List Term) : Prop :=
  ∃ a b c, t = [a, b, c] ∧ a.WF = true ∧ b.WF = true ∧ c.WF = true ∧ TermFitsG F P [a, b, c]

theorem TermFits.toG {P : Preset} {ts : List Term} (h : TermFits P ts) : TermFitsG True P ts := by
  obtain ⟨T, hf, hk⟩ := h
  exact ⟨T, fun _ => hf, hk⟩

theorem TripleOK.toG {P : Preset} {t : List Term} (h : TripleOK P t) : TripleOKG True P t := by
  obtain ⟨a, b, c, e, ha, hb, hc, hf⟩ := h
  exact ⟨a, b, c, e, ha, hb, hc, hf.toG⟩

theorem rowsOf_push' {frames : List Frame} {s s' : Stream} {fr : Option Frame} {rows : List Row}
    (h : frRows fr ++ s'.flow.rows = s.flow.rows ++ rows) :
    rowsOf (frames ++ fr.toList) s' = rowsOf frames s ++ rows := by
  rw [rowsOf_push, h]
  simp [rowsOf, List.append_assoc]

theorem Stream.graphTriples_sim_gen {F : Prop} {P : Preset} {o : Options} (hpn : 0 < P.maxNames)
    (h3 : o.physicalType = 3) (exc : PyErr) (gn : Term) :
    ∀ (triples : List (List Term)) (s : Stream) (acc : List Frame) (ss : Spec.State),
      Inv P s.enc ss → ss.opts = some o → ss.graph = some gn →
      (∀ t ∈ triples, TripleOKG F P t) →
      (¬ F ∧ ∃ s' frames' e, Stream.graphTriples exc s triples acc = (s', frames', some e)) ∨
      ∃ s' frames' ss' rows, Stream.graphTriples exc s triples acc = (s', frames', none) ∧
        rowsOf frames' s' = rowsOf acc s ++ rows ∧ Inv P s'.enc ss' ∧ ss'.opts = some o ∧
        ss'.graph = some gn ∧
        RunsTo ss rows ss' (triples.map (fun t => Event.stmt (t.map Term.norm ++ [gn]))) := by
  intro triples
  induction triples with
  | nil =>
    intro s acc ss inv ho hg _
    exact Or.inr ⟨s, acc, ss, [], by simp [Stream.graphTriples], by simp, inv, ho, hg, RunsTo.nil ss⟩
  | cons t ts ih =>
    intro s acc ss inv ho hg hok
    obtain ⟨a, b, c, rfl, ha, hb, hc, T, hf, hk⟩ := hok t List.mem_cons_self
    rcases triple_run3_gen hpn hf inv ho h3 hg exc a b c ha hb hc (hk a (by simp)) (hk b (by simp))
        (hk c (by simp)) with
      ⟨hnF, es', e, herr⟩ | ⟨es', rows, ss1, heq, inv1, ho1, hg1, hrun⟩
    · left
      refine ⟨hnF, ?_⟩
      simp only [Stream.graphTriples, Stream.triple_err herr]
      exact ⟨_, _, _, rfl⟩
    obtain ⟨s', fr, hstep, henc', hrows⟩ := Stream.triple_ok heq
    rcases ih s' (acc ++ fr.toList) ss1 (by rw [henc']; exact inv1) ho1 hg1
        (fun t ht => hok t (List.mem_cons_of_mem _ ht)) with
      ⟨hnF, s2, frames2, e, e1⟩ | ⟨s2, frames2, ss2, rows2, e1, e2, e3, e4, e5, e6⟩
    · left
      exact ⟨hnF, s2, frames2, e, by simp only [Stream.graphTriples, hstep, e1]⟩
    right
    refine ⟨s2, frames2, ss2, rows ++ rows2, ?_, ?_, e3, e4, e5, ?_⟩
    · simp only [Stream.graphTriples, hstep, e1]
    · rw [e2, rowsOf_push' hrows, List.append_assoc]
    · exact RunsTo.trans (e₁ := [Event.stmt [a.norm, b.norm, c.norm, gn]]) hrun e6

theorem Stream.graphTriples_sim {P : Preset} {o : Options} (h3 : o.physicalType = 3) (exc : PyErr)
    (gn : Term) :
    ∀ (triples : List (List Term)) (s : Stream) (acc : List Frame) (ss : Spec.State),
      Inv P s.enc ss → ss.opts = some o → ss.graph = some gn →
      (∀ t ∈ triples, TripleOK P t) →
      ∃ s' frames' ss' rows, Stream.graphTriples exc s triples acc = (s', frames', none) ∧
        rowsOf frames' s' = rowsOf acc s ++ rows ∧ Inv P s'.enc ss' ∧ ss'.opts = some o ∧
        ss'.graph = some gn ∧
        RunsTo ss rows ss' (triples.map (fun t => Event.stmt (t.map Term.norm ++ [gn]))) := by
  intro triples s acc ss inv ho hg hok
  cases triples with
  | nil => exact ⟨s, acc, ss, [], by simp [Stream.graphTriples], by simp, inv, ho, hg, RunsTo.nil ss⟩
  | cons t ts =>
    have hpn : 0 < P.maxNames := by
      obtain ⟨_, _, _, _, _, _, _, T, hf, _⟩ := hok t List.mem_cons_self
      exact hf.posn
    rcases Stream.graphTriples_sim_gen (F := True) hpn h3 exc gn (t :: ts) s acc ss inv ho hg
        (fun t ht => (hok t ht).toG) with ⟨h, _⟩ | h
    · exact absurd trivial h
    · exact h

theorem Stream.graph_sim_gen {F : Prop} {P : Preset} {o : Options} (hpn : 0 < P.maxNames)
    (h3 : o.physicalType = 3) (exc : PyErr)
    (s : Stream) (ss : Spec.State) (g : Term) (triples : List (List Term))
    (inv : Inv P s.enc ss) (ho : ss.opts = some o)
    (hg : g.WFGraph = true) (hgf : TermFitsG F P [g]) (htr : ∀ t ∈ triples, TripleOKG F P t) :
    (¬ F ∧ ∃ s' frames e, s.graph exc g triples = (s', frames, some e)) ∨
    ∃ s' frames ss' rows, s.graph exc g triples = (s', frames, none) ∧
      rowsOf frames s' = s.flow.rows ++ rows ∧ Inv P s'.enc ss' ∧ ss'.opts = some o ∧
      ss'.graph = none ∧
      RunsTo ss rows ss' (triples.map (fun t => Event.stmt (t.map Term.norm ++ [g.norm]))) := by
  obtain ⟨T, hf, hk⟩ := hgf
  rcases graphStart_run_gen hpn hf inv ho h3 g hg (hk g (by simp)) with
    ⟨hnF, te', e, herr⟩ | ⟨te', rows0, w, ss1, heq, inv1, ho1, hg1, hrun1⟩
  · left
    refine ⟨hnF, ?_⟩
    simp only [Stream.graph, TermEnc.beginRow_ok inv.nb, herr]
    exact ⟨_, _, _, rfl⟩
  rcases Stream.graphTriples_sim_gen hpn h3 exc g.norm triples
      (({ s with enc := { s.enc with te := te'.endRow } } : Stream).pushRows (rows0 ++ [Row.graphStart (some w)]))
      [] ss1 inv1 ho1 hg1 htr with
    ⟨hnF, s2, frames2, e, e1⟩ | ⟨s2, frames2, ss2, rows2, e1, e2, e3, e4, e5, e6⟩
  · left
    exact ⟨hnF, s2, frames2, e, by simp only [Stream.graph, TermEnc.beginRow_ok inv.nb, heq, e1]⟩
  right
  obtain ⟨ss3, inv3, ho3, hg3, hrun3⟩ := graphEnd_run e3 e4 h3 e5
  refine ⟨{ (s2.pushRows [Row.graphEnd]) with flow := (s2.pushRows [Row.graphEnd]).flow.frameFromBounds.1 },
    frames2 ++ (s2.pushRows [Row.graphEnd]).flow.frameFromBounds.2.toList, ss3,
    (rows0 ++ [Row.graphStart (some w)]) ++ (rows2 ++ [Row.graphEnd]), ?_, ?_, inv3, ho3, hg3, ?_⟩
  · simp only [Stream.graph, TermEnc.beginRow_ok inv.nb, heq, e1]
  · have hfb := frameFromBounds_rows (s2.pushRows [Row.graphEnd]).flow
    have : rowsOf (frames2 ++ (s2.pushRows [Row.graphEnd]).flow.frameFromBounds.2.toList)
        { (s2.pushRows [Row.graphEnd]) with flow := (s2.pushRows [Row.graphEnd]).flow.frameFromBounds.1 }
        = rowsOf frames2 s2 ++ [Row.graphEnd] :=
      rowsOf_push' (s := s2) (by rw [hfb]; rfl)
    rw [this, e2]
    simp [rowsOf, Stream.pushRows, List.append_assoc]
  · have hend : RunsTo ss2 [Row.graphEnd] ss3 [] := by
      intro rest acc i
      simp [hrun3]
    have := (RunsTo.of_noev hrun1).trans (e6.trans hend)
    simpa using this

theorem Stream.graph_sim {P : Preset} {o : Options} (h3 : o.physicalType = 3) (exc : PyErr)
    (s : Stream) (ss : Spec.State) (g : Term) (triples : List (List Term))
    (inv : Inv P s.enc ss) (ho : ss.opts = some o)
    (hg : g.WFGraph = true) (hgf : TermFits P [g]) (htr : ∀ t ∈ triples, TripleOK P t) :
    ∃ s' frames ss' rows, s.graph exc g triples = (s', frames, none) ∧
      rowsOf frames s' = s.flow.rows ++ rows ∧ Inv P s'.enc ss' ∧ ss'.opts = some o ∧
      ss'.graph = none ∧
      RunsTo ss rows ss' (triples.map (fun t => Event.stmt (t.map Term.norm ++ [g.norm]))) := by
  have hpn : 0 < P.maxNames := by
    obtain ⟨T, hf, _⟩ := hgf
    exact hf.posn
  rcases Stream.graph_sim_gen (F := True) hpn h3 exc s ss g triples inv ho hg hgf.toG
      (fun t ht => (htr t ht).toG) with ⟨h, _⟩ | h
  · exact absurd trivial h
  · exact h

def CurOK (P : Preset) (cur : Option (Term × List (List Term))) : Prop :=
  match cur with
  | none => True
  | some (g, acc) => g.WFGraph = true ∧ TermFits P [g] ∧ ∀ t ∈ acc, TripleOK P t

def CurOKG (F : Prop) (P : Preset) (cur : Option (Term × List (List Term))) : Prop :=
  match cur with
  | none => True
  | some (g, acc) => g.WFGraph = true ∧ TermFitsG F P [g] ∧ ∀ t ∈ acc, TripleOKG F P t

theorem CurOK.toG {P : Preset} {cur : Option (Term × List (List Term))} (h : CurOK P cur) :
    CurOKG True P cur := by
  match cur, h with
  | none, _ => trivial
  | some (g, acc), h => exact ⟨h.1, h.2.1.toG, fun t ht => (h.2.2 t ht).toG⟩

def pendingEvs (cur : Option (Term × List (List Term))) : List Event :=
  match cur with
  | none => []
  | some (g, acc) => acc.map (fun t => Event.stmt (t.map Term.norm ++ [g.norm]))

theorem graphsLoop_sim_gen {F : Prop} {P : Preset} {o : Options} (hv : P.valid = true)
    (h3 : o.physicalType = 3) :
    ∀ (stmts : List (List Term)) (r : Run) (ss : Spec.State) (cur : Option (Term × List (List Term))),
      r.err = none → Inv P r.stream.enc ss → ss.opts = some o → CurOKG F P cur →
      (∀ t ∈ stmts, quadWF t = true) → (∀ t ∈ stmts, F → stmtFits P t = true) →
      (¬ F ∧ (graphsLoop r cur stmts).err ≠ none) ∨
      ∃ ss' rows, (graphsLoop r cur stmts).err = none ∧
        allRowsOf (graphsLoop r cur stmts) = allRowsOf r ++ rows ∧
        RunsTo ss rows ss' (pendingEvs cur ++ stmts.map (fun t => Event.stmt (t.map Term.norm))) := by
  have hpn := posn_of_valid hv
  intro stmts
  induction stmts with
  | nil =>
    intro r ss cur herr inv ho hcur _ _
    match cur, hcur with
    | none, _ =>
      exact Or.inr ⟨ss, [], by simpa [graphsLoop] using herr, by simp [graphsLoop],
        by simpa [pendingEvs] using RunsTo.nil ss⟩
    | some (g, acc), hcur =>
      obtain ⟨hg, hgf, hacc⟩ := hcur
      rcases Stream.graph_sim_gen hpn h3 .runtimeError r.stream ss g acc inv ho hg hgf hacc with
        ⟨hnF, s', frames, e, e1⟩ | ⟨s', frames, ss', rows, e1, e2, _, _, _, e6⟩
      · exact Or.inl ⟨hnF, by simp [graphsLoop, e1]⟩
      right
      refine ⟨ss', rows, by simp [graphsLoop, e1], ?_, by simpa [pendingEvs] using e6⟩
      simp only [graphsLoop, e1, allRowsOf]
      simp only [rowsOf, List.flatMap_append, List.append_assoc] at e2 ⊢
      rw [e2]
  | cons st rest ih =>
    intro r ss cur herr inv ho hcur hwf hfit
    obtain ⟨a, b, c, g, rfl, ha, hb, hc, hg⟩ := quadWF_elim (hwf st List.mem_cons_self)
    have hf : F → TFits P (stmtKeys P [a, b, c, g]) :=
      fun hF => TFits.of_stmtFits hv (hfit _ List.mem_cons_self hF)
    have hgf : TermFitsG F P [g] := ⟨_, hf, fun t ht => termKeys_sub_stmtKeys (by
      simp only [List.mem_singleton] at ht; subst ht; simp)⟩
    have htf : TripleOKG F P [a, b, c] := ⟨a, b, c, rfl, ha, hb, hc, _, hf, fun t ht => termKeys_sub_stmtKeys (by
      simp only [List.mem_cons, List.not_mem_nil, or_false] at ht
      rcases ht with rfl | rfl | rfl <;> simp)⟩
    have hwf' := fun t ht => hwf t (List.mem_cons_of_mem _ ht)
    have hfit' := fun t ht => hfit t (List.mem_cons_of_mem _ ht)
    match cur, hcur with
    | none, _ =>
      rcases ih r ss (some (g, [[a, b, c]])) herr inv ho
        ⟨hg, hgf, fun t ht => by simp only [List.mem_singleton] at ht; subst ht; exact htf⟩ hwf' hfit' with
        ⟨hnF, e1⟩ | ⟨ss', rows, e1, e2, e3⟩
      · exact Or.inl ⟨hnF, by simpa [graphsLoop, stmtGraph?] using e1⟩
      right
      refine ⟨ss', rows, ?_, ?_, ?_⟩
      · simpa [graphsLoop, stmtGraph?] using e1
      · simpa [graphsLoop, stmtGraph?] using e2
      · simpa [pendingEvs] using e3
    | some (cg, acc), hcur =>
      obtain ⟨hcg, hcgf, hacc⟩ := hcur
      by_cases heq : cg = g
      · subst heq
        rcases ih r ss (some (cg, acc ++ [[a, b, c]])) herr inv ho
          ⟨hcg, hcgf, fun t ht => by
            rcases List.mem_append.mp ht with ht | ht
            · exact hacc t ht
            · simp only [List.mem_singleton] at ht; subst ht; exact htf⟩ hwf' hfit' with
          ⟨hnF, e1⟩ | ⟨ss', rows, e1, e2, e3⟩
        · exact Or.inl ⟨hnF, by simpa [graphsLoop, stmtGraph?] using e1⟩
        right
        refine ⟨ss', rows, ?_, ?_, ?_⟩
        · simpa [graphsLoop, stmtGraph?] using e1
        · simpa [graphsLoop, stmtGraph?] using e2
        · simpa [pendingEvs] using e3
      · have hne : (cg == g) = false := by simpa using heq
        rcases Stream.graph_sim_gen hpn h3 .runtimeError r.stream ss cg acc inv ho hcg hcgf hacc with
          ⟨hnF, s', frames, e, g1⟩ | ⟨s', frames, ss1, rows1, g1, g2, g3, g4, g5, g6⟩
        · exact Or.inl ⟨hnF, by simp [graphsLoop, stmtGraph?, hne, g1]⟩
        have hloop : graphsLoop r (some (cg, acc)) ([a, b, c, g] :: rest)
            = graphsLoop { stream := s', frames := r.frames ++ frames, err := none } (some (g, [[a, b, c]])) rest := by
          simp [graphsLoop, stmtGraph?, hne, g1]
        rw [hloop]
        rcases ih { stream := s', frames := r.frames ++ frames, err := none } ss1 (some (g, [[a, b, c]])) rfl g3 g4
            ⟨hg, hgf, fun t ht => by simp only [List.mem_singleton] at ht; subst ht; exact htf⟩ hwf' hfit' with
          h | ⟨ss', rows, e1, e2, e3⟩
        · exact Or.inl h
        right
        refine ⟨ss', rows1 ++ rows, e1, ?_, ?_⟩
        · rw [e2]
          simp only [allRowsOf]
          simp only [rowsOf, List.flatMap_append, List.append_assoc] at g2 ⊢
          have g2' := congrArg (· ++ rows) g2
          simp only [List.append_assoc] at g2'
          rw [g2']
        · have := g6.trans e3
          simpa [pendingEvs] using this

theorem graphsLoop_sim {P : Preset} {o : Options} (hv : P.valid = true) (h3 : o.physicalType = 3) :
    ∀ (stmts : List (List Term)) (r : Run) (ss : Spec.State) (cur : Option (Term × List (List Term))),
      r.err = none → Inv P r.stream.enc ss → ss.opts = some o → CurOK P cur →
      (∀ t ∈ stmts, quadWF t = true) → (∀ t ∈ stmts, stmtFits P t = true) →
      ∃ ss' rows, (graphsLoop r cur stmts).err = none ∧
        allRowsOf (graphsLoop r cur stmts) = allRowsOf r ++ rows ∧
        RunsTo ss rows ss' (pendingEvs cur ++ stmts.map (fun t => Event.stmt (t.map Term.norm))) := by
  intro stmts r ss cur herr inv ho hcur hwf hfit
  rcases graphsLoop_sim_gen (F := True) hv h3 stmts r ss cur herr inv ho hcur.toG hwf
      (fun t ht _ => hfit t ht) with ⟨h, _⟩ | h
  · exact absurd trivial h
  · exact h

theorem graphs_sim_gen {F : Prop} (o : SerOptions) (s : Stream) (stmts : List (List Term))
    (hs : Stream.new .graph o = .ok s) (hl : validLogical s.logicalType = true)
    (hwf : ∀ t ∈ stmts, quadWF t = true) (hfit : ∀ t ∈ stmts, F → stmtFits o.preset t = true) :
    (¬ F ∧ (streamFrames s (.gen stmts)).err ≠ none) ∨
    ((streamFrames s (.gen stmts)).err = none ∧
      ∃ st, Spec.runRows (allRowsOf (streamFrames s (.gen stmts)))
            = (st, stmts.map (fun t => Event.stmt (t.map Term.norm)), none)) := by
  obtain ⟨hv, hcls, _⟩ := Stream.new_spec hs
  obtain ⟨henc, hrows0⟩ := enroll_fresh hs
  obtain ⟨ss0, oo, hstep, inv0, ho0, hph, _⟩ := options_step hs hl
  rcases graphsLoop_sim_gen (F := F) hv (o := oo) (by simpa [StreamClass.physical] using hph) stmts
      { stream := s.enroll } ss0 none rfl (by rw [henc]; exact inv0) ho0 trivial hwf hfit with
    ⟨hnF, e1⟩ | ⟨ss', rows, e1, e2, e5⟩
  · left
    have hsome : (graphsLoop { stream := s.enroll } none stmts).err.isSome = true := by
      cases h : (graphsLoop { stream := s.enroll } none stmts).err with
      | none => exact absurd h e1
      | some _ => rfl
    have hsf : streamFrames s (.gen stmts) = graphsLoop { stream := s.enroll } none stmts := by
      simp only [streamFrames, hcls, graphsStreamFrames, prologue, SerData.stmts, hsome, if_true]
    rw [hsf]
    exact ⟨hnF, e1⟩
  · right
    have hsf : streamFrames s (.gen stmts)
        = epilogue (graphsLoop { stream := s.enroll } none stmts) true := by
      simp only [streamFrames, hcls, graphsStreamFrames, prologue, SerData.stmts, e1, Option.isSome_none,
        Bool.false_eq_true, if_false]
    obtain ⟨a1, a2, _⟩ := allRowsOf_epilogue (graphsLoop { stream := s.enroll } none stmts) true
    rw [hsf]
    refine ⟨a2.trans e1, ss', ?_⟩
    rw [a1, e2, hrows0]
    exact runRows_options hstep (by simpa [pendingEvs] using e5)

theorem graphs_sim (o : SerOptions) (s : Stream) (stmts : List (List Term))
    (hs : Stream.new .graph o = .ok s) (hl : validLogical s.logicalType = true)
    (hwf : ∀ t ∈ stmts, quadWF t = true) (hfit : ∀ t ∈ stmts, stmtFits o.preset t = true) :
    (streamFrames s (.gen stmts)).err = none ∧
    ∃ st, Spec.runRows (allRowsOf (streamFrames s (.gen stmts)))
            = (st, stmts.map (fun t => Event.stmt (t.map Term.norm)), none) := by
  rcases graphs_sim_gen (F := True) o s stmts hs hl hwf (fun t ht _ => hfit t ht) with ⟨h, _⟩ | h
  · exact absurd trivial h
  · exact h


/-! ## Exported statement-level corollaries (reusable core of C18/C19) -/

/-- One `encodeTriple` call on a TRIPLES stream, from the executable hypotheses: under the invariant
    `Inv` (mirrored tables, equal `lastReused`, equal repeated terms up to `Term.norm`) the call
    succeeds, its rows are accepted by the reference decoder, denote the input triple, and the
    invariant is re-established. -/
theorem encodeTriple_sim_of_fits {P : Preset} {es : EncState} {ss : Spec.State} {o : Options}
    (hv : P.valid = true) (inv : Inv P es ss) (hopt : ss.opts = some o) (h1 : o.physicalType = 1)
    (exc : PyErr) (t : List Term) (hwf : tripleWF t = true) (hfit : stmtFits P t = true) :
    ∃ es' rows ss', encodeTriple exc es t = (es', .ok rows) ∧ Inv P es' ss' ∧ ss'.opts = some o ∧
      ss'.graph = ss.graph ∧ RunsTo ss rows ss' [Event.stmt (t.map Term.norm)] := by
  obtain ⟨s, p, ob, rfl, hs, hp, hob⟩ := tripleWF_elim hwf
  exact triple_run1 (TFits.of_stmtFits hv hfit) inv hopt h1 exc s p ob hs hp hob
    (termKeys_sub_stmtKeys (by simp)) (termKeys_sub_stmtKeys (by simp)) (termKeys_sub_stmtKeys (by simp))

/-- One `encodeQuad` call on a QUADS stream. -/
theorem encodeQuad_sim_of_fits {P : Preset} {es : EncState} {ss : Spec.State} {o : Options}
    (hv : P.valid = true) (inv : Inv P es ss) (hopt : ss.opts = some o) (h2 : o.physicalType = 2)
    (exc : PyErr) (t : List Term) (hwf : quadWF t = true) (hfit : stmtFits P t = true) :
    ∃ es' rows ss', encodeQuad exc es t = (es', .ok rows) ∧ Inv P es' ss' ∧ ss'.opts = some o ∧
      ss'.graph = ss.graph ∧ RunsTo ss rows ss' [Event.stmt (t.map Term.norm)] := by
  obtain ⟨s, p, ob, g, rfl, hs, hp, hob, hg⟩ := quadWF_elim hwf
  exact quad_run (TFits.of_stmtFits hv hfit) inv hopt h2 exc s p ob g hs hp hob hg
    (termKeys_sub_stmtKeys (by simp)) (termKeys_sub_stmtKeys (by simp))
    (termKeys_sub_stmtKeys (by simp)) (termKeys_sub_stmtKeys (by simp))

/-- A successful namespace declaration (version-2 streams): the rows are accepted and denote the
    declaration. The IRI's keys must fit (`T` with `TFits`). -/
theorem namespace_run {P : Preset} {T : Keys} (hf : TFits P T) {es : EncState} {ss : Spec.State}
    (inv : Inv P es ss) {o : Options} (hopt : ss.opts = some o) (hver : 2 ≤ o.version)
    (name iri : String) (hkn : nameKey (P.maxPrefixes != 0) iri ∈ T.n) (hkp : prefixKey iri ∈ T.p) :
    ∃ te' rows ss', encodeNamespace es.te name iri = (te', .ok rows) ∧
      Inv P { es with te := te' } ss' ∧ ss'.opts = some o ∧ ss'.graph = ss.graph ∧
      RunsTo ss rows ss' [Event.ns name (.iri iri)] := by
  obtain ⟨te', rows, p, n, R', heq, sim, res⟩ := iriIndices_sim hf (inv.wft.tinv T) iri hkn hkp
  obtain ⟨ssE, mE, fE, runE⟩ := sim.ing ss inv.em.startRow (by rw [hopt]; simp)
  have hself : setLR ssE es.te.startRow = ssE :=
    setLR_eq_self (fE.lrn.trans inv.lrn) (fE.lrp.trans inv.lrp) (fE.lrd.trans inv.lrd)
  have hres := res ssE (mE.agree sim.inv.wft R')
  rw [hself] at hres
  have hoE : ssE.opts = some o := fE.opts.trans hopt
  refine ⟨te'.endRow, rows ++ [Row.namespace name (some (p, n))], setLR ssE te', ?_, ?_, hoE, fE.graph, ?_⟩
  · simp only [encodeNamespace, TermEnc.beginRow_ok inv.nb, heq]
  · exact ⟨sim.inv.wft.endRow, EM.endRow (te := te') (mE.congr ⟨rfl, rfl, rfl⟩ ⟨rfl, rfl, rfl⟩ ⟨rfl, rfl, rfl⟩),
      rfl, rfl, rfl,
      by show ssE.rep.s = _; rw [fE.rep]; exact inv.rs,
      by show ssE.rep.p = _; rw [fE.rep]; exact inv.rp,
      by show ssE.rep.o = _; rw [fE.rep]; exact inv.ro,
      by show ssE.rep.g = _; rw [fE.rep]; exact inv.rg, rfl⟩
  · intro rest acc i
    have hv2 : ¬ (o.version < 2) := by omega
    have hstep : Spec.step ssE (Row.namespace name (some (p, n)))
        = .ok (setLR ssE te', some (Event.ns name (.iri iri))) := by
      simp only [Spec.step, hoE, hv2, if_false, Option.getD, hres, bind, Except.bind, pure, Except.pure]
    rw [List.append_assoc, runE, List.singleton_append, run_cons_ok hstep]
    simp only [Option.toList, List.length_append, List.length_cons, List.length_nil, Nat.add_assoc]


end Jelly

import JellyProofs.Lemmas.TableSim
/-!
# Single-table theory for the compression audit (C19)

* `XMirror` – exact mirror: `EMirror` plus its converse (every filled reader slot holds a key that is
  resident in the writer table under that index)
* `EntryCase.xmirror` – an entry row keeps the exact mirror and is not counted by `Spec.entryAudit`
* `nameTermIndex_exact` / `prefixTermIndex_exact` – the ids the writer emits, exactly
-/
namespace Jelly

/-- Exact mirror: the filled reader slots are exactly the resident `(key, index)` pairs of the writer. -/
structure XMirror (e : LookupEnc) (t : LookupDec) : Prop where
  em : EMirror e t
  conv : ∀ j k, t.data[j]? = some (some k) → (k, j + 1) ∈ e.lookup.data

theorem XMirror.new (n : Nat) : XMirror (LookupEnc.new n) (Spec.mkTable n) := by
  refine ⟨⟨rfl, by simp [Spec.mkTable, LookupEnc.new, Lookup.new], rfl, by
    intro k i h; simp [LookupEnc.new, Lookup.new] at h⟩, ?_⟩
  intro j k h
  simp only [Spec.mkTable, List.getElem?_replicate] at h
  split at h <;> simp at h

theorem XMirror.not_resident {e : LookupEnc} {t : LookupDec} (m : XMirror e t) {k : String}
    (hk : k ∉ e.lookup.data.map (·.1)) : Spec.resident t k = false := by
  cases hr : Spec.resident t k with
  | false => rfl
  | true =>
    exfalso
    simp only [Spec.resident, List.any_eq_true, beq_iff_eq] at hr
    obtain ⟨x, hx, rfl⟩ := hr
    obtain ⟨j, hj, hget⟩ := List.mem_iff_getElem.mp hx
    have : t.data[j]? = some (some k) := by rw [List.getElem?_eq_getElem hj, hget]
    exact hk (mem_keys_of_mem (m.conv j k this))

/-- The reader table is only touched in `lastReused`. -/
theorem XMirror.lr {e : LookupEnc} {t : LookupDec} (m : XMirror e t) (r : Nat) :
    XMirror e { t with lastReused := r } :=
  ⟨⟨m.em.size, m.em.len, m.em.la, m.em.res⟩, m.conv⟩

theorem xmirror_after_set {e : LookupEnc} {t : LookupDec} {k : String} {i : Nat} {l' : Lookup}
    (wf : e.lookup.WF) (m : XMirror e t) (hm : l'.maxSize = e.lookup.maxSize)
    (hi : 1 ≤ i) (hle : i ≤ e.lookup.maxSize)
    (hold : ∀ k' i', (k', i') ∈ l'.data ↔ ((k', i') = (k, i) ∨ ((k', i') ∈ e.lookup.data ∧ i' ≠ i))) :
    XMirror { e with lookup := l', lastAssigned := i }
      { t with data := t.data.set (i - 1) (some k), lastAssigned := i } := by
  refine ⟨mirror_after_set wf m.em hm hi hle (fun k' i' h => (hold k' i').mp h), ?_⟩
  intro j k' hj
  show (k', j + 1) ∈ l'.data
  by_cases hji : j = i - 1
  · subst hji
    have hlt : i - 1 < t.data.length := by have := m.em.len; omega
    simp only [List.getElem?_set_self hlt, Option.some.injEq] at hj
    subst hj
    have : i - 1 + 1 = i := by omega
    rw [this]
    exact (hold k i).mpr (Or.inl rfl)
  · have hne : i - 1 ≠ j := fun h => hji h.symm
    simp only [List.getElem?_set_ne hne] at hj
    exact (hold k' (j + 1)).mpr (Or.inr ⟨m.conv j k' hj, by omega⟩)

/-- `Spec.entryAudit` counts nothing. -/
theorem entryAudit_eq {t : LookupDec} {id : Nat} {k : String} (hr : Spec.resident t k = false)
    (hz : id = 0 ∨ id ≠ t.lastAssigned + 1) (a : Spec.Audit) : Spec.entryAudit t id k a = a := by
  unfold Spec.entryAudit
  simp only [hr, Bool.false_eq_true, if_false]
  have : (id != 0 && id == t.lastAssigned + 1) = false := by
    rcases hz with h | h
    · simp [h]
    · have : (id == t.lastAssigned + 1) = false := by simpa using h
      simp [this]
  simp [this]

/-- The audit of the (optional) entry row of one key. -/
def entryRowAudit (t : LookupDec) (oid : Option Nat) (k : String) (a : Spec.Audit) : Spec.Audit :=
  match oid with
  | none => a
  | some id => Spec.entryAudit t id k a

theorem EntryCase.xmirror {e e' : LookupEnc} {k oid} {t : LookupDec} (wf : e.lookup.WF)
    (m : XMirror e t) (c : EntryCase e k e' oid) :
    ∃ t', ingestEntry t oid k = .ok t' ∧ XMirror e' t' ∧ t'.lastReused = t.lastReused ∧
      ∀ a, entryRowAudit t oid k a = a := by
  cases c with
  | hit i hm he ho =>
    subst he ho
    refine ⟨t, rfl, ⟨⟨by simpa using m.em.size, by simpa using m.em.len, m.em.la, ?_⟩, ?_⟩, rfl, fun _ => rfl⟩
    · intro k' i' h
      exact m.em.res k' i' ((Lookup.mem_bump hm).mp h)
    · intro j k' h
      exact (Lookup.mem_bump hm).mpr (m.conv j k' h)
  | fill hk hlt he ho =>
    subst he ho
    have hid : (if (if e.lookup.data.length + 1 == e.lastAssigned + 1 then 0
          else e.lookup.data.length + 1) == 0 then t.lastAssigned + 1
        else (if e.lookup.data.length + 1 == e.lastAssigned + 1 then 0
          else e.lookup.data.length + 1)) = e.lookup.data.length + 1 := by
      rw [m.em.la]
      split <;> simp_all
    refine ⟨_, assign_eq (i := e.lookup.data.length + 1) (by omega) (by have := m.em.size; omega) hid,
      ?_, rfl, ?_⟩
    · apply xmirror_after_set (l' := (⟨e.lookup.maxSize, e.lookup.data ++ [(k, e.lookup.data.length + 1)],
        e.lookup.data.length + 1 == e.lookup.maxSize, e.lookup.pinned⟩ : Lookup).pin k) wf m (by simp) (by omega) (by omega)
      intro k' i'
      simp only [Lookup.pin_data, List.mem_append, List.mem_singleton]
      constructor
      · rintro (hm' | hm')
        · right; exact ⟨hm', by have := wf.idx_range hm'; omega⟩
        · left; exact hm'
      · rintro (hm' | ⟨hm', _⟩)
        · right; exact hm'
        · left; exact hm'
    · intro a
      apply entryAudit_eq (m.not_resident hk)
      rw [m.em.la]
      by_cases hc : e.lookup.data.length + 1 = e.lastAssigned + 1
      · left; simp [hc]
      · right
        have hb : (e.lookup.data.length + 1 == e.lastAssigned + 1) = false := by simpa using hc
        simp only [hb, Bool.false_eq_true, if_false]; exact hc
  | evict k0 i0 rest hk hd hfull hnp he ho =>
    subst he ho
    have hmem0 : (k0, i0) ∈ e.lookup.data := by rw [hd]; simp
    have hr0 := wf.idx_range hmem0
    have hid : (if (if i0 == e.lastAssigned + 1 then 0 else i0) == 0 then t.lastAssigned + 1
        else (if i0 == e.lastAssigned + 1 then 0 else i0)) = i0 := by
      rw [m.em.la]
      split <;> simp_all <;> omega
    have hidx := wf.idxPerm
    rw [hd] at hidx
    simp only [List.map_cons, List.length_cons] at hidx
    have hidxnd : (i0 :: rest.map (·.2)).Nodup :=
      (hidx.nodup_iff).mpr (List.nodup_range' (step := 1) (by omega))
    refine ⟨_, assign_eq (i := i0) (by omega) (by have := m.em.size; omega) hid, ?_, rfl, ?_⟩
    · apply xmirror_after_set (l' := ({ e.lookup with data := rest ++ [(k, i0)] } : Lookup).pin k) wf m (by simp)
        (by omega) (by omega)
      intro k' i'
      simp only [Lookup.pin_data, List.mem_append, List.mem_singleton]
      constructor
      · rintro (hm' | hm')
        · right
          refine ⟨by rw [hd]; exact List.mem_cons_of_mem _ hm', ?_⟩
          intro hc; subst hc
          have : i' ∈ rest.map (·.2) := List.mem_map.mpr ⟨(k', i'), hm', rfl⟩
          exact (List.nodup_cons.mp hidxnd).1 this
        · left; exact hm'
      · rintro (hm' | ⟨hm', hne⟩)
        · right; exact hm'
        · left
          rw [hd] at hm'
          rcases List.mem_cons.mp hm' with heq | hm'
          · injection heq with _ h2; exact absurd h2 hne
          · exact hm'
    · intro a
      apply entryAudit_eq (m.not_resident hk)
      rw [m.em.la]
      by_cases hc : i0 = e.lastAssigned + 1
      · left; simp [hc]
      · right
        have hb : (i0 == e.lastAssigned + 1) = false := by simpa using hc
        simp only [hb, Bool.false_eq_true, if_false]; exact hc

theorem TermStep.xmirror {e e' : LookupEnc} {k} {t : LookupDec} (s : TermStep e e' k) (m : XMirror e t) :
    XMirror e' t :=
  ⟨s.mirror m.em, fun j k' h => (s.mem _).mpr (m.conv j k' h)⟩

/-! ## The ids the writer emits -/

theorem nameTermIndex_exact {e : LookupEnc} (wf : e.lookup.WF) {k i} (hm : (k, i) ∈ e.lookup.data) :
    e.nameTermIndex k = .ok ({ e with lookup := e.lookup.bump (k, i), lastReused := i },
      if i == e.lastReused + 1 then 0 else i) := by
  unfold LookupEnc.nameTermIndex
  rw [termIndex_of_mem wf hm]
  simp only
  split <;> rfl

/-- Outcome of `prefixTermIndex` on a resident key: either the empty-prefix shortcut (nothing
    changes, id 0, `lastReused = 0`) or a reference to index `i` with the delta rule. -/
theorem prefixTermIndex_exact {e : LookupEnc} (wf : e.lookup.WF) (hpos : 0 < e.lookup.maxSize) {k i}
    (hm : (k, i) ∈ e.lookup.data) :
    ∃ e' id, e.prefixTermIndex k = .ok (e', id) ∧ TermStep e e' k ∧ e'.lastAssigned = e.lastAssigned ∧
      ((id = 0 ∧ e'.lastReused = e.lastReused) ∨
       (id ≠ 0 ∧ id ≠ e.lastReused ∧ e'.lastReused = id)) := by
  have hi := (wf.idx_range hm).1
  have hne : (e.lookup.maxSize == 0) = false := by simp; omega
  unfold LookupEnc.prefixTermIndex
  simp only [hne]
  by_cases hsc : (k == "" && e.lastReused == 0) = true
  · simp only [hsc]
    exact ⟨e, 0, by simp, TermStep.same wf k, rfl, Or.inl ⟨rfl, rfl⟩⟩
  · simp only [hsc]
    rw [termIndex_of_mem wf hm]
    simp only
    by_cases h0 : e.lastReused = 0
    · refine ⟨_, i, by simp [h0], TermStep.bump wf hm i, rfl, Or.inr ⟨by omega, by omega, rfl⟩⟩
    · have h0' : (e.lastReused == 0) = false := by simpa using h0
      by_cases hc : i = e.lastReused
      · exact ⟨_, 0, by simp [h0', hc], TermStep.bump wf hm i, rfl, Or.inl ⟨rfl, hc⟩⟩
      · exact ⟨_, i, by simp [h0', hc], TermStep.bump wf hm i, rfl, Or.inr ⟨by omega, hc, rfl⟩⟩

/-! ## One key on one table, audited: entry row (if any) followed by the reference -/

/-- What the audit needs from "entry, then reference" on one table. -/
structure UsedA (e e2 : LookupEnc) (k : String) (oid : Option Nat) : Prop where
  wf : e2.lookup.WF
  max : e2.lookup.maxSize = e.lookup.maxSize
  mirror : ∀ t, XMirror e t →
    ∃ t', ingestEntry t oid k = .ok t' ∧ XMirror e2 t' ∧ t'.lastReused = t.lastReused ∧
      ∀ a, entryRowAudit t oid k a = a

/-- Either the entry is refused (`JellyConformanceError`, the row does not fit) or it is audited. -/
theorem entry_pkgA {e : LookupEnc} {k : String} (wf : e.lookup.WF) (hpos : 0 < e.lookup.maxSize) :
    e.entryIndex k = .error .conformance ∨
    ∃ e1 oid i, e.entryIndex k = .ok (e1, oid) ∧ e1.lookup.WF ∧ e1.lookup.maxSize = e.lookup.maxSize ∧
      e1.lastReused = e.lastReused ∧ (k, i) ∈ e1.lookup.data ∧
      (∀ t, XMirror e t →
        ∃ t', ingestEntry t oid k = .ok t' ∧ XMirror e1 t' ∧ t'.lastReused = t.lastReused ∧
          ∀ a, entryRowAudit t oid k a = a) := by
  rcases entryIndex_cases wf hpos k with ⟨e1, oid, heq, c⟩ | hr
  · obtain ⟨wf1, hmax, hlr, i, hi⟩ := c.basic wf hpos
    exact Or.inr ⟨e1, oid, i, heq, wf1, hmax, hlr, hi, fun t m => c.xmirror wf m⟩
  · exact Or.inl hr.err

theorem UsedA.of_step {e e1 e2 : LookupEnc} {k oid}
    (hmax : e1.lookup.maxSize = e.lookup.maxSize)
    (hmir : ∀ t, XMirror e t →
        ∃ t', ingestEntry t oid k = .ok t' ∧ XMirror e1 t' ∧ t'.lastReused = t.lastReused ∧
          ∀ a, entryRowAudit t oid k a = a)
    (s : TermStep e1 e2 k) : UsedA e e2 k oid :=
  ⟨s.wf, by rw [s.max, hmax], fun t m => by
     obtain ⟨t', h1, h2, h3, h4⟩ := hmir t m
     exact ⟨t', h1, s.xmirror h2, h3, h4⟩⟩

/-- Name table: the id is 0 exactly when the zero form applies. -/
theorem useNameA {e : LookupEnc} {k : String} (wf : e.lookup.WF) (hpos : 0 < e.lookup.maxSize) :
    e.entryIndex k = .error .conformance ∨
    ∃ e1 oid e2 id, e.entryIndex k = .ok (e1, oid) ∧ e1.nameTermIndex k = .ok (e2, id) ∧
      UsedA e e2 k oid ∧
      ((id = 0 ∧ e2.lastReused = e.lastReused + 1) ∨
       (id ≠ 0 ∧ id ≠ e.lastReused + 1 ∧ e2.lastReused = id)) := by
  rcases entry_pkgA (k := k) wf hpos with h | ⟨e1, oid, i, heq, wf1, hmax, hlr, hi, hmir⟩
  · exact Or.inl h
  right
  have hi1 := (wf1.idx_range hi).1
  refine ⟨e1, oid, _, _, heq, nameTermIndex_exact wf1 hi,
    UsedA.of_step hmax hmir (TermStep.bump wf1 hi i), ?_⟩
  rw [hlr]
  by_cases hc : i = e.lastReused + 1
  · left; simp [hc]
  · right
    have : (i == e.lastReused + 1) = false := by simpa using hc
    simp only [this, Bool.false_eq_true, if_false]
    exact ⟨by omega, hc, trivial⟩

theorem usePrefixA {e : LookupEnc} {k : String} (wf : e.lookup.WF) (hpos : 0 < e.lookup.maxSize) :
    e.entryIndex k = .error .conformance ∨
    ∃ e1 oid e2 id, e.entryIndex k = .ok (e1, oid) ∧ e1.prefixTermIndex k = .ok (e2, id) ∧
      UsedA e e2 k oid ∧
      ((id = 0 ∧ e2.lastReused = e.lastReused) ∨
       (id ≠ 0 ∧ id ≠ e.lastReused ∧ e2.lastReused = id)) := by
  rcases entry_pkgA (k := k) wf hpos with h | ⟨e1, oid, i, heq, wf1, hmax, hlr, hi, hmir⟩
  · exact Or.inl h
  right
  obtain ⟨e2, id, hti, hstep, _, hz⟩ := prefixTermIndex_exact wf1 (by rw [hmax]; exact hpos) hi
  refine ⟨e1, oid, e2, id, heq, hti, UsedA.of_step hmax hmir hstep, ?_⟩
  rw [← hlr]; exact hz

theorem useDatatypeA {e : LookupEnc} {k : String} (wf : e.lookup.WF) (hpos : 0 < e.lookup.maxSize) :
    e.entryIndex k = .error .conformance ∨
    ∃ e1 oid e2 id, e.entryIndex k = .ok (e1, oid) ∧ e1.datatypeTermIndex k = .ok (e2, id) ∧
      UsedA e e2 k oid ∧ id ≠ 0 := by
  rcases entry_pkgA (k := k) wf hpos with h | ⟨e1, oid, i, heq, wf1, hmax, hlr, hi, hmir⟩
  · exact Or.inl h
  right
  obtain ⟨hti, hne, _⟩ := datatypeTermIndex_sim wf1 (by rw [hmax]; exact hpos) hi
  exact ⟨e1, oid, _, i, heq, hti, UsedA.of_step hmax hmir (TermStep.bump wf1 hi i), hne⟩

end Jelly

import JellyProofs.Lemmas.NsSim
import JellyProofs.Lemmas.SerRows
import JellyProofs.Lemmas.DecoderRefines
import JellyProofs.Lemmas.Unpin
/-!
# Several sinks through one stream (`grouped_stream_to_frames`) against the reference decoder (C07 d),
# and the term-encoder → decoder mirror for IRIs (C05 at the term level)
-/
namespace Jelly

/-! ## `enrolled` survives the statement loops and the epilogue -/

theorem Stream.triple_enrolled (exc : PyErr) (s : Stream) (t : List Term) :
    (s.triple exc t).1.enrolled = s.enrolled := by
  rw [Stream.triple_eq]
  rcases encodeTriple exc s.enc t with ⟨enc', e | rows⟩ <;> rfl

theorem Stream.quad_enrolled (exc : PyErr) (s : Stream) (t : List Term) :
    (s.quad exc t).1.enrolled = s.enrolled := by
  rw [Stream.quad_eq]
  rcases encodeQuad exc s.enc t with ⟨enc', e | rows⟩ <;> rfl

theorem stmtLoop_enrolled {step : Stream → List Term → Res Stream (Option Frame)}
    (hs : ∀ s t, (step s t).1.enrolled = s.enrolled) (ts : List (List Term)) (r : Run) :
    (stmtLoop step r ts).stream.enrolled = r.stream.enrolled := by
  induction ts generalizing r with
  | nil => rfl
  | cons t ts ih =>
    have hk := hs r.stream t
    rw [stmtLoop_cons]
    generalize step r.stream t = x at hk ⊢
    rcases x with ⟨s', e | fr⟩
    · exact hk
    · exact (ih (r.push s' fr)).trans hk

theorem epilogue_enrolled (r : Run) (b : Bool) : (epilogue r b).stream.enrolled = r.stream.enrolled := by
  rw [epilogue_eq]; rfl

theorem Stream.enroll_eq_self {s : Stream} (h : s.enrolled = true) : s.enroll = s := by
  simp [Stream.enroll, h]

/-! ## One sink of a grouped run -/

/-- What one `streamFrames cur (.sink sk)` call of a grouped run (declarations off) does: it
    succeeds, hands out exactly the rows pending after `enroll` plus `rows`, leaves nothing in the
    flow, and the reference decoder follows over `rows` to a state related to the writer's again. -/
structure SinkStep (P : Preset) (oo : Options) (cur : Stream) (sk : Sink) (ss : Spec.State) (r : Run)
    (ss' : Spec.State) (rows : List Row) : Prop where
  err : r.err = none
  out : r.frames.flatMap (·.rows) = cur.enroll.flow.rows ++ rows
  flow : r.stream.flow.rows = []
  enrolled : r.stream.enrolled = true
  keeps : cur.Keeps r.stream
  inv : Inv P r.stream.enc ss'
  opts : ss'.opts = some oo
  run : RunsTo ss rows ss' (sk.store.map fun t => Event.stmt (t.map Term.norm))

theorem sinkStep_triple {P : Preset} {oo : Options} (hv : P.valid = true) (h1 : oo.physicalType = 1)
    (cur : Stream) (sk : Sink) (ss : Spec.State) (hcls : cur.cls = .triple)
    (hoff : cur.opts.params.namespaceDeclarations = false)
    (inv : Inv P cur.enc ss) (ho : ss.opts = some oo)
    (hwf : ∀ t ∈ sk.store, tripleWF t = true) (hfit : ∀ t ∈ sk.store, stmtFits P t = true) :
    ∃ ss' rows, SinkStep P oo cur sk ss (streamFrames cur (.sink sk)) ss' rows := by
  obtain ⟨ss', rows, e1, e2, e3, e4, e5⟩ :=
    stmtLoop_triple_sim hv (o := oo) h1 .runtimeError sk.store { stream := cur.enroll } ss rfl
      (by rw [Stream.enroll_enc]; exact inv) ho hwf hfit
  have hsf : streamFrames cur (.sink sk)
      = epilogue (stmtLoop (Stream.triple .runtimeError) { stream := cur.enroll } sk.store) false := by
    rw [streamFrames_sink_nsOff cur sk hoff]
    simp only [streamFrames, hcls, triplesStreamFrames, prologue, SerData.stmts, e1, Option.isSome_none,
      Bool.false_eq_true, if_false]
  obtain ⟨a1, a2, a3⟩ :=
    allRowsOf_epilogue (stmtLoop (Stream.triple .runtimeError) { stream := cur.enroll } sk.store) false
  rw [hsf]
  refine ⟨ss', rows, a2.trans e1, ?_, epilogue_flow_rows _ _, ?_, ?_, by rw [a3]; exact e3, e4, e5⟩
  · rw [e2] at a1
    simpa [allRowsOf, rowsOf] using a1
  · exact (epilogue_enrolled _ _).trans
      ((stmtLoop_enrolled (Stream.triple_enrolled _) _ _).trans cur.enroll_enrolled)
  · exact cur.enroll_keeps.trans
      ((stmtLoop_keeps (Stream.triple_good _) sk.store { stream := cur.enroll }).trans (epilogue_keeps _ _))

theorem sinkStep_quad {P : Preset} {oo : Options} (hv : P.valid = true) (h2 : oo.physicalType = 2)
    (cur : Stream) (sk : Sink) (ss : Spec.State) (hcls : cur.cls = .quad)
    (hoff : cur.opts.params.namespaceDeclarations = false)
    (inv : Inv P cur.enc ss) (ho : ss.opts = some oo)
    (hwf : ∀ t ∈ sk.store, quadWF t = true) (hfit : ∀ t ∈ sk.store, stmtFits P t = true) :
    ∃ ss' rows, SinkStep P oo cur sk ss (streamFrames cur (.sink sk)) ss' rows := by
  obtain ⟨ss', rows, e1, e2, e3, e4, e5⟩ :=
    stmtLoop_quad_sim hv (o := oo) h2 .runtimeError sk.store { stream := cur.enroll } ss rfl
      (by rw [Stream.enroll_enc]; exact inv) ho hwf hfit
  have hsf : streamFrames cur (.sink sk)
      = epilogue (stmtLoop (Stream.quad .runtimeError) { stream := cur.enroll } sk.store) true := by
    rw [streamFrames_sink_nsOff cur sk hoff]
    simp only [streamFrames, hcls, quadsStreamFrames, prologue, SerData.stmts, e1, Option.isSome_none,
      Bool.false_eq_true, if_false]
  obtain ⟨a1, a2, a3⟩ :=
    allRowsOf_epilogue (stmtLoop (Stream.quad .runtimeError) { stream := cur.enroll } sk.store) true
  rw [hsf]
  refine ⟨ss', rows, a2.trans e1, ?_, epilogue_flow_rows _ _, ?_, ?_, by rw [a3]; exact e3, e4, e5⟩
  · rw [e2] at a1
    simpa [allRowsOf, rowsOf] using a1
  · exact (epilogue_enrolled _ _).trans
      ((stmtLoop_enrolled (Stream.quad_enrolled _) _ _).trans cur.enroll_enrolled)
  · exact cur.enroll_keeps.trans
      ((stmtLoop_keeps (Stream.quad_good _) sk.store { stream := cur.enroll }).trans (epilogue_keeps _ _))

/-! ## The loop over the sinks -/

/-- The loop of `grouped_stream_to_frames` once the stream exists: the stream handed from one sink to
    the next is enrolled, has an empty flow, and stays related to the reference decoder's state. -/
theorem grouped_go_sim {P : Preset} {oo : Options} {o : SerOptions} {cls : StreamClass} (OK : Sink → Prop)
    (hstep : ∀ (cur : Stream) (sk : Sink) (ss : Spec.State), cur.cls = cls → cur.opts = o →
      Inv P cur.enc ss → ss.opts = some oo → OK sk →
      ∃ ss' rows, SinkStep P oo cur sk ss (streamFrames cur (.sink sk)) ss' rows) :
    ∀ (sinks : List Sink) (cur : Stream) (acc : List Frame) (ss : Spec.State),
      cur.cls = cls → cur.opts = o → cur.enrolled = true → cur.flow.rows = [] →
      Inv P cur.enc ss → ss.opts = some oo → (∀ sk ∈ sinks, OK sk) →
      ∃ ss' rows, (groupedStreamToFrames.go (some cur) (some o) acc sinks).2.2 = none ∧
        (groupedStreamToFrames.go (some cur) (some o) acc sinks).1.flatMap (·.rows)
          = acc.flatMap (·.rows) ++ rows ∧
        RunsTo ss rows ss' ((sinks.flatMap (·.store)).map fun t => Event.stmt (t.map Term.norm)) := by
  intro sinks
  induction sinks with
  | nil =>
    intro cur acc ss _ _ _ _ _ _ _
    exact ⟨ss, [], rfl, by simp [groupedStreamToFrames.go], by simpa using RunsTo.nil ss⟩
  | cons sk rest ih =>
    intro cur acc ss hcls hopts henr hflow inv ho hok
    obtain ⟨ss1, rows1, st⟩ := hstep cur sk ss hcls hopts inv ho (hok sk List.mem_cons_self)
    obtain ⟨ss2, rows2, g1, g2, g3⟩ :=
      ih (streamFrames cur (.sink sk)).stream (acc ++ (streamFrames cur (.sink sk)).frames) ss1
        (st.keeps.cls.trans hcls) (st.keeps.opts.trans hopts) st.enrolled st.flow st.inv st.opts
        (fun s hs => hok s (List.mem_cons_of_mem _ hs))
    have hgo : groupedStreamToFrames.go (some cur) (some o) acc (sk :: rest)
        = groupedStreamToFrames.go (some (streamFrames cur (.sink sk)).stream) (some o)
            (acc ++ (streamFrames cur (.sink sk)).frames) rest := by
      simp only [groupedStreamToFrames.go, st.err]
    rw [hgo]
    refine ⟨ss2, rows1 ++ rows2, g1, ?_, ?_⟩
    · rw [g2, List.flatMap_append, st.out, Stream.enroll_eq_self henr, hflow]
      simp
    · have := st.run.trans g3
      simpa [List.flatMap_cons, List.map_append] using this

/-- `grouped_stream_to_frames` with explicit options over a non-empty list of sinks, given what the
    first `guess_stream` returns and the per-sink step. -/
theorem grouped_sim {o : SerOptions} {cls : StreamClass} {s : Stream} (hnew : Stream.new cls o = .ok s)
    (hl : validLogical s.logicalType = true) (OK : Sink → Prop)
    (hstep : ∀ oo : Options, oo.physicalType = cls.physical →
      ∀ (cur : Stream) (sk : Sink) (ss : Spec.State), cur.cls = cls → cur.opts = o →
      Inv o.preset cur.enc ss → ss.opts = some oo → OK sk →
      ∃ ss' rows, SinkStep o.preset oo cur sk ss (streamFrames cur (.sink sk)) ss' rows)
    (first : Sink) (more : List Sink) (hguess : guessStream o first = .ok s)
    (hok : ∀ sk ∈ first :: more, OK sk) :
    (groupedStreamToFrames (first :: more) (some o)).2.2 = none ∧
    ∃ st, Spec.runRows ((groupedStreamToFrames (first :: more) (some o)).1.flatMap (·.rows))
            = (st, ((first :: more).flatMap (·.store)).map (fun t => Event.stmt (t.map Term.norm)), none) := by
  obtain ⟨ss0, oo, hstep0, inv0, ho0, hph, _⟩ := options_step hnew hl
  obtain ⟨_, hcls, hopts, _, _, _, _⟩ := Stream.new_spec hnew
  have hrows0 := enroll_fresh_rows hnew
  obtain ⟨ss1, rows1, st⟩ := hstep oo hph s first ss0 hcls hopts inv0 ho0 (hok first List.mem_cons_self)
  obtain ⟨ss2, rows2, g1, g2, g3⟩ :=
    grouped_go_sim OK (hstep oo hph) more (streamFrames s (.sink first)).stream
      ([] ++ (streamFrames s (.sink first)).frames) ss1
      (st.keeps.cls.trans hcls) (st.keeps.opts.trans hopts) st.enrolled st.flow st.inv st.opts
      (fun sk hs => hok sk (List.mem_cons_of_mem _ hs))
  have hgo : groupedStreamToFrames (first :: more) (some o)
      = groupedStreamToFrames.go (some (streamFrames s (.sink first)).stream) (some o)
          ([] ++ (streamFrames s (.sink first)).frames) more := by
    simp only [groupedStreamToFrames, groupedStreamToFrames.go, hguess, st.err]
  rw [hgo]
  refine ⟨g1, ss2, ?_⟩
  rw [g2, List.nil_append, st.out, hrows0]
  simp only [Spec.runRows, List.cons_append, List.nil_append, run_cons_ok hstep0,
    Option.toList, List.append_nil]
  have := (st.run.trans g3).final [] (0 + 1)
  simpa [List.flatMap_cons, List.map_append, List.append_assoc] using this

/-! ## IRIs through one term encoder into pyjelly's decoder (C05, term level) -/

def Row.isEntry : Row → Bool
  | .nameEntry _ _ => true
  | .prefixEntry _ _ => true
  | .dtEntry _ _ => true
  | _ => false

/-- On entry rows pyjelly's decoder follows the reference decoder whatever its options record is. -/
theorem entryRows_sim {po : ParserOptions} {ad : AdapterKind} {q : Bool} :
    ∀ (rows : List Row) (ss ss' : Spec.State) (acc evs : List Event) (i : Nat),
      (∀ r ∈ rows, r.isEntry = true) → ss.WF → Spec.run ss rows acc i = (ss', evs, none) →
      (mirror po ad ss).decodeRows q rows acc = (mirror po ad ss', evs, none) ∧ ss'.WF ∧ ss'.opts = ss.opts := by
  intro rows
  induction rows with
  | nil =>
    intro ss ss' acc evs i _ hw h
    simp only [Spec.run] at h
    injection h with h1 h2
    injection h2 with h2 _
    subst h1 h2
    exact ⟨rfl, hw, rfl⟩
  | cons r rs ih =>
    intro ss ss' acc evs i hent hw h
    have hr := hent r List.mem_cons_self
    have hrs := fun x hx => hent x (List.mem_cons_of_mem _ hx)
    simp only [Spec.run] at h
    cases hs : Spec.step ss r with
    | error v =>
      rw [hs] at h
      injection h with _ h2
      injection h2 with _ h3
      cases h3
    | ok res =>
      obtain ⟨ss1, ev⟩ := res
      rw [hs] at h
      dsimp only at h
      have key : (mirror po ad ss).decodeRow q r = .ok (mirror po ad ss1, ev) ∧ ss1.WF ∧ ss1.opts = ss.opts := by
        unfold Spec.step at hs
        cases hopt : ss.opts with
        | none =>
          rw [hopt] at hs
          cases r <;> simp [Row.isEntry] at hr <;> cases hs
        | some o =>
          rw [hopt] at hs
          cases r with
          | nameEntry id v =>
            simp only [bind, Except.bind, pure, Except.pure] at hs
            cases ha : Spec.assign ss.names id v with
            | error e => rw [ha] at hs; cases hs
            | ok t =>
              rw [ha] at hs
              injection hs with hs
              injection hs with hs1 hs2
              subst hs1 hs2
              obtain ⟨b1, b2⟩ := assign_sim hw.1 ha
              refine ⟨?_, ⟨b2, hw.2.1, hw.2.2⟩, rfl⟩
              simp only [DecState.decodeRow, mirror, b1]
          | prefixEntry id v =>
            simp only [bind, Except.bind, pure, Except.pure] at hs
            cases ha : Spec.assign ss.prefixes id v with
            | error e => rw [ha] at hs; cases hs
            | ok t =>
              rw [ha] at hs
              injection hs with hs
              injection hs with hs1 hs2
              subst hs1 hs2
              obtain ⟨b1, b2⟩ := assign_sim hw.2.1 ha
              refine ⟨?_, ⟨hw.1, b2, hw.2.2⟩, rfl⟩
              simp only [DecState.decodeRow, mirror, b1]
          | dtEntry id v =>
            simp only [bind, Except.bind, pure, Except.pure] at hs
            cases ha : Spec.assign ss.datatypes id v with
            | error e => rw [ha] at hs; cases hs
            | ok t =>
              rw [ha] at hs
              injection hs with hs
              injection hs with hs1 hs2
              subst hs1 hs2
              obtain ⟨b1, b2⟩ := assign_sim hw.2.2 ha
              refine ⟨?_, ⟨hw.1, hw.2.1, b2⟩, rfl⟩
              simp only [DecState.decodeRow, mirror, b1]
          | _ => simp [Row.isEntry] at hr
      obtain ⟨k1, k2, k3⟩ := key
      obtain ⟨j1, j2, j3⟩ := ih ss1 ss' _ evs _ hrs k2 h
      refine ⟨?_, j2, j3.trans k3⟩
      simp only [DecState.decodeRows, k1]
      exact j1

/-- The rows `encode_iri_indices` emits are entry rows. -/
theorem iriIndices_rows_entry {te te' : TermEnc} {iri : String} {rows : List Row} {p n : Nat}
    (h : te.iriIndices iri = (te', .ok (rows, p, n))) : ∀ r ∈ rows, r.isEntry = true := by
  unfold TermEnc.iriIndices at h
  simp only at h
  split at h
  · cases h
  · rename_i pe pEntry _
    split at h
    · cases h
    · rename_i ne nEntry _
      split at h
      · cases h
      · split at h
        · cases h
        · injection h with _ h
          injection h with h
          injection h with h _
          subst h
          intro r hr
          cases pEntry <;> cases nEntry <;> simp at hr <;>
            (try rcases hr with rfl | rfl) <;> (try subst hr) <;> rfl

/-- The invariant of the IRI history: writer tables well-formed and mirrored by the reference state
    `ss` (entries and `lastReused`), which has seen an options row and has full-length tables. -/
structure IriInv (P : Preset) (te : TermEnc) (ss : Spec.State) : Prop where
  wft : WFT P te
  em : EM te ss
  lrn : ss.names.lastReused = te.names.lastReused
  lrp : ss.prefixes.lastReused = te.prefixes.lastReused
  lrd : ss.datatypes.lastReused = te.datatypes.lastReused
  opts : ss.opts ≠ none
  wf : ss.WF
  /-- the term encoder is used raw (nobody calls `start_row`): no pin tracking -/
  raw : te.unpin = te

/-- `pinned` is invisible to `WFT` / `EM`. -/
theorem WFT.unpin {P : Preset} {te : TermEnc} (h : WFT P te) : WFT P te.unpin :=
  ⟨h.wfn.congr rfl rfl rfl, h.wfp.congr rfl rfl rfl, h.wfd.congr rfl rfl rfl, h.maxn, h.maxp, h.maxd, h.p0⟩

theorem EM.unpin {te : TermEnc} {ss : Spec.State} (m : EM te ss) : EM te.unpin ss :=
  ⟨⟨m.n.size, m.n.len, m.n.la, m.n.res⟩, ⟨m.p.size, m.p.len, m.p.la, m.p.res⟩,
   ⟨m.d.size, m.d.len, m.d.la, m.d.res⟩⟩

/-- One IRI: the encoder succeeds, pyjelly's decoder ingests the entry rows and resolves the emitted
    ids to the IRI, and the invariant is re-established. -/
theorem iri_step_sim {P : Preset} (hv : P.valid = true) (po : ParserOptions) {te : TermEnc}
    {ss : Spec.State} (inv : IriInv P te ss) (iri : String) :
    ∃ te' rows p n ssE ss', te.iriIndices iri = (te', .ok (rows, p, n)) ∧
      (mirror po .triples ss).decodeRows true rows [] = (mirror po .triples ssE, [], none) ∧
      (mirror po .triples ssE).decodeIri p n = .ok (mirror po .triples ss', iri) ∧
      IriInv P te' ss' := by
  obtain ⟨wft, em, lrn, lrp, lrd, hopt, hw, hraw⟩ := inv
  -- simulate on the encoder with pin tracking switched on, then forget the pins
  obtain ⟨te'', rows, p, n, R', heq', sim, res⟩ :=
    iriIndices_sim (TFits.nsSingle hv iri) (wft.tinv _) iri (by simp) (by simp)
  have heq : te.iriIndices iri = ({ te''.unpin with rowOpen := te.rowOpen }, .ok (rows, p, n)) := by
    have h1 := TermEnc.iriIndices_unpin_ok heq'
    have hsr : ({ te.startRow.unpin with rowOpen := te.rowOpen } : TermEnc) = te := by
      have : ({ te.startRow.unpin with rowOpen := te.rowOpen } : TermEnc) = te.unpin := rfl
      rw [this, hraw]
    have h2 := TermEnc.iriIndices_rowOpen te.startRow.unpin te.rowOpen iri
    rw [h1, hsr] at h2
    exact h2
  generalize hte' : ({ te''.unpin with rowOpen := te.rowOpen } : TermEnc) = te' at heq
  obtain ⟨ssE, mE', fE, runE⟩ := sim.ing ss em.startRow hopt
  have mE : EM te' ssE :=
    hte' ▸ (⟨mE'.unpin.n, mE'.unpin.p, mE'.unpin.d⟩ : EM { te''.unpin with rowOpen := te.rowOpen } ssE)
  have wft' : WFT P te' :=
    hte' ▸ (⟨sim.inv.wft.unpin.wfn, sim.inv.wft.unpin.wfp, sim.inv.wft.unpin.wfd, sim.inv.wft.unpin.maxn,
      sim.inv.wft.unpin.maxp, sim.inv.wft.unpin.maxd, sim.inv.wft.unpin.p0⟩ :
        WFT P { te''.unpin with rowOpen := te.rowOpen })
  have hraw' : te'.unpin = te' := by rw [← hte']; rfl
  have hlr' : setLR ssE te'' = setLR ssE te' := by rw [← hte']; rfl
  have hself : setLR ssE te.startRow = ssE :=
    setLR_eq_self (fE.lrn.trans lrn) (fE.lrp.trans lrp) (fE.lrd.trans lrd)
  have hres := res ssE (mE'.agree sim.inv.wft R')
  rw [hself, hlr'] at hres
  have hrun : Spec.run ss rows [] 0 = (ssE, [], none) := by
    have := runE [] [] 0
    simpa [Spec.run] using this
  obtain ⟨d1, wE, oE⟩ := entryRows_sim (po := po) (ad := .triples) (q := true) rows ss ssE [] [] 0
    (iriIndices_rows_entry heq) hw hrun
  obtain ⟨d2, k2, _⟩ := iri_sim (po := po) (ad := .triples) wE hres
  exact ⟨te', rows, p, n, ssE, setLR ssE te', heq, d1, d2,
    ⟨wft', mE.setLR te', rfl, rfl, rfl, by show ssE.opts ≠ none; rw [oE]; exact hopt, k2.1, hraw'⟩⟩

end Jelly

import JellyModel.Parse
import JellyModel.SerRdflib
import JellyProofs.Lemmas.SerRows
import JellyProofs.Lemmas.RowBracket
/-!
# Helper lemmas for C15 / C14 / C02

* the decoder does not look at `quoted` on wire terms without quoted triples;
* the rdflib serializer loops are the generic loops on corresponding input;
* rows written by the statement encoders are never namespace rows.
-/
namespace Jelly

/-! ## Decoder: `quoted` is only consulted for quoted triples -/

/-- A wire term that is not a quoted triple (top level is enough: nothing else nests). -/
def WTerm.isFlat : WTerm → Prop
  | .triple _ _ _ => False
  | _ => True

def optFlat : Option WTerm → Prop
  | some t => t.isFlat
  | none => True

theorem decodeTerm_flat (d : DecState) (t : WTerm) (h : t.isFlat) :
    d.decodeTerm false t = d.decodeTerm true t := by
  cases t with
  | triple s p o => exact h.elim
  | iri p n => simp only [DecState.decodeTerm]
  | bnode b => simp only [DecState.decodeTerm]
  | literal lex k => simp only [DecState.decodeTerm]
  | defaultGraph => simp only [DecState.decodeTerm]

theorem decodeSlot_flat (d : DecState) (prev : Option Term) (w : Option WTerm) (h : optFlat w) :
    d.decodeSlot false prev w = d.decodeSlot true prev w := by
  unfold DecState.decodeSlot
  cases w with
  | none => rfl
  | some t => exact decodeTerm_flat d t h

theorem decodeSpo_flat (d : DecState) (s p o : Option WTerm) (hs : optFlat s) (hp : optFlat p)
    (ho : optFlat o) : d.decodeSpo false s p o = d.decodeSpo true s p o := by
  unfold DecState.decodeSpo
  rw [decodeSlot_flat d _ s hs]
  cases d.decodeSlot true d.rep.s s with
  | error e => rfl
  | ok x1 =>
    obtain ⟨d1, ts⟩ := x1
    dsimp only
    rw [decodeSlot_flat _ _ p hp]
    cases DecState.decodeSlot true _ _ p with
    | error e => rfl
    | ok x2 =>
      obtain ⟨d2, tp⟩ := x2
      dsimp only
      rw [decodeSlot_flat _ _ o ho]

/-! ## Serializer loops -/

theorem prologueR_plain (s : Stream) (ns : List (String × String)) :
    prologueR s false ns = (s.enroll, .ok ()) := by
  simp [prologueR]

theorem triplesGraphsLoop_single (r : Run) (stmts : List (List Term)) :
    triplesGraphsLoop r [stmts] =
      if (stmtLoop (Stream.triple .runtimeError) r stmts).err.isSome
      then stmtLoop (Stream.triple .runtimeError) r stmts
      else (stmtLoop (Stream.triple .runtimeError) r stmts).pushCut
        (stmtLoop (Stream.triple .runtimeError) r stmts).stream.flow.frameFromGraph := by
  simp only [triplesGraphsLoop]
  split <;> rfl

theorem nsDeclarations_nil (s : Stream) : nsDeclarations s [] = (s, .ok ()) := rfl

theorem prologue_sink_no_bindings (s : Stream) (sk : Sink) (hns : sk.namespaces = []) :
    prologue s (.sink sk) = prologue s (.gen sk.store) := by
  simp only [prologue, hns, nsDeclarations_nil]
  split <;> rfl

theorem streamFrames_sink_no_bindings (s : Stream) (sk : Sink) (hns : sk.namespaces = []) :
    streamFrames s (.sink sk) = streamFrames s (.gen sk.store) := by
  rw [streamFrames_eq, streamFrames_eq, framesWith_eq, framesWith_eq,
    prologue_sink_no_bindings s sk hns]
  rfl

/-! ## The rdflib graph loop vs the generic one -/

theorem graphsLoopR_nil (r : Run) : graphsLoopR r [] = r := rfl

theorem graphsLoopR_cons (r : Run) (g : Term) (ts : List (List Term))
    (rest : List (Term × List (List Term))) :
    graphsLoopR r ((g, ts) :: rest) =
      if (r.graphStep g ts).err.isSome then r.graphStep g ts
      else graphsLoopR (r.graphStep g ts) rest := by
  rw [graphsLoopR]
  rfl

theorem stmtGraph?_snoc (t : List Term) (g : Term) (h : t.length = 3) :
    stmtGraph? (t ++ [g]) = some g ∧ (t ++ [g]).take 3 = t := by
  match t, h with
  | [a, b, c], _ => exact ⟨rfl, rfl⟩

/-- Prop version of "consecutive names differ, no graph is empty, all triples have three terms". -/
def GraphsSplit : List (Term × List (List Term)) → Prop
  | [] => True
  | (g, ts) :: rest =>
    ts ≠ [] ∧ (∀ t ∈ ts, t.length = 3) ∧ (∀ x ∈ rest.head?, g ≠ x.1) ∧ GraphsSplit rest

def quadsOf (gs : List (Term × List (List Term))) : List (List Term) :=
  gs.flatMap fun (g, ts) => ts.map fun t => t ++ [g]

theorem quadsOf_nil : quadsOf [] = [] := rfl

theorem quadsOf_cons (g : Term) (ts : List (List Term)) (rest : List (Term × List (List Term))) :
    quadsOf ((g, ts) :: rest) = ts.map (fun t => t ++ [g]) ++ quadsOf rest := by
  simp [quadsOf]

/-- The generic loop with a current run `(g, acc)` followed by more triples of `g` and then the
    graphs of `rest` does what the rdflib loop does on `(g, acc ++ ts) :: rest`. -/
theorem graphsLoop_cur_eq (rest : List (Term × List (List Term))) :
    ∀ (r : Run) (g : Term) (acc ts : List (List Term)),
      (∀ t ∈ ts, t.length = 3) → (∀ x ∈ rest.head?, g ≠ x.1) → GraphsSplit rest →
      graphsLoop r (some (g, acc)) (ts.map (fun t => t ++ [g]) ++ quadsOf rest) =
        graphsLoopR r ((g, acc ++ ts) :: rest) := by
  induction rest with
  | nil =>
    intro r g acc ts
    induction ts generalizing acc with
    | nil =>
      intro _ _ _
      simp only [List.map_nil, quadsOf_nil, List.append_nil, graphsLoop_nil, graphsLoopR_cons,
        graphsLoopR_nil, ite_self]
    | cons t ts ih =>
      intro h3 hne hsp
      obtain ⟨h1, h2⟩ := stmtGraph?_snoc t g (h3 t (by simp))
      simp only [List.map_cons, List.cons_append, graphsLoop_cons, h1, h2, beq_self_eq_true, if_true]
      rw [ih (acc ++ [t]) (fun t' ht' => h3 t' (by simp [ht'])) hne hsp]
      simp
  | cons hd rest' ihr =>
    obtain ⟨g', ts'⟩ := hd
    intro r g acc ts
    induction ts generalizing acc with
    | nil =>
      intro _ hne hsp
      obtain ⟨hne', h3', hhd', hsp'⟩ := hsp
      have hgg : g ≠ g' := hne (g', ts') (by simp)
      cases ts' with
      | nil => exact (hne' rfl).elim
      | cons t ts'' =>
        obtain ⟨h1, h2⟩ := stmtGraph?_snoc t g' (h3' t (by simp))
        have hb : (g == g') = false := by simpa using hgg
        simp only [List.map_nil, List.nil_append, quadsOf_cons, List.map_cons, List.cons_append,
          graphsLoop_cons, h1, h2, hb, List.append_nil, Bool.false_eq_true, if_false]
        rw [graphsLoopR_cons r g acc]
        split
        · rfl
        · rw [ihr _ g' [t] ts'' (fun t' ht' => h3' t' (by simp [ht'])) hhd' hsp']
          simp
    | cons t ts ih =>
      intro h3 hne hsp
      obtain ⟨h1, h2⟩ := stmtGraph?_snoc t g (h3 t (by simp))
      simp only [List.map_cons, List.cons_append, graphsLoop_cons, h1, h2, beq_self_eq_true, if_true]
      rw [ih (acc ++ [t]) (fun t' ht' => h3 t' (by simp [ht'])) hne hsp]
      simp

theorem graphsLoop_none_eq (r : Run) (gs : List (Term × List (List Term))) (h : GraphsSplit gs) :
    graphsLoop r none (quadsOf gs) = graphsLoopR r gs := by
  cases gs with
  | nil => rfl
  | cons hd rest =>
    obtain ⟨g, ts⟩ := hd
    obtain ⟨hne, h3, hhd, hsp⟩ := h
    cases ts with
    | nil => exact (hne rfl).elim
    | cons t ts' =>
      obtain ⟨h1, h2⟩ := stmtGraph?_snoc t g (h3 t (by simp))
      simp only [quadsOf_cons, List.map_cons, List.cons_append, graphsLoop_cons, h1, h2]
      rw [graphsLoop_cur_eq rest r g [t] ts' (fun t' ht' => h3 t' (by simp [ht'])) hhd hsp]
      simp

/-! ## Rows written by the statement encoders are never namespace rows -/

def Row.NotNs : Row → Prop
  | .namespace _ _ => False
  | _ => True

theorem iriIndices_notNs (te te' : TermEnc) (iri : String) (rows : List Row) (p n : Nat)
    (h : te.iriIndices iri = (te', .ok (rows, p, n))) : ∀ r ∈ rows, r.NotNs := by
  unfold TermEnc.iriIndices at h
  dsimp only at h
  split at h
  · cases h
  · split at h
    · cases h
    · split at h
      · cases h
      · split at h
        · cases h
        · simp only [Prod.mk.injEq, Except.ok.injEq] at h
          obtain ⟨_, rfl, _, _⟩ := h
          intro r hr
          rcases List.mem_append.1 hr with hr | hr
          · split at hr
            · simp at hr; subst hr; trivial
            · simp at hr
          · split at hr
            · simp at hr; subst hr; trivial
            · simp at hr

theorem literal_notNs (te te' : TermEnc) (lang dt : Option String) (rows : List Row) (k : WLitKind)
    (h : te.literal lang dt = (te', .ok (rows, k))) : ∀ r ∈ rows, r.NotNs := by
  unfold TermEnc.literal at h
  dsimp only at h
  split at h
  · split at h
    · split at h
      · cases h
      · split at h
        · cases h
        · split at h
          · cases h
          · simp only [Prod.mk.injEq, Except.ok.injEq] at h
            obtain ⟨_, rfl, _⟩ := h
            intro r hr
            split at hr
            · simp at hr; subst hr; trivial
            · simp at hr
    · simp only [Prod.mk.injEq, Except.ok.injEq] at h
      obtain ⟨_, rfl, _⟩ := h
      simp
  · simp only [Prod.mk.injEq, Except.ok.injEq] at h
    obtain ⟨_, rfl, _⟩ := h
    simp

theorem spo_notNs (t : Term) : ∀ (te te' : TermEnc) (rows : List Row) (w : WTerm),
    te.spo t = (te', .ok (rows, w)) → ∀ r ∈ rows, r.NotNs := by
  induction t with
  | iri s =>
    intro te te' rows w h
    simp only [TermEnc.spo] at h
    split at h
    · cases h
    · rename_i hi
      simp only [Prod.mk.injEq, Except.ok.injEq] at h
      obtain ⟨_, rfl, _⟩ := h
      exact iriIndices_notNs _ _ _ _ _ _ hi
  | lit lex lang dt =>
    intro te te' rows w h
    simp only [TermEnc.spo] at h
    split at h
    · cases h
    · rename_i hi
      simp only [Prod.mk.injEq, Except.ok.injEq] at h
      obtain ⟨_, rfl, _⟩ := h
      exact literal_notNs _ _ _ _ _ _ hi
  | bnode b =>
    intro te te' rows w h
    simp only [TermEnc.spo, Prod.mk.injEq, Except.ok.injEq] at h
    obtain ⟨_, rfl, _⟩ := h
    simp
  | quoted s p o ihs ihp iho =>
    intro te te' rows w h
    simp only [TermEnc.spo] at h
    split at h
    · cases h
    · rename_i h1
      split at h
      · cases h
      · rename_i h2
        split at h
        · cases h
        · rename_i h3
          simp only [Prod.mk.injEq, Except.ok.injEq] at h
          obtain ⟨_, rfl, _⟩ := h
          intro r hr
          simp only [List.mem_append] at hr
          rcases hr with (hr | hr) | hr
          · exact ihs _ _ _ _ h1 r hr
          · exact ihp _ _ _ _ h2 r hr
          · exact iho _ _ _ _ h3 r hr
  | defaultGraph => intro te te' rows w h; simp [TermEnc.spo] at h
  | unsupported => intro te te' rows w h; simp [TermEnc.spo] at h

theorem graph_notNs (t : Term) (te te' : TermEnc) (rows : List Row) (w : WTerm)
    (h : te.graph t = (te', .ok (rows, w))) : ∀ r ∈ rows, r.NotNs := by
  cases t with
  | iri s =>
    simp only [TermEnc.graph] at h
    split at h
    · cases h
    · rename_i hi
      simp only [Prod.mk.injEq, Except.ok.injEq] at h
      obtain ⟨_, rfl, _⟩ := h
      exact iriIndices_notNs _ _ _ _ _ _ hi
  | lit lex lang dt =>
    simp only [TermEnc.graph] at h
    split at h
    · cases h
    · rename_i hi
      simp only [Prod.mk.injEq, Except.ok.injEq] at h
      obtain ⟨_, rfl, _⟩ := h
      exact literal_notNs _ _ _ _ _ _ hi
  | bnode b =>
    simp only [TermEnc.graph, Prod.mk.injEq, Except.ok.injEq] at h
    obtain ⟨_, rfl, _⟩ := h
    simp
  | defaultGraph =>
    simp only [TermEnc.graph, Prod.mk.injEq, Except.ok.injEq] at h
    obtain ⟨_, rfl, _⟩ := h
    simp
  | quoted s p o => simp [TermEnc.graph] at h
  | unsupported => simp [TermEnc.graph] at h

theorem encSlot_notNs (enc : TermEnc → Term → Res TermEnc (List Row × WTerm))
    (henc : ∀ t te te' rows w, enc te t = (te', .ok (rows, w)) → ∀ r ∈ rows, r.NotNs)
    (te te' : TermEnc) (prev prev' : Option Term) (t : Term) (rows : List Row) (w : Option WTerm)
    (h : encSlot enc te prev t = (te', prev', .ok (rows, w))) : ∀ r ∈ rows, r.NotNs := by
  unfold encSlot at h
  split at h
  · simp only [Prod.mk.injEq, Except.ok.injEq] at h
    obtain ⟨_, _, rfl, _⟩ := h
    simp
  · split at h
    · simp at h
    · rename_i hi
      simp only [Prod.mk.injEq, Except.ok.injEq] at h
      obtain ⟨_, _, rfl, _⟩ := h
      exact henc _ _ _ _ _ hi

theorem encodeTripleBody_notNs (exc : PyErr) (st st' : EncState) (terms : List Term) (rows : List Row)
    (h : encodeTripleBody exc st terms = (st', .ok rows)) : ∀ r ∈ rows, r.NotNs := by
  have hs := encSlot_notNs TermEnc.spo spo_notNs
  rcases terms with _ | ⟨a, _ | ⟨b, _ | ⟨c, rest⟩⟩⟩
  · simp [encodeTripleBody] at h
  · simp only [encodeTripleBody] at h
    split at h <;> simp at h
  · simp only [encodeTripleBody] at h
    split at h
    · simp at h
    · split at h <;> simp at h
  · simp only [encodeTripleBody] at h
    split at h
    · simp at h
    · rename_i h1
      split at h
      · simp at h
      · rename_i h2
        split at h
        · simp at h
        · rename_i h3
          simp only [Prod.mk.injEq, Except.ok.injEq] at h
          obtain ⟨_, rfl⟩ := h
          intro r hr
          simp only [List.mem_append, List.mem_singleton] at hr
          rcases hr with ((hr | hr) | hr) | rfl
          · exact hs _ _ _ _ _ _ _ h1 r hr
          · exact hs _ _ _ _ _ _ _ h2 r hr
          · exact hs _ _ _ _ _ _ _ h3 r hr
          · trivial

theorem encodeTriple_notNs (exc : PyErr) (st st' : EncState) (terms : List Term) (rows : List Row)
    (h : encodeTriple exc st terms = (st', .ok rows)) : ∀ r ∈ rows, r.NotNs := by
  obtain ⟨_, st1, hb, _⟩ := encodeTriple_ok_inv h
  exact encodeTripleBody_notNs exc _ st1 terms rows hb

theorem encodeQuadBody_notNs (exc : PyErr) (st st' : EncState) (terms : List Term) (rows : List Row)
    (h : encodeQuadBody exc st terms = (st', .ok rows)) : ∀ r ∈ rows, r.NotNs := by
  have hs := encSlot_notNs TermEnc.spo spo_notNs
  have hg := encSlot_notNs TermEnc.graph graph_notNs
  rcases terms with _ | ⟨a, _ | ⟨b, _ | ⟨c, _ | ⟨g, rest⟩⟩⟩⟩
  · simp [encodeQuadBody] at h
  · simp only [encodeQuadBody] at h
    split at h <;> simp at h
  · simp only [encodeQuadBody] at h
    split at h
    · simp at h
    · split at h <;> simp at h
  · simp only [encodeQuadBody] at h
    split at h
    · simp at h
    · split at h
      · simp at h
      · split at h <;> simp at h
  · simp only [encodeQuadBody] at h
    split at h
    · simp at h
    · rename_i h1
      split at h
      · simp at h
      · rename_i h2
        split at h
        · simp at h
        · rename_i h3
          split at h
          · simp at h
          · rename_i h4
            simp only [Prod.mk.injEq, Except.ok.injEq] at h
            obtain ⟨_, rfl⟩ := h
            intro r hr
            simp only [List.mem_append, List.mem_singleton] at hr
            rcases hr with (((hr | hr) | hr) | hr) | rfl
            · exact hs _ _ _ _ _ _ _ h1 r hr
            · exact hs _ _ _ _ _ _ _ h2 r hr
            · exact hs _ _ _ _ _ _ _ h3 r hr
            · exact hg _ _ _ _ _ _ _ h4 r hr
            · trivial

theorem encodeQuad_notNs (exc : PyErr) (st st' : EncState) (terms : List Term) (rows : List Row)
    (h : encodeQuad exc st terms = (st', .ok rows)) : ∀ r ∈ rows, r.NotNs := by
  obtain ⟨_, st1, hb, _⟩ := encodeQuad_ok_inv h
  exact encodeQuadBody_notNs exc _ st1 terms rows hb


/-! ### Streams and runs -/

/-- No namespace row among the rows of the frames `frs` and of the flow `f`. -/
def CleanRows (frs : List Frame) (f : Flow) : Prop :=
  ∀ x ∈ frs.flatMap (·.rows) ++ f.rows, x.NotNs

theorem cleanRows_iff (frs : List Frame) (f : Flow) :
    CleanRows frs f ↔ (∀ fr ∈ frs, ∀ x ∈ fr.rows, x.NotNs) ∧ (∀ x ∈ f.rows, x.NotNs) := by
  unfold CleanRows
  constructor
  · intro h
    exact ⟨fun fr hfr x hx => h x (List.mem_append.2 (.inl (List.mem_flatMap.2 ⟨fr, hfr, hx⟩))),
      fun x hx => h x (List.mem_append.2 (.inr hx))⟩
  · rintro ⟨h1, h2⟩ x hx
    rcases List.mem_append.1 hx with hx | hx
    · obtain ⟨fr, hfr, hx⟩ := List.mem_flatMap.1 hx
      exact h1 fr hfr x hx
    · exact h2 x hx

theorem CleanRows.append {a b : List Frame} {f g : Flow} (h₁ : CleanRows a f) (h₂ : CleanRows b g) :
    CleanRows (a ++ b) g := by
  rw [cleanRows_iff] at *
  refine ⟨fun fr hfr => ?_, h₂.2⟩
  rcases List.mem_append.1 hfr with hfr | hfr
  · exact h₁.1 fr hfr
  · exact h₂.1 fr hfr

def Run.Clean (r : Run) : Prop := CleanRows r.frames r.stream.flow

theorem Stream.emit_clean (s : Stream) (rows : List Row) (hs : ∀ x ∈ s.flow.rows, x.NotNs)
    (hr : ∀ x ∈ rows, x.NotNs) : CleanRows (s.emit rows).2.toList (s.emit rows).1.flow := by
  unfold CleanRows
  rw [Stream.emit_rows]
  intro x hx
  rcases List.mem_append.1 hx with hx | hx
  · exact hs x hx
  · exact hr x hx

/-- A statement step that never writes a namespace row. -/
def CleanStep (step : Stream → List Term → Res Stream (Option Frame)) : Prop :=
  ∀ (s : Stream) (t : List Term), (∀ x ∈ s.flow.rows, x.NotNs) →
    CleanRows (resFrames (step s t).2) (step s t).1.flow

theorem Stream.triple_cleanStep (exc : PyErr) : CleanStep (Stream.triple exc) := by
  intro s t hs
  rw [Stream.triple_eq]
  rcases h : encodeTriple exc s.enc t with ⟨enc', e | rows⟩
  · simpa [CleanRows] using hs
  · exact Stream.emit_clean { s with enc := enc' } rows hs (encodeTriple_notNs _ _ _ _ _ h)

theorem Stream.quad_cleanStep (exc : PyErr) : CleanStep (Stream.quad exc) := by
  intro s t hs
  rw [Stream.quad_eq]
  rcases h : encodeQuad exc s.enc t with ⟨enc', e | rows⟩
  · simpa [CleanRows] using hs
  · exact Stream.emit_clean { s with enc := enc' } rows hs (encodeQuad_notNs _ _ _ _ _ h)

theorem stmtLoop_clean {step : Stream → List Term → Res Stream (Option Frame)} (hs : CleanStep step)
    (ts : List (List Term)) {r : Run} (h : r.Clean) : (stmtLoop step r ts).Clean := by
  induction ts generalizing r with
  | nil => exact h
  | cons t ts ih =>
    have hc := hs r.stream t ((cleanRows_iff _ _).1 h).2
    rw [stmtLoop_cons]
    generalize step r.stream t = x at hc ⊢
    rcases x with ⟨s', e | fr⟩
    · simpa [Run.Clean] using CleanRows.append h hc
    · exact ih (CleanRows.append h hc)

theorem Stream.graphTriples_clean (exc : PyErr) (s : Stream) (ts : List (List Term)) (acc : List Frame)
    (h : CleanRows acc s.flow) :
    CleanRows (Stream.graphTriples exc s ts acc).2.1 (Stream.graphTriples exc s ts acc).1.flow := by
  induction ts generalizing s acc with
  | nil => exact h
  | cons t ts ih =>
    have hc := Stream.triple_cleanStep exc s t ((cleanRows_iff _ _).1 h).2
    rw [Stream.graphTriples_cons]
    generalize s.triple exc t = x at hc ⊢
    rcases x with ⟨s', e | fr⟩
    · simpa using CleanRows.append h hc
    · exact ih s' _ (CleanRows.append h hc)

theorem Stream.graph_clean (exc : PyErr) (s : Stream) (g : Term) (ts : List (List Term))
    (hs : ∀ x ∈ s.flow.rows, x.NotNs) :
    CleanRows (s.graph exc g ts).2.1 (s.graph exc g ts).1.flow := by
  rw [Stream.graph_eq]
  rcases s.enc.te.beginRow with e0 | te0
  · simpa [CleanRows] using hs
  dsimp only
  rcases hg : te0.graph g with ⟨te', e | ⟨rows, w⟩⟩
  · simpa [CleanRows] using hs
  · dsimp only
    have h0 : CleanRows [] (({ s with enc := { s.enc with te := te'.endRow } } : Stream).pushRows
        (rows ++ [Row.graphStart (some w)])).flow := by
      intro x hx
      simp only [List.flatMap_nil, List.nil_append, Stream.pushRows, List.mem_append,
        List.mem_singleton] at hx
      rcases hx with hx | hx | rfl
      · exact hs x hx
      · exact graph_notNs _ _ _ _ _ hg x hx
      · trivial
    have hk := Stream.graphTriples_clean exc _ ts [] h0
    generalize Stream.graphTriples exc _ ts [] = x at hk ⊢
    rcases x with ⟨s2, frs, _ | e⟩
    · exact CleanRows.append hk
        (Stream.emit_clean s2 [Row.graphEnd] ((cleanRows_iff _ _).1 hk).2 (by simp [Row.NotNs]))
    · exact hk

theorem Run.Clean.graphStep {r : Run} (h : r.Clean) (g : Term) (ts : List (List Term)) :
    (r.graphStep g ts).Clean :=
  CleanRows.append h (Stream.graph_clean _ _ g ts ((cleanRows_iff _ _).1 h).2)

theorem graphsLoop_clean (ts : List (List Term)) {r : Run} (h : r.Clean)
    (cur : Option (Term × List (List Term))) : (graphsLoop r cur ts).Clean := by
  induction ts generalizing r cur with
  | nil =>
    rw [graphsLoop_nil]
    rcases cur with _ | ⟨g, acc⟩
    · exact h
    · exact h.graphStep g acc
  | cons st rest ih =>
    rw [graphsLoop_cons]
    rcases stmtGraph? st with _ | g
    · exact h
    · rcases cur with _ | ⟨cg, acc⟩
      · exact ih h _
      · dsimp only
        split
        · exact ih h _
        · split
          · exact h.graphStep cg acc
          · exact ih (h.graphStep cg acc) _

theorem Run.Clean.pushCut {r : Run} (h : r.Clean) {x : Flow × Option Frame}
    (hx : r.stream.flow.IsCut x) : (r.pushCut x).Clean := by
  have hr := hx.rows
  unfold Run.Clean CleanRows at *
  intro y hy
  apply h y
  simp only [Run.pushCut, Run.push_frames, Run.push_stream, List.flatMap_append, List.append_assoc] at hy
  rw [hr] at hy
  exact hy

theorem epilogue_clean {r : Run} (h : r.Clean) (b : Bool) : (epilogue r b).Clean := by
  rw [epilogue_eq]
  exact (h.pushCut (epiCut_isCut b _)).pushCut (Flow.toStreamFrame_isCut _)

theorem Stream.enroll_clean (s : Stream) (hs : ∀ x ∈ s.flow.rows, x.NotNs) :
    ∀ x ∈ s.enroll.flow.rows, x.NotNs := by
  unfold Stream.enroll
  split
  · exact hs
  · intro x hx
    simp only [Stream.pushRows, List.mem_append, List.mem_singleton] at hx
    rcases hx with hx | rfl
    · exact hs x hx
    · trivial

theorem prologue_off (s : Stream) (d : SerData) (hoff : s.opts.params.namespaceDeclarations = false) :
    prologue s d = (s.enroll, .ok ()) := by
  cases d with
  | gen l => rfl
  | sink sk => simp [prologue, s.enroll_keeps.opts, hoff]

theorem classLoop_clean (c : StreamClass) {r : Run} (h : r.Clean) (ts : List (List Term)) :
    (classLoop c r ts).Clean := by
  cases c
  · exact stmtLoop_clean (Stream.triple_cleanStep _) ts h
  · exact stmtLoop_clean (Stream.quad_cleanStep _) ts h
  · exact graphsLoop_clean ts h none

theorem streamFrames_clean (s : Stream) (d : SerData)
    (hoff : s.opts.params.namespaceDeclarations = false) (hs : ∀ x ∈ s.flow.rows, x.NotNs) :
    (streamFrames s d).Clean := by
  rw [streamFrames_eq, framesWith_eq, prologue_off s d hoff]
  dsimp only
  have h0 : Run.Clean { stream := s.enroll } := by
    simpa [Run.Clean, CleanRows] using s.enroll_clean hs
  have hl := classLoop_clean s.cls h0 d.stmts
  split
  · exact hl
  · exact epilogue_clean hl _

end Jelly

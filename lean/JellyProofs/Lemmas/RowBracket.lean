import JellyModel.Encode
/-!
# Row bracketing: `beginRow` / `endRow` around the statement bodies

`encodeTriple` / `encodeQuad` are `beginRow` (refused on a broken encoder), the body
(`encodeTripleBody` / `encodeQuadBody`) on the started encoder, and then either `endRow` (success) or
the repeated terms put back (failure). These lemmas split a call into those pieces.
-/
namespace Jelly

theorem TermEnc.beginRow_ok {te : TermEnc} (h : te.broken = false) : te.beginRow = .ok te.startRow := by
  simp only [TermEnc.beginRow, h, Bool.false_eq_true, if_false]

theorem TermEnc.beginRow_broken {te : TermEnc} (h : te.broken = true) : te.beginRow = .error .conformance := by
  simp only [TermEnc.beginRow, h, if_true]

@[simp] theorem TermEnc.endRow_broken (te : TermEnc) : te.endRow.broken = false := rfl

theorem TermEnc.broken_of_rowOpen_false {te : TermEnc} (h : te.rowOpen = false) : te.broken = false := by
  simp only [TermEnc.broken, h, Bool.false_and]

theorem encodeTriple_eq {es : EncState} (h : es.te.broken = false) (exc : PyErr) (terms : List Term) :
    encodeTriple exc es terms =
      match encodeTripleBody exc { es with te := es.te.startRow } terms with
      | (st', .error e) => ({ st' with rep := es.rep }, .error e)
      | (st', .ok rows) => ({ st' with te := st'.te.endRow }, .ok rows) := by
  unfold encodeTriple
  rw [TermEnc.beginRow_ok h]
  dsimp only
  rcases encodeTripleBody exc { es with te := es.te.startRow } terms with ⟨st', e | rows⟩ <;> rfl

theorem encodeQuad_eq {es : EncState} (h : es.te.broken = false) (exc : PyErr) (terms : List Term) :
    encodeQuad exc es terms =
      match encodeQuadBody exc { es with te := es.te.startRow } terms with
      | (st', .error e) => ({ st' with rep := es.rep }, .error e)
      | (st', .ok rows) => ({ st' with te := st'.te.endRow }, .ok rows) := by
  unfold encodeQuad
  rw [TermEnc.beginRow_ok h]
  dsimp only
  rcases encodeQuadBody exc { es with te := es.te.startRow } terms with ⟨st', e | rows⟩ <;> rfl

theorem encodeTriple_broken {es : EncState} (h : es.te.broken = true) (exc : PyErr) (terms : List Term) :
    encodeTriple exc es terms = (es, .error .conformance) := by
  unfold encodeTriple
  rw [TermEnc.beginRow_broken h]

theorem encodeQuad_broken {es : EncState} (h : es.te.broken = true) (exc : PyErr) (terms : List Term) :
    encodeQuad exc es terms = (es, .error .conformance) := by
  unfold encodeQuad
  rw [TermEnc.beginRow_broken h]

/-- A successful `encodeTriple`: the encoder was not broken, the body succeeded, the row was closed. -/
theorem encodeTriple_ok_inv {exc : PyErr} {st st' : EncState} {terms : List Term} {rows : List Row}
    (h : encodeTriple exc st terms = (st', .ok rows)) :
    st.te.broken = false ∧ ∃ st1, encodeTripleBody exc { st with te := st.te.startRow } terms = (st1, .ok rows) ∧
      st' = { st1 with te := st1.te.endRow } := by
  cases hb : st.te.broken with
  | true => rw [encodeTriple_broken hb] at h; simp at h
  | false =>
    refine ⟨rfl, ?_⟩
    rw [encodeTriple_eq hb] at h
    rcases hbody : encodeTripleBody exc { st with te := st.te.startRow } terms with ⟨st1, e | rows1⟩
    · rw [hbody] at h; simp at h
    · rw [hbody] at h
      simp only [Prod.mk.injEq, Except.ok.injEq] at h
      exact ⟨st1, by rw [h.2], h.1.symm⟩

theorem encodeQuad_ok_inv {exc : PyErr} {st st' : EncState} {terms : List Term} {rows : List Row}
    (h : encodeQuad exc st terms = (st', .ok rows)) :
    st.te.broken = false ∧ ∃ st1, encodeQuadBody exc { st with te := st.te.startRow } terms = (st1, .ok rows) ∧
      st' = { st1 with te := st1.te.endRow } := by
  cases hb : st.te.broken with
  | true => rw [encodeQuad_broken hb] at h; simp at h
  | false =>
    refine ⟨rfl, ?_⟩
    rw [encodeQuad_eq hb] at h
    rcases hbody : encodeQuadBody exc { st with te := st.te.startRow } terms with ⟨st1, e | rows1⟩
    · rw [hbody] at h; simp at h
    · rw [hbody] at h
      simp only [Prod.mk.injEq, Except.ok.injEq] at h
      exact ⟨st1, by rw [h.2], h.1.symm⟩

/-- A failed `encodeTriple`: either the encoder was broken (nothing changes), or the body failed and
    the repeated terms were put back. -/
theorem encodeTriple_err_inv {exc : PyErr} {st st' : EncState} {terms : List Term} {e : PyErr}
    (h : encodeTriple exc st terms = (st', .error e)) :
    (st.te.broken = true ∧ st' = st ∧ e = .conformance) ∨
    (st.te.broken = false ∧ ∃ st1, encodeTripleBody exc { st with te := st.te.startRow } terms = (st1, .error e) ∧
      st' = { st1 with rep := st.rep }) := by
  cases hb : st.te.broken with
  | true =>
    rw [encodeTriple_broken hb] at h
    simp only [Prod.mk.injEq, Except.error.injEq] at h
    exact Or.inl ⟨rfl, h.1.symm, h.2.symm⟩
  | false =>
    refine Or.inr ⟨rfl, ?_⟩
    rw [encodeTriple_eq hb] at h
    rcases hbody : encodeTripleBody exc { st with te := st.te.startRow } terms with ⟨st1, e1 | rows1⟩
    · rw [hbody] at h
      simp only [Prod.mk.injEq, Except.error.injEq] at h
      exact ⟨st1, by rw [h.2], h.1.symm⟩
    · rw [hbody] at h; simp at h

theorem encodeQuad_err_inv {exc : PyErr} {st st' : EncState} {terms : List Term} {e : PyErr}
    (h : encodeQuad exc st terms = (st', .error e)) :
    (st.te.broken = true ∧ st' = st ∧ e = .conformance) ∨
    (st.te.broken = false ∧ ∃ st1, encodeQuadBody exc { st with te := st.te.startRow } terms = (st1, .error e) ∧
      st' = { st1 with rep := st.rep }) := by
  cases hb : st.te.broken with
  | true =>
    rw [encodeQuad_broken hb] at h
    simp only [Prod.mk.injEq, Except.error.injEq] at h
    exact Or.inl ⟨rfl, h.1.symm, h.2.symm⟩
  | false =>
    refine Or.inr ⟨rfl, ?_⟩
    rw [encodeQuad_eq hb] at h
    rcases hbody : encodeQuadBody exc { st with te := st.te.startRow } terms with ⟨st1, e1 | rows1⟩
    · rw [hbody] at h
      simp only [Prod.mk.injEq, Except.error.injEq] at h
      exact ⟨st1, by rw [h.2], h.1.symm⟩
    · rw [hbody] at h; simp at h

end Jelly

import JellyProofs.Lemmas.AuditTable
import JellyProofs.Lemmas.TermSim
/-!
# Term-level audit (C19): entry rows of `TermEnc.iriIndices`, `TermEnc.literal`, `TermEnc.spo`,
# `TermEnc.graph` are not counted by `Spec.runAudit`, and the ids in the wire term are in zero form
# wherever the zero form applies (`Spec.termZeroAudit` counts nothing).

Independent of the LRU bookkeeping of C03: only well-formedness of the writer tables is needed.
-/
namespace Jelly

/-- Writer-side invariant needed by the audit. -/
structure WInv (te : TermEnc) : Prop where
  wfn : te.names.lookup.WF
  wfp : te.prefixes.lookup.WF
  wfd : te.datatypes.lookup.WF
  posn : 0 < te.names.lookup.maxSize
  p0 : te.prefixes.lookup.maxSize = 0 → te.prefixes.lastReused = 0

/-- The three reader tables mirror the three writer tables exactly. -/
structure XM (te : TermEnc) (ss : Spec.State) : Prop where
  n : XMirror te.names ss.names
  p : XMirror te.prefixes ss.prefixes
  d : XMirror te.datatypes ss.datatypes

theorem XM.em {te : TermEnc} {ss : Spec.State} (m : XM te ss) : EM te ss := ⟨m.n.em, m.p.em, m.d.em⟩

theorem runAudit_nameEntry {st : Spec.State} {t' : LookupDec} {id : Nat} {k : String}
    (ho : st.opts ≠ none) (h : Spec.assign st.names id k = .ok t')
    (lc : Option Term) (a : Spec.Audit) (rs : List Row) :
    Spec.runAudit st lc a (Row.nameEntry id k :: rs)
      = Spec.runAudit { st with names := t' } lc (Spec.entryAudit st.names id k a) rs := by
  obtain ⟨o, ho'⟩ := Option.ne_none_iff_exists'.mp ho
  have : Spec.step st (Row.nameEntry id k) = .ok ({ st with names := t' }, none) := by
    simp only [Spec.step, ho', h, bind, Except.bind, pure, Except.pure]
  simp only [Spec.runAudit, this, Spec.auditRow]

theorem runAudit_prefixEntry {st : Spec.State} {t' : LookupDec} {id : Nat} {k : String}
    (ho : st.opts ≠ none) (h : Spec.assign st.prefixes id k = .ok t')
    (lc : Option Term) (a : Spec.Audit) (rs : List Row) :
    Spec.runAudit st lc a (Row.prefixEntry id k :: rs)
      = Spec.runAudit { st with prefixes := t' } lc (Spec.entryAudit st.prefixes id k a) rs := by
  obtain ⟨o, ho'⟩ := Option.ne_none_iff_exists'.mp ho
  have : Spec.step st (Row.prefixEntry id k) = .ok ({ st with prefixes := t' }, none) := by
    simp only [Spec.step, ho', h, bind, Except.bind, pure, Except.pure]
  simp only [Spec.runAudit, this, Spec.auditRow]

theorem runAudit_dtEntry {st : Spec.State} {t' : LookupDec} {id : Nat} {k : String}
    (ho : st.opts ≠ none) (h : Spec.assign st.datatypes id k = .ok t')
    (lc : Option Term) (a : Spec.Audit) (rs : List Row) :
    Spec.runAudit st lc a (Row.dtEntry id k :: rs)
      = Spec.runAudit { st with datatypes := t' } lc (Spec.entryAudit st.datatypes id k a) rs := by
  obtain ⟨o, ho'⟩ := Option.ne_none_iff_exists'.mp ho
  have : Spec.step st (Row.dtEntry id k) = .ok ({ st with datatypes := t' }, none) := by
    simp only [Spec.step, ho', h, bind, Except.bind, pure, Except.pure]
  simp only [Spec.runAudit, this, Spec.auditRow]

/-- The rows are entry rows which the reference decoder accepts, keeping the exact mirror, and which
    the audit does not count. -/
def IngestsA (te te' : TermEnc) (rows : List Row) : Prop :=
  ∀ ss, XM te ss → ss.opts ≠ none →
    ∃ ss', XM te' ss' ∧ SameFrame ss ss' ∧
      (∀ rest acc i, Spec.run ss (rows ++ rest) acc i = Spec.run ss' rest acc (i + rows.length)) ∧
      (∀ lc a rest, Spec.runAudit ss lc a (rows ++ rest) = Spec.runAudit ss' lc a rest)

theorem IngestsA.refl (te : TermEnc) : IngestsA te te [] :=
  fun ss m _ => ⟨ss, m, SameFrame.refl ss, fun _ _ _ => rfl, fun _ _ _ => rfl⟩

theorem IngestsA.trans {a b c : TermEnc} {r₁ r₂ : List Row} (h₁ : IngestsA a b r₁) (h₂ : IngestsA b c r₂) :
    IngestsA a c (r₁ ++ r₂) := by
  intro ss m ho
  obtain ⟨s1, m1, f1, e1, a1⟩ := h₁ ss m ho
  obtain ⟨s2, m2, f2, e2, a2⟩ := h₂ s1 m1 (by rw [f1.opts]; exact ho)
  refine ⟨s2, m2, f1.trans f2, ?_, ?_⟩
  · intro rest acc i
    rw [List.append_assoc, e1, e2, List.length_append, Nat.add_assoc]
  · intro lc a rest
    rw [List.append_assoc, a1, a2]

theorem IngestsA.names {te : TermEnc} {e2 : LookupEnc} {oid k}
    (h : ∀ t, XMirror te.names t →
      ∃ t', ingestEntry t oid k = .ok t' ∧ XMirror e2 t' ∧ t'.lastReused = t.lastReused ∧
        ∀ a, entryRowAudit t oid k a = a) :
    IngestsA te { te with names := e2 } (nameEntryRows oid k) := by
  intro ss m ho
  obtain ⟨t', h1, h2, h3, h4⟩ := h ss.names m.n
  cases oid with
  | none =>
    simp only [ingestEntry, Except.ok.injEq] at h1
    subst h1
    exact ⟨ss, ⟨h2, m.p, m.d⟩, SameFrame.refl ss, fun _ _ _ => rfl, fun _ _ _ => rfl⟩
  | some id =>
    simp only [ingestEntry] at h1
    refine ⟨{ ss with names := t' }, ⟨h2, m.p, m.d⟩, ⟨rfl, rfl, rfl, h3, rfl, rfl⟩, ?_, ?_⟩
    · intro rest acc i
      obtain ⟨o, ho'⟩ := Option.ne_none_iff_exists'.mp ho
      have : Spec.step ss (Row.nameEntry id k) = .ok ({ ss with names := t' }, none) := by
        simp only [Spec.step, ho', h1, bind, Except.bind, pure, Except.pure]
      simp only [nameEntryRows, List.cons_append, List.nil_append, run_cons_ok this, Option.toList,
        List.append_nil, List.length_cons, List.length_nil]
    · intro lc a rest
      have := h4 a
      simp only [entryRowAudit] at this
      simp only [nameEntryRows, List.cons_append, List.nil_append, runAudit_nameEntry ho h1, this]

theorem IngestsA.prefixes {te : TermEnc} {e2 : LookupEnc} {oid k}
    (h : ∀ t, XMirror te.prefixes t →
      ∃ t', ingestEntry t oid k = .ok t' ∧ XMirror e2 t' ∧ t'.lastReused = t.lastReused ∧
        ∀ a, entryRowAudit t oid k a = a) :
    IngestsA te { te with prefixes := e2 } (prefixEntryRows oid k) := by
  intro ss m ho
  obtain ⟨t', h1, h2, h3, h4⟩ := h ss.prefixes m.p
  cases oid with
  | none =>
    simp only [ingestEntry, Except.ok.injEq] at h1
    subst h1
    exact ⟨ss, ⟨m.n, h2, m.d⟩, SameFrame.refl ss, fun _ _ _ => rfl, fun _ _ _ => rfl⟩
  | some id =>
    simp only [ingestEntry] at h1
    refine ⟨{ ss with prefixes := t' }, ⟨m.n, h2, m.d⟩, ⟨rfl, rfl, rfl, rfl, h3, rfl⟩, ?_, ?_⟩
    · intro rest acc i
      obtain ⟨o, ho'⟩ := Option.ne_none_iff_exists'.mp ho
      have : Spec.step ss (Row.prefixEntry id k) = .ok ({ ss with prefixes := t' }, none) := by
        simp only [Spec.step, ho', h1, bind, Except.bind, pure, Except.pure]
      simp only [prefixEntryRows, List.cons_append, List.nil_append, run_cons_ok this, Option.toList,
        List.append_nil, List.length_cons, List.length_nil]
    · intro lc a rest
      have := h4 a
      simp only [entryRowAudit] at this
      simp only [prefixEntryRows, List.cons_append, List.nil_append, runAudit_prefixEntry ho h1, this]

theorem IngestsA.datatypes {te : TermEnc} {e2 : LookupEnc} {oid k}
    (h : ∀ t, XMirror te.datatypes t →
      ∃ t', ingestEntry t oid k = .ok t' ∧ XMirror e2 t' ∧ t'.lastReused = t.lastReused ∧
        ∀ a, entryRowAudit t oid k a = a) :
    IngestsA te { te with datatypes := e2 } (dtEntryRows oid k) := by
  intro ss m ho
  obtain ⟨t', h1, h2, h3, h4⟩ := h ss.datatypes m.d
  cases oid with
  | none =>
    simp only [ingestEntry, Except.ok.injEq] at h1
    subst h1
    exact ⟨ss, ⟨m.n, m.p, h2⟩, SameFrame.refl ss, fun _ _ _ => rfl, fun _ _ _ => rfl⟩
  | some id =>
    simp only [ingestEntry] at h1
    refine ⟨{ ss with datatypes := t' }, ⟨m.n, m.p, h2⟩, ⟨rfl, rfl, rfl, rfl, rfl, h3⟩, ?_, ?_⟩
    · intro rest acc i
      obtain ⟨o, ho'⟩ := Option.ne_none_iff_exists'.mp ho
      have : Spec.step ss (Row.dtEntry id k) = .ok ({ ss with datatypes := t' }, none) := by
        simp only [Spec.step, ho', h1, bind, Except.bind, pure, Except.pure]
      simp only [dtEntryRows, List.cons_append, List.nil_append, run_cons_ok this, Option.toList,
        List.append_nil, List.length_cons, List.length_nil]
    · intro lc a rest
      have := h4 a
      simp only [entryRowAudit] at this
      simp only [dtEntryRows, List.cons_append, List.nil_append, runAudit_dtEntry ho h1, this]

/-! ## The per-term audit package -/

/-- What the audit needs from an encoding step `te ⟶ te'` that emitted the entry rows `rows` and put
    the (optional) wire term `ow` into the statement. -/
structure GoodT (te te' : TermEnc) (rows : List Row) (ow : Option WTerm) : Prop where
  inv : WInv te'
  ing : IngestsA te te' rows
  zero : ∀ c, Spec.optZeroAudit te.names.lastReused te.prefixes.lastReused c ow
    = (te'.names.lastReused, te'.prefixes.lastReused, c)

theorem GoodT.none {te : TermEnc} (inv : WInv te) : GoodT te te [] none :=
  ⟨inv, IngestsA.refl te, fun _ => by simp only [Spec.optZeroAudit]⟩

/-- A wire term without IRIs, no rows. -/
theorem GoodT.plain {te : TermEnc} (inv : WInv te) (w : WTerm)
    (hw : ∀ ln lp c, Spec.termZeroAudit ln lp c w = (ln, lp, c)) : GoodT te te [] (some w) :=
  ⟨inv, IngestsA.refl te, fun _ => by simp only [Spec.optZeroAudit, hw]⟩

theorem iri_zero {ln lp ln' lp' p n : Nat}
    (hn : (n = 0 ∧ ln' = ln + 1) ∨ (n ≠ 0 ∧ n ≠ ln + 1 ∧ ln' = n))
    (hp : (p = 0 ∧ lp' = lp) ∨ (p ≠ 0 ∧ p ≠ lp ∧ lp' = p)) (c : Nat) :
    Spec.termZeroAudit ln lp c (.iri p n) = (ln', lp', c) := by
  simp only [Spec.termZeroAudit]
  rcases hn with ⟨rfl, rfl⟩ | ⟨hn0, hn1, rfl⟩ <;> rcases hp with ⟨rfl, rfl⟩ | ⟨hp0, hp1, rfl⟩
  · simp
  · have a : (lp' == lp) = false := by simpa using hp1
    have b : (lp' == 0) = false := by simpa using hp0
    simp [a, b]
  · have a : (ln' == ln + 1) = false := by simpa using hn1
    have b : (ln' == 0) = false := by simpa using hn0
    simp [a, b]
  · have a : (lp' == lp) = false := by simpa using hp1
    have b : (lp' == 0) = false := by simpa using hp0
    have a' : (ln' == ln + 1) = false := by simpa using hn1
    have b' : (ln' == 0) = false := by simpa using hn0
    simp [a, b, a', b']

theorem iriIndices_good {te : TermEnc} (inv : WInv te) (iri : String) :
    (∃ te' e, te.iriIndices iri = (te', .error e)) ∨
    ∃ te' rows p n, te.iriIndices iri = (te', .ok (rows, p, n)) ∧ GoodT te te' rows (some (.iri p n)) := by
  by_cases hup : te.prefixes.lookup.maxSize = 0
  · rcases useNameA (k := iri) inv.wfn inv.posn with herr | ⟨ne1, noid, ne2, nid, hne, hnt, hnu, hnz⟩
    · exact Or.inl ⟨_, _, iriIndices_err_noprefix hup herr⟩
    right
    refine ⟨{ te with names := ne2 }, nameEntryRows noid iri, 0, nid,
      iriIndices_eq_noprefix hup hne hnt, ?_, IngestsA.names hnu.mirror, ?_⟩
    · exact ⟨hnu.wf, inv.wfp, inv.wfd, by rw [hnu.max]; exact inv.posn, inv.p0⟩
    · intro c
      simp only [Spec.optZeroAudit]
      exact iri_zero hnz (Or.inl ⟨rfl, rfl⟩) c
  · have hpos : 0 < te.prefixes.lookup.maxSize := Nat.pos_of_ne_zero hup
    rcases usePrefixA (k := (splitIri iri).1) inv.wfp hpos with herr | ⟨pe1, poid, pe2, pid, hpe, hpt, hpu, hpz⟩
    · exact Or.inl ⟨_, _, iriIndices_err_prefix1 hup herr⟩
    rcases useNameA (k := (splitIri iri).2) inv.wfn inv.posn with herr | ⟨ne1, noid, ne2, nid, hne, hnt, hnu, hnz⟩
    · exact Or.inl ⟨_, _, iriIndices_err_prefix2 hup hpe herr⟩
    right
    refine ⟨{ te with names := ne2, prefixes := pe2 }, _, pid, nid,
      iriIndices_eq_prefix hup hpe hne hpt hnt, ?_, ?_, ?_⟩
    · exact ⟨hnu.wf, hpu.wf, inv.wfd, by rw [hnu.max]; exact inv.posn,
        fun h => absurd (hpu.max ▸ h) hup⟩
    · have i1 : IngestsA te { te with prefixes := pe2 } (prefixEntryRows poid (splitIri iri).1) :=
        IngestsA.prefixes hpu.mirror
      have i2 : IngestsA { te with prefixes := pe2 } { te with names := ne2, prefixes := pe2 }
          (nameEntryRows noid (splitIri iri).2) :=
        IngestsA.names (te := { te with prefixes := pe2 }) hnu.mirror
      exact i1.trans i2
    · intro c
      simp only [Spec.optZeroAudit]
      exact iri_zero hnz hpz c

theorem literal_good {te te' : TermEnc} (inv : WInv te) (lex : String) (lang dt : Option String)
    {rows : List Row} {kind : WLitKind} (h : te.literal lang dt = (te', .ok (rows, kind))) :
    GoodT te te' rows (some (.literal lex kind)) := by
  have hplain : ∀ k, GoodT te te [] (some (.literal lex k)) := fun k =>
    GoodT.plain inv _ (fun _ _ _ => by simp only [Spec.termZeroAudit])
  cases dt with
  | none =>
    simp only [TermEnc.literal, Prod.mk.injEq, Except.ok.injEq] at h
    obtain ⟨rfl, rfl, rfl⟩ := h
    exact hplain _
  | some d =>
    by_cases hc : (d != "" && d != XSD_STRING) = true
    · by_cases hm : te.datatypes.lookup.maxSize = 0
      · have hmb : (te.datatypes.lookup.maxSize == 0) = true := by simp [hm]
        simp [TermEnc.literal, hc, hmb] at h
      · have hmb : (te.datatypes.lookup.maxSize == 0) = false := by simpa using hm
        rcases useDatatypeA (k := d) inv.wfd (Nat.pos_of_ne_zero hm) with herr |
          ⟨de1, doid, de2, did, hde, hdt, hdu, hdne⟩
        · simp [TermEnc.literal, hc, hmb, herr] at h
        have hdne' : (did != 0) = true := by simpa using hdne
        simp only [TermEnc.literal, hc, if_true, hmb, Bool.false_eq_true, if_false, hde, hdt, hdne',
          Prod.mk.injEq, Except.ok.injEq] at h
        obtain ⟨rfl, hrows, rfl⟩ := h
        have hrows' : rows = dtEntryRows doid d := by
          rw [← hrows]; cases doid <;> rfl
        subst hrows'
        refine ⟨⟨inv.wfn, inv.wfp, hdu.wf, inv.posn, inv.p0⟩, IngestsA.datatypes hdu.mirror, ?_⟩
        intro c
        simp only [Spec.optZeroAudit, Spec.termZeroAudit]
    · have hc' : (d != "" && d != XSD_STRING) = false := by simpa using hc
      simp only [TermEnc.literal, hc', Bool.false_eq_true, if_false, Prod.mk.injEq, Except.ok.injEq] at h
      obtain ⟨rfl, rfl, rfl⟩ := h
      exact hplain _

theorem spo_good : ∀ (t : Term) (te te' : TermEnc) (rows : List Row) (w : WTerm), WInv te →
    te.spo t = (te', .ok (rows, w)) → GoodT te te' rows (some w) := by
  intro t
  induction t with
  | iri s =>
    intro te te' rows w inv h
    rcases iriIndices_good inv s with ⟨te1, e, herr⟩ | ⟨te1, rows1, p, n, heq, hg⟩
    · simp [TermEnc.spo, herr] at h
    simp only [TermEnc.spo, heq, Prod.mk.injEq, Except.ok.injEq] at h
    obtain ⟨rfl, rfl, rfl⟩ := h
    exact hg
  | bnode b =>
    intro te te' rows w inv h
    simp only [TermEnc.spo, Prod.mk.injEq, Except.ok.injEq] at h
    obtain ⟨rfl, rfl, rfl⟩ := h
    exact GoodT.plain inv _ (fun _ _ _ => by simp only [Spec.termZeroAudit])
  | lit lex lang dt =>
    intro te te' rows w inv h
    rcases hl : te.literal lang dt with ⟨te1, (e | ⟨r, k⟩)⟩
    · simp [TermEnc.spo, hl] at h
    · simp only [TermEnc.spo, hl, Prod.mk.injEq, Except.ok.injEq] at h
      obtain ⟨rfl, rfl, rfl⟩ := h
      exact literal_good inv lex lang dt hl
  | quoted s p o ihs ihp iho =>
    intro te te' rows w inv h
    rcases h1 : te.spo s with ⟨te1, (e | ⟨r1, ws⟩)⟩
    · simp [TermEnc.spo, h1] at h
    rcases h2 : te1.spo p with ⟨te2, (e | ⟨r2, wp⟩)⟩
    · simp [TermEnc.spo, h1, h2] at h
    rcases h3 : te2.spo o with ⟨te3, (e | ⟨r3, wo⟩)⟩
    · simp [TermEnc.spo, h1, h2, h3] at h
    simp only [TermEnc.spo, h1, h2, h3, Prod.mk.injEq, Except.ok.injEq] at h
    obtain ⟨rfl, rfl, rfl⟩ := h
    have g1 := ihs te te1 r1 ws inv h1
    have g2 := ihp te1 te2 r2 wp g1.inv h2
    have g3 := iho te2 te3 r3 wo g2.inv h3
    refine ⟨g3.inv, (g1.ing.trans g2.ing).trans g3.ing, ?_⟩
    intro c
    have z1 := g1.zero; have z2 := g2.zero; have z3 := g3.zero
    simp only [Spec.optZeroAudit] at z1 z2 z3 ⊢
    simp only [Spec.termZeroAudit, Spec.optZeroAudit, z1, z2, z3]
  | defaultGraph => intro te te' rows w _ h; simp [TermEnc.spo] at h
  | unsupported => intro te te' rows w _ h; simp [TermEnc.spo] at h

theorem graph_good (t : Term) (te te' : TermEnc) (rows : List Row) (w : WTerm) (inv : WInv te)
    (h : te.graph t = (te', .ok (rows, w))) : GoodT te te' rows (some w) := by
  cases t with
  | iri s =>
    rcases iriIndices_good inv s with ⟨te1, e, herr⟩ | ⟨te1, rows1, p, n, heq, hg⟩
    · simp [TermEnc.graph, herr] at h
    simp only [TermEnc.graph, heq, Prod.mk.injEq, Except.ok.injEq] at h
    obtain ⟨rfl, rfl, rfl⟩ := h
    exact hg
  | bnode b =>
    simp only [TermEnc.graph, Prod.mk.injEq, Except.ok.injEq] at h
    obtain ⟨rfl, rfl, rfl⟩ := h
    exact GoodT.plain inv _ (fun _ _ _ => by simp only [Spec.termZeroAudit])
  | lit lex lang dt =>
    rcases hl : te.literal lang dt with ⟨te1, (e | ⟨r, k⟩)⟩
    · simp [TermEnc.graph, hl] at h
    · simp only [TermEnc.graph, hl, Prod.mk.injEq, Except.ok.injEq] at h
      obtain ⟨rfl, rfl, rfl⟩ := h
      exact literal_good inv lex lang dt hl
  | quoted s p o => simp [TermEnc.graph] at h
  | defaultGraph =>
    simp only [TermEnc.graph, Prod.mk.injEq, Except.ok.injEq] at h
    obtain ⟨rfl, rfl, rfl⟩ := h
    exact GoodT.plain inv _ (fun _ _ _ => by simp only [Spec.termZeroAudit])
  | unsupported => simp [TermEnc.graph] at h

/-! ## One statement slot -/

theorem encSlot_inv {enc : TermEnc → Term → Res TermEnc (List Row × WTerm)} {te te' : TermEnc}
    {prev rs : Option Term} {t : Term} {rows : List Row} {ow : Option WTerm}
    (h : encSlot enc te prev t = (te', rs, .ok (rows, ow))) :
    (prev = some t ∧ te' = te ∧ rows = [] ∧ ow = none) ∨
    (prev ≠ some t ∧ ∃ w, ow = some w ∧ enc te t = (te', .ok (rows, w))) := by
  by_cases hp : prev = some t
  · left
    have : (prev == some t) = true := by simp [hp]
    simp only [encSlot, this, if_true, Prod.mk.injEq, Except.ok.injEq] at h
    obtain ⟨rfl, _, rfl, rfl⟩ := h
    exact ⟨hp, rfl, rfl, rfl⟩
  · right
    have : (prev == some t) = false := by simpa using hp
    rcases he : enc te t with ⟨te1, (e | ⟨r, w⟩)⟩
    · simp [encSlot, this, he] at h
    · simp only [encSlot, this, he, Bool.false_eq_true, if_false, Prod.mk.injEq, Except.ok.injEq] at h
      obtain ⟨rfl, _, rfl, rfl⟩ := h
      exact ⟨hp, w, rfl, rfl⟩

/-- A slot: the audit package, and the slot is present only if the term differs from the repeated
    term of the slot. -/
theorem encSlot_good {enc : TermEnc → Term → Res TermEnc (List Row × WTerm)} {te te' : TermEnc}
    {prev rs : Option Term} {t : Term} {rows : List Row} {ow : Option WTerm}
    (henc : ∀ te te' rows w, WInv te → enc te t = (te', .ok (rows, w)) → GoodT te te' rows (some w))
    (inv : WInv te) (h : encSlot enc te prev t = (te', rs, .ok (rows, ow))) :
    GoodT te te' rows ow ∧ (ow.isSome && prev == some t) = false := by
  rcases encSlot_inv h with ⟨_, rfl, rfl, rfl⟩ | ⟨hp, w, rfl, he⟩
  · exact ⟨GoodT.none inv, rfl⟩
  · refine ⟨henc te te' rows w inv he, ?_⟩
    have : (prev == some t) = false := by simpa using hp
    simp [this]

end Jelly

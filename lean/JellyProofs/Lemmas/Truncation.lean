import JellyModel.Parse
import JellyProofs.Lemmas.HeaderLoop
/-!
# Truncation lemmas for the framing layer (`JellyModel/Parse.lean`)

"Cut" streams are phrased as prefixes: `b'` is a cut of `b' ++ tail`.

* `readStreamVarint_append`, `parseLengthPrefixed_append`: a successful read from the cut stream is the
  same successful read from the whole stream, and the rest of the cut stream is the cut rest.
* `parseLengthPrefixed_length_lt`: each successful read consumes at least one byte.
* `restFrames_*`, `firstNonEmpty_*`: accumulator factoring, length bounds, prefix monotonicity with
  arbitrary sufficient fuels.
* `decodeFrames_*`, `flatEvents`: the event list of a flat parse and its prefix monotonicity in the
  list of frames.
-/
namespace Jelly

/-! ## The stream varint reader -/

theorem readStreamVarint_append (fuel sh acc : Nat) (b' tail : Bytes) (v : Nat) (r' : Bytes) :
    readStreamVarint fuel sh acc b' = .ok (some (v, r')) →
    readStreamVarint fuel sh acc (b' ++ tail) = .ok (some (v, r' ++ tail)) := by
  induction fuel generalizing sh acc b' with
  | zero =>
    cases b' with
    | nil => simp only [readStreamVarint]; split <;> intro h <;> cases h
    | cons x xs => simp only [readStreamVarint]; intro h; cases h
  | succ fuel ih =>
    cases b' with
    | nil => simp only [readStreamVarint]; split <;> intro h <;> cases h
    | cons x xs =>
      simp only [readStreamVarint, List.cons_append]
      split
      · intro h
        cases h
        rfl
      · split
        · intro h; cases h
        · exact ih _ _ _

theorem readStreamVarint_length_lt (fuel sh acc : Nat) (b : Bytes) (v : Nat) (r : Bytes) :
    readStreamVarint fuel sh acc b = .ok (some (v, r)) → r.length < b.length := by
  induction fuel generalizing sh acc b with
  | zero =>
    cases b with
    | nil => simp only [readStreamVarint]; split <;> intro h <;> cases h
    | cons x xs => simp only [readStreamVarint]; intro h; cases h
  | succ fuel ih =>
    cases b with
    | nil => simp only [readStreamVarint]; split <;> intro h <;> cases h
    | cons x xs =>
      simp only [readStreamVarint]
      split
      · intro h
        cases h
        simp
      · split
        · intro h; cases h
        · intro h
          have := ih _ _ _ h
          simp only [List.length_cons]
          omega

/-! ## One length-prefixed read -/

/-- A successful read from a cut stream is the same successful read from the whole stream; the rest
    of the cut stream is the cut rest. -/
theorem parseLengthPrefixed_append (b' tail : Bytes) (f : Frame) (rest' : Bytes)
    (h : parseLengthPrefixed b' = .frame f rest') :
    parseLengthPrefixed (b' ++ tail) = .frame f (rest' ++ tail) := by
  unfold parseLengthPrefixed at h ⊢
  cases hv : readStreamVarint 10 0 0 b' with
  | error e => rw [hv] at h; cases h
  | ok o =>
    cases o with
    | none => rw [hv] at h; cases h
    | some p =>
      obtain ⟨size, r'⟩ := p
      rw [hv] at h
      rw [readStreamVarint_append _ _ _ _ tail _ _ hv]
      simp only at h ⊢
      by_cases hs : (size == 0) = true
      · simp only [hs, if_true] at h ⊢
        cases h
        rfl
      · simp only [hs, if_false, Bool.false_eq_true] at h ⊢
        cases hd : decFrame (List.take size r') with
        | error e => rw [hd] at h; cases h
        | ok fr =>
          rw [hd] at h
          simp only at h
          by_cases hl : ((List.take size r').length != size) = true
          · simp only [hl, if_true] at h; cases h
          · simp only [hl, if_false, Bool.false_eq_true] at h
            have hlen : (List.take size r').length = size := by simpa using hl
            have hle : size ≤ r'.length := by
              rw [List.length_take] at hlen; omega
            rw [List.take_append_of_le_length hle, hd]
            simp only [hl, if_false, Bool.false_eq_true]
            rw [List.drop_append_of_le_length hle]
            cases h
            rfl

/-- Each successful read consumes at least one byte. -/
theorem parseLengthPrefixed_length_lt (b : Bytes) (f : Frame) (rest : Bytes)
    (h : parseLengthPrefixed b = .frame f rest) : rest.length < b.length := by
  unfold parseLengthPrefixed at h
  cases hv : readStreamVarint 10 0 0 b with
  | error e => rw [hv] at h; cases h
  | ok o =>
    cases o with
    | none => rw [hv] at h; cases h
    | some p =>
      obtain ⟨size, r'⟩ := p
      rw [hv] at h
      have hlt := readStreamVarint_length_lt _ _ _ _ _ _ hv
      simp only at h
      split at h
      · cases h; exact hlt
      · split at h
        · cases h
        · split at h
          · cases h
          · cases h
            simp only [List.length_drop]
            omega

/-! ## `restFrames` -/

theorem restFrames_acc_prefix (fuel : Nat) (b : Bytes) (acc : List Frame) :
    acc <+: (restFrames fuel b acc).1 := by
  induction fuel generalizing b acc with
  | zero => simp [restFrames]
  | succ fuel ih =>
    simp only [restFrames]
    split
    · simp
    · simp
    · exact (List.prefix_append acc _).trans (ih _ _)

/-- The accumulator can be factored out. -/
theorem restFrames_acc (fuel : Nat) (b : Bytes) (acc : List Frame) :
    restFrames fuel b acc = (acc ++ (restFrames fuel b []).1, (restFrames fuel b []).2) := by
  induction fuel generalizing b acc with
  | zero => simp [restFrames]
  | succ fuel ih =>
    simp only [restFrames]
    split
    · simp
    · simp
    · rw [ih _ (acc ++ [_]), ih _ ([] ++ [_])]
      simp

/-- Each delivered frame costs at least one input byte. -/
theorem restFrames_length_le (fuel : Nat) (b : Bytes) (acc : List Frame) :
    (restFrames fuel b acc).1.length ≤ acc.length + b.length := by
  induction fuel generalizing b acc with
  | zero => simp [restFrames]
  | succ fuel ih =>
    simp only [restFrames]
    split
    · simp
    · simp
    · rename_i f rest hp
      have h1 := parseLengthPrefixed_length_lt _ _ _ hp
      have h2 := ih rest (acc ++ [f])
      simp only [List.length_append, List.length_cons, List.length_nil] at h2
      omega

/-- Prefix monotonicity of the frame iterator in the input, for any sufficient fuels. -/
theorem restFrames_append_prefix (fuel fuel' : Nat) (b' tail : Bytes) (acc : List Frame)
    (hf : b'.length < fuel) (hf' : (b' ++ tail).length < fuel') :
    (restFrames fuel b' acc).1 <+: (restFrames fuel' (b' ++ tail) acc).1 := by
  induction fuel generalizing fuel' b' acc with
  | zero => omega
  | succ fuel ih =>
    cases fuel' with
    | zero => omega
    | succ fuel' =>
      simp only [restFrames]
      cases hp : parseLengthPrefixed b' with
      | eof =>
        simp only
        exact restFrames_acc_prefix (fuel' + 1) (b' ++ tail) acc
      | err e =>
        simp only
        exact restFrames_acc_prefix (fuel' + 1) (b' ++ tail) acc
      | frame f rest =>
        rw [parseLengthPrefixed_append _ tail _ _ hp]
        simp only
        have h1 := parseLengthPrefixed_length_lt _ _ _ hp
        apply ih
        · omega
        · simp only [List.length_append] at hf' ⊢
          omega

/-- Any fuel above the input length gives the same result. -/
theorem restFrames_fuel (fuel fuel' : Nat) (b : Bytes) (acc : List Frame)
    (hf : b.length < fuel) (hf' : b.length < fuel') :
    restFrames fuel b acc = restFrames fuel' b acc := by
  induction fuel generalizing fuel' b acc with
  | zero => omega
  | succ fuel ih =>
    cases fuel' with
    | zero => omega
    | succ fuel' =>
      simp only [restFrames]
      cases hp : parseLengthPrefixed b with
      | eof => rfl
      | err e => rfl
      | frame f rest =>
        simp only
        have h1 := parseLengthPrefixed_length_lt _ _ _ hp
        apply ih <;> omega

/-! ## `firstNonEmpty` -/

/-- A successful first-non-empty-frame search in a cut stream is the same successful search in the
    whole stream (same skipped frames, same first frame, cut rest), for any sufficient fuels. -/
theorem firstNonEmpty_append (fuel fuel' : Nat) (b' tail : Bytes) (skipped sk : List Frame)
    (f : Frame) (rest : Bytes)
    (hf : b'.length < fuel) (hf' : (b' ++ tail).length < fuel')
    (h : firstNonEmpty fuel b' skipped = .ok (sk, f, rest)) :
    firstNonEmpty fuel' (b' ++ tail) skipped = .ok (sk, f, rest ++ tail) := by
  induction fuel generalizing fuel' b' skipped with
  | zero => omega
  | succ fuel ih =>
    cases fuel' with
    | zero => omega
    | succ fuel' =>
      simp only [firstNonEmpty] at h ⊢
      cases hp : parseLengthPrefixed b' with
      | eof => rw [hp] at h; cases h
      | err e => rw [hp] at h; cases h
      | frame f1 rest1 =>
        rw [hp] at h
        rw [parseLengthPrefixed_append _ tail _ _ hp]
        simp only at h ⊢
        have h1 := parseLengthPrefixed_length_lt _ _ _ hp
        split
        · rename_i he
          simp only [he, if_true] at h
          apply ih _ _ _ _ _ h
          · omega
          · simp only [List.length_append] at hf' ⊢
            omega
        · rename_i he
          simp only [he, if_false, Bool.false_eq_true] at h
          cases h
          rfl

/-! ## `decodeFrames` and the events of a flat parse -/

/-- Everything `decodeFrames` delivers, in order: the complete frames, then the part of the failing
    frame delivered before the failure. -/
def flatEvents (quoted : Bool) (d : DecState) (fs : List Frame) (acc : List (List Event)) : List Event :=
  (decodeFrames quoted d fs acc).1.flatten ++ (decodeFrames quoted d fs acc).2.1

/-- When no row fails there is no partial frame. -/
theorem decodeFrames_none_partial (quoted : Bool) (d : DecState) (fs : List Frame)
    (acc : List (List Event)) (h : (decodeFrames quoted d fs acc).2.2 = none) :
    (decodeFrames quoted d fs acc).2.1 = [] := by
  induction fs generalizing d acc with
  | nil => simp [decodeFrames]
  | cons f fs ih =>
    simp only [decodeFrames] at h ⊢
    split
    · rename_i heq
      rw [heq] at h
      simp at h
    · rename_i heq
      rw [heq] at h
      exact ih _ _ h

theorem flatEvents_acc_prefix (quoted : Bool) (d : DecState) (fs : List Frame)
    (acc : List (List Event)) : acc.flatten <+: flatEvents quoted d fs acc := by
  induction fs generalizing d acc with
  | nil => simp [flatEvents, decodeFrames]
  | cons f fs ih =>
    simp only [flatEvents, decodeFrames]
    split
    · simp
    · rename_i d' evs heq
      have := ih d' (acc ++ [evs])
      simp only [flatEvents, List.flatten_append] at this
      exact (List.prefix_append _ _).trans this

/-- The delivered events are prefix-monotone in the list of frames. -/
theorem flatEvents_append_prefix (quoted : Bool) (d : DecState) (fs xs : List Frame)
    (acc : List (List Event)) :
    flatEvents quoted d fs acc <+: flatEvents quoted d (fs ++ xs) acc := by
  induction fs generalizing d acc with
  | nil =>
    have := flatEvents_acc_prefix quoted d xs acc
    simpa [flatEvents, decodeFrames] using this
  | cons f fs ih =>
    simp only [flatEvents, decodeFrames, List.cons_append]
    split
    · simp
    · exact ih _ _

theorem flatEvents_prefix (quoted : Bool) (d : DecState) (fs' fs : List Frame)
    (acc : List (List Event)) (h : fs' <+: fs) :
    flatEvents quoted d fs' acc <+: flatEvents quoted d fs acc := by
  obtain ⟨xs, rfl⟩ := h
  exact flatEvents_append_prefix quoted d fs' xs acc

/-- The events part of the decoding stage of `parseCore`, as a function of the opened stream. -/
def openedEvents (quoted : Bool) (gate : Nat → Bool) (o : Opened) : List Event :=
  if !gate o.opts.logical then []
  else
    match adapterFor o.opts.physical with
    | .error _ => []
    | .ok a =>
      match DecState.new o.opts a with
      | .error _ => []
      | .ok d => flatEvents quoted d o.frames.1 []

theorem parseCore_events (quoted : Bool) (kind : SourceKind) (b : Bytes) (gate : Nat → Bool) :
    (parseCore quoted kind b gate).1.flatten ++ (parseCore quoted kind b gate).2.1 =
      match getOptionsAndFrames kind b with
      | .error _ => []
      | .ok o => openedEvents quoted gate o := by
  unfold parseCore openedEvents
  cases getOptionsAndFrames kind b with
  | error e => simp
  | ok o =>
    simp only
    split
    · simp
    · cases adapterFor o.opts.physical with
      | error e => simp
      | ok a =>
        simp only
        cases DecState.new o.opts a with
        | error e => simp
        | ok d =>
          simp only
          unfold flatEvents
          generalize hdf : decodeFrames quoted d o.frames.1 [] = r
          obtain ⟨done, part, e⟩ := r
          cases e with
          | some e => simp
          | none =>
            have := decodeFrames_none_partial quoted d o.frames.1 [] (by rw [hdf])
            rw [hdf] at this
            simp only at this
            simp [this]

theorem parseFlat_events (kind : SourceKind) (b : Bytes) (strict quoted : Bool) :
    (parseFlat kind b strict quoted).events =
      match getOptionsAndFrames kind b with
      | .error _ => []
      | .ok o => openedEvents quoted (fun l => !strict || strictFlatOk l) o := by
  rw [← parseCore_events]
  rfl

/-- Opened streams that differ only by a cut of the unread rest deliver prefix-related frames. -/
theorem Opened.frames_append_prefix (opts : ParserOptions) (pending : List Frame) (rest tail : Bytes) :
    (Opened.frames { opts, pending, rest }).1 <+: (Opened.frames { opts, pending, rest := rest ++ tail }).1 := by
  unfold Opened.frames
  by_cases hd : opts.delimited = true
  · simp only [hd, if_true]
    apply (List.prefix_append_right_inj pending).2
    exact restFrames_append_prefix _ _ _ _ _ (by omega) (by omega)
  · simp [hd]

theorem openedEvents_append_prefix (quoted : Bool) (gate : Nat → Bool) (opts : ParserOptions)
    (pending : List Frame) (rest tail : Bytes) :
    openedEvents quoted gate { opts, pending, rest } <+:
      openedEvents quoted gate { opts, pending, rest := rest ++ tail } := by
  unfold openedEvents
  simp only
  split
  · simp
  · cases adapterFor opts.physical with
    | error e => simp
    | ok a =>
      simp only
      cases DecState.new opts a with
      | error e => simp
      | ok d =>
        simp only
        exact flatEvents_prefix _ _ _ _ _ (Opened.frames_append_prefix opts pending rest tail)

/-- `get_options_and_frames` on a cut delimited stream: if it succeeds, it succeeds on the whole stream
    with the same options and pending frames, and the cut rest. -/
theorem getOptionsAndFrames_append (kind kind' : SourceKind) (b' tail : Bytes) (o : Opened)
    (hd : delimitedHint (kind.header b') = true) (hd' : delimitedHint (kind'.header (b' ++ tail)) = true)
    (h : getOptionsAndFrames kind b' = .ok o) :
    getOptionsAndFrames kind' (b' ++ tail) =
      .ok { opts := o.opts, pending := o.pending, rest := o.rest ++ tail } := by
  unfold getOptionsAndFrames at h ⊢
  simp only [hd, hd', if_true] at h ⊢
  cases hf : firstNonEmpty (b'.length + 1) b' [] with
  | error e => rw [hf] at h; cases h
  | ok r =>
    obtain ⟨sk, f, rest⟩ := r
    rw [hf] at h
    rw [firstNonEmpty_append _ _ _ tail _ _ _ _ (by omega) (by omega) hf]
    simp only at h ⊢
    cases ho : optionsFromFrame f true with
    | error e => rw [ho] at h; cases h
    | ok opts =>
      rw [ho] at h
      cases h
      rfl

/-! ## Lookup-table sizes (C17) -/

theorem LookupDec.new_ok (n : Nat) (t : LookupDec) (h : LookupDec.new n = .ok t) :
    n ≤ 4096 ∧ t.data.length = n := by
  unfold LookupDec.new MAX_LOOKUP_SIZE at h
  split at h
  · cases h
  · cases h
    simp only [List.length_replicate]
    constructor
    · omega
    · trivial

theorem LookupDec.new_error (n : Nat) (h : 4096 < n) : LookupDec.new n = .error .jassertion := by
  unfold LookupDec.new MAX_LOOKUP_SIZE
  simp [h]

theorem LookupDec.new_error_or_ok (n : Nat) :
    LookupDec.new n = .error .jassertion ∨ ∃ t, LookupDec.new n = .ok t := by
  unfold LookupDec.new
  split
  · exact .inl rfl
  · exact .inr ⟨_, rfl⟩

theorem LookupDec.assignEntry_length (d t : LookupDec) (i : Nat) (v : String)
    (h : d.assignEntry i v = .ok t) : t.data.length = d.data.length := by
  unfold LookupDec.assignEntry at h
  simp only at h
  split at h <;> split at h <;> first | (cases h; done) | (cases h; simp)

theorem LookupDec.at_data (d : LookupDec) (i : Nat) : (d.at i).1.data = d.data := by
  unfold LookupDec.at
  simp only
  split
  · split <;> rfl
  · split <;> rfl

theorem LookupDec.prefixTerm_data (d : LookupDec) (i : Nat) : (d.prefixTerm i).1.data = d.data := by
  unfold LookupDec.prefixTerm
  simp only
  split <;> split <;> first | rfl | exact LookupDec.at_data _ _

theorem LookupDec.nameTerm_data (d : LookupDec) (i : Nat) : (d.nameTerm i).1.data = d.data := by
  unfold LookupDec.nameTerm
  simp only
  split <;> split <;> first | rfl | exact LookupDec.at_data _ _

theorem LookupDec.datatypeTerm_data (d : LookupDec) (i : Nat) : (d.datatypeTerm i).1.data = d.data := by
  unfold LookupDec.datatypeTerm
  split
  · rfl
  · exact LookupDec.at_data _ _

/-- The three table sizes of `d'` are those of `d`. -/
def DecState.SameSizes (d d' : DecState) : Prop :=
  d'.names.data.length = d.names.data.length ∧ d'.prefixes.data.length = d.prefixes.data.length ∧
  d'.datatypes.data.length = d.datatypes.data.length

theorem DecState.SameSizes.refl (d : DecState) : d.SameSizes d := ⟨rfl, rfl, rfl⟩

theorem DecState.SameSizes.trans {a b c : DecState} (h1 : a.SameSizes b) (h2 : b.SameSizes c) :
    a.SameSizes c :=
  ⟨h2.1.trans h1.1, h2.2.1.trans h1.2.1, h2.2.2.trans h1.2.2⟩

theorem DecState.decodeIri_sizes (d d' : DecState) (p n : Nat) (s : String)
    (h : d.decodeIri p n = .ok (d', s)) : d.SameSizes d' := by
  unfold DecState.decodeIri at h
  split at h
  · cases h
  · rename_i names' name hn
    split at h
    · cases h
    · rename_i prefixes' pfx hp
      cases h
      have h1 := LookupDec.nameTerm_data d.names n
      have h2 := LookupDec.prefixTerm_data d.prefixes p
      rw [hn] at h1
      rw [hp] at h2
      simp only at h1 h2
      exact ⟨by simp only [h1], by simp only [h2], rfl⟩

theorem DecState.decodeLiteral_sizes (d d' : DecState) (lex : String) (k : WLitKind) (t : Term)
    (h : d.decodeLiteral lex k = .ok (d', t)) : d.SameSizes d' := by
  unfold DecState.decodeLiteral at h
  split at h
  · cases h; exact .refl _
  · split at h <;> (cases h; exact .refl _)
  · rename_i id
    split at h
    · cases h
    · rename_i dts' dt hdt
      cases h
      have h1 := LookupDec.datatypeTerm_data d.datatypes id
      rw [hdt] at h1
      simp only at h1
      exact ⟨rfl, rfl, by simp only [h1]⟩

mutual
  theorem DecState.decodeTerm_sizes (quoted : Bool) : (t : WTerm) → (d d' : DecState) → (x : Term) →
      DecState.decodeTerm quoted d t = .ok (d', x) → d.SameSizes d'
    | .iri p n, d, d', x, h => by
      simp only [DecState.decodeTerm] at h
      split at h
      · cases h
      · rename_i d1 s hs
        cases h
        exact DecState.decodeIri_sizes _ _ _ _ _ hs
    | .bnode b, d, d', x, h => by
      simp only [DecState.decodeTerm] at h
      cases h
      exact .refl _
    | .literal lex k, d, d', x, h => by
      simp only [DecState.decodeTerm] at h
      exact DecState.decodeLiteral_sizes _ _ _ _ _ h
    | .defaultGraph, d, d', x, h => by
      simp only [DecState.decodeTerm] at h
      cases h
      exact .refl _
    | .triple s p o, d, d', x, h => by
      simp only [DecState.decodeTerm] at h
      split at h
      · cases h
      · rename_i d1 ts h1
        split at h
        · cases h
        · rename_i d2 tp h2
          split at h
          · cases h
          · rename_i d3 to h3
            split at h
            · cases h
              exact ((DecState.decodeQuotedSlot_sizes quoted s _ _ _ h1).trans
                (DecState.decodeQuotedSlot_sizes quoted p _ _ _ h2)).trans
                (DecState.decodeQuotedSlot_sizes quoted o _ _ _ h3)
            · cases h
  theorem DecState.decodeQuotedSlot_sizes (quoted : Bool) : (t : Option WTerm) → (d d' : DecState) →
      (x : Term) → DecState.decodeQuotedSlot quoted d t = .ok (d', x) → d.SameSizes d'
    | none, d, d', x, h => by
      simp only [DecState.decodeQuotedSlot] at h
      cases h
    | some t, d, d', x, h => by
      simp only [DecState.decodeQuotedSlot] at h
      exact DecState.decodeTerm_sizes quoted t _ _ _ h
end

theorem DecState.decodeSlot_sizes (quoted : Bool) (d d' : DecState) (prev : Option Term)
    (w : Option WTerm) (x : Term) (h : d.decodeSlot quoted prev w = .ok (d', x)) : d.SameSizes d' := by
  unfold DecState.decodeSlot at h
  split at h
  · exact DecState.decodeTerm_sizes quoted _ _ _ _ h
  · split at h
    · cases h; exact .refl _
    · cases h

theorem DecState.decodeSpo_sizes (quoted : Bool) (d d' : DecState) (s p o : Option WTerm)
    (ts tp to : Term) (h : d.decodeSpo quoted s p o = .ok (d', ts, tp, to)) : d.SameSizes d' := by
  unfold DecState.decodeSpo at h
  split at h
  · cases h
  · rename_i d1 t1 h1
    simp only at h
    split at h
    · cases h
    · rename_i d2 t2 h2
      split at h
      · cases h
      · rename_i d3 t3 h3
        cases h
        have e1 := DecState.decodeSlot_sizes _ _ _ _ _ _ h1
        have e2 := DecState.decodeSlot_sizes _ _ _ _ _ _ h2
        have e3 := DecState.decodeSlot_sizes _ _ _ _ _ _ h3
        exact (e1.trans e2).trans e3

/-- Decoding a row never changes the size of a lookup table. -/
theorem DecState.decodeRow_sizes (quoted : Bool) (d d' : DecState) (r : Row) (ev : Option Event)
    (h : d.decodeRow quoted r = .ok (d', ev)) : d.SameSizes d' := by
  cases r with
  | empty => simp only [DecState.decodeRow] at h; cases h
  | options o =>
    simp only [DecState.decodeRow] at h
    split at h
    · cases h
    · cases h; exact .refl _
  | prefixEntry id v =>
    simp only [DecState.decodeRow] at h
    split at h
    · cases h
    · rename_i t ht
      cases h
      exact ⟨rfl, LookupDec.assignEntry_length _ _ _ _ ht, rfl⟩
  | nameEntry id v =>
    simp only [DecState.decodeRow] at h
    split at h
    · cases h
    · rename_i t ht
      cases h
      exact ⟨LookupDec.assignEntry_length _ _ _ _ ht, rfl, rfl⟩
  | dtEntry id v =>
    simp only [DecState.decodeRow] at h
    split at h
    · cases h
    · rename_i t ht
      cases h
      exact ⟨rfl, rfl, LookupDec.assignEntry_length _ _ _ _ ht⟩
  | triple s p o =>
    simp only [DecState.decodeRow] at h
    split at h
    · cases h
    · rename_i d1 ts tp to h1
      have e1 := DecState.decodeSpo_sizes _ _ _ _ _ _ _ _ _ h1
      split at h
      · cases h; exact e1
      · cases h
      · split at h
        · cases h
        · cases h; exact e1
  | quad s p o g =>
    simp only [DecState.decodeRow] at h
    split at h
    · cases h
    · rename_i d1 ts tp to h1
      have e1 := DecState.decodeSpo_sizes _ _ _ _ _ _ _ _ _ h1
      split at h
      · cases h
      · rename_i d2 tg h2
        have e2 := DecState.decodeSlot_sizes _ _ _ _ _ _ h2
        split at h
        · cases h; exact e1.trans e2
        · cases h
  | graphStart g =>
    simp only [DecState.decodeRow] at h
    split at h
    · cases h
    · split at h
      · cases h
      · rename_i d1 tg h1
        have e1 := DecState.decodeTerm_sizes _ _ _ _ _ h1
        split at h
        · cases h; exact e1
        · cases h
  | graphEnd =>
    simp only [DecState.decodeRow] at h
    split at h
    · cases h; exact .refl _
    · cases h
  | «namespace» name iri =>
    simp only [DecState.decodeRow] at h
    split at h
    · cases h
    · rename_i d1 s h1
      cases h
      exact DecState.decodeIri_sizes _ _ _ _ _ h1

/-! ## Very short inputs (fewer than three bytes) -/

theorem delimitedHint_short (h : Bytes) (hl : h.length < 3) : delimitedHint h = false := by
  match h, hl with
  | [], _ => rfl
  | [_], _ => rfl
  | [_, _], _ => rfl
  | _ :: _ :: _ :: _, hl => simp only [List.length_cons] at hl; omega

theorem SourceKind.header_length_le (kind : SourceKind) (b : Bytes) :
    (kind.header b).length ≤ b.length := by
  rw [SourceKind.header_eq_take]; exact List.length_take_le' _ _

theorem readVarintAux_length_lt (fuel sh acc : Nat) (b : Bytes) (v : Nat) (r : Bytes) :
    readVarintAux fuel sh acc b = some (v, r) → r.length < b.length := by
  induction fuel generalizing sh acc b with
  | zero => simp [readVarintAux]
  | succ fuel ih =>
    cases b with
    | nil => simp [readVarintAux]
    | cons x xs =>
      simp only [readVarintAux]
      split
      · intro h
        cases h
        simp
      · intro h
        have := ih _ _ _ h
        simp only [List.length_cons]
        omega

theorem readVarint_length_lt (b : Bytes) (v : Nat) (r : Bytes) (h : readVarint b = some (v, r)) :
    r.length < b.length := by
  unfold readVarint at h
  split at h
  · rename_i v' r' hv
    cases h
    exact readVarintAux_length_lt _ _ _ _ _ _ hv
  · cases h

/-- Every length-delimited payload among the top-level fields of `b` is at least two bytes shorter
    than `b` (one tag byte, one length byte). -/
theorem splitFields_len_bound (fuel : Nat) (b : Bytes) (fs : List Field)
    (h : splitFields fuel b = some fs) :
    ∀ n p, (n, WireVal.len p) ∈ fs → p.length + 2 ≤ b.length := by
  induction fuel generalizing b fs with
  | zero => simp [splitFields] at h
  | succ fuel ih =>
    by_cases hb : b = []
    · subst hb
      rw [splitFields.eq_2] at h
      cases h
      intro n p hm
      cases hm
    · -- the tail of the field list comes from a suffix that is not longer than `b`
      have tailCase : ∀ (hd : Field) (r' : Bytes), r'.length ≤ b.length →
          (∀ n p, hd = (n, WireVal.len p) → p.length + 2 ≤ b.length) →
          Option.map (fun x => hd :: x) (splitFields fuel r') = some fs →
          ∀ n p, (n, WireVal.len p) ∈ fs → p.length + 2 ≤ b.length := by
        intro hd r' hr hhd hm n p hmem
        obtain ⟨fs', hfs', rfl⟩ := Option.map_eq_some_iff.1 hm
        rcases List.mem_cons.1 hmem with heq | hin
        · exact hhd n p heq.symm
        · have := ih r' fs' hfs' n p hin
          omega
      rw [splitFields.eq_3 _ _ hb] at h
      split at h
      · cases h
      · rename_i t rest hrv
        have h1 := readVarint_length_lt _ _ _ hrv
        simp only at h
        split at h
        · cases h
        · split at h
          · split at h
            · rename_i v r hrv2
              have h2 := readVarint_length_lt _ _ _ hrv2
              exact tailCase _ r (by omega) (by intro n p he; cases he) h
            · cases h
          · split at h
            · split at h
              · cases h
              · refine tailCase _ _ ?_ (by intro n p he; cases he) h
                simp only [List.length_drop]; omega
            · split at h
              · split at h
                · rename_i n r hrv2
                  have h2 := readVarint_length_lt _ _ _ hrv2
                  split at h
                  · cases h
                  · refine tailCase _ _ ?_ ?_ h
                    · simp only [List.length_drop]; omega
                    · intro n' p he
                      cases he
                      simp only [List.length_take]
                      omega
                · cases h
              · split at h
                · split at h
                  · rename_i r hsg
                    split at h
                    · intro n p hmem
                      have := ih r fs h n p hmem
                      omega
                    · cases h
                  · cases h
                · split at h
                  · split at h
                    · cases h
                    · refine tailCase _ _ ?_ (by intro n p he; cases he) h
                      simp only [List.length_drop]; omega
                  · cases h

/-- Invariant rule for `foldlM` in `Except`. -/
theorem foldlM_except_inv {σ α ε : Type} (step : σ → α → Except ε σ) (P : σ → Prop) (Q : α → Prop)
    (hstep : ∀ s x s', P s → Q x → step s x = .ok s' → P s') :
    ∀ (xs : List α) (init s' : σ), (∀ x ∈ xs, Q x) → P init → xs.foldlM step init = .ok s' → P s' := by
  intro xs
  induction xs with
  | nil =>
    intro init s' _ hP h
    simp only [List.foldlM_nil, pure, Except.pure] at h
    cases h
    exact hP
  | cons x xs ih =>
    intro init s' hQ hP h
    simp only [List.foldlM_cons, bind, Except.bind] at h
    cases hs : step init x with
    | error e => rw [hs] at h; cases h
    | ok s1 =>
      rw [hs] at h
      exact ih s1 s' (fun y hy => hQ y (List.mem_cons_of_mem _ hy))
        (hstep _ _ _ hP (hQ x List.mem_cons_self) hs) h

theorem fieldsOf_len_bound (b : Bytes) (fs : List Field) (h : fieldsOf b = .ok fs) :
    ∀ n p, (n, WireVal.len p) ∈ fs → p.length + 2 ≤ b.length := by
  unfold fieldsOf at h
  split at h
  · rename_i fs' hfs
    cases h
    exact splitFields_len_bound _ _ _ hfs
  · cases h

/-- A frame decoded from at most two bytes has only unset rows (there is no room for a row body). -/
theorem decFrame_short_rows (b : Bytes) (hl : b.length ≤ 2) (f : Frame) (h : decFrame b = .ok f) :
    ∀ r ∈ f.rows, r = Row.empty := by
  unfold decFrame decFrameInto at h
  simp only [bind, Except.bind] at h
  cases hfs : fieldsOf b with
  | error e => rw [hfs] at h; cases h
  | ok fs =>
    rw [hfs] at h
    simp only at h
    have hb := fieldsOf_len_bound b fs hfs
    refine foldlM_except_inv _ (fun fr : Frame => ∀ r ∈ fr.rows, r = Row.empty)
      (fun x : Field => ∀ n p, x = (n, WireVal.len p) → p = []) ?_ fs _ f ?_ ?_ h
    · intro fr x fr' hP hQ hs
      split at hs
      · rename_i p
        have hp : p = [] := hQ 1 p rfl
        subst hp
        have : decRow (depthLimit - 1) [] = .ok Row.empty := rfl
        rw [this] at hs
        simp only [pure, Except.pure] at hs
        cases hs
        intro r hr
        simp only [List.mem_append, List.mem_singleton] at hr
        rcases hr with hr | hr
        · exact hP r hr
        · exact hr
      · cases hd : decMetaEntry _ with
        | error e => rw [hd] at hs; cases hs
        | ok kv =>
          rw [hd] at hs
          simp only [pure, Except.pure] at hs
          cases hs
          exact hP
      · simp only [pure, Except.pure] at hs
        cases hs
        exact hP
    · intro x hx n p he
      subst he
      have := hb n p hx
      have : p.length = 0 := by omega
      exact List.length_eq_zero_iff.1 this
    · intro r hr
      cases hr

theorem optionsFromFrame_empty_row (f : Frame) (rest : List Row) (d : Bool)
    (h : f.rows = Row.empty :: rest) : optionsFromFrame f d = .error .conformance := by
  unfold optionsFromFrame
  rw [h]
  rfl

/-- Fewer than three bytes never get past `get_options_and_frames`. -/
theorem getOptionsAndFrames_short (kind : SourceKind) (b : Bytes) (hl : b.length < 3) :
    ∃ e, getOptionsAndFrames kind b = .error e := by
  unfold getOptionsAndFrames
  have hh : delimitedHint (kind.header b) = false :=
    delimitedHint_short _ (Nat.lt_of_le_of_lt (SourceKind.header_length_le kind b) hl)
  simp only [hh, Bool.false_eq_true, if_false]
  cases hd : decFrame b with
  | error e => exact ⟨e, rfl⟩
  | ok f =>
    simp only
    have hrows := decFrame_short_rows b (by omega) f hd
    cases hr : f.rows with
    | nil => exact ⟨.conformance, by simp⟩
    | cons r rest =>
      have hre : r = Row.empty := hrows r (by rw [hr]; exact List.mem_cons_self)
      subst hre
      rw [optionsFromFrame_empty_row f rest false hr]
      exact ⟨.conformance, by simp⟩

end Jelly

import JellyProofs.Lemmas.Pin
/-!
# Forgetting the pins commutes with every successful table operation

`pinned` only decides whether `insert` refuses an eviction; a run that succeeds on a table with pin
tracking succeeds, with the same outputs and the same tables up to `unpin`, on the raw table
(`pinned = none`). Used to transfer the row-level simulation (which starts every row with
`startRow`) to raw uses of the term encoder (C05 at term level).
-/
namespace Jelly

def Lookup.unpin (l : Lookup) : Lookup := { l with pinned := none }

theorem LookupEnc.unpin_lookup (e : LookupEnc) : e.unpin.lookup = e.lookup.unpin := rfl

@[simp] theorem Lookup.unpin_pin (l : Lookup) (k : String) : (l.pin k).unpin = l.unpin := by
  unfold Lookup.pin; split <;> rfl

theorem Lookup.pin_unpin (l : Lookup) (k : String) : l.unpin.pin k = l.unpin := rfl

theorem Lookup.find?_unpin (l : Lookup) (k : String) : l.unpin.find? k = l.find? k := rfl

theorem Lookup.moveToEnd_unpin_some {l l' : Lookup} {k : String} (h : l.moveToEnd k = some l') :
    l.unpin.moveToEnd k = some l'.unpin := by
  unfold Lookup.moveToEnd at h ⊢
  rw [Lookup.find?_unpin]
  split at h
  · simp at h
  · rename_i e he
    injection h with h; subst h
    simp only [Lookup.unpin_pin]
    rfl

theorem Lookup.moveToEnd_unpin_none {l : Lookup} {k : String} (h : l.moveToEnd k = none) :
    l.unpin.moveToEnd k = none := by
  unfold Lookup.moveToEnd at h ⊢
  rw [Lookup.find?_unpin]
  split at h
  · rename_i he; simp only
  · simp at h

theorem Lookup.insert_unpin_ok {l l' : Lookup} {k : String} {i : Nat} (h : l.insert k = .ok (l', i)) :
    l.unpin.insert k = .ok (l'.unpin, i) := by
  unfold Lookup.insert at h ⊢
  simp only [show l.unpin.maxSize = l.maxSize from rfl, show l.unpin.evicting = l.evicting from rfl,
    show l.unpin.data = l.data from rfl]
  by_cases h0 : (l.maxSize == 0) = true
  · simp [h0] at h
  · simp only [h0] at h ⊢
    by_cases h1 : l.evicting = true
    · simp only [h1, ↓reduceIte] at h ⊢
      cases hdd : l.data with
      | nil => simp [hdd] at h
      | cons x rest =>
        obtain ⟨k0, i0⟩ := x
        simp only [hdd] at h ⊢
        by_cases hp : l.isPinned k0 = true
        · simp [hp] at h
        · simp only [hp] at h
          injection h with h; injection h with ha hb; subst ha hb
          simp only [Lookup.isPinned_of_none (l := l.unpin) rfl, Bool.false_eq_true, ↓reduceIte,
            Lookup.unpin_pin]
          rfl
    · simp only [h1] at h ⊢
      injection h with h; injection h with ha hb; subst ha hb
      simp only [Lookup.unpin_pin]
      rfl

theorem LookupEnc.entryIndex_unpin_ok {e e' : LookupEnc} {k : String} {oid : Option Nat}
    (h : e.entryIndex k = .ok (e', oid)) : e.unpin.entryIndex k = .ok (e'.unpin, oid) := by
  unfold LookupEnc.entryIndex at h ⊢
  rw [LookupEnc.unpin_lookup]
  cases hm : e.lookup.moveToEnd k with
  | some l' =>
    rw [hm] at h
    injection h with h; injection h with ha hb; subst ha hb
    rw [Lookup.moveToEnd_unpin_some hm]
    rfl
  | none =>
    rw [hm] at h
    rw [Lookup.moveToEnd_unpin_none hm]
    cases hi : e.lookup.insert k with
    | error err => rw [hi] at h; simp at h
    | ok r =>
      obtain ⟨l', idx⟩ := r
      rw [hi] at h
      injection h with h; injection h with ha hb; subst ha hb
      simp only [Lookup.insert_unpin_ok hi]
      rfl

theorem LookupEnc.termIndex_unpin_ok {e e' : LookupEnc} {v : String} {i : Nat}
    (h : e.termIndex v = .ok (e', i)) : e.unpin.termIndex v = .ok (e'.unpin, i) := by
  unfold LookupEnc.termIndex at h ⊢
  rw [LookupEnc.unpin_lookup]
  cases hm : e.lookup.moveToEnd v with
  | none => rw [hm] at h; simp at h
  | some l' =>
    rw [hm] at h
    rw [Lookup.moveToEnd_unpin_some hm]
    simp only [Lookup.find?_unpin] at h ⊢
    cases hf : l'.find? v with
    | none => rw [hf] at h; simp at h
    | some x =>
      obtain ⟨k', idx⟩ := x
      rw [hf] at h
      injection h with h; injection h with ha hb; subst ha hb
      rfl

theorem LookupEnc.prefixTermIndex_unpin_ok {e e' : LookupEnc} {v : String} {i : Nat}
    (h : e.prefixTermIndex v = .ok (e', i)) : e.unpin.prefixTermIndex v = .ok (e'.unpin, i) := by
  unfold LookupEnc.prefixTermIndex at h ⊢
  simp only [show e.unpin.lookup.maxSize = e.lookup.maxSize from rfl,
    show e.unpin.lastReused = e.lastReused from rfl]
  by_cases h0 : (e.lookup.maxSize == 0) = true
  · simp only [h0, ↓reduceIte] at h ⊢
    injection h with h; injection h with ha hb; subst ha hb; rfl
  · simp only [h0] at h ⊢
    by_cases h1 : (v == "" && e.lastReused == 0) = true
    · simp only [h1, ↓reduceIte] at h ⊢
      injection h with h; injection h with ha hb; subst ha hb; rfl
    · simp only [h1] at h ⊢
      cases ht : e.termIndex v with
      | error err => rw [ht] at h; simp at h
      | ok r =>
        obtain ⟨e1, cur⟩ := r
        rw [ht] at h
        rw [LookupEnc.termIndex_unpin_ok ht]
        dsimp only at h ⊢
        by_cases h2 : (e.lastReused == 0) = true
        · simp only [h2, ↓reduceIte] at h ⊢
          injection h with h; injection h with ha hb; subst ha hb; rfl
        · simp only [h2] at h ⊢
          by_cases h3 : (cur == e.lastReused) = true
          · simp only [h3, ↓reduceIte] at h ⊢
            injection h with h; injection h with ha hb; subst ha hb; rfl
          · simp only [h3] at h ⊢
            injection h with h; injection h with ha hb; subst ha hb; rfl

theorem LookupEnc.nameTermIndex_unpin_ok {e e' : LookupEnc} {v : String} {i : Nat}
    (h : e.nameTermIndex v = .ok (e', i)) : e.unpin.nameTermIndex v = .ok (e'.unpin, i) := by
  unfold LookupEnc.nameTermIndex at h ⊢
  cases ht : e.termIndex v with
  | error err => rw [ht] at h; simp at h
  | ok r =>
    obtain ⟨e1, cur⟩ := r
    rw [ht] at h
    rw [LookupEnc.termIndex_unpin_ok ht]
    simp only [show e.unpin.lastReused = e.lastReused from rfl] at h ⊢
    by_cases h2 : (cur == e.lastReused + 1) = true
    · simp only [h2, ↓reduceIte] at h ⊢
      injection h with h; injection h with ha hb; subst ha hb; rfl
    · simp only [h2] at h ⊢
      injection h with h; injection h with ha hb; subst ha hb; rfl

/-- `iriIndices`: a successful call is reproduced on the raw encoder. -/
theorem TermEnc.iriIndices_unpin_ok {te te' : TermEnc} {iri : String} {r : List Row × Nat × Nat}
    (h : te.iriIndices iri = (te', .ok r)) : te.unpin.iriIndices iri = (te'.unpin, .ok r) := by
  unfold TermEnc.iriIndices at h ⊢
  simp only [show te.unpin.prefixes = te.prefixes.unpin from rfl,
    show te.unpin.names = te.names.unpin from rfl,
    show te.prefixes.unpin.lookup.maxSize = te.prefixes.lookup.maxSize from rfl] at h ⊢
  by_cases hu : (te.prefixes.lookup.maxSize != 0) = true
  · simp only [hu, ↓reduceIte] at h ⊢
    cases hpe : te.prefixes.entryIndex (splitIri iri).1 with
    | error e => simp [hpe] at h
    | ok x =>
      obtain ⟨pe, pEntry⟩ := x
      simp only [hpe] at h
      simp only [LookupEnc.entryIndex_unpin_ok hpe]
      cases hne : te.names.entryIndex (splitIri iri).2 with
      | error e => simp [hne] at h
      | ok x =>
        obtain ⟨ne, nEntry⟩ := x
        simp only [hne] at h
        simp only [LookupEnc.entryIndex_unpin_ok hne]
        cases hpt : pe.prefixTermIndex (splitIri iri).1 with
        | error e => simp [hpt] at h
        | ok x =>
          obtain ⟨pe', pIdx⟩ := x
          simp only [hpt] at h
          simp only [LookupEnc.prefixTermIndex_unpin_ok hpt]
          cases hnt : ne.nameTermIndex (splitIri iri).2 with
          | error e => simp [hnt] at h
          | ok x =>
            obtain ⟨ne', nIdx⟩ := x
            simp only [hnt] at h
            simp only [LookupEnc.nameTermIndex_unpin_ok hnt]
            injection h with ha hb
            injection hb with hb
            subst ha hb
            rfl
  · have hu' : (te.prefixes.lookup.maxSize != 0) = false := by simpa using hu
    simp only [hu', Bool.false_eq_true, ↓reduceIte] at h ⊢
    cases hne : te.names.entryIndex iri with
    | error e => simp [hne] at h
    | ok x =>
      obtain ⟨ne, nEntry⟩ := x
      simp only [hne] at h
      simp only [LookupEnc.entryIndex_unpin_ok hne]
      cases hpt : te.prefixes.prefixTermIndex (splitIri iri).1 with
      | error e => simp [hpt] at h
      | ok x =>
        obtain ⟨pe', pIdx⟩ := x
        simp only [hpt] at h
        simp only [LookupEnc.prefixTermIndex_unpin_ok hpt]
        cases hnt : ne.nameTermIndex iri with
        | error e => simp [hnt] at h
        | ok x =>
          obtain ⟨ne', nIdx⟩ := x
          simp only [hnt] at h
          simp only [LookupEnc.nameTermIndex_unpin_ok hnt]
          injection h with ha hb
          injection hb with hb
          subst ha hb
          rfl

/-- `iriIndices` neither reads nor writes `rowOpen`. -/
theorem TermEnc.iriIndices_rowOpen (te : TermEnc) (b : Bool) (iri : String) :
    ({ te with rowOpen := b } : TermEnc).iriIndices iri =
      ({ (te.iriIndices iri).1 with rowOpen := b }, (te.iriIndices iri).2) := by
  unfold TermEnc.iriIndices
  dsimp only
  repeat' (first | rfl | split)

end Jelly

import JellyModel.Parse
import JellyProofs.Lemmas.StreamSim
import JellyProofs.Lemmas.SerRows
import JellyProofs.Lemmas.Framing
/-!
# Glue lemmas for the round trip (C01): first row of the output, first non-empty frame,
# frames versus rows without error
-/
namespace Jelly

/-! ## `optionsFromFrame` only looks at the first row -/

theorem optionsFromFrame_head (f g : Frame) (dl : Bool) (h : f.rows.head? = g.rows.head?) :
    optionsFromFrame f dl = optionsFromFrame g dl := by
  unfold optionsFromFrame
  cases hf : f.rows with
  | nil =>
    cases hg : g.rows with
    | nil => rfl
    | cons b bs => rw [hf, hg] at h; simp at h
  | cons a as =>
    cases hg : g.rows with
    | nil => rw [hf, hg] at h; simp at h
    | cons b bs =>
      rw [hf, hg] at h
      simp only [List.head?_cons, Option.some.injEq] at h
      subst h
      rfl

/-! ## The output of a fresh stream starts with its options row -/

/-- Companion of `final_assembly`: the same loop hypothesis also gives the first row. -/
theorem head_of_loop {s : Stream} {cls : StreamClass} {o : SerOptions} (hs : Stream.new cls o = .ok s)
    (hl : validLogical s.logicalType = true) {r : Run} {evs : List Event}
    (hloop : ∀ ss0 oo, Inv o.preset s.enc ss0 → ss0.opts = some oo → oo.physicalType = cls.physical →
      ss0.graph = none →
      ∃ ss' rows, r.err = none ∧ allRowsOf r = [s.optionsRow] ++ rows ∧ RunsTo ss0 rows ss' evs) :
    ∃ rows, allRowsOf r = s.optionsRow :: rows := by
  obtain ⟨ss0, oo, _, inv0, ho0, hph, hg0⟩ := options_step hs hl
  obtain ⟨_, rows, _, hrows, _⟩ := hloop ss0 oo inv0 ho0 hph hg0
  exact ⟨rows, by simpa using hrows⟩

theorem streamFrames_head_triples (o : SerOptions) (s : Stream) (stmts : List (List Term))
    (hs : Stream.new .triple o = .ok s) (hl : validLogical s.logicalType = true)
    (hwf : ∀ t ∈ stmts, tripleWF t = true) (hfit : ∀ t ∈ stmts, stmtFits o.preset t = true) :
    ∃ rows, allRowsOf (streamFrames s (.gen stmts)) = s.optionsRow :: rows := by
  obtain ⟨hv, hcls, _⟩ := Stream.new_spec hs
  obtain ⟨henc, hrows0⟩ := enroll_fresh hs
  apply head_of_loop hs hl (evs := stmts.map (fun t => Event.stmt (t.map Term.norm)))
  intro ss0 oo inv0 ho0 hph _
  obtain ⟨ss', rows, e1, e2, _, _, e5⟩ :=
    stmtLoop_triple_sim hv (o := oo) (by simpa [StreamClass.physical] using hph) .runtimeError stmts
      { stream := s.enroll } ss0 rfl (by rw [henc]; exact inv0) ho0 hwf hfit
  have hsf : streamFrames s (.gen stmts)
      = epilogue (stmtLoop (Stream.triple .runtimeError) { stream := s.enroll } stmts) false := by
    simp only [streamFrames, hcls, triplesStreamFrames, prologue, SerData.stmts, e1, Option.isSome_none,
      Bool.false_eq_true, if_false]
  obtain ⟨a1, a2, _⟩ := allRowsOf_epilogue (stmtLoop (Stream.triple .runtimeError) { stream := s.enroll } stmts) false
  rw [hsf]
  exact ⟨ss', rows, a2.trans e1, by rw [a1, e2, hrows0], e5⟩

theorem streamFrames_head_quads (o : SerOptions) (s : Stream) (stmts : List (List Term))
    (hs : Stream.new .quad o = .ok s) (hl : validLogical s.logicalType = true)
    (hwf : ∀ t ∈ stmts, quadWF t = true) (hfit : ∀ t ∈ stmts, stmtFits o.preset t = true) :
    ∃ rows, allRowsOf (streamFrames s (.gen stmts)) = s.optionsRow :: rows := by
  obtain ⟨hv, hcls, _⟩ := Stream.new_spec hs
  obtain ⟨henc, hrows0⟩ := enroll_fresh hs
  apply head_of_loop hs hl (evs := stmts.map (fun t => Event.stmt (t.map Term.norm)))
  intro ss0 oo inv0 ho0 hph _
  obtain ⟨ss', rows, e1, e2, _, _, e5⟩ :=
    stmtLoop_quad_sim hv (o := oo) (by simpa [StreamClass.physical] using hph) .runtimeError stmts
      { stream := s.enroll } ss0 rfl (by rw [henc]; exact inv0) ho0 hwf hfit
  have hsf : streamFrames s (.gen stmts)
      = epilogue (stmtLoop (Stream.quad .runtimeError) { stream := s.enroll } stmts) true := by
    simp only [streamFrames, hcls, quadsStreamFrames, prologue, SerData.stmts, e1, Option.isSome_none,
      Bool.false_eq_true, if_false]
  obtain ⟨a1, a2, _⟩ := allRowsOf_epilogue (stmtLoop (Stream.quad .runtimeError) { stream := s.enroll } stmts) true
  rw [hsf]
  exact ⟨ss', rows, a2.trans e1, by rw [a1, e2, hrows0], e5⟩

theorem streamFrames_head_graphs (o : SerOptions) (s : Stream) (stmts : List (List Term))
    (hs : Stream.new .graph o = .ok s) (hl : validLogical s.logicalType = true)
    (hwf : ∀ t ∈ stmts, quadWF t = true) (hfit : ∀ t ∈ stmts, stmtFits o.preset t = true) :
    ∃ rows, allRowsOf (streamFrames s (.gen stmts)) = s.optionsRow :: rows := by
  obtain ⟨hv, hcls, _⟩ := Stream.new_spec hs
  obtain ⟨henc, hrows0⟩ := enroll_fresh hs
  apply head_of_loop hs hl (evs := stmts.map (fun t => Event.stmt (t.map Term.norm)))
  intro ss0 oo inv0 ho0 hph _
  obtain ⟨ss', rows, e1, e2, e5⟩ :=
    graphsLoop_sim hv (o := oo) (by simpa [StreamClass.physical] using hph) stmts
      { stream := s.enroll } ss0 none rfl (by rw [henc]; exact inv0) ho0 trivial hwf hfit
  have hsf : streamFrames s (.gen stmts)
      = epilogue (graphsLoop { stream := s.enroll } none stmts) true := by
    simp only [streamFrames, hcls, graphsStreamFrames, prologue, SerData.stmts, e1, Option.isSome_none,
      Bool.false_eq_true, if_false]
  obtain ⟨a1, a2, _⟩ := allRowsOf_epilogue (graphsLoop { stream := s.enroll } none stmts) true
  rw [hsf]
  exact ⟨ss', rows, a2.trans e1, by rw [a1, e2, hrows0], by simpa [pendingEvs] using e5⟩

/-! ## The first non-empty frame when no frame is empty -/

theorem find_first_nonempty {frames : List Frame} {r : Row} {rest : List Row}
    (hne : ∀ f ∈ frames, f.rows ≠ []) (hrows : frames.flatMap (·.rows) = r :: rest) :
    ∃ f fs rs, frames = f :: fs ∧ f.rows = r :: rs ∧
      frames.find? (fun f => !f.rows.isEmpty) = some f := by
  cases frames with
  | nil => simp at hrows
  | cons f fs =>
    have hf := hne f List.mem_cons_self
    cases hfr : f.rows with
    | nil => exact absurd hfr hf
    | cons a as =>
      rw [List.flatMap_cons, hfr, List.cons_append] at hrows
      injection hrows with h1 _
      subst h1
      refine ⟨f, fs, as, rfl, hfr, ?_⟩
      rw [List.find?_cons_of_pos]
      simp [hfr]

/-! ## Frames versus rows, no error -/

theorem decodeFrames_of_rows (q : Bool) (d d' : DecState) (frames : List Frame) (evs : List Event)
    (h : d.decodeRows q (frames.flatMap (·.rows)) [] = (d', evs, none)) :
    ∃ done part, decodeFrames q d frames [] = (done, part, none) ∧ done.flatten = evs := by
  obtain ⟨a1, a2⟩ := decodeFrames_eq_rows q d frames []
  rw [h] at a1 a2
  obtain ⟨_, l2⟩ := decodeFrames_ok_length q d frames [] a2
  rw [l2] at a1
  rcases hd : decodeFrames q d frames [] with ⟨done, part, err⟩
  rw [hd] at a1 a2
  simp only at a2
  subst a2
  exact ⟨done, part, rfl, by simpa using a1⟩

end Jelly

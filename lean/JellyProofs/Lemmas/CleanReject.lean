import JellyProofs.Lemmas.Pin
import JellyProofs.Lemmas.RowBracket
/-!
# Every change of a lookup table pins a key (C20)

While a row is open (pin tracking on) each table operation of the term encoder either leaves the
table exactly as it was or pins a key. Hence a statement body that ends with no pins at all has not
touched the encoder: a rejection is either *clean* (encoder literally unchanged) or it leaves the
encoder *broken* (`rowOpen` and some table has pins).
-/
namespace Jelly

def LookupEnc.tracked (e : LookupEnc) : Bool := e.lookup.pinned.isSome

/-- One step on one table: tracking stays on, pins are never dropped, and either nothing changed or
    the table has pins. -/
def LStep (e e' : LookupEnc) : Prop :=
  e.tracked = true →
    e'.tracked = true ∧ (e.hasPins = true → e'.hasPins = true) ∧ (e' = e ∨ e'.hasPins = true)

theorem LStep.refl (e : LookupEnc) : LStep e e := fun h => ⟨h, fun h => h, Or.inl rfl⟩

theorem LStep.trans {a b c : LookupEnc} (h₁ : LStep a b) (h₂ : LStep b c) : LStep a c := by
  intro ha
  obtain ⟨hb, m1, s1⟩ := h₁ ha
  obtain ⟨hc, m2, s2⟩ := h₂ hb
  refine ⟨hc, fun h => m2 (m1 h), ?_⟩
  rcases s2 with rfl | s2
  · exact s1
  · exact Or.inr s2

/-- A step that pins a key. -/
theorem LStep.of_pinned {e e' : LookupEnc} {k : String}
    (h : e'.lookup.pinned = e.lookup.pinned.map (k :: ·)) : LStep e e' := by
  intro ht
  unfold LookupEnc.tracked at ht ⊢
  unfold LookupEnc.hasPins
  cases hp : e.lookup.pinned with
  | none => rw [hp] at ht; simp at ht
  | some ps =>
    rw [hp] at h
    simp only [Option.map_some] at h
    rw [h]
    exact ⟨rfl, fun _ => rfl, Or.inr rfl⟩

theorem entryIndex_lstep {e e' : LookupEnc} {k : String} {oid : Option Nat}
    (h : e.entryIndex k = .ok (e', oid)) : LStep e e' := by
  unfold LookupEnc.entryIndex at h
  cases hm : e.lookup.moveToEnd k with
  | some l' =>
    rw [hm] at h
    injection h with h; injection h with ha hb; subst ha
    exact LStep.of_pinned (k := k) (Lookup.moveToEnd_pinned hm)
  | none =>
    rw [hm] at h
    cases hi : e.lookup.insert k with
    | error err => rw [hi] at h; simp at h
    | ok r =>
      obtain ⟨l', idx⟩ := r
      rw [hi] at h
      injection h with h; injection h with ha hb; subst ha
      exact LStep.of_pinned (k := k) (Lookup.insert_pinned hi)

theorem termIndex_lstep {e e' : LookupEnc} {v : String} {i : Nat}
    (h : e.termIndex v = .ok (e', i)) : LStep e e' := by
  unfold LookupEnc.termIndex at h
  cases hm : e.lookup.moveToEnd v with
  | none => rw [hm] at h; simp at h
  | some l' =>
    rw [hm] at h
    dsimp only at h
    cases hf : l'.find? v with
    | none => rw [hf] at h; simp at h
    | some x =>
      obtain ⟨k', idx⟩ := x
      rw [hf] at h
      injection h with h; injection h with ha hb; subst ha
      exact LStep.of_pinned (k := v) (Lookup.moveToEnd_pinned hm)

theorem prefixTermIndex_lstep {e e' : LookupEnc} {v : String} {i : Nat}
    (h : e.prefixTermIndex v = .ok (e', i)) : LStep e e' := by
  unfold LookupEnc.prefixTermIndex at h
  split at h
  · injection h with h; injection h with ha _; subst ha; exact LStep.refl _
  · split at h
    · injection h with h; injection h with ha _; subst ha; exact LStep.refl _
    · cases ht : e.termIndex v with
      | error err => rw [ht] at h; simp at h
      | ok r =>
        obtain ⟨e1, cur⟩ := r
        rw [ht] at h
        dsimp only at h
        have hs := termIndex_lstep ht
        split at h
        · injection h with h; injection h with ha _; subst ha; exact hs
        · split at h <;> (injection h with h; injection h with ha _; subst ha; exact hs)

theorem nameTermIndex_lstep {e e' : LookupEnc} {v : String} {i : Nat}
    (h : e.nameTermIndex v = .ok (e', i)) : LStep e e' := by
  unfold LookupEnc.nameTermIndex at h
  cases ht : e.termIndex v with
  | error err => rw [ht] at h; simp at h
  | ok r =>
    obtain ⟨e1, cur⟩ := r
    rw [ht] at h
    dsimp only at h
    have hs := termIndex_lstep ht
    split at h <;> (injection h with h; injection h with ha _; subst ha; exact hs)

theorem datatypeTermIndex_lstep {e e' : LookupEnc} {v : String} {i : Nat}
    (h : e.datatypeTermIndex v = .ok (e', i)) : LStep e e' := by
  unfold LookupEnc.datatypeTermIndex at h
  split at h
  · injection h with h; injection h with ha _; subst ha; exact LStep.refl _
  · exact termIndex_lstep h

/-! ## The three tables together -/

def TermEnc.tracked (te : TermEnc) : Bool :=
  te.names.tracked && te.prefixes.tracked && te.datatypes.tracked

def TermEnc.anyPins (te : TermEnc) : Bool :=
  te.names.hasPins || te.prefixes.hasPins || te.datatypes.hasPins

theorem TermEnc.broken_eq (te : TermEnc) : te.broken = (te.rowOpen && te.anyPins) := rfl

/-- One step of the term encoder inside an open row. -/
def TStep (te te' : TermEnc) : Prop :=
  te.tracked = true →
    te'.tracked = true ∧ te'.rowOpen = te.rowOpen ∧ (te.anyPins = true → te'.anyPins = true) ∧
      (te' = te ∨ te'.anyPins = true)

theorem TStep.refl (te : TermEnc) : TStep te te := fun h => ⟨h, rfl, fun h => h, Or.inl rfl⟩

theorem TStep.trans {a b c : TermEnc} (h₁ : TStep a b) (h₂ : TStep b c) : TStep a c := by
  intro ha
  obtain ⟨hb, r1, m1, s1⟩ := h₁ ha
  obtain ⟨hc, r2, m2, s2⟩ := h₂ hb
  refine ⟨hc, r2.trans r1, fun h => m2 (m1 h), ?_⟩
  rcases s2 with rfl | s2
  · exact s1
  · exact Or.inr s2

theorem TStep.names {te : TermEnc} {e : LookupEnc} (h : LStep te.names e) :
    TStep te { te with names := e } := by
  intro ht
  simp only [TermEnc.tracked, Bool.and_eq_true] at ht
  obtain ⟨t', m, s⟩ := h ht.1.1
  refine ⟨by simp only [TermEnc.tracked, t', ht.1.2, ht.2, Bool.and_self], rfl, ?_, ?_⟩
  · intro hp
    simp only [TermEnc.anyPins, Bool.or_eq_true] at hp ⊢
    rcases hp with (hp | hp) | hp
    · exact Or.inl (Or.inl (m hp))
    · exact Or.inl (Or.inr hp)
    · exact Or.inr hp
  · rcases s with rfl | s
    · exact Or.inl rfl
    · right; simp only [TermEnc.anyPins, s, Bool.true_or]

theorem TStep.prefixes {te : TermEnc} {e : LookupEnc} (h : LStep te.prefixes e) :
    TStep te { te with prefixes := e } := by
  intro ht
  simp only [TermEnc.tracked, Bool.and_eq_true] at ht
  obtain ⟨t', m, s⟩ := h ht.1.2
  refine ⟨by simp only [TermEnc.tracked, t', ht.1.1, ht.2, Bool.and_self], rfl, ?_, ?_⟩
  · intro hp
    simp only [TermEnc.anyPins, Bool.or_eq_true] at hp ⊢
    rcases hp with (hp | hp) | hp
    · exact Or.inl (Or.inl hp)
    · exact Or.inl (Or.inr (m hp))
    · exact Or.inr hp
  · rcases s with rfl | s
    · exact Or.inl rfl
    · right; simp only [TermEnc.anyPins, s, Bool.true_or, Bool.or_true]

theorem TStep.datatypes {te : TermEnc} {e : LookupEnc} (h : LStep te.datatypes e) :
    TStep te { te with datatypes := e } := by
  intro ht
  simp only [TermEnc.tracked, Bool.and_eq_true] at ht
  obtain ⟨t', m, s⟩ := h ht.2
  refine ⟨by simp only [TermEnc.tracked, t', ht.1.1, ht.1.2, Bool.and_self], rfl, ?_, ?_⟩
  · intro hp
    simp only [TermEnc.anyPins, Bool.or_eq_true] at hp ⊢
    rcases hp with (hp | hp) | hp
    · exact Or.inl (Or.inl hp)
    · exact Or.inl (Or.inr hp)
    · exact Or.inr (m hp)
  · rcases s with rfl | s
    · exact Or.inl rfl
    · right; simp only [TermEnc.anyPins, s, Bool.or_true]

/-! ## Term encoder operations -/

theorem iriIndices_tstep (te : TermEnc) (iri : String) : TStep te (te.iriIndices iri).1 := by
  unfold TermEnc.iriIndices
  dsimp only
  -- the optional prefix entry
  have h1 : ∀ pe pEntry,
      (if (te.prefixes.lookup.maxSize != 0) = true then te.prefixes.entryIndex (splitIri iri).1
        else .ok (te.prefixes, none)) = .ok (pe, pEntry) → LStep te.prefixes pe := by
    intro pe pEntry h
    split at h
    · exact entryIndex_lstep h
    · injection h with h; injection h with ha _; subst ha; exact LStep.refl _
  split
  · exact TStep.refl _
  · rename_i pe pEntry hpe
    have s1 : TStep te { te with prefixes := pe } := TStep.prefixes (h1 pe pEntry hpe)
    split
    · exact s1
    · rename_i ne nEntry hne
      have s2 : TStep te { te with prefixes := pe, names := ne } :=
        s1.trans (TStep.names (te := { te with prefixes := pe }) (entryIndex_lstep hne))
      split
      · exact s2
      · rename_i pe' pIdx hpt
        have s3 : TStep te { te with prefixes := pe', names := ne } :=
          s2.trans (TStep.prefixes (te := { te with prefixes := pe, names := ne }) (prefixTermIndex_lstep hpt))
        split
        · exact s3
        · rename_i ne' nIdx hnt
          exact s3.trans (TStep.names (te := { te with prefixes := pe', names := ne }) (nameTermIndex_lstep hnt))

theorem literal_tstep (te : TermEnc) (lang dt : Option String) : TStep te (te.literal lang dt).1 := by
  unfold TermEnc.literal
  dsimp only
  split
  · split
    · split
      · exact TStep.refl _
      · split
        · exact TStep.refl _
        · rename_i de dEntry hde
          have s1 : TStep te { te with datatypes := de } := TStep.datatypes (entryIndex_lstep hde)
          split
          · exact s1
          · rename_i de' id hdt
            exact s1.trans (TStep.datatypes (te := { te with datatypes := de }) (datatypeTermIndex_lstep hdt))
    · exact TStep.refl _
  · exact TStep.refl _

theorem spo_tstep (t : Term) : ∀ te : TermEnc, TStep te (te.spo t).1 := by
  induction t with
  | iri s =>
    intro te
    have := iriIndices_tstep te s
    simp only [TermEnc.spo]
    generalize te.iriIndices s = x at this ⊢
    rcases x with ⟨te', e | ⟨rows, p, n⟩⟩ <;> exact this
  | lit lex lang dt =>
    intro te
    have := literal_tstep te lang dt
    simp only [TermEnc.spo]
    generalize te.literal lang dt = x at this ⊢
    rcases x with ⟨te', e | ⟨rows, k⟩⟩ <;> exact this
  | bnode b => intro te; exact TStep.refl _
  | quoted s p o ihs ihp iho =>
    intro te
    have h1 := ihs te
    simp only [TermEnc.spo]
    generalize te.spo s = x at h1 ⊢
    rcases x with ⟨te1, e | ⟨r1, ws⟩⟩
    · exact h1
    · have h2 := ihp te1
      dsimp only at h1 h2 ⊢
      generalize te1.spo p = x at h2 ⊢
      rcases x with ⟨te2, e | ⟨r2, wp⟩⟩
      · exact h1.trans h2
      · have h3 := iho te2
        dsimp only at h2 h3 ⊢
        generalize te2.spo o = x at h3 ⊢
        rcases x with ⟨te3, e | ⟨r3, wo⟩⟩ <;> exact (h1.trans h2).trans h3
  | defaultGraph => intro te; exact TStep.refl _
  | unsupported => intro te; exact TStep.refl _

theorem graph_tstep (t : Term) (te : TermEnc) : TStep te (te.graph t).1 := by
  cases t with
  | iri s =>
    have := iriIndices_tstep te s
    simp only [TermEnc.graph]
    generalize te.iriIndices s = x at this ⊢
    rcases x with ⟨te', e | ⟨rows, p, n⟩⟩ <;> exact this
  | lit lex lang dt =>
    have := literal_tstep te lang dt
    simp only [TermEnc.graph]
    generalize te.literal lang dt = x at this ⊢
    rcases x with ⟨te', e | ⟨rows, k⟩⟩ <;> exact this
  | bnode b => exact TStep.refl _
  | quoted s p o => exact TStep.refl _
  | defaultGraph => exact TStep.refl _
  | unsupported => exact TStep.refl _

theorem encSlot_tstep {enc : TermEnc → Term → Res TermEnc (List Row × WTerm)}
    (henc : ∀ t te, TStep te (enc te t).1) (te : TermEnc) (prev : Option Term) (t : Term) :
    TStep te (encSlot enc te prev t).1 := by
  unfold encSlot
  split
  · exact TStep.refl _
  · have := henc t te
    generalize enc te t = x at this ⊢
    rcases x with ⟨te', e | ⟨rows, w⟩⟩ <;> exact this

theorem encSlot_spo_tstep (te : TermEnc) (prev : Option Term) (t : Term) :
    TStep te (encSlot TermEnc.spo te prev t).1 :=
  encSlot_tstep (fun t te => spo_tstep t te) te prev t

theorem encSlot_graph_tstep (te : TermEnc) (prev : Option Term) (t : Term) :
    TStep te (encSlot TermEnc.graph te prev t).1 :=
  encSlot_tstep (fun t te => graph_tstep t te) te prev t

/-! ## Statement bodies -/

theorem encodeTripleBody_tstep (exc : PyErr) (st : EncState) (terms : List Term) :
    TStep st.te (encodeTripleBody exc st terms).1.te := by
  rcases terms with _ | ⟨a, _ | ⟨b, _ | ⟨c, rest⟩⟩⟩
  · exact TStep.refl _
  · simp only [encodeTripleBody]
    have h1 := encSlot_spo_tstep st.te st.rep.s a
    generalize encSlot TermEnc.spo st.te st.rep.s a = x at h1 ⊢
    rcases x with ⟨te1, r1, e | ⟨rw1, w1⟩⟩ <;> exact h1
  · simp only [encodeTripleBody]
    have h1 := encSlot_spo_tstep st.te st.rep.s a
    generalize encSlot TermEnc.spo st.te st.rep.s a = x at h1 ⊢
    rcases x with ⟨te1, r1, e | ⟨rw1, w1⟩⟩
    · exact h1
    dsimp only at h1 ⊢
    have h2 := encSlot_spo_tstep te1 st.rep.p b
    generalize encSlot TermEnc.spo te1 st.rep.p b = x at h2 ⊢
    rcases x with ⟨te2, r2, e | ⟨rw2, w2⟩⟩ <;> exact (h1).trans h2
  · simp only [encodeTripleBody]
    have h1 := encSlot_spo_tstep st.te st.rep.s a
    generalize encSlot TermEnc.spo st.te st.rep.s a = x at h1 ⊢
    rcases x with ⟨te1, r1, e | ⟨rw1, w1⟩⟩
    · exact h1
    dsimp only at h1 ⊢
    have h2 := encSlot_spo_tstep te1 st.rep.p b
    generalize encSlot TermEnc.spo te1 st.rep.p b = x at h2 ⊢
    rcases x with ⟨te2, r2, e | ⟨rw2, w2⟩⟩
    · exact (h1).trans h2
    dsimp only at h2 ⊢
    have h3 := encSlot_spo_tstep te2 st.rep.o c
    generalize encSlot TermEnc.spo te2 st.rep.o c = x at h3 ⊢
    rcases x with ⟨te3, r3, e | ⟨rw3, w3⟩⟩ <;> exact ((h1).trans h2).trans h3

theorem encodeQuadBody_tstep (exc : PyErr) (st : EncState) (terms : List Term) :
    TStep st.te (encodeQuadBody exc st terms).1.te := by
  rcases terms with _ | ⟨a, _ | ⟨b, _ | ⟨c, _ | ⟨g, rest⟩⟩⟩⟩
  · exact TStep.refl _
  · simp only [encodeQuadBody]
    have h1 := encSlot_spo_tstep st.te st.rep.s a
    generalize encSlot TermEnc.spo st.te st.rep.s a = x at h1 ⊢
    rcases x with ⟨te1, r1, e | ⟨rw1, w1⟩⟩ <;> exact h1
  · simp only [encodeQuadBody]
    have h1 := encSlot_spo_tstep st.te st.rep.s a
    generalize encSlot TermEnc.spo st.te st.rep.s a = x at h1 ⊢
    rcases x with ⟨te1, r1, e | ⟨rw1, w1⟩⟩
    · exact h1
    dsimp only at h1 ⊢
    have h2 := encSlot_spo_tstep te1 st.rep.p b
    generalize encSlot TermEnc.spo te1 st.rep.p b = x at h2 ⊢
    rcases x with ⟨te2, r2, e | ⟨rw2, w2⟩⟩ <;> exact (h1).trans h2
  · simp only [encodeQuadBody]
    have h1 := encSlot_spo_tstep st.te st.rep.s a
    generalize encSlot TermEnc.spo st.te st.rep.s a = x at h1 ⊢
    rcases x with ⟨te1, r1, e | ⟨rw1, w1⟩⟩
    · exact h1
    dsimp only at h1 ⊢
    have h2 := encSlot_spo_tstep te1 st.rep.p b
    generalize encSlot TermEnc.spo te1 st.rep.p b = x at h2 ⊢
    rcases x with ⟨te2, r2, e | ⟨rw2, w2⟩⟩
    · exact (h1).trans h2
    dsimp only at h2 ⊢
    have h3 := encSlot_spo_tstep te2 st.rep.o c
    generalize encSlot TermEnc.spo te2 st.rep.o c = x at h3 ⊢
    rcases x with ⟨te3, r3, e | ⟨rw3, w3⟩⟩ <;> exact ((h1).trans h2).trans h3
  · simp only [encodeQuadBody]
    have h1 := encSlot_spo_tstep st.te st.rep.s a
    generalize encSlot TermEnc.spo st.te st.rep.s a = x at h1 ⊢
    rcases x with ⟨te1, r1, e | ⟨rw1, w1⟩⟩
    · exact h1
    dsimp only at h1 ⊢
    have h2 := encSlot_spo_tstep te1 st.rep.p b
    generalize encSlot TermEnc.spo te1 st.rep.p b = x at h2 ⊢
    rcases x with ⟨te2, r2, e | ⟨rw2, w2⟩⟩
    · exact (h1).trans h2
    dsimp only at h2 ⊢
    have h3 := encSlot_spo_tstep te2 st.rep.o c
    generalize encSlot TermEnc.spo te2 st.rep.o c = x at h3 ⊢
    rcases x with ⟨te3, r3, e | ⟨rw3, w3⟩⟩
    · exact ((h1).trans h2).trans h3
    dsimp only at h3 ⊢
    have h4 := encSlot_graph_tstep te3 st.rep.g g
    generalize encSlot TermEnc.graph te3 st.rep.g g = x at h4 ⊢
    rcases x with ⟨te4, r4, e | ⟨rw4, w4⟩⟩ <;> exact (((h1).trans h2).trans h3).trans h4

theorem TermEnc.startRow_tracked (te : TermEnc) : te.startRow.tracked = true := rfl

theorem TermEnc.startRow_anyPins (te : TermEnc) : te.startRow.anyPins = false := rfl

theorem TermEnc.startRow_not_broken (te : TermEnc) : te.startRow.broken = false := rfl

/-- What a started row looks like afterwards: either the encoder is exactly the started one, or it is
    broken. -/
theorem TStep.from_startRow {te te' : TermEnc} (h : TStep te.startRow te') :
    te' = te.startRow ∨ te'.broken = true := by
  obtain ⟨_, hr, _, hs⟩ := h (TermEnc.startRow_tracked te)
  rcases hs with hs | hs
  · exact Or.inl hs
  · right
    rw [TermEnc.broken_eq, hr, hs]
    rfl

/-- A rejected triple: the encoder state is the one before the call with its row started (clean), or
    the encoder is broken (dirty). -/
theorem encodeTriple_err_clean_or_broken {exc : PyErr} {st st' : EncState} {terms : List Term} {e : PyErr}
    (h : encodeTriple exc st terms = (st', .error e)) (hnb : st.te.broken = false) :
    st' = { st with te := st.te.startRow } ∨ st'.te.broken = true := by
  rcases encodeTriple_err_inv h with ⟨hb, _⟩ | ⟨_, st1, hbody, rfl⟩
  · rw [hnb] at hb; exact absurd hb (by simp)
  · have hs := encodeTripleBody_tstep exc { st with te := st.te.startRow } terms
    rw [hbody] at hs
    rcases hs.from_startRow with hs | hs
    · left
      show ({ te := st1.te, rep := st.rep } : EncState) = _
      rw [hs]
    · exact Or.inr hs

theorem encodeQuad_err_clean_or_broken {exc : PyErr} {st st' : EncState} {terms : List Term} {e : PyErr}
    (h : encodeQuad exc st terms = (st', .error e)) (hnb : st.te.broken = false) :
    st' = { st with te := st.te.startRow } ∨ st'.te.broken = true := by
  rcases encodeQuad_err_inv h with ⟨hb, _⟩ | ⟨_, st1, hbody, rfl⟩
  · rw [hnb] at hb; exact absurd hb (by simp)
  · have hs := encodeQuadBody_tstep exc { st with te := st.te.startRow } terms
    rw [hbody] at hs
    rcases hs.from_startRow with hs | hs
    · left
      show ({ te := st1.te, rep := st.rep } : EncState) = _
      rw [hs]
    · exact Or.inr hs

end Jelly

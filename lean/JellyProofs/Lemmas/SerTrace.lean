import JellyProofs.Lemmas.SerRows
/-!
# The traced loops of `Trace.lean` versus the untraced loops of `SerGeneric.lean`

`pullsOf`, `yieldsOf`, `oneYieldBetweenPulls` are the definitions used in the statements of C11
(moved here unchanged from `JellyProofs/C06.lean`).
-/
namespace Jelly

def pullsOf (tr : List TraceEv) : List (Nat × Nat) :=
  tr.filterMap fun ev => match ev with | .pull i p => some (i, p) | .yield _ => none

def yieldsOf (tr : List TraceEv) : List Nat :=
  tr.filterMap fun ev => match ev with | .yield n => some n | .pull _ _ => none

/-- (ii)+(iii) For TripleStream / QuadStream the input is pulled strictly one statement at a time
    (pull indices are 1, 2, 3, …), at most one frame is handed out between two consecutive pulls, and
    it is handed out before the next pull: statement `i` completes a frame ⇒ the frame is out when
    exactly `i` statements have been pulled. -/
def oneYieldBetweenPulls : List TraceEv → Bool
  | .yield _ :: .yield _ :: _ => false
  | _ :: rest => oneYieldBetweenPulls rest
  | [] => true

/-! ## Projections of traces -/

@[simp] theorem pullsOf_nil : pullsOf [] = [] := rfl
@[simp] theorem yieldsOf_nil : yieldsOf [] = [] := rfl
@[simp] theorem pullsOf_pull (i p : Nat) (tr : List TraceEv) :
    pullsOf (.pull i p :: tr) = (i, p) :: pullsOf tr := rfl
@[simp] theorem pullsOf_yield (n : Nat) (tr : List TraceEv) : pullsOf (.yield n :: tr) = pullsOf tr := rfl
@[simp] theorem yieldsOf_pull (i p : Nat) (tr : List TraceEv) : yieldsOf (.pull i p :: tr) = yieldsOf tr := rfl
@[simp] theorem yieldsOf_yield (n : Nat) (tr : List TraceEv) :
    yieldsOf (.yield n :: tr) = n :: yieldsOf tr := rfl
@[simp] theorem pullsOf_append (a b : List TraceEv) : pullsOf (a ++ b) = pullsOf a ++ pullsOf b :=
  List.filterMap_append
@[simp] theorem yieldsOf_append (a b : List TraceEv) : yieldsOf (a ++ b) = yieldsOf a ++ yieldsOf b :=
  List.filterMap_append

@[simp] theorem pullsOf_yieldOf (fr : Option Frame) : pullsOf (yieldOf fr) = [] := by
  cases fr <;> rfl

@[simp] theorem yieldsOf_yieldOf (fr : Option Frame) :
    yieldsOf (yieldOf fr) = fr.toList.map (·.rows.length) := by
  cases fr <;> rfl

@[simp] theorem pullsOf_map_yield (fs : List Frame) :
    pullsOf (fs.map fun f => TraceEv.yield f.rows.length) = [] := by
  induction fs with
  | nil => rfl
  | cons f fs ih => simpa using ih

@[simp] theorem yieldsOf_map_yield (fs : List Frame) :
    yieldsOf (fs.map fun f => TraceEv.yield f.rows.length) = fs.map (·.rows.length) := by
  induction fs with
  | nil => rfl
  | cons f fs ih => simpa using ih

/-! ## `stmtLoopTrace` replays `stmtLoop` -/

@[simp] theorem stmtLoopTrace_nil (step : Stream → List Term → Res Stream (Option Frame)) (s : Stream)
    (i : Nat) : stmtLoopTrace step s i [] = ([.pull i s.flow.rows.length], s, none) := rfl

theorem stmtLoopTrace_cons (step : Stream → List Term → Res Stream (Option Frame)) (s : Stream) (i : Nat)
    (t : List Term) (ts : List (List Term)) :
    stmtLoopTrace step s i (t :: ts) =
      match (step s t).2 with
      | .error e => ([.pull i s.flow.rows.length], (step s t).1, some e)
      | .ok fr =>
        (.pull i s.flow.rows.length :: yieldOf fr ++ (stmtLoopTrace step (step s t).1 (i + 1) ts).1,
         (stmtLoopTrace step (step s t).1 (i + 1) ts).2.1,
         (stmtLoopTrace step (step s t).1 (i + 1) ts).2.2) := by
  rw [stmtLoopTrace]
  rcases step s t with ⟨s', e | fr⟩ <;> rfl

/-- The yields of the traced loop are exactly the sizes of the frames the untraced loop adds; the
    final stream and the outcome coincide. -/
theorem stmtLoop_trace (step : Stream → List Term → Res Stream (Option Frame)) (ts : List (List Term))
    (r : Run) (i : Nat) (hr : r.err = none) :
    (stmtLoop step r ts).frames.map (·.rows.length)
      = r.frames.map (·.rows.length) ++ yieldsOf (stmtLoopTrace step r.stream i ts).1 ∧
    (stmtLoop step r ts).stream = (stmtLoopTrace step r.stream i ts).2.1 ∧
    (stmtLoop step r ts).err = (stmtLoopTrace step r.stream i ts).2.2 := by
  induction ts generalizing r i with
  | nil => simp [hr]
  | cons t ts ih =>
    rw [stmtLoop_cons, stmtLoopTrace_cons]
    rcases h : step r.stream t with ⟨s', e | fr⟩
    · simp
    · have := ih (r.push s' fr) (i + 1) hr
      simp only [Run.push_stream, Run.push_frames] at this
      simp [this]

/-- The frames of `stmtLoop` extend those of the run it starts from. -/
theorem stmtLoop_frames_prefix (step : Stream → List Term → Res Stream (Option Frame))
    (ts : List (List Term)) (r : Run) : ∃ fs, (stmtLoop step r ts).frames = r.frames ++ fs := by
  induction ts generalizing r with
  | nil => exact ⟨[], by simp⟩
  | cons t ts ih =>
    rw [stmtLoop_cons]
    rcases step r.stream t with ⟨s', e | fr⟩
    · exact ⟨[], by simp⟩
    · obtain ⟨fs, hfs⟩ := ih (r.push s' fr)
      exact ⟨fr.toList ++ fs, by simp [hfs]⟩

/-! ## `graphsLoopTrace` replays `graphsLoop` -/

theorem graphsLoopTrace_nil (s : Stream) (i : Nat) (cur : Option (Term × List (List Term))) :
    graphsLoopTrace s i cur [] =
      match cur with
      | none => ([.pull i s.flow.rows.length], s, none)
      | some (g, ts) =>
        (.pull i s.flow.rows.length :: (s.graph .runtimeError g ts).2.1.map (fun f => .yield f.rows.length),
         (s.graph .runtimeError g ts).1, (s.graph .runtimeError g ts).2.2) := by
  rcases cur with _ | ⟨g, ts⟩ <;> rfl

theorem graphsLoopTrace_cons (s : Stream) (i : Nat) (cur : Option (Term × List (List Term)))
    (st : List Term) (rest : List (List Term)) :
    graphsLoopTrace s i cur (st :: rest) =
      match stmtGraph? st with
      | none => ([.pull i s.flow.rows.length], s, some .attributeError)
      | some g =>
        match cur with
        | none =>
          (.pull i s.flow.rows.length :: (graphsLoopTrace s (i + 1) (some (g, [st.take 3])) rest).1,
           (graphsLoopTrace s (i + 1) (some (g, [st.take 3])) rest).2)
        | some (cg, acc) =>
          if cg == g then
            (.pull i s.flow.rows.length :: (graphsLoopTrace s (i + 1) (some (cg, acc ++ [st.take 3])) rest).1,
             (graphsLoopTrace s (i + 1) (some (cg, acc ++ [st.take 3])) rest).2)
          else
            match (s.graph .runtimeError cg acc).2.2 with
            | some e =>
              (.pull i s.flow.rows.length ::
                 (s.graph .runtimeError cg acc).2.1.map (fun f => TraceEv.yield f.rows.length),
               (s.graph .runtimeError cg acc).1, some e)
            | none =>
              (.pull i s.flow.rows.length ::
                 (s.graph .runtimeError cg acc).2.1.map (fun f => TraceEv.yield f.rows.length) ++
                 (graphsLoopTrace (s.graph .runtimeError cg acc).1 (i + 1) (some (g, [st.take 3])) rest).1,
               (graphsLoopTrace (s.graph .runtimeError cg acc).1 (i + 1) (some (g, [st.take 3])) rest).2) := by
  rw [graphsLoopTrace]
  rcases stmtGraph? st with _ | g
  · rfl
  · rcases cur with _ | ⟨cg, acc⟩
    · rfl
    · dsimp only
      split
      · rfl
      · rcases s.graph .runtimeError cg acc with ⟨s1, frs, _ | e⟩ <;> rfl

theorem graphsLoop_trace (ts : List (List Term)) (r : Run) (i : Nat)
    (cur : Option (Term × List (List Term))) (hr : r.err = none) :
    (graphsLoop r cur ts).frames.map (·.rows.length)
      = r.frames.map (·.rows.length) ++ yieldsOf (graphsLoopTrace r.stream i cur ts).1 ∧
    (graphsLoop r cur ts).stream = (graphsLoopTrace r.stream i cur ts).2.1 ∧
    (graphsLoop r cur ts).err = (graphsLoopTrace r.stream i cur ts).2.2 := by
  induction ts generalizing r i cur with
  | nil =>
    rw [graphsLoop_nil, graphsLoopTrace_nil]
    rcases cur with _ | ⟨g, ts⟩
    · simp [hr]
    · simp [Run.graphStep]
  | cons st rest ih =>
    rw [graphsLoop_cons, graphsLoopTrace_cons]
    rcases stmtGraph? st with _ | g
    · simp
    · rcases cur with _ | ⟨cg, acc⟩
      · simpa using ih r (i + 1) _ hr
      · dsimp only
        split
        · simpa using ih r (i + 1) _ hr
        · rcases he : (r.stream.graph .runtimeError cg acc).2.2 with _ | e
          · have hr' : (r.graphStep cg acc).err = none := he
            have := ih (r.graphStep cg acc) (i + 1) (some (g, [st.take 3])) hr'
            simp only [hr', Option.isSome_none, Bool.false_eq_true, if_false]
            simp only [Run.graphStep] at this ⊢
            simp [this]
          · have hr' : (r.graphStep cg acc).err = some e := he
            simp only [hr', Option.isSome_some, if_true]
            simp [Run.graphStep, he]

/-! ## The epilogue contributes only yields -/

theorem epilogueTrace_eq (s : Stream) (b : Bool) :
    epilogueTrace s b =
      ((epilogue { stream := s } b).frames.map (fun f => TraceEv.yield f.rows.length),
       (epilogue { stream := s } b).stream) := rfl

/-! ## Pending rows at each pull (bounded flows) -/

theorem stmtLoopTrace_pending {step : Stream → List Term → Res Stream (Option Frame)} (hs : GoodStep step)
    (ts : List (List Term)) (s : Stream) (i : Nat) (hb : s.flow.kind.isBounded = true)
    (hfs : 0 < s.flow.frameSize) (hi : 2 ≤ i → s.flow.rows.length < s.flow.frameSize) :
    ∀ ip ∈ pullsOf (stmtLoopTrace step s i ts).1, 2 ≤ ip.1 → ip.2 < s.flow.frameSize := by
  induction ts generalizing s i with
  | nil =>
    intro ip hip
    simp only [stmtLoopTrace_nil, pullsOf_pull, pullsOf_nil, List.mem_singleton] at hip
    subst hip
    exact hi
  | cons t ts ih =>
    have hk := hs.keeps s t
    have hp := hs.pending s t hb hfs
    rw [stmtLoopTrace_cons]
    generalize step s t = x at hk hp ⊢
    rcases x with ⟨s', e | fr⟩
    · intro ip hip
      simp only [pullsOf_pull, pullsOf_nil, List.mem_singleton] at hip
      subst hip
      exact hi
    · intro ip hip
      simp only [pullsOf_pull, pullsOf_append, pullsOf_yieldOf, List.singleton_append,
        List.mem_cons] at hip
      rcases hip with rfl | hip
      · exact hi
      · have := ih s' (i + 1) (by rw [hk.kind]; exact hb) (by rw [hk.frameSize]; exact hfs)
          (by intro _; rw [hk.frameSize]; exact hp rfl) ip hip
        rw [hk.frameSize] at this
        exact this

/-! ## One statement at a time, at most one frame per statement -/

@[simp] theorem oneYield_pull (i p : Nat) (tr : List TraceEv) :
    oneYieldBetweenPulls (.pull i p :: tr) = oneYieldBetweenPulls tr := by
  rw [oneYieldBetweenPulls]
  simp

@[simp] theorem oneYield_yield_yield (a b : Nat) (tr : List TraceEv) :
    oneYieldBetweenPulls (.yield a :: .yield b :: tr) = false := by
  rw [oneYieldBetweenPulls]

@[simp] theorem oneYield_yield_pull (a i p : Nat) (tr : List TraceEv) :
    oneYieldBetweenPulls (.yield a :: .pull i p :: tr) = oneYieldBetweenPulls tr := by
  rw [oneYieldBetweenPulls, oneYield_pull]
  simp

@[simp] theorem oneYield_yield_nil (a : Nat) : oneYieldBetweenPulls [.yield a] = true := by
  rw [oneYieldBetweenPulls, oneYieldBetweenPulls]
  simp

/-- `body` has at most one yield between pulls and does not start with a yield. -/
def PullFirst (body : List TraceEv) : Prop := ∀ k, oneYieldBetweenPulls (.yield k :: body) = true

theorem PullFirst.nil : PullFirst [] := fun k => oneYield_yield_nil k

theorem PullFirst.oneYield {body : List TraceEv} (h : PullFirst body) : oneYieldBetweenPulls body = true := by
  have := h 0
  match body, this with
  | [], _ => rfl
  | .pull i p :: rest, this => simpa using this
  | .yield a :: rest, this => simp at this

theorem PullFirst.cons {body : List TraceEv} (h : PullFirst body) (i p : Nat) (fr : Option Frame) :
    PullFirst (.pull i p :: yieldOf fr ++ body) := by
  intro k
  cases fr with
  | none => simpa [yieldOf] using h.oneYield
  | some f => simpa [yieldOf] using h f.rows.length

theorem stmtLoopTrace_structure (step : Stream → List Term → Res Stream (Option Frame))
    (ts : List (List Term)) (s : Stream) (i : Nat) (hok : (stmtLoopTrace step s i ts).2.2 = none) :
    (pullsOf (stmtLoopTrace step s i ts).1).map (·.1) = List.range' i (ts.length + 1) ∧
    ∃ body p, (stmtLoopTrace step s i ts).1 = body ++ [.pull (i + ts.length) p] ∧ PullFirst body := by
  induction ts generalizing s i with
  | nil => exact ⟨by simp, [], s.flow.rows.length, by simp, .nil⟩
  | cons t ts ih =>
    rw [stmtLoopTrace_cons] at hok ⊢
    generalize step s t = x at hok ⊢
    rcases x with ⟨s', e | fr⟩
    · simp at hok
    · obtain ⟨h1, body, p, h2, h3⟩ := ih s' (i + 1) hok
      refine ⟨?_, .pull i s.flow.rows.length :: yieldOf fr ++ body, p, ?_, h3.cons _ _ _⟩
      · simp only [pullsOf_pull, pullsOf_append, pullsOf_yieldOf, List.singleton_append,
          List.map_cons, h1, List.length_cons]
        rw [List.range'_succ (n := ts.length + 1)]
      · dsimp only
        rw [h2]
        simp [Nat.add_assoc, Nat.add_comm 1]

/-! ## `streamTrace` versus `streamFrames` on a generator -/

/-- The common shape of `flatTrace` and `graphsTrace`. -/
def traceWith (lt : Stream → List TraceEv × Stream × Option PyErr) (fromDataset : Bool) (s : Stream) :
    List TraceEv × Stream × Option PyErr :=
  match lt s.enroll with
  | (tr, s2, some e) => (tr, s2, some e)
  | (tr, s2, none) =>
    let (tr2, s3) := epilogueTrace s2 fromDataset
    (tr ++ tr2, s3, none)

/-- The traced loop selected by the stream class. -/
def classLoopTrace (c : StreamClass) (stmts : List (List Term)) (s1 : Stream) :
    List TraceEv × Stream × Option PyErr :=
  match c with
  | .triple => stmtLoopTrace (Stream.triple .runtimeError) s1 1 stmts
  | .quad => stmtLoopTrace (Stream.quad .runtimeError) s1 1 stmts
  | .graph => graphsLoopTrace s1 1 none stmts

theorem streamTrace_eq (s : Stream) (stmts : List (List Term)) :
    streamTrace s stmts = traceWith (classLoopTrace s.cls stmts) (classFromDataset s.cls) s := by
  unfold streamTrace flatTrace graphsTrace
  cases h : s.cls <;> rfl

theorem traceWith_eq (lt : Stream → List TraceEv × Stream × Option PyErr) (b : Bool) (s : Stream) :
    traceWith lt b s =
      match (lt s.enroll).2.2 with
      | some e => ((lt s.enroll).1, (lt s.enroll).2.1, some e)
      | none =>
        ((lt s.enroll).1 ++ (epilogue { stream := (lt s.enroll).2.1 } b).frames.map
            (fun f => TraceEv.yield f.rows.length),
         (epilogue { stream := (lt s.enroll).2.1 } b).stream, none) := by
  unfold traceWith
  rcases lt s.enroll with ⟨tr, s2, _ | e⟩ <;> rfl

theorem traceWith_err (lt : Stream → List TraceEv × Stream × Option PyErr) (b : Bool) (s : Stream) :
    (traceWith lt b s).2.2 = (lt s.enroll).2.2 := by
  rw [traceWith_eq]
  rcases (lt s.enroll).2.2 with _ | e <;> rfl

theorem traceWith_pulls (lt : Stream → List TraceEv × Stream × Option PyErr) (b : Bool) (s : Stream) :
    pullsOf (traceWith lt b s).1 = pullsOf (lt s.enroll).1 := by
  rw [traceWith_eq]
  rcases (lt s.enroll).2.2 with _ | e <;> simp

theorem classLoop_trace (c : StreamClass) (stmts : List (List Term)) (s1 : Stream) :
    (classLoop c { stream := s1 } stmts).frames.map (·.rows.length) = yieldsOf (classLoopTrace c stmts s1).1 ∧
    (classLoop c { stream := s1 } stmts).stream = (classLoopTrace c stmts s1).2.1 ∧
    (classLoop c { stream := s1 } stmts).err = (classLoopTrace c stmts s1).2.2 := by
  cases c
  · simpa [classLoop, classLoopTrace] using
      stmtLoop_trace (Stream.triple .runtimeError) stmts { stream := s1 } 1 rfl
  · simpa [classLoop, classLoopTrace] using
      stmtLoop_trace (Stream.quad .runtimeError) stmts { stream := s1 } 1 rfl
  · simpa [classLoop, classLoopTrace] using graphsLoop_trace stmts { stream := s1 } 1 none rfl

theorem faithful_core (R : Run) (T : List TraceEv × Stream × Option PyErr) (b : Bool)
    (h1 : R.frames.map (·.rows.length) = yieldsOf T.1) (h2 : R.stream = T.2.1) (h3 : R.err = T.2.2) :
    yieldsOf (match T.2.2 with
        | some e => (T.1, T.2.1, some e)
        | none => (T.1 ++ (epilogue { stream := T.2.1 } b).frames.map (fun (f : Frame) => TraceEv.yield f.rows.length),
                   (epilogue { stream := T.2.1 } b).stream, none)).1
      = (if R.err.isSome then R else epilogue R b).frames.map (·.rows.length) ∧
    (match T.2.2 with
        | some e => (T.1, T.2.1, some e)
        | none => (T.1 ++ (epilogue { stream := T.2.1 } b).frames.map (fun (f : Frame) => TraceEv.yield f.rows.length),
                   (epilogue { stream := T.2.1 } b).stream, none)).2.1
      = (if R.err.isSome then R else epilogue R b).stream ∧
    (match T.2.2 with
        | some e => (T.1, T.2.1, some e)
        | none => (T.1 ++ (epilogue { stream := T.2.1 } b).frames.map (fun (f : Frame) => TraceEv.yield f.rows.length),
                   (epilogue { stream := T.2.1 } b).stream, none)).2.2
      = (if R.err.isSome then R else epilogue R b).err := by
  rcases T with ⟨tr, s2, _ | e⟩
  · simp only at h1 h2 h3
    simp only [h3, Option.isSome_none, Bool.false_eq_true, if_false]
    rw [epilogue_frames R, epilogue_stream R, h2]
    simp [h1, h3]
  · simp only at h1 h2 h3
    simp [h1, h2, h3]

/-- The trace describes the same run as `streamFrames` on a generator: same frame sizes, same final
    stream, same outcome. -/
theorem streamTrace_faithful (s : Stream) (stmts : List (List Term)) :
    yieldsOf (streamTrace s stmts).1 = (streamFrames s (.gen stmts)).frames.map (·.rows.length) ∧
    (streamTrace s stmts).2.1 = (streamFrames s (.gen stmts)).stream ∧
    (streamTrace s stmts).2.2 = (streamFrames s (.gen stmts)).err := by
  rw [streamTrace_eq, streamFrames_eq, framesWith_eq, traceWith_eq]
  obtain ⟨h1, h2, h3⟩ := classLoop_trace s.cls stmts s.enroll
  exact faithful_core _ _ _ h1 h2 h3

end Jelly

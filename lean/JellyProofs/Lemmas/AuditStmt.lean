import JellyProofs.Lemmas.AuditTerm
import JellyProofs.Lemmas.StmtSim
/-!
# Statement-level audit (C19): the rows of one `encodeTriple` / `encodeQuad` / graph start / graph end
# leave `Spec.runAudit`'s counters unchanged.
-/
namespace Jelly

/-- The writer's repeated terms are normal (`Term.norm` fixes them), so that the reader's repeated
    terms are literally the same terms. -/
def RepN (r : Repeated) : Prop :=
  r.s.map Term.norm = r.s ∧ r.p.map Term.norm = r.p ∧ r.o.map Term.norm = r.o ∧ r.g.map Term.norm = r.g

/-- The invariant between statements, for the audit. -/
structure InvA (P : Preset) (es : EncState) (ss : Spec.State) : Prop where
  inv : Inv P es ss
  xm : XM es.te ss
  rn : RepN es.rep

theorem WFT.winv {P : Preset} {te : TermEnc} (h : WFT P te) (hp : 0 < P.maxNames) : WInv te :=
  ⟨h.wfn, h.wfp, h.wfd, by rw [h.maxn]; exact hp, fun h0 => h.p0 (h.maxp ▸ h0)⟩

/-- `pinned` is invisible to the exact mirror. -/
theorem XM.startRow {te : TermEnc} {ss : Spec.State} (m : XM te ss) : XM te.startRow ss :=
  ⟨⟨⟨m.n.em.size, m.n.em.len, m.n.em.la, m.n.em.res⟩, m.n.conv⟩,
   ⟨⟨m.p.em.size, m.p.em.len, m.p.em.la, m.p.em.res⟩, m.p.conv⟩,
   ⟨⟨m.d.em.size, m.d.em.len, m.d.em.la, m.d.em.res⟩, m.d.conv⟩⟩

/-- `pinned` / `rowOpen` are invisible to the exact mirror. -/
theorem XM.endRow {te : TermEnc} {ss : Spec.State} (m : XM te ss) : XM te.endRow ss :=
  ⟨⟨⟨m.n.em.size, m.n.em.len, m.n.em.la, m.n.em.res⟩, m.n.conv⟩,
   ⟨⟨m.p.em.size, m.p.em.len, m.p.em.la, m.p.em.res⟩, m.p.conv⟩,
   ⟨⟨m.d.em.size, m.d.em.len, m.d.em.la, m.d.em.res⟩, m.d.conv⟩⟩

theorem run_final_unique {ss s1 s2 : Spec.State} {rows : List Row}
    (h1 : ∀ rest acc i, Spec.run ss (rows ++ rest) acc i = Spec.run s1 rest acc (i + rows.length))
    (h2 : ∀ rest acc i, Spec.run ss (rows ++ rest) acc i = Spec.run s2 rest acc (i + rows.length)) :
    s1 = s2 := by
  have a := h1 [] [] 0
  have b := h2 [] [] 0
  rw [a] at b
  simp only [Spec.run, Prod.mk.injEq] at b
  exact b.1

theorem XM.setLR_rep {te : TermEnc} {ss : Spec.State} (m : XM te ss) (te' : TermEnc) (r : Repeated) :
    XM te (Jelly.setLR { ss with rep := r } te') :=
  ⟨m.n.lr _, m.p.lr _, m.d.lr _⟩

theorem XM.congr {te : TermEnc} {ss ss' : Spec.State} (m : XM te ss) (hn : ss'.names = ss.names)
    (hp : ss'.prefixes = ss.prefixes) (hd : ss'.datatypes = ss.datatypes) : XM te ss' :=
  ⟨hn ▸ m.n, hp ▸ m.p, hd ▸ m.d⟩

theorem flag_false {ow : Option WTerm} {prev x y : Option Term} {t : Term}
    (f : (ow.isSome && prev == some t) = false) (hx : x = prev) (hy : y = some t) :
    (ow.isSome && x == y) = false := by
  subst hx hy; exact f

theorem slotsZero3 {st : Spec.State} {te te1 te2 te3 : TermEnc} {ws wp wo : Option WTerm}
    (hn : st.names.lastReused = te.names.lastReused) (hp : st.prefixes.lastReused = te.prefixes.lastReused)
    (z1 : ∀ c, Spec.optZeroAudit te.names.lastReused te.prefixes.lastReused c ws
      = (te1.names.lastReused, te1.prefixes.lastReused, c))
    (z2 : ∀ c, Spec.optZeroAudit te1.names.lastReused te1.prefixes.lastReused c wp
      = (te2.names.lastReused, te2.prefixes.lastReused, c))
    (z3 : ∀ c, Spec.optZeroAudit te2.names.lastReused te2.prefixes.lastReused c wo
      = (te3.names.lastReused, te3.prefixes.lastReused, c)) :
    Spec.slotsZeroAudit st [ws, wp, wo] = 0 := by
  simp only [Spec.slotsZeroAudit, List.foldl, hn, hp, z1, z2, z3]

theorem slotsZero4 {st : Spec.State} {te te1 te2 te3 te4 : TermEnc} {ws wp wo wg : Option WTerm}
    (hn : st.names.lastReused = te.names.lastReused) (hp : st.prefixes.lastReused = te.prefixes.lastReused)
    (z1 : ∀ c, Spec.optZeroAudit te.names.lastReused te.prefixes.lastReused c ws
      = (te1.names.lastReused, te1.prefixes.lastReused, c))
    (z2 : ∀ c, Spec.optZeroAudit te1.names.lastReused te1.prefixes.lastReused c wp
      = (te2.names.lastReused, te2.prefixes.lastReused, c))
    (z3 : ∀ c, Spec.optZeroAudit te2.names.lastReused te2.prefixes.lastReused c wo
      = (te3.names.lastReused, te3.prefixes.lastReused, c))
    (z4 : ∀ c, Spec.optZeroAudit te3.names.lastReused te3.prefixes.lastReused c wg
      = (te4.names.lastReused, te4.prefixes.lastReused, c)) :
    Spec.slotsZeroAudit st [ws, wp, wo, wg] = 0 := by
  simp only [Spec.slotsZeroAudit, List.foldl, hn, hp, z1, z2, z3, z4]

theorem slotsZero1 {st : Spec.State} {te te1 : TermEnc} {w : Option WTerm}
    (hn : st.names.lastReused = te.names.lastReused) (hp : st.prefixes.lastReused = te.prefixes.lastReused)
    (z1 : ∀ c, Spec.optZeroAudit te.names.lastReused te.prefixes.lastReused c w
      = (te1.names.lastReused, te1.prefixes.lastReused, c)) :
    Spec.slotsZeroAudit st [w] = 0 := by
  simp only [Spec.slotsZeroAudit, List.foldl, hn, hp, z1]

/-- One `encodeTriple` call (TRIPLES stream, or inside an open graph of a GRAPHS stream): nothing is
    counted, and the "last closed graph" marker is cleared. -/
theorem triple_audit {P : Preset} {T : Keys} (hf : TFits P T) {es : EncState} {ss : Spec.State}
    (ia : InvA P es ss) {o : Options} (hopt : ss.opts = some o)
    (hph : o.physicalType = 1 ∨ (o.physicalType = 3 ∧ ∃ gn, ss.graph = some gn))
    (exc : PyErr) (s p ob : Term)
    (hs : s.WF = true) (hp : p.WF = true) (hob : ob.WF = true)
    (ks : (termKeys (P.maxPrefixes != 0) s).sub T) (kp : (termKeys (P.maxPrefixes != 0) p).sub T)
    (ko : (termKeys (P.maxPrefixes != 0) ob).sub T)
    (ns : s.norm = s) (np : p.norm = p) (no : ob.norm = ob) :
    ∃ es' rows ss', encodeTriple exc es [s, p, ob] = (es', .ok rows) ∧ InvA P es' ss' ∧
      ss'.opts = some o ∧ ss'.graph = ss.graph ∧
      ∀ lc a rest, Spec.runAudit ss lc a (rows ++ rest) = Spec.runAudit ss' none a rest := by
  have inv := ia.inv
  obtain ⟨te1, te2, te3, r1, r2, r3, ws, wp, wo, R3, e1, e2, e3, sim, res⟩ :=
    spoSlots_sim hf (inv.wft.tinv T) es.rep s p ob hs hp hob ks kp ko
  have w0 : WInv es.te.startRow := inv.wft.startRow.winv hf.posn
  obtain ⟨g1, f1⟩ := encSlot_good (spo_good s) w0 e1
  obtain ⟨g2, f2⟩ := encSlot_good (spo_good p) g1.inv e2
  obtain ⟨g3, f3⟩ := encSlot_good (spo_good ob) g2.inv e3
  have hopts : ss.opts ≠ none := by rw [hopt]; simp
  obtain ⟨ssE, mE, fE, runE⟩ := sim.ing ss inv.em.startRow hopts
  obtain ⟨ssA, xA, fA, runA, audA⟩ := ((g1.ing.trans g2.ing).trans g3.ing) ss ia.xm.startRow hopts
  have hEA : ssA = ssE := run_final_unique runA runE
  subst hEA
  have hself : setLR ssA es.te.startRow = ssA :=
    setLR_eq_self (fE.lrn.trans inv.lrn) (fE.lrp.trans inv.lrp) (fE.lrd.trans inv.lrd)
  have hres := res ssA (mE.agree sim.inv.wft R3) (fE.rep ▸ inv.rs) (fE.rep ▸ inv.rp) (fE.rep ▸ inv.ro)
  rw [hself] at hres
  have hoE : ssA.opts = some o := fE.opts.trans hopt
  have hstep : ∃ ev, Spec.step ssA (Row.triple ws wp wo)
      = .ok (setLR { ssA with rep := { ssA.rep with s := some s.norm, p := some p.norm, o := some ob.norm } } te3,
             ev) := by
    rcases hph with h1 | ⟨h3, gn, hgr⟩
    · have h1b : (o.physicalType == 1) = true := by simp [h1]
      exact ⟨some (Event.stmt [s.norm, p.norm, ob.norm]),
        by simp only [Spec.step, hoE, h1b, if_true, hres, bind, Except.bind, pure, Except.pure]⟩
    · have hgE : ssA.graph = some gn := fE.graph.trans hgr
      have h1b : (o.physicalType == 1) = false := by simp [h3]
      have h3b : (o.physicalType == 3) = true := by simp [h3]
      refine ⟨some (Event.stmt [s.norm, p.norm, ob.norm, gn]), ?_⟩
      simp only [Spec.step, hoE, h1b, h3b, if_true, hgE, hres, bind, Except.bind, pure, Except.pure]
      simp
  obtain ⟨ev, hstep⟩ := hstep
  refine ⟨{ te := te3.endRow, rep := { es.rep with s := some s, p := some p, o := some ob } },
    r1 ++ r2 ++ r3 ++ [Row.triple ws wp wo],
    setLR { ssA with rep := { ssA.rep with s := some s.norm, p := some p.norm, o := some ob.norm } } te3,
    ?_, ⟨?_, ?_, ?_⟩, hoE, fE.graph, ?_⟩
  · simp only [encodeTriple_eq inv.nb, encodeTripleBody, e1, e2, e3]
  · exact ⟨sim.inv.wft.endRow, (mE.setLR_rep te3 _).endRow, rfl, rfl, rfl, rfl, rfl, rfl, by
      show ssA.rep.g = es.rep.g.map Term.norm
      rw [fE.rep]; exact inv.rg, rfl⟩
  · exact (xA.setLR_rep te3 _).endRow
  · exact ⟨by show some s.norm = some s; rw [ns], by show some p.norm = some p; rw [np],
      by show some ob.norm = some ob; rw [no], ia.rn.2.2.2⟩
  · intro lc a rest
    have hrs : ssA.rep.s = es.rep.s := by rw [fE.rep, inv.rs, ia.rn.1]
    have hrp : ssA.rep.p = es.rep.p := by rw [fE.rep, inv.rp, ia.rn.2.1]
    have hro : ssA.rep.o = es.rep.o := by rw [fE.rep, inv.ro, ia.rn.2.2.1]
    have b1 := flag_false (x := ssA.rep.s) (y := some s.norm) f1 hrs (by rw [ns])
    have b2 := flag_false (x := ssA.rep.p) (y := some p.norm) f2 hrp (by rw [np])
    have b3 := flag_false (x := ssA.rep.o) (y := some ob.norm) f3 hro (by rw [no])
    have hz := slotsZero3 (st := ssA) (fE.lrn.trans inv.lrn) (fE.lrp.trans inv.lrp) g1.zero g2.zero g3.zero
    rw [List.append_assoc, audA, List.singleton_append]
    simp only [Spec.runAudit, hstep, Spec.auditRow, hz]
    have b1' : (ws.isSome && ssA.rep.s == (setLR { ssA with rep := { ssA.rep with s := some s.norm, p := some p.norm, o := some ob.norm } } te3).rep.s) = false := b1
    have b2' : (wp.isSome && ssA.rep.p == (setLR { ssA with rep := { ssA.rep with s := some s.norm, p := some p.norm, o := some ob.norm } } te3).rep.p) = false := b2
    have b3' : (wo.isSome && ssA.rep.o == (setLR { ssA with rep := { ssA.rep with s := some s.norm, p := some p.norm, o := some ob.norm } } te3).rep.o) = false := b3
    rw [b1', b2', b3']
    rfl

/-- One `encodeQuad` call (QUADS stream): nothing is counted. -/
theorem quad_audit {P : Preset} {T : Keys} (hf : TFits P T) {es : EncState} {ss : Spec.State}
    (ia : InvA P es ss) {o : Options} (hopt : ss.opts = some o) (h2 : o.physicalType = 2)
    (exc : PyErr) (s p ob g : Term)
    (hs : s.WF = true) (hp : p.WF = true) (hob : ob.WF = true) (hg : g.WFGraph = true)
    (ks : (termKeys (P.maxPrefixes != 0) s).sub T) (kp : (termKeys (P.maxPrefixes != 0) p).sub T)
    (ko : (termKeys (P.maxPrefixes != 0) ob).sub T) (kg : (termKeys (P.maxPrefixes != 0) g).sub T)
    (ns : s.norm = s) (np : p.norm = p) (no : ob.norm = ob) (ng : g.norm = g) :
    ∃ es' rows ss', encodeQuad exc es [s, p, ob, g] = (es', .ok rows) ∧ InvA P es' ss' ∧
      ss'.opts = some o ∧ ss'.graph = ss.graph ∧
      ∀ lc a rest, Spec.runAudit ss lc a (rows ++ rest) = Spec.runAudit ss' lc a rest := by
  have inv := ia.inv
  obtain ⟨te1, te2, te3, r1, r2, r3, ws, wp, wo, R3, e1, e2, e3, sim3, res⟩ :=
    spoSlots_sim hf (inv.wft.tinv T) es.rep s p ob hs hp hob ks kp ko
  obtain ⟨te4, r4, wg, R4, e4, s4, res4⟩ :=
    encSlot_sim sim3.inv es.rep.g g (graph_sim hf g te3 R3 hg sim3.inv kg)
  have sim := sim3.trans s4
  have w0 : WInv es.te.startRow := inv.wft.startRow.winv hf.posn
  obtain ⟨g1, f1⟩ := encSlot_good (spo_good s) w0 e1
  obtain ⟨g2, f2⟩ := encSlot_good (spo_good p) g1.inv e2
  obtain ⟨g3, f3⟩ := encSlot_good (spo_good ob) g2.inv e3
  obtain ⟨g4, f4⟩ := encSlot_good (graph_good g) g3.inv e4
  have hopts : ss.opts ≠ none := by rw [hopt]; simp
  obtain ⟨ssE, mE, fE, runE⟩ := sim.ing ss inv.em.startRow hopts
  obtain ⟨ssA, xA, fA, runA, audA⟩ :=
    (((g1.ing.trans g2.ing).trans g3.ing).trans g4.ing) ss ia.xm.startRow hopts
  have hEA : ssA = ssE := run_final_unique runA runE
  subst hEA
  have hself : setLR ssA es.te.startRow = ssA :=
    setLR_eq_self (fE.lrn.trans inv.lrn) (fE.lrp.trans inv.lrp) (fE.lrd.trans inv.lrd)
  have ha4 : AgreeT R4 te4 ssA := mE.agree sim.inv.wft R4
  have ha3 : AgreeT R3 te3 ssA := ha4.mono s4.pres s4.sub
  have hres := res ssA ha3 (fE.rep ▸ inv.rs) (fE.rep ▸ inv.rp) (fE.rep ▸ inv.ro)
  rw [hself] at hres
  have hres4 := res4 { ssA with rep := { ssA.rep with s := some s.norm, p := some p.norm, o := some ob.norm } }
    ssA.rep.g (by rw [fE.rep]; exact inv.rg) ha4
  have hoE : ssA.opts = some o := fE.opts.trans hopt
  have h2b : (o.physicalType == 2) = true := by simp [h2]
  have hstep : Spec.step ssA (Row.quad ws wp wo wg)
      = .ok ({ (setLR { ssA with rep := { ssA.rep with s := some s.norm, p := some p.norm, o := some ob.norm } } te4)
                with rep := { s := some s.norm, p := some p.norm, o := some ob.norm, g := some g.norm } },
             some (Event.stmt [s.norm, p.norm, ob.norm, g.norm])) := by
    have hres4' : Spec.resolveSlot true
        (setLR { ssA with rep := { ssA.rep with s := some s.norm, p := some p.norm, o := some ob.norm } } te3)
        (setLR { ssA with rep := { ssA.rep with s := some s.norm, p := some p.norm, o := some ob.norm } } te3).rep.g
        wg = .ok (setLR { ssA with rep := { ssA.rep with s := some s.norm, p := some p.norm, o := some ob.norm } } te4,
                  g.norm) := hres4
    simp only [hoE] at hres4'
    simp only [Spec.step, hoE, h2b, if_true, hres, hres4', bind, Except.bind, pure, Except.pure]
    rfl
  refine ⟨{ te := te4.endRow, rep := { s := some s, p := some p, o := some ob, g := some g } },
    r1 ++ r2 ++ r3 ++ r4 ++ [Row.quad ws wp wo wg],
    { (setLR { ssA with rep := { ssA.rep with s := some s.norm, p := some p.norm, o := some ob.norm } } te4)
        with rep := { s := some s.norm, p := some p.norm, o := some ob.norm, g := some g.norm } },
    ?_, ⟨?_, ?_, ?_⟩, hoE, fE.graph, ?_⟩
  · simp only [encodeQuad_eq inv.nb, encodeQuadBody, e1, e2, e3, e4]
  · exact ⟨sim.inv.wft.endRow, EM.endRow (te := te4) (mE.congr ⟨rfl, rfl, rfl⟩ ⟨rfl, rfl, rfl⟩ ⟨rfl, rfl, rfl⟩),
      rfl, rfl, rfl, rfl, rfl, rfl, rfl, rfl⟩
  · exact XM.endRow (te := te4) ⟨xA.n.lr _, xA.p.lr _, xA.d.lr _⟩
  · exact ⟨by show some s.norm = some s; rw [ns], by show some p.norm = some p; rw [np],
      by show some ob.norm = some ob; rw [no], by show some g.norm = some g; rw [ng]⟩
  · intro lc a rest
    have hrs : ssA.rep.s = es.rep.s := by rw [fE.rep, inv.rs, ia.rn.1]
    have hrp : ssA.rep.p = es.rep.p := by rw [fE.rep, inv.rp, ia.rn.2.1]
    have hro : ssA.rep.o = es.rep.o := by rw [fE.rep, inv.ro, ia.rn.2.2.1]
    have hrg : ssA.rep.g = es.rep.g := by rw [fE.rep, inv.rg, ia.rn.2.2.2]
    have b1 := flag_false (x := ssA.rep.s) (y := some s.norm) f1 hrs (by rw [ns])
    have b2 := flag_false (x := ssA.rep.p) (y := some p.norm) f2 hrp (by rw [np])
    have b3 := flag_false (x := ssA.rep.o) (y := some ob.norm) f3 hro (by rw [no])
    have b4 := flag_false (x := ssA.rep.g) (y := some g.norm) f4 hrg (by rw [ng])
    have hz := slotsZero4 (st := ssA) (fE.lrn.trans inv.lrn) (fE.lrp.trans inv.lrp)
      g1.zero g2.zero g3.zero g4.zero
    rw [List.append_assoc, audA, List.singleton_append]
    simp only [Spec.runAudit, hstep, Spec.auditRow, hz, b1, b2, b3, b4]
    rfl

/-- The entry rows of a graph name followed by the graph-start row: nothing is counted provided the
    graph closed last (if any) has a different name. -/
theorem graphStart_audit {P : Preset} {T : Keys} (hf : TFits P T) {es : EncState} {ss : Spec.State}
    (ia : InvA P es ss) {o : Options} (hopt : ss.opts = some o) (h3 : o.physicalType = 3)
    (g : Term) (hg : g.WFGraph = true) (kg : (termKeys (P.maxPrefixes != 0) g).sub T) :
    ∃ te' rows w ss', es.te.startRow.graph g = (te', .ok (rows, w)) ∧ InvA P { es with te := te'.endRow } ss' ∧
      ss'.opts = some o ∧ ss'.graph = some g.norm ∧
      ∀ lc a rest, lc ≠ some g.norm →
        Spec.runAudit ss lc a (rows ++ [Row.graphStart (some w)] ++ rest) = Spec.runAudit ss' none a rest := by
  have inv := ia.inv
  obtain ⟨te', rows, w, R', heq, sim, res⟩ := graph_sim hf g es.te.startRow {} hg (inv.wft.tinv T) kg
  have w0 : WInv es.te.startRow := inv.wft.startRow.winv hf.posn
  have g1 := graph_good g es.te.startRow te' rows w w0 heq
  have hopts : ss.opts ≠ none := by rw [hopt]; simp
  obtain ⟨ssE, mE, fE, runE⟩ := sim.ing ss inv.em.startRow hopts
  obtain ⟨ssA, xA, fA, runA, audA⟩ := g1.ing ss ia.xm.startRow hopts
  have hEA : ssA = ssE := run_final_unique runA runE
  subst hEA
  have hself : setLR ssA es.te.startRow = ssA :=
    setLR_eq_self (fE.lrn.trans inv.lrn) (fE.lrp.trans inv.lrp) (fE.lrd.trans inv.lrd)
  have hres := res ssA (mE.agree sim.inv.wft R')
  rw [hself] at hres
  have hoE : ssA.opts = some o := fE.opts.trans hopt
  have h3b : (o.physicalType == 3) = true := by simp [h3]
  have hstep : Spec.step ssA (Row.graphStart (some w))
      = .ok ({ (setLR ssA te') with graph := some g.norm }, none) := by
    simp only [Spec.step, hoE, h3b, if_true, hres, bind, Except.bind, pure, Except.pure]
  refine ⟨te', rows, w, { (setLR ssA te') with graph := some g.norm }, heq, ⟨?_, ?_, ia.rn⟩, hoE, rfl, ?_⟩
  · exact ⟨sim.inv.wft.endRow, EM.endRow (te := te') (mE.congr ⟨rfl, rfl, rfl⟩ ⟨rfl, rfl, rfl⟩ ⟨rfl, rfl, rfl⟩),
      rfl, rfl, rfl,
      by show ssA.rep.s = _; rw [fE.rep]; exact inv.rs,
      by show ssA.rep.p = _; rw [fE.rep]; exact inv.rp,
      by show ssA.rep.o = _; rw [fE.rep]; exact inv.ro,
      by show ssA.rep.g = _; rw [fE.rep]; exact inv.rg, rfl⟩
  · exact XM.endRow (te := te') ⟨xA.n.lr _, xA.p.lr _, xA.d.lr _⟩
  · intro lc a rest hlc
    have hz := slotsZero1 (st := ssA) (fE.lrn.trans inv.lrn) (fE.lrp.trans inv.lrp) g1.zero
    have hne : (some g.norm == lc) = false := by
      simpa using fun h : some g.norm = lc => hlc h.symm
    rw [List.append_assoc, audA, List.singleton_append]
    simp only [Spec.runAudit, hstep, Spec.auditRow, hz, Option.isSome_some, Bool.true_and, hne]
    rfl

theorem graphEnd_audit {es : EncState} {P : Preset} {ss : Spec.State}
    (ia : InvA P es ss) {o : Options} (hopt : ss.opts = some o) (h3 : o.physicalType = 3)
    {gn : Term} (hgr : ss.graph = some gn) :
    InvA P es { ss with graph := none } ∧
      ∀ lc a rest, Spec.runAudit ss lc a (Row.graphEnd :: rest)
        = Spec.runAudit { ss with graph := none } (some gn) a rest := by
  refine ⟨⟨ia.inv.graph none, ⟨ia.xm.n, ia.xm.p, ia.xm.d⟩, ia.rn⟩, ?_⟩
  intro lc a rest
  have h3b : (o.physicalType == 3) = true := by simp [h3]
  have hstep : Spec.step ss Row.graphEnd = .ok ({ ss with graph := none }, none) := by
    simp only [Spec.step, hopt, h3b, if_true, hgr]
  simp only [Spec.runAudit, hstep, Spec.auditRow, hgr]

end Jelly

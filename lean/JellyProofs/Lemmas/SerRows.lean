import JellyModel.SerGeneric
import JellyModel.Trace
/-!
# Row bookkeeping of the generic serializer

Reusable facts about `Flow`, `Stream` and the loops of `SerGeneric.lean`:

* every `Flow.*frame*` function is an optional flush (`Flow.IsCut`);
* every stream operation keeps class, options, logical type, flow kind and frame size
  (`Stream.Keeps`);
* the rows handed out do not depend on the flow (`FlowSim`, `PSim`, `RunSim`, `streamFrames_runSim`);
* frames are never empty (`streamFrames_frames_ne_nil`);
* structure lemmas for `stmtLoop`, `graphsLoop`, `epilogue`.
-/
namespace Jelly

/-! ## Flow: every frame function is an optional flush -/

/-- `x` is the result of an optional flush of the flow `f`: either nothing happened, or all the
    (non-empty) rows were moved into one frame. -/
def Flow.IsCut (f : Flow) (x : Flow × Option Frame) : Prop :=
  x = (f, none) ∨ (f.rows ≠ [] ∧ x = ({ f with rows := [] }, some { rows := f.rows }))

theorem Flow.IsCut.none (f : Flow) : f.IsCut (f, none) := Or.inl rfl

theorem Flow.toStreamFrame_isCut (f : Flow) : f.IsCut f.toStreamFrame := by
  unfold Flow.toStreamFrame Flow.IsCut
  cases h : f.rows <;> simp

theorem Flow.frameFromBounds_isCut (f : Flow) : f.IsCut f.frameFromBounds := by
  unfold Flow.frameFromBounds
  split
  · exact f.toStreamFrame_isCut
  · exact .none f

theorem Flow.frameFromGraph_isCut (f : Flow) : f.IsCut f.frameFromGraph := by
  unfold Flow.frameFromGraph
  split
  · exact f.toStreamFrame_isCut
  · exact .none f

theorem Flow.frameFromDataset_isCut (f : Flow) : f.IsCut f.frameFromDataset := by
  unfold Flow.frameFromDataset
  split
  · exact f.toStreamFrame_isCut
  · exact .none f

namespace Flow.IsCut
variable {f : Flow} {x : Flow × Option Frame}

theorem kind (h : f.IsCut x) : x.1.kind = f.kind := by
  rcases h with rfl | ⟨_, rfl⟩ <;> rfl

theorem frameSize (h : f.IsCut x) : x.1.frameSize = f.frameSize := by
  rcases h with rfl | ⟨_, rfl⟩ <;> rfl

theorem logicalType (h : f.IsCut x) : x.1.logicalType = f.logicalType := by
  rcases h with rfl | ⟨_, rfl⟩ <;> rfl

/-- A flush only moves rows: frame rows followed by what stays equals what was there. -/
theorem rows (h : f.IsCut x) : x.2.toList.flatMap (·.rows) ++ x.1.rows = f.rows := by
  rcases h with rfl | ⟨_, rfl⟩ <;> simp

theorem ne_nil (h : f.IsCut x) : ∀ fr ∈ x.2.toList, fr.rows ≠ [] := by
  rcases h with rfl | ⟨hne, rfl⟩
  · simp
  · simpa using hne

theorem length_le (h : f.IsCut x) : x.1.rows.length ≤ f.rows.length := by
  rcases h with rfl | ⟨_, rfl⟩ <;> simp

theorem length_toList_le (h : f.IsCut x) : x.2.toList.length ≤ 1 := by
  rcases h with rfl | ⟨_, rfl⟩ <;> simp

/-- After a flush that produced a frame nothing is pending. -/
theorem rows_of_some (h : f.IsCut x) {fr : Frame} (hx : x.2 = some fr) : x.1.rows = [] ∧ fr.rows = f.rows := by
  rcases h with rfl | ⟨_, rfl⟩
  · simp at hx
  · simp at hx; subst hx; simp

end Flow.IsCut

theorem Flow.toStreamFrame_rows (f : Flow) : f.toStreamFrame.1.rows = [] := by
  unfold Flow.toStreamFrame
  cases h : f.rows <;> simp [h]

/-- A bounded flow with a positive frame size keeps fewer than `frameSize` rows pending. -/
theorem Flow.frameFromBounds_pending (f : Flow) (hb : f.kind.isBounded = true) (hfs : 0 < f.frameSize) :
    f.frameFromBounds.1.rows.length < f.frameSize := by
  unfold Flow.frameFromBounds
  split
  · rw [f.toStreamFrame_rows]; exact hfs
  · rename_i h
    simp [hb] at h
    exact h

/-! ## Streams: what is kept, and similarity up to the flow -/

/-- What no serializer operation ever changes. -/
structure Stream.Keeps (s s' : Stream) : Prop where
  cls : s'.cls = s.cls
  opts : s'.opts = s.opts
  logicalType : s'.logicalType = s.logicalType
  kind : s'.flow.kind = s.flow.kind
  frameSize : s'.flow.frameSize = s.flow.frameSize

theorem Stream.Keeps.refl (s : Stream) : s.Keeps s := ⟨rfl, rfl, rfl, rfl, rfl⟩

theorem Stream.Keeps.trans {a b c : Stream} (h₁ : a.Keeps b) (h₂ : b.Keeps c) : a.Keeps c :=
  ⟨h₂.cls.trans h₁.cls, h₂.opts.trans h₁.opts, h₂.logicalType.trans h₁.logicalType,
   h₂.kind.trans h₁.kind, h₂.frameSize.trans h₁.frameSize⟩

/-- Two streams that differ at most in their flow. -/
def FlowSim (s₁ s₂ : Stream) : Prop :=
  s₁.cls = s₂.cls ∧ s₁.opts = s₂.opts ∧ s₁.enc = s₂.enc ∧ s₁.enrolled = s₂.enrolled ∧
    s₁.logicalType = s₂.logicalType

theorem FlowSim.refl (s : Stream) : FlowSim s s := ⟨rfl, rfl, rfl, rfl, rfl⟩

/-- Two streams that differ at most in their flow and that, together with the rows `A₁` / `A₂`
    already handed out, have seen the same row sequence. -/
def PSim (A₁ : List Row) (s₁ : Stream) (A₂ : List Row) (s₂ : Stream) : Prop :=
  FlowSim s₁ s₂ ∧ A₁ ++ s₁.flow.rows = A₂ ++ s₂.flow.rows

theorem PSim.sim {A₁ A₂ s₁ s₂} (h : PSim A₁ s₁ A₂ s₂) : FlowSim s₁ s₂ := h.1

theorem PSim.pushRows {A₁ A₂ s₁ s₂} (h : PSim A₁ s₁ A₂ s₂) (rows : List Row) :
    PSim A₁ (s₁.pushRows rows) A₂ (s₂.pushRows rows) := by
  obtain ⟨hs, hr⟩ := h
  refine ⟨hs, ?_⟩
  simp only [Stream.pushRows, ← List.append_assoc, hr]

theorem PSim.cut {A₁ A₂ s₁ s₂} (h : PSim A₁ s₁ A₂ s₂) {x₁ x₂ : Flow × Option Frame}
    (h₁ : s₁.flow.IsCut x₁) (h₂ : s₂.flow.IsCut x₂) :
    PSim (A₁ ++ x₁.2.toList.flatMap (·.rows)) { s₁ with flow := x₁.1 }
         (A₂ ++ x₂.2.toList.flatMap (·.rows)) { s₂ with flow := x₂.1 } := by
  obtain ⟨hs, hr⟩ := h
  refine ⟨hs, ?_⟩
  simp only [List.append_assoc, h₁.rows, h₂.rows, hr]

theorem PSim.withEnc {A₁ A₂ s₁ s₂} (h : PSim A₁ s₁ A₂ s₂) (e : EncState) :
    PSim A₁ { s₁ with enc := e } A₂ { s₂ with enc := e } := by
  obtain ⟨⟨h1, h2, _, h4, h5⟩, hr⟩ := h
  exact ⟨⟨h1, h2, rfl, h4, h5⟩, hr⟩

theorem Stream.pushRows_keeps (s : Stream) (rows : List Row) : s.Keeps (s.pushRows rows) :=
  ⟨rfl, rfl, rfl, rfl, rfl⟩

theorem Stream.withEnc_keeps (s : Stream) (e : EncState) : s.Keeps { s with enc := e } :=
  ⟨rfl, rfl, rfl, rfl, rfl⟩

theorem Stream.cut_keeps (s : Stream) {x : Flow × Option Frame} (h : s.flow.IsCut x) :
    s.Keeps { s with flow := x.1 } :=
  ⟨rfl, rfl, rfl, h.kind, h.frameSize⟩

/-- The error (if any) of a result. -/
def resErr {α : Type} : Except PyErr α → Option PyErr
  | .ok _ => none
  | .error e => some e

/-- The frames of a step result. -/
def resFrames : Except PyErr (Option Frame) → List Frame
  | .ok f => f.toList
  | .error _ => []

@[simp] theorem resErr_ok {α : Type} (a : α) : resErr (.ok a : Except PyErr α) = none := rfl
@[simp] theorem resErr_error {α : Type} (e : PyErr) : resErr (.error e : Except PyErr α) = some e := rfl
@[simp] theorem resFrames_ok (f : Option Frame) : resFrames (.ok f) = f.toList := rfl
@[simp] theorem resFrames_error (e : PyErr) : resFrames (.error e) = [] := rfl

/-! ### `emit`: append rows, then `frame_from_bounds` (the tail of `triple`, `quad`, `graph`) -/

def Stream.emit (s : Stream) (rows : List Row) : Stream × Option Frame :=
  ({ s.pushRows rows with flow := (s.pushRows rows).flow.frameFromBounds.1 },
   (s.pushRows rows).flow.frameFromBounds.2)

theorem Stream.emit_keeps (s : Stream) (rows : List Row) : s.Keeps (s.emit rows).1 :=
  (s.pushRows_keeps rows).trans (Stream.cut_keeps _ (Flow.frameFromBounds_isCut _))

theorem Stream.emit_enc (s : Stream) (rows : List Row) : (s.emit rows).1.enc = s.enc := rfl

theorem Stream.emit_ne_nil (s : Stream) (rows : List Row) : ∀ f ∈ (s.emit rows).2.toList, f.rows ≠ [] :=
  (Flow.frameFromBounds_isCut _).ne_nil

theorem Stream.emit_rows (s : Stream) (rows : List Row) :
    (s.emit rows).2.toList.flatMap (·.rows) ++ (s.emit rows).1.flow.rows = s.flow.rows ++ rows :=
  (Flow.frameFromBounds_isCut _).rows

theorem Stream.emit_pending (s : Stream) (rows : List Row) (hb : s.flow.kind.isBounded = true)
    (hfs : 0 < s.flow.frameSize) : (s.emit rows).1.flow.rows.length < s.flow.frameSize :=
  Flow.frameFromBounds_pending (s.pushRows rows).flow hb hfs

theorem PSim.emit {A₁ A₂ s₁ s₂} (h : PSim A₁ s₁ A₂ s₂) (rows : List Row) :
    PSim (A₁ ++ (s₁.emit rows).2.toList.flatMap (·.rows)) (s₁.emit rows).1
         (A₂ ++ (s₂.emit rows).2.toList.flatMap (·.rows)) (s₂.emit rows).1 :=
  (h.pushRows rows).cut (Flow.frameFromBounds_isCut _) (Flow.frameFromBounds_isCut _)

theorem Stream.triple_eq (exc : PyErr) (s : Stream) (t : List Term) :
    s.triple exc t =
      match encodeTriple exc s.enc t with
      | (enc', .error e) => ({ s with enc := enc' }, .error e)
      | (enc', .ok rows) => ((({ s with enc := enc' } : Stream).emit rows).1,
                             .ok (({ s with enc := enc' } : Stream).emit rows).2) := by
  unfold Stream.triple
  rcases encodeTriple exc s.enc t with ⟨enc', _ | _⟩ <;> rfl

theorem Stream.quad_eq (exc : PyErr) (s : Stream) (t : List Term) :
    s.quad exc t =
      match encodeQuad exc s.enc t with
      | (enc', .error e) => ({ s with enc := enc' }, .error e)
      | (enc', .ok rows) => ((({ s with enc := enc' } : Stream).emit rows).1,
                             .ok (({ s with enc := enc' } : Stream).emit rows).2) := by
  unfold Stream.quad
  rcases encodeQuad exc s.enc t with ⟨enc', _ | _⟩ <;> rfl

/-! ## Statement steps (`Stream.triple`, `Stream.quad`) -/

/-- Everything the loops need to know about a statement step. -/
structure GoodStep (step : Stream → List Term → Res Stream (Option Frame)) : Prop where
  keeps : ∀ (s : Stream) (t : List Term), s.Keeps (step s t).1
  ne_nil : ∀ (s : Stream) (t : List Term), ∀ f ∈ resFrames (step s t).2, f.rows ≠ []
  psim : ∀ {A₁ : List Row} {s₁ : Stream} {A₂ : List Row} {s₂ : Stream} (t : List Term), PSim A₁ s₁ A₂ s₂ →
    PSim (A₁ ++ (resFrames (step s₁ t).2).flatMap (·.rows)) (step s₁ t).1
         (A₂ ++ (resFrames (step s₂ t).2).flatMap (·.rows)) (step s₂ t).1 ∧
    resErr (step s₁ t).2 = resErr (step s₂ t).2
  pending : ∀ (s : Stream) (t : List Term), s.flow.kind.isBounded = true → 0 < s.flow.frameSize →
    resErr (step s t).2 = none → (step s t).1.flow.rows.length < s.flow.frameSize

theorem Stream.triple_good (exc : PyErr) : GoodStep (Stream.triple exc) where
  keeps s t := by
    rw [Stream.triple_eq]
    rcases encodeTriple exc s.enc t with ⟨enc', e | rows⟩
    · exact s.withEnc_keeps enc'
    · exact (s.withEnc_keeps enc').trans (Stream.emit_keeps _ rows)
  ne_nil s t := by
    rw [Stream.triple_eq]
    rcases encodeTriple exc s.enc t with ⟨enc', e | rows⟩
    · simp
    · exact Stream.emit_ne_nil _ rows
  psim {A₁ s₁ A₂ s₂} t h := by
    rw [Stream.triple_eq, Stream.triple_eq, h.sim.2.2.1]
    rcases encodeTriple exc s₂.enc t with ⟨enc', e | rows⟩
    · simpa using h.withEnc enc'
    · exact ⟨(h.withEnc enc').emit rows, rfl⟩
  pending s t hb hfs := by
    rw [Stream.triple_eq]
    rcases encodeTriple exc s.enc t with ⟨enc', e | rows⟩
    · simp
    · intro _
      exact Stream.emit_pending { s with enc := enc' } rows hb hfs

theorem Stream.quad_good (exc : PyErr) : GoodStep (Stream.quad exc) where
  keeps s t := by
    rw [Stream.quad_eq]
    rcases encodeQuad exc s.enc t with ⟨enc', e | rows⟩
    · exact s.withEnc_keeps enc'
    · exact (s.withEnc_keeps enc').trans (Stream.emit_keeps _ rows)
  ne_nil s t := by
    rw [Stream.quad_eq]
    rcases encodeQuad exc s.enc t with ⟨enc', e | rows⟩
    · simp
    · exact Stream.emit_ne_nil _ rows
  psim {A₁ s₁ A₂ s₂} t h := by
    rw [Stream.quad_eq, Stream.quad_eq, h.sim.2.2.1]
    rcases encodeQuad exc s₂.enc t with ⟨enc', e | rows⟩
    · simpa using h.withEnc enc'
    · exact ⟨(h.withEnc enc').emit rows, rfl⟩
  pending s t hb hfs := by
    rw [Stream.quad_eq]
    rcases encodeQuad exc s.enc t with ⟨enc', e | rows⟩
    · simp
    · intro _
      exact Stream.emit_pending { s with enc := enc' } rows hb hfs

/-! ## Runs -/

/-- Two runs that have produced the same row sequence (frames concatenated, then the flow), whose
    streams differ at most in the flow, and that have the same outcome. -/
def RunSim (r₁ r₂ : Run) : Prop :=
  PSim (r₁.frames.flatMap (·.rows)) r₁.stream (r₂.frames.flatMap (·.rows)) r₂.stream ∧ r₁.err = r₂.err

/-- No frame of the run is empty. -/
def Run.NoEmpty (r : Run) : Prop := ∀ f ∈ r.frames, f.rows ≠ []

theorem Run.NoEmpty.init (s : Stream) (e : Option PyErr) : Run.NoEmpty { stream := s, err := e } := by
  intro f hf; simp at hf

theorem Run.NoEmpty.append {r : Run} (h : r.NoEmpty) {fs : List Frame} (hfs : ∀ f ∈ fs, f.rows ≠ [])
    (s : Stream) (e : Option PyErr) : Run.NoEmpty { stream := s, frames := r.frames ++ fs, err := e } := by
  intro f hf
  rcases List.mem_append.1 hf with hf | hf
  · exact h f hf
  · exact hfs f hf

theorem Run.NoEmpty.push {r : Run} (h : r.NoEmpty) (s : Stream) {fr : Option Frame}
    (hfr : ∀ f ∈ fr.toList, f.rows ≠ []) : (r.push s fr).NoEmpty :=
  h.append hfr s r.err

@[simp] theorem Run.push_stream (r : Run) (s : Stream) (f : Option Frame) : (r.push s f).stream = s := rfl
@[simp] theorem Run.push_frames (r : Run) (s : Stream) (f : Option Frame) :
    (r.push s f).frames = r.frames ++ f.toList := rfl
@[simp] theorem Run.push_err (r : Run) (s : Stream) (f : Option Frame) : (r.push s f).err = r.err := rfl

/-! ### `stmtLoop` -/

@[simp] theorem stmtLoop_nil (step : Stream → List Term → Res Stream (Option Frame)) (r : Run) :
    stmtLoop step r [] = r := rfl

theorem stmtLoop_cons (step : Stream → List Term → Res Stream (Option Frame)) (r : Run)
    (t : List Term) (ts : List (List Term)) :
    stmtLoop step r (t :: ts) =
      match (step r.stream t).2 with
      | .error e => { r with stream := (step r.stream t).1, err := some e }
      | .ok fr => stmtLoop step (r.push (step r.stream t).1 fr) ts := by
  rw [stmtLoop]
  rcases step r.stream t with ⟨s', e | fr⟩ <;> rfl

theorem stmtLoop_runSim {step : Stream → List Term → Res Stream (Option Frame)} (hs : GoodStep step)
    (ts : List (List Term)) {r₁ r₂ : Run} (h : RunSim r₁ r₂) :
    RunSim (stmtLoop step r₁ ts) (stmtLoop step r₂ ts) := by
  induction ts generalizing r₁ r₂ with
  | nil => exact h
  | cons t ts ih =>
    obtain ⟨hp, he⟩ := hs.psim t h.1
    rw [stmtLoop_cons, stmtLoop_cons]
    rcases h1 : step r₁.stream t with ⟨s₁', e₁ | f₁⟩ <;> rcases h2 : step r₂.stream t with ⟨s₂', e₂ | f₂⟩ <;>
      simp only [h1, h2, resErr_ok, resErr_error, resFrames_ok, resFrames_error, reduceCtorEq,
        Option.some.injEq, List.flatMap_nil, List.append_nil] at hp he
    · subst he
      exact ⟨hp, rfl⟩
    · apply ih
      refine ⟨?_, h.2⟩
      simpa [List.flatMap_append] using hp

theorem stmtLoop_noEmpty {step : Stream → List Term → Res Stream (Option Frame)} (hs : GoodStep step)
    (ts : List (List Term)) {r : Run} (h : r.NoEmpty) : (stmtLoop step r ts).NoEmpty := by
  induction ts generalizing r with
  | nil => exact h
  | cons t ts ih =>
    have hn := hs.ne_nil r.stream t
    rw [stmtLoop_cons]
    generalize step r.stream t = x at hn ⊢
    rcases x with ⟨s', e | fr⟩
    · exact h
    · exact ih (h.push s' hn)

theorem stmtLoop_keeps {step : Stream → List Term → Res Stream (Option Frame)} (hs : GoodStep step)
    (ts : List (List Term)) (r : Run) : r.stream.Keeps (stmtLoop step r ts).stream := by
  induction ts generalizing r with
  | nil => exact .refl _
  | cons t ts ih =>
    have hk := hs.keeps r.stream t
    rw [stmtLoop_cons]
    generalize step r.stream t = x at hk ⊢
    rcases x with ⟨s', e | fr⟩
    · exact hk
    · exact hk.trans (ih (r.push s' fr))

/-! ## Prologue: `enroll`, namespace declarations -/

theorem Stream.enroll_keeps (s : Stream) : s.Keeps s.enroll := by
  unfold Stream.enroll
  split
  · exact .refl s
  · exact ⟨rfl, rfl, rfl, rfl, rfl⟩

theorem Stream.enroll_enc (s : Stream) : s.enroll.enc = s.enc := by
  unfold Stream.enroll
  split <;> rfl

theorem Stream.enroll_enrolled (s : Stream) : s.enroll.enrolled = true := by
  unfold Stream.enroll
  split
  · assumption
  · rfl

theorem Stream.optionsRow_congr {s₁ s₂ : Stream} (h : FlowSim s₁ s₂) : s₁.optionsRow = s₂.optionsRow := by
  obtain ⟨h1, h2, _, _, h5⟩ := h
  simp only [Stream.optionsRow, h1, h2, h5]

theorem PSim.enroll {A₁ A₂ s₁ s₂} (h : PSim A₁ s₁ A₂ s₂) : PSim A₁ s₁.enroll A₂ s₂.enroll := by
  unfold Stream.enroll
  rw [h.sim.2.2.2.1, Stream.optionsRow_congr h.sim]
  split
  · exact h
  · obtain ⟨⟨h1, h2, h3, _, h5⟩, hr⟩ := h.pushRows [s₂.optionsRow]
    exact ⟨⟨h1, h2, h3, rfl, h5⟩, hr⟩

theorem Stream.namespaceDeclaration_eq (s : Stream) (name iri : String) :
    s.namespaceDeclaration name iri =
      match encodeNamespace s.enc.te name iri with
      | (te', .error e) => ({ s with enc := { s.enc with te := te' } }, .error e)
      | (te', .ok rows) => (({ s with enc := { s.enc with te := te' } } : Stream).pushRows rows, .ok ()) := rfl

theorem Stream.namespaceDeclaration_keeps (s : Stream) (name iri : String) :
    s.Keeps (s.namespaceDeclaration name iri).1 := by
  rw [Stream.namespaceDeclaration_eq]
  rcases encodeNamespace s.enc.te name iri with ⟨te', e | rows⟩
  · exact s.withEnc_keeps _
  · exact (s.withEnc_keeps _).trans (Stream.pushRows_keeps _ rows)

theorem PSim.namespaceDeclaration {A₁ A₂ s₁ s₂} (h : PSim A₁ s₁ A₂ s₂) (name iri : String) :
    PSim A₁ (s₁.namespaceDeclaration name iri).1 A₂ (s₂.namespaceDeclaration name iri).1 ∧
    resErr (s₁.namespaceDeclaration name iri).2 = resErr (s₂.namespaceDeclaration name iri).2 := by
  rw [Stream.namespaceDeclaration_eq, Stream.namespaceDeclaration_eq, h.sim.2.2.1]
  rcases encodeNamespace s₂.enc.te name iri with ⟨te', e | rows⟩
  · exact ⟨h.withEnc _, rfl⟩
  · exact ⟨(h.withEnc _).pushRows rows, rfl⟩

theorem nsDeclarations_keeps (s : Stream) (ns : List (String × Term)) : s.Keeps (nsDeclarations s ns).1 := by
  induction ns generalizing s with
  | nil => exact .refl s
  | cons b rest ih =>
    obtain ⟨p, t⟩ := b
    cases t
    case iri i =>
      have hk := s.namespaceDeclaration_keeps p i
      rw [nsDeclarations]
      generalize s.namespaceDeclaration p i = x at hk ⊢
      rcases x with ⟨s', e | u⟩
      · exact hk
      · exact hk.trans (ih s')
    all_goals exact .refl s

theorem PSim.nsDeclarations {A₁ A₂ s₁ s₂} (h : PSim A₁ s₁ A₂ s₂) (ns : List (String × Term)) :
    PSim A₁ (nsDeclarations s₁ ns).1 A₂ (nsDeclarations s₂ ns).1 ∧
    resErr (nsDeclarations s₁ ns).2 = resErr (nsDeclarations s₂ ns).2 := by
  induction ns generalizing s₁ s₂ with
  | nil => exact ⟨h, rfl⟩
  | cons b rest ih =>
    obtain ⟨p, t⟩ := b
    cases t
    case iri i =>
      have hk := h.namespaceDeclaration p i
      rw [Jelly.nsDeclarations, Jelly.nsDeclarations]
      generalize s₁.namespaceDeclaration p i = x₁ at hk ⊢
      generalize s₂.namespaceDeclaration p i = x₂ at hk ⊢
      rcases x₁ with ⟨s₁', e₁ | u₁⟩ <;> rcases x₂ with ⟨s₂', e₂ | u₂⟩ <;>
        simp only [resErr_ok, resErr_error, reduceCtorEq, and_false] at hk
      · exact hk
      · exact ih hk.1
    all_goals exact ⟨h, rfl⟩

theorem prologue_keeps (s : Stream) (d : SerData) : s.Keeps (prologue s d).1 := by
  unfold prologue
  cases d with
  | gen l => exact s.enroll_keeps
  | sink sk =>
    dsimp only
    split
    · exact s.enroll_keeps.trans (nsDeclarations_keeps _ _)
    · exact s.enroll_keeps

theorem PSim.prologue {A₁ A₂ s₁ s₂} (h : PSim A₁ s₁ A₂ s₂) (d : SerData) :
    PSim A₁ (prologue s₁ d).1 A₂ (prologue s₂ d).1 ∧
    resErr (prologue s₁ d).2 = resErr (prologue s₂ d).2 := by
  unfold Jelly.prologue
  cases d with
  | gen l => exact ⟨h.enroll, rfl⟩
  | sink sk =>
    dsimp only
    rw [h.enroll.sim.2.1]
    split
    · exact h.enroll.nsDeclarations _
    · exact ⟨h.enroll, rfl⟩

@[simp] theorem prologue_gen (s : Stream) (l : List (List Term)) : prologue s (.gen l) = (s.enroll, .ok ()) := rfl

/-! ## `GraphStream.graph` -/

theorem Stream.graphTriples_cons (exc : PyErr) (s : Stream) (t : List Term) (ts : List (List Term))
    (acc : List Frame) :
    Stream.graphTriples exc s (t :: ts) acc =
      match (s.triple exc t).2 with
      | .error e => ((s.triple exc t).1, acc, some e)
      | .ok fr => Stream.graphTriples exc (s.triple exc t).1 ts (acc ++ fr.toList) := by
  rw [Stream.graphTriples]
  rcases s.triple exc t with ⟨s', e | fr⟩ <;> rfl

theorem Stream.graphTriples_keeps (exc : PyErr) (s : Stream) (ts : List (List Term)) (acc : List Frame) :
    s.Keeps (Stream.graphTriples exc s ts acc).1 := by
  induction ts generalizing s acc with
  | nil => exact .refl s
  | cons t ts ih =>
    have hk := (Stream.triple_good exc).keeps s t
    rw [Stream.graphTriples_cons]
    generalize s.triple exc t = x at hk ⊢
    rcases x with ⟨s', e | fr⟩
    · exact hk
    · exact hk.trans (ih s' _)

theorem Stream.graphTriples_ne_nil (exc : PyErr) (s : Stream) (ts : List (List Term)) (acc : List Frame)
    (hacc : ∀ f ∈ acc, f.rows ≠ []) : ∀ f ∈ (Stream.graphTriples exc s ts acc).2.1, f.rows ≠ [] := by
  induction ts generalizing s acc with
  | nil => exact hacc
  | cons t ts ih =>
    have hn := (Stream.triple_good exc).ne_nil s t
    rw [Stream.graphTriples_cons]
    generalize s.triple exc t = x at hn ⊢
    rcases x with ⟨s', e | fr⟩
    · exact hacc
    · apply ih
      intro f hf
      rcases List.mem_append.1 hf with hf | hf
      · exact hacc f hf
      · exact hn f hf

theorem PSim.graphTriples {B₁ B₂ s₁ s₂} (exc : PyErr) (ts : List (List Term)) {acc₁ acc₂ : List Frame}
    (h : PSim (B₁ ++ acc₁.flatMap (·.rows)) s₁ (B₂ ++ acc₂.flatMap (·.rows)) s₂) :
    PSim (B₁ ++ (Stream.graphTriples exc s₁ ts acc₁).2.1.flatMap (·.rows)) (Stream.graphTriples exc s₁ ts acc₁).1
         (B₂ ++ (Stream.graphTriples exc s₂ ts acc₂).2.1.flatMap (·.rows)) (Stream.graphTriples exc s₂ ts acc₂).1 ∧
    (Stream.graphTriples exc s₁ ts acc₁).2.2 = (Stream.graphTriples exc s₂ ts acc₂).2.2 := by
  induction ts generalizing s₁ s₂ acc₁ acc₂ with
  | nil => exact ⟨h, rfl⟩
  | cons t ts ih =>
    obtain ⟨hp, he⟩ := (Stream.triple_good exc).psim t h
    rw [Stream.graphTriples_cons, Stream.graphTriples_cons]
    generalize s₁.triple exc t = x₁ at hp he ⊢
    generalize s₂.triple exc t = x₂ at hp he ⊢
    rcases x₁ with ⟨s₁', e₁ | f₁⟩ <;> rcases x₂ with ⟨s₂', e₂ | f₂⟩ <;>
      simp only [resErr_ok, resErr_error, resFrames_ok, resFrames_error, reduceCtorEq,
        Option.some.injEq, List.flatMap_nil, List.append_nil] at hp he
    · subst he
      exact ⟨hp, rfl⟩
    · apply ih
      simpa [List.flatMap_append] using hp

theorem Stream.graph_eq (exc : PyErr) (s : Stream) (g : Term) (ts : List (List Term)) :
    s.graph exc g ts =
      match s.enc.te.beginRow with
      | .error e => (s, [], some e)
      | .ok te0 =>
      match te0.graph g with
      | (te', .error e) => ({ s with enc := { s.enc with te := te' } }, [], some e)
      | (te', .ok (rows, w)) =>
        let x := Stream.graphTriples exc
          (({ s with enc := { s.enc with te := te'.endRow } } : Stream).pushRows (rows ++ [Row.graphStart (some w)])) ts []
        match x.2.2 with
        | some e => (x.1, x.2.1, some e)
        | none => ((x.1.emit [Row.graphEnd]).1, x.2.1 ++ (x.1.emit [Row.graphEnd]).2.toList, none) := by
  unfold Stream.graph
  rcases s.enc.te.beginRow with e0 | te0
  · rfl
  dsimp only
  rcases te0.graph g with ⟨te', e | ⟨rows, w⟩⟩
  · rfl
  · dsimp only
    generalize Stream.graphTriples exc _ ts [] = x
    rcases x with ⟨s2, frs, _ | e⟩ <;> rfl

theorem Stream.graph_keeps (exc : PyErr) (s : Stream) (g : Term) (ts : List (List Term)) :
    s.Keeps (s.graph exc g ts).1 := by
  rw [Stream.graph_eq]
  rcases s.enc.te.beginRow with e0 | te0
  · exact .refl s
  dsimp only
  rcases te0.graph g with ⟨te', e | ⟨rows, w⟩⟩
  · exact s.withEnc_keeps _
  · dsimp only
    have hk := Stream.graphTriples_keeps exc
      (({ s with enc := { s.enc with te := te'.endRow } } : Stream).pushRows (rows ++ [Row.graphStart (some w)])) ts []
    generalize Stream.graphTriples exc _ ts [] = x at hk ⊢
    have h0 : s.Keeps (({ s with enc := { s.enc with te := te'.endRow } } : Stream).pushRows
        (rows ++ [Row.graphStart (some w)])) := (s.withEnc_keeps _).trans (Stream.pushRows_keeps _ _)
    rcases x with ⟨s2, frs, _ | e⟩
    · exact (h0.trans hk).trans (Stream.emit_keeps _ _)
    · exact h0.trans hk

theorem Stream.graph_ne_nil (exc : PyErr) (s : Stream) (g : Term) (ts : List (List Term)) :
    ∀ f ∈ (s.graph exc g ts).2.1, f.rows ≠ [] := by
  rw [Stream.graph_eq]
  rcases s.enc.te.beginRow with e0 | te0
  · simp
  dsimp only
  rcases te0.graph g with ⟨te', e | ⟨rows, w⟩⟩
  · simp
  · dsimp only
    have hk := Stream.graphTriples_ne_nil exc
      (({ s with enc := { s.enc with te := te'.endRow } } : Stream).pushRows (rows ++ [Row.graphStart (some w)])) ts []
      (by simp)
    generalize Stream.graphTriples exc _ ts [] = x at hk ⊢
    rcases x with ⟨s2, frs, _ | e⟩
    · intro f hf
      rcases List.mem_append.1 hf with hf | hf
      · exact hk f hf
      · exact Stream.emit_ne_nil _ _ f hf
    · exact hk

theorem PSim.graph {A₁ A₂ s₁ s₂} (h : PSim A₁ s₁ A₂ s₂) (exc : PyErr) (g : Term) (ts : List (List Term)) :
    PSim (A₁ ++ (s₁.graph exc g ts).2.1.flatMap (·.rows)) (s₁.graph exc g ts).1
         (A₂ ++ (s₂.graph exc g ts).2.1.flatMap (·.rows)) (s₂.graph exc g ts).1 ∧
    (s₁.graph exc g ts).2.2 = (s₂.graph exc g ts).2.2 := by
  rw [Stream.graph_eq, Stream.graph_eq, h.sim.2.2.1]
  rcases s₂.enc.te.beginRow with e0 | te0
  · simpa using h
  dsimp only
  rcases te0.graph g with ⟨te', e | ⟨rows, w⟩⟩
  · simpa using h.withEnc _
  · dsimp only
    have hk := PSim.graphTriples (B₁ := A₁) (B₂ := A₂) (acc₁ := []) (acc₂ := []) exc ts
      (by simpa using (h.withEnc { s₂.enc with te := te'.endRow }).pushRows (rows ++ [Row.graphStart (some w)]))
    generalize Stream.graphTriples exc
      (({ s₁ with enc := { s₂.enc with te := te'.endRow } } : Stream).pushRows _) ts [] = x₁ at hk ⊢
    generalize Stream.graphTriples exc
      (({ s₂ with enc := { s₂.enc with te := te'.endRow } } : Stream).pushRows _) ts [] = x₂ at hk ⊢
    rcases x₁ with ⟨s₁', frs₁, _ | e₁⟩ <;> rcases x₂ with ⟨s₂', frs₂, _ | e₂⟩ <;>
      simp only [reduceCtorEq, and_false] at hk
    · refine ⟨?_, rfl⟩
      simpa [List.flatMap_append] using hk.1.emit [Row.graphEnd]
    · exact hk

/-! ## `graphsLoop` -/

/-- One completed graph of `graphs_stream_frames`: encode it, keep its frames and its outcome. -/
def Run.graphStep (r : Run) (g : Term) (ts : List (List Term)) : Run :=
  { stream := (r.stream.graph .runtimeError g ts).1,
    frames := r.frames ++ (r.stream.graph .runtimeError g ts).2.1,
    err := (r.stream.graph .runtimeError g ts).2.2 }

theorem RunSim.graphStep {r₁ r₂ : Run} (h : RunSim r₁ r₂) (g : Term) (ts : List (List Term)) :
    RunSim (r₁.graphStep g ts) (r₂.graphStep g ts) := by
  obtain ⟨hp, he⟩ := h.1.graph .runtimeError g ts
  refine ⟨?_, he⟩
  simpa [Run.graphStep, List.flatMap_append] using hp

theorem Run.NoEmpty.graphStep {r : Run} (h : r.NoEmpty) (g : Term) (ts : List (List Term)) :
    (r.graphStep g ts).NoEmpty :=
  h.append (Stream.graph_ne_nil _ _ _ _) _ _

theorem Run.graphStep_keeps (r : Run) (g : Term) (ts : List (List Term)) :
    r.stream.Keeps (r.graphStep g ts).stream :=
  Stream.graph_keeps _ _ _ _

theorem RunSim.withErr {r₁ r₂ : Run} (h : RunSim r₁ r₂) (e : Option PyErr) :
    RunSim { r₁ with err := e } { r₂ with err := e } := ⟨h.1, rfl⟩

theorem graphsLoop_nil (r : Run) (cur : Option (Term × List (List Term))) :
    graphsLoop r cur [] = match cur with | none => r | some (g, ts) => r.graphStep g ts := by
  rcases cur with _ | ⟨g, ts⟩ <;> rfl

theorem graphsLoop_cons (r : Run) (cur : Option (Term × List (List Term))) (st : List Term)
    (rest : List (List Term)) :
    graphsLoop r cur (st :: rest) =
      match stmtGraph? st with
      | none => { r with err := some .attributeError }
      | some g =>
        match cur with
        | none => graphsLoop r (some (g, [st.take 3])) rest
        | some (cg, acc) =>
          if cg == g then graphsLoop r (some (cg, acc ++ [st.take 3])) rest
          else if (r.graphStep cg acc).err.isSome then r.graphStep cg acc
          else graphsLoop (r.graphStep cg acc) (some (g, [st.take 3])) rest := by
  rw [graphsLoop]
  rcases stmtGraph? st with _ | g
  · rfl
  · rcases cur with _ | ⟨cg, acc⟩ <;> rfl

theorem graphsLoop_runSim (ts : List (List Term)) {r₁ r₂ : Run} (h : RunSim r₁ r₂)
    (cur : Option (Term × List (List Term))) :
    RunSim (graphsLoop r₁ cur ts) (graphsLoop r₂ cur ts) := by
  induction ts generalizing r₁ r₂ cur with
  | nil =>
    rw [graphsLoop_nil, graphsLoop_nil]
    rcases cur with _ | ⟨g, ts⟩
    · exact h
    · exact h.graphStep g ts
  | cons st rest ih =>
    rw [graphsLoop_cons, graphsLoop_cons]
    rcases stmtGraph? st with _ | g
    · exact h.withErr _
    · rcases cur with _ | ⟨cg, acc⟩
      · exact ih h _
      · dsimp only
        have hg := h.graphStep cg acc
        rw [hg.2]
        split
        · exact ih h _
        · split
          · exact hg
          · exact ih hg _

theorem graphsLoop_noEmpty (ts : List (List Term)) {r : Run} (h : r.NoEmpty)
    (cur : Option (Term × List (List Term))) : (graphsLoop r cur ts).NoEmpty := by
  induction ts generalizing r cur with
  | nil =>
    rw [graphsLoop_nil]
    rcases cur with _ | ⟨g, ts⟩
    · exact h
    · exact h.graphStep g ts
  | cons st rest ih =>
    rw [graphsLoop_cons]
    rcases stmtGraph? st with _ | g
    · exact h
    · rcases cur with _ | ⟨cg, acc⟩
      · exact ih h _
      · dsimp only
        split
        · exact ih h _
        · split
          · exact h.graphStep cg acc
          · exact ih (h.graphStep cg acc) _

theorem graphsLoop_keeps (ts : List (List Term)) (r : Run) (cur : Option (Term × List (List Term))) :
    r.stream.Keeps (graphsLoop r cur ts).stream := by
  induction ts generalizing r cur with
  | nil =>
    rw [graphsLoop_nil]
    rcases cur with _ | ⟨g, ts⟩
    · exact .refl _
    · exact r.graphStep_keeps g ts
  | cons st rest ih =>
    rw [graphsLoop_cons]
    rcases stmtGraph? st with _ | g
    · exact .refl _
    · rcases cur with _ | ⟨cg, acc⟩
      · exact ih r _
      · dsimp only
        split
        · exact ih r _
        · split
          · exact r.graphStep_keeps cg acc
          · exact (r.graphStep_keeps cg acc).trans (ih _ _)

/-! ## `epilogue` -/

/-- The first flush of the epilogue. -/
def epiCut (fromDataset : Bool) (f : Flow) : Flow × Option Frame :=
  if fromDataset then f.frameFromDataset else f.frameFromGraph

theorem epiCut_isCut (b : Bool) (f : Flow) : f.IsCut (epiCut b f) := by
  unfold epiCut
  split
  · exact f.frameFromDataset_isCut
  · exact f.frameFromGraph_isCut

/-- Push the result of a flush of the run's own flow. -/
def Run.pushCut (r : Run) (x : Flow × Option Frame) : Run := r.push { r.stream with flow := x.1 } x.2

theorem epilogue_eq (r : Run) (b : Bool) :
    epilogue r b =
      (r.pushCut (epiCut b r.stream.flow)).pushCut
        ((epiCut b r.stream.flow).1.toStreamFrame) := by
  unfold epilogue epiCut
  cases b <;> rfl

theorem RunSim.pushCut {r₁ r₂ : Run} (h : RunSim r₁ r₂) {x₁ x₂ : Flow × Option Frame}
    (h₁ : r₁.stream.flow.IsCut x₁) (h₂ : r₂.stream.flow.IsCut x₂) :
    RunSim (r₁.pushCut x₁) (r₂.pushCut x₂) := by
  refine ⟨?_, h.2⟩
  simpa [Run.pushCut, List.flatMap_append] using h.1.cut h₁ h₂

theorem Run.NoEmpty.pushCut {r : Run} (h : r.NoEmpty) {x : Flow × Option Frame}
    (hx : r.stream.flow.IsCut x) : (r.pushCut x).NoEmpty :=
  h.push _ hx.ne_nil

theorem Run.pushCut_keeps (r : Run) {x : Flow × Option Frame} (hx : r.stream.flow.IsCut x) :
    r.stream.Keeps (r.pushCut x).stream :=
  Stream.cut_keeps _ hx

theorem epilogue_runSim {r₁ r₂ : Run} (h : RunSim r₁ r₂) (b : Bool) :
    RunSim (epilogue r₁ b) (epilogue r₂ b) := by
  rw [epilogue_eq, epilogue_eq]
  exact (h.pushCut (epiCut_isCut b _) (epiCut_isCut b _)).pushCut
    (Flow.toStreamFrame_isCut _) (Flow.toStreamFrame_isCut _)

theorem epilogue_noEmpty {r : Run} (h : r.NoEmpty) (b : Bool) : (epilogue r b).NoEmpty := by
  rw [epilogue_eq]
  exact (h.pushCut (epiCut_isCut b _)).pushCut (Flow.toStreamFrame_isCut _)

theorem epilogue_keeps (r : Run) (b : Bool) : r.stream.Keeps (epilogue r b).stream := by
  rw [epilogue_eq]
  exact (r.pushCut_keeps (epiCut_isCut b _)).trans (Run.pushCut_keeps _ (Flow.toStreamFrame_isCut _))

@[simp] theorem epilogue_err (r : Run) (b : Bool) : (epilogue r b).err = r.err := by
  rw [epilogue_eq]; rfl

/-- After the epilogue nothing is left in the flow. -/
@[simp] theorem epilogue_flow_rows (r : Run) (b : Bool) : (epilogue r b).stream.flow.rows = [] := by
  rw [epilogue_eq]
  exact Flow.toStreamFrame_rows _

/-- The epilogue only appends frames, and which ones depends only on the stream. -/
theorem epilogue_frames (r : Run) (b : Bool) :
    (epilogue r b).frames = r.frames ++ (epilogue { stream := r.stream } b).frames := by
  rw [epilogue_eq, epilogue_eq]
  simp [Run.pushCut]

theorem epilogue_stream (r : Run) (b : Bool) :
    (epilogue r b).stream = (epilogue { stream := r.stream } b).stream := by
  rw [epilogue_eq, epilogue_eq]
  rfl

/-! ## `stream_frames` -/

/-- The common shape of the three `*_stream_frames` variants. -/
def framesWith (loop : Run → List (List Term) → Run) (fromDataset : Bool) (s : Stream) (data : SerData) : Run :=
  match prologue s data with
  | (s1, .error e) => { stream := s1, err := some e }
  | (s1, .ok ()) =>
    let r := loop { stream := s1 } data.stmts
    if r.err.isSome then r else epilogue r fromDataset

/-- The loop and the epilogue flavour selected by the stream class. -/
def classLoop : StreamClass → (Run → List (List Term) → Run)
  | .triple => stmtLoop (Stream.triple .runtimeError)
  | .quad => stmtLoop (Stream.quad .runtimeError)
  | .graph => fun r => graphsLoop r none

def classFromDataset : StreamClass → Bool
  | .triple => false
  | _ => true

theorem streamFrames_eq (s : Stream) (d : SerData) :
    streamFrames s d = framesWith (classLoop s.cls) (classFromDataset s.cls) s d := by
  unfold streamFrames
  cases s.cls <;> rfl

theorem framesWith_eq (loop : Run → List (List Term) → Run) (b : Bool) (s : Stream) (d : SerData) :
    framesWith loop b s d =
      match (prologue s d).2 with
      | .error e => { stream := (prologue s d).1, err := some e }
      | .ok _ =>
        if (loop { stream := (prologue s d).1 } d.stmts).err.isSome
        then loop { stream := (prologue s d).1 } d.stmts
        else epilogue (loop { stream := (prologue s d).1 } d.stmts) b := by
  unfold framesWith
  rcases prologue s d with ⟨s1, e | u⟩ <;> rfl

theorem classLoop_runSim (c : StreamClass) {r₁ r₂ : Run} (h : RunSim r₁ r₂) (ts : List (List Term)) :
    RunSim (classLoop c r₁ ts) (classLoop c r₂ ts) := by
  cases c
  · exact stmtLoop_runSim (Stream.triple_good _) ts h
  · exact stmtLoop_runSim (Stream.quad_good _) ts h
  · exact graphsLoop_runSim ts h none

theorem classLoop_noEmpty (c : StreamClass) {r : Run} (h : r.NoEmpty) (ts : List (List Term)) :
    (classLoop c r ts).NoEmpty := by
  cases c
  · exact stmtLoop_noEmpty (Stream.triple_good _) ts h
  · exact stmtLoop_noEmpty (Stream.quad_good _) ts h
  · exact graphsLoop_noEmpty ts h none

theorem classLoop_keeps (c : StreamClass) (r : Run) (ts : List (List Term)) :
    r.stream.Keeps (classLoop c r ts).stream := by
  cases c
  · exact stmtLoop_keeps (Stream.triple_good _) ts r
  · exact stmtLoop_keeps (Stream.quad_good _) ts r
  · exact graphsLoop_keeps ts r none

/-- **The rows handed out by `streamFrames` do not depend on the flow.** Two streams that differ
    at most in their flow object (class, frame size) and start with the same pending rows produce
    the same row sequence (frames concatenated, then whatever is left in the flow), the same
    encoder state and the same outcome. -/
theorem streamFrames_runSim {s₁ s₂ : Stream} (h : FlowSim s₁ s₂) (hr : s₁.flow.rows = s₂.flow.rows)
    (d : SerData) : RunSim (streamFrames s₁ d) (streamFrames s₂ d) := by
  have h0 : PSim [] s₁ [] s₂ := ⟨h, by simpa using hr⟩
  obtain ⟨hp, he⟩ := h0.prologue d
  rw [streamFrames_eq, streamFrames_eq, ← h.1, framesWith_eq, framesWith_eq]
  generalize prologue s₁ d = x₁ at hp he ⊢
  generalize prologue s₂ d = x₂ at hp he ⊢
  rcases x₁ with ⟨a₁, e₁ | u₁⟩ <;> rcases x₂ with ⟨a₂, e₂ | u₂⟩ <;>
    simp only [resErr_ok, resErr_error, reduceCtorEq, Option.some.injEq] at hp he
  · subst he
    exact ⟨hp, rfl⟩
  · dsimp only
    have h1 : RunSim { stream := a₁ } { stream := a₂ } := ⟨hp, rfl⟩
    have hl : RunSim (classLoop s₁.cls { stream := a₁ } d.stmts) (classLoop s₁.cls { stream := a₂ } d.stmts) :=
      classLoop_runSim _ h1 _
    rw [hl.2]
    split
    · exact hl
    · exact epilogue_runSim hl _

/-- **Frames are never empty.** -/
theorem streamFrames_frames_ne_nil (s : Stream) (d : SerData) : (streamFrames s d).NoEmpty := by
  rw [streamFrames_eq, framesWith_eq]
  rcases (prologue s d).2 with e | u
  · exact .init _ _
  · dsimp only
    have hl := classLoop_noEmpty s.cls (.init (prologue s d).1 none) d.stmts
    split
    · exact hl
    · exact epilogue_noEmpty hl _

/-- A normal return leaves nothing in the flow. -/
theorem streamFrames_flow_rows (s : Stream) (d : SerData) (h : (streamFrames s d).err = none) :
    (streamFrames s d).stream.flow.rows = [] := by
  rw [streamFrames_eq, framesWith_eq] at h ⊢
  generalize (prologue s d).2 = x at h ⊢
  rcases x with e | u
  · simp at h
  · dsimp only at h ⊢
    split
    · rename_i hs
      rw [if_pos hs] at h
      simp [h] at hs
    · exact epilogue_flow_rows _ _

/-- Class, options, logical type, flow kind and frame size survive `streamFrames`. -/
theorem streamFrames_keeps (s : Stream) (d : SerData) : s.Keeps (streamFrames s d).stream := by
  rw [streamFrames_eq, framesWith_eq]
  have hp := prologue_keeps s d
  rcases (prologue s d).2 with e | u
  · exact hp
  · dsimp only
    have hl := hp.trans (classLoop_keeps s.cls { stream := (prologue s d).1 } d.stmts)
    split
    · exact hl
    · exact hl.trans (epilogue_keeps _ _)

end Jelly

import JellyModel.Plugin
import JellyProofs.Lemmas.Agree
import JellyProofs.Lemmas.Framing
import JellyProofs.Lemmas.DecoderRefines
import JellyProofs.Lemmas.RdflibLoops
/-!
# Helper lemmas for the file-level entry points (`JellyModel/Plugin.lean`)

* decoder side: when a parse that supports quoted triples delivers only events without quoted
  triples (and the adapter is not the graphs adapter, whose pending graph name is not an event), the
  parse that does not support them (`quoted = false`, the rdflib adapter) does exactly the same;
* writer side: the rdflib loops only ever append rows and never hand out an empty frame, so on a
  fresh stream the first frame starts with the options row.
-/
namespace Jelly

/-! ## Decoder: `quoted` does not matter when no quoted triple is delivered -/

/-- Not a quoted triple (top level). -/
def Term.plgFlat : Term → Prop
  | .quoted _ _ _ => False
  | _ => True

/-- An event that carries no quoted triple in statement position. -/
def Event.plgFlat : Event → Prop
  | .stmt ts => ∀ x ∈ ts, x.plgFlat
  | .ns _ _ => True

theorem plg_decodeTerm_flat {d d' : DecState} {w : WTerm} {t : Term}
    (h : d.decodeTerm true w = .ok (d', t)) (ht : t.plgFlat) : w.isFlat := by
  cases w with
  | triple s p o =>
    simp only [DecState.decodeTerm] at h
    split at h
    · cases h
    · split at h
      · cases h
      · split at h
        · cases h
        · simp only [if_true, Except.ok.injEq, Prod.mk.injEq] at h
          obtain ⟨_, rfl⟩ := h
          exact ht
  | _ => trivial

theorem plg_decodeSlot {d d' : DecState} {prev : Option Term} {w : Option WTerm} {t : Term}
    (h : d.decodeSlot true prev w = .ok (d', t)) (ht : t.plgFlat) :
    d.decodeSlot false prev w = .ok (d', t) := by
  cases w with
  | none => exact h
  | some wt =>
    have hf : optFlat (some wt) := plg_decodeTerm_flat (w := wt) h ht
    rw [decodeSlot_flat d prev (some wt) hf]
    exact h

theorem plg_decodeSpo {d d' : DecState} {s p o : Option WTerm} {a b c : Term}
    (h : d.decodeSpo true s p o = .ok (d', a, b, c)) (ha : a.plgFlat) (hb : b.plgFlat) (hc : c.plgFlat) :
    d.decodeSpo false s p o = .ok (d', a, b, c) := by
  unfold DecState.decodeSpo at h ⊢
  split at h
  · cases h
  · rename_i d1 ts h1
    dsimp only at h
    split at h
    · cases h
    · rename_i d2 tp h2
      split at h
      · cases h
      · rename_i d3 to h3
        simp only [Except.ok.injEq, Prod.mk.injEq] at h
        obtain ⟨rfl, rfl, rfl, rfl⟩ := h
        rw [plg_decodeSlot h1 ha]
        dsimp only
        rw [plg_decodeSlot h2 hb]
        dsimp only
        rw [plg_decodeSlot h3 hc]

/-- One row: same result, and the adapter is kept. -/
theorem plg_decodeRow {d d' : DecState} {r : Row} {ev : Option Event} (hg : d.adapter ≠ .graphs)
    (h : d.decodeRow true r = .ok (d', ev)) (hev : ∀ e ∈ ev, e.plgFlat) :
    d.decodeRow false r = .ok (d', ev) ∧ d'.adapter = d.adapter := by
  cases r with
  | triple s p o =>
    simp only [DecState.decodeRow] at h ⊢
    split at h
    · cases h
    · rename_i d1 ts tp to h1
      have hc := (decodeSpo_ctl h1).2.1
      cases had : d.adapter with
      | triples =>
        rw [had] at h
        simp only [Except.ok.injEq, Prod.mk.injEq] at h
        obtain ⟨rfl, rfl⟩ := h
        have hq : ∀ x ∈ [ts, tp, to], x.plgFlat := hev _ rfl
        rw [plg_decodeSpo h1 (hq _ (by simp)) (hq _ (by simp)) (hq _ (by simp))]
        exact ⟨rfl, hc.trans had⟩
      | quads => rw [had] at h; cases h
      | graphs => exact absurd had hg
  | quad s p o g =>
    simp only [DecState.decodeRow] at h ⊢
    split at h
    · cases h
    · rename_i d1 ts tp to h1
      have hc := (decodeSpo_ctl h1).2.1
      split at h
      · cases h
      · rename_i d2 tg h2
        have hc2 := (decodeSlot_ctl h2).2.1
        cases had : d.adapter with
        | quads =>
          rw [had] at h
          simp only [Except.ok.injEq, Prod.mk.injEq] at h
          obtain ⟨rfl, rfl⟩ := h
          have hq : ∀ x ∈ [ts, tp, to, tg], x.plgFlat := hev _ rfl
          rw [plg_decodeSpo h1 (hq _ (by simp)) (hq _ (by simp)) (hq _ (by simp))]
          dsimp only
          rw [plg_decodeSlot h2 (hq _ (by simp))]
          dsimp only
          exact ⟨rfl, hc2.trans (hc.trans had)⟩
        | triples => rw [had] at h; cases h
        | graphs => exact absurd had hg
  | graphStart g =>
    exfalso
    simp only [DecState.decodeRow] at h
    cases g with
    | none => cases h
    | some t =>
      dsimp only at h
      cases hdt : d.decodeTerm true t with
      | error e => rw [hdt] at h; cases h
      | ok x =>
        rw [hdt] at h
        dsimp only at h
        cases had : d.adapter with
        | graphs => exact hg had
        | triples => (try rw [had] at h); cases h
        | quads => (try rw [had] at h); cases h
  | graphEnd =>
    exfalso
    simp only [DecState.decodeRow] at h
    cases had : d.adapter with
    | graphs => exact hg had
    | triples => (try rw [had] at h); cases h
    | quads => (try rw [had] at h); cases h
  | empty => simp only [DecState.decodeRow] at h; cases h
  | options o =>
    refine ⟨h, ?_⟩
    simp only [DecState.decodeRow] at h
    split at h
    · cases h
    · simp only [Except.ok.injEq, Prod.mk.injEq] at h
      obtain ⟨rfl, rfl⟩ := h
      rfl
  | prefixEntry id v =>
    refine ⟨h, ?_⟩
    simp only [DecState.decodeRow] at h
    split at h
    · cases h
    · simp only [Except.ok.injEq, Prod.mk.injEq] at h
      obtain ⟨rfl, rfl⟩ := h
      rfl
  | nameEntry id v =>
    refine ⟨h, ?_⟩
    simp only [DecState.decodeRow] at h
    split at h
    · cases h
    · simp only [Except.ok.injEq, Prod.mk.injEq] at h
      obtain ⟨rfl, rfl⟩ := h
      rfl
  | dtEntry id v =>
    refine ⟨h, ?_⟩
    simp only [DecState.decodeRow] at h
    split at h
    · cases h
    · simp only [Except.ok.injEq, Prod.mk.injEq] at h
      obtain ⟨rfl, rfl⟩ := h
      rfl
  | «namespace» name iri =>
    refine ⟨h, ?_⟩
    simp only [DecState.decodeRow] at h
    split at h
    · cases h
    · rename_i d1 s1 h1
      simp only [Except.ok.injEq, Prod.mk.injEq] at h
      obtain ⟨rfl, rfl⟩ := h
      exact (decodeIri_ctl h1).2.1

theorem plg_decodeRows : ∀ (rows : List Row) (d : DecState) (acc : List Event), d.adapter ≠ .graphs →
    (d.decodeRows true rows acc).2.2 = none →
    (∀ e ∈ (d.decodeRows true rows acc).2.1, e.plgFlat) →
    d.decodeRows false rows acc = d.decodeRows true rows acc ∧
      (d.decodeRows true rows acc).1.adapter = d.adapter
  | [], d, acc, _, _, _ => ⟨rfl, rfl⟩
  | r :: rs, d, acc, hg, herr, hev => by
    simp only [DecState.decodeRows] at herr hev ⊢
    cases hr : d.decodeRow true r with
    | error e => rw [hr] at herr; cases herr
    | ok x =>
      obtain ⟨d1, ev⟩ := x
      rw [hr] at herr hev
      dsimp only at herr hev ⊢
      have hflat : ∀ e ∈ ev, e.plgFlat := by
        intro e he
        apply hev
        rw [decodeRows_acc_events]
        exact List.mem_append_left _ (List.mem_append_right _ (by simpa using he))
      obtain ⟨h1, h2⟩ := plg_decodeRow hg hr hflat
      rw [h1]
      dsimp only
      obtain ⟨i1, i2⟩ := plg_decodeRows rs d1 (acc ++ ev.toList) (h2 ▸ hg) herr hev
      exact ⟨i1, i2.trans h2⟩

theorem plg_decodeFrames_mem (q : Bool) : ∀ (frames : List Frame) (d : DecState) (acc : List (List Event)),
    ∀ l ∈ acc, l ∈ (decodeFrames q d frames acc).1
  | [], d, acc, l, hl => hl
  | f :: fs, d, acc, l, hl => by
    simp only [decodeFrames]
    rcases d.decodeRows q f.rows [] with ⟨d', evs, _ | e⟩
    · exact plg_decodeFrames_mem q fs d' (acc ++ [evs]) l (List.mem_append_left _ hl)
    · exact hl

theorem plg_decodeFrames : ∀ (frames : List Frame) (d : DecState) (acc : List (List Event)),
    d.adapter ≠ .graphs → (decodeFrames true d frames acc).2.2 = none →
    (∀ l ∈ (decodeFrames true d frames acc).1, ∀ e ∈ l, e.plgFlat) →
    decodeFrames false d frames acc = decodeFrames true d frames acc
  | [], d, acc, _, _, _ => rfl
  | f :: fs, d, acc, hg, herr, hev => by
    simp only [decodeFrames] at herr hev ⊢
    rcases hr : d.decodeRows true f.rows [] with ⟨d', evs, _ | e⟩
    · rw [hr] at herr hev
      dsimp only at herr hev
      have hflat : ∀ e ∈ evs, e.plgFlat :=
        hev evs (plg_decodeFrames_mem true fs d' (acc ++ [evs]) evs (by simp))
      obtain ⟨h1, h2⟩ := plg_decodeRows f.rows d [] hg (by rw [hr]) (by rw [hr]; exact hflat)
      rw [h1, hr]
      dsimp only
      rw [hr] at h2
      exact plg_decodeFrames fs d' (acc ++ [evs]) (h2 ▸ hg) herr hev
    · rw [hr] at herr
      cases herr

theorem plg_adapterFor_ne {ph : Nat} {a : AdapterKind} (h : adapterFor ph = .ok a) (hp : ph ≠ 3) :
    a ≠ .graphs := by
  unfold adapterFor at h
  split at h
  · cases h; simp
  · split at h
    · cases h; simp
    · split at h
      · rename_i h3
        exact absurd (by simpa using h3) hp
      · split at h <;> cases h

theorem plg_DecState_new_adapter {opts : ParserOptions} {a : AdapterKind} {d : DecState}
    (h : DecState.new opts a = .ok d) : d.adapter = a := by
  simp only [DecState.new, bind, Except.bind, pure, Except.pure] at h
  split at h
  · cases h
  · split at h
    · cases h
    · split at h
      · cases h
      · cases h
        rfl

/-- **The rdflib adapter (no `quoted_triple`) parses like the generic one** whenever the generic parse
    ends normally, delivers no quoted triple, and the stream is not of the GRAPHS physical type. -/
theorem plg_parseFlat_unquoted (kind : SourceKind) (b : Bytes) (strict : Bool) (opened : Opened)
    (evs : List Event)
    (hgo : getOptionsAndFrames kind b = .ok opened) (hph : opened.opts.physical ≠ 3)
    (h : parseFlat kind b strict true = { events := evs, err := none })
    (hq : ∀ e ∈ evs, e.plgFlat) :
    parseFlat kind b strict false = { events := evs, err := none } := by
  unfold parseFlat parseCore at h ⊢
  rw [hgo] at h ⊢
  dsimp only at h ⊢
  by_cases hgate : (!(!strict || strictFlatOk opened.opts.logical)) = true
  · rw [if_pos hgate] at h ⊢
    exact h
  · rw [if_neg hgate] at h ⊢
    cases ha : adapterFor opened.opts.physical with
    | error e =>
      (try rw [ha] at h); (try rw [ha])
      exact h
    | ok adapter =>
      have hne := plg_adapterFor_ne ha hph
      (try rw [ha] at h); (try rw [ha])
      dsimp only at h ⊢
      cases hd : DecState.new opened.opts adapter with
      | error e =>
        (try rw [hd] at h); (try rw [hd])
        exact h
      | ok d =>
        have had := plg_DecState_new_adapter hd
        (try rw [hd] at h); (try rw [hd])
        dsimp only at h ⊢
        rcases hfr : opened.frames with ⟨frames, ferr⟩
        (try rw [hfr] at h); (try rw [hfr])
        dsimp only at h ⊢
        rcases hdf : decodeFrames true d frames [] with ⟨done, part, _ | e⟩
        · (try rw [hdf] at h)
          dsimp only at h
          have hevs : done.flatten = evs := by
            have := congrArg FlatResult.events h
            simpa using this
          have key : decodeFrames false d frames [] = (done, part, none) := by
            rw [plg_decodeFrames frames d [] (had ▸ hne) (by rw [hdf]) (by
              rw [hdf]
              intro l hl e he
              exact hq e (hevs ▸ List.mem_flatten.2 ⟨l, hl, he⟩)), hdf]
          rw [key]
          exact h
        · (try rw [hdf] at h)
          have := congrArg FlatResult.err h
          simp at this

/-! ## Writer: the rdflib loops only append rows and never hand out an empty frame -/

/-- `r'` continues `r`: no empty frame appears, and the row sequence of `r` is extended. -/
def PlgStep (r r' : Run) : Prop := (r.NoEmpty → r'.NoEmpty) ∧ Run.Ext r r'

theorem PlgStep.refl (r : Run) : PlgStep r r := ⟨id, .refl r⟩

theorem PlgStep.trans {a b c : Run} (h₁ : PlgStep a b) (h₂ : PlgStep b c) : PlgStep a c :=
  ⟨fun h => h₂.1 (h₁.1 h), h₁.2.trans h₂.2⟩

theorem plg_stmtLoop_step {step : Stream → List Term → Res Stream (Option Frame)} (hs : GoodStep step)
    (ts : List (List Term)) (r : Run) : PlgStep r (stmtLoop step r ts) :=
  ⟨fun h => stmtLoop_noEmpty hs ts h, stmtLoop_ext hs ts r⟩

theorem plg_pushCut_step (r : Run) {x : Flow × Option Frame} (hx : r.stream.flow.IsCut x) :
    PlgStep r (r.pushCut x) := by
  refine ⟨fun h => h.pushCut hx, [], ?_⟩
  have := allRowsOf_push (r := r) (s' := { r.stream with flow := x.1 }) (fr := x.2) (rows := [])
    (by simpa [frRows] using hx.rows)
  simpa [Run.pushCut] using this

theorem plg_graphStep_step (r : Run) (g : Term) (ts : List (List Term)) : PlgStep r (r.graphStep g ts) :=
  ⟨fun h => h.graphStep g ts, r.graphStep_ext g ts⟩

theorem plg_epilogue_step (r : Run) (b : Bool) : PlgStep r (epilogue r b) :=
  ⟨fun h => epilogue_noEmpty h b, [], by rw [(allRowsOf_epilogue r b).1]; simp⟩

theorem plg_triplesGraphsLoop_cons (r : Run) (g : List (List Term)) (gs : List (List (List Term))) :
    triplesGraphsLoop r (g :: gs) =
      if (stmtLoop (Stream.triple .runtimeError) r g).err.isSome
      then stmtLoop (Stream.triple .runtimeError) r g
      else triplesGraphsLoop ((stmtLoop (Stream.triple .runtimeError) r g).pushCut
        (stmtLoop (Stream.triple .runtimeError) r g).stream.flow.frameFromGraph) gs := by
  rw [triplesGraphsLoop]
  rfl

theorem plg_triplesGraphsLoop_step (gs : List (List (List Term))) (r : Run) :
    PlgStep r (triplesGraphsLoop r gs) := by
  induction gs generalizing r with
  | nil => exact .refl r
  | cons g gs ih =>
    rw [plg_triplesGraphsLoop_cons]
    have h1 := plg_stmtLoop_step (Stream.triple_good .runtimeError) g r
    split
    · exact h1
    · exact (h1.trans (plg_pushCut_step _ (Flow.frameFromGraph_isCut _))).trans (ih _)

theorem plg_graphsLoopR_step (gs : List (Term × List (List Term))) (r : Run) :
    PlgStep r (graphsLoopR r gs) := by
  induction gs generalizing r with
  | nil => exact .refl r
  | cons x gs ih =>
    obtain ⟨g, ts⟩ := x
    rw [graphsLoopR_cons]
    split
    · exact plg_graphStep_step r g ts
    · exact (plg_graphStep_step r g ts).trans (ih _)

theorem plg_namespaceDeclaration_rows (s : Stream) (name iri : String) :
    ∃ rows, (s.namespaceDeclaration name iri).1.flow.rows = s.flow.rows ++ rows := by
  rw [Stream.namespaceDeclaration_eq]
  rcases encodeNamespace s.enc.te name iri with ⟨te', e | rows⟩
  · exact ⟨[], by simp⟩
  · exact ⟨rows, rfl⟩

theorem plg_nsDeclarationsR_rows (ns : List (String × String)) (s : Stream) :
    ∃ rows, (nsDeclarationsR s ns).1.flow.rows = s.flow.rows ++ rows := by
  induction ns generalizing s with
  | nil => exact ⟨[], by simp [nsDeclarationsR]⟩
  | cons b rest ih =>
    obtain ⟨p, i⟩ := b
    obtain ⟨r1, h1⟩ := plg_namespaceDeclaration_rows s p i
    rw [nsDeclarationsR]
    generalize s.namespaceDeclaration p i = x at h1 ⊢
    rcases x with ⟨s', e | u⟩
    · exact ⟨r1, h1⟩
    · obtain ⟨r2, h2⟩ := ih s'
      exact ⟨r1 ++ r2, by rw [h2, h1, List.append_assoc]⟩

theorem plg_prologueR_rows (s : Stream) (isGraph : Bool) (ns : List (String × String)) :
    ∃ rows, (prologueR s isGraph ns).1.flow.rows = s.enroll.flow.rows ++ rows := by
  unfold prologueR
  dsimp only
  split
  · exact plg_nsDeclarationsR_rows ns s.enroll
  · exact ⟨[], by simp⟩

theorem plg_init_step {s s1 : Stream} {e : Option PyErr} (h : ∃ rows, s1.flow.rows = s.flow.rows ++ rows) :
    PlgStep { stream := s } { stream := s1, err := e } := by
  obtain ⟨rows, h⟩ := h
  exact ⟨fun _ => .init _ _, rows, by simpa [allRowsOf, rowsOf] using h⟩

/-- Every rdflib `stream_frames` run continues the run that has just enrolled. -/
theorem plg_streamFramesR_step (s : Stream) (st : RStore) :
    PlgStep { stream := s.enroll } (streamFramesR s st) := by
  unfold streamFramesR
  cases s.cls with
  | triple =>
    dsimp only
    unfold triplesStreamFramesR
    have hp := plg_prologueR_rows s true st.ns
    generalize prologueR s true st.ns = x at hp ⊢
    rcases x with ⟨s1, e | u⟩
    · exact plg_init_step hp
    · dsimp only
      have h1 := (plg_init_step (e := none) hp).trans
        (plg_triplesGraphsLoop_step (st.graphs.map (·.2)) { stream := s1 })
      split
      · exact h1
      · exact h1.trans (plg_pushCut_step _ (Flow.toStreamFrame_isCut _))
  | quad =>
    dsimp only
    unfold quadsStreamFramesR
    have hp := plg_prologueR_rows s true st.ns
    generalize prologueR s true st.ns = x at hp ⊢
    rcases x with ⟨s1, e | u⟩
    · exact plg_init_step hp
    · dsimp only
      have h1 := (plg_init_step (e := none) hp).trans
        (plg_stmtLoop_step (Stream.quad_good .runtimeError) st.quads { stream := s1 })
      split
      · exact h1
      · exact h1.trans (plg_epilogue_step _ _)
  | graph =>
    dsimp only
    unfold graphsStreamFramesR
    have hp := plg_prologueR_rows s true st.ns
    generalize prologueR s true st.ns = x at hp ⊢
    rcases x with ⟨s1, e | u⟩
    · exact plg_init_step hp
    · dsimp only
      have h1 := (plg_init_step (e := none) hp).trans (plg_graphsLoopR_step st.graphs { stream := s1 })
      split
      · exact h1
      · exact h1.trans (plg_epilogue_step _ _)

theorem plg_enroll_fresh_rows (s : Stream) (he : s.enrolled = false) (hr : s.flow.rows = []) :
    s.enroll.flow.rows = [s.optionsRow] := by
  simp [Stream.enroll, he, Stream.pushRows, hr]

/-- On a fresh stream: no frame of the run is empty and the first one starts with the options row. -/
theorem plg_streamFramesR_frames (s : Stream) (st : RStore) (he : s.enrolled = false)
    (hr : s.flow.rows = []) :
    (streamFramesR s st).NoEmpty ∧
    ∀ f₀ tail, (streamFramesR s st).frames = f₀ :: tail → ∃ rs, f₀.rows = s.optionsRow :: rs := by
  obtain ⟨h1, rows, h2⟩ := plg_streamFramesR_step s st
  have hne := h1 (.init _ _)
  refine ⟨hne, ?_⟩
  intro f₀ tail hfs
  have h0 : f₀.rows ≠ [] := hne f₀ (by rw [hfs]; simp)
  simp only [allRowsOf, rowsOf, hfs, List.flatMap_cons, List.flatMap_nil, List.nil_append,
    plg_enroll_fresh_rows s he hr, List.append_assoc, List.cons_append] at h2
  cases hf : f₀.rows with
  | nil => exact absurd hf h0
  | cons a as =>
    rw [hf] at h2
    simp only [List.cons_append, List.cons.injEq] at h2
    exact ⟨as, by rw [h2.1]⟩

/-! ## C08 on the bytes of a run -/

theorem plg_writeSingle_options_length (f : Frame) (o : Options) (rs : List Row)
    (h : f.rows = .options o :: rs) : 3 ≤ (writeSingle f).length := by
  have h1 := varint_length_pos (encRow (.options o)).length
  have h2 : 2 ≤ (encRow (.options o)).length := by
    have := varint_length_pos (encOptions o).length
    simp only [encRow, lenDelim_one, List.length_cons, List.length_append]
    omega
  simp only [writeSingle, encFrame, h, List.flatMap_cons, lenDelim_one, List.length_append,
    List.length_cons]
  omega

/-- A run without empty frames whose first frame starts with an options row: if at least three
    bytes were written, the detector answers the framing used for writing. -/
theorem plg_hint_bytes (r : Run) (dl : Bool) (hne : r.NoEmpty)
    (hhead : ∀ f₀ tail, r.frames = f₀ :: tail → ∃ o rs, f₀.rows = .options o :: rs)
    (h3 : 3 ≤ (r.bytes dl).length) :
    delimitedHint ((r.bytes dl).take 3) = dl := by
  unfold Run.bytes at h3 ⊢
  cases hfs : r.frames with
  | nil => rw [hfs] at h3; simp at h3
  | cons f₀ tail =>
    obtain ⟨o, rs, hf0⟩ := hhead f₀ tail hfs
    rw [hfs] at h3
    cases dl with
    | true =>
      simp only [if_true, List.flatMap_cons] at h3 ⊢
      exact C08_hint_delimited f₀ _ (fun h => absurd h (hne f₀ (by rw [hfs]; simp))) h3
    | false =>
      simp only [Bool.false_eq_true, if_false, List.flatMap_cons] at h3 ⊢
      rw [List.take_append_of_le_length (plg_writeSingle_options_length f₀ o rs hf0)]
      have : f₀ = { rows := .options o :: rs, metadata := f₀.metadata } := by
        cases f₀; simp only at hf0; rw [hf0]
      rw [this]
      exact C08_hint_single o rs _

/-! ## Everything guessed: the stream `guess_stream(guess_options(store), store)` builds -/

theorem plg_prologueR_off (s : Stream) (isGraph : Bool) (ns : List (String × String))
    (hoff : s.opts.params.namespaceDeclarations = false) :
    prologueR s isGraph ns = (s.enroll, .ok ()) := by
  unfold prologueR
  simp [s.enroll_keeps.opts, hoff]

theorem plg_guess_triple {s : Stream} (hs : guessStreamR (guessOptionsR false) false = .ok s) :
    Stream.new .triple (guessOptionsR false) = .ok s ∧ s.cls = .triple ∧
      s.opts = guessOptionsR false ∧ validLogical s.logicalType = true := by
  have hs' : Stream.new .triple (guessOptionsR false) = .ok s := by
    simpa [guessStreamR] using hs
  obtain ⟨_, hcls, hopts, _⟩ := Stream.new_spec hs'
  refine ⟨hs', hcls, hopts, ?_⟩
  simp [Stream.new, guessOptionsR, inferFlow, flowForType, Flow.mk', Preset.valid, typesCompatible,
    MIN_NAME_LOOKUP_SIZE, StreamClass.physical, FlowKind.isBounded] at hs'
  rw [← hs']
  rfl

theorem plg_guess_quad {s : Stream} (hs : guessStreamR (guessOptionsR true) true = .ok s) :
    Stream.new .quad (guessOptionsR true) = .ok s ∧ s.cls = .quad ∧
      s.opts = guessOptionsR true ∧ validLogical s.logicalType = true := by
  have hs' : Stream.new .quad (guessOptionsR true) = .ok s := by
    simpa [guessStreamR, guessOptionsR] using hs
  obtain ⟨_, hcls, hopts, _⟩ := Stream.new_spec hs'
  refine ⟨hs', hcls, hopts, ?_⟩
  simp [Stream.new, guessOptionsR, inferFlow, flowForType, Flow.mk', Preset.valid, typesCompatible,
    MIN_NAME_LOOKUP_SIZE, StreamClass.physical, FlowKind.isBounded] at hs'
  rw [← hs']
  rfl

end Jelly

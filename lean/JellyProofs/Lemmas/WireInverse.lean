import JellyModel.Wire
import JellyModel.WireDecode
import JellyModel.Parse
import JellyProofs.Lemmas.WireBytes
import JellyProofs.Lemmas.Truncation
/-!
# The wire parser inverts the wire encoder — helper lemmas

* strings: `decStr_utf8`
* varints: `readVarintAux_varint`, `readVarint_varint`, `readStreamVarint_varint`
* fields: `encField`, `fieldsOf_flatMap` (a message body that is the concatenation of canonically
  encoded fields splits back into exactly those fields)
* messages: every `enc*` of `Wire.lean` is such a concatenation (`*_eq`), every `dec*Into` of
  `WireDecode.lean` is a fold of an explicit step function over the field list (`*_eq`, by `rfl`),
  and the fold over the encoder's field list rebuilds the value (`*_enc`)
* statements: `SpoOk d t` (well-formed term nesting at most `d` deep), `recOk_all` by induction on the
  nesting budget
* rows, frames, `write_single` concatenation, delimited streams (`restFrames_write`)
-/
namespace Jelly

/-! ## Strings -/

theorem byteArray_toList_loop (bs : ByteArray) (i : Nat) (r : List UInt8) :
    ByteArray.toList.loop bs i r = r.reverse ++ bs.data.toList.drop i := by
  have hsz : bs.size = bs.data.toList.length := by
    cases bs; simp [ByteArray.size]
  fun_induction ByteArray.toList.loop bs i r with
  | case1 i r h ih =>
    rw [ih]
    have hi : i < bs.data.toList.length := by omega
    rw [List.drop_eq_getElem_cons hi]
    have : bs.get! i = bs.data.toList[i] := by
      cases bs with | mk d =>
      simp only [ByteArray.get!]
      simp at hi
      simp [hi]
    simp [this]
  | case2 i r h =>
    have hi : bs.data.toList.length ≤ i := by omega
    simp [List.drop_eq_nil_of_le hi]

theorem byteArray_toList (bs : ByteArray) : bs.toList = bs.data.toList := by
  simp [ByteArray.toList, byteArray_toList_loop]

theorem decStr_utf8 (s : String) : decStr (utf8 s) = .ok s := by
  have e : ByteArray.mk (utf8 s).toArray = s.toByteArray := by
    simp [utf8, byteArray_toList]
  unfold decStr
  rw [e]
  simp [String.fromUTF8?, s.isValidUTF8]
  rfl

theorem utf8_eq_nil_iff (s : String) : utf8 s = [] ↔ s = "" := by
  constructor
  · intro h
    have := decStr_utf8 s
    rw [h] at this
    have h2 : decStr (utf8 "") = .ok "" := decStr_utf8 ""
    have h3 : utf8 "" = [] := by simp [utf8, byteArray_toList]
    rw [h3] at h2
    rw [h2] at this
    cases this; rfl
  · intro h; subst h; simp [utf8, byteArray_toList]

/-! ## Varints -/

theorem pow_split (acc n shift : Nat) :
    acc + n % 128 * 2 ^ shift + n / 128 * 2 ^ (shift + 7) = acc + n * 2 ^ shift := by
  have h : n = 128 * (n / 128) + n % 128 := (Nat.div_add_mod n 128).symm
  have e : 2 ^ (shift + 7) = 2 ^ shift * 128 := by rw [Nat.pow_add]
  rw [e]
  generalize 2 ^ shift = P
  generalize n / 128 = q at h ⊢
  generalize n % 128 = r at h ⊢
  subst h
  have : q * (P * 128) = 128 * q * P := by
    rw [Nat.mul_comm P 128, ← Nat.mul_assoc, Nat.mul_comm q 128]
  rw [this, Nat.add_mul]
  omega

theorem readVarintAux_varint (fuel : Nat) : ∀ (n shift acc : Nat) (rest : Bytes),
    n < 128 ^ (fuel + 1) →
    readVarintAux (fuel + 1) shift acc (varint n ++ rest) = some (acc + n * 2 ^ shift, rest) := by
  induction fuel with
  | zero =>
    intro n shift acc rest h
    have hn : n < 128 := by simpa using h
    rw [varint_lt n hn]
    simp only [List.cons_append, List.nil_append, readVarintAux]
    rw [toUInt8_toNat_lt n (by omega)]
    simp [hn, Nat.mod_eq_of_lt hn]
  | succ fuel ih =>
    intro n shift acc rest h
    by_cases hn : n < 128
    · rw [varint_lt n hn]
      simp only [List.cons_append, List.nil_append, readVarintAux]
      rw [toUInt8_toNat_lt n (by omega)]
      simp [hn, Nat.mod_eq_of_lt hn]
    · rw [varint_ge n hn]
      simp only [List.cons_append, readVarintAux]
      rw [toUInt8_toNat_lt _ (by omega)]
      have h1 : ¬ (n % 128 + 128 < 128) := by omega
      have h2 : (n % 128 + 128) % 128 = n % 128 := by omega
      simp only [h1, if_false, h2]
      rw [ih (n / 128) (shift + 7) _ rest]
      · rw [pow_split]
      · rw [Nat.pow_succ] at h
        omega

theorem readVarint_varint (n : Nat) (h : n < 2 ^ 64) (rest : Bytes) :
    readVarint (varint n ++ rest) = some (n, rest) := by
  unfold readVarint
  rw [readVarintAux_varint 9 n 0 0 rest (by
    have : (2:Nat) ^ 64 ≤ 128 ^ (9 + 1) := by decide
    omega)]
  simp [Nat.mod_eq_of_lt h]

/-- The stream reader: `k + 1` bytes, the last one read at shift `shift + 7 * k ≤ 63`. -/
theorem readStreamVarint_varint (k : Nat) : ∀ (fuel n shift acc : Nat) (rest : Bytes),
    n < 128 ^ (k + 1) → shift + 7 * k < 64 → k < fuel →
    readStreamVarint fuel shift acc (varint n ++ rest) = .ok (some ((acc + n * 2 ^ shift) % 2 ^ 64, rest)) := by
  induction k with
  | zero =>
    intro fuel n shift acc rest h hs hf
    have hn : n < 128 := by simpa using h
    obtain ⟨fuel, rfl⟩ : ∃ f, fuel = f + 1 := ⟨fuel - 1, by omega⟩
    rw [varint_lt n hn]
    simp only [List.cons_append, List.nil_append, readStreamVarint]
    rw [toUInt8_toNat_lt n (by omega)]
    simp [hn, Nat.mod_eq_of_lt hn]
  | succ k ih =>
    intro fuel n shift acc rest h hs hf
    obtain ⟨fuel, rfl⟩ : ∃ f, fuel = f + 1 := ⟨fuel - 1, by omega⟩
    by_cases hn : n < 128
    · rw [varint_lt n hn]
      simp only [List.cons_append, List.nil_append, readStreamVarint]
      rw [toUInt8_toNat_lt n (by omega)]
      simp [hn, Nat.mod_eq_of_lt hn]
    · rw [varint_ge n hn]
      simp only [List.cons_append, readStreamVarint]
      rw [toUInt8_toNat_lt _ (by omega)]
      have h1 : ¬ (n % 128 + 128 < 128) := by omega
      have h2 : (n % 128 + 128) % 128 = n % 128 := by omega
      have h3 : ¬ (shift + 7 ≥ 64) := by omega
      simp only [h1, if_false, h2, h3]
      rw [ih fuel (n / 128) (shift + 7) _ rest]
      · rw [pow_split]
      · rw [Nat.pow_succ] at h
        omega
      · omega
      · omega

theorem readStreamVarint_varint_top (n : Nat) (h : n < 2 ^ 64) (rest : Bytes) :
    readStreamVarint 10 0 0 (varint n ++ rest) = .ok (some (n, rest)) := by
  rw [readStreamVarint_varint 9 10 n 0 0 rest (by
    have : (2:Nat) ^ 64 ≤ 128 ^ (9 + 1) := by decide
    omega) (by omega) (by omega)]
  simp [Nat.mod_eq_of_lt h]

/-! ## Field lists -/

/-- Canonical encoding of one field (only the two wire types the writer uses). -/
def encField : Field → Bytes
  | (n, .varint v) => tag n 0 ++ varint v
  | (n, .len p) => lenDelim n p
  | _ => []

def Field.numOk : Field → Prop
  | (n, .varint v) => 1 ≤ n ∧ n < 2 ^ 29 ∧ v < 2 ^ 64
  | (n, .len _) => 1 ≤ n ∧ n < 2 ^ 29
  | _ => False

theorem readVarint_nil : readVarint [] = none := by
  simp [readVarint, readVarintAux]

theorem splitFields_varint (fuel t v : Nat) (b rest r : Bytes)
    (hr : readVarint b = some (t, rest)) (hr2 : readVarint rest = some (v, r))
    (h0 : t / 8 ≠ 0) (ht : t < 2 ^ 32) (hw : t % 8 = 0) :
    splitFields (fuel + 1) b = (splitFields fuel r).map ((t / 8, .varint v) :: ·) := by
  cases b with
  | nil => rw [readVarint_nil] at hr; cases hr
  | cons x xs =>
    simp only [splitFields, hr, hr2]
    have ht' : ¬ (t ≥ 2 ^ 32) := by omega
    simp [h0, ht', hw]

theorem splitFields_len (fuel t n : Nat) (b rest r : Bytes)
    (hr : readVarint b = some (t, rest)) (hr2 : readVarint rest = some (n, r))
    (h0 : t / 8 ≠ 0) (ht : t < 2 ^ 32) (hw : t % 8 = 2) (hn : n ≤ r.length) :
    splitFields (fuel + 1) b = (splitFields fuel (r.drop n)).map ((t / 8, .len (r.take n)) :: ·) := by
  cases b with
  | nil => rw [readVarint_nil] at hr; cases hr
  | cons x xs =>
    simp only [splitFields, hr, hr2]
    have ht' : ¬ (t ≥ 2 ^ 32) := by omega
    have hn' : ¬ (r.length < n) := by omega
    simp [h0, ht', hw, hn']

theorem encField_length_pos (f : Field) (h : f.numOk) : 0 < (encField f).length := by
  obtain ⟨n, v⟩ := f
  cases v with
  | varint v =>
    have := varint_length_pos (n * 8 + 0)
    simp only [encField, tag, List.length_append]; omega
  | len p =>
    have := varint_length_pos (n * 8 + 2)
    simp only [encField, lenDelim, tag, List.length_append]; omega
  | fixed64 => exact absurd h (by simp [Field.numOk])
  | fixed32 => exact absurd h (by simp [Field.numOk])

theorem flatMap_encField_length (fs : List Field) (h : ∀ f ∈ fs, f.numOk) :
    fs.length ≤ (fs.flatMap encField).length := by
  induction fs with
  | nil => simp
  | cons f fs ih =>
    have h1 := encField_length_pos f (h f (by simp))
    have h2 := ih (fun g hg => h g (by simp [hg]))
    simp only [List.flatMap_cons, List.length_append, List.length_cons]
    omega

theorem splitFields_flatMap (fs : List Field) : ∀ fuel, fs.length < fuel → (∀ f ∈ fs, f.numOk) →
    (fs.flatMap encField).length < 2 ^ 64 → splitFields fuel (fs.flatMap encField) = some fs := by
  induction fs with
  | nil =>
    intro fuel hf _ _
    obtain ⟨fuel, rfl⟩ : ∃ f, fuel = f + 1 := ⟨fuel - 1, by omega⟩
    simp [splitFields]
  | cons f fs ih =>
    intro fuel hf hok hlen
    obtain ⟨fuel, rfl⟩ : ∃ f, fuel = f + 1 := ⟨fuel - 1, by omega⟩
    have hokf := hok f (by simp)
    have hoks : ∀ g ∈ fs, g.numOk := fun g hg => hok g (by simp [hg])
    simp only [List.flatMap_cons, List.length_append] at hlen
    simp only [List.length_cons] at hf
    have ihs := ih fuel (by omega) hoks (by omega)
    obtain ⟨n, v⟩ := f
    cases v with
    | varint v =>
      obtain ⟨h1, h2, h3⟩ := hokf
      rw [List.flatMap_cons]
      have e2 : encField (n, WireVal.varint v) ++ fs.flatMap encField
          = varint (n * 8 + 0) ++ (varint v ++ fs.flatMap encField) := by
        simp [encField, tag]
      rw [e2, splitFields_varint fuel (n * 8 + 0) v _ _ _
        (readVarint_varint _ (by omega) _) (readVarint_varint _ h3 _) (by omega) (by omega) (by omega), ihs]
      have : (n * 8 + 0) / 8 = n := by omega
      simp
    | len p =>
      obtain ⟨h1, h2⟩ := hokf
      rw [List.flatMap_cons]
      have e2 : encField (n, WireVal.len p) ++ fs.flatMap encField
          = varint (n * 8 + 2) ++ (varint p.length ++ (p ++ fs.flatMap encField)) := by
        simp [encField, lenDelim, tag]
      have hp : p.length < 2 ^ 64 := by
        simp only [encField, lenDelim, List.length_append] at hlen; omega
      rw [e2, splitFields_len fuel (n * 8 + 2) p.length _ _ _
        (readVarint_varint _ (by omega) _) (readVarint_varint _ hp _) (by omega) (by omega) (by omega)
        (by simp)]
      have : (n * 8 + 2) / 8 = n := by omega
      simp [this, ihs]
    | fixed64 => exact absurd hokf (by simp [Field.numOk])
    | fixed32 => exact absurd hokf (by simp [Field.numOk])

theorem fieldsOf_flatMap (fs : List Field) (hok : ∀ f ∈ fs, f.numOk)
    (hlen : (fs.flatMap encField).length < 2 ^ 64) : fieldsOf (fs.flatMap encField) = .ok fs := by
  unfold fieldsOf
  rw [splitFields_flatMap fs _ (by have := flatMap_encField_length fs hok; omega) hok hlen]

/-! ## Messages -/

def AllOk (fs : List Field) : Prop := ∀ f ∈ fs, f.numOk

theorem AllOk.nil : AllOk [] := by intro f hf; cases hf
theorem AllOk.append {a b : List Field} (ha : AllOk a) (hb : AllOk b) : AllOk (a ++ b) := by
  intro f hf
  rcases List.mem_append.mp hf with h | h
  · exact ha f h
  · exact hb f h
theorem AllOk.len (k : Nat) (p : Bytes) (h1 : 1 ≤ k) (h2 : k < 2 ^ 29) : AllOk [(k, .len p)] := by
  intro f hf
  simp only [List.mem_singleton] at hf
  subst hf
  exact ⟨h1, h2⟩
theorem AllOk.varint (k v : Nat) (h1 : 1 ≤ k) (h2 : k < 2 ^ 29) (hv : v < 2 ^ 64) :
    AllOk [(k, .varint v)] := by
  intro f hf
  simp only [List.mem_singleton] at hf
  subst hf
  exact ⟨h1, h2, hv⟩

def uintFields (k n : Nat) : List Field := if n == 0 then [] else [(k, .varint n)]
def boolFields (k : Nat) (b : Bool) : List Field := if b then [(k, .varint 1)] else []
def strFields (k : Nat) (s : String) : List Field := if s == "" then [] else [(k, .len (utf8 s))]

theorem uintField_eq (k n : Nat) : uintField k n = (uintFields k n).flatMap encField := by
  unfold uintField uintFields
  split <;> simp [encField]

theorem boolField_eq (k : Nat) (b : Bool) : boolField k b = (boolFields k b).flatMap encField := by
  unfold boolField boolFields
  have : varint 1 = [1] := by rw [varint_lt 1 (by omega)]; rfl
  split <;> simp [encField, this]

theorem strField_eq (k : Nat) (s : String) : strField k s = (strFields k s).flatMap encField := by
  unfold strField strFields
  split <;> simp [encField]

theorem uintFields_ok (k n : Nat) (h1 : 1 ≤ k) (h2 : k < 2 ^ 29) (hv : n < 2 ^ 64) :
    AllOk (uintFields k n) := by
  unfold uintFields
  split
  · exact AllOk.nil
  · exact AllOk.varint k n h1 h2 hv

theorem boolFields_ok (k : Nat) (b : Bool) (h1 : 1 ≤ k) (h2 : k < 2 ^ 29) :
    AllOk (boolFields k b) := by
  unfold boolFields
  split
  · exact AllOk.varint k 1 h1 h2 (by omega)
  · exact AllOk.nil

theorem strFields_ok (k : Nat) (s : String) (h1 : 1 ≤ k) (h2 : k < 2 ^ 29) :
    AllOk (strFields k s) := by
  unfold strFields
  split
  · exact AllOk.nil
  · exact AllOk.len k _ h1 h2

theorem u32_of_lt (n : Nat) (h : n < 2 ^ 32) : u32 n = n := Nat.mod_eq_of_lt h

theorem decIriInto_enc (p n : Nat) (hp : p < 2 ^ 32) (hn : n < 2 ^ 32)
    (hlen : (encIri p n).length < 2 ^ 64) : decIriInto (0, 0) (encIri p n) = .ok (p, n) := by
  have e : encIri p n = (uintFields 1 p ++ uintFields 2 n).flatMap encField := by
    simp [encIri, uintField_eq]
  have hok : AllOk (uintFields 1 p ++ uintFields 2 n) :=
    (uintFields_ok 1 p (by omega) (by omega) (by omega)).append
      (uintFields_ok 2 n (by omega) (by omega) (by omega))
  rw [e] at hlen ⊢
  unfold decIriInto
  rw [fieldsOf_flatMap _ hok hlen]
  simp only [bind, Except.bind, pure, Except.pure, uintFields]
  by_cases h1 : p = 0 <;> by_cases h2 : n = 0 <;> simp [h1, h2, u32_of_lt, hp, hn]

theorem fieldsOf_nil : fieldsOf [] = .ok [] := by simp [fieldsOf, splitFields]

/-! ### Literals -/

def litKindFields : WLitKind → List Field
  | .plain => []
  | .lang l => [(2, .len (utf8 l))]
  | .dt id => [(3, .varint id)]

def WLitKind.wf : WLitKind → Prop
  | .dt id => id < 2 ^ 32
  | _ => True

theorem encLiteral_eq (lex : String) (k : WLitKind) :
    encLiteral lex k = (strFields 1 lex ++ litKindFields k).flatMap encField := by
  cases k <;> simp [encLiteral, litKindFields, strField_eq, encField]

theorem litFields_ok (lex : String) (k : WLitKind) (hk : k.wf) :
    AllOk (strFields 1 lex ++ litKindFields k) := by
  refine (strFields_ok 1 lex (by omega) (by omega)).append ?_
  cases k with
  | plain => exact AllOk.nil
  | lang l => exact AllOk.len 2 _ (by omega) (by omega)
  | dt id => exact AllOk.varint 3 id (by omega) (by omega) (by simp only [WLitKind.wf] at hk; omega)

theorem decLiteralInto_enc (lex : String) (k : WLitKind) (hk : k.wf)
    (hlen : (encLiteral lex k).length < 2 ^ 64) :
    decLiteralInto ("", .plain) (encLiteral lex k) = .ok (lex, k) := by
  rw [encLiteral_eq] at hlen ⊢
  unfold decLiteralInto
  rw [fieldsOf_flatMap _ (litFields_ok lex k hk) hlen]
  simp only [bind, Except.bind, strFields]
  by_cases h1 : lex = ""
  · cases k with
    | plain => simp [h1, litKindFields, pure, Except.pure]
    | lang l => simp [h1, litKindFields, pure, Except.pure, decStr_utf8, bind, Except.bind]
    | dt id =>
      simp only [WLitKind.wf] at hk
      simp [h1, litKindFields, pure, Except.pure, bind, Except.bind, u32_of_lt, hk]
  · cases k with
    | plain => simp [h1, litKindFields, pure, Except.pure, decStr_utf8, bind, Except.bind]
    | lang l => simp [h1, litKindFields, pure, Except.pure, decStr_utf8, bind, Except.bind]
    | dt id =>
      simp only [WLitKind.wf] at hk
      simp [h1, litKindFields, pure, Except.pure, bind, Except.bind, u32_of_lt, hk, decStr_utf8]

/-! ### Lookup entries -/

theorem encEntry_eq (id : Nat) (v : String) :
    encEntry id v = (uintFields 1 id ++ strFields 2 v).flatMap encField := by
  simp [encEntry, uintField_eq, strField_eq]

theorem decEntryInto_enc (id : Nat) (v : String) (hid : id < 2 ^ 32)
    (hlen : (encEntry id v).length < 2 ^ 64) :
    decEntryInto (0, "") (encEntry id v) = .ok (id, v) := by
  rw [encEntry_eq] at hlen ⊢
  unfold decEntryInto
  rw [fieldsOf_flatMap _ ((uintFields_ok 1 id (by omega) (by omega) (by omega)).append
    (strFields_ok 2 v (by omega) (by omega))) hlen]
  simp only [bind, Except.bind, strFields, uintFields]
  by_cases h1 : id = 0 <;> by_cases h2 : v = "" <;>
    simp [h1, h2, pure, Except.pure, bind, Except.bind, u32_of_lt, hid, decStr_utf8]

/-! ### Options -/

def optStep (o : Options) (f : Field) : Except PyErr Options :=
    match f with
    | (1, .len p) => do let s ← decStr p; pure { o with streamName := s }
    | (2, .varint v) => pure { o with physicalType := u32 v }
    | (3, .varint v) => pure { o with generalized := v != 0 }
    | (4, .varint v) => pure { o with rdfStar := v != 0 }
    | (9, .varint v) => pure { o with maxNames := u32 v }
    | (10, .varint v) => pure { o with maxPrefixes := u32 v }
    | (11, .varint v) => pure { o with maxDatatypes := u32 v }
    | (14, .varint v) => pure { o with logicalType := u32 v }
    | (15, .varint v) => pure { o with version := u32 v }
    | _ => pure o

theorem decOptionsInto_eq (init : Options) (b : Bytes) :
    decOptionsInto init b = (do let fs ← fieldsOf b; fs.foldlM optStep init) := rfl

theorem optStep_streamName (a : Options) (v : String) (ha : a.streamName = "") :
    (strFields 1 v).foldlM optStep a = .ok { a with streamName := v } := by
  unfold strFields
  by_cases h : v = ""
  · subst h; cases a; simp_all [pure, Except.pure]
  · simp [h, optStep, pure, Except.pure, bind, Except.bind, decStr_utf8]

theorem optStep_physicalType (a : Options) (v : Nat) (hv : v < 2 ^ 32) (ha : a.physicalType = 0) :
    (uintFields 2 v).foldlM optStep a = .ok { a with physicalType := v } := by
  unfold uintFields
  by_cases h : v = 0
  · subst h; cases a; simp_all [pure, Except.pure]
  · simp [h, optStep, pure, Except.pure, bind, Except.bind, u32_of_lt, hv]

theorem optStep_maxNames (a : Options) (v : Nat) (hv : v < 2 ^ 32) (ha : a.maxNames = 0) :
    (uintFields 9 v).foldlM optStep a = .ok { a with maxNames := v } := by
  unfold uintFields
  by_cases h : v = 0
  · subst h; cases a; simp_all [pure, Except.pure]
  · simp [h, optStep, pure, Except.pure, bind, Except.bind, u32_of_lt, hv]

theorem optStep_maxPrefixes (a : Options) (v : Nat) (hv : v < 2 ^ 32) (ha : a.maxPrefixes = 0) :
    (uintFields 10 v).foldlM optStep a = .ok { a with maxPrefixes := v } := by
  unfold uintFields
  by_cases h : v = 0
  · subst h; cases a; simp_all [pure, Except.pure]
  · simp [h, optStep, pure, Except.pure, bind, Except.bind, u32_of_lt, hv]

theorem optStep_maxDatatypes (a : Options) (v : Nat) (hv : v < 2 ^ 32) (ha : a.maxDatatypes = 0) :
    (uintFields 11 v).foldlM optStep a = .ok { a with maxDatatypes := v } := by
  unfold uintFields
  by_cases h : v = 0
  · subst h; cases a; simp_all [pure, Except.pure]
  · simp [h, optStep, pure, Except.pure, bind, Except.bind, u32_of_lt, hv]

theorem optStep_logicalType (a : Options) (v : Nat) (hv : v < 2 ^ 32) (ha : a.logicalType = 0) :
    (uintFields 14 v).foldlM optStep a = .ok { a with logicalType := v } := by
  unfold uintFields
  by_cases h : v = 0
  · subst h; cases a; simp_all [pure, Except.pure]
  · simp [h, optStep, pure, Except.pure, bind, Except.bind, u32_of_lt, hv]

theorem optStep_version (a : Options) (v : Nat) (hv : v < 2 ^ 32) (ha : a.version = 0) :
    (uintFields 15 v).foldlM optStep a = .ok { a with version := v } := by
  unfold uintFields
  by_cases h : v = 0
  · subst h; cases a; simp_all [pure, Except.pure]
  · simp [h, optStep, pure, Except.pure, bind, Except.bind, u32_of_lt, hv]

theorem optStep_generalized (a : Options) (v : Bool) (ha : a.generalized = false) :
    (boolFields 3 v).foldlM optStep a = .ok { a with generalized := v } := by
  unfold boolFields
  cases v
  · cases a; simp_all [pure, Except.pure]
  · simp [optStep, pure, Except.pure, bind, Except.bind]

theorem optStep_rdfStar (a : Options) (v : Bool) (ha : a.rdfStar = false) :
    (boolFields 4 v).foldlM optStep a = .ok { a with rdfStar := v } := by
  unfold boolFields
  cases v
  · cases a; simp_all [pure, Except.pure]
  · simp [optStep, pure, Except.pure, bind, Except.bind]

def optionsFields (o : Options) : List Field :=
  strFields 1 o.streamName ++ uintFields 2 o.physicalType ++ boolFields 3 o.generalized ++
  boolFields 4 o.rdfStar ++ uintFields 9 o.maxNames ++ uintFields 10 o.maxPrefixes ++
  uintFields 11 o.maxDatatypes ++ uintFields 14 o.logicalType ++ uintFields 15 o.version

theorem encOptions_eq (o : Options) : encOptions o = (optionsFields o).flatMap encField := by
  simp [encOptions, optionsFields, uintField_eq, strField_eq, boolField_eq]

structure Options.wf32 (o : Options) : Prop where
  h1 : o.physicalType < 2 ^ 32
  h2 : o.maxNames < 2 ^ 32
  h3 : o.maxPrefixes < 2 ^ 32
  h4 : o.maxDatatypes < 2 ^ 32
  h5 : o.logicalType < 2 ^ 32
  h6 : o.version < 2 ^ 32

theorem optionsFields_ok (o : Options) (h : o.wf32) : AllOk (optionsFields o) := by
  obtain ⟨h1, h2, h3, h4, h5, h6⟩ := h
  unfold optionsFields
  refine AllOk.append (AllOk.append (AllOk.append (AllOk.append (AllOk.append (AllOk.append
    (AllOk.append (AllOk.append ?_ ?_) ?_) ?_) ?_) ?_) ?_) ?_) ?_
  · exact strFields_ok _ _ (by omega) (by omega)
  · exact uintFields_ok _ _ (by omega) (by omega) (by omega)
  · exact boolFields_ok _ _ (by omega) (by omega)
  · exact boolFields_ok _ _ (by omega) (by omega)
  · exact uintFields_ok _ _ (by omega) (by omega) (by omega)
  · exact uintFields_ok _ _ (by omega) (by omega) (by omega)
  · exact uintFields_ok _ _ (by omega) (by omega) (by omega)
  · exact uintFields_ok _ _ (by omega) (by omega) (by omega)
  · exact uintFields_ok _ _ (by omega) (by omega) (by omega)

theorem decOptionsInto_enc (o : Options) (h : o.wf32) (hlen : (encOptions o).length < 2 ^ 64) :
    decOptionsInto {} (encOptions o) = .ok o := by
  rw [encOptions_eq] at hlen ⊢
  rw [decOptionsInto_eq, fieldsOf_flatMap _ (optionsFields_ok o h) hlen]
  obtain ⟨h1, h2, h3, h4, h5, h6⟩ := h
  simp only [bind, Except.bind, optionsFields, List.foldlM_append]
  rw [optStep_streamName _ _ rfl]; simp only []
  rw [optStep_physicalType _ _ h1 rfl]; simp only []
  rw [optStep_generalized _ _ rfl]; simp only []
  rw [optStep_rdfStar _ _ rfl]; simp only []
  rw [optStep_maxNames _ _ h2 rfl]; simp only []
  rw [optStep_maxPrefixes _ _ h3 rfl]; simp only []
  rw [optStep_maxDatatypes _ _ h4 rfl]; simp only []
  rw [optStep_logicalType _ _ h5 rfl]; simp only []
  rw [optStep_version _ _ h6 rfl]

/-! ### Graph terms -/

theorem lenDelim_payload_lt {k : Nat} {p : Bytes} {N : Nat} (h : (lenDelim k p).length < N) :
    p.length < N := by
  simp only [lenDelim, List.length_append] at h; omega

theorem encField_len (k : Nat) (p : Bytes) : encField (k, .len p) = lenDelim k p := rfl

def WTerm.GraphOk : WTerm → Prop
  | .iri p n => p < 2 ^ 32 ∧ n < 2 ^ 32
  | .bnode _ => True
  | .defaultGraph => True
  | .literal _ k => k.wf
  | .triple _ _ _ => False

def OptGraphOk : Option WTerm → Prop
  | none => True
  | some t => t.GraphOk

def graphFields (base : Nat) : WTerm → List Field
  | .iri p n => [(base, .len (encIri p n))]
  | .bnode s => [(base + 1, .len (utf8 s))]
  | .defaultGraph => [(base + 2, .len [])]
  | .literal lex k => [(base + 3, .len (encLiteral lex k))]
  | .triple _ _ _ => []

def optGraphFields (base : Nat) : Option WTerm → List Field
  | none => []
  | some t => graphFields base t

theorem encGraphTerm_eq (base : Nat) (t : WTerm) :
    encGraphTerm base t = (graphFields base t).flatMap encField := by
  cases t <;> simp [encGraphTerm, graphFields, encField]

theorem optGraph_eq (base : Nat) (g : Option WTerm) :
    (match g with | some t => encGraphTerm base t | none => []) = (optGraphFields base g).flatMap encField := by
  cases g <;> simp [optGraphFields, encGraphTerm_eq]

theorem optGraphFields_ok (base : Nat) (g : Option WTerm) (h1 : 1 ≤ base) (h2 : base + 3 < 2 ^ 29) :
    AllOk (optGraphFields base g) := by
  cases g with
  | none => exact AllOk.nil
  | some t =>
    cases t with
    | triple => exact AllOk.nil
    | _ => exact AllOk.len _ _ (by omega) (by omega)

def gsStep (g : Option WTerm) (f : Field) : Except PyErr (Option WTerm) :=
    match f with
    | (1, .len p) => do let (a, b) ← decIriInto (iriInit g) p; pure (some (.iri a b))
    | (2, .len p) => do let s ← decStr p; pure (some (.bnode s))
    | (3, .len p) => do let _ ← fieldsOf p; pure (some .defaultGraph)
    | (4, .len p) => do let (l, k) ← decLiteralInto (litInit g) p; pure (some (.literal l k))
    | _ => pure g

theorem decGraphStartInto_eq (init : Option WTerm) (b : Bytes) :
    decGraphStartInto init b = (do let fs ← fieldsOf b; fs.foldlM gsStep init) := rfl

theorem decGraphStartInto_enc (g : Option WTerm) (hg : OptGraphOk g)
    (hlen : ((optGraphFields 1 g).flatMap encField).length < 2 ^ 64) :
    decGraphStartInto none ((optGraphFields 1 g).flatMap encField) = .ok g := by
  rw [decGraphStartInto_eq, fieldsOf_flatMap _ (optGraphFields_ok 1 g (by omega) (by omega)) hlen]
  simp only [bind, Except.bind]
  cases g with
  | none => rfl
  | some t =>
    cases t with
    | iri p n =>
      obtain ⟨hp, hn⟩ := hg
      have hl := lenDelim_payload_lt (by simpa [optGraphFields, graphFields, encField] using hlen : (lenDelim 1 (encIri p n)).length < 2 ^ 64)
      simp [optGraphFields, graphFields, gsStep, iriInit, decIriInto_enc p n hp hn hl, bind, Except.bind, pure, Except.pure]
    | bnode s =>
      simp [optGraphFields, graphFields, gsStep, decStr_utf8, bind, Except.bind, pure, Except.pure]
    | defaultGraph =>
      simp [optGraphFields, graphFields, gsStep, fieldsOf_nil, bind, Except.bind, pure, Except.pure]
    | literal lex k =>
      have hl := lenDelim_payload_lt (by simpa [optGraphFields, graphFields, encField] using hlen : (lenDelim 4 (encLiteral lex k)).length < 2 ^ 64)
      simp [optGraphFields, graphFields, gsStep, litInit, decLiteralInto_enc lex k hg hl, bind, Except.bind, pure, Except.pure]
    | triple => exact absurd hg (by simp [OptGraphOk, WTerm.GraphOk])

/-! ### Namespace declarations -/

def nsIriFields : Option (Nat × Nat) → List Field
  | some (p, n) => [(2, .len (encIri p n))]
  | none => []

def nsStep (acc : String × Option (Nat × Nat)) (f : Field) : Except PyErr (String × Option (Nat × Nat)) :=
    match f with
    | (1, .len p) => do let s ← decStr p; pure (s, acc.2)
    | (2, .len p) => do let v ← decIriInto (acc.2.getD (0, 0)) p; pure (acc.1, some v)
    | _ => pure acc

theorem decNamespaceInto_eq (init : String × Option (Nat × Nat)) (b : Bytes) :
    decNamespaceInto init b = (do let fs ← fieldsOf b; fs.foldlM nsStep init) := rfl

def NsIriOk : Option (Nat × Nat) → Prop
  | some (p, n) => p < 2 ^ 32 ∧ n < 2 ^ 32
  | none => True

theorem nsBody_eq (name : String) (iri : Option (Nat × Nat)) :
    strField 1 name ++ (match iri with | some (p, n) => lenDelim 2 (encIri p n) | none => [])
      = (strFields 1 name ++ nsIriFields iri).flatMap encField := by
  cases iri with
  | none => simp [nsIriFields, strField_eq]
  | some pn => obtain ⟨p, n⟩ := pn; simp [nsIriFields, strField_eq, encField]

theorem decNamespaceInto_enc (name : String) (iri : Option (Nat × Nat)) (hi : NsIriOk iri)
    (hlen : ((strFields 1 name ++ nsIriFields iri).flatMap encField).length < 2 ^ 64) :
    decNamespaceInto ("", none) ((strFields 1 name ++ nsIriFields iri).flatMap encField) = .ok (name, iri) := by
  have hok : AllOk (strFields 1 name ++ nsIriFields iri) := by
    refine (strFields_ok 1 name (by omega) (by omega)).append ?_
    cases iri with
    | none => exact AllOk.nil
    | some pn => exact AllOk.len _ _ (by omega) (by omega)
  rw [decNamespaceInto_eq, fieldsOf_flatMap _ hok hlen]
  simp only [bind, Except.bind, strFields]
  cases iri with
  | none =>
    by_cases h1 : name = "" <;>
      simp [h1, nsIriFields, nsStep, decStr_utf8, bind, Except.bind, pure, Except.pure]
  | some pn =>
    obtain ⟨p, n⟩ := pn
    obtain ⟨hp, hn⟩ := hi
    have hl : (encIri p n).length < 2 ^ 64 := by
      simp only [List.flatMap_append, List.length_append, nsIriFields, List.flatMap_cons,
        List.flatMap_nil, List.append_nil, encField_len] at hlen
      exact lenDelim_payload_lt (N := 2 ^ 64) (k := 2) (by omega)
    by_cases h1 : name = "" <;>
      simp [h1, nsIriFields, nsStep, decStr_utf8, decIriInto_enc p n hp hn hl, bind, Except.bind, pure, Except.pure]

/-! ### Statements -/

/-- `SpoOk d t`: `t` can sit in subject/predicate/object position (ids are uint32, no default-graph
    marker) and its quoted triples nest at most `d` deep. -/
inductive SpoOk : Nat → WTerm → Prop
  | iri (d p n : Nat) : p < 2 ^ 32 → n < 2 ^ 32 → SpoOk d (.iri p n)
  | bnode (d : Nat) (s : String) : SpoOk d (.bnode s)
  | literal (d : Nat) (lex : String) (k : WLitKind) : k.wf → SpoOk d (.literal lex k)
  | triple (d : Nat) (s p o : Option WTerm) :
      (∀ t, s = some t → SpoOk d t) → (∀ t, p = some t → SpoOk d t) → (∀ t, o = some t → SpoOk d t) →
      SpoOk (d + 1) (.triple s p o)

def OptOk (d : Nat) (o : Option WTerm) : Prop := ∀ t, o = some t → SpoOk d t

def spoFields (base : Nat) : WTerm → List Field
  | .iri p n => [(base, .len (encIri p n))]
  | .bnode s => [(base + 1, .len (utf8 s))]
  | .literal lex k => [(base + 2, .len (encLiteral lex k))]
  | .triple s p o => [(base + 3, .len (encTripleBody s p o))]
  | .defaultGraph => []

def optSpoFields (base : Nat) : Option WTerm → List Field
  | none => []
  | some t => spoFields base t

theorem encSpoTerm_eq (base : Nat) (t : WTerm) :
    encSpoTerm base t = (spoFields base t).flatMap encField := by
  cases t <;> simp [encSpoTerm, spoFields, encField, encTripleBody]

theorem encOptSpo_eq (base : Nat) (o : Option WTerm) :
    encOptSpo base o = (optSpoFields base o).flatMap encField := by
  cases o <;> simp [encOptSpo, optSpoFields, encSpoTerm_eq]

theorem optSpoFields_ok (base : Nat) (o : Option WTerm) (h1 : 1 ≤ base) (h2 : base + 3 < 2 ^ 29) :
    AllOk (optSpoFields base o) := by
  cases o with
  | none => exact AllOk.nil
  | some t =>
    cases t with
    | defaultGraph => exact AllOk.nil
    | _ => exact AllOk.len _ _ (by omega) (by omega)

def tripleFields (s p o : Option WTerm) : List Field :=
  optSpoFields 1 s ++ optSpoFields 5 p ++ optSpoFields 9 o

theorem encTripleBody_eq (s p o : Option WTerm) :
    encTripleBody s p o = (tripleFields s p o).flatMap encField := by
  simp [encTripleBody, tripleFields, encOptSpo_eq]

theorem tripleFields_ok (s p o : Option WTerm) : AllOk (tripleFields s p o) :=
  ((optSpoFields_ok 1 s (by omega) (by omega)).append (optSpoFields_ok 5 p (by omega) (by omega))).append
    (optSpoFields_ok 9 o (by omega) (by omega))

def stmtStep (depth : Nat) (quad : Bool) (m : StmtMsg) (f : Field) : Except PyErr StmtMsg := do
      let (n, v) := f
      if 1 ≤ n && n ≤ 4 then
        match ← decSpoMember (decStmtInto depth false) m.s (n - 1) v with
        | some t => pure { m with s := t }
        | none => pure m
      else if 5 ≤ n && n ≤ 8 then
        match ← decSpoMember (decStmtInto depth false) m.p (n - 5) v with
        | some t => pure { m with p := t }
        | none => pure m
      else if 9 ≤ n && n ≤ 12 then
        match ← decSpoMember (decStmtInto depth false) m.o (n - 9) v with
        | some t => pure { m with o := t }
        | none => pure m
      else if quad then
        match n, v with
        | 13, .len p => do let (a, b) ← decIriInto (iriInit m.g) p; pure { m with g := some (.iri a b) }
        | 14, .len p => do let s ← decStr p; pure { m with g := some (.bnode s) }
        | 15, .len p => do let _ ← fieldsOf p; pure { m with g := some .defaultGraph }
        | 16, .len p => do let (l, k) ← decLiteralInto (litInit m.g) p; pure { m with g := some (.literal l k) }
        | _, _ => pure m
      else pure m

theorem decStmtInto_succ (depth : Nat) (quad : Bool) (init : StmtMsg) (b : Bytes) :
    decStmtInto (depth + 1) quad init b
      = (do let fs ← fieldsOf b; fs.foldlM (stmtStep depth quad) init) := rfl

/-- What the recursive parser passed to `decSpoMember` must satisfy at nesting budget `D`. -/
def RecOk (D : Nat) (rec : StmtMsg → Bytes → Except PyErr StmtMsg) : Prop :=
  ∀ D', D = D' + 1 → ∀ s p o, OptOk D' s → OptOk D' p → OptOk D' o →
    (encTripleBody s p o).length < 2 ^ 64 → rec {} (encTripleBody s p o) = .ok { s := s, p := p, o := o }

theorem decSpoMember_enc (D : Nat) (rec : StmtMsg → Bytes → Except PyErr StmtMsg) (hrec : RecOk D rec)
    (base : Nat) (t : WTerm) (ht : SpoOk D t)
    (hlen : ((spoFields base t).flatMap encField).length < 2 ^ 64) :
    ∃ n v, spoFields base t = [(n, v)] ∧ base ≤ n ∧ n ≤ base + 3 ∧
      decSpoMember rec none (n - base) v = .ok (some (some t)) := by
  cases ht with
  | iri d p n hp hn =>
    refine ⟨base, _, rfl, by omega, by omega, ?_⟩
    have hl := lenDelim_payload_lt (by simpa [spoFields, encField] using hlen : (lenDelim base (encIri p n)).length < 2 ^ 64)
    simp [decSpoMember, iriInit, decIriInto_enc p n hp hn hl, bind, Except.bind, pure, Except.pure]
  | bnode d s =>
    refine ⟨base + 1, _, rfl, by omega, by omega, ?_⟩
    simp [decSpoMember, decStr_utf8, bind, Except.bind, pure, Except.pure]
  | literal d lex k hk =>
    refine ⟨base + 2, _, rfl, by omega, by omega, ?_⟩
    have hl := lenDelim_payload_lt (by simpa [spoFields, encField] using hlen : (lenDelim (base + 2) (encLiteral lex k)).length < 2 ^ 64)
    simp [decSpoMember, litInit, decLiteralInto_enc lex k hk hl, bind, Except.bind, pure, Except.pure]
  | triple d s p o hs hp ho =>
    refine ⟨base + 3, _, rfl, by omega, by omega, ?_⟩
    have hl := lenDelim_payload_lt (by simpa [spoFields, encField] using hlen : (lenDelim (base + 3) (encTripleBody s p o)).length < 2 ^ 64)
    have := hrec d rfl s p o hs hp ho hl
    simp [decSpoMember, this, bind, Except.bind, pure, Except.pure]

theorem flatMap_length_left {a b : List Field} {N : Nat}
    (h : ((a ++ b).flatMap encField).length < N) : (a.flatMap encField).length < N := by
  simp only [List.flatMap_append, List.length_append] at h; omega

theorem flatMap_length_right {a b : List Field} {N : Nat}
    (h : ((a ++ b).flatMap encField).length < N) : (b.flatMap encField).length < N := by
  simp only [List.flatMap_append, List.length_append] at h; omega

theorem stmtStep_s (D : Nat) (q : Bool) (hrec : RecOk D (decStmtInto D false)) (m : StmtMsg)
    (hm : m.s = none) (s : Option WTerm) (hs : OptOk D s)
    (hlen : ((optSpoFields 1 s).flatMap encField).length < 2 ^ 64) :
    (optSpoFields 1 s).foldlM (stmtStep D q) m = .ok { m with s := s } := by
  cases s with
  | none => cases m; simp_all [optSpoFields, pure, Except.pure]
  | some t =>
    obtain ⟨n, v, e, h1, h2, hd⟩ := decSpoMember_enc D _ hrec 1 t (hs t rfl) hlen
    simp only [optSpoFields, e, List.foldlM_cons, List.foldlM_nil]
    have c1 : 1 ≤ n := h1
    have c2 : n ≤ 4 := by omega
    simp [stmtStep, c1, c2, hm, hd, bind, Except.bind, pure, Except.pure]

theorem stmtStep_p (D : Nat) (q : Bool) (hrec : RecOk D (decStmtInto D false)) (m : StmtMsg)
    (hm : m.p = none) (p : Option WTerm) (hs : OptOk D p)
    (hlen : ((optSpoFields 5 p).flatMap encField).length < 2 ^ 64) :
    (optSpoFields 5 p).foldlM (stmtStep D q) m = .ok { m with p := p } := by
  cases p with
  | none => cases m; simp_all [optSpoFields, pure, Except.pure]
  | some t =>
    obtain ⟨n, v, e, h1, h2, hd⟩ := decSpoMember_enc D _ hrec 5 t (hs t rfl) hlen
    simp only [optSpoFields, e, List.foldlM_cons, List.foldlM_nil]
    have c0 : ¬ n ≤ 4 := by omega
    have c1 : 5 ≤ n := h1
    have c2 : n ≤ 8 := by omega
    simp [stmtStep, c0, c1, c2, hm, hd, bind, Except.bind, pure, Except.pure]

theorem stmtStep_o (D : Nat) (q : Bool) (hrec : RecOk D (decStmtInto D false)) (m : StmtMsg)
    (hm : m.o = none) (o : Option WTerm) (hs : OptOk D o)
    (hlen : ((optSpoFields 9 o).flatMap encField).length < 2 ^ 64) :
    (optSpoFields 9 o).foldlM (stmtStep D q) m = .ok { m with o := o } := by
  cases o with
  | none => cases m; simp_all [optSpoFields, pure, Except.pure]
  | some t =>
    obtain ⟨n, v, e, h1, h2, hd⟩ := decSpoMember_enc D _ hrec 9 t (hs t rfl) hlen
    simp only [optSpoFields, e, List.foldlM_cons, List.foldlM_nil]
    have c0 : ¬ n ≤ 4 := by omega
    have c0' : ¬ n ≤ 8 := by omega
    have c1 : 9 ≤ n := h1
    have c2 : n ≤ 12 := by omega
    simp [stmtStep, c0, c0', c1, c2, hm, hd, bind, Except.bind, pure, Except.pure]

theorem stmt_fold_spo (D : Nat) (q : Bool) (hrec : RecOk D (decStmtInto D false))
    (s p o : Option WTerm) (hs : OptOk D s) (hp : OptOk D p) (ho : OptOk D o)
    (hlen : ((tripleFields s p o).flatMap encField).length < 2 ^ 64) :
    (tripleFields s p o).foldlM (stmtStep D q) {} = .ok { s := s, p := p, o := o } := by
  unfold tripleFields at hlen ⊢
  simp only [List.foldlM_append, bind, Except.bind]
  rw [stmtStep_s D q hrec _ rfl s hs (flatMap_length_left (flatMap_length_left hlen))]
  simp only []
  rw [stmtStep_p D q hrec _ rfl p hp (flatMap_length_right (flatMap_length_left hlen))]
  simp only []
  rw [stmtStep_o D q hrec _ rfl o ho (flatMap_length_right hlen)]

theorem recOk_all (D : Nat) : RecOk D (decStmtInto D false) := by
  induction D with
  | zero => intro D' h; omega
  | succ D ih =>
    intro D' h s p o hs hp ho hlen
    obtain rfl : D = D' := by omega
    rw [encTripleBody_eq] at hlen ⊢
    rw [decStmtInto_succ, fieldsOf_flatMap _ (tripleFields_ok s p o) hlen]
    simp only [bind, Except.bind]
    exact stmt_fold_spo D false ih s p o hs hp ho hlen

theorem decStmtInto_triple (D : Nat) (s p o : Option WTerm) (hs : OptOk D s) (hp : OptOk D p)
    (ho : OptOk D o) (hlen : (encTripleBody s p o).length < 2 ^ 64) :
    decStmtInto (D + 1) false {} (encTripleBody s p o) = .ok { s := s, p := p, o := o } :=
  recOk_all (D + 1) D rfl s p o hs hp ho hlen

/-! ### Quads -/

theorem stmtStep_g (D : Nat) (m : StmtMsg) (hm : m.g = none) (g : Option WTerm) (hg : OptGraphOk g)
    (hlen : ((optGraphFields 13 g).flatMap encField).length < 2 ^ 64) :
    (optGraphFields 13 g).foldlM (stmtStep D true) m = .ok { m with g := g } := by
  cases g with
  | none => cases m; simp_all [optGraphFields, pure, Except.pure]
  | some t =>
    cases t with
    | iri p n =>
      obtain ⟨hp, hn⟩ := hg
      have hl := lenDelim_payload_lt (by simpa [optGraphFields, graphFields, encField] using hlen : (lenDelim 13 (encIri p n)).length < 2 ^ 64)
      simp [optGraphFields, graphFields, stmtStep, hm, iriInit, decIriInto_enc p n hp hn hl, bind, Except.bind, pure, Except.pure]
    | bnode s =>
      simp [optGraphFields, graphFields, stmtStep, decStr_utf8, bind, Except.bind, pure, Except.pure]
    | defaultGraph =>
      simp [optGraphFields, graphFields, stmtStep, fieldsOf_nil, bind, Except.bind, pure, Except.pure]
    | literal lex k =>
      have hl := lenDelim_payload_lt (by simpa [optGraphFields, graphFields, encField] using hlen : (lenDelim 16 (encLiteral lex k)).length < 2 ^ 64)
      simp [optGraphFields, graphFields, stmtStep, hm, litInit, decLiteralInto_enc lex k hg hl, bind, Except.bind, pure, Except.pure]
    | triple => exact absurd hg (by simp [OptGraphOk, WTerm.GraphOk])

def quadFields (s p o g : Option WTerm) : List Field := tripleFields s p o ++ optGraphFields 13 g

theorem quadBody_eq (s p o g : Option WTerm) :
    encTripleBody s p o ++ (match g with | some t => encGraphTerm 13 t | none => [])
      = (quadFields s p o g).flatMap encField := by
  rw [optGraph_eq, encTripleBody_eq, quadFields, List.flatMap_append]

theorem decStmtInto_quad (D : Nat) (s p o g : Option WTerm) (hs : OptOk D s) (hp : OptOk D p)
    (ho : OptOk D o) (hg : OptGraphOk g)
    (hlen : ((quadFields s p o g).flatMap encField).length < 2 ^ 64) :
    decStmtInto (D + 1) true {} ((quadFields s p o g).flatMap encField)
      = .ok { s := s, p := p, o := o, g := g } := by
  have hok : AllOk (quadFields s p o g) :=
    (tripleFields_ok s p o).append (optGraphFields_ok 13 g (by omega) (by omega))
  rw [decStmtInto_succ, fieldsOf_flatMap _ hok hlen]
  unfold quadFields at hlen ⊢
  simp only [bind, Except.bind, List.foldlM_append]
  rw [stmt_fold_spo D true (recOk_all D) s p o hs hp ho (flatMap_length_left hlen)]
  simp only []
  rw [stmtStep_g D _ rfl g hg (flatMap_length_right hlen)]

/-! ### Rows -/

def Row.Ok : Row → Prop
  | .options o => o.wf32
  | .triple s p o => OptOk 98 s ∧ OptOk 98 p ∧ OptOk 98 o
  | .quad s p o g => OptOk 98 s ∧ OptOk 98 p ∧ OptOk 98 o ∧ OptGraphOk g
  | .graphStart g => OptGraphOk g
  | .graphEnd => True
  | .namespace _ iri => NsIriOk iri
  | .nameEntry id _ => id < 2 ^ 32
  | .prefixEntry id _ => id < 2 ^ 32
  | .dtEntry id _ => id < 2 ^ 32
  | .empty => True

def rowStep (depth : Nat) (r : Row) (f : Field) : Except PyErr Row :=
    match f with
    | (1, .len p) => do
        let init := match r with | .options o => o | _ => {}
        pure (.options (← decOptionsInto init p))
    | (2, .len p) => do
        let init : StmtMsg := match r with | .triple s p o => { s, p, o } | _ => {}
        let m ← decStmtInto depth false init p
        pure (.triple m.s m.p m.o)
    | (3, .len p) => do
        let init : StmtMsg := match r with | .quad s p o g => { s, p, o, g } | _ => {}
        let m ← decStmtInto depth true init p
        pure (.quad m.s m.p m.o m.g)
    | (4, .len p) => do
        let init := match r with | .graphStart g => g | _ => none
        pure (.graphStart (← decGraphStartInto init p))
    | (5, .len p) => do let _ ← fieldsOf p; pure .graphEnd
    | (6, .len p) => do
        let init := match r with | .namespace n i => (n, i) | _ => ("", none)
        let (n, i) ← decNamespaceInto init p
        pure (.namespace n i)
    | (9, .len p) => do
        let init := match r with | .nameEntry i v => (i, v) | _ => (0, "")
        let (i, v) ← decEntryInto init p
        pure (.nameEntry i v)
    | (10, .len p) => do
        let init := match r with | .prefixEntry i v => (i, v) | _ => (0, "")
        let (i, v) ← decEntryInto init p
        pure (.prefixEntry i v)
    | (11, .len p) => do
        let init := match r with | .dtEntry i v => (i, v) | _ => (0, "")
        let (i, v) ← decEntryInto init p
        pure (.dtEntry i v)
    | _ => pure r

theorem decRow_eq (depth : Nat) (b : Bytes) :
    decRow depth b = (do let fs ← fieldsOf b; fs.foldlM (rowStep depth) Row.empty) := rfl

theorem fieldsOf_single (k : Nat) (p : Bytes) (h1 : 1 ≤ k) (h2 : k < 2 ^ 29)
    (hlen : (lenDelim k p).length < 2 ^ 64) : fieldsOf (lenDelim k p) = .ok [(k, .len p)] := by
  have := fieldsOf_flatMap [(k, .len p)] (AllOk.len k p h1 h2) (by simpa [encField] using hlen)
  simpa [encField] using this

theorem encRow_quad (s p o g : Option WTerm) :
    encRow (.quad s p o g) = lenDelim 3 ((quadFields s p o g).flatMap encField) := by
  cases g <;> simp [encRow, quadFields, optGraphFields, encTripleBody_eq, encGraphTerm_eq]

theorem encRow_graphStart (g : Option WTerm) :
    encRow (.graphStart g) = lenDelim 4 ((optGraphFields 1 g).flatMap encField) := by
  cases g <;> simp [encRow, optGraphFields, encGraphTerm_eq]

theorem encRow_namespace (name : String) (iri : Option (Nat × Nat)) :
    encRow (.namespace name iri)
      = lenDelim 6 ((strFields 1 name ++ nsIriFields iri).flatMap encField) := by
  cases iri with
  | none => simp [encRow, nsIriFields, strField_eq]
  | some pn => obtain ⟨p, n⟩ := pn; simp [encRow, nsIriFields, strField_eq, encField]

theorem decRow_enc (r : Row) (h : r.Ok) (hlen : (encRow r).length < 2 ^ 64) :
    decRow 99 (encRow r) = .ok r := by
  rw [decRow_eq]
  cases r with
  | empty => simp [encRow, fieldsOf_nil, bind, Except.bind, pure, Except.pure]
  | options o =>
    simp only [encRow] at hlen ⊢
    rw [fieldsOf_single 1 _ (by omega) (by omega) hlen]
    have := decOptionsInto_enc o h (lenDelim_payload_lt hlen)
    simp [rowStep, this, bind, Except.bind, pure, Except.pure]
  | triple s p o =>
    obtain ⟨hs, hp, ho⟩ := h
    simp only [encRow] at hlen ⊢
    rw [fieldsOf_single 2 _ (by omega) (by omega) hlen]
    have := decStmtInto_triple 98 s p o hs hp ho (lenDelim_payload_lt hlen)
    simp [rowStep, this, bind, Except.bind, pure, Except.pure]
  | quad s p o g =>
    obtain ⟨hs, hp, ho, hg⟩ := h
    rw [encRow_quad] at hlen ⊢
    rw [fieldsOf_single 3 _ (by omega) (by omega) hlen]
    have := decStmtInto_quad 98 s p o g hs hp ho hg (lenDelim_payload_lt hlen)
    simp [rowStep, this, bind, Except.bind, pure, Except.pure]
  | graphStart g =>
    rw [encRow_graphStart] at hlen ⊢
    rw [fieldsOf_single 4 _ (by omega) (by omega) hlen]
    have := decGraphStartInto_enc g h (lenDelim_payload_lt hlen)
    simp [rowStep, this, bind, Except.bind, pure, Except.pure]
  | graphEnd =>
    simp only [encRow] at hlen ⊢
    rw [fieldsOf_single 5 _ (by omega) (by omega) hlen]
    simp [rowStep, fieldsOf_nil, bind, Except.bind, pure, Except.pure]
  | «namespace» name iri =>
    rw [encRow_namespace] at hlen ⊢
    rw [fieldsOf_single 6 _ (by omega) (by omega) hlen]
    have := decNamespaceInto_enc name iri h (lenDelim_payload_lt hlen)
    generalize List.flatMap encField (strFields 1 name ++ nsIriFields iri) = body at this ⊢
    simp [rowStep, this, bind, Except.bind, pure, Except.pure]
  | nameEntry id v =>
    simp only [encRow] at hlen ⊢
    rw [fieldsOf_single 9 _ (by omega) (by omega) hlen]
    have := decEntryInto_enc id v h (lenDelim_payload_lt hlen)
    simp [rowStep, this, bind, Except.bind, pure, Except.pure]
  | prefixEntry id v =>
    simp only [encRow] at hlen ⊢
    rw [fieldsOf_single 10 _ (by omega) (by omega) hlen]
    have := decEntryInto_enc id v h (lenDelim_payload_lt hlen)
    simp [rowStep, this, bind, Except.bind, pure, Except.pure]
  | dtEntry id v =>
    simp only [encRow] at hlen ⊢
    rw [fieldsOf_single 11 _ (by omega) (by omega) hlen]
    have := decEntryInto_enc id v h (lenDelim_payload_lt hlen)
    simp [rowStep, this, bind, Except.bind, pure, Except.pure]

/-! ### Frames -/

def frameStep (fr : Frame) (f : Field) : Except PyErr Frame :=
    match f with
    | (1, .len p) => do let r ← decRow (depthLimit - 1) p; pure { fr with rows := fr.rows ++ [r] }
    | (15, .len p) => do let (k, v) ← decMetaEntry p; pure { fr with metadata := setMeta fr.metadata k v }
    | _ => pure fr

theorem decFrameInto_eq (init : Frame) (b : Bytes) :
    decFrameInto init b = (do let fs ← fieldsOf b; fs.foldlM frameStep init) := rfl

def rowsFields (rows : List Row) : List Field := rows.map fun r => (1, .len (encRow r))

theorem rowsFields_ok (rows : List Row) : AllOk (rowsFields rows) := by
  intro f hf
  simp only [rowsFields, List.mem_map] at hf
  obtain ⟨r, _, rfl⟩ := hf
  exact ⟨by omega, by omega⟩

theorem rowsFields_flatMap (rows : List Row) :
    (rowsFields rows).flatMap encField = rows.flatMap fun r => lenDelim 1 (encRow r) := by
  simp [rowsFields, List.flatMap_map, encField]

theorem rowsFields_append (a b : List Row) : rowsFields (a ++ b) = rowsFields a ++ rowsFields b := by
  simp [rowsFields]

theorem frame_fold (rows : List Row) : ∀ (fr : Frame), (∀ r ∈ rows, r.Ok) →
    ((rowsFields rows).flatMap encField).length < 2 ^ 64 →
    (rowsFields rows).foldlM frameStep fr = .ok { fr with rows := fr.rows ++ rows } := by
  induction rows with
  | nil => intro fr _ _; cases fr; simp [rowsFields, pure, Except.pure]
  | cons r rows ih =>
    intro fr hok hlen
    have hlen' : (lenDelim 1 (encRow r)).length + ((rowsFields rows).flatMap encField).length < 2 ^ 64 := by
      simpa [rowsFields, encField] using hlen
    have hr := decRow_enc r (hok r (by simp)) (lenDelim_payload_lt (N := 2 ^ 64) (k := 1) (by omega))
    have hd : depthLimit - 1 = 99 := rfl
    have ih' := ih { fr with rows := fr.rows ++ [r] } (fun x hx => hok x (by simp [hx])) (by omega)
    simp only [rowsFields, List.map_cons, List.foldlM_cons, frameStep, hd, hr, bind, Except.bind,
      pure, Except.pure]
    simp only [rowsFields] at ih'
    rw [ih']
    simp

theorem decFrame_rows (rows : List Row) (hok : ∀ r ∈ rows, r.Ok)
    (hlen : ((rowsFields rows).flatMap encField).length < 2 ^ 64) :
    decFrame ((rowsFields rows).flatMap encField) = .ok { rows := rows } := by
  unfold decFrame
  rw [decFrameInto_eq, fieldsOf_flatMap _ (rowsFields_ok rows) hlen]
  simp only [bind, Except.bind]
  rw [frame_fold rows {} hok hlen]
  simp

theorem encFrame_eq (f : Frame) (hm : f.metadata = []) :
    encFrame f = (rowsFields f.rows).flatMap encField := by
  simp [encFrame, hm, rowsFields_flatMap]

theorem decFrame_enc (f : Frame) (hok : ∀ r ∈ f.rows, r.Ok) (hm : f.metadata = [])
    (hlen : (encFrame f).length < 2 ^ 64) : decFrame (encFrame f) = .ok f := by
  rw [encFrame_eq f hm] at hlen ⊢
  rw [decFrame_rows f.rows hok hlen]
  cases f
  simp_all

theorem writeSingle_concat (fs : List Frame) (hm : ∀ f ∈ fs, f.metadata = []) :
    fs.flatMap writeSingle = (rowsFields (fs.flatMap (·.rows))).flatMap encField := by
  induction fs with
  | nil => simp [rowsFields]
  | cons f fs ih =>
    rw [List.flatMap_cons, List.flatMap_cons, rowsFields_append, List.flatMap_append,
      ih (fun g hg => hm g (by simp [hg])), writeSingle, encFrame_eq f (hm f (by simp))]

theorem decFrame_single_concat (fs : List Frame) (hok : ∀ f ∈ fs, ∀ r ∈ f.rows, r.Ok)
    (hm : ∀ f ∈ fs, f.metadata = []) (hlen : (fs.flatMap writeSingle).length < 2 ^ 64) :
    decFrame (fs.flatMap writeSingle) = .ok { rows := fs.flatMap (·.rows) } := by
  rw [writeSingle_concat fs hm] at hlen ⊢
  refine decFrame_rows _ ?_ hlen
  intro r hr
  obtain ⟨f, hf, hrf⟩ := List.mem_flatMap.mp hr
  exact hok f hf r hrf

/-! ### Delimited streams -/

theorem encFrame_eq_nil (f : Frame) (hm : f.metadata = []) (h : encFrame f = []) : f = {} := by
  rw [encFrame_eq f hm] at h
  have hr : f.rows = [] := by
    cases hrows : f.rows with
    | nil => rfl
    | cons r rs =>
      rw [hrows] at h
      have hp := varint_ne_nil (1 * 8 + 2)
      simp [rowsFields, encField, lenDelim, tag, hp] at h
  cases f
  simp_all

theorem parseLengthPrefixed_write (f : Frame) (hok : ∀ r ∈ f.rows, r.Ok) (hm : f.metadata = [])
    (hlen : (encFrame f).length < 2 ^ 63) (rest : Bytes) :
    parseLengthPrefixed (writeDelimited f ++ rest) = .frame f rest := by
  unfold parseLengthPrefixed writeDelimited
  simp only [List.append_assoc]
  rw [readStreamVarint_varint_top _ (by omega)]
  simp only
  by_cases h0 : (encFrame f).length = 0
  · have hnil : encFrame f = [] := List.eq_nil_of_length_eq_zero h0
    have hf := encFrame_eq_nil f hm hnil
    rw [hnil]
    simp [hf]
  · have h1 : ¬ ((encFrame f).length ≥ 2 ^ 63) := by omega
    simp only [beq_iff_eq, h0, if_false, h1]
    rw [List.take_left, decFrame_enc f hok hm (by omega)]
    simp

theorem writeDelimited_length_pos (f : Frame) : 0 < (writeDelimited f).length := by
  have := varint_length_pos (encFrame f).length
  simp only [writeDelimited, List.length_append]; omega

theorem restFrames_write (fs : List Frame) : ∀ fuel, (fs.flatMap writeDelimited).length < fuel →
    (∀ f ∈ fs, ∀ r ∈ f.rows, r.Ok) → (∀ f ∈ fs, f.metadata = []) →
    (∀ f ∈ fs, (encFrame f).length < 2 ^ 63) →
    restFrames fuel (fs.flatMap writeDelimited) [] = (fs, none) := by
  induction fs with
  | nil =>
    intro fuel hf _ _ _
    obtain ⟨fuel, rfl⟩ : ∃ k, fuel = k + 1 := ⟨fuel - 1, by omega⟩
    simp [restFrames, parseLengthPrefixed, readStreamVarint]
  | cons f fs ih =>
    intro fuel hf hok hm hlen
    obtain ⟨fuel, rfl⟩ : ∃ k, fuel = k + 1 := ⟨fuel - 1, by omega⟩
    have hpos := writeDelimited_length_pos f
    simp only [List.flatMap_cons, List.length_append] at hf
    rw [List.flatMap_cons]
    simp only [restFrames]
    rw [parseLengthPrefixed_write f (hok f (by simp)) (hm f (by simp)) (hlen f (by simp))]
    simp only
    rw [restFrames_acc, ih fuel (by omega) (fun g hg => hok g (by simp [hg]))
      (fun g hg => hm g (by simp [hg])) (fun g hg => hlen g (by simp [hg]))]
    simp


end Jelly

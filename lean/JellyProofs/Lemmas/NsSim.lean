import JellyProofs.Lemmas.StreamSim
/-!
# Namespace declarations in the writer ⊑ spec simulation (C14), and the plain-call driver (C20)
-/
namespace Jelly

/-! ## One IRI always fits -/

theorem TFits.nsSingle {P : Preset} (hv : P.valid = true) (iri : String) :
    TFits P { n := [nameKey (P.maxPrefixes != 0) iri], p := [prefixKey iri], d := [] } := by
  have hn : P.maxNames ≥ 8 := by simpa [Preset.valid, MIN_NAME_LOOKUP_SIZE] using hv
  refine ⟨by omega, ?_, ?_, ?_, ?_⟩
  · apply Fits.of_eraseDups
    simp [List.eraseDups_cons]
    omega
  · intro hp
    apply Fits.of_eraseDups
    simp [List.eraseDups_cons]
    omega
  · apply Fits.of_eraseDups
    simp
  · intro h; exact absurd rfl h

/-! ## The options row, keeping track of the version -/

theorem nsInit_inv {s : Stream} {cls : StreamClass} {o : SerOptions} (hs : Stream.new cls o = .ok s) :
    Inv o.preset s.enc (initState (wireOptions s)) := by
  obtain ⟨hv, hcls, hopts, henc, _, _, htc⟩ := Stream.new_spec hs
  rw [henc]
  simp only [initState, wireOptions, hopts]
  exact ⟨⟨Lookup.WF.new _, Lookup.WF.new _, Lookup.WF.new _, rfl, rfl, rfl, fun _ => rfl⟩,
    ⟨EMirror.new _, EMirror.new _, EMirror.new _⟩, rfl, rfl, rfl, rfl, rfl, rfl, rfl, rfl⟩

theorem options_step_ver {s : Stream} {cls : StreamClass} {o : SerOptions} (hs : Stream.new cls o = .ok s)
    (hl : validLogical s.logicalType = true) :
    ∃ ss0 oo, Spec.step {} s.optionsRow = .ok (ss0, none) ∧ Inv o.preset s.enc ss0 ∧
      ss0.opts = some oo ∧ oo.physicalType = cls.physical ∧ ss0.graph = none ∧
      oo.version = o.params.version := by
  obtain ⟨hv, hcls, hopts, henc, _, _, htc⟩ := Stream.new_spec hs
  have hph : cls.physical ≠ 0 := by cases cls <;> simp [StreamClass.physical]
  have hpair := typePair_of_compat hph htc hl
  have hn : o.preset.maxNames ≥ 8 := by simpa [Preset.valid, MIN_NAME_LOOKUP_SIZE] using hv
  have hcheck : Spec.checkOptions (wireOptions s) = .ok () := by
    unfold Spec.checkOptions wireOptions
    rw [hcls, hopts]
    have h1 : (!(decide (1 ≤ cls.physical) && decide (cls.physical ≤ 3))) = false := by
      cases cls <;> simp [StreamClass.physical]
    have h3 : ¬ (o.preset.maxNames < 8) := by omega
    have h4 : (o.params.version == 0) = false := by
      unfold Params.version; split <;> simp
    have h5 : ¬ (o.params.version > 2) := by
      unfold Params.version; split <;> simp
    simp only [h1, hpair, h3, h4, h5, Bool.false_eq_true, if_false, Bool.not_true]
  refine ⟨initState (wireOptions s), wireOptions s, ?_, nsInit_inv hs, rfl, ?_, rfl, ?_⟩
  · have : s.optionsRow = .options (wireOptions s) := rfl
    simp only [this, Spec.step, hcheck, bind, Except.bind, pure, Except.pure]
    rfl
  · exact hcls ▸ rfl
  · simp only [wireOptions, hopts]

/-- `final_assembly` with the version of the options in hand. -/
theorem final_assembly_ver {s : Stream} {cls : StreamClass} {o : SerOptions} (hs : Stream.new cls o = .ok s)
    (hl : validLogical s.logicalType = true) {r : Run} {evs : List Event}
    (hloop : ∀ ss0 oo, Inv o.preset s.enc ss0 → ss0.opts = some oo → oo.physicalType = cls.physical →
      ss0.graph = none → oo.version = o.params.version →
      ∃ ss' rows, r.err = none ∧ allRowsOf r = [s.optionsRow] ++ rows ∧ RunsTo ss0 rows ss' evs) :
    r.err = none ∧ ∃ st, Spec.runRows (allRowsOf r) = (st, evs, none) := by
  obtain ⟨ss0, oo, hstep, inv0, ho0, hph, hg0, hver⟩ := options_step_ver hs hl
  obtain ⟨ss', rows, herr, hrows, hrun⟩ := hloop ss0 oo inv0 ho0 hph hg0 hver
  refine ⟨herr, ss', ?_⟩
  rw [hrows]
  simp only [Spec.runRows, List.singleton_append, run_cons_ok hstep, Option.toList, List.append_nil]
  have := hrun.final [] (0 + 1)
  simpa using this

/-! ## The declarations -/

theorem Stream.namespaceDeclaration_ok {s : Stream} {name iri : String} {te' : TermEnc} {rows : List Row}
    (h : encodeNamespace s.enc.te name iri = (te', .ok rows)) :
    s.namespaceDeclaration name iri
      = (({ s with enc := { s.enc with te := te' } } : Stream).pushRows rows, .ok ()) := by
  simp only [Stream.namespaceDeclaration, h]

/-- All declarations of a binding list whose values are IRIs go through on a version-2 stream; the
    rows are appended to the flow, accepted by the reference decoder, and denote the declarations in
    order. Each declaration is one IRI, which fits any valid preset. -/
theorem nsDeclarations_sim {P : Preset} {o : Options} (hv : P.valid = true) (hver : 2 ≤ o.version) :
    ∀ (ns : List (String × Term)) (s : Stream) (ss : Spec.State),
      Inv P s.enc ss → ss.opts = some o → (∀ b ∈ ns, ∃ i, b.2 = Term.iri i) →
      ∃ s' ss' rows, nsDeclarations s ns = (s', .ok ()) ∧
        s'.flow.rows = s.flow.rows ++ rows ∧
        Inv P s'.enc ss' ∧ ss'.opts = some o ∧ ss'.graph = ss.graph ∧
        RunsTo ss rows ss' (ns.map fun b => Event.ns b.1 b.2) := by
  intro ns
  induction ns with
  | nil =>
    intro s ss inv ho _
    exact ⟨s, ss, [], rfl, by simp, inv, ho, rfl, RunsTo.nil ss⟩
  | cons b rest ih =>
    intro s ss inv ho hb
    obtain ⟨name, v⟩ := b
    obtain ⟨iri, hi⟩ := hb (name, v) List.mem_cons_self
    simp only at hi
    subst hi
    obtain ⟨te', rows, ss1, heq, inv1, ho1, hg1, hrun⟩ :=
      namespace_run (TFits.nsSingle hv iri) inv ho hver name iri (by simp) (by simp)
    have hstep := Stream.namespaceDeclaration_ok heq
    obtain ⟨s2, ss2, rows2, e1, e2, e3, e4, e5, e6⟩ :=
      ih (({ s with enc := { s.enc with te := te' } } : Stream).pushRows rows) ss1 inv1 ho1
        (fun b hb' => hb b (List.mem_cons_of_mem _ hb'))
    refine ⟨s2, ss2, rows ++ rows2, ?_, ?_, e3, e4, e5.trans hg1, ?_⟩
    · simp only [nsDeclarations, hstep, e1]
    · rw [e2]; simp [Stream.pushRows, List.append_assoc]
    · exact RunsTo.trans (e₁ := [Event.ns name (.iri iri)]) hrun e6

/-! ## Stream-level bookkeeping -/

theorem Stream.enroll_opts_cls (s : Stream) : s.enroll.opts = s.opts ∧ s.enroll.cls = s.cls := by
  unfold Stream.enroll
  split <;> exact ⟨rfl, rfl⟩

theorem enroll_fresh_rows {s : Stream} {cls : StreamClass} {o : SerOptions} (hs : Stream.new cls o = .ok s) :
    s.enroll.flow.rows = [s.optionsRow] := by
  have := (enroll_fresh hs).2
  simpa [allRowsOf, rowsOf] using this

/-- With the option off, a sink input is treated exactly as the generator of its statements. -/
theorem streamFrames_sink_nsOff (s : Stream) (sk : Sink)
    (hoff : s.opts.params.namespaceDeclarations = false) :
    streamFrames s (.sink sk) = streamFrames s (.gen sk.store) := by
  have hp : prologue s (.sink sk) = prologue s (.gen sk.store) := by
    simp only [prologue, s.enroll_opts_cls.1, hoff, Bool.false_eq_true, if_false]
  unfold streamFrames triplesStreamFrames quadsStreamFrames graphsStreamFrames
  rw [hp]
  rfl

/-- `Stream.new` never looks at the namespace-declaration flag. -/
theorem Stream.new_nsflag {cls : StreamClass} {o : SerOptions} {s : Stream} (b : Bool)
    (h : Stream.new cls o = .ok s) :
    Stream.new cls { o with params := { o.params with namespaceDeclarations := b } }
      = .ok { s with opts := { o with params := { o.params with namespaceDeclarations := b } } } := by
  have hi : inferFlow cls { o with params := { o.params with namespaceDeclarations := b } }
      = inferFlow cls o := rfl
  unfold Stream.new at h ⊢
  simp only [hi] at h ⊢
  split at h
  · simp at h
  · rename_i hv
    rw [if_neg hv]
    split at h
    · simp at h
    · rename_i flow hflow
      split at h
      · simp at h
      · rename_i htc
        rw [if_neg htc]
        injection h with h; subst h; rfl

/-! ## The statement loop with frames kept in an accumulator (plain calls, TRIPLES) -/

theorem Stream.graphTriples_sim1 {P : Preset} {o : Options} (hv : P.valid = true)
    (h1 : o.physicalType = 1) (exc : PyErr) :
    ∀ (triples : List (List Term)) (s : Stream) (acc : List Frame) (ss : Spec.State),
      Inv P s.enc ss → ss.opts = some o →
      (∀ t ∈ triples, tripleWF t = true) → (∀ t ∈ triples, stmtFits P t = true) →
      ∃ s' frames' ss' rows, Stream.graphTriples exc s triples acc = (s', frames', none) ∧
        rowsOf frames' s' = rowsOf acc s ++ rows ∧ Inv P s'.enc ss' ∧ ss'.opts = some o ∧
        RunsTo ss rows ss' (triples.map (fun t => Event.stmt (t.map Term.norm))) := by
  intro triples
  induction triples with
  | nil =>
    intro s acc ss inv ho _ _
    exact ⟨s, acc, ss, [], by simp [Stream.graphTriples], by simp, inv, ho, RunsTo.nil ss⟩
  | cons t ts ih =>
    intro s acc ss inv ho hwf hfit
    obtain ⟨es', rows, ss1, heq, inv1, ho1, _, hrun⟩ :=
      encodeTriple_sim_of_fits hv inv ho h1 exc t (hwf t List.mem_cons_self) (hfit t List.mem_cons_self)
    obtain ⟨s', fr, hstep, henc', hrows⟩ := Stream.triple_ok heq
    obtain ⟨s2, frames2, ss2, rows2, e1, e2, e3, e4, e6⟩ :=
      ih s' (acc ++ fr.toList) ss1 (by rw [henc']; exact inv1) ho1
        (fun t ht => hwf t (List.mem_cons_of_mem _ ht)) (fun t ht => hfit t (List.mem_cons_of_mem _ ht))
    refine ⟨s2, frames2, ss2, rows ++ rows2, ?_, ?_, e3, e4, ?_⟩
    · simp only [Stream.graphTriples, hstep, e1]
    · rw [e2, rowsOf_push' hrows, List.append_assoc]
    · exact RunsTo.trans (e₁ := [Event.stmt (t.map Term.norm)]) hrun e6

end Jelly

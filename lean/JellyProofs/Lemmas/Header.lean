import JellyModel.Parse
import JellyModel.Spec
/-!
# Helper lemmas for C13 (stream header fidelity / stream-type validation)
-/
namespace Jelly

/-- Decidable equality on `Except` (core derives none); used by the finite table theorems. -/
instance exceptDecEqC13 {ε α : Type} [DecidableEq ε] [DecidableEq α] : DecidableEq (Except ε α)
  | .error a, .error b => if h : a = b then isTrue (by rw [h]) else isFalse (fun h' => h (by cases h'; rfl))
  | .ok a, .ok b => if h : a = b then isTrue (by rw [h]) else isFalse (fun h' => h (by cases h'; rfl))
  | .error _, .ok _ => isFalse (fun h => by cases h)
  | .ok _, .error _ => isFalse (fun h => by cases h)

/-! ## Writer side: what a successfully constructed stream guarantees -/

theorem Stream.new_ok {cls : StreamClass} {o : SerOptions} {s : Stream}
    (hs : Stream.new cls o = .ok s) :
    o.preset.valid = true ∧ typesCompatible cls.physical s.logicalType = true ∧
      s.cls = cls ∧ s.opts = o := by
  unfold Stream.new at hs
  split at hs
  · cases hs
  · rename_i hv
    have key : ∀ flowE : Except PyErr Flow,
        (match flowE with
          | .error e => (.error e : Except PyErr Stream)
          | .ok flow =>
            if !typesCompatible cls.physical flow.logicalType then .error .jassertion
            else .ok {
              cls, opts := o, flow, logicalType := flow.logicalType,
              enc := { te := TermEnc.new o.preset.maxNames o.preset.maxPrefixes o.preset.maxDatatypes } })
          = .ok s →
        typesCompatible cls.physical s.logicalType = true ∧ s.cls = cls ∧ s.opts = o := by
      intro flowE h
      cases flowE with
      | error e => cases h
      | ok flow =>
        dsimp only at h
        split at h
        · cases h
        · rename_i hc
          cases h
          simp_all
    exact ⟨by simpa using hv, key _ hs⟩

theorem Preset.valid_iff (p : Preset) : p.valid = true ↔ 8 ≤ p.maxNames := by
  simp [Preset.valid, MIN_NAME_LOOKUP_SIZE]

theorem StreamClass.physical_cases (cls : StreamClass) :
    cls.physical = 1 ∨ cls.physical = 2 ∨ cls.physical = 3 := by
  cases cls <;> simp [StreamClass.physical]

/-- Writer-side and reader-side checks use the same rule. -/
theorem validateTypes_of_compatible {p l : Nat} (h : typesCompatible p l = true) :
    validateTypes p l = .ok () := by
  unfold typesCompatible at h
  unfold validateTypes
  split
  · rfl
  · rename_i h0
    rw [if_neg h0] at h
    rw [if_neg]
    simp only [bne_iff_ne, ne_eq, Decidable.not_not]
    exact eq_of_beq h

/-! ## Reader side: the decoder never reads `opts` outside the options row -/

/-- Rewrite the options of a decoder state. -/
def DecState.mapOpts (f : ParserOptions → ParserOptions) (d : DecState) : DecState :=
  { d with opts := f d.opts }

/-- Lift `mapOpts` over a decoding result. -/
def liftOpts {α : Type} (f : ParserOptions → ParserOptions) :
    Except PyErr (DecState × α) → Except PyErr (DecState × α)
  | .error e => .error e
  | .ok (d, x) => .ok (d.mapOpts f, x)

@[simp] theorem liftOpts_error {α} (f) (e : PyErr) :
    liftOpts (α := α) f (.error e) = .error e := rfl
@[simp] theorem liftOpts_ok {α} (f) (d : DecState) (x : α) :
    liftOpts f (.ok (d, x)) = .ok (d.mapOpts f, x) := rfl

theorem decodeIri_mapOpts (f) (d : DecState) (p n : Nat) :
    (d.mapOpts f).decodeIri p n = liftOpts f (d.decodeIri p n) := by
  unfold DecState.decodeIri
  simp only [DecState.mapOpts]
  split
  · rfl
  · split <;> rfl

theorem decodeLiteral_mapOpts (f) (d : DecState) (lex : String) (k : WLitKind) :
    (d.mapOpts f).decodeLiteral lex k = liftOpts f (d.decodeLiteral lex k) := by
  unfold DecState.decodeLiteral
  simp only [DecState.mapOpts]
  cases k with
  | plain => rfl
  | lang l => dsimp only; split <;> rfl
  | dt id => dsimp only; split <;> rfl

mutual
  theorem decodeTerm_mapOpts (f) (q : Bool) : ∀ (t : WTerm) (d : DecState),
      (d.mapOpts f).decodeTerm q t = liftOpts f (d.decodeTerm q t)
    | .iri p n, d => by
      simp only [DecState.decodeTerm, decodeIri_mapOpts]
      cases d.decodeIri p n with
      | error e => rfl
      | ok x => rfl
    | .bnode b, d => by simp only [DecState.decodeTerm, liftOpts_ok]
    | .literal lex k, d => by simp only [DecState.decodeTerm, decodeLiteral_mapOpts]
    | .defaultGraph, d => by simp only [DecState.decodeTerm, liftOpts_ok]
    | .triple s p o, d => by
      simp only [DecState.decodeTerm]
      rw [decodeQuotedSlot_mapOpts f q s d]
      cases DecState.decodeQuotedSlot q d s with
      | error e => rfl
      | ok x1 =>
        obtain ⟨d1, ts⟩ := x1
        simp only [liftOpts_ok]
        rw [decodeQuotedSlot_mapOpts f q p d1]
        cases DecState.decodeQuotedSlot q d1 p with
        | error e => rfl
        | ok x2 =>
          obtain ⟨d2, tp⟩ := x2
          simp only [liftOpts_ok]
          rw [decodeQuotedSlot_mapOpts f q o d2]
          cases DecState.decodeQuotedSlot q d2 o with
          | error e => rfl
          | ok x3 =>
            obtain ⟨d3, to⟩ := x3
            simp only [liftOpts_ok]
            cases q <;> rfl
  theorem decodeQuotedSlot_mapOpts (f) (q : Bool) : ∀ (t : Option WTerm) (d : DecState),
      (d.mapOpts f).decodeQuotedSlot q t = liftOpts f (d.decodeQuotedSlot q t)
    | none, d => by simp only [DecState.decodeQuotedSlot, liftOpts_error]
    | some t, d => by
      simp only [DecState.decodeQuotedSlot]
      exact decodeTerm_mapOpts f q t d
end

theorem decodeSlot_mapOpts (f) (q : Bool) (d : DecState) (prev : Option Term) (w : Option WTerm) :
    (d.mapOpts f).decodeSlot q prev w = liftOpts f (d.decodeSlot q prev w) := by
  unfold DecState.decodeSlot
  cases w with
  | some t => exact decodeTerm_mapOpts f q t d
  | none => cases prev <;> rfl

@[simp] theorem mapOpts_rep (f) (d : DecState) : (d.mapOpts f).rep = d.rep := rfl
@[simp] theorem mapOpts_adapter (f) (d : DecState) : (d.mapOpts f).adapter = d.adapter := rfl
@[simp] theorem mapOpts_graphId (f) (d : DecState) : (d.mapOpts f).graphId = d.graphId := rfl
@[simp] theorem mapOpts_names (f) (d : DecState) : (d.mapOpts f).names = d.names := rfl
@[simp] theorem mapOpts_prefixes (f) (d : DecState) : (d.mapOpts f).prefixes = d.prefixes := rfl
@[simp] theorem mapOpts_datatypes (f) (d : DecState) : (d.mapOpts f).datatypes = d.datatypes := rfl
theorem mapOpts_with_rep (f) (d : DecState) (r : Repeated) :
    ({ d.mapOpts f with rep := r } : DecState) = ({ d with rep := r } : DecState).mapOpts f := rfl

theorem decodeSpo_mapOpts (f) (q : Bool) (d : DecState) (s p o : Option WTerm) :
    (d.mapOpts f).decodeSpo q s p o = liftOpts f (d.decodeSpo q s p o) := by
  unfold DecState.decodeSpo
  simp only [mapOpts_rep, decodeSlot_mapOpts]
  cases d.decodeSlot q d.rep.s s with
  | error e => rfl
  | ok x1 =>
    obtain ⟨d1, ts⟩ := x1
    simp only [liftOpts_ok, mapOpts_with_rep, mapOpts_rep, decodeSlot_mapOpts]
    generalize DecState.decodeSlot q _ d1.rep.p p = r2
    cases r2 with
    | error e => rfl
    | ok x2 =>
      obtain ⟨d2, tp⟩ := x2
      simp only [liftOpts_ok, mapOpts_with_rep, mapOpts_rep, decodeSlot_mapOpts]
      generalize DecState.decodeSlot q _ d2.rep.o o = r3
      cases r3 with
      | error e => rfl
      | ok x3 =>
        obtain ⟨d3, to⟩ := x3
        rfl

theorem decodeRow_mapOpts (f) (q : Bool) (d : DecState) (r : Row) (hr : ∀ o, r ≠ .options o) :
    (d.mapOpts f).decodeRow q r = liftOpts f (d.decodeRow q r) := by
  cases r with
  | options o => exact absurd rfl (hr o)
  | empty => rfl
  | prefixEntry id v =>
    simp only [DecState.decodeRow, mapOpts_prefixes]
    cases d.prefixes.assignEntry id v <;> rfl
  | nameEntry id v =>
    simp only [DecState.decodeRow, mapOpts_names]
    cases d.names.assignEntry id v <;> rfl
  | dtEntry id v =>
    simp only [DecState.decodeRow, mapOpts_datatypes]
    cases d.datatypes.assignEntry id v <;> rfl
  | triple s p o =>
    simp only [DecState.decodeRow, decodeSpo_mapOpts, mapOpts_adapter]
    cases d.decodeSpo q s p o with
    | error e => rfl
    | ok x =>
      obtain ⟨d', ts, tp, to⟩ := x
      simp only [liftOpts_ok, mapOpts_graphId]
      cases d.adapter with
      | triples => rfl
      | quads => rfl
      | graphs => dsimp only; cases d'.graphId <;> rfl
  | quad s p o g =>
    simp only [DecState.decodeRow, decodeSpo_mapOpts, mapOpts_adapter]
    cases d.decodeSpo q s p o with
    | error e => rfl
    | ok x =>
      obtain ⟨d', ts, tp, to⟩ := x
      simp only [liftOpts_ok, mapOpts_rep, decodeSlot_mapOpts]
      cases d'.decodeSlot q d'.rep.g g with
      | error e => rfl
      | ok x' =>
        obtain ⟨d'', tg⟩ := x'
        cases d.adapter <;> rfl
  | graphStart g =>
    cases g with
    | none => rfl
    | some t =>
      simp only [DecState.decodeRow, decodeTerm_mapOpts, mapOpts_adapter]
      cases d.decodeTerm q t with
      | error e => rfl
      | ok x =>
        obtain ⟨d', tg⟩ := x
        cases d.adapter <;> rfl
  | graphEnd =>
    simp only [DecState.decodeRow, mapOpts_adapter]
    cases d.adapter <;> rfl
  | «namespace» name iri =>
    simp only [DecState.decodeRow, decodeIri_mapOpts]
    cases d.decodeIri (iri.getD (0, 0)).1 (iri.getD (0, 0)).2 with
    | error e => rfl
    | ok x => rfl

/-! ## Reader side: size and version guards -/

theorem LookupDec.new_oversized {n : Nat} (h : 4096 < n) : LookupDec.new n = .error .jassertion := by
  simp [LookupDec.new, MAX_LOOKUP_SIZE, h]

theorem LookupDec.new_ok_or_jassertion (n : Nat) :
    (∃ t, LookupDec.new n = .ok t) ∨ LookupDec.new n = .error .jassertion := by
  unfold LookupDec.new
  split
  · exact .inr rfl
  · exact .inl ⟨_, rfl⟩

/-- What `optionsFromFrame` returns when the first row is an options row. -/
theorem optionsFromFrame_ok_hdr {f : Frame} {o : Options} {rest : List Row} {delimited : Bool}
    {opts : ParserOptions} (hf : f.rows = .options o :: rest)
    (ho : optionsFromFrame f delimited = .ok opts) :
    opts = {
      physical := o.physicalType, logical := o.logicalType
      maxNames := o.maxNames, maxPrefixes := o.maxPrefixes, maxDatatypes := o.maxDatatypes
      streamName := o.streamName, generalized := o.generalized, rdfStar := o.rdfStar
      version := if o.version ≥ 2 then 2 else 1
      delimited := delimited
      namespaceDeclarations := decide (o.version ≥ 2) } := by
  unfold optionsFromFrame at ho
  rw [hf] at ho
  dsimp only at ho
  cases hvt : validateTypes o.physicalType o.logicalType with
  | error e => rw [hvt] at ho; cases ho
  | ok u =>
    rw [hvt] at ho
    dsimp only at ho
    split at ho
    · cases ho
    · cases ho
      simp

/-- `Decoder.__init__` keeps the options it was given and allocates the three tables. -/
theorem DecState.new_ok_hdr {opts : ParserOptions} {a : AdapterKind} {d : DecState}
    (h : DecState.new opts a = .ok d) : d.opts = opts ∧ d.adapter = a := by
  unfold DecState.new at h
  simp only [bind, Except.bind, pure, Except.pure] at h
  split at h
  · cases h
  · split at h
    · cases h
    · split at h
      · cases h
      · cases h; exact ⟨rfl, rfl⟩

theorem DecState.new_oversized {opts : ParserOptions} (a : AdapterKind)
    (h : 4096 < opts.maxNames ∨ 4096 < opts.maxPrefixes ∨ 4096 < opts.maxDatatypes) :
    DecState.new opts a = .error .jassertion := by
  unfold DecState.new
  simp only [bind, Except.bind, pure, Except.pure]
  rcases LookupDec.new_ok_or_jassertion opts.maxNames with ⟨t1, h1⟩ | h1
  · rw [h1]; dsimp only
    rcases LookupDec.new_ok_or_jassertion opts.maxPrefixes with ⟨t2, h2⟩ | h2
    · rw [h2]; dsimp only
      rcases LookupDec.new_ok_or_jassertion opts.maxDatatypes with ⟨t3, h3⟩ | h3
      · exfalso
        rcases h with h | h | h
        · rw [LookupDec.new_oversized h] at h1; cases h1
        · rw [LookupDec.new_oversized h] at h2; cases h2
        · rw [LookupDec.new_oversized h] at h3; cases h3
      · rw [h3]
    · rw [h2]
  · rw [h1]

end Jelly

import JellyModel
import JellyProofs.C04
import JellyProofs.C07
import JellyProofs.C08
import JellyProofs.C01Bytes
/-!
# Helper lemmas for C04 at the byte level: frames of ANY producer (empty frames allowed anywhere)
-/
namespace Jelly

/-- The first non-empty frame of a list of frames whose concatenated rows start with `r`: everything
    before it is empty, and its rows start with `r`. -/
theorem split_first_nonempty {fs : List Frame} {r : Row} {rest : List Row}
    (hrows : fs.flatMap (·.rows) = r :: rest) :
    ∃ sk f tail rs, fs = sk ++ f :: tail ∧ (∀ g ∈ sk, g.rows = []) ∧ f.rows = r :: rs ∧
      fs.find? (fun f => !f.rows.isEmpty) = some f := by
  induction fs with
  | nil => simp at hrows
  | cons g fs ih =>
    cases hg : g.rows with
    | nil =>
      rw [List.flatMap_cons, hg, List.nil_append] at hrows
      obtain ⟨sk, f, tail, rs, hfs, hsk, hf, hfind⟩ := ih hrows
      refine ⟨g :: sk, f, tail, rs, by rw [hfs]; rfl, ?_, hf, ?_⟩
      · intro x hx
        rcases List.mem_cons.1 hx with rfl | hx
        · exact hg
        · exact hsk x hx
      · rw [List.find?_cons_of_neg (by simp [hg])]
        exact hfind
    | cons a as =>
      rw [List.flatMap_cons, hg, List.cons_append] at hrows
      injection hrows with h1 _
      subst h1
      refine ⟨[], g, fs, as, rfl, by simp, hg, ?_⟩
      rw [List.find?_cons_of_pos]
      simp [hg]

/-- The first-non-empty-frame search over canonical delimited bytes skips the leading empty frames
    and stops at the first frame holding rows. -/
theorem firstNonEmpty_write (sk : List Frame) (f : Frame) (rest : Bytes) :
    ∀ (fuel : Nat) (skipped : List Frame), sk.length < fuel →
    (∀ g ∈ sk, g.rows = []) → (∀ g ∈ sk, g.metadata = []) →
    (∀ r ∈ f.rows, r.Ok) → f.metadata = [] → (encFrame f).length < 2 ^ 63 → f.rows ≠ [] →
    firstNonEmpty fuel (sk.flatMap writeDelimited ++ (writeDelimited f ++ rest)) skipped
      = .ok (skipped ++ sk, f, rest) := by
  induction sk with
  | nil =>
    intro fuel skipped hfuel _ _ hok hm hlen hne
    obtain ⟨fuel, rfl⟩ : ∃ k, fuel = k + 1 := ⟨fuel - 1, by simp at hfuel; omega⟩
    simp only [List.flatMap_nil, List.nil_append, firstNonEmpty,
      parseLengthPrefixed_write f hok hm hlen rest, List.append_nil]
    cases hr : f.rows with
    | nil => exact absurd hr hne
    | cons a as => simp
  | cons g sk ih =>
    intro fuel skipped hfuel hsk hskm hok hm hlen hne
    obtain ⟨fuel, rfl⟩ : ∃ k, fuel = k + 1 := ⟨fuel - 1, by simp at hfuel; omega⟩
    have hg : g.rows = [] := hsk g (by simp)
    have hgm : g.metadata = [] := hskm g (by simp)
    have hE : encFrame g = [] := by simp [encFrame, hg, hgm]
    have hp := parseLengthPrefixed_write g (by rw [hg]; simp) hgm (by rw [hE]; simp)
      (sk.flatMap writeDelimited ++ (writeDelimited f ++ rest))
    simp only [List.flatMap_cons, List.append_assoc, firstNonEmpty, hp, hg, List.isEmpty_nil, if_true]
    rw [ih fuel (skipped ++ [g]) (by simp at hfuel; omega) (fun x hx => hsk x (by simp [hx]))
      (fun x hx => hskm x (by simp [hx])) hok hm hlen hne]
    simp

/-- `parseFrames` on frames whose concatenated rows the reference decoder accepts. -/
theorem parseFrames_of_spec (fs : List Frame) (first : Frame) (o : Options) (rest rs : List Row)
    (st : Spec.State) (evs : List Event) (dl : Bool)
    (hrows : fs.flatMap (·.rows) = .options o :: rest)
    (hsz : o.maxNames ≤ MAX_LOOKUP_SIZE ∧ o.maxPrefixes ≤ MAX_LOOKUP_SIZE ∧ o.maxDatatypes ≤ MAX_LOOKUP_SIZE)
    (hvalid : Spec.runRows (fs.flatMap (·.rows)) = (st, evs, none))
    (hfind : fs.find? (fun f => !f.rows.isEmpty) = some first)
    (hfirst : first.rows = .options o :: rs) :
    ∃ opts, optionsFromFrame first dl = .ok opts ∧ parseFrames fs dl = .ok evs := by
  rw [hrows] at hvalid
  obtain ⟨opts, adapter, d0, d, ho, ha, hd, hdec⟩ :=
    C04_decoder_refines_spec o rest st evs dl hsz hvalid
  have ho' : optionsFromFrame first dl = .ok opts := by
    rw [optionsFromFrame_head first { rows := .options o :: rest } dl (by simp [hfirst])]
    exact ho
  rw [← hrows] at hdec
  obtain ⟨done, part, hdf, hflat⟩ := decodeFrames_of_rows true d0 d fs evs hdec
  refine ⟨opts, ho', ?_⟩
  unfold parseFrames
  simp only [hfind, ho', ha, hd, hdf, hflat]

/-- The framing/options stage and the frame iterator on canonical delimited bytes of any frames whose
    rows start with an options row: all the frames come back. -/
theorem parseFlat_delimited_any (fs : List Frame) (o : Options) (rest : List Row) (evs : List Event)
    (hwf : ∀ f ∈ fs, ∀ r ∈ f.rows, r.wireWF = true)
    (hm : ∀ f ∈ fs, f.metadata = [])
    (hlen : ∀ f ∈ fs, (encFrame f).length < 2 ^ 32)
    (hrows : fs.flatMap (·.rows) = .options o :: rest)
    (h3 : 3 ≤ (fs.flatMap writeDelimited).length)
    (hpf : ∀ first rs, fs.find? (fun f => !f.rows.isEmpty) = some first → first.rows = .options o :: rs →
      ∃ opts, optionsFromFrame first true = .ok opts ∧ parseFrames fs true = .ok evs) :
    parseFlat .seekable (fs.flatMap writeDelimited) false true = { events := evs, err := none } := by
  obtain ⟨sk, f, tail, rs, hfs, hsk, hf, hfind⟩ := split_first_nonempty hrows
  obtain ⟨opts, ho, hpf⟩ := hpf f rs hfind hf
  have hdl : opts.delimited = true := optionsFromFrame_delimited_field ho
  have hne : f.rows ≠ [] := by rw [hf]; simp
  have hfmem : f ∈ fs := by rw [hfs]; simp
  -- the hint, from the very first frame (empty or not)
  have hhint : delimitedHint ((fs.flatMap writeDelimited).take 3) = true := by
    cases hfs' : fs with
    | nil => rw [hfs'] at hrows; simp at hrows
    | cons g fs' =>
      rw [hfs'] at h3
      rw [List.flatMap_cons] at h3 ⊢
      exact C08_hint_delimited g _ (fun _ => hm g (by rw [hfs']; simp)) h3
  have hbytes : fs.flatMap writeDelimited
      = sk.flatMap writeDelimited ++ (writeDelimited f ++ tail.flatMap writeDelimited) := by
    rw [hfs, List.flatMap_append, List.flatMap_cons]
  have hfne : firstNonEmpty ((fs.flatMap writeDelimited).length + 1) (fs.flatMap writeDelimited) []
      = .ok (sk, f, tail.flatMap writeDelimited) := by
    have hsklen : sk.length < (fs.flatMap writeDelimited).length + 1 := by
      have h1 : sk.length ≤ (sk.flatMap writeDelimited).length := by
        clear hsk hbytes hfs
        induction sk with
        | nil => simp
        | cons g sk ih =>
          have := writeDelimited_length_pos g
          simp only [List.flatMap_cons, List.length_append, List.length_cons]
          omega
      rw [hbytes]
      simp only [List.length_append]
      omega
    have := firstNonEmpty_write sk f (tail.flatMap writeDelimited)
      ((fs.flatMap writeDelimited).length + 1) [] hsklen hsk
      (fun g hg => hm g (by rw [hfs]; simp [hg]))
      (fun r hr => rowOk_of_wireWF r (hwf f hfmem r hr)) (hm f hfmem)
      (by have := hlen f hfmem; omega) hne
    rw [← hbytes] at this
    simpa using this
  have hgo : getOptionsAndFrames .seekable (fs.flatMap writeDelimited)
      = .ok { opts := opts, pending := sk ++ [f], rest := tail.flatMap writeDelimited } := by
    unfold getOptionsAndFrames
    simp only [SourceKind.header, hhint, if_true, hfne, ho]
  have hrest := wire_delimited_roundtrip tail (fun g hg => hwf g (by rw [hfs]; simp [hg]))
    (fun g hg => hm g (by rw [hfs]; simp [hg])) (fun g hg => hlen g (by rw [hfs]; simp [hg]))
  refine parseFlat_of_opened _ _ fs f evs hgo hfind (by simpa [hdl] using ho) ?_
    (by simpa [hdl] using hpf)
  simp only [Opened.frames, hdl, if_true, hrest, hfs, List.append_assoc, List.singleton_append]

end Jelly

import JellyProofs.Lemmas.AuditStmt
import JellyProofs.Lemmas.StreamSim
/-!
# Stream-level audit (C19): `Spec.audit` of everything `streamFrames` writes is all zeros.
-/
namespace Jelly

/-- All terms of a statement are fixed by `Term.norm`. -/
def NormalStmt (t : List Term) : Prop := ∀ x ∈ t, x.norm = x

theorem step_options_init {o : Options} {ss0 : Spec.State} {ev : Option Event}
    (h : Spec.step {} (.options o) = .ok (ss0, ev)) : ss0 = initState o := by
  simp only [Spec.step] at h
  cases hc : Spec.checkOptions o with
  | error e => simp [hc, bind, Except.bind] at h
  | ok u =>
    simp only [hc, bind, Except.bind, pure, Except.pure, Except.ok.injEq, Prod.mk.injEq] at h
    rw [← h.1]; rfl

/-- The options row: the audit starts in a state related to the writer's. -/
theorem options_stepA {s : Stream} {cls : StreamClass} {o : SerOptions} (hs : Stream.new cls o = .ok s)
    (hl : validLogical s.logicalType = true) :
    ∃ ss0 oo, Spec.step {} s.optionsRow = .ok (ss0, none) ∧ InvA o.preset s.enc ss0 ∧
      ss0.opts = some oo ∧ oo.physicalType = cls.physical ∧ ss0.graph = none := by
  obtain ⟨ss0, oo, hstep, inv0, ho0, hph, hg0⟩ := options_step hs hl
  obtain ⟨_, _, hopts, henc, _, _, _⟩ := Stream.new_spec hs
  refine ⟨ss0, oo, hstep, ⟨inv0, ?_, ?_⟩, ho0, hph, hg0⟩
  · have : ss0 = initState (wireOptions s) := step_options_init (o := wireOptions s) hstep
    subst this
    rw [henc]
    simp only [initState, wireOptions, hopts]
    exact ⟨XMirror.new _, XMirror.new _, XMirror.new _⟩
  · rw [henc]
    exact ⟨rfl, rfl, rfl, rfl⟩

/-- Assembly: options row, then a body that the audit does not count. -/
theorem audit_assembly {s : Stream} {cls : StreamClass} {o : SerOptions} (hs : Stream.new cls o = .ok s)
    (hl : validLogical s.logicalType = true) {r : Run}
    (hloop : ∀ ss0 oo, InvA o.preset s.enc ss0 → ss0.opts = some oo → oo.physicalType = cls.physical →
      ss0.graph = none →
      ∃ rows, allRowsOf r = [s.optionsRow] ++ rows ∧ ∀ a, Spec.runAudit ss0 none a rows = a) :
    Spec.audit (allRowsOf r) = {} := by
  obtain ⟨ss0, oo, hstep, inv0, ho0, hph, hg0⟩ := options_stepA hs hl
  obtain ⟨rows, hrows, haud⟩ := hloop ss0 oo inv0 ho0 hph hg0
  rw [hrows]
  have hrow : s.optionsRow = .options (wireOptions s) := rfl
  rw [hrow] at hstep ⊢
  simp only [Spec.audit, List.singleton_append, Spec.runAudit, hstep, Spec.auditRow]
  exact haud _

theorem normalStmt3 {s p o : Term} (h : NormalStmt [s, p, o]) : s.norm = s ∧ p.norm = p ∧ o.norm = o :=
  ⟨h s (by simp), h p (by simp), h o (by simp)⟩

theorem normalStmt4 {s p o g : Term} (h : NormalStmt [s, p, o, g]) :
    s.norm = s ∧ p.norm = p ∧ o.norm = o ∧ g.norm = g :=
  ⟨h s (by simp), h p (by simp), h o (by simp), h g (by simp)⟩

theorem stmtLoop_triple_audit {P : Preset} {o : Options} (hv : P.valid = true) (h1 : o.physicalType = 1)
    (exc : PyErr) :
    ∀ (stmts : List (List Term)) (r : Run) (ss : Spec.State),
      r.err = none → InvA P r.stream.enc ss → ss.opts = some o →
      (∀ t ∈ stmts, tripleWF t = true) → (∀ t ∈ stmts, stmtFits P t = true) →
      (∀ t ∈ stmts, NormalStmt t) →
      ∃ rows, (stmtLoop (Stream.triple exc) r stmts).err = none ∧
        allRowsOf (stmtLoop (Stream.triple exc) r stmts) = allRowsOf r ++ rows ∧
        ∀ lc a, Spec.runAudit ss lc a rows = a := by
  intro stmts
  induction stmts with
  | nil =>
    intro r ss herr _ _ _ _ _
    exact ⟨[], herr, by simp [stmtLoop], fun _ _ => rfl⟩
  | cons t ts ih =>
    intro r ss herr inv ho hwf hfit hn
    obtain ⟨s, p, ob, rfl, hs, hp, hob⟩ := tripleWF_elim (hwf t List.mem_cons_self)
    have hf := TFits.of_stmtFits hv (hfit _ List.mem_cons_self)
    obtain ⟨ns, np, no⟩ := normalStmt3 (hn _ List.mem_cons_self)
    obtain ⟨es', rows, ss1, heq, inv1, ho1, _, haud⟩ :=
      triple_audit hf inv ho (Or.inl h1) exc s p ob hs hp hob
        (termKeys_sub_stmtKeys (by simp)) (termKeys_sub_stmtKeys (by simp)) (termKeys_sub_stmtKeys (by simp))
        ns np no
    obtain ⟨s', fr, hstep, henc', hrows⟩ := Stream.triple_ok heq
    have inv1' : InvA P (r.push s' fr).stream.enc ss1 := by simpa [Run.push, henc'] using inv1
    obtain ⟨rows2, e1, e2, e3⟩ := ih (r.push s' fr) ss1 (by simpa [Run.push] using herr) inv1' ho1
      (fun t ht => hwf t (List.mem_cons_of_mem _ ht)) (fun t ht => hfit t (List.mem_cons_of_mem _ ht))
      (fun t ht => hn t (List.mem_cons_of_mem _ ht))
    have hloop : stmtLoop (Stream.triple exc) r ([s, p, ob] :: ts)
        = stmtLoop (Stream.triple exc) (r.push s' fr) ts := by
      simp only [stmtLoop, hstep]
    rw [hloop]
    refine ⟨rows ++ rows2, e1, ?_, ?_⟩
    · rw [e2, allRowsOf_push hrows, List.append_assoc]
    · intro lc a
      rw [haud, e3]

theorem stmtLoop_quad_audit {P : Preset} {o : Options} (hv : P.valid = true) (h2 : o.physicalType = 2)
    (exc : PyErr) :
    ∀ (stmts : List (List Term)) (r : Run) (ss : Spec.State),
      r.err = none → InvA P r.stream.enc ss → ss.opts = some o →
      (∀ t ∈ stmts, quadWF t = true) → (∀ t ∈ stmts, stmtFits P t = true) →
      (∀ t ∈ stmts, NormalStmt t) →
      ∃ rows, (stmtLoop (Stream.quad exc) r stmts).err = none ∧
        allRowsOf (stmtLoop (Stream.quad exc) r stmts) = allRowsOf r ++ rows ∧
        ∀ lc a, Spec.runAudit ss lc a rows = a := by
  intro stmts
  induction stmts with
  | nil =>
    intro r ss herr _ _ _ _ _
    exact ⟨[], herr, by simp [stmtLoop], fun _ _ => rfl⟩
  | cons t ts ih =>
    intro r ss herr inv ho hwf hfit hn
    obtain ⟨s, p, ob, g, rfl, hs, hp, hob, hg⟩ := quadWF_elim (hwf t List.mem_cons_self)
    have hf := TFits.of_stmtFits hv (hfit _ List.mem_cons_self)
    obtain ⟨ns, np, no, ng⟩ := normalStmt4 (hn _ List.mem_cons_self)
    obtain ⟨es', rows, ss1, heq, inv1, ho1, _, haud⟩ :=
      quad_audit hf inv ho h2 exc s p ob g hs hp hob hg
        (termKeys_sub_stmtKeys (by simp)) (termKeys_sub_stmtKeys (by simp))
        (termKeys_sub_stmtKeys (by simp)) (termKeys_sub_stmtKeys (by simp)) ns np no ng
    obtain ⟨s', fr, hstep, henc', hrows⟩ := Stream.quad_ok heq
    have inv1' : InvA P (r.push s' fr).stream.enc ss1 := by simpa [Run.push, henc'] using inv1
    obtain ⟨rows2, e1, e2, e3⟩ := ih (r.push s' fr) ss1 (by simpa [Run.push] using herr) inv1' ho1
      (fun t ht => hwf t (List.mem_cons_of_mem _ ht)) (fun t ht => hfit t (List.mem_cons_of_mem _ ht))
      (fun t ht => hn t (List.mem_cons_of_mem _ ht))
    have hloop : stmtLoop (Stream.quad exc) r ([s, p, ob, g] :: ts)
        = stmtLoop (Stream.quad exc) (r.push s' fr) ts := by
      simp only [stmtLoop, hstep]
    rw [hloop]
    refine ⟨rows ++ rows2, e1, ?_, ?_⟩
    · rw [e2, allRowsOf_push hrows, List.append_assoc]
    · intro lc a
      rw [haud, e3]

theorem triples_audit (o : SerOptions) (s : Stream) (stmts : List (List Term))
    (hs : Stream.new .triple o = .ok s) (hl : validLogical s.logicalType = true)
    (hwf : ∀ t ∈ stmts, tripleWF t = true) (hfit : ∀ t ∈ stmts, stmtFits o.preset t = true)
    (hn : ∀ t ∈ stmts, NormalStmt t) :
    Spec.audit (allRowsOf (streamFrames s (.gen stmts))) = {} := by
  obtain ⟨hv, hcls, _⟩ := Stream.new_spec hs
  obtain ⟨henc, hrows0⟩ := enroll_fresh hs
  apply audit_assembly hs hl
  intro ss0 oo inv0 ho0 hph _
  obtain ⟨rows, e1, e2, e3⟩ :=
    stmtLoop_triple_audit hv (o := oo) (by simpa [StreamClass.physical] using hph) .runtimeError stmts
      { stream := s.enroll } ss0 rfl (by rw [henc]; exact inv0) ho0 hwf hfit hn
  have hsf : streamFrames s (.gen stmts)
      = epilogue (stmtLoop (Stream.triple .runtimeError) { stream := s.enroll } stmts) false := by
    simp only [streamFrames, hcls, triplesStreamFrames, prologue, SerData.stmts, e1, Option.isSome_none,
      Bool.false_eq_true, if_false]
  obtain ⟨a1, _, _⟩ := allRowsOf_epilogue (stmtLoop (Stream.triple .runtimeError) { stream := s.enroll } stmts) false
  rw [hsf]
  exact ⟨rows, by rw [a1, e2, hrows0], fun a => e3 none a⟩

theorem quads_audit (o : SerOptions) (s : Stream) (stmts : List (List Term))
    (hs : Stream.new .quad o = .ok s) (hl : validLogical s.logicalType = true)
    (hwf : ∀ t ∈ stmts, quadWF t = true) (hfit : ∀ t ∈ stmts, stmtFits o.preset t = true)
    (hn : ∀ t ∈ stmts, NormalStmt t) :
    Spec.audit (allRowsOf (streamFrames s (.gen stmts))) = {} := by
  obtain ⟨hv, hcls, _⟩ := Stream.new_spec hs
  obtain ⟨henc, hrows0⟩ := enroll_fresh hs
  apply audit_assembly hs hl
  intro ss0 oo inv0 ho0 hph _
  obtain ⟨rows, e1, e2, e3⟩ :=
    stmtLoop_quad_audit hv (o := oo) (by simpa [StreamClass.physical] using hph) .runtimeError stmts
      { stream := s.enroll } ss0 rfl (by rw [henc]; exact inv0) ho0 hwf hfit hn
  have hsf : streamFrames s (.gen stmts)
      = epilogue (stmtLoop (Stream.quad .runtimeError) { stream := s.enroll } stmts) true := by
    simp only [streamFrames, hcls, quadsStreamFrames, prologue, SerData.stmts, e1, Option.isSome_none,
      Bool.false_eq_true, if_false]
  obtain ⟨a1, _, _⟩ := allRowsOf_epilogue (stmtLoop (Stream.quad .runtimeError) { stream := s.enroll } stmts) true
  rw [hsf]
  exact ⟨rows, by rw [a1, e2, hrows0], fun a => e3 none a⟩

/-! ## Graph streams -/

theorem Stream.graphTriples_audit {P : Preset} {o : Options} (h3 : o.physicalType = 3) (exc : PyErr)
    (gn : Term) :
    ∀ (triples : List (List Term)) (s : Stream) (acc : List Frame) (ss : Spec.State),
      InvA P s.enc ss → ss.opts = some o → ss.graph = some gn →
      (∀ t ∈ triples, TripleOK P t) → (∀ t ∈ triples, NormalStmt t) →
      ∃ s' frames' ss' rows, Stream.graphTriples exc s triples acc = (s', frames', none) ∧
        rowsOf frames' s' = rowsOf acc s ++ rows ∧ InvA P s'.enc ss' ∧ ss'.opts = some o ∧
        ss'.graph = some gn ∧
        ∀ a rest, Spec.runAudit ss none a (rows ++ rest) = Spec.runAudit ss' none a rest := by
  intro triples
  induction triples with
  | nil =>
    intro s acc ss inv ho hg _ _
    exact ⟨s, acc, ss, [], by simp [Stream.graphTriples], by simp, inv, ho, hg, fun _ _ => rfl⟩
  | cons t ts ih =>
    intro s acc ss inv ho hg hok hn
    obtain ⟨a, b, c, rfl, ha, hb, hc, T, hf, hk⟩ := hok t List.mem_cons_self
    obtain ⟨na, nb, nc⟩ := normalStmt3 (hn _ List.mem_cons_self)
    obtain ⟨es', rows, ss1, heq, inv1, ho1, hg1, haud⟩ :=
      triple_audit hf inv ho (Or.inr ⟨h3, gn, hg⟩) exc a b c ha hb hc
        (hk a (by simp)) (hk b (by simp)) (hk c (by simp)) na nb nc
    obtain ⟨s', fr, hstep, henc', hrows⟩ := Stream.triple_ok heq
    obtain ⟨s2, frames2, ss2, rows2, e1, e2, e3, e4, e5, e6⟩ :=
      ih s' (acc ++ fr.toList) ss1 (by rw [henc']; exact inv1) ho1 (hg1.trans hg)
        (fun t ht => hok t (List.mem_cons_of_mem _ ht)) (fun t ht => hn t (List.mem_cons_of_mem _ ht))
    refine ⟨s2, frames2, ss2, rows ++ rows2, ?_, ?_, e3, e4, e5, ?_⟩
    · simp only [Stream.graphTriples, hstep, e1]
    · rw [e2, rowsOf_push' hrows, List.append_assoc]
    · intro a rest
      rw [List.append_assoc, haud, e6]

theorem Stream.graph_audit {P : Preset} {o : Options} (h3 : o.physicalType = 3) (exc : PyErr)
    (s : Stream) (ss : Spec.State) (g : Term) (triples : List (List Term))
    (inv : InvA P s.enc ss) (ho : ss.opts = some o)
    (hg : g.WFGraph = true) (hgf : TermFits P [g]) (htr : ∀ t ∈ triples, TripleOK P t)
    (hn : ∀ t ∈ triples, NormalStmt t) :
    ∃ s' frames ss' rows, s.graph exc g triples = (s', frames, none) ∧
      rowsOf frames s' = s.flow.rows ++ rows ∧ InvA P s'.enc ss' ∧ ss'.opts = some o ∧
      ∀ lc a rest, lc ≠ some g.norm →
        Spec.runAudit ss lc a (rows ++ rest) = Spec.runAudit ss' (some g.norm) a rest := by
  obtain ⟨T, hf, hk⟩ := hgf
  obtain ⟨te', rows0, w, ss1, heq, inv1, ho1, hg1, haud1⟩ :=
    graphStart_audit hf inv ho h3 g hg (hk g (by simp))
  obtain ⟨s2, frames2, ss2, rows2, e1, e2, e3, e4, e5, e6⟩ :=
    Stream.graphTriples_audit h3 exc g.norm triples
      (({ s with enc := { s.enc with te := te'.endRow } } : Stream).pushRows (rows0 ++ [Row.graphStart (some w)]))
      [] ss1 inv1 ho1 hg1 htr hn
  obtain ⟨inv3, haud3⟩ := graphEnd_audit e3 e4 h3 e5
  refine ⟨{ (s2.pushRows [Row.graphEnd]) with flow := (s2.pushRows [Row.graphEnd]).flow.frameFromBounds.1 },
    frames2 ++ (s2.pushRows [Row.graphEnd]).flow.frameFromBounds.2.toList, { ss2 with graph := none },
    (rows0 ++ [Row.graphStart (some w)]) ++ (rows2 ++ [Row.graphEnd]), ?_, ?_, inv3, e4, ?_⟩
  · simp only [Stream.graph, TermEnc.beginRow_ok inv.inv.nb, heq, e1]
  · have hfb := frameFromBounds_rows (s2.pushRows [Row.graphEnd]).flow
    have : rowsOf (frames2 ++ (s2.pushRows [Row.graphEnd]).flow.frameFromBounds.2.toList)
        { (s2.pushRows [Row.graphEnd]) with flow := (s2.pushRows [Row.graphEnd]).flow.frameFromBounds.1 }
        = rowsOf frames2 s2 ++ [Row.graphEnd] :=
      rowsOf_push' (s := s2) (by rw [hfb]; rfl)
    rw [this, e2]
    simp [rowsOf, Stream.pushRows, List.append_assoc]
  · intro lc a rest hlc
    rw [List.append_assoc, haud1 lc a _ hlc, List.append_assoc, e6, List.singleton_append, haud3]

def CurN (cur : Option (Term × List (List Term))) : Prop :=
  match cur with
  | none => True
  | some (g, acc) => g.norm = g ∧ ∀ t ∈ acc, NormalStmt t

/-- The "graph closed last" marker differs from the name of the graph being collected. -/
def CurLc (cur : Option (Term × List (List Term))) (lc : Option Term) : Prop :=
  match cur with
  | none => lc = none
  | some (g, _) => lc ≠ some g.norm

theorem graphsLoop_audit {P : Preset} {o : Options} (hv : P.valid = true) (h3 : o.physicalType = 3) :
    ∀ (stmts : List (List Term)) (r : Run) (ss : Spec.State) (cur : Option (Term × List (List Term)))
      (lc : Option Term),
      r.err = none → InvA P r.stream.enc ss → ss.opts = some o → CurOK P cur → CurN cur → CurLc cur lc →
      (∀ t ∈ stmts, quadWF t = true) → (∀ t ∈ stmts, stmtFits P t = true) → (∀ t ∈ stmts, NormalStmt t) →
      ∃ rows, (graphsLoop r cur stmts).err = none ∧
        allRowsOf (graphsLoop r cur stmts) = allRowsOf r ++ rows ∧
        ∀ a, Spec.runAudit ss lc a rows = a := by
  intro stmts
  induction stmts with
  | nil =>
    intro r ss cur lc herr inv ho hcur hcn hlc _ _ _
    match cur, hcur, hcn, hlc with
    | none, _, _, _ =>
      exact ⟨[], by simpa [graphsLoop] using herr, by simp [graphsLoop], fun _ => rfl⟩
    | some (g, acc), hcur, hcn, hlc =>
      obtain ⟨hg, hgf, hacc⟩ := hcur
      obtain ⟨s', frames, ss', rows, e1, e2, _, _, e6⟩ :=
        Stream.graph_audit h3 .runtimeError r.stream ss g acc inv ho hg hgf hacc hcn.2
      refine ⟨rows, by simp [graphsLoop, e1], ?_, ?_⟩
      · simp only [graphsLoop, e1, allRowsOf]
        simp only [rowsOf, List.flatMap_append, List.append_assoc] at e2 ⊢
        rw [e2]
      · intro a
        have := e6 lc a [] hlc
        rw [List.append_nil] at this
        rw [this]; rfl
  | cons st rest ih =>
    intro r ss cur lc herr inv ho hcur hcn hlc hwf hfit hn
    obtain ⟨a, b, c, g, rfl, ha, hb, hc, hg⟩ := quadWF_elim (hwf st List.mem_cons_self)
    have hf := TFits.of_stmtFits hv (hfit _ List.mem_cons_self)
    obtain ⟨na, nb, nc, ng⟩ := normalStmt4 (hn _ List.mem_cons_self)
    have hn3 : NormalStmt [a, b, c] := by
      intro x hx
      simp only [List.mem_cons, List.not_mem_nil, or_false] at hx
      rcases hx with rfl | rfl | rfl <;> assumption
    have hgf : TermFits P [g] := ⟨_, hf, fun t ht => termKeys_sub_stmtKeys (by
      simp only [List.mem_singleton] at ht; subst ht; simp)⟩
    have htf : TripleOK P [a, b, c] := ⟨a, b, c, rfl, ha, hb, hc, _, hf, fun t ht => termKeys_sub_stmtKeys (by
      simp only [List.mem_cons, List.not_mem_nil, or_false] at ht
      rcases ht with rfl | rfl | rfl <;> simp)⟩
    have hwf' := fun t ht => hwf t (List.mem_cons_of_mem _ ht)
    have hfit' := fun t ht => hfit t (List.mem_cons_of_mem _ ht)
    have hn' := fun t ht => hn t (List.mem_cons_of_mem _ ht)
    match cur, hcur, hcn, hlc with
    | none, _, _, hlc =>
      have hlc' : lc = none := hlc
      obtain ⟨rows, e1, e2, e3⟩ := ih r ss (some (g, [[a, b, c]])) lc herr inv ho
        ⟨hg, hgf, fun t ht => by simp only [List.mem_singleton] at ht; subst ht; exact htf⟩
        ⟨ng, fun t ht => by simp only [List.mem_singleton] at ht; subst ht; exact hn3⟩
        (by show lc ≠ some g.norm; rw [hlc']; simp) hwf' hfit' hn'
      refine ⟨rows, ?_, ?_, e3⟩
      · simpa [graphsLoop, stmtGraph?] using e1
      · simpa [graphsLoop, stmtGraph?] using e2
    | some (cg, acc), hcur, hcn, hlc =>
      obtain ⟨hcg, hcgf, hacc⟩ := hcur
      by_cases heq : cg = g
      · subst heq
        obtain ⟨rows, e1, e2, e3⟩ := ih r ss (some (cg, acc ++ [[a, b, c]])) lc herr inv ho
          ⟨hcg, hcgf, fun t ht => by
            rcases List.mem_append.mp ht with ht | ht
            · exact hacc t ht
            · simp only [List.mem_singleton] at ht; subst ht; exact htf⟩
          ⟨hcn.1, fun t ht => by
            rcases List.mem_append.mp ht with ht | ht
            · exact hcn.2 t ht
            · simp only [List.mem_singleton] at ht; subst ht; exact hn3⟩
          hlc hwf' hfit' hn'
        refine ⟨rows, ?_, ?_, e3⟩
        · simpa [graphsLoop, stmtGraph?] using e1
        · simpa [graphsLoop, stmtGraph?] using e2
      · obtain ⟨s', frames, ss1, rows1, g1, g2, g3, g4, g6⟩ :=
          Stream.graph_audit h3 .runtimeError r.stream ss cg acc inv ho hcg hcgf hacc hcn.2
        have hlc1 : CurLc (some (g, [[a, b, c]])) (some cg.norm) := by
          show some cg.norm ≠ some g.norm
          rw [hcn.1, ng]
          intro h; exact heq (Option.some.inj h)
        obtain ⟨rows, e1, e2, e3⟩ :=
          ih { stream := s', frames := r.frames ++ frames, err := none } ss1 (some (g, [[a, b, c]]))
            (some cg.norm) rfl g3 g4
            ⟨hg, hgf, fun t ht => by simp only [List.mem_singleton] at ht; subst ht; exact htf⟩
            ⟨ng, fun t ht => by simp only [List.mem_singleton] at ht; subst ht; exact hn3⟩
            hlc1 hwf' hfit' hn'
        have hne : (cg == g) = false := by simpa using heq
        have hloop : graphsLoop r (some (cg, acc)) ([a, b, c, g] :: rest)
            = graphsLoop { stream := s', frames := r.frames ++ frames, err := none } (some (g, [[a, b, c]])) rest := by
          simp [graphsLoop, stmtGraph?, hne, g1]
        rw [hloop]
        refine ⟨rows1 ++ rows, e1, ?_, ?_⟩
        · rw [e2]
          simp only [allRowsOf]
          simp only [rowsOf, List.flatMap_append, List.append_assoc] at g2 ⊢
          have g2' := congrArg (· ++ rows) g2
          simp only [List.append_assoc] at g2'
          rw [g2']
        · intro a
          rw [g6 lc a rows hlc, e3]

theorem graphs_audit (o : SerOptions) (s : Stream) (stmts : List (List Term))
    (hs : Stream.new .graph o = .ok s) (hl : validLogical s.logicalType = true)
    (hwf : ∀ t ∈ stmts, quadWF t = true) (hfit : ∀ t ∈ stmts, stmtFits o.preset t = true)
    (hn : ∀ t ∈ stmts, NormalStmt t) :
    Spec.audit (allRowsOf (streamFrames s (.gen stmts))) = {} := by
  obtain ⟨hv, hcls, _⟩ := Stream.new_spec hs
  obtain ⟨henc, hrows0⟩ := enroll_fresh hs
  apply audit_assembly hs hl
  intro ss0 oo inv0 ho0 hph _
  obtain ⟨rows, e1, e2, e3⟩ :=
    graphsLoop_audit hv (o := oo) (by simpa [StreamClass.physical] using hph) stmts
      { stream := s.enroll } ss0 none none rfl (by rw [henc]; exact inv0) ho0 trivial trivial rfl hwf hfit hn
  have hsf : streamFrames s (.gen stmts)
      = epilogue (graphsLoop { stream := s.enroll } none stmts) true := by
    simp only [streamFrames, hcls, graphsStreamFrames, prologue, SerData.stmts, e1, Option.isSome_none,
      Bool.false_eq_true, if_false]
  obtain ⟨a1, _, _⟩ := allRowsOf_epilogue (graphsLoop { stream := s.enroll } none stmts) true
  rw [hsf]
  exact ⟨rows, by rw [a1, e2, hrows0], e3⟩

end Jelly

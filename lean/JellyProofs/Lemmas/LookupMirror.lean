import JellyModel.Joint
import JellyProofs.Lemmas.Pin
/-!
# Writer/reader lookup mirror invariant

Reusable facts about `Lookup`, `LookupEnc` and `LookupDec`:

* `Lookup.WFm`   – permutation-invariant well-formedness of the writer table
* `Mirror e d`  – every resident writer entry `(key, index)` is stored in slot `index - 1` of the reader
* `LookupEnc.entryIndex_spec` – `entryIndex` never fails on a mirrored pair, preserves `Mirror` (after the
  reader ingested the emitted entry, if any), emits ids `≤ size` and leaves the key resident
* `LookupEnc.termIndex_resident` – `termIndex` on a resident key returns its index, only permutes `data`
* `JointInv`, `jointStep_spec`, `jointRun_spec` – the joint run of `JellyModel/Joint.lean`
-/
namespace Jelly

/-! ## Definitions -/

/-- Well-formedness of the writer table, stated so that it is invariant under permutation of `data`. -/
structure Lookup.WFm (l : Lookup) : Prop where
  pos : 0 < l.maxSize
  keysNodup : (l.data.map (·.1)).Nodup
  idxPerm : (l.data.map (·.2)).Perm (List.range' 1 l.data.length)
  lenLe : l.data.length ≤ l.maxSize
  ev : l.evicting = (l.data.length == l.maxSize)

/-- The reader table mirrors the writer table. -/
structure Mirror (e : LookupEnc) (d : LookupDec) : Prop where
  wf : e.lookup.WFm
  size : d.size = e.lookup.maxSize
  len : d.data.length = e.lookup.maxSize
  la : e.lastAssigned = d.lastAssigned
  res : ∀ k i, (k, i) ∈ e.lookup.data → d.data[i - 1]? = some (some k)
  /-- the tables of the joint run are raw tables: no row-local pin tracking -/
  np : e.lookup.pinned = none

/-! ## Basic facts on `WF` -/

theorem Lookup.WFm.idx_range {l : Lookup} (wf : l.WFm) {k i} (h : (k, i) ∈ l.data) :
    1 ≤ i ∧ i ≤ l.data.length := by
  have h1 : i ∈ l.data.map (·.2) := List.mem_map.mpr ⟨(k, i), h, rfl⟩
  have h2 := (wf.idxPerm.mem_iff).mp h1
  simp [List.mem_range'] at h2
  omega

theorem Lookup.WFm.idx_le_max {l : Lookup} (wf : l.WFm) {k i} (h : (k, i) ∈ l.data) :
    1 ≤ i ∧ i ≤ l.maxSize := by
  have := wf.idx_range h
  have := wf.lenLe
  omega

theorem Lookup.WFm.of_perm {l l' : Lookup} (wf : l.WFm) (hp : l'.data.Perm l.data)
    (hm : l'.maxSize = l.maxSize) (he : l'.evicting = l.evicting) : l'.WFm := by
  have hl := hp.length_eq
  refine ⟨hm ▸ wf.pos, ?_, ?_, ?_, ?_⟩
  · exact ((hp.map _).nodup_iff).mpr wf.keysNodup
  · rw [hl]; exact (hp.map _).trans wf.idxPerm
  · rw [hl, hm]; exact wf.lenLe
  · rw [he, hl, hm]; exact wf.ev

theorem Lookup.WFm.new {n : Nat} (h : 0 < n) : (Lookup.new n).WFm := by
  refine ⟨h, ?_, ?_, ?_, ?_⟩
  · simp [Lookup.new]
  · simp [Lookup.new]
  · simp [Lookup.new]
  · simp [Lookup.new]; omega

/-- With distinct keys, `find?` returns the unique entry of a resident key. -/
theorem find?_key_of_mem {xs : List (String × Nat)} (nd : (xs.map (·.1)).Nodup) {k : String} {i : Nat}
    (h : (k, i) ∈ xs) : xs.find? (·.1 == k) = some (k, i) := by
  induction xs with
  | nil => simp at h
  | cons x xs ih =>
    simp only [List.map_cons, List.nodup_cons] at nd
    rw [List.find?_cons]
    rcases List.mem_cons.mp h with h | h
    · subst h; simp
    · have hx : x.1 ≠ k := by
        intro hx
        exact nd.1 (List.mem_map.mpr ⟨(k, i), h, hx.symm⟩)
      have hx' : (x.1 == k) = false := by simpa using hx
      rw [hx']
      exact ih nd.2 h

theorem Lookup.WFm.find?_of_mem {l : Lookup} (wf : l.WFm) {k i} (h : (k, i) ∈ l.data) :
    l.find? k = some (k, i) :=
  find?_key_of_mem wf.keysNodup h

theorem Lookup.find?_some_mem {l : Lookup} {k : String} {e} (h : l.find? k = some e) :
    e ∈ l.data ∧ e.1 = k := by
  unfold Lookup.find? at h
  refine ⟨List.mem_of_find?_eq_some h, ?_⟩
  simpa using List.find?_some h

theorem Lookup.find?_none {l : Lookup} {k : String} (h : l.find? k = none) :
    ∀ e ∈ l.data, e.1 ≠ k := by
  unfold Lookup.find? at h
  intro e he
  simpa using List.find?_eq_none.mp h e he

/-! ## `moveToEnd` -/

theorem Lookup.moveToEnd_perm {l l' : Lookup} {k} (h : l.moveToEnd k = some l') :
    l'.data.Perm l.data ∧ l'.maxSize = l.maxSize ∧ l'.evicting = l.evicting := by
  unfold Lookup.moveToEnd at h
  split at h
  · simp at h
  · rename_i e he
    have hmem := (Lookup.find?_some_mem he).1
    injection h with h; subst h
    refine ⟨?_, by simp, by simp⟩
    rw [Lookup.pin_data]
    exact (List.perm_append_comm).trans (List.perm_cons_erase hmem).symm

theorem Lookup.moveToEnd_none {l : Lookup} {k} (h : l.moveToEnd k = none) :
    ∀ e ∈ l.data, e.1 ≠ k := by
  unfold Lookup.moveToEnd at h
  split at h
  · rename_i hf
    exact Lookup.find?_none hf
  · simp at h

/-- A hit: the key that was moved is resident (with some index) before and after. -/
theorem Lookup.moveToEnd_some_mem {l l' : Lookup} {k} (h : l.moveToEnd k = some l') :
    ∃ i, (k, i) ∈ l.data ∧ (k, i) ∈ l'.data := by
  have hp := (Lookup.moveToEnd_perm h).1
  unfold Lookup.moveToEnd at h
  split at h
  · simp at h
  · rename_i e he
    obtain ⟨hmem, hk⟩ := Lookup.find?_some_mem he
    obtain ⟨k', i⟩ := e
    simp only at hk; subst hk
    exact ⟨i, hmem, hp.mem_iff.mpr hmem⟩

/-- On a resident key `moveToEnd` succeeds, keeps the index of the key and only permutes `data`. -/
theorem Lookup.WFm.moveToEnd_resident {l : Lookup} (wf : l.WFm) {k i} (h : (k, i) ∈ l.data) :
    ∃ l', l.moveToEnd k = some l' ∧ l'.WFm ∧ l'.data.Perm l.data ∧ l'.maxSize = l.maxSize ∧
      l'.evicting = l.evicting ∧ (k, i) ∈ l'.data ∧ l'.find? k = some (k, i) ∧
      l'.pinned = l.pinned.map (k :: ·) := by
  have hf := wf.find?_of_mem h
  have hm : l.moveToEnd k = some (({ l with data := l.data.erase (k, i) ++ [(k, i)] } : Lookup).pin k) := by
    unfold Lookup.moveToEnd
    rw [hf]
  obtain ⟨hp, hmax, hev⟩ := Lookup.moveToEnd_perm hm
  have wf' := wf.of_perm hp hmax hev
  have hmem : (k, i) ∈ (({ l with data := l.data.erase (k, i) ++ [(k, i)] } : Lookup).pin k).data := by simp
  exact ⟨_, hm, wf', hp, hmax, hev, hmem, wf'.find?_of_mem hmem, Lookup.moveToEnd_pinned hm⟩

/-! ## Reader primitives -/

theorem LookupDec.assignEntry_spec {d : LookupDec} {id i : Nat} {v : String} (hi : 1 ≤ i)
    (hlt : i ≤ d.data.length)
    (hid : (if id == 0 then d.lastAssigned + 1 else id) = i) :
    d.assignEntry id v = .ok { d with data := d.data.set (i - 1) (some v), lastAssigned := i } := by
  have hlt' : i - 1 < d.data.length := by omega
  simp only [LookupDec.assignEntry, hid, hlt', if_true]

/-- Reading a filled slot with a non-zero index. -/
theorem LookupDec.at_spec {d : LookupDec} {i : Nat} {k : String} (hi : 1 ≤ i)
    (h : d.data[i - 1]? = some (some k)) :
    d.at i = ({ d with lastReused := i }, .ok k) := by
  have hne : (i == 0) = false := by simp; omega
  simp only [LookupDec.at, hne, h]
  rfl

/-! ## `Mirror` -/

theorem Mirror.of_perm {e : LookupEnc} {d : LookupDec} (m : Mirror e d) {l' : Lookup}
    (hp : l'.data.Perm e.lookup.data) (hm : l'.maxSize = e.lookup.maxSize)
    (he : l'.evicting = e.lookup.evicting) (hn : l'.pinned = none) (lr : Nat) :
    Mirror { e with lookup := l', lastReused := lr } d := by
  refine ⟨m.wf.of_perm hp hm he, ?_, ?_, m.la, ?_, hn⟩
  · simpa [hm] using m.size
  · simpa [hm] using m.len
  · intro k i hki
    exact m.res k i ((hp.mem_iff).mp hki)

/-- `Mirror` does not mention the `lastReused` fields. -/
theorem Mirror.set_lastReused {e : LookupEnc} {d : LookupDec} (m : Mirror e d) (a b : Nat) :
    Mirror { e with lastReused := a } { d with lastReused := b } :=
  ⟨m.wf, m.size, m.len, m.la, m.res, m.np⟩

theorem Mirror.init {n : Nat} (h : 0 < n) :
    Mirror (LookupEnc.new n) { size := n, data := List.replicate n none } := by
  refine ⟨Lookup.WFm.new h, rfl, ?_, rfl, ?_, rfl⟩
  · simp [LookupEnc.new, Lookup.new]
  · intro k i hki
    simp [LookupEnc.new, Lookup.new] at hki

/-- A resident key resolves on the reader. -/
theorem Mirror.at_resident {e : LookupEnc} {d : LookupDec} (m : Mirror e d) {k i}
    (h : (k, i) ∈ e.lookup.data) :
    1 ≤ i ∧ i ≤ e.lookup.maxSize ∧ d.at i = ({ d with lastReused := i }, .ok k) := by
  have hr := m.wf.idx_le_max h
  exact ⟨hr.1, hr.2, LookupDec.at_spec hr.1 (m.res k i h)⟩

theorem Mirror.entry_hit {e : LookupEnc} {d : LookupDec} {k} (m : Mirror e d) {l'}
    (h : e.lookup.moveToEnd k = some l') : Mirror { e with lookup := l' } d := by
  obtain ⟨hp, hm, he⟩ := Lookup.moveToEnd_perm h
  exact m.of_perm hp hm he (by rw [Lookup.moveToEnd_pinned h, m.np]; rfl) e.lastReused

/-- Shared tail of both insert cases. -/
theorem Mirror.after_set {e : LookupEnc} {d : LookupDec} {k : String} {i : Nat} {l' : Lookup}
    (m : Mirror e d) (wf' : l'.WFm) (hm : l'.maxSize = e.lookup.maxSize) (hn : l'.pinned = none)
    (hi : 1 ≤ i) (hle : i ≤ e.lookup.maxSize)
    (hold : ∀ k' i', (k', i') ∈ l'.data →
      (k', i') = (k, i) ∨ ((k', i') ∈ e.lookup.data ∧ i' ≠ i)) :
    Mirror { e with lookup := l', lastAssigned := i }
      { d with data := d.data.set (i - 1) (some k), lastAssigned := i } := by
  refine ⟨wf', by simpa [hm] using m.size, by simpa [hm] using m.len, rfl, ?_, hn⟩
  intro k' i' hmem
  rcases hold k' i' hmem with h | ⟨h, hne⟩
  · injection h with h1 h2; subst h1; subst h2
    have : i' - 1 < d.data.length := by have := m.len; omega
    simp [this]
  · have hr := m.wf.idx_range h
    have : i - 1 ≠ i' - 1 := by omega
    simp only [List.getElem?_set_ne this]
    exact m.res k' i' h

/-- A miss: `insert` succeeds, the reader accepts the emitted id, and the pair stays mirrored. -/
theorem Mirror.entry_miss {e : LookupEnc} {d : LookupDec} {k} (m : Mirror e d)
    (h : e.lookup.moveToEnd k = none) :
    ∃ l' idx d', e.lookup.insert k = .ok (l', idx) ∧
      d.assignEntry (if idx == e.lastAssigned + 1 then 0 else idx) k = .ok d' ∧
      Mirror { e with lookup := l', lastAssigned := idx } d' ∧
      (if idx == e.lastAssigned + 1 then 0 else idx) ≤ e.lookup.maxSize ∧
      l'.maxSize = e.lookup.maxSize ∧ (k, idx) ∈ l'.data ∧
      d'.lastReused = d.lastReused := by
  have hk := Lookup.moveToEnd_none h
  have wf := m.wf
  have hnp := m.np
  have hpos : (e.lookup.maxSize == 0) = false := by have := wf.pos; simp; omega
  have hknot : k ∉ e.lookup.data.map (·.1) := by
    intro hc; obtain ⟨x, hx, hxk⟩ := List.mem_map.mp hc; exact hk x hx hxk
  by_cases hev : e.lookup.evicting = true
  · -- evicting: reuse the oldest entry's index
    cases hd : e.lookup.data with
    | nil => have := wf.ev; have := wf.pos; simp [hev, hd] at *; omega
    | cons x rest =>
      obtain ⟨k0, i0⟩ := x
      have hmem0 : (k0, i0) ∈ e.lookup.data := by rw [hd]; simp
      have hr0 := wf.idx_range hmem0
      have hlen := wf.lenLe
      have hrv : e.lookup.insert k = .ok ({ e.lookup with data := rest ++ [(k, i0)] }, i0) := by
        simp only [Lookup.insert, hpos, hev, hd, Lookup.isPinned_of_none hnp]
        rw [Lookup.pin_of_none (by exact hnp)]; rfl
      have hkeys := wf.keysNodup; have hidx := wf.idxPerm; have hevv := wf.ev
      rw [hd] at hkeys hidx hevv hlen hr0
      simp only [List.map_cons, List.nodup_cons, List.length_cons] at hkeys hidx hevv hlen hr0
      have hidxnd : (i0 :: rest.map (·.2)).Nodup :=
        (hidx.nodup_iff).mpr (List.nodup_range' (step := 1) (by omega))
      have wf' : ({ e.lookup with data := rest ++ [(k, i0)] } : Lookup).WFm := by
        refine ⟨wf.pos, ?_, ?_, ?_, ?_⟩
        · simp only [List.map_append, List.map_cons, List.map_nil]
          refine List.nodup_append.mpr ⟨hkeys.2, by simp, ?_⟩
          intro a ha b hb; simp at hb; subst hb
          intro hab; subst hab
          apply hknot; rw [hd]; simp [ha]
        · simp only [List.map_append, List.map_cons, List.map_nil, List.length_append,
            List.length_cons, List.length_nil]
          exact (List.perm_append_comm).trans hidx
        · simp; omega
        · simp [hev] at hevv ⊢; omega
      have hid : (if (if i0 == e.lastAssigned + 1 then 0 else i0) == 0 then d.lastAssigned + 1
          else (if i0 == e.lastAssigned + 1 then 0 else i0)) = i0 := by
        simp only [← m.la]
        split <;> simp_all <;> omega
      refine ⟨_, i0, _, hrv,
        LookupDec.assignEntry_spec (i := i0) (by omega) (by have := m.len; omega) hid, ?_, ?_,
        rfl, by simp, rfl⟩
      · apply Mirror.after_set m wf' rfl hnp (by omega) (by omega)
        intro k' i' hm'
        simp only [List.mem_append, List.mem_singleton] at hm'
        rcases hm' with hm' | hm'
        · right
          refine ⟨by rw [hd]; exact List.mem_cons_of_mem _ hm', ?_⟩
          intro hc; subst hc
          have : i' ∈ rest.map (·.2) := List.mem_map.mpr ⟨(k', i'), hm', rfl⟩
          exact (List.nodup_cons.mp hidxnd).1 this
        · left; exact hm'
      · split <;> omega
  · -- filling: next sequential index
    have hev' : e.lookup.evicting = false := by simpa using hev
    have hne : e.lookup.data.length ≠ e.lookup.maxSize := by
      have := wf.ev; simp [hev'] at this; exact this
    have hlen := wf.lenLe
    let l2 : Lookup := ⟨e.lookup.maxSize, e.lookup.data ++ [(k, e.lookup.data.length + 1)],
                        (e.lookup.data.length + 1 == e.lookup.maxSize), none⟩
    have hrv : e.lookup.insert k = .ok (l2, e.lookup.data.length + 1) := by
      simp only [Lookup.insert, hpos, hev']
      rw [Lookup.pin_of_none (by exact hnp)]
      simp only [l2, ← hnp]; rfl
    have wf' : l2.WFm := by
      refine ⟨wf.pos, ?_, ?_, ?_, ?_⟩
      all_goals dsimp only [l2]
      · simp only [List.map_append, List.map_cons, List.map_nil]
        refine List.nodup_append.mpr ⟨wf.keysNodup, by simp, ?_⟩
        intro a ha b hb; simp at hb; subst hb
        intro hab; subst hab; exact hknot ha
      · simp only [List.map_append, List.map_cons, List.map_nil, List.length_append,
          List.length_cons, List.length_nil]
        rw [List.range'_concat]
        exact List.Perm.append wf.idxPerm (by simp; omega)
      · simp; omega
      · simp
    have hid : (if (if e.lookup.data.length + 1 == e.lastAssigned + 1 then 0
          else e.lookup.data.length + 1) == 0 then d.lastAssigned + 1
        else (if e.lookup.data.length + 1 == e.lastAssigned + 1 then 0
          else e.lookup.data.length + 1)) = e.lookup.data.length + 1 := by
      simp only [← m.la]
      split <;> simp_all
    refine ⟨l2, _, _, hrv,
      LookupDec.assignEntry_spec (i := e.lookup.data.length + 1) (by omega)
        (by have := m.len; omega) hid, ?_, ?_, rfl, by simp [l2], rfl⟩
    · apply Mirror.after_set m wf' rfl rfl (by omega) (by omega)
      intro k' i' hm'
      dsimp only [l2] at hm'
      simp only [List.mem_append, List.mem_singleton] at hm'
      rcases hm' with hm' | hm'
      · right; exact ⟨hm', by have := wf.idx_range hm'; omega⟩
      · left; exact hm'
    · split <;> omega

/-! ## Encoder operations -/

/-- `entryIndex` on a mirrored pair: never fails; either a hit (no entry, still mirrored) or a miss
    whose emitted id is `≤ size`, is accepted by the reader, and leaves the pair mirrored.
    In both cases the key is resident afterwards and `lastReused`/`maxSize` are untouched. -/
theorem LookupEnc.entryIndex_spec {e : LookupEnc} {d : LookupDec} (m : Mirror e d) (k : String) :
    ∃ e' oid, e.entryIndex k = .ok (e', oid) ∧
      e'.lastReused = e.lastReused ∧ e'.lookup.maxSize = e.lookup.maxSize ∧
      (∃ i, (k, i) ∈ e'.lookup.data) ∧
      ((oid = none ∧ Mirror e' d) ∨
       (∃ id d', oid = some id ∧ id ≤ e.lookup.maxSize ∧ d.assignEntry id k = .ok d' ∧
          Mirror e' d' ∧ d'.lastReused = d.lastReused)) := by
  cases h : e.lookup.moveToEnd k with
  | some l' =>
    obtain ⟨i, _, hi⟩ := Lookup.moveToEnd_some_mem h
    refine ⟨{ e with lookup := l' }, none, ?_, rfl, (Lookup.moveToEnd_perm h).2.1, ⟨i, hi⟩,
      Or.inl ⟨rfl, m.entry_hit h⟩⟩
    simp only [LookupEnc.entryIndex, h]
  | none =>
    obtain ⟨l', idx, d', hins, hass, hm, hle, hmax, hmem, hlr⟩ := m.entry_miss h
    refine ⟨{ e with lookup := l', lastAssigned := idx }, _, ?_, rfl, hmax, ⟨idx, hmem⟩,
      Or.inr ⟨_, d', rfl, hle, hass, hm, hlr⟩⟩
    simp only [LookupEnc.entryIndex, h, hins]

/-- `termIndex` on a resident key returns its index, records it in `lastReused`, keeps WF/Mirror and
    only permutes `data`. -/
theorem LookupEnc.termIndex_resident {e : LookupEnc} (wf : e.lookup.WFm) {k i}
    (h : (k, i) ∈ e.lookup.data) :
    ∃ l', e.termIndex k = .ok ({ e with lookup := l', lastReused := i }, i) ∧
      l'.WFm ∧ l'.data.Perm e.lookup.data ∧ l'.maxSize = e.lookup.maxSize ∧
      l'.evicting = e.lookup.evicting ∧ (k, i) ∈ l'.data ∧ 1 ≤ i ∧ i ≤ e.lookup.maxSize ∧
      l'.pinned = e.lookup.pinned.map (k :: ·) := by
  obtain ⟨l', hmv, wf', hp, hmax, hev, hmem, hf, hpin⟩ := wf.moveToEnd_resident h
  have hr := wf.idx_le_max h
  refine ⟨l', ?_, wf', hp, hmax, hev, hmem, hr.1, hr.2, hpin⟩
  simp only [LookupEnc.termIndex, hmv, hf]

/-- Mirror version of `termIndex_resident`: additionally the reader resolves the returned index. -/
theorem Mirror.termIndex_resident {e : LookupEnc} {d : LookupDec} (m : Mirror e d) {k i}
    (h : (k, i) ∈ e.lookup.data) :
    ∃ e', e.termIndex k = .ok (e', i) ∧ e'.lastReused = i ∧
      e'.lookup.maxSize = e.lookup.maxSize ∧ e'.lookup.data.Perm e.lookup.data ∧
      (∀ b, Mirror e' { d with lastReused := b }) ∧ 1 ≤ i ∧ i ≤ e.lookup.maxSize ∧
      d.at i = ({ d with lastReused := i }, .ok k) := by
  obtain ⟨l', ht, _, hp, hmax, hev, _, h1, h2, hpin⟩ := LookupEnc.termIndex_resident m.wf h
  have hnp : l'.pinned = none := by rw [hpin, m.np]; rfl
  refine ⟨_, ht, rfl, hmax, hp, ?_, h1, h2, (m.at_resident h).2.2⟩
  intro b
  exact (m.of_perm hp hmax hev hnp i).set_lastReused i b

/-! ## The joint run -/

/-- Invariant of the joint run (enabled table). -/
structure JointInv (e : LookupEnc) (d : LookupDec) : Prop where
  mirror : Mirror e d
  lr : e.lastReused = d.lastReused
  lrLe : e.lastReused ≤ e.lookup.maxSize

theorem JointInv.init {n : Nat} (h : 0 < n) :
    JointInv (LookupEnc.new n) { size := n, data := List.replicate n none } :=
  ⟨Mirror.init h, rfl, Nat.zero_le _⟩

/-- Term step of the joint run on a resident key: the rule's writer function succeeds, the reader
    resolves the emitted index (zero forms included) to the key, and the invariant is kept. -/
theorem JointInv.term_step (rule : Rule) {e : LookupEnc} {d : LookupDec} (inv : JointInv e d)
    {k i} (h : (k, i) ∈ e.lookup.data) :
    ∃ e' idx d', rule.encTerm e k = .ok (e', idx) ∧ rule.decTerm d idx = (d', .ok k) ∧
      JointInv e' d' ∧ e'.lookup.maxSize = e.lookup.maxSize ∧ idx ≤ e.lookup.maxSize := by
  have m := inv.mirror
  have hpos : (e.lookup.maxSize == 0) = false := by have := m.wf.pos; simp; omega
  obtain ⟨e', ht, hlr', hmax, _, hm', h1, h2, hat⟩ := m.termIndex_resident h
  have hlr := inv.lr
  have hinv' : JointInv e' { d with lastReused := i } :=
    ⟨hm' i, hlr', by rw [hlr', hmax]; exact h2⟩
  have hi0 : (i != 0) = true := by simp; omega
  have hi0' : (i == 0) = false := by simp; omega
  have hine : i ≠ 0 := by omega
  cases rule with
  | name =>
    simp only [Rule.encTerm, Rule.decTerm, LookupEnc.nameTermIndex, ht]
    by_cases hc : i = e.lastReused + 1
    · refine ⟨e', 0, { d with lastReused := i }, by simp [hc], ?_, hinv', hmax, Nat.zero_le _⟩
      have : d.lastReused + 1 = i := by omega
      simp [LookupDec.nameTerm, this, hine, hat]
    · refine ⟨e', i, { d with lastReused := i }, by simp [hc], ?_, hinv', hmax, h2⟩
      simp [LookupDec.nameTerm, hi0, hi0', hat]
  | «prefix» =>
    simp only [Rule.encTerm, Rule.decTerm, LookupEnc.prefixTermIndex, hpos]
    by_cases hz : e.lastReused = 0
    · by_cases hv : k = ""
      · refine ⟨e, 0, d, by simp [hz, hv], ?_, inv, rfl, Nat.zero_le _⟩
        have : d.lastReused = 0 := by omega
        simp [LookupDec.prefixTerm, this, hv]
      · refine ⟨e', i, { d with lastReused := i }, by simp [hz, hv, ht], ?_, hinv', hmax, h2⟩
        simp [LookupDec.prefixTerm, hi0, hi0', hat]
    · by_cases hc : i = e.lastReused
      · refine ⟨e', 0, { d with lastReused := i }, by simp [hz, ht, hc], ?_, hinv', hmax,
          Nat.zero_le _⟩
        have : d.lastReused = i := by omega
        simp [LookupDec.prefixTerm, this, hi0', hat]
      · refine ⟨e', i, { d with lastReused := i }, by simp [hz, ht, hc], ?_, hinv', hmax, h2⟩
        simp [LookupDec.prefixTerm, hi0, hi0', hat]
  | datatype =>
    simp only [Rule.encTerm, Rule.decTerm, LookupEnc.datatypeTermIndex, hpos]
    refine ⟨e', i, { d with lastReused := i }, by simp [ht], ?_, hinv', hmax, h2⟩
    simp [LookupDec.datatypeTerm, hi0', hat]

/-- One joint step never fails on an invariant state, resolves the key and keeps the invariant. -/
theorem jointStep_spec (rule : Rule) {e : LookupEnc} {d : LookupDec} (inv : JointInv e d)
    (k : String) :
    ∃ e' d' o, jointStep rule (e, d) k = .ok ((e', d'), o) ∧ JointInv e' d' ∧
      e'.lookup.maxSize = e.lookup.maxSize ∧ o.resolved = k ∧ o.idx ≤ e.lookup.maxSize ∧
      (∀ id, o.entry = some id → id ≤ e.lookup.maxSize) := by
  have m := inv.mirror
  have hpos : (e.lookup.maxSize == 0) = false := by have := m.wf.pos; simp; omega
  obtain ⟨e1, oid, hent, hlr1, hmax1, ⟨i, hres⟩, hcase⟩ := LookupEnc.entryIndex_spec m k
  rcases hcase with ⟨hoid, m1⟩ | ⟨id, d1, hoid, hidle, hass, m1, hlrd⟩
  · subst hoid
    have inv1 : JointInv e1 d := ⟨m1, by rw [hlr1]; exact inv.lr, by rw [hlr1, hmax1]; exact inv.lrLe⟩
    obtain ⟨e2, idx, d2, henc, hdec, inv2, hmax2, hidx⟩ := inv1.term_step rule hres
    refine ⟨e2, d2, ⟨none, idx, k⟩, ?_, inv2, by rw [hmax2, hmax1], rfl, by rw [← hmax1]; exact hidx,
      by intro id hid; simp at hid⟩
    simp only [jointStep, hpos, hent, henc, hdec, Bool.false_eq_true, if_false]
  · subst hoid
    have inv1 : JointInv e1 d1 :=
      ⟨m1, by rw [hlr1, hlrd]; exact inv.lr, by rw [hlr1, hmax1]; exact inv.lrLe⟩
    obtain ⟨e2, idx, d2, henc, hdec, inv2, hmax2, hidx⟩ := inv1.term_step rule hres
    refine ⟨e2, d2, ⟨some id, idx, k⟩, ?_, inv2, by rw [hmax2, hmax1], rfl,
      by rw [← hmax1]; exact hidx, ?_⟩
    · simp only [jointStep, hpos, hent, hass, henc, hdec, Bool.false_eq_true, if_false]
    · intro id' hid'
      simp only [Option.some.injEq] at hid'
      subst hid'; exact hidle

/-- The whole joint run from an invariant state: no failure, outputs appended to the accumulator
    resolve exactly the key history, all emitted ids are bounded by the size, invariant kept. -/
theorem jointRun_spec (rule : Rule) (ks : List String) :
    ∀ (st : LookupEnc × LookupDec) (acc : List JointOut), JointInv st.1 st.2 →
      ∃ outs, (jointRun rule st ks acc).2.1 = acc ++ outs ∧
        (jointRun rule st ks acc).2.2 = none ∧
        outs.map (·.resolved) = ks ∧
        (∀ o ∈ outs, o.idx ≤ st.1.lookup.maxSize ∧
          ∀ id, o.entry = some id → id ≤ st.1.lookup.maxSize) ∧
        JointInv (jointRun rule st ks acc).1.1 (jointRun rule st ks acc).1.2 ∧
        (jointRun rule st ks acc).1.1.lookup.maxSize = st.1.lookup.maxSize := by
  induction ks with
  | nil =>
    intro st acc inv
    exact ⟨[], by simp [jointRun], by simp [jointRun], rfl, by simp, by simpa [jointRun] using inv,
      by simp [jointRun]⟩
  | cons k ks ih =>
    intro st acc inv
    obtain ⟨e, d⟩ := st
    obtain ⟨e', d', o, hstep, inv', hmax, hres, hidx, hent⟩ := jointStep_spec rule inv k
    obtain ⟨outs, h1, h2, h3, h4, h5, h6⟩ := ih (e', d') (acc ++ [o]) inv'
    have hrun : jointRun rule (e, d) (k :: ks) acc = jointRun rule (e', d') ks (acc ++ [o]) := by
      simp only [jointRun, hstep]
    rw [hrun]
    refine ⟨o :: outs, by rw [h1]; simp, h2, by simp [hres, h3], ?_, h5, by rw [h6]; exact hmax⟩
    intro o' ho'
    rcases List.mem_cons.mp ho' with ho' | ho'
    · subst ho'; exact ⟨hidx, hent⟩
    · have := h4 o' ho'
      simp only [hmax] at this
      exact this

/-! ## Disabled table (size 0), prefix rule -/

theorem jointStep_prefix_disabled {e : LookupEnc} {d : LookupDec} (h0 : e.lookup.maxSize = 0)
    (hd : d.lastReused = 0) (k : String) :
    jointStep .prefix (e, d) k = .ok ((e, d), ⟨none, 0, ""⟩) := by
  have hpos : (e.lookup.maxSize == 0) = true := by simp [h0]
  simp [jointStep, hpos, Rule.encTerm, Rule.decTerm, LookupEnc.prefixTermIndex,
    LookupDec.prefixTerm, hd]

theorem jointRun_prefix_disabled (ks : List String) :
    ∀ (st : LookupEnc × LookupDec) (acc : List JointOut), st.1.lookup.maxSize = 0 →
      st.2.lastReused = 0 →
      jointRun .prefix st ks acc = (st, acc ++ List.replicate ks.length ⟨none, 0, ""⟩, none) := by
  induction ks with
  | nil => intro st acc _ _; simp [jointRun]
  | cons k ks ih =>
    intro st acc h0 hd
    obtain ⟨e, d⟩ := st
    simp only [jointRun, jointStep_prefix_disabled h0 hd k]
    rw [ih (e, d) _ h0 hd]
    simp [List.replicate_succ]

end Jelly

import JellyModel.Decode
import JellyModel.Spec
import JellyModel.Parse
/-!
# The model of pyjelly's decoder simulates the strict reference decoder (C04 / C16 helpers)

Exported for reuse:
* `mirror po ad ss` : the `DecState` holding the tables / repeated terms / open graph of `ss`;
* `R ss d` (+ `R_iff`, `R.tables`, `R_mirror`) : the simulation relation;
* `row_sim`  : `R ss d → Spec.step ss r = .ok (ss', ev) → ∃ d', d.decodeRow true r = .ok (d', ev) ∧ R ss' d'`;
* `row_err`  : `R ss d → Spec.step ss r = .error v → v.rejected → ∃ e, d.decodeRow true r = .error e`;
* `run_sim`, `run_err`, `decodeRows_append` : the lifts to row sequences;
* `runRows_header`, `optionsFromFrame_ok`, `adapterFor_ok`, `DecState.new_ok`, `decodeRows_header` :
  the set-up from a valid first options row (`Spec.initState o` is the reference state after it);
* term level: `term_sim`/`qslot_sim`, `term_err`/`qslot_err`, `slot_sim`, `spo_sim_dec`, … stated on
  `mirror` so that the decoder's result is given by an equation rather than an existential.
-/
namespace Jelly

/-! ## Lookup tables -/

/-- The `deque` has exactly `lookup_size` slots. -/
def LookupDec.WF (t : LookupDec) : Prop := t.data.length = t.size

theorem mkTable_WF (n : Nat) : (Spec.mkTable n).WF := by
  simp [LookupDec.WF, Spec.mkTable]

theorem LookupDec.new_eq_mkTable {n : Nat} (h : n ≤ MAX_LOOKUP_SIZE) :
    LookupDec.new n = .ok (Spec.mkTable n) := by
  simp only [LookupDec.new, Spec.mkTable]
  rw [if_neg (by omega)]

theorem assign_idx_ne_zero (id la : Nat) : (if (id == 0) = true then la + 1 else id) ≠ 0 := by
  split
  · omega
  · rename_i h; simpa using h

theorem assign_sim {t t' : LookupDec} {id : Nat} {v : String} (hw : t.WF)
    (h : Spec.assign t id v = .ok t') : t.assignEntry id v = .ok t' ∧ t'.WF := by
  unfold Spec.assign at h
  unfold LookupDec.assignEntry
  have hi := assign_idx_ne_zero id t.lastAssigned
  simp only [LookupDec.WF] at *
  generalize (if (id == 0) = true then t.lastAssigned + 1 else id) = i at h hi ⊢
  by_cases hc : 1 ≤ i ∧ i ≤ t.size
  · rw [if_pos (by simpa using hc)] at h
    injection h with h
    subst h
    rw [if_pos (by omega)]
    simp [hw]
  · rw [if_neg (by simpa using hc)] at h
    cases h

theorem assign_err {t : LookupDec} {id : Nat} {v : String} {e : Spec.Violation} (hw : t.WF)
    (h : Spec.assign t id v = .error e) : ∃ e', t.assignEntry id v = .error e' := by
  unfold Spec.assign at h
  unfold LookupDec.assignEntry
  have hi := assign_idx_ne_zero id t.lastAssigned
  simp only [LookupDec.WF] at *
  generalize (if (id == 0) = true then t.lastAssigned + 1 else id) = i at h hi ⊢
  by_cases hc : 1 ≤ i ∧ i ≤ t.size
  · rw [if_pos (by simpa using hc)] at h
    cases h
  · rw [if_neg (by omega)]
    exact ⟨_, rfl⟩

theorem slot_eq_dec {t : LookupDec} {i : Nat} (hw : t.WF) (hi : i ≠ 0) : Spec.slot t i = t.data[i - 1]? := by
  simp only [Spec.slot, LookupDec.WF] at *
  split
  · rfl
  · rename_i hc
    simp only [Bool.and_eq_true, decide_eq_true_eq, not_and] at hc
    symm
    rw [List.getElem?_eq_none_iff]
    omega

theorem at_ok {t : LookupDec} {i : Nat} {s : String} (hw : t.WF) (hi : i ≠ 0)
    (h : Spec.slot t i = some (some s)) : t.at i = ({ t with lastReused := i }, .ok s) := by
  rw [slot_eq_dec hw hi] at h
  simp only [LookupDec.at]
  rw [if_neg (by simpa using hi)]
  rw [h]

theorem at_err {t : LookupDec} {i : Nat} (hw : t.WF) (hi : i ≠ 0)
    (h : Spec.slot t i = none ∨ Spec.slot t i = some none) : ∃ t' e, t.at i = (t', .error e) := by
  rw [slot_eq_dec hw hi] at h
  simp only [LookupDec.at]
  rw [if_neg (by simpa using hi)]
  rcases h with h | h <;> rw [h] <;> exact ⟨_, _, rfl⟩

theorem WF_setReused {t : LookupDec} (hw : t.WF) (i : Nat) : ({ t with lastReused := i } : LookupDec).WF := hw

theorem name_idx (id lr : Nat) :
    (if (id != 0) = true then id else lr + 1) = (if (id == 0) = true then lr + 1 else id) := by
  by_cases h : id = 0 <;> simp [h]

theorem prefix_idx (id lr : Nat) :
    (if (id != 0) = true then id else lr) = (if (id == 0) = true then lr else id) := by
  by_cases h : id = 0 <;> simp [h]

theorem name_sim {t t' : LookupDec} {id : Nat} {s : String} (hw : t.WF)
    (h : Spec.resolveName t id = .ok (t', s)) : t.nameTerm id = (t', .ok s) ∧ t'.WF := by
  unfold Spec.resolveName at h
  unfold LookupDec.nameTerm
  rw [name_idx]
  have hi := assign_idx_ne_zero id t.lastReused
  generalize (if (id == 0) = true then t.lastReused + 1 else id) = i at h hi ⊢
  dsimp only at h ⊢
  rw [if_neg (by simpa using hi)]
  cases hs : Spec.slot t i with
  | none => rw [hs] at h; cases h
  | some o =>
    cases o with
    | none => rw [hs] at h; cases h
    | some x =>
      rw [hs] at h
      injection h with h
      injection h with h1 h2
      subst h1 h2
      exact ⟨at_ok hw hi hs, hw⟩

theorem name_err {t : LookupDec} {id : Nat} {v : Spec.Violation} (hw : t.WF)
    (h : Spec.resolveName t id = .error v) : ∃ t' e, t.nameTerm id = (t', .error e) := by
  unfold Spec.resolveName at h
  unfold LookupDec.nameTerm
  rw [name_idx]
  have hi := assign_idx_ne_zero id t.lastReused
  generalize (if (id == 0) = true then t.lastReused + 1 else id) = i at h hi ⊢
  dsimp only at h ⊢
  rw [if_neg (by simpa using hi)]
  cases hs : Spec.slot t i with
  | none => exact at_err hw hi (.inl hs)
  | some o =>
    cases o with
    | none => exact at_err hw hi (.inr hs)
    | some x => rw [hs] at h; cases h

theorem prefix_sim {t t' : LookupDec} {id : Nat} {s : String} (hw : t.WF)
    (h : Spec.resolvePrefix t id = .ok (t', s)) : t.prefixTerm id = (t', .ok s) ∧ t'.WF := by
  unfold Spec.resolvePrefix at h
  unfold LookupDec.prefixTerm
  rw [prefix_idx]
  generalize (if (id == 0) = true then t.lastReused else id) = i at h ⊢
  dsimp only at h ⊢
  by_cases hi : i = 0
  · subst hi
    simp only [beq_self_eq_true, if_true] at h ⊢
    injection h with h
    injection h with h1 h2
    subst h1 h2
    exact ⟨rfl, hw⟩
  · rw [if_neg (by simpa using hi)] at h ⊢
    cases hs : Spec.slot t i with
    | none => rw [hs] at h; cases h
    | some o =>
      cases o with
      | none => rw [hs] at h; cases h
      | some x =>
        rw [hs] at h
        injection h with h
        injection h with h1 h2
        subst h1 h2
        exact ⟨at_ok hw hi hs, hw⟩

theorem prefix_err {t : LookupDec} {id : Nat} {v : Spec.Violation} (hw : t.WF)
    (h : Spec.resolvePrefix t id = .error v) : ∃ t' e, t.prefixTerm id = (t', .error e) := by
  unfold Spec.resolvePrefix at h
  unfold LookupDec.prefixTerm
  rw [prefix_idx]
  generalize (if (id == 0) = true then t.lastReused else id) = i at h ⊢
  dsimp only at h ⊢
  by_cases hi : i = 0
  · subst hi
    simp only [beq_self_eq_true, if_true] at h
    cases h
  · rw [if_neg (by simpa using hi)] at h ⊢
    cases hs : Spec.slot t i with
    | none => exact at_err hw hi (.inl hs)
    | some o =>
      cases o with
      | none => exact at_err hw hi (.inr hs)
      | some x => rw [hs] at h; cases h

theorem datatype_sim {t t' : LookupDec} {id : Nat} {s : String} (hw : t.WF)
    (h : Spec.resolveDatatype t id = .ok (t', s)) : t.datatypeTerm id = (t', .ok s) ∧ t'.WF := by
  unfold Spec.resolveDatatype at h
  unfold LookupDec.datatypeTerm
  by_cases hi : id = 0
  · subst hi
    simp only [beq_self_eq_true, if_true] at h
    cases h
  · rw [if_neg (by simpa using hi)] at h ⊢
    cases hs : Spec.slot t id with
    | none => rw [hs] at h; cases h
    | some o =>
      cases o with
      | none => rw [hs] at h; cases h
      | some x =>
        rw [hs] at h
        injection h with h
        injection h with h1 h2
        subst h1 h2
        exact ⟨at_ok hw hi hs, hw⟩

theorem datatype_err {t : LookupDec} {id : Nat} {v : Spec.Violation} (hw : t.WF)
    (h : Spec.resolveDatatype t id = .error v) : ∃ t' e, t.datatypeTerm id = (t', .error e) := by
  unfold Spec.resolveDatatype at h
  unfold LookupDec.datatypeTerm
  by_cases hi : id = 0
  · subst hi
    simp only [beq_self_eq_true, if_true]
    exact ⟨_, _, rfl⟩
  · rw [if_neg (by simpa using hi)] at h ⊢
    cases hs : Spec.slot t id with
    | none => exact at_err hw hi (.inl hs)
    | some o =>
      cases o with
      | none => exact at_err hw hi (.inr hs)
      | some x => rw [hs] at h; cases h

/-! ## States -/

/-- Every table of the reference state has exactly its declared number of slots. -/
def Spec.State.WF (ss : Spec.State) : Prop := ss.names.WF ∧ ss.prefixes.WF ∧ ss.datatypes.WF

/-- The decoder state that mirrors a reference state (same tables, repeated terms, open graph). -/
def mirror (po : ParserOptions) (ad : AdapterKind) (ss : Spec.State) : DecState :=
  { opts := po, adapter := ad, names := ss.names, prefixes := ss.prefixes, datatypes := ss.datatypes,
    rep := ss.rep, graphId := ss.graph }

/-- What term resolution leaves alone in the reference state. -/
def Spec.State.Keeps (ss ss' : Spec.State) : Prop :=
  ss'.WF ∧ ss'.opts = ss.opts ∧ ss'.graph = ss.graph

theorem Spec.State.Keeps.trans {a b c : Spec.State} (h1 : a.Keeps b) (h2 : b.Keeps c) : a.Keeps c :=
  ⟨h2.1, h2.2.1.trans h1.2.1, h2.2.2.trans h1.2.2⟩

theorem iri_sim {po ad} {ss ss' : Spec.State} {p n : Nat} {s : String} (hw : ss.WF)
    (h : Spec.resolveIri ss p n = .ok (ss', s)) :
    (mirror po ad ss).decodeIri p n = .ok (mirror po ad ss', s) ∧ ss.Keeps ss' ∧ ss'.rep = ss.rep := by
  simp only [Spec.resolveIri, bind, Except.bind, pure, Except.pure] at h
  cases hp : Spec.resolvePrefix ss.prefixes p with
  | error e => rw [hp] at h; cases h
  | ok rp =>
    obtain ⟨pt, pfx⟩ := rp
    rw [hp] at h
    dsimp only at h
    cases hn : Spec.resolveName ss.names n with
    | error e => rw [hn] at h; cases h
    | ok rn =>
      obtain ⟨nt, nm⟩ := rn
      rw [hn] at h
      dsimp only at h
      injection h with h
      injection h with h1 h2
      subst h1 h2
      obtain ⟨hp1, hp2⟩ := prefix_sim hw.2.1 hp
      obtain ⟨hn1, hn2⟩ := name_sim hw.1 hn
      refine ⟨?_, ⟨⟨hn2, hp2, hw.2.2⟩, rfl, rfl⟩, rfl⟩
      simp only [DecState.decodeIri, mirror, hn1, hp1]

theorem iri_err {po ad} {ss : Spec.State} {p n : Nat} {v : Spec.Violation} (hw : ss.WF)
    (h : Spec.resolveIri ss p n = .error v) :
    ∃ e, (mirror po ad ss).decodeIri p n = .error e := by
  simp only [Spec.resolveIri, bind, Except.bind, pure, Except.pure] at h
  cases hn : Spec.resolveName ss.names n with
  | error e =>
    obtain ⟨t', e', he⟩ := name_err hw.1 hn
    simp only [DecState.decodeIri, mirror, he]
    exact ⟨_, rfl⟩
  | ok rn =>
    obtain ⟨nt, nm⟩ := rn
    obtain ⟨hn1, hn2⟩ := name_sim hw.1 hn
    cases hp : Spec.resolvePrefix ss.prefixes p with
    | error e =>
      obtain ⟨t', e', he⟩ := prefix_err hw.2.1 hp
      simp only [DecState.decodeIri, mirror, he, hn1]
      exact ⟨_, rfl⟩
    | ok rp =>
      rw [hp] at h
      dsimp only at h
      rw [hn] at h
      cases h

theorem Spec.State.Keeps.refl {a : Spec.State} (hw : a.WF) : a.Keeps a := ⟨hw, rfl, rfl⟩

/-- Conclusion of the success simulation for a term-level operation. -/
def TermSim (po : ParserOptions) (ad : AdapterKind) (ss ss' : Spec.State) (x : Term)
    (r : Except PyErr (DecState × Term)) : Prop :=
  r = .ok (mirror po ad ss', x) ∧ ss.Keeps ss' ∧ ss'.rep = ss.rep

mutual
theorem term_sim {po ad} : ∀ (t : WTerm) (igp : Bool) (ss ss' : Spec.State) (x : Term), ss.WF →
    Spec.resolveTerm igp ss t = .ok (ss', x) →
    TermSim po ad ss ss' x ((mirror po ad ss).decodeTerm true t)
  | .iri p n, igp, ss, ss', x, hw, h => by
    simp only [Spec.resolveTerm, bind, Except.bind, pure, Except.pure] at h
    cases hi : Spec.resolveIri ss p n with
    | error e => rw [hi] at h; cases h
    | ok r =>
      obtain ⟨s1, str⟩ := r
      rw [hi] at h
      dsimp only at h
      injection h with h
      injection h with h1 h2
      subst h1 h2
      obtain ⟨h1, h2, h3⟩ := iri_sim (po := po) (ad := ad) hw hi
      refine ⟨?_, h2, h3⟩
      simp only [DecState.decodeTerm, h1]
  | .bnode b, igp, ss, ss', x, hw, h => by
    simp only [Spec.resolveTerm] at h
    injection h with h
    injection h with h1 h2
    subst h1 h2
    exact ⟨by simp only [DecState.decodeTerm], .refl hw, rfl⟩
  | .literal lex .plain, igp, ss, ss', x, hw, h => by
    simp only [Spec.resolveTerm] at h
    injection h with h
    injection h with h1 h2
    subst h1 h2
    exact ⟨by simp only [DecState.decodeTerm, DecState.decodeLiteral], .refl hw, rfl⟩
  | .literal lex (.lang l), igp, ss, ss', x, hw, h => by
    simp only [Spec.resolveTerm] at h
    split at h
    · cases h
    · rename_i hl
      injection h with h
      injection h with h1 h2
      subst h1 h2
      refine ⟨?_, .refl hw, rfl⟩
      simp only [DecState.decodeTerm, DecState.decodeLiteral]
      rw [if_pos (by simpa using hl)]
  | .literal lex (.dt id), igp, ss, ss', x, hw, h => by
    simp only [Spec.resolveTerm, bind, Except.bind, pure, Except.pure] at h
    cases hd : Spec.resolveDatatype ss.datatypes id with
    | error e => rw [hd] at h; cases h
    | ok r =>
      obtain ⟨dt', d⟩ := r
      rw [hd] at h
      dsimp only at h
      injection h with h
      injection h with h1 h2
      subst h1 h2
      obtain ⟨h1, h2⟩ := datatype_sim hw.2.2 hd
      refine ⟨?_, ⟨⟨hw.1, hw.2.1, h2⟩, rfl, rfl⟩, rfl⟩
      simp only [DecState.decodeTerm, DecState.decodeLiteral, mirror, h1]
  | .defaultGraph, igp, ss, ss', x, hw, h => by
    simp only [Spec.resolveTerm] at h
    split at h
    · injection h with h
      injection h with h1 h2
      subst h1 h2
      exact ⟨by simp only [DecState.decodeTerm], .refl hw, rfl⟩
    · cases h
  | .triple s p o, igp, ss, ss', x, hw, h => by
    simp only [Spec.resolveTerm] at h
    split at h
    · cases h
    · cases h1 : Spec.resolveQuotedSlot ss s with
      | error e => rw [h1] at h; cases h
      | ok r1 =>
        obtain ⟨s1, ts⟩ := r1
        rw [h1] at h
        dsimp only at h
        obtain ⟨e1, k1, r1⟩ := qslot_sim (po := po) (ad := ad) s ss s1 ts hw h1
        cases h2 : Spec.resolveQuotedSlot s1 p with
        | error e => rw [h2] at h; cases h
        | ok r2 =>
          obtain ⟨s2, tp⟩ := r2
          rw [h2] at h
          dsimp only at h
          obtain ⟨e2, k2, r2⟩ := qslot_sim (po := po) (ad := ad) p s1 s2 tp k1.1 h2
          cases h3 : Spec.resolveQuotedSlot s2 o with
          | error e => rw [h3] at h; cases h
          | ok r3 =>
            obtain ⟨s3, to⟩ := r3
            rw [h3] at h
            dsimp only at h
            obtain ⟨e3, k3, r3⟩ := qslot_sim (po := po) (ad := ad) o s2 s3 to k2.1 h3
            injection h with h
            injection h with h1 h2
            subst h1 h2
            refine ⟨?_, (k1.trans k2).trans k3, by rw [r3, r2, r1]⟩
            simp only [DecState.decodeTerm, e1, e2, e3, if_true]
theorem qslot_sim {po ad} : ∀ (w : Option WTerm) (ss ss' : Spec.State) (x : Term), ss.WF →
    Spec.resolveQuotedSlot ss w = .ok (ss', x) →
    TermSim po ad ss ss' x ((mirror po ad ss).decodeQuotedSlot true w)
  | none, ss, ss', x, hw, h => by
    simp only [Spec.resolveQuotedSlot] at h
    cases h
  | some t, ss, ss', x, hw, h => by
    simp only [Spec.resolveQuotedSlot] at h
    simp only [DecState.decodeQuotedSlot]
    exact term_sim t false ss ss' x hw h
end

/-- The violation classes on which the decoder is guaranteed to raise as well (all classes except
    the five where pyjelly is more lenient than the rules). -/
def Spec.Violation.rejected : Spec.Violation → Bool
  | .emptyLangtag | .misplacedTerm | .namespaceInV1 | .optionsChanged | .graphEndWithoutStart => false
  | _ => true

mutual
theorem term_err {po ad} : ∀ (t : WTerm) (igp : Bool) (ss : Spec.State) (v : Spec.Violation), ss.WF →
    Spec.resolveTerm igp ss t = .error v → v.rejected = true →
    ∃ e, (mirror po ad ss).decodeTerm true t = .error e
  | .iri p n, igp, ss, v, hw, h, hv => by
    simp only [Spec.resolveTerm, bind, Except.bind, pure, Except.pure] at h
    cases hi : Spec.resolveIri ss p n with
    | error e =>
      obtain ⟨e', he⟩ := iri_err (po := po) (ad := ad) hw hi
      simp only [DecState.decodeTerm, he]
      exact ⟨_, rfl⟩
    | ok r => rw [hi] at h; cases h
  | .bnode b, igp, ss, v, hw, h, hv => by
    simp only [Spec.resolveTerm] at h
    cases h
  | .literal lex .plain, igp, ss, v, hw, h, hv => by
    simp only [Spec.resolveTerm] at h
    cases h
  | .literal lex (.lang l), igp, ss, v, hw, h, hv => by
    simp only [Spec.resolveTerm] at h
    split at h
    · injection h with h
      subst h
      cases hv
    · cases h
  | .literal lex (.dt id), igp, ss, v, hw, h, hv => by
    simp only [Spec.resolveTerm, bind, Except.bind, pure, Except.pure] at h
    cases hd : Spec.resolveDatatype ss.datatypes id with
    | error e =>
      obtain ⟨t', e', he⟩ := datatype_err hw.2.2 hd
      simp only [DecState.decodeTerm, DecState.decodeLiteral, mirror, he]
      exact ⟨_, rfl⟩
    | ok r => rw [hd] at h; cases h
  | .defaultGraph, igp, ss, v, hw, h, hv => by
    simp only [Spec.resolveTerm] at h
    split at h
    · cases h
    · injection h with h
      subst h
      cases hv
  | .triple s p o, igp, ss, v, hw, h, hv => by
    simp only [Spec.resolveTerm] at h
    split at h
    · injection h with h
      subst h
      cases hv
    · simp only [DecState.decodeTerm]
      cases h1 : Spec.resolveQuotedSlot ss s with
      | error e =>
        rw [h1] at h
        injection h with h
        subst h
        obtain ⟨e', he⟩ := qslot_err (po := po) (ad := ad) s ss e hw h1 hv
        rw [he]
        exact ⟨_, rfl⟩
      | ok r1 =>
        obtain ⟨s1, ts⟩ := r1
        rw [h1] at h
        dsimp only at h
        obtain ⟨e1, k1, r1⟩ := qslot_sim (po := po) (ad := ad) s ss s1 ts hw h1
        rw [e1]
        dsimp only
        cases h2 : Spec.resolveQuotedSlot s1 p with
        | error e =>
          rw [h2] at h
          injection h with h
          subst h
          obtain ⟨e', he⟩ := qslot_err (po := po) (ad := ad) p s1 e k1.1 h2 hv
          rw [he]
          exact ⟨_, rfl⟩
        | ok r2 =>
          obtain ⟨s2, tp⟩ := r2
          rw [h2] at h
          dsimp only at h
          obtain ⟨e2, k2, r2⟩ := qslot_sim (po := po) (ad := ad) p s1 s2 tp k1.1 h2
          rw [e2]
          dsimp only
          cases h3 : Spec.resolveQuotedSlot s2 o with
          | error e =>
            rw [h3] at h
            injection h with h
            subst h
            obtain ⟨e', he⟩ := qslot_err (po := po) (ad := ad) o s2 e k2.1 h3 hv
            rw [he]
            exact ⟨_, rfl⟩
          | ok r3 =>
            rw [h3] at h
            cases h
theorem qslot_err {po ad} : ∀ (w : Option WTerm) (ss : Spec.State) (v : Spec.Violation), ss.WF →
    Spec.resolveQuotedSlot ss w = .error v → v.rejected = true →
    ∃ e, (mirror po ad ss).decodeQuotedSlot true w = .error e
  | none, ss, v, hw, h, hv => by
    simp only [DecState.decodeQuotedSlot]
    exact ⟨_, rfl⟩
  | some t, ss, v, hw, h, hv => by
    simp only [Spec.resolveQuotedSlot] at h
    simp only [DecState.decodeQuotedSlot]
    exact term_err t false ss v hw h hv
end

/-! ## Statement slots -/

theorem slot_sim {po ad} {igp : Bool} {ss ss' : Spec.State} {prev : Option Term} {w : Option WTerm}
    {x : Term} (hw : ss.WF) (h : Spec.resolveSlot igp ss prev w = .ok (ss', x)) :
    TermSim po ad ss ss' x ((mirror po ad ss).decodeSlot true prev w) := by
  cases w with
  | some t =>
    simp only [Spec.resolveSlot] at h
    simp only [DecState.decodeSlot]
    exact term_sim t igp ss ss' x hw h
  | none =>
    cases prev with
    | none => simp only [Spec.resolveSlot] at h; cases h
    | some t =>
      simp only [Spec.resolveSlot] at h
      injection h with h
      injection h with h1 h2
      subst h1 h2
      exact ⟨by simp only [DecState.decodeSlot], .refl hw, rfl⟩

theorem slot_err {po ad} {igp : Bool} {ss : Spec.State} {prev : Option Term} {w : Option WTerm}
    {v : Spec.Violation} (hw : ss.WF) (h : Spec.resolveSlot igp ss prev w = .error v)
    (hv : v.rejected = true) :
    ∃ e, (mirror po ad ss).decodeSlot true prev w = .error e := by
  cases w with
  | some t =>
    simp only [Spec.resolveSlot] at h
    simp only [DecState.decodeSlot]
    exact term_err t igp ss v hw h hv
  | none =>
    cases prev with
    | none => simp only [DecState.decodeSlot]; exact ⟨_, rfl⟩
    | some t => simp only [Spec.resolveSlot] at h; cases h

/-! ## `decode_statement` over the three positions -/

theorem decodeSpo_ok {q : Bool} {d d1 d2 d3 : DecState} {s p o : Option WTerm} {ts tp to : Term}
    (h1 : d.decodeSlot q d.rep.s s = .ok (d1, ts))
    (h2 : DecState.decodeSlot q { d1 with rep := { d1.rep with s := some ts } } d1.rep.p p = .ok (d2, tp))
    (h3 : DecState.decodeSlot q { d2 with rep := { d2.rep with p := some tp } } d2.rep.o o = .ok (d3, to)) :
    d.decodeSpo q s p o = .ok ({ d3 with rep := { d3.rep with o := some to } }, ts, tp, to) := by
  simp only [DecState.decodeSpo, h1, h2, h3]

theorem decodeSpo_err1 {q : Bool} {d : DecState} {s p o : Option WTerm} {e : PyErr}
    (h1 : d.decodeSlot q d.rep.s s = .error e) :
    d.decodeSpo q s p o = .error e := by
  simp only [DecState.decodeSpo, h1]

theorem decodeSpo_err2 {q : Bool} {d d1 : DecState} {s p o : Option WTerm} {ts : Term} {e : PyErr}
    (h1 : d.decodeSlot q d.rep.s s = .ok (d1, ts))
    (h2 : DecState.decodeSlot q { d1 with rep := { d1.rep with s := some ts } } d1.rep.p p = .error e) :
    d.decodeSpo q s p o = .error e := by
  simp only [DecState.decodeSpo, h1, h2]

theorem decodeSpo_err3 {q : Bool} {d d1 d2 : DecState} {s p o : Option WTerm} {ts tp : Term} {e : PyErr}
    (h1 : d.decodeSlot q d.rep.s s = .ok (d1, ts))
    (h2 : DecState.decodeSlot q { d1 with rep := { d1.rep with s := some ts } } d1.rep.p p = .ok (d2, tp))
    (h3 : DecState.decodeSlot q { d2 with rep := { d2.rep with p := some tp } } d2.rep.o o = .error e) :
    d.decodeSpo q s p o = .error e := by
  simp only [DecState.decodeSpo, h1, h2, h3]

theorem WF_setRep {ss : Spec.State} (hw : ss.WF) (r : Repeated) : ({ ss with rep := r } : Spec.State).WF := hw

theorem spo_sim_dec {po ad} {ss ss' : Spec.State} {s p o : Option WTerm} {a b c : Term} (hw : ss.WF)
    (h : Spec.resolveSpo ss s p o = .ok (ss', a, b, c)) :
    (mirror po ad ss).decodeSpo true s p o = .ok (mirror po ad ss', a, b, c) ∧ ss.Keeps ss' := by
  simp only [Spec.resolveSpo, bind, Except.bind, pure, Except.pure] at h
  cases h1 : Spec.resolveSlot false ss ss.rep.s s with
  | error e => rw [h1] at h; cases h
  | ok r1 =>
    obtain ⟨s1, ts⟩ := r1
    rw [h1] at h
    dsimp only at h
    obtain ⟨e1, k1, -⟩ := slot_sim (po := po) (ad := ad) hw h1
    cases h2 : Spec.resolveSlot false { s1 with rep := { s1.rep with s := some ts } } s1.rep.p p with
    | error e => rw [h2] at h; cases h
    | ok r2 =>
      obtain ⟨s2, tp⟩ := r2
      rw [h2] at h
      dsimp only at h
      obtain ⟨e2, k2, -⟩ := slot_sim (po := po) (ad := ad) (WF_setRep k1.1 _) h2
      cases h3 : Spec.resolveSlot false { s2 with rep := { s2.rep with p := some tp } } s2.rep.o o with
      | error e => rw [h3] at h; cases h
      | ok r3 =>
        obtain ⟨s3, to⟩ := r3
        rw [h3] at h
        dsimp only at h
        obtain ⟨e3, k3, -⟩ := slot_sim (po := po) (ad := ad) (WF_setRep k2.1 _) h3
        injection h with h
        injection h with g1 g2
        injection g2 with g2 g3
        injection g3 with g3 g4
        subst g1 g2 g3 g4
        refine ⟨decodeSpo_ok e1 e2 e3, ?_⟩
        exact ⟨k3.1, k3.2.1.trans (k2.2.1.trans k1.2.1), k3.2.2.trans (k2.2.2.trans k1.2.2)⟩

theorem spo_err {po ad} {ss : Spec.State} {s p o : Option WTerm} {v : Spec.Violation} (hw : ss.WF)
    (h : Spec.resolveSpo ss s p o = .error v) (hv : v.rejected = true) :
    ∃ e, (mirror po ad ss).decodeSpo true s p o = .error e := by
  simp only [Spec.resolveSpo, bind, Except.bind, pure, Except.pure] at h
  cases h1 : Spec.resolveSlot false ss ss.rep.s s with
  | error e =>
    rw [h1] at h
    injection h with h
    subst h
    obtain ⟨e', he⟩ := slot_err (po := po) (ad := ad) hw h1 hv
    exact ⟨e', decodeSpo_err1 he⟩
  | ok r1 =>
    obtain ⟨s1, ts⟩ := r1
    rw [h1] at h
    dsimp only at h
    obtain ⟨e1, k1, -⟩ := slot_sim (po := po) (ad := ad) hw h1
    cases h2 : Spec.resolveSlot false { s1 with rep := { s1.rep with s := some ts } } s1.rep.p p with
    | error e =>
      rw [h2] at h
      injection h with h
      subst h
      obtain ⟨e', he⟩ := slot_err (po := po) (ad := ad) (WF_setRep k1.1 _) h2 hv
      exact ⟨e', decodeSpo_err2 e1 he⟩
    | ok r2 =>
      obtain ⟨s2, tp⟩ := r2
      rw [h2] at h
      dsimp only at h
      obtain ⟨e2, k2, -⟩ := slot_sim (po := po) (ad := ad) (WF_setRep k1.1 _) h2
      cases h3 : Spec.resolveSlot false { s2 with rep := { s2.rep with p := some tp } } s2.rep.o o with
      | error e =>
        rw [h3] at h
        injection h with h
        subst h
        obtain ⟨e', he⟩ := slot_err (po := po) (ad := ad) (WF_setRep k2.1 _) h3 hv
        exact ⟨e', decodeSpo_err3 e1 e2 he⟩
      | ok r3 =>
        rw [h3] at h
        cases h

/-! ## What term decoding leaves alone in the decoder state -/

def DecState.Ctl (d d' : DecState) : Prop :=
  d'.graphId = d.graphId ∧ d'.adapter = d.adapter ∧ d'.opts = d.opts

theorem DecState.Ctl.refl (d : DecState) : d.Ctl d := ⟨rfl, rfl, rfl⟩

theorem DecState.Ctl.trans {a b c : DecState} (h1 : a.Ctl b) (h2 : b.Ctl c) : a.Ctl c :=
  ⟨h2.1.trans h1.1, h2.2.1.trans h1.2.1, h2.2.2.trans h1.2.2⟩

theorem decodeIri_ctl {d d' : DecState} {p n : Nat} {s : String}
    (h : d.decodeIri p n = .ok (d', s)) : d.Ctl d' := by
  unfold DecState.decodeIri at h
  split at h
  · cases h
  · split at h
    · cases h
    · injection h with h
      injection h with h1 h2
      subst h1
      exact ⟨rfl, rfl, rfl⟩

theorem decodeLiteral_ctl {d d' : DecState} {lex : String} {k : WLitKind} {x : Term}
    (h : d.decodeLiteral lex k = .ok (d', x)) : d.Ctl d' := by
  unfold DecState.decodeLiteral at h
  split at h
  · injection h with h
    injection h with h1 h2
    subst h1
    exact .refl _
  · split at h <;>
    · injection h with h
      injection h with h1 h2
      subst h1
      exact .refl _
  · split at h
    · cases h
    · injection h with h
      injection h with h1 h2
      subst h1
      exact ⟨rfl, rfl, rfl⟩

mutual
theorem decodeTerm_ctl : ∀ (t : WTerm) (q : Bool) (d d' : DecState) (x : Term),
    d.decodeTerm q t = .ok (d', x) → d.Ctl d'
  | .iri p n, q, d, d', x, h => by
    simp only [DecState.decodeTerm] at h
    cases hi : d.decodeIri p n with
    | error e => rw [hi] at h; cases h
    | ok r =>
      obtain ⟨d1, s⟩ := r
      rw [hi] at h
      injection h with h
      injection h with h1 h2
      subst h1
      exact decodeIri_ctl hi
  | .bnode b, q, d, d', x, h => by
    simp only [DecState.decodeTerm] at h
    injection h with h
    injection h with h1 h2
    subst h1
    exact .refl _
  | .literal lex k, q, d, d', x, h => by
    simp only [DecState.decodeTerm] at h
    exact decodeLiteral_ctl h
  | .defaultGraph, q, d, d', x, h => by
    simp only [DecState.decodeTerm] at h
    injection h with h
    injection h with h1 h2
    subst h1
    exact .refl _
  | .triple s p o, q, d, d', x, h => by
    simp only [DecState.decodeTerm] at h
    cases h1 : DecState.decodeQuotedSlot q d s with
    | error e => rw [h1] at h; cases h
    | ok r1 =>
      obtain ⟨d1, ts⟩ := r1
      rw [h1] at h
      dsimp only at h
      cases h2 : DecState.decodeQuotedSlot q d1 p with
      | error e => rw [h2] at h; cases h
      | ok r2 =>
        obtain ⟨d2, tp⟩ := r2
        rw [h2] at h
        dsimp only at h
        cases h3 : DecState.decodeQuotedSlot q d2 o with
        | error e => rw [h3] at h; cases h
        | ok r3 =>
          obtain ⟨d3, to⟩ := r3
          rw [h3] at h
          dsimp only at h
          split at h
          · injection h with h
            injection h with g1 g2
            subst g1
            exact ((decodeQuotedSlot_ctl s q d d1 ts h1).trans (decodeQuotedSlot_ctl p q d1 d2 tp h2)).trans
              (decodeQuotedSlot_ctl o q d2 d3 to h3)
          · cases h
theorem decodeQuotedSlot_ctl : ∀ (w : Option WTerm) (q : Bool) (d d' : DecState) (x : Term),
    DecState.decodeQuotedSlot q d w = .ok (d', x) → d.Ctl d'
  | none, q, d, d', x, h => by
    simp only [DecState.decodeQuotedSlot] at h
    cases h
  | some t, q, d, d', x, h => by
    simp only [DecState.decodeQuotedSlot] at h
    exact decodeTerm_ctl t q d d' x h
end

theorem decodeSlot_ctl {q : Bool} {d d' : DecState} {prev : Option Term} {w : Option WTerm} {x : Term}
    (h : d.decodeSlot q prev w = .ok (d', x)) : d.Ctl d' := by
  unfold DecState.decodeSlot at h
  split at h
  · exact decodeTerm_ctl _ _ _ _ _ h
  · split at h
    · injection h with h
      injection h with h1 h2
      subst h1
      exact .refl _
    · cases h

theorem decodeSpo_ctl {q : Bool} {d d' : DecState} {s p o : Option WTerm} {a b c : Term}
    (h : d.decodeSpo q s p o = .ok (d', a, b, c)) : d.Ctl d' := by
  unfold DecState.decodeSpo at h
  split at h
  · cases h
  · rename_i d1 ts h1
    dsimp only at h
    split at h
    · cases h
    · rename_i d2 tp h2
      split at h
      · cases h
      · rename_i d3 to h3
        injection h with h
        injection h with g1 g2
        subst g1
        have c1 := decodeSlot_ctl h1
        have c2 := decodeSlot_ctl h2
        have c3 := decodeSlot_ctl h3
        exact ⟨c3.1.trans (c2.1.trans c1.1), c3.2.1.trans (c2.2.1.trans c1.2.1),
          c3.2.2.trans (c2.2.2.trans c1.2.2)⟩

/-! ## Options -/

/-- The `ParserOptions` that `options_from_frame` derives from an options row. -/
def parserOptionsOf (o : Options) (delimited : Bool) : ParserOptions :=
  { physical := o.physicalType, logical := o.logicalType
    maxNames := o.maxNames, maxPrefixes := o.maxPrefixes, maxDatatypes := o.maxDatatypes
    streamName := o.streamName, generalized := o.generalized, rdfStar := o.rdfStar
    version := if o.version ≥ 2 then 2 else 1
    delimited, namespaceDeclarations := decide (o.version ≥ 2) }

/-- The adapter `parse_jelly_flat` picks for a physical type. -/
def adapterOf (o : Options) : AdapterKind :=
  if o.physicalType == 1 then .triples else if o.physicalType == 2 then .quads else .graphs

theorem checkOptions_ok {o : Options} (h : Spec.checkOptions o = .ok ()) :
    (o.physicalType = 1 ∨ o.physicalType = 2 ∨ o.physicalType = 3) ∧
    Spec.typePairAllowed o.physicalType o.logicalType = true ∧ 8 ≤ o.maxNames ∧
    1 ≤ o.version ∧ o.version ≤ 2 := by
  unfold Spec.checkOptions at h
  split at h
  · cases h
  · rename_i h1
    split at h
    · cases h
    · rename_i h2
      split at h
      · cases h
      · rename_i h3
        split at h
        · cases h
        · rename_i h4
          split at h
          · cases h
          · rename_i h5
            simp only [Bool.not_eq_true, Bool.not_eq_false', Bool.and_eq_true, decide_eq_true_eq] at h1 h2
            simp only [beq_iff_eq] at h4
            refine ⟨by omega, ?_, by omega, by omega, by omega⟩
            cases hh : Spec.typePairAllowed o.physicalType o.logicalType
            · rw [hh] at h2; simp at h2
            · rfl

theorem validateTypes_of_allowed {p l : Nat} (h : Spec.typePairAllowed p l = true) :
    validateTypes p l = .ok () := by
  unfold Spec.typePairAllowed at h
  unfold validateTypes
  by_cases hl : l = 0
  · simp [hl]
  · have hl' : (l == 0) = false := by simpa using hl
    rw [hl'] at h ⊢
    generalize (p == 1) = a at *
    generalize (l == 1) = b at *
    generalize (l == 3) = c at *
    generalize (l == 13) = d at *
    generalize (p == 0) = z at *
    cases z <;> cases a <;> cases b <;> cases c <;> cases d <;> simp_all

theorem optionsFromFrame_ok {o : Options} {rest : List Row} {delimited : Bool}
    (hc : Spec.checkOptions o = .ok ()) :
    optionsFromFrame { rows := .options o :: rest } delimited = .ok (parserOptionsOf o delimited) := by
  obtain ⟨-, hp, hn, -, -⟩ := checkOptions_ok hc
  have e : optionsFromFrame { rows := .options o :: rest } delimited =
      (match validateTypes o.physicalType o.logicalType with
       | .error e => .error e
       | .ok () =>
         if o.maxNames < MIN_NAME_LOOKUP_SIZE then .error .conformance
         else .ok (parserOptionsOf o delimited)) := rfl
  rw [e, validateTypes_of_allowed hp]
  dsimp only
  rw [if_neg (show ¬ o.maxNames < MIN_NAME_LOOKUP_SIZE by simp only [MIN_NAME_LOOKUP_SIZE]; omega)]

theorem adapterFor_ok {o : Options} (hc : Spec.checkOptions o = .ok ()) :
    adapterFor o.physicalType = .ok (adapterOf o) := by
  obtain ⟨hp, -⟩ := checkOptions_ok hc
  rcases hp with hp | hp | hp <;> simp [adapterFor, adapterOf, hp]

/-! ## The simulation relation and one row -/

/-- `R ss d`: the reference state `ss` (after a valid options row `o`) and the decoder state `d`
    agree: `d` was set up from `o`, and tables, repeated terms and the open graph coincide. -/
def R (ss : Spec.State) (d : DecState) : Prop :=
  ∃ o, ss.opts = some o ∧ Spec.checkOptions o = .ok () ∧ ss.WF ∧
    d = mirror (parserOptionsOf o d.opts.delimited) (adapterOf o) ss

theorem R.tables {ss : Spec.State} {d : DecState} (h : R ss d) :
    ss.names = d.names ∧ ss.prefixes = d.prefixes ∧ ss.datatypes = d.datatypes ∧
    ss.rep = d.rep ∧ ss.graph = d.graphId := by
  obtain ⟨o, -, -, -, hd⟩ := h
  rw [hd]
  exact ⟨rfl, rfl, rfl, rfl, rfl⟩

theorem R_mirror {o : Options} {dl : Bool} {ss : Spec.State} (ho : ss.opts = some o)
    (hc : Spec.checkOptions o = .ok ()) (hw : ss.WF) :
    R ss (mirror (parserOptionsOf o dl) (adapterOf o) ss) :=
  ⟨o, ho, hc, hw, rfl⟩

@[simp] theorem mirror_adapter {po ad ss} : (mirror po ad ss).adapter = ad := rfl
@[simp] theorem mirror_graphId {po ad ss} : (mirror po ad ss).graphId = ss.graph := rfl

theorem adapterOf_1 {o : Options} (h : o.physicalType = 1) : adapterOf o = .triples := by
  simp [adapterOf, h]
theorem adapterOf_2 {o : Options} (h : o.physicalType = 2) : adapterOf o = .quads := by
  simp [adapterOf, h]
theorem adapterOf_3 {o : Options} (h : o.physicalType = 3) : adapterOf o = .graphs := by
  simp [adapterOf, h]

theorem validateOptions_self {o : Options} {dl : Bool} {ad : AdapterKind} {ss : Spec.State}
    (hc : Spec.checkOptions o = .ok ()) :
    (mirror (parserOptionsOf o dl) ad ss).validateOptions o = .ok () := by
  obtain ⟨-, -, -, -, hv⟩ := checkOptions_ok hc
  have hver : (if o.version ≥ 2 then 2 else 1) ≥ o.version := by split <;> omega
  simp [DecState.validateOptions, mirror, parserOptionsOf, hver]

theorem step_mirror {o : Options} {dl : Bool} {ss ss' : Spec.State} {r : Row} {ev : Option Event}
    (ho : ss.opts = some o) (hc : Spec.checkOptions o = .ok ()) (hw : ss.WF)
    (h : Spec.step ss r = .ok (ss', ev)) :
    (mirror (parserOptionsOf o dl) (adapterOf o) ss).decodeRow true r
        = .ok (mirror (parserOptionsOf o dl) (adapterOf o) ss', ev) ∧
      ss'.WF ∧ ss'.opts = some o := by
  unfold Spec.step at h
  rw [ho] at h
  dsimp only at h
  cases r with
  | empty => cases h
  | options o' =>
    dsimp only at h
    split at h
    · rename_i heq
      have heq : o' = o := by simpa using heq
      subst heq
      injection h with h
      injection h with h1 h2
      subst h1 h2
      refine ⟨?_, hw, ho⟩
      simp only [DecState.decodeRow, validateOptions_self hc]
    · cases h
  | nameEntry id v =>
    simp only [bind, Except.bind, pure, Except.pure] at h
    cases ha : Spec.assign ss.names id v with
    | error e => rw [ha] at h; cases h
    | ok t =>
      rw [ha] at h
      injection h with h
      injection h with h1 h2
      subst h1 h2
      obtain ⟨e1, w1⟩ := assign_sim hw.1 ha
      refine ⟨?_, ⟨w1, hw.2⟩, rfl⟩
      simp only [DecState.decodeRow, mirror, e1]
  | prefixEntry id v =>
    simp only [bind, Except.bind, pure, Except.pure] at h
    cases ha : Spec.assign ss.prefixes id v with
    | error e => rw [ha] at h; cases h
    | ok t =>
      rw [ha] at h
      injection h with h
      injection h with h1 h2
      subst h1 h2
      obtain ⟨e1, w1⟩ := assign_sim hw.2.1 ha
      refine ⟨?_, ⟨hw.1, w1, hw.2.2⟩, rfl⟩
      simp only [DecState.decodeRow, mirror, e1]
  | dtEntry id v =>
    simp only [bind, Except.bind, pure, Except.pure] at h
    cases ha : Spec.assign ss.datatypes id v with
    | error e => rw [ha] at h; cases h
    | ok t =>
      rw [ha] at h
      injection h with h
      injection h with h1 h2
      subst h1 h2
      obtain ⟨e1, w1⟩ := assign_sim hw.2.2 ha
      refine ⟨?_, ⟨hw.1, hw.2.1, w1⟩, rfl⟩
      simp only [DecState.decodeRow, mirror, e1]
  | triple s p ob =>
    obtain ⟨hp, -⟩ := checkOptions_ok hc
    dsimp only at h
    rcases hp with hp | hp | hp
    · have b1 : (o.physicalType == 1) = true := by simp [hp]
      rw [b1] at h
      simp only [if_true, bind, Except.bind, pure, Except.pure] at h
      cases hs : Spec.resolveSpo ss s p ob with
      | error e => rw [hs] at h; cases h
      | ok r =>
        obtain ⟨s1, ts, tp, to⟩ := r
        rw [hs] at h
        dsimp only at h
        injection h with h
        injection h with h1 h2
        subst h1 h2
        obtain ⟨e1, k1⟩ := spo_sim_dec (po := parserOptionsOf o dl) (ad := adapterOf o) hw hs
        refine ⟨?_, k1.1, k1.2.1.trans ho⟩
        simp only [DecState.decodeRow, e1]
        simp only [mirror_adapter, adapterOf_1 hp]
    · have b1 : (o.physicalType == 1) = false := by simp [hp]
      have b3 : (o.physicalType == 3) = false := by simp [hp]
      rw [b1, b3] at h
      simp only [Bool.false_eq_true, if_false] at h
      cases h
    · have b1 : (o.physicalType == 1) = false := by simp [hp]
      have b3 : (o.physicalType == 3) = true := by simp [hp]
      rw [b1, b3] at h
      simp only [Bool.false_eq_true, if_false, if_true] at h
      cases hg : ss.graph with
      | none => rw [hg] at h; cases h
      | some g =>
        rw [hg] at h
        simp only [bind, Except.bind, pure, Except.pure] at h
        cases hs : Spec.resolveSpo ss s p ob with
        | error e => rw [hs] at h; cases h
        | ok r =>
          obtain ⟨s1, ts, tp, to⟩ := r
          rw [hs] at h
          dsimp only at h
          injection h with h
          injection h with h1 h2
          subst h1 h2
          obtain ⟨e1, k1⟩ := spo_sim_dec (po := parserOptionsOf o dl) (ad := adapterOf o) hw hs
          refine ⟨?_, k1.1, k1.2.1.trans ho⟩
          simp only [DecState.decodeRow, e1]
          simp only [mirror_adapter, mirror_graphId, adapterOf_3 hp, k1.2.2, hg]
  | quad s p ob g =>
    obtain ⟨hp, -⟩ := checkOptions_ok hc
    dsimp only at h
    by_cases b2 : (o.physicalType == 2) = true
    · have hp2 : o.physicalType = 2 := by simpa using b2
      rw [b2] at h
      simp only [if_true, bind, Except.bind, pure, Except.pure] at h
      cases hs : Spec.resolveSpo ss s p ob with
      | error e => rw [hs] at h; cases h
      | ok r =>
        obtain ⟨s1, ts, tp, to⟩ := r
        rw [hs] at h
        dsimp only at h
        obtain ⟨e1, k1⟩ := spo_sim_dec (po := parserOptionsOf o dl) (ad := adapterOf o) hw hs
        cases hgs : Spec.resolveSlot true s1 s1.rep.g g with
        | error e => rw [hgs] at h; cases h
        | ok r2 =>
          obtain ⟨s2, tg⟩ := r2
          rw [hgs] at h
          dsimp only at h
          injection h with h
          injection h with h1 h2
          subst h1 h2
          obtain ⟨e2, k2, -⟩ := slot_sim (po := parserOptionsOf o dl) (ad := adapterOf o) k1.1 hgs
          refine ⟨?_, k2.1, k2.2.1.trans (k1.2.1.trans ho)⟩
          have e2' : (mirror (parserOptionsOf o dl) (adapterOf o) s1).decodeSlot true
              (mirror (parserOptionsOf o dl) (adapterOf o) s1).rep.g g = _ := e2
          simp only [DecState.decodeRow, e1, e2']
          simp only [mirror_adapter, adapterOf_2 hp2]
          rfl
    · rw [if_neg b2] at h
      cases h
  | graphStart g =>
    dsimp only at h
    by_cases b3 : (o.physicalType == 3) = true
    · have hp3 : o.physicalType = 3 := by simpa using b3
      rw [if_pos b3] at h
      cases g with
      | none => cases h
      | some t =>
        simp only [bind, Except.bind, pure, Except.pure] at h
        cases ht : Spec.resolveTerm true ss t with
        | error e => rw [ht] at h; cases h
        | ok r =>
          obtain ⟨s1, tg⟩ := r
          rw [ht] at h
          dsimp only at h
          injection h with h
          injection h with h1 h2
          subst h1 h2
          obtain ⟨e1, k1, -⟩ := term_sim (po := parserOptionsOf o dl) (ad := adapterOf o) t true ss s1 tg hw ht
          refine ⟨?_, k1.1, k1.2.1.trans ho⟩
          simp only [DecState.decodeRow, e1]
          simp only [mirror_adapter, adapterOf_3 hp3]
          rfl
    · rw [if_neg b3] at h
      cases h
  | graphEnd =>
    dsimp only at h
    by_cases b3 : (o.physicalType == 3) = true
    · have hp3 : o.physicalType = 3 := by simpa using b3
      rw [if_pos b3] at h
      cases hg : ss.graph with
      | none => rw [hg] at h; cases h
      | some g0 =>
        rw [hg] at h
        dsimp only at h
        injection h with h
        injection h with h1 h2
        subst h1 h2
        refine ⟨?_, hw, rfl⟩
        simp only [DecState.decodeRow, mirror_adapter, adapterOf_3 hp3]
        rfl
    · rw [if_neg b3] at h
      cases h
  | «namespace» name iri =>
    dsimp only at h
    split at h
    · cases h
    · simp only [bind, Except.bind, pure, Except.pure] at h
      cases hi : Spec.resolveIri ss (iri.getD (0, 0)).1 (iri.getD (0, 0)).2 with
      | error e => rw [hi] at h; cases h
      | ok r =>
        obtain ⟨s1, str⟩ := r
        rw [hi] at h
        dsimp only at h
        injection h with h
        injection h with h1 h2
        subst h1 h2
        obtain ⟨e1, k1, -⟩ := iri_sim (po := parserOptionsOf o dl) (ad := adapterOf o) hw hi
        refine ⟨?_, k1.1, k1.2.1.trans ho⟩
        simp only [DecState.decodeRow, e1]


theorem step_mirror_err {o : Options} {dl : Bool} {ss : Spec.State} {r : Row} {v : Spec.Violation}
    (ho : ss.opts = some o) (hc : Spec.checkOptions o = .ok ()) (hw : ss.WF)
    (h : Spec.step ss r = .error v) (hv : v.rejected = true) :
    ∃ e, (mirror (parserOptionsOf o dl) (adapterOf o) ss).decodeRow true r = .error e := by
  unfold Spec.step at h
  rw [ho] at h
  dsimp only at h
  obtain ⟨hp, -⟩ := checkOptions_ok hc
  cases r with
  | empty => exact ⟨_, rfl⟩
  | options o' =>
    dsimp only at h
    split at h
    · cases h
    · injection h with h
      subst h
      cases hv
  | nameEntry id v =>
    simp only [bind, Except.bind, pure, Except.pure] at h
    cases ha : Spec.assign ss.names id v with
    | error e =>
      obtain ⟨e', he⟩ := assign_err hw.1 ha
      simp only [DecState.decodeRow, mirror, he]
      exact ⟨_, rfl⟩
    | ok t => rw [ha] at h; cases h
  | prefixEntry id v =>
    simp only [bind, Except.bind, pure, Except.pure] at h
    cases ha : Spec.assign ss.prefixes id v with
    | error e =>
      obtain ⟨e', he⟩ := assign_err hw.2.1 ha
      simp only [DecState.decodeRow, mirror, he]
      exact ⟨_, rfl⟩
    | ok t => rw [ha] at h; cases h
  | dtEntry id v =>
    simp only [bind, Except.bind, pure, Except.pure] at h
    cases ha : Spec.assign ss.datatypes id v with
    | error e =>
      obtain ⟨e', he⟩ := assign_err hw.2.2 ha
      simp only [DecState.decodeRow, mirror, he]
      exact ⟨_, rfl⟩
    | ok t => rw [ha] at h; cases h
  | triple s p ob =>
    dsimp only at h
    simp only [DecState.decodeRow]
    rcases hp with hp | hp | hp
    · have b1 : (o.physicalType == 1) = true := by simp [hp]
      rw [b1] at h
      simp only [if_true, bind, Except.bind, pure, Except.pure] at h
      cases hs : Spec.resolveSpo ss s p ob with
      | error e =>
        rw [hs] at h
        injection h with h
        subst h
        obtain ⟨e', he⟩ := spo_err (po := parserOptionsOf o dl) (ad := adapterOf o) hw hs hv
        rw [he]
        exact ⟨_, rfl⟩
      | ok r => rw [hs] at h; cases h
    · cases hX : (mirror (parserOptionsOf o dl) (adapterOf o) ss).decodeSpo true s p ob with
      | error e => exact ⟨_, rfl⟩
      | ok r =>
        obtain ⟨d', ts, tp, to⟩ := r
        simp only [mirror_adapter, adapterOf_2 hp]
        exact ⟨_, rfl⟩
    · have b1 : (o.physicalType == 1) = false := by simp [hp]
      have b3 : (o.physicalType == 3) = true := by simp [hp]
      rw [b1, b3] at h
      simp only [Bool.false_eq_true, if_false, if_true] at h
      cases hg : ss.graph with
      | none =>
        cases hX : (mirror (parserOptionsOf o dl) (adapterOf o) ss).decodeSpo true s p ob with
        | error e => exact ⟨_, rfl⟩
        | ok r =>
          obtain ⟨d', ts, tp, to⟩ := r
          have hc' := (decodeSpo_ctl hX).1
          rw [mirror_graphId, hg] at hc'
          simp only [mirror_adapter, adapterOf_3 hp, hc']
          exact ⟨_, rfl⟩
      | some g =>
        rw [hg] at h
        simp only [bind, Except.bind, pure, Except.pure] at h
        cases hs : Spec.resolveSpo ss s p ob with
        | error e =>
          rw [hs] at h
          injection h with h
          subst h
          obtain ⟨e', he⟩ := spo_err (po := parserOptionsOf o dl) (ad := adapterOf o) hw hs hv
          rw [he]
          exact ⟨_, rfl⟩
        | ok r => rw [hs] at h; cases h
  | quad s p ob g =>
    dsimp only at h
    simp only [DecState.decodeRow]
    by_cases b2 : (o.physicalType == 2) = true
    · rw [b2] at h
      simp only [if_true, bind, Except.bind, pure, Except.pure] at h
      cases hs : Spec.resolveSpo ss s p ob with
      | error e =>
        rw [hs] at h
        injection h with h
        subst h
        obtain ⟨e', he⟩ := spo_err (po := parserOptionsOf o dl) (ad := adapterOf o) hw hs hv
        rw [he]
        exact ⟨_, rfl⟩
      | ok r =>
        obtain ⟨s1, ts, tp, to⟩ := r
        rw [hs] at h
        dsimp only at h
        obtain ⟨e1, k1⟩ := spo_sim_dec (po := parserOptionsOf o dl) (ad := adapterOf o) hw hs
        rw [e1]
        dsimp only
        cases hgs : Spec.resolveSlot true s1 s1.rep.g g with
        | error e =>
          rw [hgs] at h
          injection h with h
          subst h
          obtain ⟨e', he⟩ := slot_err (po := parserOptionsOf o dl) (ad := adapterOf o) k1.1 hgs hv
          have he' : (mirror (parserOptionsOf o dl) (adapterOf o) s1).decodeSlot true
              (mirror (parserOptionsOf o dl) (adapterOf o) s1).rep.g g = _ := he
          rw [he']
          exact ⟨_, rfl⟩
        | ok r2 => rw [hgs] at h; cases h
    · have hp2 : o.physicalType ≠ 2 := by simpa using b2
      cases hX : (mirror (parserOptionsOf o dl) (adapterOf o) ss).decodeSpo true s p ob with
      | error e => exact ⟨_, rfl⟩
      | ok r =>
        obtain ⟨d', ts, tp, to⟩ := r
        dsimp only
        cases hY : d'.decodeSlot true d'.rep.g g with
        | error e => exact ⟨_, rfl⟩
        | ok r2 =>
          obtain ⟨d'', tg⟩ := r2
          rcases hp with hp | hp | hp
          · simp only [mirror_adapter, adapterOf_1 hp]
            exact ⟨_, rfl⟩
          · exact absurd hp hp2
          · simp only [mirror_adapter, adapterOf_3 hp]
            exact ⟨_, rfl⟩
  | graphStart g =>
    dsimp only at h
    simp only [DecState.decodeRow]
    cases g with
    | none => exact ⟨_, rfl⟩
    | some t =>
      dsimp only
      by_cases b3 : (o.physicalType == 3) = true
      · rw [if_pos b3] at h
        simp only [bind, Except.bind, pure, Except.pure] at h
        cases ht : Spec.resolveTerm true ss t with
        | error e =>
          rw [ht] at h
          injection h with h
          subst h
          obtain ⟨e', he⟩ := term_err (po := parserOptionsOf o dl) (ad := adapterOf o) t true ss e hw ht hv
          rw [he]
          exact ⟨_, rfl⟩
        | ok r => rw [ht] at h; cases h
      · have hp3 : o.physicalType ≠ 3 := by simpa using b3
        cases hX : (mirror (parserOptionsOf o dl) (adapterOf o) ss).decodeTerm true t with
        | error e => exact ⟨_, rfl⟩
        | ok r =>
          obtain ⟨d', tg⟩ := r
          rcases hp with hp | hp | hp
          · simp only [mirror_adapter, adapterOf_1 hp]
            exact ⟨_, rfl⟩
          · simp only [mirror_adapter, adapterOf_2 hp]
            exact ⟨_, rfl⟩
          · exact absurd hp hp3
  | graphEnd =>
    dsimp only at h
    simp only [DecState.decodeRow]
    by_cases b3 : (o.physicalType == 3) = true
    · rw [if_pos b3] at h
      cases hg : ss.graph with
      | none =>
        rw [hg] at h
        injection h with h
        subst h
        cases hv
      | some g0 => rw [hg] at h; cases h
    · have hp3 : o.physicalType ≠ 3 := by simpa using b3
      rcases hp with hp | hp | hp
      · simp only [mirror_adapter, adapterOf_1 hp]
        exact ⟨_, rfl⟩
      · simp only [mirror_adapter, adapterOf_2 hp]
        exact ⟨_, rfl⟩
      · exact absurd hp hp3
  | «namespace» name iri =>
    dsimp only at h
    split at h
    · injection h with h
      subst h
      cases hv
    · simp only [bind, Except.bind, pure, Except.pure] at h
      cases hi : Spec.resolveIri ss (iri.getD (0, 0)).1 (iri.getD (0, 0)).2 with
      | error e =>
        obtain ⟨e', he⟩ := iri_err (po := parserOptionsOf o dl) (ad := adapterOf o) hw hi
        simp only [DecState.decodeRow, he]
        exact ⟨_, rfl⟩
      | ok r => rw [hi] at h; cases h


/-- Per-row simulation: a row the rules accept is decoded without raising, to the same event,
    and the two machines stay related. -/
theorem row_sim {ss ss' : Spec.State} {d : DecState} {r : Row} {ev : Option Event}
    (hR : R ss d) (h : Spec.step ss r = .ok (ss', ev)) :
    ∃ d', d.decodeRow true r = .ok (d', ev) ∧ R ss' d' := by
  obtain ⟨o, ho, hc, hw, hd⟩ := hR
  generalize d.opts.delimited = dl at hd
  subst hd
  obtain ⟨e1, w1, o1⟩ := step_mirror (dl := dl) ho hc hw h
  exact ⟨_, e1, R_mirror o1 hc w1⟩

/-- Per-row rejection: a row the rules reject with a class in `rejected` makes the decoder raise. -/
theorem row_err {ss : Spec.State} {d : DecState} {r : Row} {v : Spec.Violation}
    (hR : R ss d) (h : Spec.step ss r = .error v) (hv : v.rejected = true) :
    ∃ e, d.decodeRow true r = .error e := by
  obtain ⟨o, ho, hc, hw, hd⟩ := hR
  generalize d.opts.delimited = dl at hd
  subst hd
  exact step_mirror_err (dl := dl) ho hc hw h hv

/-! ## Row sequences -/

theorem run_sim : ∀ (rows : List Row) (ss : Spec.State) (d : DecState) (acc : List Event) (i : Nat)
    (st : Spec.State) (evs : List Event), R ss d → Spec.run ss rows acc i = (st, evs, none) →
    ∃ d', d.decodeRows true rows acc = (d', evs, none) ∧ R st d'
  | [], ss, d, acc, i, st, evs, hR, h => by
    simp only [Spec.run] at h
    injection h with h1 h2
    injection h2 with h2 h3
    subst h1 h2
    exact ⟨d, rfl, hR⟩
  | r :: rs, ss, d, acc, i, st, evs, hR, h => by
    simp only [Spec.run] at h
    cases hs : Spec.step ss r with
    | error v =>
      rw [hs] at h
      injection h with h1 h2
      injection h2 with h2 h3
      cases h3
    | ok res =>
      obtain ⟨ss', ev⟩ := res
      rw [hs] at h
      dsimp only at h
      obtain ⟨d1, e1, R1⟩ := row_sim hR hs
      obtain ⟨d', e2, R2⟩ := run_sim rs ss' d1 _ _ st evs R1 h
      refine ⟨d', ?_, R2⟩
      simp only [DecState.decodeRows, e1]
      exact e2

theorem decodeRows_append {q : Bool} : ∀ (pre rest : List Row) (d d' : DecState) (acc evs : List Event),
    d.decodeRows q pre acc = (d', evs, none) →
    d.decodeRows q (pre ++ rest) acc = d'.decodeRows q rest evs
  | [], rest, d, d', acc, evs, h => by
    simp only [DecState.decodeRows] at h
    injection h with h1 h2
    injection h2 with h2 h3
    subst h1 h2
    rfl
  | r :: rs, rest, d, d', acc, evs, h => by
    simp only [DecState.decodeRows, List.cons_append] at h ⊢
    cases hr : d.decodeRow q r with
    | error e =>
      rw [hr] at h
      injection h with h1 h2
      injection h2 with h2 h3
      cases h3
    | ok res =>
      obtain ⟨d1, ev⟩ := res
      rw [hr] at h
      dsimp only at h ⊢
      exact decodeRows_append rs rest d1 d' _ evs h

theorem run_err {pre : List Row} {ss st : Spec.State} {d : DecState} {acc evs : List Event} {i : Nat}
    {r : Row} {v : Spec.Violation} (post : List Row) (hR : R ss d)
    (h : Spec.run ss pre acc i = (st, evs, none)) (hs : Spec.step st r = .error v)
    (hv : v.rejected = true) :
    ∃ d' e, d.decodeRows true (pre ++ r :: post) acc = (d', evs, some e) := by
  obtain ⟨d', e1, R1⟩ := run_sim pre ss d acc i st evs hR h
  obtain ⟨e, he⟩ := row_err R1 hs hv
  refine ⟨d', e, ?_⟩
  rw [decodeRows_append pre (r :: post) d d' acc evs e1]
  simp only [DecState.decodeRows, he]

/-! ## The first row -/

/-- The reference state right after a valid options row. -/
def Spec.initState (o : Options) : Spec.State :=
  { opts := some o, names := Spec.mkTable o.maxNames, prefixes := Spec.mkTable o.maxPrefixes,
    datatypes := Spec.mkTable o.maxDatatypes }

theorem initState_WF (o : Options) : (Spec.initState o).WF :=
  ⟨mkTable_WF _, mkTable_WF _, mkTable_WF _⟩

theorem runRows_header {o : Options} {rest : List Row} {st : Spec.State} {evs : List Event}
    (h : Spec.runRows (.options o :: rest) = (st, evs, none)) :
    Spec.checkOptions o = .ok () ∧ Spec.run (Spec.initState o) rest [] 1 = (st, evs, none) := by
  simp only [Spec.runRows, Spec.run, Spec.step, bind, Except.bind, pure, Except.pure] at h
  cases hc : Spec.checkOptions o with
  | error e =>
    rw [hc] at h
    injection h with h1 h2
    injection h2 with h2 h3
    cases h3
  | ok u =>
    rw [hc] at h
    exact ⟨rfl, h⟩

theorem DecState.new_ok {o : Options} {dl : Bool}
    (hsz : o.maxNames ≤ MAX_LOOKUP_SIZE ∧ o.maxPrefixes ≤ MAX_LOOKUP_SIZE ∧ o.maxDatatypes ≤ MAX_LOOKUP_SIZE) :
    DecState.new (parserOptionsOf o dl) (adapterOf o)
      = .ok (mirror (parserOptionsOf o dl) (adapterOf o) (Spec.initState o)) := by
  have e1 : LookupDec.new (parserOptionsOf o dl).maxNames = .ok (Spec.mkTable o.maxNames) :=
    LookupDec.new_eq_mkTable hsz.1
  have e2 : LookupDec.new (parserOptionsOf o dl).maxPrefixes = .ok (Spec.mkTable o.maxPrefixes) :=
    LookupDec.new_eq_mkTable hsz.2.1
  have e3 : LookupDec.new (parserOptionsOf o dl).maxDatatypes = .ok (Spec.mkTable o.maxDatatypes) :=
    LookupDec.new_eq_mkTable hsz.2.2
  simp only [DecState.new, e1, e2, e3, bind, Except.bind, pure, Except.pure]
  rfl

theorem decodeRows_header {o : Options} {dl : Bool} {ad : AdapterKind} {ss : Spec.State}
    (hc : Spec.checkOptions o = .ok ()) (rows : List Row) :
    (mirror (parserOptionsOf o dl) ad ss).decodeRows true (.options o :: rows) []
      = (mirror (parserOptionsOf o dl) ad ss).decodeRows true rows [] := by
  simp only [DecState.decodeRows, DecState.decodeRow, validateOptions_self hc]
  rfl


/-! ## Headers the reader refuses -/

theorem optionsFromFrame_nonOptions {first : Row} {rest : List Row} {dl : Bool}
    (h : ∀ o, first ≠ .options o) :
    optionsFromFrame { rows := first :: rest } dl = .error .conformance := by
  cases first with
  | options o => exact absurd rfl (h o)
  | _ => rfl

theorem optionsFromFrame_inv {o : Options} {rest : List Row} {dl : Bool} {opts : ParserOptions}
    (h : optionsFromFrame { rows := .options o :: rest } dl = .ok opts) :
    opts = parserOptionsOf o dl ∧ 8 ≤ o.maxNames := by
  have e : optionsFromFrame { rows := .options o :: rest } dl =
      (match validateTypes o.physicalType o.logicalType with
       | .error e => .error e
       | .ok () =>
         if o.maxNames < MIN_NAME_LOOKUP_SIZE then .error .conformance
         else .ok (parserOptionsOf o dl)) := rfl
  rw [e] at h
  split at h
  · cases h
  · split at h
    · cases h
    · rename_i hn
      injection h with h
      simp only [MIN_NAME_LOOKUP_SIZE] at hn
      exact ⟨h.symm, by omega⟩

theorem adapterFor_inv {p : Nat} {ad : AdapterKind} (h : adapterFor p = .ok ad) :
    p = 1 ∨ p = 2 ∨ p = 3 := by
  unfold adapterFor at h
  split at h
  · rename_i h1; exact .inl (by simpa using h1)
  · split at h
    · rename_i h1; exact .inr (.inl (by simpa using h1))
    · split at h
      · rename_i h1; exact .inr (.inr (by simpa using h1))
      · split at h <;> cases h

theorem LookupDec.new_inv {n : Nat} {t : LookupDec} (h : LookupDec.new n = .ok t) : n ≤ MAX_LOOKUP_SIZE := by
  unfold LookupDec.new at h
  split at h
  · cases h
  · omega

theorem DecState.new_inv {opts : ParserOptions} {ad : AdapterKind} {d0 : DecState}
    (h : DecState.new opts ad = .ok d0) :
    d0.opts = opts ∧ opts.maxNames ≤ MAX_LOOKUP_SIZE ∧ opts.maxPrefixes ≤ MAX_LOOKUP_SIZE ∧
      opts.maxDatatypes ≤ MAX_LOOKUP_SIZE := by
  simp only [DecState.new, bind, Except.bind, pure, Except.pure] at h
  cases h1 : LookupDec.new opts.maxNames with
  | error e => rw [h1] at h; cases h
  | ok t1 =>
    rw [h1] at h
    dsimp only at h
    cases h2 : LookupDec.new opts.maxPrefixes with
    | error e => rw [h2] at h; cases h
    | ok t2 =>
      rw [h2] at h
      dsimp only at h
      cases h3 : LookupDec.new opts.maxDatatypes with
      | error e => rw [h3] at h; cases h
      | ok t3 =>
        rw [h3] at h
        dsimp only at h
        injection h with h
        subst h
        exact ⟨rfl, LookupDec.new_inv h1, LookupDec.new_inv h2, LookupDec.new_inv h3⟩

theorem decodeRows_versionTooNew {o : Options} {dl : Bool} {d0 : DecState} (rest : List Row)
    (h0 : d0.opts = parserOptionsOf o dl) (hv : 2 < o.version) :
    d0.decodeRows true (.options o :: rest) [] = (d0, [], some .assertionError) := by
  have hver : ¬ (d0.opts.version ≥ o.version) := by
    rw [h0]
    simp only [parserOptionsOf]
    rw [if_pos (by omega)]
    omega
  have hval : d0.validateOptions o = .error .assertionError := by
    unfold DecState.validateOptions
    rw [if_neg]
    simp only [Bool.and_eq_true, decide_eq_true_eq]
    intro hh
    exact hver hh.1.1.1.2
  simp only [DecState.decodeRows, DecState.decodeRow, hval]


/-- `R` spelled out field by field. -/
theorem R_iff {ss : Spec.State} {d : DecState} :
    R ss d ↔ ∃ o, ss.opts = some o ∧ Spec.checkOptions o = .ok () ∧
      d.opts = parserOptionsOf o d.opts.delimited ∧ d.adapter = adapterOf o ∧
      ss.names = d.names ∧ ss.prefixes = d.prefixes ∧ ss.datatypes = d.datatypes ∧
      d.names.data.length = d.names.size ∧ d.prefixes.data.length = d.prefixes.size ∧
      d.datatypes.data.length = d.datatypes.size ∧ ss.rep = d.rep ∧ ss.graph = d.graphId := by
  constructor
  · rintro ⟨o, ho, hc, hw, hd⟩
    refine ⟨o, ho, hc, ?_⟩
    generalize d.opts.delimited = dl at hd
    subst hd
    exact ⟨rfl, rfl, rfl, rfl, rfl, hw.1, hw.2.1, hw.2.2, rfl, rfl⟩
  · rintro ⟨o, ho, hc, h1, h2, h3, h4, h5, h6, h7, h8, h9, h10⟩
    refine ⟨o, ho, hc, ?_, ?_⟩
    · rw [← h3, ← h4, ← h5] at *
      exact ⟨h6, h7, h8⟩
    · obtain ⟨po, ad, dn, dp, dd, dr, dg⟩ := d
      simp only at h1 h2 h3 h4 h5 h9 h10
      simp only [mirror]
      rw [← h1, ← h2, h3, h4, h5, h9, h10]

end Jelly

import JellyModel.Lookup
import JellyModel.Spec
import JellyProofs.Lemmas.Pin
/-!
# Single-table theory for the writer/reference-decoder simulation (C03)

* `Lookup.WF`   – the writer table is a well-formed LRU dictionary
* `EMirror`     – the reader table holds every resident `(key, index)` pair of the writer
* `Rec`/`Pres`/`Fits` – the LRU bookkeeping: the keys touched in the current statement form the
  most-recently-used suffix of `data`; no touched key is evicted while the statement touches at most
  `maxSize` distinct keys
* `AgreeOn`     – an arbitrary (later) reader table agrees with the writer on a set of keys
-/
namespace Jelly

/-! ## Association-list helpers -/

theorem assoc_key_unique {l : List (String × Nat)} (h : (l.map (·.1)).Nodup) {k : String} {i j : Nat}
    (hi : (k, i) ∈ l) (hj : (k, j) ∈ l) : i = j := by
  induction l with
  | nil => simp at hi
  | cons x xs ih =>
    simp only [List.map_cons, List.nodup_cons] at h
    rcases List.mem_cons.mp hi with hi | hi <;> rcases List.mem_cons.mp hj with hj | hj
    · rw [← hi] at hj; injection hj with _ h; exact h.symm
    · exfalso; apply h.1; rw [← hi]; exact List.mem_map.mpr ⟨(k, j), hj, rfl⟩
    · exfalso; apply h.1; rw [← hj]; exact List.mem_map.mpr ⟨(k, i), hi, rfl⟩
    · exact ih h.2 hi hj

theorem mem_keys_of_mem {l : List (String × Nat)} {k : String} {i : Nat} (h : (k, i) ∈ l) :
    k ∈ l.map (·.1) := List.mem_map.mpr ⟨(k, i), h, rfl⟩

theorem exists_of_mem_keys {l : List (String × Nat)} {k : String} (h : k ∈ l.map (·.1)) :
    ∃ i, (k, i) ∈ l := by
  obtain ⟨⟨k', i⟩, hm, rfl⟩ := List.mem_map.mp h
  exact ⟨i, hm⟩

/-! ## Well-formed writer tables -/

structure Lookup.WF (l : Lookup) : Prop where
  keysNodup : (l.data.map (·.1)).Nodup
  idxPerm : (l.data.map (·.2)).Perm (List.range' 1 l.data.length)
  lenLe : l.data.length ≤ l.maxSize
  ev : 0 < l.maxSize → l.evicting = (l.data.length == l.maxSize)

theorem Lookup.WF.new (n : Nat) : (Lookup.new n).WF := by
  refine ⟨by simp [Lookup.new], by simp [Lookup.new], by simp [Lookup.new], ?_⟩
  intro hn
  have hn' : 0 < n := hn
  have : (0 == n) = false := by simp; omega
  simp [Lookup.new, this]

theorem Lookup.WF.idx_range {l : Lookup} (wf : l.WF) {k i} (h : (k, i) ∈ l.data) :
    1 ≤ i ∧ i ≤ l.data.length := by
  have : i ∈ l.data.map (·.2) := List.mem_map.mpr ⟨(k, i), h, rfl⟩
  have := (wf.idxPerm.mem_iff).mp this
  simp [List.mem_range'] at this
  omega

theorem Lookup.WF.idx_le_max {l : Lookup} (wf : l.WF) {k i} (h : (k, i) ∈ l.data) :
    1 ≤ i ∧ i ≤ l.maxSize := by
  have := wf.idx_range h; have := wf.lenLe; omega

theorem Lookup.WF.key_unique {l : Lookup} (wf : l.WF) {k i j} (hi : (k, i) ∈ l.data)
    (hj : (k, j) ∈ l.data) : i = j := assoc_key_unique wf.keysNodup hi hj

theorem Lookup.WF.of_perm {l l' : Lookup} (wf : l.WF) (hp : l'.data.Perm l.data)
    (hm : l'.maxSize = l.maxSize) (he : l'.evicting = l.evicting) : l'.WF := by
  have hl := hp.length_eq
  refine ⟨?_, ?_, ?_, ?_⟩
  · exact ((hp.map _).nodup_iff).mpr wf.keysNodup
  · rw [hl]; exact (hp.map _).trans wf.idxPerm
  · rw [hl, hm]; exact wf.lenLe
  · rw [he, hl, hm]; exact wf.ev

/-- `move_to_end` on a resident entry (the key gets pinned to the current row). -/
def Lookup.bump (l : Lookup) (e : String × Nat) : Lookup :=
  ({ l with data := l.data.erase e ++ [e] } : Lookup).pin e.1

@[simp] theorem Lookup.bump_data (l : Lookup) (e : String × Nat) :
    (l.bump e).data = l.data.erase e ++ [e] := by
  unfold Lookup.bump; rw [Lookup.pin_data]

@[simp] theorem Lookup.bump_maxSize (l : Lookup) (e : String × Nat) : (l.bump e).maxSize = l.maxSize := by
  unfold Lookup.bump; rw [Lookup.pin_maxSize]

@[simp] theorem Lookup.bump_evicting (l : Lookup) (e : String × Nat) : (l.bump e).evicting = l.evicting := by
  unfold Lookup.bump; rw [Lookup.pin_evicting]

theorem Lookup.bump_pinned (l : Lookup) (e : String × Nat) :
    (l.bump e).pinned = l.pinned.map (e.1 :: ·) := by
  unfold Lookup.bump; rw [Lookup.pin_pinned]

theorem Lookup.bump_perm {l : Lookup} {e} (h : e ∈ l.data) : (l.bump e).data.Perm l.data := by
  rw [Lookup.bump_data]
  exact (List.perm_append_comm).trans (List.perm_cons_erase h).symm

theorem Lookup.mem_bump {l : Lookup} {e} (h : e ∈ l.data) {x} : x ∈ (l.bump e).data ↔ x ∈ l.data :=
  (Lookup.bump_perm h).mem_iff

theorem Lookup.WF.bump {l : Lookup} (wf : l.WF) {e} (h : e ∈ l.data) : (l.bump e).WF :=
  wf.of_perm (Lookup.bump_perm h) (by simp) (by simp)

/-- Well-formedness does not look at `pinned`. -/
theorem Lookup.WF.congr {l l' : Lookup} (wf : l.WF) (hd : l'.data = l.data) (hm : l'.maxSize = l.maxSize)
    (he : l'.evicting = l.evicting) : l'.WF :=
  wf.of_perm (by rw [hd]) hm he

theorem Lookup.WF.pin {l : Lookup} (wf : l.WF) (k : String) : (l.pin k).WF :=
  wf.congr (by simp) (by simp) (by simp)

theorem Lookup.find?_of_mem {l : Lookup} (wf : l.WF) {k i} (h : (k, i) ∈ l.data) :
    l.find? k = some (k, i) := by
  unfold Lookup.find?
  cases hf : l.data.find? (·.1 == k) with
  | none =>
    have := List.find?_eq_none.mp hf (k, i) h
    simp at this
  | some e =>
    obtain ⟨k', j⟩ := e
    have hk : k' = k := by simpa using List.find?_some hf
    subst hk
    have := wf.key_unique h (List.mem_of_find?_eq_some hf)
    rw [this]

theorem Lookup.find?_eq_none {l : Lookup} {k} : l.find? k = none ↔ k ∉ l.data.map (·.1) := by
  unfold Lookup.find?
  rw [List.find?_eq_none]
  constructor
  · intro h hc
    obtain ⟨e, he, hk⟩ := List.mem_map.mp hc
    exact h e he (by simp [hk])
  · intro h e he hk
    apply h
    have : e.1 = k := by simpa using hk
    exact List.mem_map.mpr ⟨e, he, this⟩

theorem Lookup.moveToEnd_of_mem {l : Lookup} (wf : l.WF) {k i} (h : (k, i) ∈ l.data) :
    l.moveToEnd k = some (l.bump (k, i)) := by
  unfold Lookup.moveToEnd
  rw [Lookup.find?_of_mem wf h]
  rfl

theorem Lookup.moveToEnd_eq_none {l : Lookup} {k} (h : k ∉ l.data.map (·.1)) : l.moveToEnd k = none := by
  unfold Lookup.moveToEnd
  rw [Lookup.find?_eq_none.mpr h]

/-! ## `entryIndex`: the three ways it succeeds, and the one way it is refused -/

inductive EntryCase (e : LookupEnc) (k : String) (e' : LookupEnc) (oid : Option Nat) : Prop
  | hit (i : Nat) (hm : (k, i) ∈ e.lookup.data)
      (he : e' = { e with lookup := e.lookup.bump (k, i) }) (ho : oid = none)
  | fill (hk : k ∉ e.lookup.data.map (·.1)) (hlt : e.lookup.data.length < e.lookup.maxSize)
      (he : e' = { e with
        lookup := ({ e.lookup with data := e.lookup.data ++ [(k, e.lookup.data.length + 1)],
                                   evicting := e.lookup.data.length + 1 == e.lookup.maxSize } : Lookup).pin k,
        lastAssigned := e.lookup.data.length + 1 })
      (ho : oid = some (if e.lookup.data.length + 1 == e.lastAssigned + 1 then 0
                        else e.lookup.data.length + 1))
  | evict (k0 : String) (i0 : Nat) (rest : List (String × Nat))
      (hk : k ∉ e.lookup.data.map (·.1)) (hd : e.lookup.data = (k0, i0) :: rest)
      (hfull : e.lookup.data.length = e.lookup.maxSize)
      (hnp : e.lookup.isPinned k0 = false)
      (he : e' = { e with lookup := ({ e.lookup with data := rest ++ [(k, i0)] } : Lookup).pin k,
                          lastAssigned := i0 })
      (ho : oid = some (if i0 == e.lastAssigned + 1 then 0 else i0))

/-- The refusal: the table is full, the key is new and the least recently used entry is pinned by
    the row being encoded. -/
structure EntryRefused (e : LookupEnc) (k : String) : Prop where
  err : e.entryIndex k = .error .conformance
  ex : ∃ k0 i0 rest, k ∉ e.lookup.data.map (·.1) ∧ e.lookup.data = (k0, i0) :: rest ∧
        e.lookup.data.length = e.lookup.maxSize ∧ e.lookup.isPinned k0 = true

theorem entryIndex_cases {e : LookupEnc} (wf : e.lookup.WF) (hpos : 0 < e.lookup.maxSize) (k : String) :
    (∃ e' oid, e.entryIndex k = .ok (e', oid) ∧ EntryCase e k e' oid) ∨ EntryRefused e k := by
  by_cases hk : k ∈ e.lookup.data.map (·.1)
  · obtain ⟨i, hi⟩ := exists_of_mem_keys hk
    refine Or.inl ⟨_, _, ?_, EntryCase.hit i hi rfl rfl⟩
    simp only [LookupEnc.entryIndex, Lookup.moveToEnd_of_mem wf hi]
  · have hne : (e.lookup.maxSize == 0) = false := by simp; omega
    by_cases hev : e.lookup.evicting = true
    · have hfull : e.lookup.data.length = e.lookup.maxSize := by
        have := wf.ev hpos; rw [hev] at this; simpa using this.symm
      cases hd : e.lookup.data with
      | nil => rw [hd] at hfull; simp at hfull; omega
      | cons x rest =>
        obtain ⟨k0, i0⟩ := x
        cases hnp : e.lookup.isPinned k0 with
        | false =>
          refine Or.inl ⟨_, _, ?_, EntryCase.evict k0 i0 rest hk hd hfull hnp rfl rfl⟩
          simp only [LookupEnc.entryIndex, Lookup.moveToEnd_eq_none hk, Lookup.insert, hne, hev, hd, hnp]
          rfl
        | true =>
          refine Or.inr ⟨?_, k0, i0, rest, hk, hd, hd ▸ hfull, hnp⟩
          simp only [LookupEnc.entryIndex, Lookup.moveToEnd_eq_none hk, Lookup.insert, hne, hev, hd, hnp]
          rfl
    · have hev' : e.lookup.evicting = false := by simpa using hev
      have hlt : e.lookup.data.length < e.lookup.maxSize := by
        have := wf.ev hpos; rw [hev'] at this
        have h2 : e.lookup.data.length ≠ e.lookup.maxSize := by simpa using this.symm
        have := wf.lenLe; omega
      refine Or.inl ⟨_, _, ?_, EntryCase.fill hk hlt rfl rfl⟩
      simp only [LookupEnc.entryIndex, Lookup.moveToEnd_eq_none hk, Lookup.insert, hne, hev']
      rfl

/-- A successful `entryIndex` is one of the three cases. -/
theorem entryIndex_ok_case {e : LookupEnc} (wf : e.lookup.WF) (hpos : 0 < e.lookup.maxSize) {k : String}
    {e' oid} (h : e.entryIndex k = .ok (e', oid)) : EntryCase e k e' oid := by
  rcases entryIndex_cases wf hpos k with ⟨e1, oid1, h1, c⟩ | hr
  · rw [h1] at h
    injection h with h; injection h with ha hb; subst ha hb; exact c
  · rw [hr.err] at h; exact absurd h (by simp)

/-- With no pin tracking (`pinned = none`) `entryIndex` is never refused. -/
theorem entryIndex_cases_unpinned {e : LookupEnc} (wf : e.lookup.WF) (hpos : 0 < e.lookup.maxSize)
    (hn : e.lookup.pinned = none) (k : String) :
    ∃ e' oid, e.entryIndex k = .ok (e', oid) ∧ EntryCase e k e' oid := by
  rcases entryIndex_cases wf hpos k with h | hr
  · exact h
  · obtain ⟨k0, _, _, _, _, _, hp⟩ := hr.ex
    rw [Lookup.isPinned_of_none hn] at hp
    exact absurd hp (by simp)

theorem EntryCase.basic {e e' : LookupEnc} {k oid} (wf : e.lookup.WF) (hpos : 0 < e.lookup.maxSize)
    (c : EntryCase e k e' oid) :
    e'.lookup.WF ∧ e'.lookup.maxSize = e.lookup.maxSize ∧ e'.lastReused = e.lastReused ∧
      ∃ i, (k, i) ∈ e'.lookup.data := by
  cases c with
  | hit i hm he ho =>
    subst he
    exact ⟨wf.bump hm, by simp, rfl, i, (Lookup.mem_bump hm).mpr hm⟩
  | fill hk hlt he ho =>
    subst he
    refine ⟨Lookup.WF.pin ⟨?_, ?_, ?_, ?_⟩ k, by simp, rfl, e.lookup.data.length + 1, by simp⟩
    · simp only [List.map_append, List.map_cons, List.map_nil]
      refine List.nodup_append.mpr ⟨wf.keysNodup, by simp, ?_⟩
      intro a ha b hb; simp at hb; subst hb
      intro hab; subst hab; exact hk ha
    · simp only [List.map_append, List.map_cons, List.map_nil, List.length_append, List.length_cons,
        List.length_nil]
      rw [List.range'_concat]
      exact List.Perm.append wf.idxPerm (by simp; omega)
    · simp; omega
    · intro _; simp
  | evict k0 i0 rest hk hd hfull hnp he ho =>
    subst he
    have hkeys := wf.keysNodup; have hidx := wf.idxPerm
    rw [hd] at hkeys hidx hfull
    simp only [List.map_cons, List.nodup_cons, List.length_cons] at hkeys hidx hfull
    refine ⟨Lookup.WF.pin ⟨?_, ?_, ?_, ?_⟩ k, by simp, rfl, i0, by simp⟩
    · simp only [List.map_append, List.map_cons, List.map_nil]
      refine List.nodup_append.mpr ⟨hkeys.2, by simp, ?_⟩
      intro a ha b hb; simp at hb; subst hb
      intro hab; subst hab
      apply hk; rw [hd]; simp [ha]
    · simp only [List.map_append, List.map_cons, List.map_nil, List.length_append, List.length_cons,
        List.length_nil]
      exact (List.perm_append_comm).trans hidx
    · simp; omega
    · intro _; 
      have := wf.ev hpos
      rw [hd] at this
      simp only [List.length_cons] at this
      simp only [List.length_append, List.length_cons, List.length_nil]
      exact this

/-- Every successful case pins the key. -/
theorem EntryCase.pinned {e e' : LookupEnc} {k oid} (c : EntryCase e k e' oid) :
    e'.lookup.pinned = e.lookup.pinned.map (k :: ·) := by
  cases c with
  | hit i hm he ho => subst he; exact Lookup.bump_pinned _ _
  | fill hk hlt he ho => subst he; exact Lookup.pin_pinned _ _
  | evict k0 i0 rest hk hd hfull hnp he ho => subst he; exact Lookup.pin_pinned _ _

/-! ## Entry rows: the reader table mirrors the writer table -/

/-- Reader table vs writer table, everything except `lastReused` (which lags behind on the reader
    side while the entry rows of a statement are ingested). -/
structure EMirror (e : LookupEnc) (t : LookupDec) : Prop where
  size : t.size = e.lookup.maxSize
  len : t.data.length = e.lookup.maxSize
  la : t.lastAssigned = e.lastAssigned
  res : ∀ k i, (k, i) ∈ e.lookup.data → t.data[i - 1]? = some (some k)

/-- What the reference decoder does with the (optional) entry row of one key. -/
def ingestEntry (t : LookupDec) (oid : Option Nat) (k : String) : Except Spec.Violation LookupDec :=
  match oid with
  | none => .ok t
  | some id => Spec.assign t id k

theorem assign_eq {t : LookupDec} {id i : Nat} {v : String} (hi : 1 ≤ i) (hle : i ≤ t.size)
    (hid : (if id == 0 then t.lastAssigned + 1 else id) = i) :
    Spec.assign t id v = .ok { t with data := t.data.set (i - 1) (some v), lastAssigned := i } := by
  unfold Spec.assign
  simp only [hid]
  have h1 : decide (1 ≤ i) = true := by simpa using hi
  have h2 : decide (i ≤ t.size) = true := by simpa using hle
  simp [h1, h2]

theorem mirror_after_set {e : LookupEnc} {t : LookupDec} {k : String} {i : Nat} {l' : Lookup}
    (wf : e.lookup.WF) (m : EMirror e t) (hm : l'.maxSize = e.lookup.maxSize)
    (hi : 1 ≤ i) (hle : i ≤ e.lookup.maxSize)
    (hold : ∀ k' i', (k', i') ∈ l'.data → (k', i') = (k, i) ∨ ((k', i') ∈ e.lookup.data ∧ i' ≠ i)) :
    EMirror { e with lookup := l', lastAssigned := i }
      { t with data := t.data.set (i - 1) (some k), lastAssigned := i } := by
  refine ⟨by simpa [hm] using m.size, by simpa [hm] using m.len, rfl, ?_⟩
  intro k' i' hmem
  rcases hold k' i' hmem with h | ⟨h, hne⟩
  · injection h with h1 h2; subst h1; subst h2
    have : i' - 1 < t.data.length := by have := m.len; omega
    simp [this]
  · have hr := wf.idx_range h
    have : i - 1 ≠ i' - 1 := by omega
    simp only [List.getElem?_set_ne this]
    exact m.res k' i' h

theorem EntryCase.mirror {e e' : LookupEnc} {k oid} {t : LookupDec} (wf : e.lookup.WF)
    (m : EMirror e t) (c : EntryCase e k e' oid) :
    ∃ t', ingestEntry t oid k = .ok t' ∧ EMirror e' t' ∧ t'.lastReused = t.lastReused := by
  cases c with
  | hit i hm he ho =>
    subst he ho
    refine ⟨t, rfl, ⟨by simpa using m.size, by simpa using m.len, m.la, ?_⟩, rfl⟩
    intro k' i' h
    exact m.res k' i' ((Lookup.mem_bump hm).mp h)
  | fill hk hlt he ho =>
    subst he ho
    have hid : (if (if e.lookup.data.length + 1 == e.lastAssigned + 1 then 0
          else e.lookup.data.length + 1) == 0 then t.lastAssigned + 1
        else (if e.lookup.data.length + 1 == e.lastAssigned + 1 then 0
          else e.lookup.data.length + 1)) = e.lookup.data.length + 1 := by
      rw [m.la]
      split <;> simp_all
    refine ⟨_, assign_eq (i := e.lookup.data.length + 1) (by omega) (by have := m.size; omega) hid, ?_, rfl⟩
    apply mirror_after_set (l' := (⟨e.lookup.maxSize, e.lookup.data ++ [(k, e.lookup.data.length + 1)],
      e.lookup.data.length + 1 == e.lookup.maxSize, e.lookup.pinned⟩ : Lookup).pin k) wf m (by simp) (by omega) (by omega)
    intro k' i' hm'
    simp only [Lookup.pin_data, List.mem_append, List.mem_singleton] at hm'
    rcases hm' with hm' | hm'
    · right; exact ⟨hm', by have := wf.idx_range hm'; omega⟩
    · left; exact hm'
  | evict k0 i0 rest hk hd hfull hnp he ho =>
    subst he ho
    have hmem0 : (k0, i0) ∈ e.lookup.data := by rw [hd]; simp
    have hr0 := wf.idx_range hmem0
    have hid : (if (if i0 == e.lastAssigned + 1 then 0 else i0) == 0 then t.lastAssigned + 1
        else (if i0 == e.lastAssigned + 1 then 0 else i0)) = i0 := by
      rw [m.la]
      split <;> simp_all <;> omega
    have hidx := wf.idxPerm
    rw [hd] at hidx
    simp only [List.map_cons, List.length_cons] at hidx
    have hidxnd : (i0 :: rest.map (·.2)).Nodup :=
      (hidx.nodup_iff).mpr (List.nodup_range' (step := 1) (by omega))
    refine ⟨_, assign_eq (i := i0) (by omega) (by have := m.size; omega) hid, ?_, rfl⟩
    apply mirror_after_set (l' := ({ e.lookup with data := rest ++ [(k, i0)] } : Lookup).pin k) wf m (by simp)
      (by omega) (by omega)
    intro k' i' hm'
    simp only [Lookup.pin_data, List.mem_append, List.mem_singleton] at hm'
    rcases hm' with hm' | hm'
    · right
      refine ⟨by rw [hd]; exact List.mem_cons_of_mem _ hm', ?_⟩
      intro hc; subst hc
      have : i' ∈ rest.map (·.2) := List.mem_map.mpr ⟨(k', i'), hm', rfl⟩
      exact (List.nodup_cons.mp hidxnd).1 this
    · left; exact hm'

/-! ## LRU bookkeeping within one statement -/

/-- The keys `R` touched so far in the current statement are resident and form the
    most-recently-used suffix of `data`. -/
def Rec (data : List (String × Nat)) (R : List String) : Prop :=
  ∃ old recent, data = old ++ recent ∧ (∀ k ∈ R, k ∈ recent.map (·.1)) ∧ (∀ x ∈ recent, x.1 ∈ R)

/-- Every resident pair of `d` whose key is in `R` is still resident, same index, in `d'`. -/
def Pres (R : List String) (d d' : List (String × Nat)) : Prop :=
  ∀ k i, k ∈ R → (k, i) ∈ d → (k, i) ∈ d'

/-- `T` has at most `n` distinct elements. -/
def Fits (T : List String) (n : Nat) : Prop :=
  ∀ l : List String, l.Nodup → (∀ x ∈ l, x ∈ T) → l.length ≤ n

theorem Fits.of_eraseDups {T : List String} {n : Nat} (h : T.eraseDups.length ≤ n) : Fits T n := by
  intro l hnd hsub
  have : l.length ≤ T.eraseDups.length :=
    hnd.length_le_of_subset (fun x hx => List.mem_eraseDups.mpr (hsub x hx))
  omega

theorem Rec.nil (data : List (String × Nat)) : Rec data [] :=
  ⟨data, [], by simp, by simp, by simp⟩

theorem Pres.refl (R : List String) (d : List (String × Nat)) : Pres R d d := fun _ _ _ h => h

theorem Pres.trans {R : List String} {d₁ d₂ d₃ : List (String × Nat)} (h₁ : Pres R d₁ d₂)
    (h₂ : Pres R d₂ d₃) : Pres R d₁ d₃ := fun k i hk h => h₂ k i hk (h₁ k i hk h)

theorem Pres.mono {R R' : List String} {d d' : List (String × Nat)} (h : Pres R' d d')
    (hs : ∀ k ∈ R, k ∈ R') : Pres R d d' := fun k i hk hm => h k i (hs k hk) hm

theorem Rec.resident {data : List (String × Nat)} {R : List String} (h : Rec data R) {k} (hk : k ∈ R) :
    k ∈ data.map (·.1) := by
  obtain ⟨old, recent, rfl, h1, _⟩ := h
  simp only [List.map_append, List.mem_append]
  exact Or.inr (h1 k hk)

theorem Rec.bump {data : List (String × Nat)} {R : List String} {k : String} {i : Nat}
    (hm : (k, i) ∈ data) (h : Rec data R) : Rec (data.erase (k, i) ++ [(k, i)]) (k :: R) := by
  obtain ⟨old, recent, rfl, h1, h2⟩ := h
  by_cases ho : (k, i) ∈ old
  · refine ⟨old.erase (k, i), recent ++ [(k, i)], ?_, ?_, ?_⟩
    · rw [List.erase_append_left _ ho, List.append_assoc]
    · intro k' hk'
      simp only [List.map_append, List.map_cons, List.map_nil, List.mem_append, List.mem_singleton]
      rcases List.mem_cons.mp hk' with rfl | hk'
      · exact Or.inr rfl
      · exact Or.inl (h1 k' hk')
    · intro x hx
      rcases List.mem_append.mp hx with hx | hx
      · exact List.mem_cons_of_mem _ (h2 x hx)
      · simp only [List.mem_singleton] at hx; subst hx; exact List.mem_cons_self
  · refine ⟨old, recent.erase (k, i) ++ [(k, i)], ?_, ?_, ?_⟩
    · rw [List.erase_append_right _ ho, List.append_assoc]
    · intro k' hk'
      simp only [List.map_append, List.map_cons, List.map_nil, List.mem_append, List.mem_singleton]
      by_cases hkk : k' = k
      · exact Or.inr hkk
      · rcases List.mem_cons.mp hk' with rfl | hk'
        · exact absurd rfl hkk
        · obtain ⟨j, hj⟩ := exists_of_mem_keys (h1 k' hk')
          left
          refine List.mem_map.mpr ⟨(k', j), ?_, rfl⟩
          exact (List.mem_erase_of_ne (by intro hc; injection hc with hc _; exact hkk hc)).mpr hj
    · intro x hx
      rcases List.mem_append.mp hx with hx | hx
      · exact List.mem_cons_of_mem _ (h2 x (List.mem_of_mem_erase hx))
      · simp only [List.mem_singleton] at hx; subst hx; exact List.mem_cons_self

/-- The pin bookkeeping of the row being encoded: tracking is on, and the pinned keys are exactly
    the keys `R` touched so far in this row. -/
def PinOK (l : Lookup) (R : List String) : Prop :=
  ∃ ps, l.pinned = some ps ∧ ∀ k, k ∈ ps ↔ k ∈ R

theorem PinOK.nil {l : Lookup} (h : l.pinned = some []) : PinOK l [] := ⟨[], h, fun _ => Iff.rfl⟩

theorem PinOK.congr {l : Lookup} {R R' : List String} (h : PinOK l R) (hiff : ∀ x, x ∈ R ↔ x ∈ R') :
    PinOK l R' := by
  obtain ⟨ps, hp, hi⟩ := h
  exact ⟨ps, hp, fun k => (hi k).trans (hiff k)⟩

theorem PinOK.isPinned {l : Lookup} {R : List String} (h : PinOK l R) (k : String) :
    l.isPinned k = true ↔ k ∈ R := by
  obtain ⟨ps, hp, hi⟩ := h
  rw [Lookup.isPinned_some hp, List.contains_iff_mem]
  exact hi k

theorem PinOK.cons {l l' : Lookup} {R : List String} {k : String} (h : PinOK l R)
    (hp : l'.pinned = l.pinned.map (k :: ·)) : PinOK l' (k :: R) := by
  obtain ⟨ps, hps, hi⟩ := h
  refine ⟨k :: ps, by rw [hp, hps]; rfl, ?_⟩
  intro x
  simp only [List.mem_cons, hi x]

/-- LRU bookkeeping of a successful `entryIndex` (no sizing hypothesis: an eviction that goes
    through never hits a key of the current row, because those are pinned). -/
theorem EntryCase.lru {e e' : LookupEnc} {k oid} {R : List String} (wf : e.lookup.WF)
    (c : EntryCase e k e' oid) (hrec : Rec e.lookup.data R) (hpin : PinOK e.lookup R) :
    Rec e'.lookup.data (k :: R) ∧ Pres (k :: R) e.lookup.data e'.lookup.data ∧
      PinOK e'.lookup (k :: R) := by
  have hpin' : PinOK e'.lookup (k :: R) := hpin.cons c.pinned
  refine ⟨?_, ?_, hpin'⟩
  all_goals cases c with
  | hit i hm he ho =>
    subst he
    first
      | exact (by simpa using hrec.bump hm)
      | exact fun k' i' _ h => (Lookup.mem_bump hm).mpr h
  | fill hk hlt he ho =>
    subst he
    first
      | (intro k' i' _ h; simp only [Lookup.pin_data]; exact List.mem_append_left _ h)
      | (obtain ⟨old, recent, hd, h1, h2⟩ := hrec
         refine ⟨old, recent ++ [(k, e.lookup.data.length + 1)], ?_, ?_, ?_⟩
         · simp only [Lookup.pin_data]
           rw [hd, List.append_assoc]
         · intro k' hk'
           simp only [List.map_append, List.map_cons, List.map_nil, List.mem_append, List.mem_singleton]
           rcases List.mem_cons.mp hk' with rfl | hk'
           · exact Or.inr rfl
           · exact Or.inl (h1 k' hk')
         · intro x hx
           rcases List.mem_append.mp hx with hx | hx
           · exact List.mem_cons_of_mem _ (h2 x hx)
           · simp only [List.mem_singleton] at hx; subst hx; exact List.mem_cons_self)
  | evict k0 i0 rest hk hd hfull hnp he ho =>
    subst he
    obtain ⟨old, recent, hdr, h1, h2⟩ := hrec
    have hkeys := wf.keysNodup
    -- the victim is not pinned, hence not a key of this row, hence not in `recent`
    cases old with
    | nil =>
      exfalso
      simp only [List.nil_append] at hdr
      have : (k0, i0) ∈ recent := by rw [← hdr, hd]; simp
      have := (hpin.isPinned k0).mpr (h2 _ this)
      rw [hnp] at this; exact absurd this (by simp)
    | cons x old' =>
      rw [hd] at hdr
      simp only [List.cons_append] at hdr
      injection hdr with hx hrest
      subst hx
      first
        | (refine ⟨old', recent ++ [(k, i0)], ?_, ?_, ?_⟩
           · simp only [Lookup.pin_data]
             rw [hrest, List.append_assoc]
           · intro k' hk'
             simp only [List.map_append, List.map_cons, List.map_nil, List.mem_append, List.mem_singleton]
             rcases List.mem_cons.mp hk' with rfl | hk'
             · exact Or.inr rfl
             · exact Or.inl (h1 k' hk')
           · intro x hx
             rcases List.mem_append.mp hx with hx | hx
             · exact List.mem_cons_of_mem _ (h2 x hx)
             · simp only [List.mem_singleton] at hx; subst hx; exact List.mem_cons_self)
        | (intro k' i' hk' hm'
           simp only [Lookup.pin_data]
           apply List.mem_append_left
           rw [hd] at hm'
           rcases List.mem_cons.mp hm' with heq | hm'
           · exfalso
             injection heq with h1' h2'
             subst h1' h2'
             rcases List.mem_cons.mp hk' with rfl | hk'
             · apply hk; rw [hd]; simp
             · have hrk := h1 k' hk'
               rw [hd, hrest] at hkeys
               simp only [List.map_cons, List.map_append, List.nodup_cons, List.mem_append] at hkeys
               exact hkeys.1 (Or.inr hrk)
           · exact hm')

/-- A refusal means that the row does not fit: all `maxSize` resident keys plus the new one belong
    to this row. -/
theorem EntryRefused.not_fits {e : LookupEnc} {k : String} {R T : List String} (wf : e.lookup.WF)
    (r : EntryRefused e k) (hrec : Rec e.lookup.data R) (hpin : PinOK e.lookup R)
    (hsub : ∀ x ∈ k :: R, x ∈ T) : ¬ Fits T e.lookup.maxSize := by
  intro hfit
  obtain ⟨k0, i0, rest, hk, hd, hfull, hp⟩ := r.ex
  obtain ⟨old, recent, hdr, h1, h2⟩ := hrec
  have hkeys := wf.keysNodup
  have hk0R : k0 ∈ R := (hpin.isPinned k0).mp hp
  cases old with
  | nil =>
    simp only [List.nil_append] at hdr
    have hnd : (k :: e.lookup.data.map (·.1)).Nodup := List.nodup_cons.mpr ⟨hk, hkeys⟩
    have hsub' : ∀ x ∈ k :: e.lookup.data.map (·.1), x ∈ T := by
      intro x hx
      rcases List.mem_cons.mp hx with rfl | hx
      · exact hsub _ List.mem_cons_self
      · obtain ⟨y, hy, rfl⟩ := List.mem_map.mp hx
        rw [hdr] at hy
        exact hsub _ (List.mem_cons_of_mem _ (h2 y hy))
    have := hfit _ hnd hsub'
    simp only [List.length_cons, List.length_map] at this
    omega
  | cons x old' =>
    rw [hd] at hdr
    simp only [List.cons_append] at hdr
    injection hdr with hx hrest
    have hrk := h1 k0 hk0R
    rw [hd, hrest] at hkeys
    simp only [List.map_cons, List.map_append, List.nodup_cons, List.mem_append] at hkeys
    exact hkeys.1 (Or.inr hrk)

theorem Rec.congr {data : List (String × Nat)} {R R' : List String} (h : Rec data R)
    (hiff : ∀ x, x ∈ R ↔ x ∈ R') : Rec data R' := by
  obtain ⟨old, recent, hd, h1, h2⟩ := h
  exact ⟨old, recent, hd, fun k hk => h1 k ((hiff k).mpr hk), fun x hx => (hiff _).mp (h2 x hx)⟩

/-! ## Term indices (references) -/

theorem termIndex_of_mem {e : LookupEnc} (wf : e.lookup.WF) {k i} (h : (k, i) ∈ e.lookup.data) :
    e.termIndex k = .ok ({ e with lookup := e.lookup.bump (k, i), lastReused := i }, i) := by
  unfold LookupEnc.termIndex
  rw [Lookup.moveToEnd_of_mem wf h]
  simp only
  rw [Lookup.find?_of_mem (wf.bump h) ((Lookup.mem_bump h).mpr h)]

/-- The writer table after a reference to the resident key `k`: same content, possibly reordered. -/
structure TermStep (e e' : LookupEnc) (k : String) : Prop where
  wf : e'.lookup.WF
  max : e'.lookup.maxSize = e.lookup.maxSize
  la : e'.lastAssigned = e.lastAssigned
  mem : ∀ x, x ∈ e'.lookup.data ↔ x ∈ e.lookup.data
  recent : ∀ R, Rec e.lookup.data R → k ∈ R → Rec e'.lookup.data R
  pinok : ∀ R, PinOK e.lookup R → k ∈ R → PinOK e'.lookup R

theorem TermStep.same {e : LookupEnc} (wf : e.lookup.WF) (k : String) : TermStep e e k :=
  ⟨wf, rfl, rfl, fun _ => Iff.rfl, fun _ h _ => h, fun _ h _ => h⟩

theorem cons_mem_iff {k : String} {R : List String} (hk : k ∈ R) (x : String) : x ∈ k :: R ↔ x ∈ R := by
  simp only [List.mem_cons]
  constructor
  · rintro (rfl | hx)
    · exact hk
    · exact hx
  · exact Or.inr

theorem TermStep.bump {e : LookupEnc} (wf : e.lookup.WF) {k i} (h : (k, i) ∈ e.lookup.data) (r : Nat) :
    TermStep e { e with lookup := e.lookup.bump (k, i), lastReused := r } k :=
  ⟨wf.bump h, by simp, rfl, fun _ => Lookup.mem_bump h,
   fun R hr hk => by
    have := (hr.bump h).congr (cons_mem_iff hk)
    simpa using this,
   fun R hp hk => (hp.cons (Lookup.bump_pinned _ _)).congr (cons_mem_iff hk)⟩

theorem TermStep.mirror {e e' : LookupEnc} {k} {t : LookupDec} (s : TermStep e e' k) (m : EMirror e t) :
    EMirror e' t :=
  ⟨by rw [s.max]; exact m.size, by rw [s.max]; exact m.len, by rw [s.la]; exact m.la,
   fun k' i' h => m.res k' i' ((s.mem _).mp h)⟩

/-- A (possibly later) reader table has the writer's pairs for the keys `R`. -/
def AgreeOn (R : List String) (d : List (String × Nat)) (t : LookupDec) : Prop :=
  ∀ k i, k ∈ R → (k, i) ∈ d → 1 ≤ i ∧ i ≤ t.size ∧ t.data[i - 1]? = some (some k)

theorem AgreeOn.of_mirror {e : LookupEnc} {t : LookupDec} (wf : e.lookup.WF) (m : EMirror e t)
    (R : List String) : AgreeOn R e.lookup.data t := by
  intro k i _ h
  have := wf.idx_le_max h
  exact ⟨this.1, by rw [m.size]; exact this.2, m.res k i h⟩

theorem AgreeOn.mono {R R' : List String} {d d' : List (String × Nat)} {t : LookupDec}
    (h : AgreeOn R' d' t) (hp : Pres R d d') (hs : ∀ k ∈ R, k ∈ R') : AgreeOn R d t :=
  fun k i hk hm => h k i (hs k hk) (hp k i hk hm)

theorem slot_eq {t : LookupDec} {i : Nat} (h1 : 1 ≤ i) (h2 : i ≤ t.size) :
    Spec.slot t i = t.data[i - 1]? := by
  unfold Spec.slot
  have a : decide (1 ≤ i) = true := by simpa using h1
  have b : decide (i ≤ t.size) = true := by simpa using h2
  simp [a, b]

/-- What a table needs for the reference `(k ↦ i)` to resolve. -/
def SlotOk (t : LookupDec) (i : Nat) (k : String) : Prop :=
  1 ≤ i ∧ i ≤ t.size ∧ t.data[i - 1]? = some (some k)

theorem SlotOk.lr {t : LookupDec} {i k} (h : SlotOk t i k) (r : Nat) :
    SlotOk { t with lastReused := r } i k := h

theorem resolveName_eq {t : LookupDec} {id i : Nat} {k : String}
    (hid : (if id == 0 then t.lastReused + 1 else id) = i) (h : SlotOk t i k) :
    Spec.resolveName t id = .ok ({ t with lastReused := i }, k) := by
  unfold Spec.resolveName
  simp only [hid]
  rw [slot_eq h.1 h.2.1]
  simp only [h.2.2]

theorem resolvePrefix_eq {t : LookupDec} {id i : Nat} {k : String}
    (hid : (if id == 0 then t.lastReused else id) = i) (h : SlotOk t i k) :
    Spec.resolvePrefix t id = .ok ({ t with lastReused := i }, k) := by
  unfold Spec.resolvePrefix
  have h0 : (i == 0) = false := by have := h.1; simp; omega
  simp only [hid, h0]
  rw [slot_eq h.1 h.2.1]
  simp [h.2.2]

theorem resolveDatatype_eq {t : LookupDec} {i : Nat} {k : String} (h : SlotOk t i k) :
    Spec.resolveDatatype t i = .ok ({ t with lastReused := i }, k) := by
  unfold Spec.resolveDatatype
  have h0 : (i == 0) = false := by have := h.1; simp; omega
  simp only [h0]
  rw [slot_eq h.1 h.2.1]
  simp [h.2.2]

theorem nameTermIndex_sim {e : LookupEnc} (wf : e.lookup.WF) {k i} (hm : (k, i) ∈ e.lookup.data) :
    ∃ id, e.nameTermIndex k = .ok ({ e with lookup := e.lookup.bump (k, i), lastReused := i }, id) ∧
      ∀ t : LookupDec, SlotOk t i k →
        Spec.resolveName { t with lastReused := e.lastReused } id = .ok ({ t with lastReused := i }, k) := by
  have hi := (wf.idx_range hm).1
  unfold LookupEnc.nameTermIndex
  rw [termIndex_of_mem wf hm]
  simp only
  by_cases hc : i = e.lastReused + 1
  · refine ⟨0, by simp [hc], ?_⟩
    intro t h
    exact resolveName_eq (by simp [hc]) (h.lr _)
  · refine ⟨i, by simp [hc], ?_⟩
    intro t h
    have : (i == 0) = false := by simp; omega
    exact resolveName_eq (by simp [this]) (h.lr _)

theorem prefixTermIndex_sim {e : LookupEnc} (wf : e.lookup.WF) (hpos : 0 < e.lookup.maxSize) {k i}
    (hm : (k, i) ∈ e.lookup.data) :
    ∃ e' id, e.prefixTermIndex k = .ok (e', id) ∧ TermStep e e' k ∧
      ∀ t : LookupDec, SlotOk t i k →
        Spec.resolvePrefix { t with lastReused := e.lastReused } id
          = .ok ({ t with lastReused := e'.lastReused }, k) := by
  have hi := (wf.idx_range hm).1
  have hne : (e.lookup.maxSize == 0) = false := by simp; omega
  have hi0 : (i == 0) = false := by simp; omega
  unfold LookupEnc.prefixTermIndex
  simp only [hne]
  by_cases hsc : (k == "" && e.lastReused == 0) = true
  · simp only [hsc]
    simp only [Bool.and_eq_true, beq_iff_eq] at hsc
    refine ⟨e, 0, by simp, TermStep.same wf k, ?_⟩
    intro t _
    unfold Spec.resolvePrefix
    simp [hsc.1, hsc.2]
  · simp only [hsc]
    rw [termIndex_of_mem wf hm]
    simp only
    by_cases h0 : e.lastReused = 0
    · refine ⟨_, i, by simp [h0], TermStep.bump wf hm i, ?_⟩
      intro t h
      exact resolvePrefix_eq (by simp [hi0]) (h.lr _)
    · have h0' : (e.lastReused == 0) = false := by simpa using h0
      by_cases hc : i = e.lastReused
      · refine ⟨_, 0, by simp [h0', hc], TermStep.bump wf hm i, ?_⟩
        intro t h
        exact resolvePrefix_eq (by simp [hc]) (h.lr _)
      · refine ⟨_, i, by simp [h0', hc], TermStep.bump wf hm i, ?_⟩
        intro t h
        exact resolvePrefix_eq (by simp [hi0]) (h.lr _)

theorem datatypeTermIndex_sim {e : LookupEnc} (wf : e.lookup.WF) (hpos : 0 < e.lookup.maxSize) {k i}
    (hm : (k, i) ∈ e.lookup.data) :
    e.datatypeTermIndex k = .ok ({ e with lookup := e.lookup.bump (k, i), lastReused := i }, i) ∧
      i ≠ 0 ∧
      ∀ t : LookupDec, SlotOk t i k →
        Spec.resolveDatatype { t with lastReused := e.lastReused } i
          = .ok ({ t with lastReused := i }, k) := by
  have hi := (wf.idx_range hm).1
  have hne : (e.lookup.maxSize == 0) = false := by simp; omega
  refine ⟨?_, by omega, ?_⟩
  · unfold LookupEnc.datatypeTermIndex
    simp only [hne]
    exact termIndex_of_mem wf hm
  · intro t h
    exact resolveDatatype_eq (h.lr _)

/-! ## One key on one table: entry row (if any) followed by the reference -/

/-- State of one table after "entry, then reference" for the key `k`. -/
structure Used (e e2 : LookupEnc) (k : String) (oid : Option Nat) (R : List String) : Prop where
  wf : e2.lookup.WF
  max : e2.lookup.maxSize = e.lookup.maxSize
  recent : Rec e2.lookup.data (k :: R)
  pinok : PinOK e2.lookup (k :: R)
  pres : Pres (k :: R) e.lookup.data e2.lookup.data
  mirror : ∀ t, EMirror e t →
    ∃ t', ingestEntry t oid k = .ok t' ∧ EMirror e2 t' ∧ t'.lastReused = t.lastReused

/-- `entryIndex` for one key of the current row: either it is refused (`JellyConformanceError`) — and
    then the row does not fit, so this is excluded under the sizing hypothesis `F` — or it succeeds and
    the bookkeeping is re-established. -/
theorem entry_pkg {F : Prop} {e : LookupEnc} {k : String} {R T : List String} (wf : e.lookup.WF)
    (hpos : 0 < e.lookup.maxSize) (hrec : Rec e.lookup.data R) (hpin : PinOK e.lookup R)
    (hsub : ∀ x ∈ k :: R, x ∈ T) (hfit : F → Fits T e.lookup.maxSize) :
    (¬ F ∧ e.entryIndex k = .error .conformance) ∨
    ∃ e1 oid i, e.entryIndex k = .ok (e1, oid) ∧ e1.lookup.WF ∧ e1.lookup.maxSize = e.lookup.maxSize ∧
      e1.lastReused = e.lastReused ∧ (k, i) ∈ e1.lookup.data ∧ Rec e1.lookup.data (k :: R) ∧
      PinOK e1.lookup (k :: R) ∧
      Pres (k :: R) e.lookup.data e1.lookup.data ∧
      (∀ t, EMirror e t →
        ∃ t', ingestEntry t oid k = .ok t' ∧ EMirror e1 t' ∧ t'.lastReused = t.lastReused) := by
  rcases entryIndex_cases wf hpos k with ⟨e1, oid, heq, c⟩ | hr
  · right
    obtain ⟨wf1, hmax, hlr, i, hi⟩ := c.basic wf hpos
    obtain ⟨hrec1, hpres, hpin1⟩ := c.lru wf hrec hpin
    exact ⟨e1, oid, i, heq, wf1, hmax, hlr, hi, hrec1, hpin1, hpres, fun t m => c.mirror wf m⟩
  · left
    exact ⟨fun hF => hr.not_fits wf hrec hpin hsub (hfit hF), hr.err⟩

theorem Used.of_step {e e1 e2 : LookupEnc} {k oid} {R : List String}
    (hmax : e1.lookup.maxSize = e.lookup.maxSize)
    (hrec1 : Rec e1.lookup.data (k :: R)) (hpin1 : PinOK e1.lookup (k :: R))
    (hpres : Pres (k :: R) e.lookup.data e1.lookup.data)
    (hmir : ∀ t, EMirror e t →
        ∃ t', ingestEntry t oid k = .ok t' ∧ EMirror e1 t' ∧ t'.lastReused = t.lastReused)
    (s : TermStep e1 e2 k) : Used e e2 k oid R :=
  ⟨s.wf, by rw [s.max, hmax], s.recent _ hrec1 List.mem_cons_self, s.pinok _ hpin1 List.mem_cons_self,
   fun k' i' hk' h => (s.mem _).mpr (hpres k' i' hk' h),
   fun t m => by
     obtain ⟨t', h1, h2, h3⟩ := hmir t m
     exact ⟨t', h1, s.mirror h2, h3⟩⟩

theorem useName {F : Prop} {e : LookupEnc} {k : String} {R T : List String} (wf : e.lookup.WF)
    (hpos : 0 < e.lookup.maxSize) (hrec : Rec e.lookup.data R) (hpin : PinOK e.lookup R)
    (hsub : ∀ x ∈ k :: R, x ∈ T) (hfit : F → Fits T e.lookup.maxSize) :
    (¬ F ∧ e.entryIndex k = .error .conformance) ∨
    ∃ e1 oid e2 id, e.entryIndex k = .ok (e1, oid) ∧ e1.nameTermIndex k = .ok (e2, id) ∧
      Used e e2 k oid R ∧ e2.lastAssigned = e1.lastAssigned ∧
      ∀ t, AgreeOn (k :: R) e2.lookup.data t →
        Spec.resolveName { t with lastReused := e.lastReused } id
          = .ok ({ t with lastReused := e2.lastReused }, k) := by
  rcases entry_pkg wf hpos hrec hpin hsub hfit with h | ⟨e1, oid, i, heq, wf1, hmax, hlr, hi, hrec1, hpin1, hpres, hmir⟩
  · exact Or.inl h
  right
  obtain ⟨id, hti, hres⟩ := nameTermIndex_sim wf1 hi
  refine ⟨e1, oid, _, id, heq, hti, Used.of_step hmax hrec1 hpin1 hpres hmir (TermStep.bump wf1 hi i), rfl, ?_⟩
  intro t ha
  rw [← hlr]
  exact hres t (ha k i List.mem_cons_self ((Lookup.mem_bump hi).mpr hi))

theorem usePrefix {F : Prop} {e : LookupEnc} {k : String} {R T : List String} (wf : e.lookup.WF)
    (hpos : 0 < e.lookup.maxSize) (hrec : Rec e.lookup.data R) (hpin : PinOK e.lookup R)
    (hsub : ∀ x ∈ k :: R, x ∈ T) (hfit : F → Fits T e.lookup.maxSize) :
    (¬ F ∧ e.entryIndex k = .error .conformance) ∨
    ∃ e1 oid e2 id, e.entryIndex k = .ok (e1, oid) ∧ e1.prefixTermIndex k = .ok (e2, id) ∧
      Used e e2 k oid R ∧
      ∀ t, AgreeOn (k :: R) e2.lookup.data t →
        Spec.resolvePrefix { t with lastReused := e.lastReused } id
          = .ok ({ t with lastReused := e2.lastReused }, k) := by
  rcases entry_pkg wf hpos hrec hpin hsub hfit with h | ⟨e1, oid, i, heq, wf1, hmax, hlr, hi, hrec1, hpin1, hpres, hmir⟩
  · exact Or.inl h
  right
  obtain ⟨e2, id, hti, hstep, hres⟩ := prefixTermIndex_sim wf1 (by rw [hmax]; exact hpos) hi
  refine ⟨e1, oid, e2, id, heq, hti, Used.of_step hmax hrec1 hpin1 hpres hmir hstep, ?_⟩
  intro t ha
  rw [← hlr]
  exact hres t (ha k i List.mem_cons_self ((hstep.mem _).mpr hi))

theorem useDatatype {F : Prop} {e : LookupEnc} {k : String} {R T : List String} (wf : e.lookup.WF)
    (hpos : 0 < e.lookup.maxSize) (hrec : Rec e.lookup.data R) (hpin : PinOK e.lookup R)
    (hsub : ∀ x ∈ k :: R, x ∈ T) (hfit : F → Fits T e.lookup.maxSize) :
    (¬ F ∧ e.entryIndex k = .error .conformance) ∨
    ∃ e1 oid e2 id, e.entryIndex k = .ok (e1, oid) ∧ e1.datatypeTermIndex k = .ok (e2, id) ∧
      Used e e2 k oid R ∧ id ≠ 0 ∧
      ∀ t, AgreeOn (k :: R) e2.lookup.data t →
        Spec.resolveDatatype { t with lastReused := e.lastReused } id
          = .ok ({ t with lastReused := e2.lastReused }, k) := by
  rcases entry_pkg wf hpos hrec hpin hsub hfit with h | ⟨e1, oid, i, heq, wf1, hmax, hlr, hi, hrec1, hpin1, hpres, hmir⟩
  · exact Or.inl h
  right
  obtain ⟨hti, hne, hres⟩ := datatypeTermIndex_sim wf1 (by rw [hmax]; exact hpos) hi
  refine ⟨e1, oid, _, i, heq, hti, Used.of_step hmax hrec1 hpin1 hpres hmir (TermStep.bump wf1 hi i), hne, ?_⟩
  intro t ha
  rw [← hlr]
  exact hres t (ha k i List.mem_cons_self ((Lookup.mem_bump hi).mpr hi))

end Jelly

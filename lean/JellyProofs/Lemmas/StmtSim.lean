import JellyProofs.Lemmas.TermSim
import JellyProofs.Lemmas.RowBracket
/-!
# Statement-level simulation (C03): `encodeTriple`, `encodeQuad`, `Stream.graph` pieces against
# `Spec.step`
-/
namespace Jelly

theorem encSlot_sim {P : Preset} {T : Keys} {enc : TermEnc → Term → Res TermEnc (List Row × WTerm)}
    {inG : Bool} {te : TermEnc} {R : Keys} (inv : TInv P T te R) (prev : Option Term) (t : Term)
    (henc : ∃ te' rows w R', enc te t = (te', .ok (rows, w)) ∧ Sim P T te R te' rows R' ∧
        ∀ ss, AgreeT R' te' ss →
          Spec.resolveTerm inG (setLR ss te) w = .ok (setLR ss te', t.norm)) :
    ∃ te' rows ow R', encSlot enc te prev t = (te', some t, .ok (rows, ow)) ∧
      Sim P T te R te' rows R' ∧
      ∀ ss prevN, prevN = prev.map Term.norm → AgreeT R' te' ss →
        Spec.resolveSlot inG (setLR ss te) prevN ow = .ok (setLR ss te', t.norm) := by
  by_cases hprev : prev = some t
  · refine ⟨te, [], none, R, ?_, Sim.refl inv, ?_⟩
    · simp [encSlot, hprev]
    · intro ss prevN hN _
      subst hN hprev
      simp [Spec.resolveSlot]
  · obtain ⟨te', rows, w, R', heq, hsim, hres⟩ := henc
    refine ⟨te', rows, some w, R', ?_, hsim, ?_⟩
    · have : (prev == some t) = false := by simpa using hprev
      simp only [encSlot, this, heq]
      simp
    · intro ss prevN _ ha
      simp only [Spec.resolveSlot, hres ss ha]

theorem encSlot_sim_gen {F : Prop} {P : Preset} {T : Keys} {enc : TermEnc → Term → Res TermEnc (List Row × WTerm)}
    {inG : Bool} {te : TermEnc} {R : Keys} (inv : TInv P T te R) (prev : Option Term) (t : Term)
    (henc : (¬ F ∧ ∃ te' e, enc te t = (te', .error e)) ∨
      ∃ te' rows w R', enc te t = (te', .ok (rows, w)) ∧ Sim P T te R te' rows R' ∧
        ∀ ss, AgreeT R' te' ss →
          Spec.resolveTerm inG (setLR ss te) w = .ok (setLR ss te', t.norm)) :
    (¬ F ∧ ∃ te' pv e, encSlot enc te prev t = (te', pv, .error e)) ∨
    ∃ te' rows ow R', encSlot enc te prev t = (te', some t, .ok (rows, ow)) ∧
      Sim P T te R te' rows R' ∧
      ∀ ss prevN, prevN = prev.map Term.norm → AgreeT R' te' ss →
        Spec.resolveSlot inG (setLR ss te) prevN ow = .ok (setLR ss te', t.norm) := by
  by_cases hprev : prev = some t
  · right
    refine ⟨te, [], none, R, ?_, Sim.refl inv, ?_⟩
    · simp [encSlot, hprev]
    · intro ss prevN hN _
      subst hN hprev
      simp [Spec.resolveSlot]
  · rcases henc with ⟨hnF, te', e, herr⟩ | henc
    · left
      refine ⟨hnF, te', prev, e, ?_⟩
      have : (prev == some t) = false := by simpa using hprev
      simp only [encSlot, this, herr]
      simp
    · exact Or.inr (encSlot_sim inv prev t henc)

theorem resolveSpo_eq {st a1 a2 a3 : Spec.State} {ws wp wo : Option WTerm} {ts tp to : Term}
    (h1 : Spec.resolveSlot false st st.rep.s ws = .ok (a1, ts))
    (h2 : Spec.resolveSlot false { a1 with rep := { a1.rep with s := some ts } } a1.rep.p wp = .ok (a2, tp))
    (h3 : Spec.resolveSlot false { a2 with rep := { a2.rep with p := some tp } } a2.rep.o wo = .ok (a3, to)) :
    Spec.resolveSpo st ws wp wo = .ok ({ a3 with rep := { a3.rep with o := some to } }, ts, tp, to) := by
  simp only [Spec.resolveSpo, bind, Except.bind, pure, Except.pure, h1, h2, h3]

/-- One of the three subject / predicate / object slots raises. -/
def SpoSlotsErr (te : TermEnc) (rep : Repeated) (s p o : Term) : Prop :=
  (∃ te1 pv e, encSlot TermEnc.spo te rep.s s = (te1, pv, .error e)) ∨
  (∃ te1 rs r1 ws te2 pv e, encSlot TermEnc.spo te rep.s s = (te1, rs, .ok (r1, ws)) ∧
      encSlot TermEnc.spo te1 rep.p p = (te2, pv, .error e)) ∨
  (∃ te1 rs r1 ws te2 rp r2 wp te3 pv e, encSlot TermEnc.spo te rep.s s = (te1, rs, .ok (r1, ws)) ∧
      encSlot TermEnc.spo te1 rep.p p = (te2, rp, .ok (r2, wp)) ∧
      encSlot TermEnc.spo te2 rep.o o = (te3, pv, .error e))


theorem SpoSlotsErr.encodeTriple {es : EncState} {s p o : Term} (hnb : es.te.broken = false)
    (h : SpoSlotsErr es.te.startRow es.rep s p o) (exc : PyErr) :
    ∃ es' e, encodeTriple exc es [s, p, o] = (es', .error e) := by
  rcases h with ⟨te1, pv, e, h1⟩ | ⟨te1, rs, r1, ws, te2, pv, e, h1, h2⟩ |
    ⟨te1, rs, r1, ws, te2, rp, r2, wp, te3, pv, e, h1, h2, h3⟩
  · simp only [encodeTriple_eq hnb, encodeTripleBody, h1]; exact ⟨_, _, rfl⟩
  · simp only [encodeTriple_eq hnb, encodeTripleBody, h1, h2]; exact ⟨_, _, rfl⟩
  · simp only [encodeTriple_eq hnb, encodeTripleBody, h1, h2, h3]; exact ⟨_, _, rfl⟩

theorem SpoSlotsErr.encodeQuad {es : EncState} {s p o g : Term} (hnb : es.te.broken = false)
    (h : SpoSlotsErr es.te.startRow es.rep s p o) (exc : PyErr) :
    ∃ es' e, encodeQuad exc es [s, p, o, g] = (es', .error e) := by
  rcases h with ⟨te1, pv, e, h1⟩ | ⟨te1, rs, r1, ws, te2, pv, e, h1, h2⟩ |
    ⟨te1, rs, r1, ws, te2, rp, r2, wp, te3, pv, e, h1, h2, h3⟩
  · simp only [encodeQuad_eq hnb, encodeQuadBody, h1]; exact ⟨_, _, rfl⟩
  · simp only [encodeQuad_eq hnb, encodeQuadBody, h1, h2]; exact ⟨_, _, rfl⟩
  · simp only [encodeQuad_eq hnb, encodeQuadBody, h1, h2, h3]; exact ⟨_, _, rfl⟩

theorem spoSlots_sim_gen {F : Prop} {P : Preset} {T : Keys} (hpn : 0 < P.maxNames) (hf : F → TFits P T)
    {te : TermEnc} {R : Keys}
    (inv : TInv P T te R) (rep : Repeated) (s p o : Term)
    (hs : s.WF = true) (hp : p.WF = true) (ho : o.WF = true)
    (ks : (termKeys (P.maxPrefixes != 0) s).sub T) (kp : (termKeys (P.maxPrefixes != 0) p).sub T)
    (ko : (termKeys (P.maxPrefixes != 0) o).sub T) :
    (¬ F ∧ SpoSlotsErr te rep s p o) ∨
    ∃ te1 te2 te3 r1 r2 r3 ws wp wo R3,
      encSlot TermEnc.spo te rep.s s = (te1, some s, .ok (r1, ws)) ∧
      encSlot TermEnc.spo te1 rep.p p = (te2, some p, .ok (r2, wp)) ∧
      encSlot TermEnc.spo te2 rep.o o = (te3, some o, .ok (r3, wo)) ∧
      Sim P T te R te3 (r1 ++ r2 ++ r3) R3 ∧
      ∀ ss, AgreeT R3 te3 ss → ss.rep.s = rep.s.map Term.norm → ss.rep.p = rep.p.map Term.norm →
        ss.rep.o = rep.o.map Term.norm →
        Spec.resolveSpo (setLR ss te) ws wp wo
          = .ok (setLR { ss with rep := { ss.rep with s := some s.norm, p := some p.norm, o := some o.norm } } te3,
                 s.norm, p.norm, o.norm) := by
  rcases encSlot_sim_gen inv rep.s s (spo_sim_gen hpn hf s te R hs inv ks) with
    ⟨hnF, te', pv, e, herr⟩ | ⟨te1, r1, ws, R1, e1, s1, res1⟩
  · exact Or.inl ⟨hnF, Or.inl ⟨te', pv, e, herr⟩⟩
  rcases encSlot_sim_gen s1.inv rep.p p (spo_sim_gen hpn hf p te1 R1 hp s1.inv kp) with
    ⟨hnF, te', pv, e, herr⟩ | ⟨te2, r2, wp, R2, e2, s2, res2⟩
  · exact Or.inl ⟨hnF, Or.inr (Or.inl ⟨te1, _, r1, ws, te', pv, e, e1, herr⟩)⟩
  rcases encSlot_sim_gen s2.inv rep.o o (spo_sim_gen hpn hf o te2 R2 ho s2.inv ko) with
    ⟨hnF, te', pv, e, herr⟩ | ⟨te3, r3, wo, R3, e3, s3, res3⟩
  · exact Or.inl ⟨hnF, Or.inr (Or.inr ⟨te1, _, r1, ws, te2, _, r2, wp, te', pv, e, e1, e2, herr⟩)⟩
  right
  refine ⟨te1, te2, te3, r1, r2, r3, ws, wp, wo, R3, e1, e2, e3, (s1.trans s2).trans s3, ?_⟩
  intro ss ha hrs hrp hro
  have ha2 : AgreeT R2 te2 ss := ha.mono s3.pres s3.sub
  have ha1 : AgreeT R1 te1 ss := ha2.mono s2.pres s2.sub
  have q1 := res1 ss ss.rep.s hrs ha1
  have q2 := res2 { ss with rep := { ss.rep with s := some s.norm } } ss.rep.p hrp ha2
  have q3 := res3 { ss with rep := { ss.rep with s := some s.norm, p := some p.norm } } ss.rep.o hro ha
  exact resolveSpo_eq q1 q2 q3

theorem spoSlots_sim {P : Preset} {T : Keys} (hf : TFits P T) {te : TermEnc} {R : Keys}
    (inv : TInv P T te R) (rep : Repeated) (s p o : Term)
    (hs : s.WF = true) (hp : p.WF = true) (ho : o.WF = true)
    (ks : (termKeys (P.maxPrefixes != 0) s).sub T) (kp : (termKeys (P.maxPrefixes != 0) p).sub T)
    (ko : (termKeys (P.maxPrefixes != 0) o).sub T) :
    ∃ te1 te2 te3 r1 r2 r3 ws wp wo R3,
      encSlot TermEnc.spo te rep.s s = (te1, some s, .ok (r1, ws)) ∧
      encSlot TermEnc.spo te1 rep.p p = (te2, some p, .ok (r2, wp)) ∧
      encSlot TermEnc.spo te2 rep.o o = (te3, some o, .ok (r3, wo)) ∧
      Sim P T te R te3 (r1 ++ r2 ++ r3) R3 ∧
      ∀ ss, AgreeT R3 te3 ss → ss.rep.s = rep.s.map Term.norm → ss.rep.p = rep.p.map Term.norm →
        ss.rep.o = rep.o.map Term.norm →
        Spec.resolveSpo (setLR ss te) ws wp wo
          = .ok (setLR { ss with rep := { ss.rep with s := some s.norm, p := some p.norm, o := some o.norm } } te3,
                 s.norm, p.norm, o.norm) := by
  rcases spoSlots_sim_gen (F := True) hf.posn (fun _ => hf) inv rep s p o hs hp ho ks kp ko with ⟨h, _⟩ | h
  · exact absurd trivial h
  · exact h

/-- Writer tables between statements: well-formed, of the declared sizes. -/
structure WFT (P : Preset) (te : TermEnc) : Prop where
  wfn : te.names.lookup.WF
  wfp : te.prefixes.lookup.WF
  wfd : te.datatypes.lookup.WF
  maxn : te.names.lookup.maxSize = P.maxNames
  maxp : te.prefixes.lookup.maxSize = P.maxPrefixes
  maxd : te.datatypes.lookup.maxSize = P.maxDatatypes
  p0 : P.maxPrefixes = 0 → te.prefixes.lastReused = 0

/-- `pinned` is invisible to `WFT`. -/
theorem WFT.startRow {P : Preset} {te : TermEnc} (h : WFT P te) : WFT P te.startRow :=
  ⟨h.wfn.congr rfl rfl rfl, h.wfp.congr rfl rfl rfl, h.wfd.congr rfl rfl rfl, h.maxn, h.maxp, h.maxd, h.p0⟩

/-- The start of a row: `startRow` resets the pins, no key has been touched yet. -/
theorem WFT.tinv {P : Preset} {te : TermEnc} (h : WFT P te) (T : Keys) : TInv P T te.startRow {} :=
  ⟨h.startRow.wfn, h.startRow.wfp, h.startRow.wfd, h.maxn, h.maxp, h.maxd, Rec.nil _, Rec.nil _, Rec.nil _,
   PinOK.nil rfl, PinOK.nil rfl, PinOK.nil rfl,
   ⟨fun _ h => by simp at h, fun _ h => by simp at h, fun _ h => by simp at h⟩, h.p0⟩

/-- `pinned` / `rowOpen` are invisible to `WFT`. -/
theorem WFT.endRow {P : Preset} {te : TermEnc} (h : WFT P te) : WFT P te.endRow :=
  ⟨h.wfn.congr rfl rfl rfl, h.wfp.congr rfl rfl rfl, h.wfd.congr rfl rfl rfl, h.maxn, h.maxp, h.maxd, h.p0⟩

theorem TInv.wft {P : Preset} {T : Keys} {te : TermEnc} {R : Keys} (h : TInv P T te R) : WFT P te :=
  ⟨h.wfn, h.wfp, h.wfd, h.maxn, h.maxp, h.maxd, h.p0⟩

theorem setLR_eq_self {ss : Spec.State} {te : TermEnc}
    (hn : ss.names.lastReused = te.names.lastReused)
    (hp : ss.prefixes.lastReused = te.prefixes.lastReused)
    (hd : ss.datatypes.lastReused = te.datatypes.lastReused) : setLR ss te = ss := by
  simp only [setLR, ← hn, ← hp, ← hd]

theorem EM.setLR {te : TermEnc} {ss : Spec.State} (m : EM te ss) (te' : TermEnc) : EM te (Jelly.setLR ss te') :=
  ⟨⟨m.n.size, m.n.len, m.n.la, m.n.res⟩, ⟨m.p.size, m.p.len, m.p.la, m.p.res⟩,
   ⟨m.d.size, m.d.len, m.d.la, m.d.res⟩⟩

theorem EM.setLR_rep {te : TermEnc} {ss : Spec.State} (m : EM te ss) (te' : TermEnc) (r : Repeated) :
    EM te (Jelly.setLR { ss with rep := r } te') :=
  ⟨⟨m.n.size, m.n.len, m.n.la, m.n.res⟩, ⟨m.p.size, m.p.len, m.p.la, m.p.res⟩,
   ⟨m.d.size, m.d.len, m.d.la, m.d.res⟩⟩

/-- `pinned` is invisible to the mirror. -/
theorem EM.startRow {te : TermEnc} {ss : Spec.State} (m : EM te ss) : EM te.startRow ss :=
  ⟨⟨m.n.size, m.n.len, m.n.la, m.n.res⟩, ⟨m.p.size, m.p.len, m.p.la, m.p.res⟩,
   ⟨m.d.size, m.d.len, m.d.la, m.d.res⟩⟩

/-- `pinned` / `rowOpen` are invisible to the mirror. -/
theorem EM.endRow {te : TermEnc} {ss : Spec.State} (m : EM te ss) : EM te.endRow ss :=
  ⟨⟨m.n.size, m.n.len, m.n.la, m.n.res⟩, ⟨m.p.size, m.p.len, m.p.la, m.p.res⟩,
   ⟨m.d.size, m.d.len, m.d.la, m.d.res⟩⟩

/-- Same entries (everything but `lastReused`). -/
def TblEq (t t' : LookupDec) : Prop :=
  t'.size = t.size ∧ t'.data = t.data ∧ t'.lastAssigned = t.lastAssigned

theorem EMirror.congr {e : LookupEnc} {t t' : LookupDec} (m : EMirror e t) (h : TblEq t t') : EMirror e t' :=
  ⟨by rw [h.1]; exact m.size, by rw [h.2.1]; exact m.len, by rw [h.2.2]; exact m.la,
   fun k i hk => by rw [h.2.1]; exact m.res k i hk⟩

theorem EM.congr {te : TermEnc} {ss ss' : Spec.State} (m : EM te ss) (hn : TblEq ss.names ss'.names)
    (hp : TblEq ss.prefixes ss'.prefixes) (hd : TblEq ss.datatypes ss'.datatypes) : EM te ss' :=
  ⟨m.n.congr hn, m.p.congr hp, m.d.congr hd⟩

theorem EM.agree {P : Preset} {te : TermEnc} {ss : Spec.State} (m : EM te ss) (w : WFT P te) (R : Keys) :
    AgreeT R te ss :=
  ⟨AgreeOn.of_mirror w.wfn m.n _, AgreeOn.of_mirror w.wfp m.p _, AgreeOn.of_mirror w.wfd m.d _⟩

/-- The invariant between statements. -/
structure Inv (P : Preset) (es : EncState) (ss : Spec.State) : Prop where
  wft : WFT P es.te
  em : EM es.te ss
  lrn : ss.names.lastReused = es.te.names.lastReused
  lrp : ss.prefixes.lastReused = es.te.prefixes.lastReused
  lrd : ss.datatypes.lastReused = es.te.datatypes.lastReused
  rs : ss.rep.s = es.rep.s.map Term.norm
  rp : ss.rep.p = es.rep.p.map Term.norm
  ro : ss.rep.o = es.rep.o.map Term.norm
  rg : ss.rep.g = es.rep.g.map Term.norm
  /-- The encoder is not broken: the next row can be started. -/
  nb : es.te.broken = false

/-- What a successful `encodeTriple` guarantees (shared by the general and the sized form). -/
def TripleSimOK (P : Preset) (es : EncState) (ss : Spec.State) (exc : PyErr) (s p o : Term) : Prop :=
    ∃ es' rows ws wp wo ssE ss',
      encodeTriple exc es [s, p, o] = (es', .ok (rows ++ [Row.triple ws wp wo])) ∧
      (∀ rest acc i, Spec.run ss (rows ++ rest) acc i = Spec.run ssE rest acc (i + rows.length)) ∧
      SameFrame ss ssE ∧
      Spec.resolveSpo ssE ws wp wo = .ok (ss', s.norm, p.norm, o.norm) ∧
      Inv P es' ss' ∧ ss'.opts = ss.opts ∧ ss'.graph = ss.graph

theorem encodeTriple_sim_gen {F : Prop} {P : Preset} {T : Keys} (hpn : 0 < P.maxNames) (hf : F → TFits P T)
    {es : EncState} {ss : Spec.State}
    (inv : Inv P es ss) (hopts : ss.opts ≠ none) (exc : PyErr) (s p o : Term)
    (hs : s.WF = true) (hp : p.WF = true) (ho : o.WF = true)
    (ks : (termKeys (P.maxPrefixes != 0) s).sub T) (kp : (termKeys (P.maxPrefixes != 0) p).sub T)
    (ko : (termKeys (P.maxPrefixes != 0) o).sub T) :
    (¬ F ∧ ∃ es' e, encodeTriple exc es [s, p, o] = (es', .error e)) ∨ TripleSimOK P es ss exc s p o := by
  rcases spoSlots_sim_gen hpn hf (inv.wft.tinv T) es.rep s p o hs hp ho ks kp ko with
    ⟨hnF, herr⟩ | ⟨te1, te2, te3, r1, r2, r3, ws, wp, wo, R3, e1, e2, e3, sim, res⟩
  · exact Or.inl ⟨hnF, herr.encodeTriple inv.nb exc⟩
  right
  obtain ⟨ssE, mE, fE, runE⟩ := sim.ing ss inv.em.startRow hopts
  have hself : setLR ssE es.te.startRow = ssE :=
    setLR_eq_self (fE.lrn.trans inv.lrn) (fE.lrp.trans inv.lrp) (fE.lrd.trans inv.lrd)
  have hres := res ssE (mE.agree sim.inv.wft R3) (fE.rep ▸ inv.rs) (fE.rep ▸ inv.rp) (fE.rep ▸ inv.ro)
  rw [hself] at hres
  refine ⟨{ te := te3.endRow, rep := { es.rep with s := some s, p := some p, o := some o } },
    r1 ++ r2 ++ r3, ws, wp, wo, ssE, _, ?_, runE, fE, hres, ?_, fE.opts, fE.graph⟩
  · simp only [encodeTriple_eq inv.nb, encodeTripleBody, e1, e2, e3]
  · exact ⟨sim.inv.wft.endRow, (mE.setLR_rep te3 _).endRow, rfl, rfl, rfl, rfl, rfl, rfl, by
      show ssE.rep.g = es.rep.g.map Term.norm
      rw [fE.rep]; exact inv.rg, rfl⟩

theorem encodeTriple_sim {P : Preset} {T : Keys} (hf : TFits P T) {es : EncState} {ss : Spec.State}
    (inv : Inv P es ss) (hopts : ss.opts ≠ none) (exc : PyErr) (s p o : Term)
    (hs : s.WF = true) (hp : p.WF = true) (ho : o.WF = true)
    (ks : (termKeys (P.maxPrefixes != 0) s).sub T) (kp : (termKeys (P.maxPrefixes != 0) p).sub T)
    (ko : (termKeys (P.maxPrefixes != 0) o).sub T) :
    ∃ es' rows ws wp wo ssE ss',
      encodeTriple exc es [s, p, o] = (es', .ok (rows ++ [Row.triple ws wp wo])) ∧
      (∀ rest acc i, Spec.run ss (rows ++ rest) acc i = Spec.run ssE rest acc (i + rows.length)) ∧
      SameFrame ss ssE ∧
      Spec.resolveSpo ssE ws wp wo = .ok (ss', s.norm, p.norm, o.norm) ∧
      Inv P es' ss' ∧ ss'.opts = ss.opts ∧ ss'.graph = ss.graph := by
  rcases encodeTriple_sim_gen (F := True) hf.posn (fun _ => hf) inv hopts exc s p o hs hp ho ks kp ko with
    ⟨h, _⟩ | h
  · exact absurd trivial h
  · exact h

def QuadSimOK (P : Preset) (es : EncState) (ss : Spec.State) (exc : PyErr) (s p o g : Term) : Prop :=
    ∃ es' rows ws wp wo wg ssE ss1 ss',
      encodeQuad exc es [s, p, o, g] = (es', .ok (rows ++ [Row.quad ws wp wo wg])) ∧
      (∀ rest acc i, Spec.run ss (rows ++ rest) acc i = Spec.run ssE rest acc (i + rows.length)) ∧
      SameFrame ss ssE ∧
      Spec.resolveSpo ssE ws wp wo = .ok (ss1, s.norm, p.norm, o.norm) ∧
      Spec.resolveSlot true ss1 ss1.rep.g wg = .ok (ss', g.norm) ∧
      Inv P es' { ss' with rep := { ss'.rep with g := some g.norm } } ∧
      ss'.opts = ss.opts ∧ ss'.graph = ss.graph

theorem encodeQuad_sim_gen {F : Prop} {P : Preset} {T : Keys} (hpn : 0 < P.maxNames) (hf : F → TFits P T)
    {es : EncState} {ss : Spec.State}
    (inv : Inv P es ss) (hopts : ss.opts ≠ none) (exc : PyErr) (s p o g : Term)
    (hs : s.WF = true) (hp : p.WF = true) (ho : o.WF = true) (hg : g.WFGraph = true)
    (ks : (termKeys (P.maxPrefixes != 0) s).sub T) (kp : (termKeys (P.maxPrefixes != 0) p).sub T)
    (ko : (termKeys (P.maxPrefixes != 0) o).sub T) (kg : (termKeys (P.maxPrefixes != 0) g).sub T) :
    (¬ F ∧ ∃ es' e, encodeQuad exc es [s, p, o, g] = (es', .error e)) ∨ QuadSimOK P es ss exc s p o g := by
  rcases spoSlots_sim_gen hpn hf (inv.wft.tinv T) es.rep s p o hs hp ho ks kp ko with
    ⟨hnF, herr⟩ | ⟨te1, te2, te3, r1, r2, r3, ws, wp, wo, R3, e1, e2, e3, sim3, res⟩
  · exact Or.inl ⟨hnF, herr.encodeQuad inv.nb exc⟩
  rcases encSlot_sim_gen sim3.inv es.rep.g g (graph_sim_gen hpn hf g te3 R3 hg sim3.inv kg) with
    ⟨hnF, te', pv, e, herr⟩ | ⟨te4, r4, wg, R4, e4, s4, res4⟩
  · refine Or.inl ⟨hnF, ?_⟩
    simp only [encodeQuad_eq inv.nb, encodeQuadBody, e1, e2, e3, herr]
    exact ⟨_, _, rfl⟩
  right
  have sim := sim3.trans s4
  obtain ⟨ssE, mE, fE, runE⟩ := sim.ing ss inv.em.startRow hopts
  have hself : setLR ssE es.te.startRow = ssE :=
    setLR_eq_self (fE.lrn.trans inv.lrn) (fE.lrp.trans inv.lrp) (fE.lrd.trans inv.lrd)
  have ha4 : AgreeT R4 te4 ssE := mE.agree sim.inv.wft R4
  have ha3 : AgreeT R3 te3 ssE := ha4.mono s4.pres s4.sub
  have hres := res ssE ha3 (fE.rep ▸ inv.rs) (fE.rep ▸ inv.rp) (fE.rep ▸ inv.ro)
  rw [hself] at hres
  have hres4 := res4 { ssE with rep := { ssE.rep with s := some s.norm, p := some p.norm, o := some o.norm } }
    ssE.rep.g (by rw [fE.rep]; exact inv.rg) ha4
  refine ⟨{ te := te4.endRow, rep := { s := some s, p := some p, o := some o, g := some g } },
    r1 ++ r2 ++ r3 ++ r4, ws, wp, wo, wg, ssE, _, _, ?_, runE, fE, hres, hres4, ?_, fE.opts, fE.graph⟩
  · simp only [encodeQuad_eq inv.nb, encodeQuadBody, e1, e2, e3, e4]
  · exact ⟨sim.inv.wft.endRow, EM.endRow (te := te4) (mE.congr ⟨rfl, rfl, rfl⟩ ⟨rfl, rfl, rfl⟩ ⟨rfl, rfl, rfl⟩),
      rfl, rfl, rfl, rfl, rfl, rfl, rfl, rfl⟩

theorem encodeQuad_sim {P : Preset} {T : Keys} (hf : TFits P T) {es : EncState} {ss : Spec.State}
    (inv : Inv P es ss) (hopts : ss.opts ≠ none) (exc : PyErr) (s p o g : Term)
    (hs : s.WF = true) (hp : p.WF = true) (ho : o.WF = true) (hg : g.WFGraph = true)
    (ks : (termKeys (P.maxPrefixes != 0) s).sub T) (kp : (termKeys (P.maxPrefixes != 0) p).sub T)
    (ko : (termKeys (P.maxPrefixes != 0) o).sub T) (kg : (termKeys (P.maxPrefixes != 0) g).sub T) :
    ∃ es' rows ws wp wo wg ssE ss1 ss',
      encodeQuad exc es [s, p, o, g] = (es', .ok (rows ++ [Row.quad ws wp wo wg])) ∧
      (∀ rest acc i, Spec.run ss (rows ++ rest) acc i = Spec.run ssE rest acc (i + rows.length)) ∧
      SameFrame ss ssE ∧
      Spec.resolveSpo ssE ws wp wo = .ok (ss1, s.norm, p.norm, o.norm) ∧
      Spec.resolveSlot true ss1 ss1.rep.g wg = .ok (ss', g.norm) ∧
      Inv P es' { ss' with rep := { ss'.rep with g := some g.norm } } ∧
      ss'.opts = ss.opts ∧ ss'.graph = ss.graph := by
  rcases encodeQuad_sim_gen (F := True) hf.posn (fun _ => hf) inv hopts exc s p o g hs hp ho hg ks kp ko kg with
    ⟨h, _⟩ | h
  · exact absurd trivial h
  · exact h

def GraphStartSimOK (P : Preset) (es : EncState) (ss : Spec.State) (g : Term) : Prop :=
    ∃ te' rows w ssE ss',
      es.te.startRow.graph g = (te', .ok (rows, w)) ∧
      (∀ rest acc i, Spec.run ss (rows ++ rest) acc i = Spec.run ssE rest acc (i + rows.length)) ∧
      SameFrame ss ssE ∧
      Spec.resolveTerm true ssE w = .ok (ss', g.norm) ∧
      (∀ x, Inv P { es with te := te'.endRow } { ss' with graph := x }) ∧ ss'.opts = ss.opts

/-- The graph-start part of `Stream.graph`. -/
theorem graphStart_sim_gen {F : Prop} {P : Preset} {T : Keys} (hpn : 0 < P.maxNames) (hf : F → TFits P T)
    {es : EncState} {ss : Spec.State}
    (inv : Inv P es ss) (hopts : ss.opts ≠ none) (g : Term) (hg : g.WFGraph = true)
    (kg : (termKeys (P.maxPrefixes != 0) g).sub T) :
    (¬ F ∧ ∃ te' e, es.te.startRow.graph g = (te', .error e)) ∨ GraphStartSimOK P es ss g := by
  rcases graph_sim_gen hpn hf g es.te.startRow {} hg (inv.wft.tinv T) kg with
    h | ⟨te', rows, w, R', heq, sim, res⟩
  · exact Or.inl h
  right
  obtain ⟨ssE, mE, fE, runE⟩ := sim.ing ss inv.em.startRow hopts
  have hself : setLR ssE es.te.startRow = ssE :=
    setLR_eq_self (fE.lrn.trans inv.lrn) (fE.lrp.trans inv.lrp) (fE.lrd.trans inv.lrd)
  have hres := res ssE (mE.agree sim.inv.wft R')
  rw [hself] at hres
  refine ⟨te', rows, w, ssE, _, heq, runE, fE, hres, ?_, fE.opts⟩
  intro x
  exact ⟨sim.inv.wft.endRow, EM.endRow (te := te') (mE.congr ⟨rfl, rfl, rfl⟩ ⟨rfl, rfl, rfl⟩ ⟨rfl, rfl, rfl⟩), rfl, rfl, rfl,
    by show ssE.rep.s = _; rw [fE.rep]; exact inv.rs,
    by show ssE.rep.p = _; rw [fE.rep]; exact inv.rp,
    by show ssE.rep.o = _; rw [fE.rep]; exact inv.ro,
    by show ssE.rep.g = _; rw [fE.rep]; exact inv.rg, rfl⟩

theorem graphStart_sim {P : Preset} {T : Keys} (hf : TFits P T) {es : EncState} {ss : Spec.State}
    (inv : Inv P es ss) (hopts : ss.opts ≠ none) (g : Term) (hg : g.WFGraph = true)
    (kg : (termKeys (P.maxPrefixes != 0) g).sub T) :
    ∃ te' rows w ssE ss',
      es.te.startRow.graph g = (te', .ok (rows, w)) ∧
      (∀ rest acc i, Spec.run ss (rows ++ rest) acc i = Spec.run ssE rest acc (i + rows.length)) ∧
      SameFrame ss ssE ∧
      Spec.resolveTerm true ssE w = .ok (ss', g.norm) ∧
      (∀ x, Inv P { es with te := te'.endRow } { ss' with graph := x }) ∧ ss'.opts = ss.opts := by
  rcases graphStart_sim_gen (F := True) hf.posn (fun _ => hf) inv hopts g hg kg with ⟨h, _⟩ | h
  · exact absurd trivial h
  · exact h

theorem Inv.graph {P : Preset} {es : EncState} {ss : Spec.State} (inv : Inv P es ss) (x : Option Term) :
    Inv P es { ss with graph := x } :=
  ⟨inv.wft, inv.em.congr ⟨rfl, rfl, rfl⟩ ⟨rfl, rfl, rfl⟩ ⟨rfl, rfl, rfl⟩,
    inv.lrn, inv.lrp, inv.lrd, inv.rs, inv.rp, inv.ro, inv.rg, inv.nb⟩


/-! ## From `stmtFits` to the abstract sizing hypothesis -/

def stmtKeys (P : Preset) (terms : List Term) : Keys :=
  { n := (terms.flatMap Term.iris).map (nameKey (P.maxPrefixes != 0)),
    p := (terms.flatMap Term.iris).map prefixKey,
    d := terms.flatMap Term.dts }

theorem termKeys_sub_stmtKeys {P : Preset} {terms : List Term} {t : Term} (ht : t ∈ terms) :
    (termKeys (P.maxPrefixes != 0) t).sub (stmtKeys P terms) := by
  refine ⟨?_, ?_, ?_⟩
  · intro k hk
    obtain ⟨i, hi, rfl⟩ := List.mem_map.mp hk
    exact List.mem_map.mpr ⟨i, List.mem_flatMap.mpr ⟨t, ht, hi⟩, rfl⟩
  · intro k hk
    obtain ⟨i, hi, rfl⟩ := List.mem_map.mp hk
    exact List.mem_map.mpr ⟨i, List.mem_flatMap.mpr ⟨t, ht, hi⟩, rfl⟩
  · intro k hk
    exact List.mem_flatMap.mpr ⟨t, ht, hk⟩

theorem TFits.of_stmtFits {P : Preset} {terms : List Term} (hv : P.valid = true)
    (h : stmtFits P terms = true) : TFits P (stmtKeys P terms) := by
  have hposn : 0 < P.maxNames := by
    have : P.maxNames ≥ 8 := by simpa [Preset.valid, MIN_NAME_LOOKUP_SIZE] using hv
    omega
  simp only [stmtFits, Bool.and_eq_true, Bool.or_eq_true] at h
  obtain ⟨h1, h2⟩ := h
  refine ⟨hposn, ?_, ?_, ?_, ?_⟩
  · by_cases hp : P.maxPrefixes = 0
    · have hb : (P.maxPrefixes == 0) = true := by simp [hp]
      simp only [hb, if_true, decide_eq_true_eq] at h1
      apply Fits.of_eraseDups
      have hid : nameKey false = id := by funext i; simp [nameKey]
      have : (stmtKeys P terms).n = terms.flatMap Term.iris := by
        simp [stmtKeys, hp, hid]
      rw [this]; exact h1
    · have hb : (P.maxPrefixes == 0) = false := by simp [hp]
      simp only [hb, Bool.false_eq_true, if_false, Bool.and_eq_true, decide_eq_true_eq] at h1
      apply Fits.of_eraseDups
      have hid : nameKey true = fun i => (splitIri i).2 := by funext i; simp [nameKey]
      have hpb : (P.maxPrefixes != 0) = true := by simp [hp]
      have : (stmtKeys P terms).n = (terms.flatMap Term.iris).map (fun i => (splitIri i).2) := by
        simp only [stmtKeys, hpb, hid]
      rw [this]; exact h1.2
  · intro hpos
    have hb : (P.maxPrefixes == 0) = false := by simp; omega
    simp only [hb, Bool.false_eq_true, if_false, Bool.and_eq_true, decide_eq_true_eq] at h1
    apply Fits.of_eraseDups
    exact h1.1
  · rcases h2 with h2 | h2
    · have : (stmtKeys P terms).d = [] := by simpa [stmtKeys] using h2
      intro l _ hsub
      rw [this] at hsub
      cases l with
      | nil => simp
      | cons a _ => exact absurd (hsub a List.mem_cons_self) (by simp)
    · simp only [decide_eq_true_eq] at h2
      exact Fits.of_eraseDups h2.2
  · intro hne
    rcases h2 with h2 | h2
    · exfalso; apply hne; simpa [stmtKeys] using h2
    · have := h2.1
      simp only [bne_iff_ne, ne_eq] at this
      omega


/-! ## Run-level statements -/

def TripleRun1OK (P : Preset) (es : EncState) (ss : Spec.State) (o : Options) (exc : PyErr) (s p ob : Term) : Prop :=
    ∃ es' rows ss', encodeTriple exc es [s, p, ob] = (es', .ok rows) ∧ Inv P es' ss' ∧
      ss'.opts = some o ∧ ss'.graph = ss.graph ∧
      ∀ rest acc i, Spec.run ss (rows ++ rest) acc i
        = Spec.run ss' rest (acc ++ [Event.stmt [s.norm, p.norm, ob.norm]]) (i + rows.length)

theorem TripleSimOK.run1 {P : Preset} {es : EncState} {ss : Spec.State} {exc : PyErr} {s p ob : Term}
    (h : TripleSimOK P es ss exc s p ob) {o : Options} (hopt : ss.opts = some o) (h1 : o.physicalType = 1) :
    TripleRun1OK P es ss o exc s p ob := by
  obtain ⟨es', rows, ws, wp, wo, ssE, ss', heq, hrun, fE, hres, inv', ho', hg'⟩ := h
  refine ⟨es', _, ss', heq, inv', ho'.trans hopt, hg', ?_⟩
  intro rest acc i
  have hoE : ssE.opts = some o := fE.opts.trans hopt
  have h1b : (o.physicalType == 1) = true := by simp [h1]
  have hstep : Spec.step ssE (Row.triple ws wp wo)
      = .ok (ss', some (Event.stmt [s.norm, p.norm, ob.norm])) := by
    simp only [Spec.step, hoE, h1b, if_true, hres, bind, Except.bind, pure, Except.pure]
  rw [List.append_assoc, hrun, List.singleton_append, run_cons_ok hstep]
  simp only [Option.toList, List.length_append, List.length_cons, List.length_nil, Nat.add_assoc]

theorem triple_run1_gen {F : Prop} {P : Preset} {T : Keys} (hpn : 0 < P.maxNames) (hf : F → TFits P T)
    {es : EncState} {ss : Spec.State}
    (inv : Inv P es ss) {o : Options} (hopt : ss.opts = some o) (h1 : o.physicalType = 1)
    (exc : PyErr) (s p ob : Term)
    (hs : s.WF = true) (hp : p.WF = true) (hob : ob.WF = true)
    (ks : (termKeys (P.maxPrefixes != 0) s).sub T) (kp : (termKeys (P.maxPrefixes != 0) p).sub T)
    (ko : (termKeys (P.maxPrefixes != 0) ob).sub T) :
    (¬ F ∧ ∃ es' e, encodeTriple exc es [s, p, ob] = (es', .error e)) ∨ TripleRun1OK P es ss o exc s p ob := by
  rcases encodeTriple_sim_gen hpn hf inv (by rw [hopt]; simp) exc s p ob hs hp hob ks kp ko with h | h
  · exact Or.inl h
  · exact Or.inr (h.run1 hopt h1)

theorem triple_run1 {P : Preset} {T : Keys} (hf : TFits P T) {es : EncState} {ss : Spec.State}
    (inv : Inv P es ss) {o : Options} (hopt : ss.opts = some o) (h1 : o.physicalType = 1)
    (exc : PyErr) (s p ob : Term)
    (hs : s.WF = true) (hp : p.WF = true) (hob : ob.WF = true)
    (ks : (termKeys (P.maxPrefixes != 0) s).sub T) (kp : (termKeys (P.maxPrefixes != 0) p).sub T)
    (ko : (termKeys (P.maxPrefixes != 0) ob).sub T) :
    ∃ es' rows ss', encodeTriple exc es [s, p, ob] = (es', .ok rows) ∧ Inv P es' ss' ∧
      ss'.opts = some o ∧ ss'.graph = ss.graph ∧
      ∀ rest acc i, Spec.run ss (rows ++ rest) acc i
        = Spec.run ss' rest (acc ++ [Event.stmt [s.norm, p.norm, ob.norm]]) (i + rows.length) := by
  rcases triple_run1_gen (F := True) hf.posn (fun _ => hf) inv hopt h1 exc s p ob hs hp hob ks kp ko with
    ⟨h, _⟩ | h
  · exact absurd trivial h
  · exact h

def TripleRun3OK (P : Preset) (es : EncState) (ss : Spec.State) (o : Options) (gn : Term) (exc : PyErr)
    (s p ob : Term) : Prop :=
    ∃ es' rows ss', encodeTriple exc es [s, p, ob] = (es', .ok rows) ∧ Inv P es' ss' ∧
      ss'.opts = some o ∧ ss'.graph = some gn ∧
      ∀ rest acc i, Spec.run ss (rows ++ rest) acc i
        = Spec.run ss' rest (acc ++ [Event.stmt [s.norm, p.norm, ob.norm, gn]]) (i + rows.length)

theorem TripleSimOK.run3 {P : Preset} {es : EncState} {ss : Spec.State} {exc : PyErr} {s p ob : Term}
    (h : TripleSimOK P es ss exc s p ob) {o : Options} (hopt : ss.opts = some o) (h3 : o.physicalType = 3)
    {gn : Term} (hgr : ss.graph = some gn) :
    TripleRun3OK P es ss o gn exc s p ob := by
  obtain ⟨es', rows, ws, wp, wo, ssE, ss', heq, hrun, fE, hres, inv', ho', hg'⟩ := h
  refine ⟨es', _, ss', heq, inv', ho'.trans hopt, hg'.trans hgr, ?_⟩
  intro rest acc i
  have hoE : ssE.opts = some o := fE.opts.trans hopt
  have hgE : ssE.graph = some gn := fE.graph.trans hgr
  have h1b : (o.physicalType == 1) = false := by simp [h3]
  have h3b : (o.physicalType == 3) = true := by simp [h3]
  have hstep : Spec.step ssE (Row.triple ws wp wo)
      = .ok (ss', some (Event.stmt [s.norm, p.norm, ob.norm, gn])) := by
    simp only [Spec.step, hoE, h1b, h3b, if_true, hgE, hres, bind, Except.bind, pure, Except.pure]
    simp
  rw [List.append_assoc, hrun, List.singleton_append, run_cons_ok hstep]
  simp only [Option.toList, List.length_append, List.length_cons, List.length_nil, Nat.add_assoc]

theorem triple_run3_gen {F : Prop} {P : Preset} {T : Keys} (hpn : 0 < P.maxNames) (hf : F → TFits P T)
    {es : EncState} {ss : Spec.State}
    (inv : Inv P es ss) {o : Options} (hopt : ss.opts = some o) (h3 : o.physicalType = 3)
    {gn : Term} (hgr : ss.graph = some gn)
    (exc : PyErr) (s p ob : Term)
    (hs : s.WF = true) (hp : p.WF = true) (hob : ob.WF = true)
    (ks : (termKeys (P.maxPrefixes != 0) s).sub T) (kp : (termKeys (P.maxPrefixes != 0) p).sub T)
    (ko : (termKeys (P.maxPrefixes != 0) ob).sub T) :
    (¬ F ∧ ∃ es' e, encodeTriple exc es [s, p, ob] = (es', .error e)) ∨
      TripleRun3OK P es ss o gn exc s p ob := by
  rcases encodeTriple_sim_gen hpn hf inv (by rw [hopt]; simp) exc s p ob hs hp hob ks kp ko with h | h
  · exact Or.inl h
  · exact Or.inr (h.run3 hopt h3 hgr)

theorem triple_run3 {P : Preset} {T : Keys} (hf : TFits P T) {es : EncState} {ss : Spec.State}
    (inv : Inv P es ss) {o : Options} (hopt : ss.opts = some o) (h3 : o.physicalType = 3)
    {gn : Term} (hgr : ss.graph = some gn)
    (exc : PyErr) (s p ob : Term)
    (hs : s.WF = true) (hp : p.WF = true) (hob : ob.WF = true)
    (ks : (termKeys (P.maxPrefixes != 0) s).sub T) (kp : (termKeys (P.maxPrefixes != 0) p).sub T)
    (ko : (termKeys (P.maxPrefixes != 0) ob).sub T) :
    ∃ es' rows ss', encodeTriple exc es [s, p, ob] = (es', .ok rows) ∧ Inv P es' ss' ∧
      ss'.opts = some o ∧ ss'.graph = some gn ∧
      ∀ rest acc i, Spec.run ss (rows ++ rest) acc i
        = Spec.run ss' rest (acc ++ [Event.stmt [s.norm, p.norm, ob.norm, gn]]) (i + rows.length) := by
  rcases triple_run3_gen (F := True) hf.posn (fun _ => hf) inv hopt h3 hgr exc s p ob hs hp hob ks kp ko with
    ⟨h, _⟩ | h
  · exact absurd trivial h
  · exact h

def QuadRunOK (P : Preset) (es : EncState) (ss : Spec.State) (o : Options) (exc : PyErr)
    (s p ob g : Term) : Prop :=
    ∃ es' rows ss', encodeQuad exc es [s, p, ob, g] = (es', .ok rows) ∧ Inv P es' ss' ∧
      ss'.opts = some o ∧ ss'.graph = ss.graph ∧
      ∀ rest acc i, Spec.run ss (rows ++ rest) acc i
        = Spec.run ss' rest (acc ++ [Event.stmt [s.norm, p.norm, ob.norm, g.norm]]) (i + rows.length)

theorem QuadSimOK.run {P : Preset} {es : EncState} {ss : Spec.State} {exc : PyErr} {s p ob g : Term}
    (h : QuadSimOK P es ss exc s p ob g) {o : Options} (hopt : ss.opts = some o) (h2 : o.physicalType = 2) :
    QuadRunOK P es ss o exc s p ob g := by
  obtain ⟨es', rows, ws, wp, wo, wg, ssE, ss1, ss', heq, hrun, fE, hres, hres4, inv', ho', hg'⟩ := h
  refine ⟨es', _, _, heq, inv', ho'.trans hopt, hg', ?_⟩
  intro rest acc i
  have hoE : ssE.opts = some o := fE.opts.trans hopt
  have h2b : (o.physicalType == 2) = true := by simp [h2]
  have hstep : Spec.step ssE (Row.quad ws wp wo wg)
      = .ok ({ ss' with rep := { ss'.rep with g := some g.norm } },
             some (Event.stmt [s.norm, p.norm, ob.norm, g.norm])) := by
    simp only [Spec.step, hoE, h2b, if_true, hres, hres4, bind, Except.bind, pure, Except.pure]
  rw [List.append_assoc, hrun, List.singleton_append, run_cons_ok hstep]
  simp only [Option.toList, List.length_append, List.length_cons, List.length_nil, Nat.add_assoc]

theorem quad_run_gen {F : Prop} {P : Preset} {T : Keys} (hpn : 0 < P.maxNames) (hf : F → TFits P T)
    {es : EncState} {ss : Spec.State}
    (inv : Inv P es ss) {o : Options} (hopt : ss.opts = some o) (h2 : o.physicalType = 2)
    (exc : PyErr) (s p ob g : Term)
    (hs : s.WF = true) (hp : p.WF = true) (hob : ob.WF = true) (hg : g.WFGraph = true)
    (ks : (termKeys (P.maxPrefixes != 0) s).sub T) (kp : (termKeys (P.maxPrefixes != 0) p).sub T)
    (ko : (termKeys (P.maxPrefixes != 0) ob).sub T) (kg : (termKeys (P.maxPrefixes != 0) g).sub T) :
    (¬ F ∧ ∃ es' e, encodeQuad exc es [s, p, ob, g] = (es', .error e)) ∨ QuadRunOK P es ss o exc s p ob g := by
  rcases encodeQuad_sim_gen hpn hf inv (by rw [hopt]; simp) exc s p ob g hs hp hob hg ks kp ko kg with h | h
  · exact Or.inl h
  · exact Or.inr (h.run hopt h2)

theorem quad_run {P : Preset} {T : Keys} (hf : TFits P T) {es : EncState} {ss : Spec.State}
    (inv : Inv P es ss) {o : Options} (hopt : ss.opts = some o) (h2 : o.physicalType = 2)
    (exc : PyErr) (s p ob g : Term)
    (hs : s.WF = true) (hp : p.WF = true) (hob : ob.WF = true) (hg : g.WFGraph = true)
    (ks : (termKeys (P.maxPrefixes != 0) s).sub T) (kp : (termKeys (P.maxPrefixes != 0) p).sub T)
    (ko : (termKeys (P.maxPrefixes != 0) ob).sub T) (kg : (termKeys (P.maxPrefixes != 0) g).sub T) :
    ∃ es' rows ss', encodeQuad exc es [s, p, ob, g] = (es', .ok rows) ∧ Inv P es' ss' ∧
      ss'.opts = some o ∧ ss'.graph = ss.graph ∧
      ∀ rest acc i, Spec.run ss (rows ++ rest) acc i
        = Spec.run ss' rest (acc ++ [Event.stmt [s.norm, p.norm, ob.norm, g.norm]]) (i + rows.length) := by
  rcases quad_run_gen (F := True) hf.posn (fun _ => hf) inv hopt h2 exc s p ob g hs hp hob hg ks kp ko kg with
    ⟨h, _⟩ | h
  · exact absurd trivial h
  · exact h

def GraphStartRunOK (P : Preset) (es : EncState) (ss : Spec.State) (o : Options) (g : Term) : Prop :=
    ∃ te' rows w ss', es.te.startRow.graph g = (te', .ok (rows, w)) ∧ Inv P { es with te := te'.endRow } ss' ∧
      ss'.opts = some o ∧ ss'.graph = some g.norm ∧
      ∀ rest acc i, Spec.run ss (rows ++ [Row.graphStart (some w)] ++ rest) acc i
        = Spec.run ss' rest acc (i + (rows ++ [Row.graphStart (some w)]).length)

theorem GraphStartSimOK.run {P : Preset} {es : EncState} {ss : Spec.State} {g : Term}
    (h : GraphStartSimOK P es ss g) {o : Options} (hopt : ss.opts = some o) (h3 : o.physicalType = 3) :
    GraphStartRunOK P es ss o g := by
  obtain ⟨te', rows, w, ssE, ss', heq, hrun, fE, hres, inv', ho'⟩ := h
  refine ⟨te', rows, w, { ss' with graph := some g.norm }, heq, inv' _, ho'.trans hopt, rfl, ?_⟩
  intro rest acc i
  have hoE : ssE.opts = some o := fE.opts.trans hopt
  have h3b : (o.physicalType == 3) = true := by simp [h3]
  have hstep : Spec.step ssE (Row.graphStart (some w))
      = .ok ({ ss' with graph := some g.norm }, none) := by
    simp only [Spec.step, hoE, h3b, if_true, hres, bind, Except.bind, pure, Except.pure]
  rw [List.append_assoc, hrun, List.singleton_append, run_cons_ok hstep]
  simp only [Option.toList, List.append_nil, List.length_append, List.length_cons, List.length_nil,
    Nat.add_assoc]

theorem graphStart_run_gen {F : Prop} {P : Preset} {T : Keys} (hpn : 0 < P.maxNames) (hf : F → TFits P T)
    {es : EncState} {ss : Spec.State}
    (inv : Inv P es ss) {o : Options} (hopt : ss.opts = some o) (h3 : o.physicalType = 3)
    (g : Term) (hg : g.WFGraph = true) (kg : (termKeys (P.maxPrefixes != 0) g).sub T) :
    (¬ F ∧ ∃ te' e, es.te.startRow.graph g = (te', .error e)) ∨ GraphStartRunOK P es ss o g := by
  rcases graphStart_sim_gen hpn hf inv (by rw [hopt]; simp) g hg kg with h | h
  · exact Or.inl h
  · exact Or.inr (h.run hopt h3)

theorem graphStart_run {P : Preset} {T : Keys} (hf : TFits P T) {es : EncState} {ss : Spec.State}
    (inv : Inv P es ss) {o : Options} (hopt : ss.opts = some o) (h3 : o.physicalType = 3)
    (g : Term) (hg : g.WFGraph = true) (kg : (termKeys (P.maxPrefixes != 0) g).sub T) :
    ∃ te' rows w ss', es.te.startRow.graph g = (te', .ok (rows, w)) ∧ Inv P { es with te := te'.endRow } ss' ∧
      ss'.opts = some o ∧ ss'.graph = some g.norm ∧
      ∀ rest acc i, Spec.run ss (rows ++ [Row.graphStart (some w)] ++ rest) acc i
        = Spec.run ss' rest acc (i + (rows ++ [Row.graphStart (some w)]).length) := by
  rcases graphStart_run_gen (F := True) hf.posn (fun _ => hf) inv hopt h3 g hg kg with ⟨h, _⟩ | h
  · exact absurd trivial h
  · exact h

theorem graphEnd_run {P : Preset} {es : EncState} {ss : Spec.State}
    (inv : Inv P es ss) {o : Options} (hopt : ss.opts = some o) (h3 : o.physicalType = 3)
    {gn : Term} (hgr : ss.graph = some gn) :
    ∃ ss', Inv P es ss' ∧ ss'.opts = some o ∧ ss'.graph = none ∧
      ∀ rest acc i, Spec.run ss (Row.graphEnd :: rest) acc i = Spec.run ss' rest acc (i + 1) := by
  refine ⟨{ ss with graph := none }, inv.graph none, hopt, rfl, ?_⟩
  intro rest acc i
  have h3b : (o.physicalType == 3) = true := by simp [h3]
  have hstep : Spec.step ss Row.graphEnd = .ok ({ ss with graph := none }, none) := by
    simp only [Spec.step, hopt, h3b, if_true, hgr]
  rw [run_cons_ok hstep]
  simp only [Option.toList, List.append_nil]


end Jelly

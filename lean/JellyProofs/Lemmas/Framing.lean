import JellyModel.Parse
import JellyProofs.Lemmas.RowBracket
/-!
# Framing lemmas (used by C07)

* `decodeRows` : accumulator factoring, splitting over `++`.
* `decodeFrames` : frame-by-frame decoding is decoding of the concatenated rows.
* `sinkOfEvents` : the store of the sink is the statement events, in order.
* `Stream.Same` : "same class, same flow kind, same enrolment" is preserved by every writer step
  (`pushRows`, `namespaceDeclaration`, `nsDeclarations`, `Stream.triple`, `Stream.quad`, `stmtLoop`,
  `epilogue`).
* with a flow kind that is not bounded, `stmtLoop` yields no frame and leaves a non-empty flow.
-/
namespace Jelly

/-! ## `decodeRows` -/

/-- The accumulator of `decodeRows` can be factored out. -/
theorem decodeRows_acc (q : Bool) (d : DecState) (rows : List Row) (acc : List Event) :
    d.decodeRows q rows acc =
      ((d.decodeRows q rows []).1, acc ++ (d.decodeRows q rows []).2.1, (d.decodeRows q rows []).2.2) := by
  induction rows generalizing d acc with
  | nil => simp [DecState.decodeRows]
  | cons r rs ih =>
    simp only [DecState.decodeRows]
    cases h : d.decodeRow q r with
    | error e => simp
    | ok p =>
      obtain ⟨d', ev⟩ := p
      simp only []
      rw [ih d' (acc ++ ev.toList), ih d' ([] ++ ev.toList)]
      simp [List.append_assoc]

theorem decodeRows_acc_fst (q : Bool) (d : DecState) (rows : List Row) (acc : List Event) :
    (d.decodeRows q rows acc).1 = (d.decodeRows q rows []).1 := by
  rw [decodeRows_acc]

theorem decodeRows_acc_events (q : Bool) (d : DecState) (rows : List Row) (acc : List Event) :
    (d.decodeRows q rows acc).2.1 = acc ++ (d.decodeRows q rows []).2.1 := by
  rw [decodeRows_acc]

theorem decodeRows_acc_err (q : Bool) (d : DecState) (rows : List Row) (acc : List Event) :
    (d.decodeRows q rows acc).2.2 = (d.decodeRows q rows []).2.2 := by
  rw [decodeRows_acc]

/-- Splitting: if the first part ends without error, continue from its final state with its
    events as accumulator; if it fails, the whole fails with the same state, events and error. -/
theorem decodeRows_append_fr (q : Bool) (d : DecState) (rows₁ rows₂ : List Row) (acc : List Event) :
    d.decodeRows q (rows₁ ++ rows₂) acc =
      match d.decodeRows q rows₁ acc with
      | (d', evs, none) => d'.decodeRows q rows₂ evs
      | (d', evs, some e) => (d', evs, some e) := by
  induction rows₁ generalizing d acc with
  | nil => simp [DecState.decodeRows]
  | cons r rs ih =>
    simp only [List.cons_append, DecState.decodeRows]
    cases h : d.decodeRow q r with
    | error e => simp
    | ok p =>
      obtain ⟨d', ev⟩ := p
      simp only []
      exact ih d' _

theorem decodeRows_append_fr_ok (q : Bool) (d d' : DecState) (rows₁ rows₂ : List Row)
    (acc evs : List Event) (h : d.decodeRows q rows₁ acc = (d', evs, none)) :
    d.decodeRows q (rows₁ ++ rows₂) acc = d'.decodeRows q rows₂ evs := by
  rw [decodeRows_append_fr, h]

theorem decodeRows_append_fr_err (q : Bool) (d d' : DecState) (rows₁ rows₂ : List Row)
    (acc evs : List Event) (e : PyErr) (h : d.decodeRows q rows₁ acc = (d', evs, some e)) :
    d.decodeRows q (rows₁ ++ rows₂) acc = (d', evs, some e) := by
  rw [decodeRows_append_fr, h]

/-! ## `decodeFrames` -/

/-- Generalised form of C07 (a): arbitrary decoder state and arbitrary accumulator. -/
theorem decodeFrames_eq_rows (q : Bool) (d : DecState) (frames : List Frame) (acc : List (List Event)) :
    (decodeFrames q d frames acc).1.flatten ++ (decodeFrames q d frames acc).2.1
        = acc.flatten ++ (d.decodeRows q (frames.flatMap (·.rows)) []).2.1 ∧
    (decodeFrames q d frames acc).2.2 = (d.decodeRows q (frames.flatMap (·.rows)) []).2.2 := by
  induction frames generalizing d acc with
  | nil => simp [decodeFrames, DecState.decodeRows]
  | cons f fs ih =>
    simp only [List.flatMap_cons, decodeFrames]
    rcases h : d.decodeRows q f.rows [] with ⟨d', evs, _ | e⟩
    · simp only []
      rw [decodeRows_append_fr_ok q d d' _ _ _ _ h, decodeRows_acc_events, decodeRows_acc_err]
      obtain ⟨ih1, ih2⟩ := ih d' (acc ++ [evs])
      refine ⟨?_, ih2⟩
      rw [ih1]
      simp [List.append_assoc]
    · simp only []
      rw [decodeRows_append_fr_err q d d' _ _ _ _ e h]
      simp

/-- When nothing fails, `decodeFrames` appends exactly one group per frame and leaves no partial
    frame. -/
theorem decodeFrames_ok_length (q : Bool) (d : DecState) (frames : List Frame) (acc : List (List Event))
    (h : (decodeFrames q d frames acc).2.2 = none) :
    (decodeFrames q d frames acc).1.length = acc.length + frames.length ∧
    (decodeFrames q d frames acc).2.1 = [] := by
  induction frames generalizing d acc with
  | nil => simp [decodeFrames]
  | cons f fs ih =>
    simp only [decodeFrames] at h ⊢
    rcases h' : d.decodeRows q f.rows [] with ⟨d', evs, _ | e⟩
    · rw [h'] at h
      simp only [] at h ⊢
      obtain ⟨ih1, ih2⟩ := ih d' (acc ++ [evs]) h
      refine ⟨?_, ih2⟩
      rw [ih1]
      simp only [List.length_append, List.length_cons, List.length_nil]
      omega
    · rw [h'] at h
      simp at h

/-! ## `parseCore`, `sinkOfEvents` -/

/-- A normal end of `parseCore` leaves no partial frame. -/
theorem parseCore_ok_partial (q : Bool) (kind : SourceKind) (b : Bytes) (gate : Nat → Bool) :
    (parseCore q kind b gate).2.2 = none → (parseCore q kind b gate).2.1 = [] := by
  unfold parseCore
  split
  · intro _; rfl
  · split
    · intro _; rfl
    · split
      · intro _; rfl
      · split
        · intro _; rfl
        · simp only []
          split
          · intro h; simp at h
          · intro _; rfl

/-- The statement carried by an event, if any. -/
def Event.stmt? (ev : Event) : Option (List Term) :=
  match ev with
  | .stmt ts => some ts
  | .ns _ _ => none

@[simp] theorem Event.stmt?_stmt (ts : List Term) : Event.stmt? (.stmt ts) = some ts := rfl
@[simp] theorem Event.stmt?_ns (n : String) (i : Term) : Event.stmt? (.ns n i) = none := rfl

/-- The fold of `sinkOfEvents` from an arbitrary initial sink. -/
def sinkFold (s : Sink) (evs : List Event) : Sink :=
  evs.foldl (fun (s : Sink) ev =>
    match ev with
    | .stmt ts => { s with store := s.store ++ [ts] }
    | .ns name iri => { s with namespaces := bindNs s.namespaces name iri }) s

theorem sinkOfEvents_eq_sinkFold (evs : List Event) : sinkOfEvents evs = sinkFold {} evs := rfl

theorem sinkFold_store (s : Sink) (evs : List Event) :
    (sinkFold s evs).store = s.store ++ evs.filterMap Event.stmt? := by
  induction evs generalizing s with
  | nil => simp [sinkFold]
  | cons ev evs ih =>
    have : sinkFold s (ev :: evs) = sinkFold (match ev with
        | .stmt ts => { s with store := s.store ++ [ts] }
        | .ns name iri => { s with namespaces := bindNs s.namespaces name iri }) evs := rfl
    rw [this, ih]
    cases ev with
    | stmt ts => simp [List.append_assoc]
    | ns n i => rw [List.filterMap_cons_none (Event.stmt?_ns _ _)]

theorem sinkOfEvents_store (evs : List Event) :
    (sinkOfEvents evs).store = evs.filterMap Event.stmt? := by
  rw [sinkOfEvents_eq_sinkFold, sinkFold_store]
  rfl

theorem sinks_store_flatten (done : List (List Event)) :
    (done.map sinkOfEvents).flatMap (·.store) = done.flatten.filterMap Event.stmt? := by
  induction done with
  | nil => rfl
  | cons evs rest ih =>
    simp only [List.map_cons, List.flatMap_cons, List.flatten_cons, List.filterMap_append, ih,
      sinkOfEvents_store]

/-! ## Writer side: what never changes -/

/-- Same stream class, same flow kind, same enrolment flag. -/
structure Stream.Same (s s' : Stream) : Prop where
  cls : s'.cls = s.cls
  kind : s'.flow.kind = s.flow.kind
  enrolled : s'.enrolled = s.enrolled

theorem Stream.Same.refl (s : Stream) : Stream.Same s s := ⟨rfl, rfl, rfl⟩

theorem Stream.Same.trans {a b c : Stream} (h₁ : Stream.Same a b) (h₂ : Stream.Same b c) :
    Stream.Same a c :=
  ⟨h₂.cls.trans h₁.cls, h₂.kind.trans h₁.kind, h₂.enrolled.trans h₁.enrolled⟩

theorem Flow.toStreamFrame_kind (f : Flow) : f.toStreamFrame.1.kind = f.kind := by
  unfold Flow.toStreamFrame; split <;> rfl

theorem Flow.frameFromBounds_kind (f : Flow) : f.frameFromBounds.1.kind = f.kind := by
  unfold Flow.frameFromBounds; split
  · exact Flow.toStreamFrame_kind f
  · rfl

theorem Flow.frameFromGraph_kind (f : Flow) : f.frameFromGraph.1.kind = f.kind := by
  unfold Flow.frameFromGraph; split
  · exact Flow.toStreamFrame_kind f
  · rfl

theorem Flow.frameFromDataset_kind (f : Flow) : f.frameFromDataset.1.kind = f.kind := by
  unfold Flow.frameFromDataset; split
  · exact Flow.toStreamFrame_kind f
  · rfl

/-- With a flow that is not bounded `frame_from_bounds` does nothing. -/
theorem Flow.frameFromBounds_unbounded (f : Flow) (h : f.kind.isBounded = false) :
    f.frameFromBounds = (f, none) := by
  simp [Flow.frameFromBounds, h]

theorem Flow.toStreamFrame_empty (f : Flow) (h : f.rows = []) : f.toStreamFrame = (f, none) := by
  simp [Flow.toStreamFrame, h]

theorem Flow.toStreamFrame_nonempty (f : Flow) (h : f.rows ≠ []) :
    f.toStreamFrame = ({ f with rows := [] }, some { rows := f.rows }) := by
  simp [Flow.toStreamFrame, h]

theorem Stream.pushRows_same (s : Stream) (rows : List Row) : Stream.Same s (s.pushRows rows) :=
  ⟨rfl, rfl, rfl⟩

/-- `enroll` is the identity on an enrolled stream. -/
theorem Stream.enroll_of_enrolled (s : Stream) (h : s.enrolled = true) : s.enroll = s := by
  simp [Stream.enroll, h]

theorem Stream.namespaceDeclaration_same (s : Stream) (name iri : String) :
    Stream.Same s (s.namespaceDeclaration name iri).1 := by
  unfold Stream.namespaceDeclaration
  split <;> exact ⟨rfl, rfl, rfl⟩

theorem nsDeclarations_same (s : Stream) (ns : List (String × Term)) :
    Stream.Same s (nsDeclarations s ns).1 := by
  induction ns generalizing s with
  | nil => exact Stream.Same.refl s
  | cons b rest ih =>
    obtain ⟨p, t⟩ := b
    cases t with
    | iri i =>
      simp only [nsDeclarations]
      have h1 := Stream.namespaceDeclaration_same s p i
      rcases h : s.namespaceDeclaration p i with ⟨s', _ | _⟩
      · rw [h] at h1; exact h1
      · rw [h] at h1; exact h1.trans (ih s')
    | _ => exact Stream.Same.refl s

theorem Stream.triple_same (exc : PyErr) (s : Stream) (t : List Term) :
    Stream.Same s (s.triple exc t).1 := by
  unfold Stream.triple
  split
  · exact ⟨rfl, rfl, rfl⟩
  · exact ⟨rfl, Flow.frameFromBounds_kind _, rfl⟩

theorem Stream.quad_same (exc : PyErr) (s : Stream) (t : List Term) :
    Stream.Same s (s.quad exc t).1 := by
  unfold Stream.quad
  split
  · exact ⟨rfl, rfl, rfl⟩
  · exact ⟨rfl, Flow.frameFromBounds_kind _, rfl⟩

/-- `stmtLoop` preserves class, flow kind and enrolment whenever the step does. -/
theorem stmtLoop_same (step : Stream → List Term → Res Stream (Option Frame))
    (hstep : ∀ s t, Stream.Same s (step s t).1) (r : Run) (ts : List (List Term)) :
    Stream.Same r.stream (stmtLoop step r ts).stream := by
  induction ts generalizing r with
  | nil => exact Stream.Same.refl _
  | cons t ts ih =>
    simp only [stmtLoop]
    have h1 := hstep r.stream t
    rcases h : step r.stream t with ⟨s', _ | fr⟩
    · rw [h] at h1; exact h1
    · rw [h] at h1; exact h1.trans (ih (r.push s' fr))

theorem epilogue_same (r : Run) (fromDataset : Bool) :
    Stream.Same r.stream (epilogue r fromDataset).stream := by
  unfold epilogue
  cases fromDataset
  · exact ⟨rfl, (Flow.toStreamFrame_kind _).trans (Flow.frameFromGraph_kind _), rfl⟩
  · exact ⟨rfl, (Flow.toStreamFrame_kind _).trans (Flow.frameFromDataset_kind _), rfl⟩

theorem epilogue_err_fr (r : Run) (fromDataset : Bool) : (epilogue r fromDataset).err = r.err := by
  unfold epilogue
  cases fromDataset <;> rfl

/-! ## Writer side: flows that are not bounded -/

theorem encodeTripleBody_ok_ne_nil (exc : PyErr) (st st' : EncState) (terms : List Term) (rows : List Row)
    (h : encodeTripleBody exc st terms = (st', .ok rows)) : rows ≠ [] := by
  rcases terms with _ | ⟨a, _ | ⟨b, _ | ⟨c, rest⟩⟩⟩
  · simp [encodeTripleBody] at h
  · simp only [encodeTripleBody] at h
    split at h <;> simp at h
  · simp only [encodeTripleBody] at h
    split at h
    · simp at h
    · split at h <;> simp at h
  · simp only [encodeTripleBody] at h
    split at h
    · simp at h
    · split at h
      · simp at h
      · split at h
        · simp at h
        · simp only [Prod.mk.injEq, Except.ok.injEq] at h; rw [← h.2]; simp

theorem encodeTriple_ok_ne_nil (exc : PyErr) (st st' : EncState) (terms : List Term) (rows : List Row)
    (h : encodeTriple exc st terms = (st', .ok rows)) : rows ≠ [] := by
  obtain ⟨_, st1, hb, _⟩ := encodeTriple_ok_inv h
  exact encodeTripleBody_ok_ne_nil exc _ st1 terms rows hb

theorem encodeQuadBody_ok_ne_nil (exc : PyErr) (st st' : EncState) (terms : List Term) (rows : List Row)
    (h : encodeQuadBody exc st terms = (st', .ok rows)) : rows ≠ [] := by
  rcases terms with _ | ⟨a, _ | ⟨b, _ | ⟨c, _ | ⟨g, rest⟩⟩⟩⟩
  · simp [encodeQuadBody] at h
  · simp only [encodeQuadBody] at h
    split at h <;> simp at h
  · simp only [encodeQuadBody] at h
    split at h
    · simp at h
    · split at h <;> simp at h
  · simp only [encodeQuadBody] at h
    split at h
    · simp at h
    · split at h
      · simp at h
      · split at h <;> simp at h
  · simp only [encodeQuadBody] at h
    split at h
    · simp at h
    · split at h
      · simp at h
      · split at h
        · simp at h
        · split at h
          · simp at h
          · simp only [Prod.mk.injEq, Except.ok.injEq] at h; rw [← h.2]; simp

theorem encodeQuad_ok_ne_nil (exc : PyErr) (st st' : EncState) (terms : List Term) (rows : List Row)
    (h : encodeQuad exc st terms = (st', .ok rows)) : rows ≠ [] := by
  obtain ⟨_, st1, hb, _⟩ := encodeQuad_ok_inv h
  exact encodeQuadBody_ok_ne_nil exc _ st1 terms rows hb

/-- A successful `Stream.triple` on a flow that is not bounded yields no frame and leaves a
    non-empty flow (at least the statement row was appended). -/
theorem Stream.triple_unbounded (exc : PyErr) (s s' : Stream) (t : List Term) (fr : Option Frame)
    (hk : s.flow.kind.isBounded = false) (h : s.triple exc t = (s', .ok fr)) :
    fr = none ∧ s'.flow.rows ≠ [] := by
  unfold Stream.triple at h
  split at h
  · simp at h
  · rename_i enc' rows henc
    have hne := encodeTriple_ok_ne_nil _ _ _ _ _ henc
    have hb : (({ s with enc := enc' } : Stream).pushRows rows).flow.frameFromBounds = (_, none) :=
      Flow.frameFromBounds_unbounded _ hk
    simp only [hb, Prod.mk.injEq, Except.ok.injEq] at h
    obtain ⟨h1, h2⟩ := h
    subst h1
    refine ⟨h2.symm, ?_⟩
    simp [Stream.pushRows, hne]

theorem Stream.quad_unbounded (exc : PyErr) (s s' : Stream) (t : List Term) (fr : Option Frame)
    (hk : s.flow.kind.isBounded = false) (h : s.quad exc t = (s', .ok fr)) :
    fr = none ∧ s'.flow.rows ≠ [] := by
  unfold Stream.quad at h
  split at h
  · simp at h
  · rename_i enc' rows henc
    have hne := encodeQuad_ok_ne_nil _ _ _ _ _ henc
    have hb : (({ s with enc := enc' } : Stream).pushRows rows).flow.frameFromBounds = (_, none) :=
      Flow.frameFromBounds_unbounded _ hk
    simp only [hb, Prod.mk.injEq, Except.ok.injEq] at h
    obtain ⟨h1, h2⟩ := h
    subst h1
    refine ⟨h2.symm, ?_⟩
    simp [Stream.pushRows, hne]

/-- With a flow kind that is not bounded, a `stmtLoop` that ends normally yields no frame, keeps
    the error flag, and leaves a non-empty flow as soon as one statement was written (or the flow
    was non-empty before). -/
theorem stmtLoop_unbounded (step : Stream → List Term → Res Stream (Option Frame))
    (hsame : ∀ s t, Stream.Same s (step s t).1)
    (hstep : ∀ s s' t fr, s.flow.kind.isBounded = false → step s t = (s', .ok fr) →
      fr = none ∧ s'.flow.rows ≠ [])
    (r : Run) (ts : List (List Term)) (hk : r.stream.flow.kind.isBounded = false)
    (hok : (stmtLoop step r ts).err = none) :
    (stmtLoop step r ts).frames = r.frames ∧ r.err = none ∧
    ((ts ≠ [] ∨ r.stream.flow.rows ≠ []) → (stmtLoop step r ts).stream.flow.rows ≠ []) := by
  induction ts generalizing r with
  | nil => exact ⟨rfl, hok, fun h => h.elim (fun h => absurd rfl h) id⟩
  | cons t ts ih =>
    simp only [stmtLoop] at hok ⊢
    have h1 := hsame r.stream t
    rcases h : step r.stream t with ⟨s', e | fr⟩
    · rw [h] at hok; simp at hok
    · rw [h] at hok h1
      simp only [] at hok ⊢
      obtain ⟨hfr, hrows⟩ := hstep _ _ _ _ hk h
      subst hfr
      have hk' : (r.push s' none).stream.flow.kind.isBounded = false := by
        show s'.flow.kind.isBounded = false
        rw [h1.kind]; exact hk
      obtain ⟨i1, i2, i3⟩ := ih (r.push s' none) hk' hok
      refine ⟨?_, i2, fun _ => i3 (Or.inr hrows)⟩
      rw [i1]; simp [Run.push]

/-! ## Writer side: grouped flows (GRAPHS on a TripleStream, DATASETS on a QuadStream) -/

/-- On an enrolled stream the prologue changes neither class, flow kind nor enrolment. -/
theorem prologue_same_of_enrolled (s : Stream) (data : SerData) (h : s.enrolled = true) :
    Stream.Same s (prologue s data).1 := by
  unfold prologue
  rw [Stream.enroll_of_enrolled s h]
  cases data with
  | sink sk =>
    simp only []
    split
    · exact nsDeclarations_same s sk.namespaces
    · exact Stream.Same.refl s
  | gen _ => exact Stream.Same.refl s

/-- Epilogue of the triples variant on a GRAPHS flow holding rows: exactly one more frame, carrying
    all the rows; the flow is empty afterwards. -/
theorem epilogue_graphs (r : Run) (hk : r.stream.flow.kind = .graphs) (hne : r.stream.flow.rows ≠ []) :
    (epilogue r false).frames = r.frames ++ [{ rows := r.stream.flow.rows }] ∧
    (epilogue r false).stream.flow.rows = [] := by
  simp [epilogue, Flow.frameFromGraph, hk, Flow.toStreamFrame, hne, Run.push]

/-- Epilogue of the quads variant on a DATASETS flow holding rows. -/
theorem epilogue_datasets (r : Run) (hk : r.stream.flow.kind = .datasets) (hne : r.stream.flow.rows ≠ []) :
    (epilogue r true).frames = r.frames ++ [{ rows := r.stream.flow.rows }] ∧
    (epilogue r true).stream.flow.rows = [] := by
  simp [epilogue, Flow.frameFromDataset, hk, Flow.toStreamFrame, hne, Run.push]

/-- `triples_stream_frames` with a GRAPHS flow on an enrolled stream: one non-empty sink, one frame. -/
theorem triplesStreamFrames_graphs (s : Stream) (sk : Sink)
    (hk : s.flow.kind = .graphs) (henr : s.enrolled = true) (hne : sk.store ≠ [])
    (hok : (triplesStreamFrames s (.sink sk)).err = none) :
    (triplesStreamFrames s (.sink sk)).frames.length = 1 ∧
    (triplesStreamFrames s (.sink sk)).stream.flow.rows = [] ∧
    Stream.Same s (triplesStreamFrames s (.sink sk)).stream := by
  have hp := prologue_same_of_enrolled s (.sink sk) henr
  unfold triplesStreamFrames at hok ⊢
  rcases hpro : prologue s (.sink sk) with ⟨s1, e | u⟩
  · rw [hpro] at hok; simp at hok
  · rw [hpro] at hok hp
    simp only [] at hok hp ⊢
    have hk1 : s1.flow.kind = .graphs := hp.kind.trans hk
    have hloop := stmtLoop_same (Stream.triple .runtimeError) (Stream.triple_same _) { stream := s1 } sk.store
    have hunb := stmtLoop_unbounded (Stream.triple .runtimeError) (Stream.triple_same _)
        (Stream.triple_unbounded _) { stream := s1 } sk.store
        (by show s1.flow.kind.isBounded = false; rw [hk1]; rfl)
    generalize hr : stmtLoop (Stream.triple .runtimeError) { stream := s1 } (SerData.sink sk).stmts = r
      at hok ⊢
    have hr' : stmtLoop (Stream.triple .runtimeError) { stream := s1 } sk.store = r := hr
    rw [hr'] at hloop hunb
    by_cases hsome : r.err.isSome = true
    · rw [if_pos hsome] at hok
      rw [hok] at hsome; simp at hsome
    · rw [if_neg hsome] at hok ⊢
      rw [epilogue_err_fr] at hok
      obtain ⟨u1, _, u3⟩ := hunb hok
      have hk2 := hloop.kind.trans hk1
      obtain ⟨e1, e2⟩ := epilogue_graphs _ hk2 (u3 (Or.inl hne))
      refine ⟨?_, e2, hp.trans (hloop.trans (epilogue_same _ _))⟩
      rw [e1, u1]; rfl

/-- `quads_stream_frames` with a DATASETS flow on an enrolled stream: one non-empty sink, one frame. -/
theorem quadsStreamFrames_datasets (s : Stream) (sk : Sink)
    (hk : s.flow.kind = .datasets) (henr : s.enrolled = true) (hne : sk.store ≠ [])
    (hok : (quadsStreamFrames s (.sink sk)).err = none) :
    (quadsStreamFrames s (.sink sk)).frames.length = 1 ∧
    (quadsStreamFrames s (.sink sk)).stream.flow.rows = [] ∧
    Stream.Same s (quadsStreamFrames s (.sink sk)).stream := by
  have hp := prologue_same_of_enrolled s (.sink sk) henr
  unfold quadsStreamFrames at hok ⊢
  rcases hpro : prologue s (.sink sk) with ⟨s1, e | u⟩
  · rw [hpro] at hok; simp at hok
  · rw [hpro] at hok hp
    simp only [] at hok hp ⊢
    have hk1 : s1.flow.kind = .datasets := hp.kind.trans hk
    have hloop := stmtLoop_same (Stream.quad .runtimeError) (Stream.quad_same _) { stream := s1 } sk.store
    have hunb := stmtLoop_unbounded (Stream.quad .runtimeError) (Stream.quad_same _)
        (Stream.quad_unbounded _) { stream := s1 } sk.store
        (by show s1.flow.kind.isBounded = false; rw [hk1]; rfl)
    generalize hr : stmtLoop (Stream.quad .runtimeError) { stream := s1 } (SerData.sink sk).stmts = r
      at hok ⊢
    have hr' : stmtLoop (Stream.quad .runtimeError) { stream := s1 } sk.store = r := hr
    rw [hr'] at hloop hunb
    by_cases hsome : r.err.isSome = true
    · rw [if_pos hsome] at hok
      rw [hok] at hsome; simp at hsome
    · rw [if_neg hsome] at hok ⊢
      rw [epilogue_err_fr] at hok
      obtain ⟨u1, _, u3⟩ := hunb hok
      have hk2 := hloop.kind.trans hk1
      obtain ⟨e1, e2⟩ := epilogue_datasets _ hk2 (u3 (Or.inl hne))
      refine ⟨?_, e2, hp.trans (hloop.trans (epilogue_same _ _))⟩
      rw [e1, u1]; rfl

end Jelly

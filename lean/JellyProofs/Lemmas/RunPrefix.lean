import JellyProofs.Lemmas.StreamSim
/-!
# The reference decoder on a prefix of an accepted row sequence

If `Spec.run` accepts `r₁ ++ r₂`, it accepts `r₁`, and the events of `r₁` are a prefix of the events
of the whole (used by `C18_prefix_on_error`: the frames handed out are a prefix of all rows written).
-/
namespace Jelly

theorem Spec.run_acc_prefix : ∀ (rows : List Row) (st : Spec.State) (acc : List Event) (i : Nat),
    acc <+: (Spec.run st rows acc i).2.1 := by
  intro rows
  induction rows with
  | nil => intro st acc i; simp [Spec.run]
  | cons r rs ih =>
    intro st acc i
    simp only [Spec.run]
    cases h : Spec.step st r with
    | error v => simp
    | ok x =>
      obtain ⟨st', ev⟩ := x
      exact (List.prefix_append acc ev.toList).trans (ih st' _ _)

theorem Spec.run_append_ok : ∀ (r₁ r₂ : List Row) (st : Spec.State) (acc : List Event) (i : Nat)
    (st' : Spec.State) (evs : List Event),
    Spec.run st (r₁ ++ r₂) acc i = (st', evs, none) →
    ∃ st₁ evs₁, Spec.run st r₁ acc i = (st₁, evs₁, none) ∧
      Spec.run st₁ r₂ evs₁ (i + r₁.length) = (st', evs, none) := by
  intro r₁
  induction r₁ with
  | nil => intro r₂ st acc i st' evs h; exact ⟨st, acc, rfl, by simpa using h⟩
  | cons r rs ih =>
    intro r₂ st acc i st' evs h
    simp only [List.cons_append, Spec.run] at h ⊢
    cases hs : Spec.step st r with
    | error v => rw [hs] at h; simp at h
    | ok x =>
      obtain ⟨st1, ev⟩ := x
      rw [hs] at h
      obtain ⟨st₁, evs₁, h1, h2⟩ := ih r₂ st1 _ _ st' evs h
      refine ⟨st₁, evs₁, h1, ?_⟩
      have : i + (rs.length + 1) = i + 1 + rs.length := by omega
      simpa [this] using h2

/-- A prefix of an accepted row sequence is accepted, with a prefix of the events. -/
theorem Spec.runRows_prefix {r₁ r₂ : List Row} {st : Spec.State} {evs : List Event}
    (h : Spec.runRows (r₁ ++ r₂) = (st, evs, none)) :
    ∃ st₁ evs₁, Spec.runRows r₁ = (st₁, evs₁, none) ∧ evs₁ <+: evs := by
  obtain ⟨st₁, evs₁, h1, h2⟩ := Spec.run_append_ok r₁ r₂ {} [] 0 st evs h
  refine ⟨st₁, evs₁, h1, ?_⟩
  have := Spec.run_acc_prefix r₂ st₁ evs₁ (0 + r₁.length)
  rw [h2] at this
  exact this

end Jelly

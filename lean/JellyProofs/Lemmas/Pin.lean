import JellyModel.Encode
/-!
# Basic facts on the row-local `pinned` bookkeeping of the writer table

`pinned` never influences `data` / `maxSize` / `evicting`; it only decides whether `insert` refuses an
eviction.
-/
namespace Jelly

@[simp] theorem Lookup.pin_data (l : Lookup) (k : String) : (l.pin k).data = l.data := by
  unfold Lookup.pin; split <;> rfl

@[simp] theorem Lookup.pin_maxSize (l : Lookup) (k : String) : (l.pin k).maxSize = l.maxSize := by
  unfold Lookup.pin; split <;> rfl

@[simp] theorem Lookup.pin_evicting (l : Lookup) (k : String) : (l.pin k).evicting = l.evicting := by
  unfold Lookup.pin; split <;> rfl

theorem Lookup.pin_pinned (l : Lookup) (k : String) : (l.pin k).pinned = l.pinned.map (k :: ·) := by
  unfold Lookup.pin; split <;> simp_all

@[simp] theorem Lookup.pin_find? (l : Lookup) (k k' : String) : (l.pin k).find? k' = l.find? k' := by
  unfold Lookup.find?; rw [Lookup.pin_data]

theorem Lookup.pin_of_none {l : Lookup} (h : l.pinned = none) (k : String) : l.pin k = l := by
  unfold Lookup.pin; rw [h]

theorem Lookup.isPinned_of_none {l : Lookup} (h : l.pinned = none) (k : String) : l.isPinned k = false := by
  unfold Lookup.isPinned; rw [h]

theorem Lookup.isPinned_some {l : Lookup} {ps : List String} (h : l.pinned = some ps) (k : String) :
    l.isPinned k = ps.contains k := by
  unfold Lookup.isPinned; rw [h]

/-- `moveToEnd` pins the key. -/
theorem Lookup.moveToEnd_pinned {l l' : Lookup} {k : String} (h : l.moveToEnd k = some l') :
    l'.pinned = l.pinned.map (k :: ·) := by
  unfold Lookup.moveToEnd at h
  split at h
  · simp at h
  · injection h with h; subst h
    rw [Lookup.pin_pinned]

/-- A successful `insert` pins the key. -/
theorem Lookup.insert_pinned {l l' : Lookup} {k : String} {i : Nat} (h : l.insert k = .ok (l', i)) :
    l'.pinned = l.pinned.map (k :: ·) := by
  unfold Lookup.insert at h
  split at h
  · simp at h
  · split at h
    · split at h
      · simp at h
      · split at h
        · simp at h
        · injection h with h; injection h with h _; subst h
          rw [Lookup.pin_pinned]
    · injection h with h; injection h with h _; subst h
      rw [Lookup.pin_pinned]

end Jelly

import JellyModel.Parse
/-!
# The header loop of `get_options_and_frames` on a non-seekable source
-/
namespace Jelly

theorem take_append_drop_take_length (k : Nat) (l : Bytes) : l.take k ++ l.drop (l.take k).length = l := by
  rw [List.length_take]
  by_cases hk : k ≤ l.length
  · rw [Nat.min_eq_left hk, List.take_append_drop]
  · have hl : l.length ≤ k := by omega
    rw [Nat.min_eq_right hl, List.take_of_length_le hl, List.drop_length, List.append_nil]

/-- The header loop collects exactly the first three bytes (or all of a shorter input), whatever the
    read schedule. -/
theorem readHeaderLoop_eq (sched : List Nat) (hdr rest : Bytes) (h : hdr.length ≤ 3) :
    readHeaderLoop sched hdr rest = (hdr ++ rest).take 3 := by
  induction sched generalizing hdr rest with
  | nil =>
    simp only [readHeaderLoop]
    rw [List.take_append, List.take_of_length_le h]
  | cons n sched ih =>
    simp only [readHeaderLoop]
    by_cases h3 : 3 ≤ hdr.length
    · rw [if_pos h3, List.take_append, List.take_of_length_le h]
      have : 3 - hdr.length = 0 := by omega
      simp [this]
    · rw [if_neg h3]
      by_cases he : (rest.take (min (max n 1) (3 - hdr.length))).isEmpty = true
      · simp only [he, if_true]
        have hr : rest = [] := by
          rw [List.isEmpty_iff] at he
          rcases List.take_eq_nil_iff.mp he with h0 | h0
          · omega
          · exact h0
        subst hr
        simp [List.take_of_length_le h]
      · simp only [he, Bool.false_eq_true, if_false]
        rw [ih]
        · rw [List.append_assoc, take_append_drop_take_length]
        · rw [List.length_append, List.length_take]; omega

theorem SourceKind.header_eq_take (kind : SourceKind) (b : Bytes) : kind.header b = b.take 3 := by
  cases kind with
  | seekable => rfl
  | rawNonSeekable sched => simp only [SourceKind.header]; rw [readHeaderLoop_eq sched [] b (by simp), List.nil_append]

end Jelly

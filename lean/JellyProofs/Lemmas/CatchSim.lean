import JellyProofs.Lemmas.StreamSim
import JellyProofs.Lemmas.CleanReject
/-!
# One statement call of a catch-and-continue caller (C20)

The state of such a run is either "in step with the reference decoder" (`Inv`, as in the C03/C18
simulation) or "broken" (absorbing: every further call is refused and changes nothing). One call
keeps this alternative: an accepted well-formed statement is simulated, a clean rejection leaves the
encoder as it was with its row started, a dirty one makes the encoder broken.
-/
namespace Jelly

/-- Starting a row (and abandoning it before any table was used) keeps the invariant. -/
theorem Inv.startRow {P : Preset} {es : EncState} {ss : Spec.State} (inv : Inv P es ss) :
    Inv P { es with te := es.te.startRow } ss :=
  ⟨inv.wft.startRow, inv.em.startRow, inv.lrn, inv.lrp, inv.lrd, inv.rs, inv.rp, inv.ro, inv.rg,
   TermEnc.startRow_not_broken _⟩

/-- The writer is in step with the reference decoder state `ss`, or it is broken. -/
def CatchInv (P : Preset) (o : Options) (s : Stream) (ss : Spec.State) : Prop :=
  (Inv P s.enc ss ∧ ss.opts = some o) ∨ s.enc.te.broken = true

/-- What one call of `step` does to a catch-and-continue run (`wf` = the statements the writer is
    specified to accept). -/
def CatchStepOK (P : Preset) (o : Options) (wf : List Term → Bool)
    (step : Stream → List Term → Res Stream (Option Frame)) : Prop :=
  ∀ (s : Stream) (ss : Spec.State) (t : List Term), CatchInv P o s ss →
    (∃ s' e, step s t = (s', .error e) ∧ s'.flow.rows = s.flow.rows ∧ CatchInv P o s' ss) ∨
    (∃ s' fr, step s t = (s', .ok fr) ∧
      (wf t = true → ∃ ss' rows, frRows fr ++ s'.flow.rows = s.flow.rows ++ rows ∧
        RunsTo ss rows ss' [Event.stmt (t.map Term.norm)] ∧ CatchInv P o s' ss'))

theorem catchStep_triple {P : Preset} {o : Options} (hv : P.valid = true) (h1 : o.physicalType = 1)
    (exc : PyErr) : CatchStepOK P o tripleWF (Stream.triple exc) := by
  intro s ss t hJ
  rcases hJ with ⟨inv, ho⟩ | hb
  · rcases hres : encodeTriple exc s.enc t with ⟨enc', e | rows⟩
    · left
      refine ⟨{ s with enc := enc' }, e, Stream.triple_err hres, rfl, ?_⟩
      rcases encodeTriple_err_clean_or_broken hres inv.nb with h | h
      · left
        refine ⟨?_, ho⟩
        show Inv P enc' ss
        rw [h]
        exact inv.startRow
      · exact Or.inr h
    · right
      obtain ⟨s', fr, hstep, henc', hrows⟩ := Stream.triple_ok hres
      refine ⟨s', fr, hstep, ?_⟩
      intro hwf
      obtain ⟨a, b, c, rfl, ha, hb, hc⟩ := tripleWF_elim hwf
      rcases triple_run1_gen (F := False) (T := stmtKeys P [a, b, c]) (posn_of_valid hv) (fun h => h.elim)
          inv ho h1 exc a b c ha hb hc
          (termKeys_sub_stmtKeys (by simp)) (termKeys_sub_stmtKeys (by simp)) (termKeys_sub_stmtKeys (by simp)) with
        ⟨_, es', e, herr⟩ | ⟨es', rows', ss', heq, inv', ho', _, hrun⟩
      · rw [hres] at herr; simp at herr
      · rw [hres] at heq
        simp only [Prod.mk.injEq, Except.ok.injEq] at heq
        obtain ⟨rfl, rfl⟩ := heq
        exact ⟨ss', rows, hrows, hrun, Or.inl ⟨by rw [henc']; exact inv', ho'⟩⟩
  · left
    have hres := encodeTriple_broken hb exc t
    exact ⟨{ s with enc := s.enc }, .conformance, Stream.triple_err hres, rfl, Or.inr hb⟩

theorem catchStep_quad {P : Preset} {o : Options} (hv : P.valid = true) (h2 : o.physicalType = 2)
    (exc : PyErr) : CatchStepOK P o quadWF (Stream.quad exc) := by
  intro s ss t hJ
  rcases hJ with ⟨inv, ho⟩ | hb
  · rcases hres : encodeQuad exc s.enc t with ⟨enc', e | rows⟩
    · left
      refine ⟨{ s with enc := enc' }, e, Stream.quad_err hres, rfl, ?_⟩
      rcases encodeQuad_err_clean_or_broken hres inv.nb with h | h
      · left
        refine ⟨?_, ho⟩
        show Inv P enc' ss
        rw [h]
        exact inv.startRow
      · exact Or.inr h
    · right
      obtain ⟨s', fr, hstep, henc', hrows⟩ := Stream.quad_ok hres
      refine ⟨s', fr, hstep, ?_⟩
      intro hwf
      obtain ⟨a, b, c, g, rfl, ha, hb, hc, hg⟩ := quadWF_elim hwf
      rcases quad_run_gen (F := False) (T := stmtKeys P [a, b, c, g]) (posn_of_valid hv) (fun h => h.elim)
          inv ho h2 exc a b c g ha hb hc hg
          (termKeys_sub_stmtKeys (by simp)) (termKeys_sub_stmtKeys (by simp))
          (termKeys_sub_stmtKeys (by simp)) (termKeys_sub_stmtKeys (by simp)) with
        ⟨_, es', e, herr⟩ | ⟨es', rows', ss', heq, inv', ho', _, hrun⟩
      · rw [hres] at herr; simp at herr
      · rw [hres] at heq
        simp only [Prod.mk.injEq, Except.ok.injEq] at heq
        obtain ⟨rfl, rfl⟩ := heq
        exact ⟨ss', rows, hrows, hrun, Or.inl ⟨by rw [henc']; exact inv', ho'⟩⟩
  · left
    have hres := encodeQuad_broken hb exc t
    exact ⟨{ s with enc := s.enc }, .conformance, Stream.quad_err hres, rfl, Or.inr hb⟩

end Jelly

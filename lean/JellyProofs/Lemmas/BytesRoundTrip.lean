import JellyModel
import JellyProofs.Lemmas.TableSim
import JellyProofs.Lemmas.SerRows
import JellyProofs.Lemmas.RowBracket
import JellyProofs.Lemmas.StreamSim
import JellyProofs.WireRoundTrip
import JellyProofs.C01
import JellyProofs.C08
/-!
# Helper lemmas for the byte-level round trip (`C01Bytes.lean`)

Part 1: every row the writer pushes is `Row.wireWF`: the lookup tables stay well-formed LRU
dictionaries with at most `MAX_LOOKUP_SIZE` entries under every *successful* encoder operation
(no `stmtFits`/`tripleWF` hypothesis: this is independent of the reader), hence every id written
is `≤ 4096 < 2³²`; quoted triples nest exactly as deep as in the input.
-/
namespace Jelly

/-! ## One table -/

/-- A writer table that is a well-formed LRU dictionary of a size the reader supports. -/
def LookupEnc.Small (e : LookupEnc) : Prop := e.lookup.WF ∧ e.lookup.maxSize ≤ MAX_LOOKUP_SIZE

theorem LookupEnc.Small.new (n : Nat) (h : n ≤ MAX_LOOKUP_SIZE) : (LookupEnc.new n).Small :=
  ⟨Lookup.WF.new n, h⟩

theorem entryIndex_small {e e' : LookupEnc} {k : String} {oid : Option Nat} (h : e.Small)
    (he : e.entryIndex k = .ok (e', oid)) :
    e'.Small ∧ ∀ id, oid = some id → id ≤ MAX_LOOKUP_SIZE := by
  by_cases hpos : 0 < e.lookup.maxSize
  · have c := entryIndex_ok_case h.1 hpos he
    obtain ⟨wf', hmax, _, _⟩ := c.basic h.1 hpos
    refine ⟨⟨wf', by rw [hmax]; exact h.2⟩, ?_⟩
    intro id hid
    have hle := h.2
    cases c with
    | hit i hm he' ho => rw [ho] at hid; cases hid
    | fill hk hlt he' ho =>
      rw [ho] at hid
      simp only [Option.some.injEq] at hid
      subst hid
      split <;> omega
    | evict k0 i0 rest hk hd hfull hnp he' ho =>
      rw [ho] at hid
      simp only [Option.some.injEq] at hid
      subst hid
      have := h.1.idx_le_max (k := k0) (i := i0) (by rw [hd]; simp)
      split <;> omega
  · exfalso
    have h0 : e.lookup.maxSize = 0 := by omega
    have hd : e.lookup.data = [] := by
      have := h.1.lenLe
      rw [h0] at this
      exact List.eq_nil_of_length_eq_zero (by omega)
    have hm : e.lookup.moveToEnd k = none := Lookup.moveToEnd_eq_none (by rw [hd]; simp)
    simp [LookupEnc.entryIndex, hm, Lookup.insert, h0] at he

theorem termIndex_small {e e' : LookupEnc} {v : String} {i : Nat} (h : e.Small)
    (he : e.termIndex v = .ok (e', i)) : e'.Small ∧ i ≤ MAX_LOOKUP_SIZE := by
  unfold LookupEnc.termIndex at he
  cases hm : e.lookup.moveToEnd v with
  | none => rw [hm] at he; cases he
  | some l' =>
    rw [hm] at he
    dsimp only at he
    unfold Lookup.moveToEnd at hm
    cases hf : e.lookup.find? v with
    | none => rw [hf] at hm; cases hm
    | some e0 =>
      rw [hf] at hm
      simp only [Option.some.injEq] at hm
      have hmem : e0 ∈ e.lookup.data := List.mem_of_find?_eq_some hf
      have wf' : l'.WF := by rw [← hm]; exact (h.1.bump hmem).congr (by simp [Lookup.bump]) (by simp) (by simp)
      have hmax : l'.maxSize = e.lookup.maxSize := by rw [← hm]; simp
      cases hf2 : l'.find? v with
      | none => rw [hf2] at he; cases he
      | some x =>
        obtain ⟨k', idx⟩ := x
        rw [hf2] at he
        simp only [Except.ok.injEq, Prod.mk.injEq] at he
        obtain ⟨rfl, rfl⟩ := he
        have hmem2 : (k', idx) ∈ l'.data := List.mem_of_find?_eq_some hf2
        have := wf'.idx_le_max hmem2
        have hle := h.2
        exact ⟨⟨wf', by rw [hmax]; exact hle⟩, by omega⟩

theorem prefixTermIndex_small {e e' : LookupEnc} {v : String} {i : Nat} (h : e.Small)
    (he : e.prefixTermIndex v = .ok (e', i)) : e'.Small ∧ i ≤ MAX_LOOKUP_SIZE := by
  unfold LookupEnc.prefixTermIndex at he
  split at he
  · simp only [Except.ok.injEq, Prod.mk.injEq] at he
    obtain ⟨rfl, rfl⟩ := he
    exact ⟨h, Nat.zero_le _⟩
  · split at he
    · simp only [Except.ok.injEq, Prod.mk.injEq] at he
      obtain ⟨rfl, rfl⟩ := he
      exact ⟨h, Nat.zero_le _⟩
    · split at he
      · cases he
      · rename_i e1 cur ht
        obtain ⟨h1, h2⟩ := termIndex_small h ht
        split at he
        · simp only [Except.ok.injEq, Prod.mk.injEq] at he
          obtain ⟨rfl, rfl⟩ := he
          exact ⟨h1, h2⟩
        · split at he
          · simp only [Except.ok.injEq, Prod.mk.injEq] at he
            obtain ⟨rfl, rfl⟩ := he
            exact ⟨h1, Nat.zero_le _⟩
          · simp only [Except.ok.injEq, Prod.mk.injEq] at he
            obtain ⟨rfl, rfl⟩ := he
            exact ⟨h1, h2⟩

theorem nameTermIndex_small {e e' : LookupEnc} {v : String} {i : Nat} (h : e.Small)
    (he : e.nameTermIndex v = .ok (e', i)) : e'.Small ∧ i ≤ MAX_LOOKUP_SIZE := by
  unfold LookupEnc.nameTermIndex at he
  split at he
  · cases he
  · rename_i e1 cur ht
    obtain ⟨h1, h2⟩ := termIndex_small h ht
    split at he
    · simp only [Except.ok.injEq, Prod.mk.injEq] at he
      obtain ⟨rfl, rfl⟩ := he
      exact ⟨h1, Nat.zero_le _⟩
    · simp only [Except.ok.injEq, Prod.mk.injEq] at he
      obtain ⟨rfl, rfl⟩ := he
      exact ⟨h1, h2⟩

theorem datatypeTermIndex_small {e e' : LookupEnc} {v : String} {i : Nat} (h : e.Small)
    (he : e.datatypeTermIndex v = .ok (e', i)) : e'.Small ∧ i ≤ MAX_LOOKUP_SIZE := by
  unfold LookupEnc.datatypeTermIndex at he
  split at he
  · simp only [Except.ok.injEq, Prod.mk.injEq] at he
    obtain ⟨rfl, rfl⟩ := he
    exact ⟨h, Nat.zero_le _⟩
  · exact termIndex_small h he

/-! ## The term encoder -/

structure TermEnc.Small (te : TermEnc) : Prop where
  names : te.names.Small
  prefixes : te.prefixes.Small
  datatypes : te.datatypes.Small

theorem LookupEnc.Small.startRow {e : LookupEnc} (h : e.Small) : e.startRow.Small :=
  ⟨h.1.congr rfl rfl rfl, h.2⟩

theorem LookupEnc.Small.unpin {e : LookupEnc} (h : e.Small) : e.unpin.Small :=
  ⟨h.1.congr rfl rfl rfl, h.2⟩

theorem TermEnc.Small.endRow {te : TermEnc} (h : te.Small) : te.endRow.Small :=
  ⟨h.names.unpin, h.prefixes.unpin, h.datatypes.unpin⟩

theorem TermEnc.Small.startRow {te : TermEnc} (h : te.Small) : te.startRow.Small :=
  ⟨h.names.startRow, h.prefixes.startRow, h.datatypes.startRow⟩

theorem wireWF_of_le_max {id : Nat} (h : id ≤ MAX_LOOKUP_SIZE) : id < U32 := by
  simp only [MAX_LOOKUP_SIZE] at h
  simp only [U32]
  omega

theorem iriIndices_small (te te' : TermEnc) (iri : String) (rows : List Row) (p n : Nat)
    (hs : te.Small) (h : te.iriIndices iri = (te', .ok (rows, p, n))) :
    te'.Small ∧ (∀ r ∈ rows, r.wireWF = true) ∧ p ≤ MAX_LOOKUP_SIZE ∧ n ≤ MAX_LOOKUP_SIZE := by
  unfold TermEnc.iriIndices at h
  dsimp only at h
  split at h
  · cases h
  · rename_i pe pEntry hpe
    have hp1 : pe.Small ∧ ∀ id, pEntry = some id → id ≤ MAX_LOOKUP_SIZE := by
      split at hpe
      · exact entryIndex_small hs.prefixes hpe
      · simp only [Except.ok.injEq, Prod.mk.injEq] at hpe
        obtain ⟨rfl, rfl⟩ := hpe
        exact ⟨hs.prefixes, by intro id hid; cases hid⟩
    split at h
    · cases h
    · rename_i ne nEntry hne
      obtain ⟨hn1, hn1id⟩ := entryIndex_small (e := te.names) hs.names hne
      split at h
      · cases h
      · rename_i pe' pIdx hpi
        obtain ⟨hp2, hpid⟩ := prefixTermIndex_small (e := pe) hp1.1 hpi
        split at h
        · cases h
        · rename_i ne' nIdx hni
          obtain ⟨hn2, hnid⟩ := nameTermIndex_small (e := ne) hn1 hni
          simp only [Prod.mk.injEq, Except.ok.injEq] at h
          obtain ⟨rfl, rfl, rfl, rfl⟩ := h
          refine ⟨⟨hn2, hp2, hs.datatypes⟩, ?_, hpid, hnid⟩
          intro r hr
          rcases List.mem_append.1 hr with hr | hr
          · split at hr
            · simp only [List.mem_singleton] at hr
              subst hr
              simpa [Row.wireWF] using wireWF_of_le_max (hp1.2 _ rfl)
            · simp at hr
          · split at hr
            · simp only [List.mem_singleton] at hr
              subst hr
              simpa [Row.wireWF] using wireWF_of_le_max (hn1id _ rfl)
            · simp at hr

/-- The language-tag kind computed at the top of `encode_literal`. -/
def langKindOf (lang : Option String) : WLitKind :=
  match lang with
  | some l => if l != "" then .lang l else .plain
  | none => .plain

theorem langKindOf_ne_dt (lang : Option String) (id : Nat) : langKindOf lang ≠ .dt id := by
  unfold langKindOf
  intro h
  split at h
  · split at h <;> cases h
  · cases h

/-- `TermEnc.literal` with the language kind abstracted. -/
def TermEnc.literalWith (te : TermEnc) (langKind : WLitKind) (dt : Option String) :
    Res TermEnc (List Row × WLitKind) :=
  match dt with
  | some d =>
    if d != "" && d != XSD_STRING then
      if te.datatypes.lookup.maxSize == 0 then (te, .error .conformance)
      else
        match te.datatypes.entryIndex d with
        | .error e => (te, .error e)
        | .ok (de, dEntry) =>
          let te1 := { te with datatypes := de }
          let rows := match dEntry with | some id => [Row.dtEntry id d] | none => []
          match te1.datatypes.datatypeTermIndex d with
          | .error e => (te1, .error e)
          | .ok (de', id) =>
            ({ te1 with datatypes := de' }, .ok (rows, if id != 0 then .dt id else langKind))
    else (te, .ok ([], langKind))
  | none => (te, .ok ([], langKind))

theorem TermEnc.literal_eq_with (te : TermEnc) (lang dt : Option String) :
    te.literal lang dt = te.literalWith (langKindOf lang) dt := rfl

theorem literalWith_small (te te' : TermEnc) (lk : WLitKind) (dt : Option String) (rows : List Row)
    (k : WLitKind) (hlk : ∀ id, lk = .dt id → id ≤ MAX_LOOKUP_SIZE)
    (hs : te.Small) (h : te.literalWith lk dt = (te', .ok (rows, k))) :
    te'.Small ∧ (∀ r ∈ rows, r.wireWF = true) ∧ ∀ id, k = .dt id → id ≤ MAX_LOOKUP_SIZE := by
  unfold TermEnc.literalWith at h
  dsimp only at h
  split at h
  · split at h
    · split at h
      · cases h
      · split at h
        · cases h
        · rename_i de dEntry hde
          obtain ⟨hd1, hd1id⟩ := entryIndex_small (e := te.datatypes) hs.datatypes hde
          split at h
          · cases h
          · rename_i de' id hdi
            obtain ⟨hd2, hdid⟩ := datatypeTermIndex_small (e := de) hd1 hdi
            simp only [Prod.mk.injEq, Except.ok.injEq] at h
            obtain ⟨rfl, rfl, rfl⟩ := h
            refine ⟨⟨hs.names, hs.prefixes, hd2⟩, ?_, ?_⟩
            · intro r hr
              split at hr
              · simp only [List.mem_singleton] at hr
                subst hr
                simpa [Row.wireWF] using wireWF_of_le_max (hd1id _ rfl)
              · simp at hr
            · intro id' hid'
              split at hid'
              · simp only [WLitKind.dt.injEq] at hid'
                subst hid'
                exact hdid
              · exact hlk id' hid'
    · simp only [Prod.mk.injEq, Except.ok.injEq] at h
      obtain ⟨rfl, rfl, rfl⟩ := h
      exact ⟨hs, by simp, hlk⟩
  · simp only [Prod.mk.injEq, Except.ok.injEq] at h
    obtain ⟨rfl, rfl, rfl⟩ := h
    exact ⟨hs, by simp, hlk⟩

theorem literal_small (te te' : TermEnc) (lang dt : Option String) (rows : List Row) (k : WLitKind)
    (hs : te.Small) (h : te.literal lang dt = (te', .ok (rows, k))) :
    te'.Small ∧ (∀ r ∈ rows, r.wireWF = true) ∧ ∀ id, k = .dt id → id ≤ MAX_LOOKUP_SIZE := by
  rw [TermEnc.literal_eq_with] at h
  exact literalWith_small te te' _ dt rows k
    (fun id hid => absurd hid (langKindOf_ne_dt lang id)) hs h

/-- Nesting depth of quoted triples in an input term. -/
def Term.qdepth : Term → Nat
  | .quoted s p o => 1 + max s.qdepth (max p.qdepth o.qdepth)
  | _ => 0

theorem literal_wfSpo (lex : String) (k : WLitKind) (h : ∀ id, k = .dt id → id ≤ MAX_LOOKUP_SIZE) :
    (WTerm.literal lex k).wfSpo = true := by
  cases k with
  | plain => rfl
  | lang l => rfl
  | dt id => simpa [WTerm.wfSpo] using wireWF_of_le_max (h id rfl)

theorem spo_small (t : Term) : ∀ (te te' : TermEnc) (rows : List Row) (w : WTerm), te.Small →
    te.spo t = (te', .ok (rows, w)) →
    te'.Small ∧ (∀ r ∈ rows, r.wireWF = true) ∧ w.wfSpo = true ∧ w.depth = t.qdepth := by
  induction t with
  | iri s =>
    intro te te' rows w hs h
    simp only [TermEnc.spo] at h
    split at h
    · cases h
    · rename_i hi
      simp only [Prod.mk.injEq, Except.ok.injEq] at h
      obtain ⟨rfl, rfl, rfl⟩ := h
      obtain ⟨a, b, c, d⟩ := iriIndices_small _ _ _ _ _ _ hs hi
      refine ⟨a, b, ?_, rfl⟩
      simp [WTerm.wfSpo, wireWF_of_le_max c, wireWF_of_le_max d]
  | lit lex lang dt =>
    intro te te' rows w hs h
    simp only [TermEnc.spo] at h
    split at h
    · cases h
    · rename_i hi
      simp only [Prod.mk.injEq, Except.ok.injEq] at h
      obtain ⟨rfl, rfl, rfl⟩ := h
      obtain ⟨a, b, c⟩ := literal_small _ _ _ _ _ _ hs hi
      exact ⟨a, b, literal_wfSpo _ _ c, rfl⟩
  | bnode b =>
    intro te te' rows w hs h
    simp only [TermEnc.spo, Prod.mk.injEq, Except.ok.injEq] at h
    obtain ⟨rfl, rfl, rfl⟩ := h
    exact ⟨hs, by simp, rfl, rfl⟩
  | quoted s p o ihs ihp iho =>
    intro te te' rows w hs h
    simp only [TermEnc.spo] at h
    split at h
    · cases h
    · rename_i h1
      split at h
      · cases h
      · rename_i h2
        split at h
        · cases h
        · rename_i h3
          simp only [Prod.mk.injEq, Except.ok.injEq] at h
          obtain ⟨rfl, rfl, rfl⟩ := h
          obtain ⟨a1, b1, c1, d1⟩ := ihs _ _ _ _ hs h1
          obtain ⟨a2, b2, c2, d2⟩ := ihp _ _ _ _ a1 h2
          obtain ⟨a3, b3, c3, d3⟩ := iho _ _ _ _ a2 h3
          refine ⟨a3, ?_, ?_, ?_⟩
          · intro r hr
            simp only [List.mem_append] at hr
            rcases hr with (hr | hr) | hr
            · exact b1 r hr
            · exact b2 r hr
            · exact b3 r hr
          · simp [WTerm.wfSpo, WTerm.wfOptSpo, c1, c2, c3]
          · simp [WTerm.depth, WTerm.depth.optDepth, Term.qdepth, d1, d2, d3]
  | defaultGraph => intro te te' rows w _ h; simp [TermEnc.spo] at h
  | unsupported => intro te te' rows w _ h; simp [TermEnc.spo] at h

theorem graph_small (t : Term) (te te' : TermEnc) (rows : List Row) (w : WTerm) (hs : te.Small)
    (h : te.graph t = (te', .ok (rows, w))) :
    te'.Small ∧ (∀ r ∈ rows, r.wireWF = true) ∧ w.wfGraph = true := by
  cases t with
  | iri s =>
    simp only [TermEnc.graph] at h
    split at h
    · cases h
    · rename_i hi
      simp only [Prod.mk.injEq, Except.ok.injEq] at h
      obtain ⟨rfl, rfl, rfl⟩ := h
      obtain ⟨a, b, c, d⟩ := iriIndices_small _ _ _ _ _ _ hs hi
      refine ⟨a, b, ?_⟩
      simp [WTerm.wfGraph, WTerm.wfSpo, wireWF_of_le_max c, wireWF_of_le_max d]
  | lit lex lang dt =>
    simp only [TermEnc.graph] at h
    split at h
    · cases h
    · rename_i hi
      simp only [Prod.mk.injEq, Except.ok.injEq] at h
      obtain ⟨rfl, rfl, rfl⟩ := h
      obtain ⟨a, b, c⟩ := literal_small _ _ _ _ _ _ hs hi
      exact ⟨a, b, by simpa [WTerm.wfGraph] using literal_wfSpo _ _ c⟩
  | bnode b =>
    simp only [TermEnc.graph, Prod.mk.injEq, Except.ok.injEq] at h
    obtain ⟨rfl, rfl, rfl⟩ := h
    exact ⟨hs, by simp, rfl⟩
  | defaultGraph =>
    simp only [TermEnc.graph, Prod.mk.injEq, Except.ok.injEq] at h
    obtain ⟨rfl, rfl, rfl⟩ := h
    exact ⟨hs, by simp, rfl⟩
  | quoted s p o => simp [TermEnc.graph] at h
  | unsupported => simp [TermEnc.graph] at h

/-! ## Statement encoders -/

theorem encSlot_spo_small (te te' : TermEnc) (prev prev' : Option Term) (t : Term) (rows : List Row)
    (w : Option WTerm) (hs : te.Small)
    (h : encSlot TermEnc.spo te prev t = (te', prev', .ok (rows, w))) :
    te'.Small ∧ (∀ r ∈ rows, r.wireWF = true) ∧ WTerm.wfOptSpo w = true ∧
      WTerm.depth.optDepth w ≤ t.qdepth := by
  unfold encSlot at h
  split at h
  · simp only [Prod.mk.injEq, Except.ok.injEq] at h
    obtain ⟨rfl, _, rfl, rfl⟩ := h
    exact ⟨hs, by simp, rfl, Nat.zero_le _⟩
  · split at h
    · simp at h
    · rename_i hi
      simp only [Prod.mk.injEq, Except.ok.injEq] at h
      obtain ⟨rfl, _, rfl, rfl⟩ := h
      obtain ⟨a, b, c, d⟩ := spo_small _ _ _ _ _ hs hi
      exact ⟨a, b, by simpa [WTerm.wfOptSpo] using c, by simp [WTerm.depth.optDepth, d]⟩

theorem encSlot_graph_small (te te' : TermEnc) (prev prev' : Option Term) (t : Term) (rows : List Row)
    (w : Option WTerm) (hs : te.Small)
    (h : encSlot TermEnc.graph te prev t = (te', prev', .ok (rows, w))) :
    te'.Small ∧ (∀ r ∈ rows, r.wireWF = true) ∧ optWfGraph w = true := by
  unfold encSlot at h
  split at h
  · simp only [Prod.mk.injEq, Except.ok.injEq] at h
    obtain ⟨rfl, _, rfl, rfl⟩ := h
    exact ⟨hs, by simp, rfl⟩
  · split at h
    · simp at h
    · rename_i hi
      simp only [Prod.mk.injEq, Except.ok.injEq] at h
      obtain ⟨rfl, _, rfl, rfl⟩ := h
      obtain ⟨a, b, c⟩ := graph_small _ _ _ _ _ hs hi
      exact ⟨a, b, by simpa [optWfGraph] using c⟩

/-- All terms of a statement nest shallowly enough for the protobuf recursion limit. -/
def ShallowTerms (t : List Term) : Prop := ∀ x ∈ t, x.qdepth + 2 < depthLimit

theorem triple_row_wireWF {a b c : Term} {ws wp wo : Option WTerm}
    (h1 : WTerm.wfOptSpo ws = true) (h2 : WTerm.wfOptSpo wp = true) (h3 : WTerm.wfOptSpo wo = true)
    (d1 : WTerm.depth.optDepth ws ≤ a.qdepth) (d2 : WTerm.depth.optDepth wp ≤ b.qdepth)
    (d3 : WTerm.depth.optDepth wo ≤ c.qdepth)
    (ha : a.qdepth + 2 < depthLimit) (hb : b.qdepth + 2 < depthLimit) (hc : c.qdepth + 2 < depthLimit) :
    (Row.triple ws wp wo).wireWF = true := by
  simp only [Row.wireWF, h1, h2, h3, Bool.and_self, Bool.true_and, Bool.and_eq_true, decide_eq_true_eq]
  omega

theorem quad_row_wireWF {a b c : Term} {ws wp wo wg : Option WTerm}
    (h1 : WTerm.wfOptSpo ws = true) (h2 : WTerm.wfOptSpo wp = true) (h3 : WTerm.wfOptSpo wo = true)
    (h4 : optWfGraph wg = true)
    (d1 : WTerm.depth.optDepth ws ≤ a.qdepth) (d2 : WTerm.depth.optDepth wp ≤ b.qdepth)
    (d3 : WTerm.depth.optDepth wo ≤ c.qdepth)
    (ha : a.qdepth + 2 < depthLimit) (hb : b.qdepth + 2 < depthLimit) (hc : c.qdepth + 2 < depthLimit) :
    (Row.quad ws wp wo wg).wireWF = true := by
  simp only [Row.wireWF, h1, h2, h3, h4, Bool.and_self, Bool.true_and, Bool.and_eq_true, decide_eq_true_eq]
  omega

theorem encodeTripleBody_small (exc : PyErr) (st st' : EncState) (terms : List Term) (rows : List Row)
    (hs : st.te.Small) (hd : ShallowTerms terms)
    (h : encodeTripleBody exc st terms = (st', .ok rows)) :
    st'.te.Small ∧ ∀ r ∈ rows, r.wireWF = true := by
  rcases terms with _ | ⟨a, _ | ⟨b, _ | ⟨c, rest⟩⟩⟩
  · simp [encodeTripleBody] at h
  · simp only [encodeTripleBody] at h
    split at h <;> simp at h
  · simp only [encodeTripleBody] at h
    split at h
    · simp at h
    · split at h <;> simp at h
  · simp only [encodeTripleBody] at h
    split at h
    · simp at h
    · rename_i h1
      split at h
      · simp at h
      · rename_i h2
        split at h
        · simp at h
        · rename_i h3
          simp only [Prod.mk.injEq, Except.ok.injEq] at h
          obtain ⟨rfl, rfl⟩ := h
          obtain ⟨s1, r1, w1, d1⟩ := encSlot_spo_small _ _ _ _ _ _ _ hs h1
          obtain ⟨s2, r2, w2, d2⟩ := encSlot_spo_small _ _ _ _ _ _ _ s1 h2
          obtain ⟨s3, r3, w3, d3⟩ := encSlot_spo_small _ _ _ _ _ _ _ s2 h3
          refine ⟨s3, ?_⟩
          intro r hr
          simp only [List.mem_append, List.mem_singleton] at hr
          rcases hr with ((hr | hr) | hr) | rfl
          · exact r1 r hr
          · exact r2 r hr
          · exact r3 r hr
          · exact triple_row_wireWF w1 w2 w3 d1 d2 d3 (hd a (by simp)) (hd b (by simp)) (hd c (by simp))

theorem encodeTriple_small (exc : PyErr) (st st' : EncState) (terms : List Term) (rows : List Row)
    (hs : st.te.Small) (hd : ShallowTerms terms)
    (h : encodeTriple exc st terms = (st', .ok rows)) :
    st'.te.Small ∧ ∀ r ∈ rows, r.wireWF = true := by
  obtain ⟨_, st1, hb, rfl⟩ := encodeTriple_ok_inv h
  obtain ⟨a, b⟩ := encodeTripleBody_small exc _ st1 terms rows hs.startRow hd hb
  exact ⟨a.endRow, b⟩

theorem encodeQuadBody_small (exc : PyErr) (st st' : EncState) (terms : List Term) (rows : List Row)
    (hs : st.te.Small) (hd : ShallowTerms terms)
    (h : encodeQuadBody exc st terms = (st', .ok rows)) :
    st'.te.Small ∧ ∀ r ∈ rows, r.wireWF = true := by
  rcases terms with _ | ⟨a, _ | ⟨b, _ | ⟨c, _ | ⟨g, rest⟩⟩⟩⟩
  · simp [encodeQuadBody] at h
  · simp only [encodeQuadBody] at h
    split at h <;> simp at h
  · simp only [encodeQuadBody] at h
    split at h
    · simp at h
    · split at h <;> simp at h
  · simp only [encodeQuadBody] at h
    split at h
    · simp at h
    · split at h
      · simp at h
      · split at h <;> simp at h
  · simp only [encodeQuadBody] at h
    split at h
    · simp at h
    · rename_i h1
      split at h
      · simp at h
      · rename_i h2
        split at h
        · simp at h
        · rename_i h3
          split at h
          · simp at h
          · rename_i h4
            simp only [Prod.mk.injEq, Except.ok.injEq] at h
            obtain ⟨rfl, rfl⟩ := h
            obtain ⟨s1, r1, w1, d1⟩ := encSlot_spo_small _ _ _ _ _ _ _ hs h1
            obtain ⟨s2, r2, w2, d2⟩ := encSlot_spo_small _ _ _ _ _ _ _ s1 h2
            obtain ⟨s3, r3, w3, d3⟩ := encSlot_spo_small _ _ _ _ _ _ _ s2 h3
            obtain ⟨s4, r4, w4⟩ := encSlot_graph_small _ _ _ _ _ _ _ s3 h4
            refine ⟨s4, ?_⟩
            intro r hr
            simp only [List.mem_append, List.mem_singleton] at hr
            rcases hr with (((hr | hr) | hr) | hr) | rfl
            · exact r1 r hr
            · exact r2 r hr
            · exact r3 r hr
            · exact r4 r hr
            · exact quad_row_wireWF w1 w2 w3 w4 d1 d2 d3 (hd a (by simp)) (hd b (by simp))
                (hd c (by simp))

theorem encodeQuad_small (exc : PyErr) (st st' : EncState) (terms : List Term) (rows : List Row)
    (hs : st.te.Small) (hd : ShallowTerms terms)
    (h : encodeQuad exc st terms = (st', .ok rows)) :
    st'.te.Small ∧ ∀ r ∈ rows, r.wireWF = true := by
  obtain ⟨_, st1, hb, rfl⟩ := encodeQuad_ok_inv h
  obtain ⟨a, b⟩ := encodeQuadBody_small exc _ st1 terms rows hs.startRow hd hb
  exact ⟨a.endRow, b⟩

/-! ## Streams and runs -/

/-- Every row of the frames `frs` and of the flow `f` is `wireWF`, and no frame has metadata. -/
def RowsWireWF (frs : List Frame) (f : Flow) : Prop :=
  (∀ fr ∈ frs, (∀ x ∈ fr.rows, x.wireWF = true) ∧ fr.metadata = []) ∧ (∀ x ∈ f.rows, x.wireWF = true)

theorem rowsWireWF_iff (frs : List Frame) (f : Flow) :
    RowsWireWF frs f ↔ (∀ fr ∈ frs, (∀ x ∈ fr.rows, x.wireWF = true) ∧ fr.metadata = []) ∧
      (∀ x ∈ f.rows, x.wireWF = true) := Iff.rfl

theorem RowsWireWF.nil {f : Flow} (h : ∀ x ∈ f.rows, x.wireWF = true) : RowsWireWF [] f :=
  ⟨by simp, h⟩

theorem RowsWireWF.append {a b : List Frame} {f g : Flow} (h₁ : RowsWireWF a f) (h₂ : RowsWireWF b g) :
    RowsWireWF (a ++ b) g := by
  refine ⟨fun fr hfr => ?_, h₂.2⟩
  rcases List.mem_append.1 hfr with hfr | hfr
  · exact h₁.1 fr hfr
  · exact h₂.1 fr hfr

theorem Flow.IsCut.rowsWF {f : Flow} {x : Flow × Option Frame} (h : f.IsCut x)
    (hf : ∀ r ∈ f.rows, r.wireWF = true) : RowsWireWF x.2.toList x.1 := by
  rcases h with rfl | ⟨_, rfl⟩
  · exact .nil hf
  · exact ⟨by simpa using hf, by simp⟩

theorem Stream.emit_rowsWF (s : Stream) (rows : List Row) (hs : ∀ x ∈ s.flow.rows, x.wireWF = true)
    (hr : ∀ x ∈ rows, x.wireWF = true) : RowsWireWF (s.emit rows).2.toList (s.emit rows).1.flow := by
  refine (Flow.frameFromBounds_isCut (s.pushRows rows).flow).rowsWF ?_
  intro x hx
  simp only [Stream.pushRows, List.mem_append] at hx
  rcases hx with hx | hx
  · exact hs x hx
  · exact hr x hx

/-- The run invariant: all rows handed out or pending are `wireWF`; as long as nothing failed the
    tables are well-formed and small. -/
def Run.WFR (r : Run) : Prop :=
  RowsWireWF r.frames r.stream.flow ∧ (r.err = none → r.stream.enc.te.Small)

/-- A statement step that keeps the invariant. -/
def WireWFStep (step : Stream → List Term → Res Stream (Option Frame)) : Prop :=
  ∀ (s : Stream) (t : List Term), s.enc.te.Small → (∀ x ∈ s.flow.rows, x.wireWF = true) → ShallowTerms t →
    RowsWireWF (resFrames (step s t).2) (step s t).1.flow ∧
    (resErr (step s t).2 = none → (step s t).1.enc.te.Small)

theorem Stream.triple_wfStep (exc : PyErr) : WireWFStep (Stream.triple exc) := by
  intro s t hsm hs hd
  rw [Stream.triple_eq]
  rcases h : encodeTriple exc s.enc t with ⟨enc', e | rows⟩
  · exact ⟨.nil hs, by simp⟩
  · obtain ⟨a, b⟩ := encodeTriple_small _ _ _ _ _ hsm hd h
    exact ⟨Stream.emit_rowsWF { s with enc := enc' } rows hs b, fun _ => a⟩

theorem Stream.quad_wfStep (exc : PyErr) : WireWFStep (Stream.quad exc) := by
  intro s t hsm hs hd
  rw [Stream.quad_eq]
  rcases h : encodeQuad exc s.enc t with ⟨enc', e | rows⟩
  · exact ⟨.nil hs, by simp⟩
  · obtain ⟨a, b⟩ := encodeQuad_small _ _ _ _ _ hsm hd h
    exact ⟨Stream.emit_rowsWF { s with enc := enc' } rows hs b, fun _ => a⟩

theorem stmtLoop_wfr {step : Stream → List Term → Res Stream (Option Frame)} (hs : WireWFStep step)
    (ts : List (List Term)) (hd : ∀ t ∈ ts, ShallowTerms t) {r : Run} (h : r.WFR) (he : r.err = none) :
    (stmtLoop step r ts).WFR := by
  induction ts generalizing r with
  | nil => exact h
  | cons t ts ih =>
    have hc := hs r.stream t (h.2 he) ((rowsWireWF_iff _ _).1 h.1).2 (hd t (by simp))
    rw [stmtLoop_cons]
    generalize step r.stream t = x at hc ⊢
    rcases x with ⟨s', e | fr⟩
    · exact ⟨by simpa using RowsWireWF.append h.1 hc.1, by simp⟩
    · exact ih (fun t' ht' => hd t' (by simp [ht'])) ⟨RowsWireWF.append h.1 hc.1, fun _ => hc.2 rfl⟩ he

theorem Stream.graphTriples_wf (exc : PyErr) (s : Stream) (ts : List (List Term)) (acc : List Frame)
    (h : RowsWireWF acc s.flow) (hsm : s.enc.te.Small) (hd : ∀ t ∈ ts, ShallowTerms t) :
    RowsWireWF (Stream.graphTriples exc s ts acc).2.1 (Stream.graphTriples exc s ts acc).1.flow ∧
    ((Stream.graphTriples exc s ts acc).2.2 = none → (Stream.graphTriples exc s ts acc).1.enc.te.Small) := by
  induction ts generalizing s acc with
  | nil => exact ⟨h, fun _ => hsm⟩
  | cons t ts ih =>
    have hc := Stream.triple_wfStep exc s t hsm ((rowsWireWF_iff _ _).1 h).2 (hd t (by simp))
    rw [Stream.graphTriples_cons]
    generalize s.triple exc t = x at hc ⊢
    rcases x with ⟨s', e | fr⟩
    · exact ⟨by simpa using RowsWireWF.append h hc.1, by simp⟩
    · exact ih s' _ (RowsWireWF.append h hc.1) (hc.2 rfl) (fun t' ht' => hd t' (by simp [ht']))

theorem Stream.graph_wf (exc : PyErr) (s : Stream) (g : Term) (ts : List (List Term))
    (hsm : s.enc.te.Small) (hs : ∀ x ∈ s.flow.rows, x.wireWF = true) (hd : ∀ t ∈ ts, ShallowTerms t) :
    RowsWireWF (s.graph exc g ts).2.1 (s.graph exc g ts).1.flow ∧
    ((s.graph exc g ts).2.2 = none → (s.graph exc g ts).1.enc.te.Small) := by
  rw [Stream.graph_eq]
  cases hbk : s.enc.te.broken with
  | true => rw [TermEnc.beginRow_broken hbk]; exact ⟨.nil hs, by simp⟩
  | false =>
  rw [TermEnc.beginRow_ok hbk]
  dsimp only
  rcases hg : s.enc.te.startRow.graph g with ⟨te', e | ⟨rows, w⟩⟩
  · exact ⟨.nil hs, by simp⟩
  · dsimp only
    obtain ⟨a, b, c⟩ := graph_small _ _ _ _ _ hsm.startRow hg
    have h0 : RowsWireWF [] (({ s with enc := { s.enc with te := te'.endRow } } : Stream).pushRows
        (rows ++ [Row.graphStart (some w)])).flow := by
      refine .nil ?_
      intro x hx
      simp only [Stream.pushRows, List.mem_append, List.mem_singleton] at hx
      rcases hx with hx | hx | rfl
      · exact hs x hx
      · exact b x hx
      · simpa [Row.wireWF, optWfGraph] using c
    have hk := Stream.graphTriples_wf exc _ ts [] h0 a.endRow hd
    generalize Stream.graphTriples exc _ ts [] = x at hk ⊢
    rcases x with ⟨s2, frs, _ | e⟩
    · exact ⟨RowsWireWF.append hk.1
        (Stream.emit_rowsWF s2 [Row.graphEnd] ((rowsWireWF_iff _ _).1 hk.1).2 (by simp [Row.wireWF])),
        fun _ => hk.2 rfl⟩
    · exact ⟨hk.1, by simp⟩

theorem Run.WFR.graphStep {r : Run} (h : r.WFR) (he : r.err = none) (g : Term) (ts : List (List Term))
    (hd : ∀ t ∈ ts, ShallowTerms t) : (r.graphStep g ts).WFR := by
  obtain ⟨a, b⟩ := Stream.graph_wf .runtimeError r.stream g ts (h.2 he) ((rowsWireWF_iff _ _).1 h.1).2 hd
  exact ⟨RowsWireWF.append h.1 a, b⟩

theorem ShallowTerms.take {t : List Term} (h : ShallowTerms t) (n : Nat) : ShallowTerms (t.take n) :=
  fun x hx => h x (List.mem_of_mem_take hx)

theorem graphsLoop_wfr (ts : List (List Term)) (hd : ∀ t ∈ ts, ShallowTerms t) {r : Run} (h : r.WFR)
    (he : r.err = none) (cur : Option (Term × List (List Term)))
    (hcur : ∀ c ∈ cur, ∀ t ∈ c.2, ShallowTerms t) : (graphsLoop r cur ts).WFR := by
  induction ts generalizing r cur with
  | nil =>
    rw [graphsLoop_nil]
    rcases cur with _ | ⟨g, acc⟩
    · exact h
    · exact h.graphStep he g acc (hcur (g, acc) rfl)
  | cons st rest ih =>
    have hst : ShallowTerms (st.take 3) := (hd st (by simp)).take 3
    have hrest : ∀ t ∈ rest, ShallowTerms t := fun t ht => hd t (by simp [ht])
    rw [graphsLoop_cons]
    rcases stmtGraph? st with _ | g
    · exact ⟨h.1, by simp⟩
    · rcases cur with _ | ⟨cg, acc⟩
      · refine ih hrest h he _ ?_
        intro c hc t ht
        cases hc
        simp only [List.mem_singleton] at ht
        subst ht
        exact hst
      · dsimp only
        have hacc : ∀ t ∈ acc, ShallowTerms t := hcur (cg, acc) rfl
        split
        · refine ih hrest h he _ ?_
          intro c hc t ht
          cases hc
          simp only [List.mem_append, List.mem_singleton] at ht
          rcases ht with ht | rfl
          · exact hacc t ht
          · exact hst
        · split
          · exact h.graphStep he cg acc hacc
          · rename_i hne
            refine ih hrest (h.graphStep he cg acc hacc) (by simpa using hne) _ ?_
            intro c hc t ht
            cases hc
            simp only [List.mem_singleton] at ht
            subst ht
            exact hst

theorem Run.WFR.pushCut {r : Run} (h : r.WFR) {x : Flow × Option Frame}
    (hx : r.stream.flow.IsCut x) : (r.pushCut x).WFR :=
  ⟨RowsWireWF.append h.1 (hx.rowsWF h.1.2), h.2⟩

theorem epilogue_wfr {r : Run} (h : r.WFR) (b : Bool) : (epilogue r b).WFR := by
  rw [epilogue_eq]
  exact (h.pushCut (epiCut_isCut b _)).pushCut (Flow.toStreamFrame_isCut _)

theorem classLoop_wfr (c : StreamClass) {r : Run} (h : r.WFR) (he : r.err = none)
    (ts : List (List Term)) (hd : ∀ t ∈ ts, ShallowTerms t) : (classLoop c r ts).WFR := by
  cases c
  · exact stmtLoop_wfr (Stream.triple_wfStep _) ts hd h he
  · exact stmtLoop_wfr (Stream.quad_wfStep _) ts hd h he
  · exact graphsLoop_wfr ts hd h he none (by intro c hc; cases hc)

theorem Stream.enroll_rows_wf (s : Stream) (hs : ∀ x ∈ s.flow.rows, x.wireWF = true)
    (ho : s.optionsRow.wireWF = true) : ∀ x ∈ s.enroll.flow.rows, x.wireWF = true := by
  unfold Stream.enroll
  split
  · exact hs
  · intro x hx
    simp only [Stream.pushRows, List.mem_append, List.mem_singleton] at hx
    rcases hx with hx | rfl
    · exact hs x hx
    · exact ho

/-- The invariant holds for a whole run over plain statements. -/
theorem streamFrames_wfr (s : Stream) (stmts : List (List Term)) (hsm : s.enc.te.Small)
    (hs : ∀ x ∈ s.flow.rows, x.wireWF = true) (ho : s.optionsRow.wireWF = true)
    (hd : ∀ t ∈ stmts, ShallowTerms t) : (streamFrames s (.gen stmts)).WFR := by
  rw [streamFrames_eq, framesWith_eq, prologue_gen]
  dsimp only
  have h0 : Run.WFR { stream := s.enroll } :=
    ⟨.nil (s.enroll_rows_wf hs ho), fun _ => by rw [Stream.enroll_enc]; exact hsm⟩
  have hl := classLoop_wfr s.cls h0 rfl stmts hd
  split
  · exact hl
  · exact epilogue_wfr hl _

theorem Stream.new_small {cls : StreamClass} {o : SerOptions} {s : Stream} (hs : Stream.new cls o = .ok s)
    (hp : o.preset.maxNames ≤ MAX_LOOKUP_SIZE ∧ o.preset.maxPrefixes ≤ MAX_LOOKUP_SIZE ∧
      o.preset.maxDatatypes ≤ MAX_LOOKUP_SIZE) (hl : s.logicalType < 2 ^ 32) :
    s.enc.te.Small ∧ s.flow.rows = [] ∧ s.optionsRow.wireWF = true := by
  obtain ⟨_, hcls, hopts, henc, hrows, _, _⟩ := Stream.new_spec hs
  refine ⟨?_, hrows, ?_⟩
  · rw [henc]
    exact ⟨.new _ hp.1, .new _ hp.2.1, .new _ hp.2.2⟩
  · have h1 := wireWF_of_le_max hp.1
    have h2 := wireWF_of_le_max hp.2.1
    have h3 := wireWF_of_le_max hp.2.2
    have h4 : cls.physical < U32 := by cases cls <;> simp [StreamClass.physical, U32]
    have h5 : o.params.version < U32 := by
      simp only [Params.version, U32]; split <;> omega
    have h6 : s.logicalType < U32 := hl
    simp [Row.wireWF, Stream.optionsRow, Options.wf, hcls, hopts, h1, h2, h3, h4, h5, h6]

/-! ## Part 2: from frames to bytes and back through `parseFlat` -/

theorem optionsFromFrame_delimited_field {f : Frame} {dl : Bool} {opts : ParserOptions}
    (h : optionsFromFrame f dl = .ok opts) : opts.delimited = dl := by
  unfold optionsFromFrame at h
  cases hr : f.rows with
  | nil => rw [hr] at h; cases h
  | cons r rs =>
    rw [hr] at h
    cases r <;>
    · dsimp only at h
      split at h
      · cases h
      · split at h
        · cases h
        · injection h with h
          subst h
          rfl

theorem encFrame_length_ge_two (f : Frame) (hne : f.rows ≠ []) : 2 ≤ (encFrame f).length := by
  cases hr : f.rows with
  | nil => exact absurd hr hne
  | cons r rs =>
    have := varint_length_pos (encRow r).length
    simp only [encFrame, hr, List.flatMap_cons, lenDelim_one, List.length_append, List.length_cons]
    omega

theorem writeDelimited_length_ge_three (f : Frame) (hne : f.rows ≠ []) :
    3 ≤ (writeDelimited f).length := by
  have h1 := encFrame_length_ge_two f hne
  have h2 := varint_length_pos (encFrame f).length
  simp only [writeDelimited, List.length_append]
  omega

/-- What `parseFlat` computes once the framing stage has produced `frames` and `opts`. -/
theorem parseFlat_of_opened (b : Bytes) (opened : Opened) (frames : List Frame) (first : Frame)
    (evs : List Event)
    (hgo : getOptionsAndFrames .seekable b = .ok opened)
    (hfirst : frames.find? (fun f => !f.rows.isEmpty) = some first)
    (hopts : optionsFromFrame first opened.opts.delimited = .ok opened.opts)
    (hframes : opened.frames = (frames, none))
    (hpf : parseFrames frames opened.opts.delimited = .ok evs) :
    parseFlat .seekable b false true = { events := evs, err := none } := by
  unfold parseFrames at hpf
  rw [hfirst] at hpf
  dsimp only at hpf
  rw [hopts] at hpf
  dsimp only at hpf
  cases ha : adapterFor opened.opts.physical with
  | error e => rw [ha] at hpf; cases hpf
  | ok adapter =>
    rw [ha] at hpf
    dsimp only at hpf
    cases hd : DecState.new opened.opts adapter with
    | error e => rw [hd] at hpf; cases hpf
    | ok d =>
      rw [hd] at hpf
      dsimp only at hpf
      rcases hdf : decodeFrames true d frames [] with ⟨done, part, _ | e⟩
      · rw [hdf] at hpf
        simp only [Except.ok.injEq] at hpf
        simp only [parseFlat, parseCore, hgo, ha, hd, hframes, hdf]
        simp [hpf]
      · rw [hdf] at hpf
        cases hpf

/-- Delimited framing: the flat parser, given `write_delimited` of each frame, does what
    `parseFrames` does on the frames. -/
theorem parseFlat_delimited_of_frames (f₀ : Frame) (tail : List Frame) (evs : List Event)
    (hne : f₀.rows ≠ [])
    (hwf : ∀ f ∈ f₀ :: tail, ∀ r ∈ f.rows, r.wireWF = true)
    (hm : ∀ f ∈ f₀ :: tail, f.metadata = [])
    (hlen : ∀ f ∈ f₀ :: tail, (encFrame f).length < 2 ^ 32)
    (hpf : parseFrames (f₀ :: tail) true = .ok evs) :
    parseFlat .seekable ((f₀ :: tail).flatMap writeDelimited) false true
      = { events := evs, err := none } := by
  have hfirst : (f₀ :: tail).find? (fun f => !f.rows.isEmpty) = some f₀ := by
    rw [List.find?_cons_of_pos]
    cases hr : f₀.rows with
    | nil => exact absurd hr hne
    | cons a as => rfl
  -- the options of the first frame
  have hpf' := hpf
  unfold parseFrames at hpf'
  rw [hfirst] at hpf'
  dsimp only at hpf'
  cases ho : optionsFromFrame f₀ true with
  | error e => rw [ho] at hpf'; cases hpf'
  | ok opts =>
    have hdl : opts.delimited = true := optionsFromFrame_delimited_field ho
    rw [List.flatMap_cons]
    have h3 : 3 ≤ (writeDelimited f₀ ++ tail.flatMap writeDelimited).length := by
      have := writeDelimited_length_ge_three f₀ hne
      simp only [List.length_append]
      omega
    have hhint := C08_hint_delimited f₀ (tail.flatMap writeDelimited) (fun h => absurd h hne) h3
    have hplp : parseLengthPrefixed (writeDelimited f₀ ++ tail.flatMap writeDelimited)
        = .frame f₀ (tail.flatMap writeDelimited) :=
      parseLengthPrefixed_write f₀ (fun r hr => rowOk_of_wireWF r (hwf f₀ (by simp) r hr))
        (hm f₀ (by simp)) (by have := hlen f₀ (by simp); omega) _
    have hfne : firstNonEmpty ((writeDelimited f₀ ++ tail.flatMap writeDelimited).length + 1)
        (writeDelimited f₀ ++ tail.flatMap writeDelimited) []
        = .ok ([], f₀, tail.flatMap writeDelimited) := by
      simp only [firstNonEmpty, hplp]
      cases hr : f₀.rows with
      | nil => exact absurd hr hne
      | cons a as => simp
    have hgo : getOptionsAndFrames .seekable (writeDelimited f₀ ++ tail.flatMap writeDelimited)
        = .ok { opts := opts, pending := [f₀], rest := tail.flatMap writeDelimited } := by
      unfold getOptionsAndFrames
      simp only [SourceKind.header, hhint, if_true, hfne, ho, List.nil_append]
    have hrest := wire_delimited_roundtrip tail (fun f hf => hwf f (by simp [hf]))
      (fun f hf => hm f (by simp [hf])) (fun f hf => hlen f (by simp [hf]))
    refine parseFlat_of_opened _ _ (f₀ :: tail) f₀ evs hgo hfirst (by simpa [hdl] using ho) ?_
      (by simpa [hdl] using hpf)
    simp only [Opened.frames, hdl, if_true, hrest, List.singleton_append]

/-- `parseFrames` only depends on the first row and on the concatenated rows. -/
theorem parseFrames_repartition (fs gs : List Frame) (f g : Frame) (dl : Bool) (evs : List Event)
    (hf : fs.find? (fun f => !f.rows.isEmpty) = some f)
    (hg : gs.find? (fun f => !f.rows.isEmpty) = some g)
    (hhead : f.rows.head? = g.rows.head?) (hrows : fs.flatMap (·.rows) = gs.flatMap (·.rows))
    (h : parseFrames fs dl = .ok evs) : parseFrames gs dl = .ok evs := by
  unfold parseFrames at h ⊢
  rw [hf] at h
  rw [hg]
  dsimp only at h ⊢
  rw [← optionsFromFrame_head f g dl hhead]
  cases ho : optionsFromFrame f dl with
  | error e => rw [ho] at h; cases h
  | ok opts =>
    rw [ho] at h
    dsimp only at h ⊢
    cases ha : adapterFor opts.physical with
    | error e => rw [ha] at h; cases h
    | ok adapter =>
      rw [ha] at h
      dsimp only at h ⊢
      cases hd : DecState.new opts adapter with
      | error e => rw [hd] at h; cases h
      | ok d =>
        rw [hd] at h
        dsimp only at h ⊢
        obtain ⟨c1, c2⟩ := C07_repartition true d fs gs hrows
        rcases hdf : decodeFrames true d fs [] with ⟨done, part, _ | e⟩
        · rw [hdf] at h c1 c2
          simp only [Except.ok.injEq] at h
          have hp : part = [] := by
            have := decodeFrames_none_partial true d fs [] (by rw [hdf])
            rw [hdf] at this
            exact this
          rcases hdg : decodeFrames true d gs [] with ⟨done', part', e'⟩
          rw [hdg] at c1 c2
          dsimp only at c1 c2
          subst c2
          have hp' : part' = [] := by
            have := decodeFrames_none_partial true d gs [] (by rw [hdg])
            rw [hdg] at this
            exact this
          subst hp hp'
          simp only [List.append_nil] at c1
          dsimp only
          rw [← c1, h]
        · rw [hdf] at h
          cases h

/-- Non-delimited framing: all frames written bare, one after the other, are read back as ONE frame
    holding all the rows; the flat parser then does what `parseFrames` does on the frames. -/
theorem parseFlat_single_of_frames (fs : List Frame) (o : Options) (rows : List Row) (evs : List Event)
    (hne : ∀ f ∈ fs, f.rows ≠ [])
    (hhead : fs.flatMap (·.rows) = .options o :: rows)
    (hwf : ∀ f ∈ fs, ∀ r ∈ f.rows, r.wireWF = true)
    (hm : ∀ f ∈ fs, f.metadata = [])
    (hlen : (fs.flatMap writeSingle).length < 2 ^ 32)
    (hpf : parseFrames fs false = .ok evs) :
    parseFlat .seekable (fs.flatMap writeSingle) false true = { events := evs, err := none } := by
  obtain ⟨f₀, tail, rs, hfs, hf0, hfind⟩ := find_first_nonempty hne hhead
  -- the merged frame
  have hF : ([({ rows := .options o :: rows } : Frame)]).find? (fun f => !f.rows.isEmpty)
      = some { rows := .options o :: rows } := by simp
  have hpf1 : parseFrames [({ rows := .options o :: rows } : Frame)] false = .ok evs :=
    parseFrames_repartition fs _ f₀ _ false evs hfind hF (by simp [hf0]) (by simp [hhead]) hpf
  -- its options
  have hpf' := hpf1
  unfold parseFrames at hpf'
  rw [hF] at hpf'
  dsimp only at hpf'
  cases ho : optionsFromFrame { rows := .options o :: rows } false with
  | error e => rw [ho] at hpf'; cases hpf'
  | ok opts =>
    have hdl : opts.delimited = false := optionsFromFrame_delimited_field ho
    have hbytes : fs.flatMap writeSingle = writeSingle { rows := .options o :: rows, metadata := [] } := by
      rw [writeSingle_concat fs hm, hhead, writeSingle, encFrame_eq _ rfl]
    have hhint : delimitedHint ((fs.flatMap writeSingle).take 3) = false := by
      rw [hbytes]
      exact C08_hint_single o rows []
    have hdec := wire_single_concat fs hwf hm hlen
    rw [hhead] at hdec
    have hgo : getOptionsAndFrames .seekable (fs.flatMap writeSingle)
        = .ok { opts := opts, pending := [{ rows := .options o :: rows }], rest := [] } := by
      unfold getOptionsAndFrames
      simp only [SourceKind.header, hhint, Bool.false_eq_true, if_false, hdec, ho, List.isEmpty_cons]
    refine parseFlat_of_opened _ _ [{ rows := .options o :: rows }] _ evs hgo hF
      (by simpa [hdl] using ho) ?_ (by simpa [hdl] using hpf1)
    simp only [Opened.frames, hdl, Bool.false_eq_true, if_false]

end Jelly

import JellyProofs.Lemmas.CatchSim
/-!
# One `GraphStream.graph()` call of a catch-and-continue caller (C20, GRAPHS physical type)

The loop state is `CatchInv` as for statements ("in step with the reference decoder, or broken"); the
reference decoder may or may not have a graph open (a graph abandoned half-way stays open, the next
graph start replaces it). One call keeps the alternative:

* a refused graph NAME is clean (`startRow` only) or dirty (broken) — `graphName_err_clean_or_broken`;
* an encoded graph name is accepted by the reference decoder whatever the term is (`graphStart_run_any`:
  a graph name is only known to be well-formed once a triple of the graph has been accepted);
* the triple loop stops at the first triple that raises (`graphTriples_catch`).
-/
namespace Jelly

/-! ## The accepted statements of one call (same recursion as `Stream.graphTriples` / `Stream.graph`) -/

/-- The triples `Stream.graphTriples` takes before it raises. -/
def Stream.graphTriplesTaken (exc : PyErr) (s : Stream) : List (List Term) → List (List Term)
  | [] => []
  | t :: ts =>
    match s.triple exc t with
    | (_, .error _) => []
    | (s', .ok _) => t :: Stream.graphTriplesTaken exc s' ts

/-- The quads one `Stream.graph` call writes. -/
def Stream.graphTaken (exc : PyErr) (s : Stream) (g : Term) (triples : List (List Term)) : List (List Term) :=
  match s.enc.te.beginRow with
  | .error _ => []
  | .ok te0 =>
    match te0.graph g with
    | (_, .error _) => []
    | (te', .ok (rows, w)) =>
      let s1 := ({ s with enc := { s.enc with te := te'.endRow } } : Stream).pushRows (rows ++ [Row.graphStart (some w)])
      (Stream.graphTriplesTaken exc s1 triples).map (· ++ [g])

/-! ## A refused graph name -/

/-- A graph name refused after `startRow`: the encoder is the started one (clean) or broken (dirty). -/
theorem graphName_err_clean_or_broken (te : TermEnc) (g : Term) :
    (te.startRow.graph g).1 = te.startRow ∨ (te.startRow.graph g).1.broken = true :=
  (graph_tstep g te.startRow).from_startRow

/-! ## An encoded graph name, well-formed or not -/

/-- The literal kind of a literal without a (real) datatype. -/
def litLangKind (lang : Option String) : WLitKind :=
  match lang with
  | some l => if l != "" then .lang l else .plain
  | none => .plain

/-- The literal kind a language tag alone gives always resolves. -/
theorem resolve_langKind (inG : Bool) (lex : String) (lang : Option String) :
    ∃ x, ∀ st, Spec.resolveTerm inG st (.literal lex (litLangKind lang)) = .ok (st, x) := by
  cases lang with
  | none =>
    refine ⟨.lit lex none none, fun st => ?_⟩
    show Spec.resolveTerm inG st (.literal lex .plain) = _
    simp only [Spec.resolveTerm]
  | some l =>
    by_cases hl : l = ""
    · subst hl
      refine ⟨.lit lex none none, fun st => ?_⟩
      show Spec.resolveTerm inG st (.literal lex (if ("" != "") = true then .lang "" else .plain)) = _
      rw [if_neg (by decide)]
      simp only [Spec.resolveTerm]
    · have h1 : (l != "") = true := by simpa using hl
      have h2 : (l == "") = false := by simpa using hl
      refine ⟨.lit lex (some l) none, fun st => ?_⟩
      show Spec.resolveTerm inG st (.literal lex (if (l != "") = true then .lang l else .plain)) = _
      rw [if_pos h1]
      simp only [Spec.resolveTerm, h2, Bool.false_eq_true, if_false]

/-- `literal_sim_gen` without the well-formedness hypothesis: the literal that comes out of the reference
    decoder is then not necessarily the normal form of the one that went in. -/
theorem literal_sim_any {F : Prop} {P : Preset} {T : Keys} {te : TermEnc} {R : Keys} (hf : F → TFits P T)
    (inv : TInv P T te R) (lex : String) (lang dt : Option String)
    (hk : ∀ k ∈ (Term.lit lex lang dt).dts, k ∈ T.d) (inG : Bool) :
    (¬ F ∧ ∃ te' e, te.literal lang dt = (te', .error e)) ∨
    ∃ te' rows kind R' x, te.literal lang dt = (te', .ok (rows, kind)) ∧ Sim P T te R te' rows R' ∧
      ∀ ss, AgreeT R' te' ss →
        Spec.resolveTerm inG (setLR ss te) (.literal lex kind) = .ok (setLR ss te', x) := by
  by_cases hreal : ∃ d, dt = some d ∧ (d != "" && d != XSD_STRING) = true
  · obtain ⟨d, rfl, hreal⟩ := hreal
    have hdT : d ∈ T.d := hk d (by simp only [Term.dts, hreal, if_true, List.mem_singleton])
    by_cases hposd : 0 < P.maxDatatypes
    · have hm : (te.datatypes.lookup.maxSize == 0) = false := by rw [inv.maxd]; simp; omega
      rcases useDatatype (F := F) (k := d) inv.wfd (by rw [inv.maxd]; exact hposd) inv.recd inv.pind
          (cons_sub hdT inv.sub.2.2) (by rw [inv.maxd]; exact fun h => (hf h).fitd) with
        ⟨hnF, herr⟩ | ⟨de1, doid, de2, did, hde, hdt, hdu, hdne, hdres⟩
      · refine Or.inl ⟨hnF, te, .conformance, ?_⟩
        simp only [TermEnc.literal, hreal, if_true, hm, herr]
        rfl
      right
      refine ⟨{ te with datatypes := de2 }, dtEntryRows doid d, .dt did, { R with d := d :: R.d },
        .lit lex none (some d), ?_, ?_, ?_⟩
      · have hdne' : (did != 0) = true := by simpa using hdne
        simp only [TermEnc.literal, hreal, if_true, hm, hde, hdt, hdne', dtEntryRows]
        cases doid <;> rfl
      · exact ⟨⟨inv.wfn, inv.wfp, hdu.wf, inv.maxn, inv.maxp, by rw [hdu.max]; exact inv.maxd,
            inv.recn, inv.recp, hdu.recent, inv.pinn, inv.pinp, hdu.pinok,
            ⟨inv.sub.1, inv.sub.2.1, cons_sub hdT inv.sub.2.2⟩, inv.p0⟩,
          ⟨fun _ h => h, fun _ h => h, fun k h => List.mem_cons_of_mem _ h⟩,
          ⟨Pres.refl _ _, Pres.refl _ _, hdu.pres.mono (fun k h => List.mem_cons_of_mem _ h)⟩,
          Ingests.datatypes hdu.mirror⟩
      · intro ss ha
        have hr := hdres ss.datatypes ha.2.2
        simp only [Spec.resolveTerm, setLR, bind, Except.bind, pure, Except.pure]
        rw [hr]
    · left
      refine ⟨fun hF => hposd ((hf hF).posd (List.ne_nil_of_mem hdT)), te, .conformance, ?_⟩
      have hm : (te.datatypes.lookup.maxSize == 0) = true := by rw [inv.maxd]; simp; omega
      simp only [TermEnc.literal, hreal, if_true, hm]
  · right
    have hlit : te.literal lang dt = (te, .ok ([], litLangKind lang)) := by
      cases dt with
      | none => cases lang <;> rfl
      | some d =>
        have : (d != "" && d != XSD_STRING) = false := by
          cases h : (d != "" && d != XSD_STRING) with
          | false => rfl
          | true => exact absurd ⟨d, rfl, h⟩ hreal
        simp only [TermEnc.literal, this, Bool.false_eq_true, if_false]
        cases lang <;> rfl
    obtain ⟨x, hx⟩ := resolve_langKind inG lex lang
    exact ⟨te, [], _, R, x, hlit, Sim.refl inv, fun ss _ => hx _⟩

/-- `graph_sim_gen` for any term in graph position: what is refused is refused, what is encoded is
    accepted by the reference decoder; the graph name it reads is the normal form of the term when the term is
    a well-formed graph name. -/
theorem graph_sim_any {P : Preset} {T : Keys} (hpn : 0 < P.maxNames)
    (t : Term) (te : TermEnc) (R : Keys) (inv : TInv P T te R)
    (hk : (termKeys (P.maxPrefixes != 0) t).sub T) :
    (∃ te' e, te.graph t = (te', .error e)) ∨
    ∃ te' rows w R' x, te.graph t = (te', .ok (rows, w)) ∧ Sim P T te R te' rows R' ∧
      (t.WFGraph = true → x = t.norm) ∧
      ∀ ss, AgreeT R' te' ss → Spec.resolveTerm true (setLR ss te) w = .ok (setLR ss te', x) := by
  by_cases hwf : t.WFGraph = true
  · rcases graph_sim_gen (F := False) hpn (fun h => h.elim) t te R hwf inv hk with
      ⟨_, h⟩ | ⟨te', rows, w, R', heq, hsim, hres⟩
    · exact Or.inl h
    · exact Or.inr ⟨te', rows, w, R', t.norm, heq, hsim, fun _ => rfl, hres⟩
  · cases t with
    | iri s => exact absurd rfl hwf
    | bnode b => exact absurd rfl hwf
    | defaultGraph => exact absurd rfl hwf
    | quoted s p o => exact Or.inl ⟨te, .notImplemented, rfl⟩
    | unsupported => exact Or.inl ⟨te, .notImplemented, rfl⟩
    | lit lex lang dt =>
      rcases literal_sim_any (F := False) (fun h => h.elim) inv lex lang dt hk.2.2 true with
        ⟨_, te', e, herr⟩ | ⟨te', rows, kind, R', x, heq, hsim, hres⟩
      · exact Or.inl ⟨te', e, by simp only [TermEnc.graph, herr]⟩
      · exact Or.inr ⟨te', rows, .literal lex kind, R', x, by simp only [TermEnc.graph, heq], hsim,
          fun h => absurd h hwf, hres⟩

/-- The graph-start part of `Stream.graph` for any graph term: refused, or the entry rows and the graph start
    row are accepted by the reference decoder, which then has a graph open (whatever it had before). -/
theorem graphStart_run_any {P : Preset} (hpn : 0 < P.maxNames) {es : EncState} {ss : Spec.State}
    (inv : Inv P es ss) {o : Options} (hopt : ss.opts = some o) (h3 : o.physicalType = 3) (g : Term) :
    (∃ te' e, es.te.startRow.graph g = (te', .error e)) ∨
    ∃ te' rows w ss' x, es.te.startRow.graph g = (te', .ok (rows, w)) ∧
      Inv P { es with te := te'.endRow } ss' ∧ ss'.opts = some o ∧ ss'.graph = some x ∧
      (g.WFGraph = true → x = g.norm) ∧
      RunsTo ss (rows ++ [Row.graphStart (some w)]) ss' [] := by
  rcases graph_sim_any (T := termKeys (P.maxPrefixes != 0) g) hpn g es.te.startRow {}
      (inv.wft.tinv _) (Keys.sub.refl _) with h | ⟨te', rows, w, R', x, heq, sim, hx, res⟩
  · exact Or.inl h
  right
  obtain ⟨ssE, mE, fE, runE⟩ := sim.ing ss inv.em.startRow (by rw [hopt]; simp)
  have hself : setLR ssE es.te.startRow = ssE :=
    setLR_eq_self (fE.lrn.trans inv.lrn) (fE.lrp.trans inv.lrp) (fE.lrd.trans inv.lrd)
  have hres := res ssE (mE.agree sim.inv.wft R')
  rw [hself] at hres
  have hoE : ssE.opts = some o := fE.opts.trans hopt
  have h3b : (o.physicalType == 3) = true := by simp [h3]
  have hstep : Spec.step ssE (Row.graphStart (some w))
      = .ok ({ (setLR ssE te') with graph := some x }, none) := by
    simp only [Spec.step, hoE, h3b, if_true, hres, bind, Except.bind, pure, Except.pure]
  refine ⟨te', rows, w, { (setLR ssE te') with graph := some x }, x, heq, ?_, hoE, rfl, hx, ?_⟩
  · exact ⟨sim.inv.wft.endRow,
      EM.endRow (te := te') (mE.congr ⟨rfl, rfl, rfl⟩ ⟨rfl, rfl, rfl⟩ ⟨rfl, rfl, rfl⟩), rfl, rfl, rfl,
      by show ssE.rep.s = _; rw [fE.rep]; exact inv.rs,
      by show ssE.rep.p = _; rw [fE.rep]; exact inv.rp,
      by show ssE.rep.o = _; rw [fE.rep]; exact inv.ro,
      by show ssE.rep.g = _; rw [fE.rep]; exact inv.rg, rfl⟩
  · apply RunsTo.of_noev
    intro rest acc i
    rw [List.append_assoc, runE, List.singleton_append, run_cons_ok hstep]
    simp only [Option.toList, List.append_nil, List.length_append, List.length_cons, List.length_nil,
      Nat.add_assoc]

/-! ## The triple loop inside a graph, stopping at the first triple that raises -/

/-- A quad `t ++ [g]` is well-formed: `t` is a well-formed triple and `g` a well-formed graph name. -/
theorem quadWF_snoc {t : List Term} {g : Term} (h : quadWF (t ++ [g]) = true) :
    tripleWF t = true ∧ g.WFGraph = true := by
  match t, h with
  | [], h => simp [quadWF] at h
  | [_], h => simp [quadWF] at h
  | [_, _], h => simp [quadWF] at h
  | [a, b, c], h =>
    simp only [List.cons_append, List.nil_append, quadWF, Bool.and_eq_true] at h
    exact ⟨by simp only [tripleWF, Bool.and_eq_true]; exact h.1, h.2⟩
  | _ :: _ :: _ :: _ :: _, h => simp [quadWF] at h

/-- Frames handed out by one call on top of the frames handed out before. -/
theorem rowsOf_frames {fr frames : List Frame} {s s' : Stream} {rows : List Row}
    (h : rowsOf frames s' = s.flow.rows ++ rows) : rowsOf (fr ++ frames) s' = rowsOf fr s ++ rows := by
  simp only [rowsOf, List.flatMap_append, List.append_assoc] at h ⊢
  rw [h]

/-- The triple loop of one graph under catch-and-continue: what is written denotes the triples taken, in the
    graph the reference decoder has open; afterwards the loop either completed in step (graph still open), or
    it stopped at a refused triple and the writer is in step or broken. -/
theorem Stream.graphTriples_catch {P : Preset} {o : Options} (hpn : 0 < P.maxNames)
    (h3 : o.physicalType = 3) (exc : PyErr) (gn : Term) :
    ∀ (triples : List (List Term)) (s : Stream) (acc : List Frame) (ss : Spec.State),
      Inv P s.enc ss → ss.opts = some o → ss.graph = some gn →
      (∀ t ∈ Stream.graphTriplesTaken exc s triples, tripleWF t = true) →
      ∃ s' frames' e ss' rows, Stream.graphTriples exc s triples acc = (s', frames', e) ∧
        rowsOf frames' s' = rowsOf acc s ++ rows ∧
        RunsTo ss rows ss'
          ((Stream.graphTriplesTaken exc s triples).map (fun t => Event.stmt (t.map Term.norm ++ [gn]))) ∧
        ((e = none ∧ Inv P s'.enc ss' ∧ ss'.opts = some o ∧ ss'.graph = some gn) ∨
         (e ≠ none ∧ CatchInv P o s' ss')) := by
  intro triples
  induction triples with
  | nil =>
    intro s acc ss inv ho hg _
    exact ⟨s, acc, none, ss, [], rfl, by simp, RunsTo.nil ss, Or.inl ⟨rfl, inv, ho, hg⟩⟩
  | cons t ts ih =>
    intro s acc ss inv ho hg hwf
    rcases hres : encodeTriple exc s.enc t with ⟨enc', e | rows⟩
    · have hstep := Stream.triple_err hres
      refine ⟨{ s with enc := enc' }, acc, some e, ss, [], ?_, by simp [rowsOf], ?_, Or.inr ⟨by simp, ?_⟩⟩
      · simp only [Stream.graphTriples, hstep]
      · simp only [Stream.graphTriplesTaken, hstep, List.map_nil]
        exact RunsTo.nil ss
      · rcases encodeTriple_err_clean_or_broken hres inv.nb with h | h
        · left
          refine ⟨?_, ho⟩
          show Inv P enc' ss
          rw [h]
          exact inv.startRow
        · exact Or.inr h
    · obtain ⟨s', fr, hstep, henc', hrows⟩ := Stream.triple_ok hres
      have htaken : Stream.graphTriplesTaken exc s (t :: ts) = t :: Stream.graphTriplesTaken exc s' ts := by
        simp only [Stream.graphTriplesTaken, hstep]
      rw [htaken] at hwf ⊢
      obtain ⟨a, b, c, rfl, ha, hb, hc⟩ := tripleWF_elim (hwf t List.mem_cons_self)
      rcases triple_run3_gen (F := False) (T := stmtKeys P [a, b, c]) hpn (fun h => h.elim) inv ho h3 hg exc
          a b c ha hb hc
          (termKeys_sub_stmtKeys (by simp)) (termKeys_sub_stmtKeys (by simp)) (termKeys_sub_stmtKeys (by simp)) with
        ⟨_, es', e, herr⟩ | ⟨es', rows', ss1, heq, inv1, ho1, hg1, hrun⟩
      · rw [hres] at herr; simp at herr
      rw [hres] at heq
      simp only [Prod.mk.injEq, Except.ok.injEq] at heq
      obtain ⟨rfl, rfl⟩ := heq
      obtain ⟨s2, frames2, e2, ss2, rows2, e1, er, erun, ealt⟩ :=
        ih s' (acc ++ fr.toList) ss1 (by rw [henc']; exact inv1) ho1 hg1
          (fun t ht => hwf t (List.mem_cons_of_mem _ ht))
      refine ⟨s2, frames2, e2, ss2, rows ++ rows2, ?_, ?_, ?_, ealt⟩
      · simp only [Stream.graphTriples, hstep, e1]
      · rw [er, rowsOf_push' hrows, List.append_assoc]
      · rw [List.map_cons]
        exact RunsTo.trans (e₁ := [Event.stmt [a.norm, b.norm, c.norm, gn]]) hrun erun

/-! ## One `Stream.graph` call -/

/-- The events of the quads `t ++ [g]` when the reference decoder's open graph is `x` (which is the normal
    form of `g` as soon as there is a quad at all). -/
theorem graphTaken_events {g x : Term} (l : List (List Term)) (h : l ≠ [] → x = g.norm) :
    (l.map (· ++ [g])).map (fun q => Event.stmt (q.map Term.norm))
      = l.map (fun t => Event.stmt (t.map Term.norm ++ [x])) := by
  cases l with
  | nil => rfl
  | cons t ts =>
    have hx := h (by simp)
    subst hx
    simp only [List.map_map]
    apply List.map_congr_left
    intro q _
    simp only [Function.comp, List.map_append, List.map_cons, List.map_nil]

/-- One `Stream.graph` call of a catch-and-continue caller: what it writes is accepted by the reference
    decoder and denotes the quads taken; the writer stays in step or is broken. -/
theorem catchStep_graph {P : Preset} {o : Options} (hv : P.valid = true) (h3 : o.physicalType = 3)
    (exc : PyErr) (s : Stream) (ss : Spec.State) (g : Term) (ts : List (List Term))
    (hJ : CatchInv P o s ss) (hwf : ∀ q ∈ s.graphTaken exc g ts, quadWF q = true) :
    ∃ s' frames e ss' rows, s.graph exc g ts = (s', frames, e) ∧
      rowsOf frames s' = s.flow.rows ++ rows ∧
      RunsTo ss rows ss' ((s.graphTaken exc g ts).map (fun q => Event.stmt (q.map Term.norm))) ∧
      CatchInv P o s' ss' := by
  have hpn := posn_of_valid hv
  rcases hJ with ⟨inv, ho⟩ | hb
  · have hbr := TermEnc.beginRow_ok inv.nb
    rcases graphStart_run_any hpn inv ho h3 g with ⟨te', e, herr⟩ | ⟨te', rows0, w, ss1, x, heq, inv1, ho1, hg1, hx, hrun1⟩
    · -- the graph name is refused
      refine ⟨{ s with enc := { s.enc with te := te' } }, [], some e, ss, [], ?_, by simp [rowsOf], ?_, ?_⟩
      · simp only [Stream.graph, hbr, herr]
      · simp only [Stream.graphTaken, hbr, herr, List.map_nil]
        exact RunsTo.nil ss
      · have hte : te' = (s.enc.te.startRow.graph g).1 := by rw [herr]
        rcases graphName_err_clean_or_broken s.enc.te g with h | h
        · left
          refine ⟨?_, ho⟩
          show Inv P { s.enc with te := te' } ss
          rw [hte, h]
          exact inv.startRow
        · right
          show te'.broken = true
          rw [hte]; exact h
    · -- the graph name is encoded
      have htaken : s.graphTaken exc g ts
          = (Stream.graphTriplesTaken exc
              (({ s with enc := { s.enc with te := te'.endRow } } : Stream).pushRows
                (rows0 ++ [Row.graphStart (some w)])) ts).map (· ++ [g]) := by
        simp only [Stream.graphTaken, hbr, heq]
      rw [htaken] at hwf ⊢
      have hwf3 : ∀ t ∈ Stream.graphTriplesTaken exc
          (({ s with enc := { s.enc with te := te'.endRow } } : Stream).pushRows
            (rows0 ++ [Row.graphStart (some w)])) ts, tripleWF t = true :=
        fun t ht => (quadWF_snoc (hwf _ (List.mem_map.mpr ⟨t, ht, rfl⟩))).1
      have hxg : Stream.graphTriplesTaken exc
          (({ s with enc := { s.enc with te := te'.endRow } } : Stream).pushRows
            (rows0 ++ [Row.graphStart (some w)])) ts ≠ [] → x = g.norm := by
        intro hne
        obtain ⟨t, ht⟩ := List.exists_mem_of_ne_nil _ hne
        exact hx (quadWF_snoc (hwf _ (List.mem_map.mpr ⟨t, ht, rfl⟩))).2
      rw [graphTaken_events _ hxg]
      obtain ⟨s2, frames2, e2, ss2, rows2, e1, er, erun, ealt⟩ :=
        Stream.graphTriples_catch hpn h3 exc x ts
          (({ s with enc := { s.enc with te := te'.endRow } } : Stream).pushRows
            (rows0 ++ [Row.graphStart (some w)])) [] ss1 inv1 ho1 hg1 hwf3
      have er' : rowsOf frames2 s2 = s.flow.rows ++ ((rows0 ++ [Row.graphStart (some w)]) ++ rows2) := by
        rw [er]
        simp [rowsOf, Stream.pushRows, List.append_assoc]
      rcases ealt with ⟨rfl, inv2, ho2, hg2⟩ | ⟨hne, hJ2⟩
      · -- all triples taken: the graph is closed
        obtain ⟨ss3, inv3, ho3, _, hrun3⟩ := graphEnd_run inv2 ho2 h3 hg2
        refine ⟨{ (s2.pushRows [Row.graphEnd]) with flow := (s2.pushRows [Row.graphEnd]).flow.frameFromBounds.1 },
          frames2 ++ (s2.pushRows [Row.graphEnd]).flow.frameFromBounds.2.toList, none, ss3,
          (rows0 ++ [Row.graphStart (some w)]) ++ (rows2 ++ [Row.graphEnd]), ?_, ?_, ?_, Or.inl ⟨inv3, ho3⟩⟩
        · simp only [Stream.graph, hbr, heq, e1]
        · have hfb := frameFromBounds_rows (s2.pushRows [Row.graphEnd]).flow
          have : rowsOf (frames2 ++ (s2.pushRows [Row.graphEnd]).flow.frameFromBounds.2.toList)
              { (s2.pushRows [Row.graphEnd]) with flow := (s2.pushRows [Row.graphEnd]).flow.frameFromBounds.1 }
              = rowsOf frames2 s2 ++ [Row.graphEnd] :=
            rowsOf_push' (s := s2) (by rw [hfb]; rfl)
          rw [this, er']
          simp only [List.append_assoc]
        · have hend : RunsTo ss2 [Row.graphEnd] ss3 [] := by
            intro rest acc i
            simp [hrun3]
          have := hrun1.trans (erun.trans hend)
          simpa using this
      · -- a triple was refused: the graph stays open on the wire
        cases e2 with
        | none => exact absurd rfl hne
        | some e =>
          refine ⟨s2, frames2, some e, ss2, (rows0 ++ [Row.graphStart (some w)]) ++ rows2, ?_, er', ?_, hJ2⟩
          · simp only [Stream.graph, hbr, heq, e1]
          · have := hrun1.trans erun
            simpa using this
  · -- broken: the call is refused and changes nothing
    refine ⟨s, [], some .conformance, ss, [], ?_, by simp [rowsOf], ?_, Or.inr hb⟩
    · simp only [Stream.graph, TermEnc.beginRow_broken hb]
    · simp only [Stream.graphTaken, TermEnc.beginRow_broken hb, List.map_nil]
      exact RunsTo.nil ss

end Jelly

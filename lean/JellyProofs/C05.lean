import JellyModel.Joint
import JellyProofs.Lemmas.LookupMirror
/-!
# C05 — writer and reader lookup tables stay mirrored for all histories

Property theorems only. Helper lemmas live in `JellyProofs/Lemmas/*.lean`.
-/
namespace Jelly

/-- For every table size 1..4096, each of the three index rules and every finite key history
    (no bound on its length, no restriction on the key alphabet): the joint run never fails, every
    index the writer puts on the wire resolves on the reader to exactly the key the writer meant,
    the number of live writer entries never exceeds the declared size, and every id emitted (entry
    ids and term indices, including the zero forms) lies in `[0, size]`. Since `ks` is arbitrary,
    the statement holds after every prefix of a history as well. -/
theorem C05_mirror_history (rule : Rule) (size : Nat) (hs : 1 ≤ size) (hle : size ≤ MAX_LOOKUP_SIZE)
    (ks : List String) :
    ∃ st0, jointInit size = .ok st0 ∧
      (jointRun rule st0 ks []).2.2 = none ∧
      (jointRun rule st0 ks []).2.1.map (·.resolved) = ks ∧
      (jointRun rule st0 ks []).1.1.lookup.data.length ≤ size ∧
      (∀ o ∈ (jointRun rule st0 ks []).2.1, o.idx ≤ size ∧ ∀ id, o.entry = some id → id ≤ size) := by
  have hnot : ¬ size > MAX_LOOKUP_SIZE := by omega
  refine ⟨(LookupEnc.new size, { size := size, data := List.replicate size none }), ?_, ?_⟩
  · simp only [jointInit, LookupDec.new, hnot, if_false]
  · obtain ⟨outs, h1, h2, h3, h4, h5, h6⟩ :=
      jointRun_spec rule ks (LookupEnc.new size, { size := size, data := List.replicate size none }) []
        (JointInv.init hs)
    have hmax : (LookupEnc.new size).lookup.maxSize = size := rfl
    simp only [hmax] at h4 h6
    rw [List.nil_append] at h1
    refine ⟨h2, by rw [h1]; exact h3, ?_, by rw [h1]; exact h4⟩
    have := h5.mirror.wf.lenLe
    rw [h6] at this
    exact this

/-- Disabled prefix table (size 0): no entry is ever sent and every prefix id is 0, which the
    reader resolves to the empty prefix (the whole IRI then travels in the name table). -/
theorem C05_prefix_disabled (ks : List String) :
    ∃ st0, jointInit 0 = .ok st0 ∧
      (jointRun .prefix st0 ks []).2.2 = none ∧
      (∀ o ∈ (jointRun .prefix st0 ks []).2.1, o.idx = 0 ∧ o.entry = none ∧ o.resolved = "") ∧
      (jointRun .prefix st0 ks []).2.1.length = ks.length := by
  refine ⟨(LookupEnc.new 0, { size := 0, data := [] }), ?_, ?_⟩
  · simp [jointInit, LookupDec.new, MAX_LOOKUP_SIZE]
  · rw [jointRun_prefix_disabled ks _ [] rfl rfl]
    refine ⟨rfl, ?_, by simp⟩
    intro o ho
    simp only [List.nil_append] at ho
    rw [List.eq_of_mem_replicate ho]
    exact ⟨rfl, rfl, rfl⟩

/-- Non-vacuity / sanity: a concrete history with hits, misses and evictions on a table of size 2. -/
example :
    ∃ st0, jointInit 2 = .ok st0 ∧
      (jointRun .name st0 ["a", "b", "c", "a", "a", "b"] []).2.1.map (·.resolved) = ["a", "b", "c", "a", "a", "b"] := by
  -- checked by kernel evaluation of the model, independently of `C05_mirror_history`
  refine ⟨(LookupEnc.new 2, { size := 2, data := [none, none] }), rfl, ?_⟩
  decide

/-- The same history, with everything that goes on the wire: two sequential entries (id 0 = "previous
    + 1"), an eviction reusing id 1, zero forms of the name rule, and a hit (`entry = none`). -/
example :
    (jointRun .name (LookupEnc.new 2, { size := 2, data := [none, none] })
        ["a", "b", "c", "a", "a", "b"] []).2.1 =
      [⟨some 0, 0, "a"⟩, ⟨some 0, 0, "b"⟩, ⟨some 1, 1, "c"⟩, ⟨some 0, 0, "a"⟩, ⟨none, 2, "a"⟩,
       ⟨some 1, 1, "b"⟩] := by
  decide

end Jelly

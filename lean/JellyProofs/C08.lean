import JellyModel.Wire
import JellyModel.Parse
import JellyProofs.Lemmas.WireBytes
import JellyProofs.Lemmas.HeaderLoop
/-!
# C08 — delimited vs non-delimited framing is always detected correctly
# C09 — parsing is independent of how the byte source chunks its reads

Property theorems only. Helper lemmas live in `JellyProofs/Lemmas/*.lean`.
-/
namespace Jelly

private theorem hint_of_head_ne (h : UInt8) (t : Bytes) (hh : h ≠ 10) (h3 : 3 ≤ (h :: t).length) :
    delimitedHint ((h :: t).take 3) = true := by
  match t, h3 with
  | a :: b :: t', _ => simp [delimitedHint, hh]

private theorem hint_short (l : Bytes) (h : l.length < 3) : delimitedHint l = false := by
  match l, h with
  | [], _ => rfl
  | [_], _ => rfl
  | [_, _], _ => rfl

private theorem encFrame_cons (f : Frame) (r : Row) (rs : List Row) (hr : f.rows = r :: rs) :
    ∃ tl, encFrame f = 0x0A :: (varint (encRow r).length ++ (encRow r ++ tl)) := by
  refine ⟨(rs.flatMap fun r => lenDelim 1 (encRow r)) ++
    (f.metadata.flatMap fun (k, v) => encMetaEntry k v), ?_⟩
  simp [encFrame, hr, lenDelim_one]

/-- A delimited stream whose first frame is empty or starts with a row is classified as delimited
    from its first three bytes, whatever follows (this includes every frame length — in particular
    the length 10 = 0x0A — and every first-row length). -/
theorem C08_hint_delimited (f : Frame) (rest : Bytes) (hm : f.rows = [] → f.metadata = [])
    (h3 : 3 ≤ (writeDelimited f ++ rest).length) :
    delimitedHint ((writeDelimited f ++ rest).take 3) = true := by
  cases hr : f.rows with
  | nil =>
    have hE : encFrame f = [] := by simp [encFrame, hr, hm hr]
    have hW : writeDelimited f = [0] := by simp [writeDelimited, hE, varint_zero]
    rw [hW] at h3 ⊢
    exact hint_of_head_ne 0 rest (by decide) h3
  | cons r rs =>
    obtain ⟨tl, hE⟩ := encFrame_cons f r rs hr
    obtain ⟨h, t, hv, hh⟩ := varint_cons (encRow r).length
    obtain ⟨h', t', hv', hh'⟩ := varint_cons (encFrame f).length
    have hW : writeDelimited f ++ rest = h' :: (t' ++ encFrame f ++ rest) := by
      simp [writeDelimited, hv']
    by_cases hL : (encFrame f).length = 10
    · have hlen := hL
      rw [hE, hv] at hlen
      simp only [List.length_cons, List.length_append] at hlen
      have hn : h ≠ 10 := by
        intro e; have := hh.1 e; omega
      have hW' : writeDelimited f ++ rest = 0x0A :: 0x0A :: h :: (t ++ (encRow r ++ tl) ++ rest) := by
        simp only [writeDelimited, hL, varint_ten]
        rw [hE, hv]; simp
      rw [hW']
      simp [delimitedHint, hn]
    · rw [hW] at h3 ⊢
      exact hint_of_head_ne h' _ (fun e => hL (hh'.1 e)) h3

/-- A non-delimited stream (one frame written bare) that starts with its options row — as every
    valid stream does — is classified as non-delimited, whatever the length of that row (in
    particular 10 = 0x0A) and whatever follows. -/
theorem C08_hint_single (o : Options) (rows : List Row) (md : List (String × Bytes)) :
    delimitedHint ((writeSingle { rows := .options o :: rows, metadata := md }).take 3) = false := by
  obtain ⟨tl, hE⟩ := encFrame_cons { rows := .options o :: rows, metadata := md } (.options o) rows rfl
  obtain ⟨h, t, hv, hh⟩ := varint_cons (encRow (.options o)).length
  have hO : encRow (.options o) = 0x0A :: (varint (encOptions o).length ++ encOptions o) := by
    simp [encRow, lenDelim_one]
  by_cases hn : (encRow (.options o)).length = 10
  · simp only [writeSingle, hE, hn, varint_ten]
    rw [hO]
    simp [delimitedHint]
  · have hne : h ≠ 10 := fun e => hn (hh.1 e)
    simp only [writeSingle, hE, hv]
    rw [hO]
    cases t with
    | nil => simp [delimitedHint]
    | cons c t' => simp [delimitedHint, hne]

/-- The detector looks at nothing beyond the first three bytes. -/
theorem C08_hint_prefix (b : Bytes) (n : Nat) (hn : 3 ≤ n) : delimitedHint (b.take n) = delimitedHint (b.take 3) := by
  obtain ⟨k, rfl⟩ : ∃ k, n = k + 3 := ⟨n - 3, by omega⟩
  match b with
  | [] => simp
  | [_] => simp
  | [_, _] => simp
  | _ :: _ :: _ :: _ => simp [delimitedHint]

/-- C09: on a raw non-seekable source the parse result is the one obtained from an in-memory buffer,
    for EVERY read schedule (sequence of short-read sizes, down to one byte at a time). After the
    header has been collected and put back, every read is a `BufferedReader.read(n)`, which loops
    until it has n bytes or the source ends, so the rest of the schedule cannot matter (the model has
    no further dependence on it). -/
theorem C09_schedule_independent (b : Bytes) (sched : List Nat) (strict quoted : Bool) :
    parseFlat (.rawNonSeekable sched) b strict quoted = parseFlat .seekable b strict quoted ∧
    parseGrouped (.rawNonSeekable sched) b strict quoted = parseGrouped .seekable b strict quoted ∧
    parseToGraph (.rawNonSeekable sched) b quoted = parseToGraph .seekable b quoted := by
  have hH : SourceKind.header (.rawNonSeekable sched) b = SourceKind.header .seekable b := by
    simp only [SourceKind.header]
    rw [readHeaderLoop_eq sched [] b (by simp), List.nil_append]
  have hG : getOptionsAndFrames (.rawNonSeekable sched) b = getOptionsAndFrames .seekable b := by
    simp only [getOptionsAndFrames, hH]
  simp only [parseFlat, parseGrouped, parseToGraph, parseCore, hG, and_self]

/-- Any two schedules give the same result. -/
theorem C09_any_two_schedules (b : Bytes) (s1 s2 : List Nat) (strict quoted : Bool) :
    parseFlat (.rawNonSeekable s1) b strict quoted = parseFlat (.rawNonSeekable s2) b strict quoted := by
  rw [(C09_schedule_independent b s1 strict quoted).1, (C09_schedule_independent b s2 strict quoted).1]

/-- Regression witness for the repaired defect (`fixed: C09-short-first-read`): the 17-byte stream
    `writeDelimited { rows := [.options o] }` read one byte at a time is detected as delimited and
    parses as it does from memory. (Before the repair `peek(3)` saw a one-byte header, answered
    "non-delimited", and the parse failed with a decode error.) -/
theorem C09_regression_witness :
    parseFlat (.rawNonSeekable [1, 1, 1, 1]) [16, 10, 14, 10, 12, 16, 1, 72, 8, 80, 8, 88, 8, 112, 1, 120, 1] false true =
      { events := [], err := none } ∧
    delimitedHint (SourceKind.header (.rawNonSeekable [1, 1]) [4, 0x0A, 2, 0x0A, 0]) =
      delimitedHint (SourceKind.header .seekable [4, 0x0A, 2, 0x0A, 0]) := by
  decide

/-- The same stream is indeed what the writer produces. -/
theorem C09_witness_bytes :
    writeDelimited { rows := [.options
      { physicalType := 1, maxNames := 8, maxPrefixes := 8, maxDatatypes := 8, logicalType := 1, version := 1 }] } =
    [16, 10, 14, 10, 12, 16, 1, 72, 8, 80, 8, 88, 8, 112, 1, 120, 1] := by
  have hv : ∀ n, n < 128 → varint n = [n.toUInt8] := varint_lt
  simp [writeDelimited, encFrame, lenDelim, tag, encRow, encOptions, strField, uintField, boolField,
    encMetaEntry, hv]

end Jelly

import JellyModel
import JellyProofs.C03
import JellyProofs.C04
import JellyProofs.C14Full
import JellyProofs.Lemmas.GroupedSim
/-!
# C07 (d) — lookup and repeated-term state carried across frames: several sinks through ONE stream
# C05 — the mirror at the TermEncoder → Decoder level

Property theorems only; helper lemmas live in `JellyProofs/Lemmas/*.lean`.
-/
namespace Jelly

/-- `grouped_stream_to_frames` over several sinks of triples with explicit options (declarations off):
    one stream is created from the first sink and reused; the rows written for ALL sinks together are
    accepted by the reference decoder and denote the statements of all sinks in order — i.e. the lookup
    tables, delta bases and repeated terms carried from one sink's frame(s) to the next are consistent. -/
theorem C07_grouped_triples_valid (o : SerOptions) (sinks : List Sink) (first : Sink) (more : List Sink)
    (hs : sinks = first :: more) (hfirst : first.isTriplesSink = true)
    (hns : o.params.namespaceDeclarations = false)
    (s : Stream) (hnew : Stream.new .triple o = .ok s) (hl : validLogical s.logicalType = true)
    (hwf : ∀ sk ∈ sinks, ∀ t ∈ sk.store, tripleWF t = true)
    (hfit : ∀ sk ∈ sinks, ∀ t ∈ sk.store, stmtFits o.preset t = true) :
    (groupedStreamToFrames sinks (some o)).2.2 = none ∧
    ∃ st, Spec.runRows ((groupedStreamToFrames sinks (some o)).1.flatMap (·.rows))
            = (st, (sinks.flatMap (·.store)).map (fun t => Event.stmt (t.map Term.norm)), none) := by
  subst hs
  obtain ⟨hv, _, _⟩ := Stream.new_spec hnew
  have hguess : guessStream o first = .ok s := by
    simp only [guessStream, hfirst, Bool.not_true, Bool.and_false, Bool.false_eq_true, if_false, hnew]
  exact grouped_sim hnew hl
    (fun sk => (∀ t ∈ sk.store, tripleWF t = true) ∧ (∀ t ∈ sk.store, stmtFits o.preset t = true))
    (fun oo hph cur sk ss hcls hopts inv ho hok =>
      sinkStep_triple hv (by simpa [StreamClass.physical] using hph) cur sk ss hcls
        (by rw [hopts]; exact hns) inv ho hok.1 hok.2)
    first more hguess (fun sk hsk => ⟨hwf sk hsk, hfit sk hsk⟩)

/-- The same for quads (the first sink is not a triples sink and the base logical type is not GRAPHS,
    so `guess_stream` picks a QuadStream). -/
theorem C07_grouped_quads_valid (o : SerOptions) (sinks : List Sink) (first : Sink) (more : List Sink)
    (hs : sinks = first :: more) (hfirst : first.isTriplesSink = false) (hlt : o.logicalType % 10 ≠ 3)
    (hns : o.params.namespaceDeclarations = false)
    (s : Stream) (hnew : Stream.new .quad o = .ok s) (hl : validLogical s.logicalType = true)
    (hwf : ∀ sk ∈ sinks, ∀ t ∈ sk.store, quadWF t = true)
    (hfit : ∀ sk ∈ sinks, ∀ t ∈ sk.store, stmtFits o.preset t = true) :
    (groupedStreamToFrames sinks (some o)).2.2 = none ∧
    ∃ st, Spec.runRows ((groupedStreamToFrames sinks (some o)).1.flatMap (·.rows))
            = (st, (sinks.flatMap (·.store)).map (fun t => Event.stmt (t.map Term.norm)), none) := by
  subst hs
  obtain ⟨hv, _, _⟩ := Stream.new_spec hnew
  have hlt' : (o.logicalType % 10 != 3) = true := by simpa using hlt
  have hguess : guessStream o first = .ok s := by
    simp only [guessStream, hfirst, hlt', Bool.not_false, Bool.and_self, if_true, hnew]
  exact grouped_sim hnew hl
    (fun sk => (∀ t ∈ sk.store, quadWF t = true) ∧ (∀ t ∈ sk.store, stmtFits o.preset t = true))
    (fun oo hph cur sk ss hcls hopts inv ho hok =>
      sinkStep_quad hv (by simpa [StreamClass.physical] using hph) cur sk ss hcls
        (by rw [hopts]; exact hns) inv ho hok.1 hok.2)
    first more hguess (fun sk hsk => ⟨hwf sk hsk, hfit sk hsk⟩)

/-- C05 at the term level (the observation point of the property: `TermEncoder.encode_iri` rows and
    indices fed to `Decoder.ingest_*` / `decode_iri`). For ANY history of IRIs pushed through one term
    encoder (tables of any admissible size, prefix table possibly disabled) with the entry rows ingested
    by pyjelly's decoder and each emitted (prefix_id, name_id) resolved right away: every IRI comes back
    unchanged, and every id on the wire is within the declared table size. -/
def iriHistory (te : TermEnc) (d : DecState) : List String → List String → Except PyErr (TermEnc × DecState × List String)
  | [], acc => .ok (te, d, acc)
  | iri :: rest, acc =>
    match te.iriIndices iri with
    | (_, .error e) => .error e
    | (te', .ok (rows, p, n)) =>
      match d.decodeRows true rows [] with
      | (_, _, some e) => .error e
      | (d1, _, none) =>
        match d1.decodeIri p n with
        | .error e => .error e
        | .ok (d2, s) => iriHistory te' d2 rest (acc ++ [s])

/-- The loop of `iriHistory` from related states: every IRI comes back unchanged. -/
theorem iriHistory_sim {P : Preset} (hv : P.valid = true) (po : ParserOptions) :
    ∀ (iris : List String) (te : TermEnc) (ss : Spec.State) (acc : List String), IriInv P te ss →
      ∃ te' d', iriHistory te (mirror po .triples ss) iris acc = .ok (te', d', acc ++ iris) := by
  intro iris
  induction iris with
  | nil =>
    intro te ss acc _
    exact ⟨te, mirror po .triples ss, by simp [iriHistory]⟩
  | cons iri rest ih =>
    intro te ss acc inv
    obtain ⟨te', rows, p, n, ssE, ss', heq, d1, d2, inv'⟩ := iri_step_sim hv po inv iri
    obtain ⟨te2, dd, hfin⟩ := ih te' ss' (acc ++ [iri]) inv'
    refine ⟨te2, dd, ?_⟩
    simp only [iriHistory, heq, d1, d2]
    rw [hfin, List.append_assoc, List.singleton_append]

theorem C05_term_level_iris (maxNames maxPrefixes maxDatatypes : Nat) (hn : 8 ≤ maxNames)
    (hsz : maxNames ≤ MAX_LOOKUP_SIZE ∧ maxPrefixes ≤ MAX_LOOKUP_SIZE ∧ maxDatatypes ≤ MAX_LOOKUP_SIZE)
    (opts : ParserOptions) (ho : opts.maxNames = maxNames ∧ opts.maxPrefixes = maxPrefixes ∧ opts.maxDatatypes = maxDatatypes)
    (iris : List String) :
    ∃ d0 te d, DecState.new opts .triples = .ok d0 ∧
      iriHistory (TermEnc.new maxNames maxPrefixes maxDatatypes) d0 iris [] = .ok (te, d, iris) := by
  obtain ⟨ho1, ho2, ho3⟩ := ho
  let P : Preset := { maxNames := maxNames, maxPrefixes := maxPrefixes, maxDatatypes := maxDatatypes }
  let ss0 : Spec.State :=
    { opts := some {}, names := Spec.mkTable maxNames, prefixes := Spec.mkTable maxPrefixes,
      datatypes := Spec.mkTable maxDatatypes }
  have hv : P.valid = true := by simpa [Preset.valid, MIN_NAME_LOOKUP_SIZE, P] using hn
  have hd0 : DecState.new opts .triples = .ok (mirror opts .triples ss0) := by
    have e1 : LookupDec.new opts.maxNames = .ok (Spec.mkTable maxNames) := by
      rw [ho1]; exact LookupDec.new_eq_mkTable hsz.1
    have e2 : LookupDec.new opts.maxPrefixes = .ok (Spec.mkTable maxPrefixes) := by
      rw [ho2]; exact LookupDec.new_eq_mkTable hsz.2.1
    have e3 : LookupDec.new opts.maxDatatypes = .ok (Spec.mkTable maxDatatypes) := by
      rw [ho3]; exact LookupDec.new_eq_mkTable hsz.2.2
    simp only [DecState.new, e1, e2, e3, bind, Except.bind, pure, Except.pure]
    rfl
  have inv0 : IriInv P (TermEnc.new maxNames maxPrefixes maxDatatypes) ss0 :=
    ⟨⟨Lookup.WF.new _, Lookup.WF.new _, Lookup.WF.new _, rfl, rfl, rfl, fun _ => rfl⟩,
     ⟨EMirror.new _, EMirror.new _, EMirror.new _⟩, rfl, rfl, rfl, by simp [ss0],
     ⟨mkTable_WF _, mkTable_WF _, mkTable_WF _⟩, rfl⟩
  obtain ⟨te, d, h⟩ := iriHistory_sim hv opts iris _ ss0 [] inv0
  exact ⟨_, te, d, hd0, by simpa using h⟩

end Jelly

import JellyProofs.C03
import JellyProofs.C18
import JellyProofs.Lemmas.RunPrefix
/-!
# C18 on the repaired code — a statement too big for the lookup tables is refused, not corrupted

Property theorems only; helper lemmas live in `JellyProofs/Lemmas/*.lean`.

These are `C03_triples/_quads/_graphs` WITHOUT the sizing hypothesis `stmtFits`: for every sequence
of well-formed statements and every preset the stream accepted, the writer either ends with an
exception, or what it wrote is valid for the reference decoder and denotes exactly the input. The
silent third outcome (a well-formed file that decodes to other IRIs / datatypes) is impossible.
-/
namespace Jelly

theorem C18_triples (o : SerOptions) (s : Stream) (stmts : List (List Term))
    (hs : Stream.new .triple o = .ok s) (hl : validLogical s.logicalType = true)
    (hwf : ∀ t ∈ stmts, tripleWF t = true) :
    (streamFrames s (.gen stmts)).err ≠ none ∨
    ∃ st, Spec.runRows (streamFrames s (.gen stmts)).allRows'
            = (st, stmts.map (fun t => Event.stmt (t.map Term.norm)), none) := by
  rcases triples_sim_gen (F := False) o s stmts hs hl hwf (fun _ _ h => h.elim) with ⟨_, he, _⟩ | ⟨_, h⟩
  · exact Or.inl he
  · exact Or.inr h

theorem C18_quads (o : SerOptions) (s : Stream) (stmts : List (List Term))
    (hs : Stream.new .quad o = .ok s) (hl : validLogical s.logicalType = true)
    (hwf : ∀ t ∈ stmts, quadWF t = true) :
    (streamFrames s (.gen stmts)).err ≠ none ∨
    ∃ st, Spec.runRows (streamFrames s (.gen stmts)).allRows'
            = (st, stmts.map (fun t => Event.stmt (t.map Term.norm)), none) := by
  rcases quads_sim_gen (F := False) o s stmts hs hl hwf (fun _ _ h => h.elim) with ⟨_, he⟩ | ⟨_, h⟩
  · exact Or.inl he
  · exact Or.inr h

theorem C18_graphs (o : SerOptions) (s : Stream) (stmts : List (List Term))
    (hs : Stream.new .graph o = .ok s) (hl : validLogical s.logicalType = true)
    (hwf : ∀ t ∈ stmts, quadWF t = true) :
    (streamFrames s (.gen stmts)).err ≠ none ∨
    ∃ st, Spec.runRows (streamFrames s (.gen stmts)).allRows'
            = (st, stmts.map (fun t => Event.stmt (t.map Term.norm)), none) := by
  rcases graphs_sim_gen (F := False) o s stmts hs hl hwf (fun _ _ h => h.elim) with ⟨_, he⟩ | ⟨_, h⟩
  · exact Or.inl he
  · exact Or.inr h

/-- When the writer does end with an exception, everything it had handed out before is a valid
    prefix: the rows of the frames produced so far are accepted by the reference decoder and denote a
    prefix of the input. -/
theorem C18_prefix_on_error (o : SerOptions) (s : Stream) (stmts : List (List Term))
    (hs : Stream.new .triple o = .ok s) (hl : validLogical s.logicalType = true)
    (hwf : ∀ t ∈ stmts, tripleWF t = true) :
    ∃ st evs, Spec.runRows ((streamFrames s (.gen stmts)).frames.flatMap (·.rows)) = (st, evs, none) ∧
      evs <+: stmts.map (fun t => Event.stmt (t.map Term.norm)) := by
  have hall : ∃ st evs, Spec.runRows (allRowsOf (streamFrames s (.gen stmts))) = (st, evs, none) ∧
      evs <+: stmts.map (fun t => Event.stmt (t.map Term.norm)) := by
    rcases triples_sim_gen (F := False) o s stmts hs hl hwf (fun _ _ h => h.elim) with
      ⟨_, _, st, evs, h, hp⟩ | ⟨_, st, h⟩
    · exact ⟨st, evs, h, hp⟩
    · exact ⟨st, _, h, List.prefix_refl _⟩
  obtain ⟨st, evs, h, hp⟩ := hall
  have h' : Spec.runRows ((streamFrames s (.gen stmts)).frames.flatMap (·.rows) ++
      (streamFrames s (.gen stmts)).stream.flow.rows) = (st, evs, none) := h
  obtain ⟨st₁, evs₁, h1, hp1⟩ := Spec.runRows_prefix h'
  exact ⟨st₁, evs₁, h1, hp1.trans hp⟩

end Jelly

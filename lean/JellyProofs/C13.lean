import JellyModel.Parse
import JellyModel.Spec
import JellyProofs.Lemmas.Header
/-!
# C13 — stream header fidelity and stream-type validation

Property theorems only. Helper lemmas live in `JellyProofs/Lemmas/*.lean`.
-/
namespace Jelly

/-- (a) What a reader is told equals what the stream was written with: physical type, logical
    type (as resolved by the flow), the three table sizes, the stream name (any Unicode string),
    the generalized and RDF-star flags — for every stream that could be constructed, whatever
    rows follow the options row, in both framing modes. -/
theorem C13_header_fidelity (cls : StreamClass) (o : SerOptions) (s : Stream) (rest : List Row)
    (md : List (String × Bytes)) (delimited : Bool) (hs : Stream.new cls o = .ok s) :
    optionsFromFrame { rows := s.optionsRow :: rest, metadata := md } delimited = .ok {
      physical := cls.physical, logical := s.logicalType
      maxNames := o.preset.maxNames, maxPrefixes := o.preset.maxPrefixes, maxDatatypes := o.preset.maxDatatypes
      streamName := o.params.streamName, generalized := o.params.generalized, rdfStar := o.params.rdfStar
      version := if o.params.namespaceDeclarations then 2 else 1
      delimited := delimited
      namespaceDeclarations := o.params.namespaceDeclarations } := by
  obtain ⟨hv, hc, hcls, hopts⟩ := Stream.new_ok hs
  rw [Preset.valid_iff] at hv
  unfold optionsFromFrame
  simp only [Stream.optionsRow, hcls, hopts, validateTypes_of_compatible hc]
  rw [if_neg (by simp only [MIN_NAME_LOOKUP_SIZE]; omega)]
  cases hnd : o.params.namespaceDeclarations <;> simp [Params.version, hnd]

/-- (b) The declared protocol version is 2 precisely when namespace declarations are enabled. -/
theorem C13_version (cls : StreamClass) (o : SerOptions) (s : Stream) (hs : Stream.new cls o = .ok s) :
    ∃ op, s.optionsRow = .options op ∧ op.version = (if o.params.namespaceDeclarations then 2 else 1) := by
  obtain ⟨_, _, _, hopts⟩ := Stream.new_ok hs
  exact ⟨_, rfl, by simp only [hopts, Params.version]⟩

/-- The eight declared logical stream types. -/
def logicalTypes : List Nat := [0, 1, 2, 3, 4, 13, 14, 114]

/-- (c) Validation symmetry on the whole physical × logical table: the writer-side check, the
    reader-side check and the specification's rule agree on every declared pair. -/
theorem C13_type_pairs_agree :
    ∀ p ∈ [1, 2, 3], ∀ l ∈ logicalTypes,
      typesCompatible p l = Spec.typePairAllowed p l ∧
      ((validateTypes p l).isOk = typesCompatible p l) := by
  decide

/-- (c') A stream can only be constructed with an allowed pair and a name table of at least 8. -/
theorem C13_writer_rejects (cls : StreamClass) (o : SerOptions) (s : Stream) (hs : Stream.new cls o = .ok s) :
    typesCompatible cls.physical s.logicalType = true ∧ 8 ≤ o.preset.maxNames := by
  obtain ⟨hv, hc, _, _⟩ := Stream.new_ok hs
  exact ⟨hc, (Preset.valid_iff _).1 hv⟩

/-- (c'') The reader rejects name tables below 8 at the options row and any table above 4096
    before allocating it. -/
theorem C13_reader_rejects_small_names (f : Frame) (o : Options) (rest : List Row) (delimited : Bool)
    (hf : f.rows = .options o :: rest) (h : o.maxNames < 8) :
    ∃ e, optionsFromFrame f delimited = .error e := by
  unfold optionsFromFrame
  rw [hf]
  dsimp only
  cases validateTypes o.physicalType o.logicalType with
  | error e => exact ⟨e, rfl⟩
  | ok u =>
    refine ⟨.conformance, ?_⟩
    dsimp only
    rw [if_pos (by simpa only [MIN_NAME_LOOKUP_SIZE] using h)]

/-- (d) Strict logical-type gates: the flat parsers accept exactly the flat logical types and the
    grouped parsers exactly the grouped ones. -/
theorem C13_strict_gates :
    ∀ l ∈ logicalTypes,
      (strictFlatOk l = (l == 1 || l == 2)) ∧
      (strictGroupedOk l = (l == 3 || l == 4 || l == 13 || l == 14 || l == 114)) := by
  decide

/-- (d') Without strict checking the logical type never influences what is parsed: rewriting the
    logical type of a decoder's options (keeping the pair allowed is the caller's business) changes
    no decoding step. -/
theorem C13_logical_type_irrelevant (quoted : Bool) (d : DecState) (l : Nat) (r : Row)
    (hr : ∀ o, r ≠ .options o) :
    (({ d with opts := { d.opts with logical := l } } : DecState).decodeRow quoted r).map (fun x => (x.2))
      = (d.decodeRow quoted r).map (fun x => x.2) := by
  have h := decodeRow_mapOpts (fun po => { po with logical := l }) quoted d r hr
  simp only [DecState.mapOpts] at h
  rw [h]
  cases d.decodeRow quoted r with
  | error e => rfl
  | ok x => rfl

/-! ## Strengthenings -/

/-- (d'') Strengthening of (d'): not only the delivered event but the whole result agrees — the
    state reached by the decoder with the rewritten logical type is the state reached by the
    original decoder with its logical type rewritten, and failures are the same failures. -/
theorem C13_logical_type_irrelevant_state (quoted : Bool) (d : DecState) (l : Nat) (r : Row)
    (hr : ∀ o, r ≠ .options o) :
    ({ d with opts := { d.opts with logical := l } } : DecState).decodeRow quoted r
      = match d.decodeRow quoted r with
        | .error e => .error e
        | .ok (d', ev) => .ok (({ d' with opts := { d'.opts with logical := l } } : DecState), ev) := by
  have h := decodeRow_mapOpts (fun po => { po with logical := l }) quoted d r hr
  simp only [DecState.mapOpts] at h
  rw [h]
  cases d.decodeRow quoted r with
  | error e => rfl
  | ok x => rfl

/-- (c''') The reader rejects any table above 4096 before allocating it: whatever parser options
    were read from an options row that declares an oversized table, `Decoder.__init__` raises
    `JellyAssertionError`, for every adapter. -/
theorem C13_reader_rejects_oversized (f : Frame) (o : Options) (rest : List Row) (delimited : Bool)
    (opts : ParserOptions) (a : AdapterKind)
    (hf : f.rows = .options o :: rest)
    (ho : optionsFromFrame f delimited = .ok opts)
    (h : 4096 < o.maxNames ∨ 4096 < o.maxPrefixes ∨ 4096 < o.maxDatatypes) :
    DecState.new opts a = .error .jassertion := by
  apply DecState.new_oversized
  rw [optionsFromFrame_ok_hdr hf ho]
  exact h

/-- (b') A stream declaring a protocol version above 2 is rejected at its options row: the parser
    options are clamped to version 2 by `options_from_frame`, so the `version >=` assert of
    `validate_stream_options` fails when the decoder meets the row. -/
theorem C13_reader_rejects_new_version (f : Frame) (o : Options) (rest : List Row) (delimited : Bool)
    (opts : ParserOptions) (a : AdapterKind) (d0 : DecState) (quoted : Bool)
    (hf : f.rows = .options o :: rest) (hv : 2 < o.version)
    (ho : optionsFromFrame f delimited = .ok opts)
    (_ha : adapterFor opts.physical = .ok a)
    (hd : DecState.new opts a = .ok d0) :
    d0.decodeRow quoted (.options o) = .error .assertionError := by
  obtain ⟨hopts, _⟩ := DecState.new_ok_hdr hd
  have hver : d0.opts.version = 2 := by
    rw [hopts, optionsFromFrame_ok_hdr hf ho]
    exact if_pos (by omega)
  simp only [DecState.decodeRow, DecState.validateOptions, hver]
  rw [if_neg]
  simp only [Bool.and_eq_true, decide_eq_true_eq, not_and]
  intros
  omega

/-- The `(kind, logical type, frame size)` of the flow `Stream.infer_flow` picks, written out. -/
def expectedFlow (cls : StreamClass) (lt : Nat) (delimited : Bool) : FlowKind × Nat × Nat :=
  if delimited then
    match lt with
    | 0 =>
      match cls with
      | .triple => (.flatTriples, 1, 7)
      | .quad => (.flatQuads, 2, 7)
      | .graph => (.flatQuads, 2, 7)
    | 1 => (.flatTriples, 1, 7)
    | 2 => (.flatQuads, 2, 7)
    | 3 => (.graphs, 3, 250)
    | 13 => (.graphs, 13, 250)
    | 4 => (.datasets, 4, 250)
    | 14 => (.datasets, 14, 250)
    | _ => (.datasets, 114, 250)
  else (.manual, lt, 250)

/-- (e) The configuration lattice of `infer_flow`: for every stream class, every declared logical
    type and both framing modes the inferred flow exists and is the tabulated one. Delimited:
    unspecified → the class default flat flow with the class default logical type and the
    requested frame size; 1, 2 → flat flows with the requested frame size; 3, 13 → graphs flow and
    4, 14, 114 → datasets flow, both keeping the declared logical type and ignoring the requested
    frame size (250 = DEFAULT); non-delimited → always the manual flow with the declared type. -/
theorem C13_infer_flow_table :
    ∀ cls ∈ [StreamClass.triple, .quad, .graph], ∀ lt ∈ logicalTypes, ∀ delimited ∈ [true, false],
      (inferFlow cls { logicalType := lt, params := { delimited := delimited }, frameSize := 7 }).map
          (fun f => (f.kind, f.logicalType, f.frameSize))
        = .ok (expectedFlow cls lt delimited) := by
  decide

end Jelly

import JellyModel.PyPreludeStmt
import JellyModel.Stream
/-!
# Prelude for the TRANSLATED stream methods (`harness/gen_translate_stream.py`)

`flowExtend rows`: `UserList.extend` / `append` on a frame flow — the rows go to the end of `flow.rows`.
-/
namespace Jelly.Py

def flowExtend (rows : List Row) : M Flow Unit := modify fun f => { f with rows := f.rows ++ rows }

end Jelly.Py

namespace Jelly.Py
/-- a generator method of a stream: the frames yielded so far are the second component of the state -/
def onStream (m : M Stream α) : M (Stream × List Frame) α := zoom (·.1) (fun s v => (v, s.2)) m
def yieldFrame (fr : Frame) : M (Stream × List Frame) Unit := modify fun s => (s.1, s.2 ++ [fr])
end Jelly.Py

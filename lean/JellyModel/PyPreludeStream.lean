import JellyModel.PyPreludeStmt
import JellyModel.Stream
/-!
# Prelude for the TRANSLATED stream methods (`harness/gen_translate_stream.py`)

`flowExtend rows`: `UserList.extend` / `append` on a frame flow — the rows go to the end of `flow.rows`.
-/
namespace Jelly.Py

def flowExtend (rows : List Row) : M Flow Unit := modify fun f => { f with rows := f.rows ++ rows }

end Jelly.Py

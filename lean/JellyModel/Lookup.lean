import JellyModel.Basic
/-!
# Lookup tables: `pyjelly/serialize/lookup.py` and `pyjelly/parse/lookup.py`

`Lookup.data` models the `OrderedDict[str,int]` as an oldest-first association list;
`move_to_end` = erase + append. `LookupDec.data` models the `deque[str|None]` of fixed
length `lookup_size`.
-/
namespace Jelly

/-! ## Writer side -/

structure Lookup where
  maxSize : Nat
  data : List (String × Nat) := []
  evicting : Bool := false
  /-- `Lookup.pinned`: the keys used by the row that is being encoded (`none`: not tracked — the state
      of a table nobody called `TermEncoder.start_row` on). They must stay resident until the row is
      emitted, so evicting one of them is refused. -/
  pinned : Option (List String) := none
deriving Repr, DecidableEq, Inhabited

/-- `if self.pinned is not None: self.pinned.add(key)` -/
def Lookup.pin (l : Lookup) (k : String) : Lookup :=
  match l.pinned with
  | none => l
  | some ps => { l with pinned := some (k :: ps) }

/-- `self.pinned is not None and key in self.pinned` -/
def Lookup.isPinned (l : Lookup) (k : String) : Bool :=
  match l.pinned with
  | none => false
  | some ps => ps.contains k

def Lookup.new (n : Nat) : Lookup := { maxSize := n }

def Lookup.find? (l : Lookup) (k : String) : Option (String × Nat) :=
  l.data.find? (·.1 == k)

/-- `make_last_to_evict`: `none` models `KeyError`. -/
def Lookup.moveToEnd (l : Lookup) (k : String) : Option Lookup :=
  match l.find? k with
  | none => none
  | some e => some (({ l with data := l.data.erase e ++ [e] } : Lookup).pin k)

/-- `Lookup.insert` (the key is known to be absent at every call site). When the table is full the
    least recently used entry goes — unless the row being encoded uses it: then every entry is in use
    by this one row and `JellyConformanceError` is raised. -/
def Lookup.insert (l : Lookup) (k : String) : Except PyErr (Lookup × Nat) :=
  if l.maxSize == 0 then .error .indexError
  else if l.evicting then
    match l.data with
    | [] => .error .keyError            -- popitem on an empty dict; unreachable when maxSize ≥ 1
    | (k0, i) :: rest =>
      if l.isPinned k0 then .error .conformance
      else .ok (({ l with data := rest ++ [(k, i)] } : Lookup).pin k, i)
  else
    let i := l.data.length + 1
    .ok (({ l with data := l.data ++ [(k, i)], evicting := i == l.maxSize } : Lookup).pin k, i)

structure LookupEnc where
  lookup : Lookup
  lastAssigned : Nat := 0
  lastReused : Nat := 0
deriving Repr, DecidableEq, Inhabited

def LookupEnc.new (n : Nat) : LookupEnc := { lookup := Lookup.new n }

/-- `encode_entry_index`: `none` = hit (no entry row), `some id` = emit an entry with that id. -/
def LookupEnc.entryIndex (e : LookupEnc) (k : String) : Except PyErr (LookupEnc × Option Nat) :=
  match e.lookup.moveToEnd k with
  | some l' => .ok ({ e with lookup := l' }, none)
  | none =>
    match e.lookup.insert k with
    | .error err => .error err
    | .ok (l', idx) =>
      .ok ({ e with lookup := l', lastAssigned := idx },
           some (if idx == e.lastAssigned + 1 then 0 else idx))

/-- `encode_term_index`. -/
def LookupEnc.termIndex (e : LookupEnc) (v : String) : Except PyErr (LookupEnc × Nat) :=
  match e.lookup.moveToEnd v with
  | none => .error .keyError
  | some l' =>
    match l'.find? v with
    | none => .error .keyError
    | some (_, idx) => .ok ({ e with lookup := l', lastReused := idx }, idx)

def LookupEnc.prefixTermIndex (e : LookupEnc) (v : String) : Except PyErr (LookupEnc × Nat) :=
  if e.lookup.maxSize == 0 then .ok (e, 0)
  else if v == "" && e.lastReused == 0 then .ok (e, 0)
  else
    match e.termIndex v with
    | .error err => .error err
    | .ok (e', cur) =>
      if e.lastReused == 0 then .ok (e', cur)
      else if cur == e.lastReused then .ok (e', 0)
      else .ok (e', cur)

def LookupEnc.nameTermIndex (e : LookupEnc) (v : String) : Except PyErr (LookupEnc × Nat) :=
  match e.termIndex v with
  | .error err => .error err
  | .ok (e', cur) => if cur == e.lastReused + 1 then .ok (e', 0) else .ok (e', cur)

def LookupEnc.datatypeTermIndex (e : LookupEnc) (v : String) : Except PyErr (LookupEnc × Nat) :=
  if e.lookup.maxSize == 0 then .ok (e, 0) else e.termIndex v

/-! ## Reader side -/

def MAX_LOOKUP_SIZE : Nat := 4096

structure LookupDec where
  size : Nat
  data : List (Option String)
  lastAssigned : Nat := 0
  lastReused : Nat := 0
deriving Repr, DecidableEq, Inhabited

def LookupDec.new (n : Nat) : Except PyErr LookupDec :=
  if n > MAX_LOOKUP_SIZE then .error .jassertion
  else .ok { size := n, data := List.replicate n none }

/-- `assign_entry`: ids arrive as uint32, so `index > 0` always holds after the zero rule. -/
def LookupDec.assignEntry (d : LookupDec) (index : Nat) (v : String) : Except PyErr LookupDec :=
  let i := if index == 0 then d.lastAssigned + 1 else index
  if i - 1 < d.data.length then
    .ok { d with data := d.data.set (i - 1) (some v), lastAssigned := i }
  else .error .indexError

/-- `at`: `last_reused_index` is updated before the slot is read, also when the read fails. -/
def LookupDec.at (d : LookupDec) (index : Nat) : LookupDec × Except PyErr String :=
  let d' := { d with lastReused := index }
  if index == 0 then
    -- Python's `data[-1]`: the last slot (unreachable from the three callers below)
    match d.data.getLast? with
    | none => (d', .error .indexError)
    | some none => (d', .error .indexError)
    | some (some s) => (d', .ok s)
  else
    match d.data[index - 1]? with
    | none => (d', .error .indexError)
    | some none => (d', .error .indexError)
    | some (some s) => (d', .ok s)

def LookupDec.prefixTerm (d : LookupDec) (index : Nat) : LookupDec × Except PyErr String :=
  let actual := if index != 0 then index else d.lastReused
  if actual == 0 then (d, .ok "") else d.at actual

def LookupDec.nameTerm (d : LookupDec) (index : Nat) : LookupDec × Except PyErr String :=
  let actual := if index != 0 then index else d.lastReused + 1
  if actual == 0 then (d, .error .conformance) else d.at actual

def LookupDec.datatypeTerm (d : LookupDec) (index : Nat) : LookupDec × Except PyErr String :=
  if index == 0 then (d, .error .conformance) else d.at index

end Jelly
